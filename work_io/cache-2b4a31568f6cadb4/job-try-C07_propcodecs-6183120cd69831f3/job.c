#include "v_rt.h"
struct S0_class_std__ios_base__Init;
struct S1;
struct S2;
struct S3;
struct S4;
struct S5;
struct S6;
struct S7;
struct S8;
struct S9;
struct S10_class_OpenVolumeMesh__IO__PropertyDecode;
struct S11_class_OpenVolumeMesh__IO__PropertyCodecs;
struct S12_class_OpenVolumeMesh__PropertyStorageT;
struct S13_class_OpenVolumeMesh__detail__Tracker;
struct S14_class_std____cxx11__basic_string;
struct S15_class_std__vector_46;
struct S16_class_std___Rb_tree_5;
struct S17_struct_std___Rb_tree_node_base;
struct S18_struct_std___Rb_tree_node_33;
struct S19_class_OpenVolumeMesh__detail__Tracked;
struct S20_class_std___Sp_counted_base;
struct S21_struct_std___Rb_tree_node;
struct S22_class_OpenVolumeMesh__PropertyStorageBas;
struct S23_class_std__basic_ostream;
struct S24_class_std__basic_istream;
struct S25_class_std__weak_ptr;
struct S26_class_std__unique_ptr;
struct S27_class_std__bad_cast;
struct S28_class_anon;
struct S29_class_std__runtime_error;
struct S30_class_std____shared_ptr_66;
struct S31_class_OpenVolumeMesh__PropertyPtr_86;
struct S32_class_OpenVolumeMesh__PropertyStoragePtr;
struct S33_class_OpenVolumeMesh__HandleIndexing_87;
struct S34_class_std__ctype;
struct S35_struct_std___Bvector_base;
struct S36;
struct S37_class_std__enable_shared_from_this;
struct S38_class_std___Sp_counted_ptr_inplace;
struct S39_class_std__type_info;
struct S40_class_std____weak_ptr;
struct S41_struct_std___Rb_tree_node_31;
struct S42_class_std__shared_ptr_12;
struct S43_class_std__map;
struct S44_class_std__shared_ptr;
struct S45_class_std__tuple_195;
struct S46;
struct S47_struct_std___Rb_tree_std____cxx11__basic;
struct S48_class_OpenVolumeMesh__IO__detail__parse_;
struct S49_class_OpenVolumeMesh__IO__PropertyEncode;
struct S50_class_std___Sp_counted_ptr_inplace_3753;
struct S51_class_std____shared_ptr_3742;
struct S52_class_std____shared_ptr_3746;
struct S53_class_OpenVolumeMesh__ResourceManager;
struct S54_class_std__vector;
struct S55_class_OpenVolumeMesh__IO__detail__Decode;
struct S56_class_std__shared_ptr_65;
struct S57_class_anon_726;
struct S58_class_std__optional_184;
struct S59_struct_std___Optional_base_185;
struct S60_class_std___Sp_counted_ptr_inplace_3767;
struct S61_class_OpenVolumeMesh__IO__PropertyEncode;
struct S62_class_OpenVolumeMesh__IO__detail__WriteB;
struct S63_class_OpenVolumeMesh__IO__detail__Encode;
struct S64_union_anon;
struct S65;
struct S66_struct___gnu_cxx____aligned_membuf;
struct S67_struct___gnu_cxx____aligned_membuf_34;
struct S68_class_std__basic_streambuf;
struct S69;
struct S70_class_std____weak_count;
struct S71_struct___gnu_cxx____aligned_buffer;
struct S72_struct___gnu_cxx____aligned_membuf_32;
struct S73_class_std__shared_ptr_3741;
struct S74_class_std__shared_ptr_3745;
struct S75_struct___gnu_cxx____aligned_buffer_3754;
struct S76_struct___gnu_cxx____aligned_buffer_3768;
struct A0;
struct A1;
struct A2;
struct A3;
struct A4;
struct A5;
struct A6;
struct A7;
struct A8;
struct A9;
struct A10;
struct A11;
struct A12;
struct A13;
struct A14;
struct A15;
struct A16;
struct A17;
struct A18;
struct A19;
struct A20;
struct A21;
struct A22;
struct A23;
struct A24;
struct A25;
struct A26;
struct A27;
struct A28;
struct A29;
struct A30;
struct A31;
struct A32;
struct S0_class_std__ios_base__Init { u8 f0; };
struct A33 { u8* e[7]; };
struct S1 { struct A33 f0; };
struct S2 { u8* f0; u8* f1; };
struct S3 { u8* f0; u8* f1; u8* f2; };
struct A34 { u8* e[6]; };
struct S4 { struct A34 f0; };
struct A35 { u8* e[5]; };
struct S5 { struct A35 f0; };
struct S6 { struct A35 f0; struct A35 f1; };
struct S7 { u8* f0; u8* f1; u32 f2; u32 f3; u8* f4; u64 f5; u8* f6; u64 f7; };
struct A36 { u8* e[4]; };
struct S8 { struct A36 f0; };
struct A37 { u8* e[19]; };
struct S9 { struct A37 f0; };
struct S10_class_OpenVolumeMesh__IO__PropertyDecode { fnptr_t* f0; };
struct S77_struct_std___Rb_tree_key_compare_9 { struct S0_class_std__ios_base__Init f0; };
struct S17_struct_std___Rb_tree_node_base { u32 f0; struct S17_struct_std___Rb_tree_node_base* f1; struct S17_struct_std___Rb_tree_node_base* f2; struct S17_struct_std___Rb_tree_node_base* f3; };
struct S78_struct_std___Rb_tree_header { struct S17_struct_std___Rb_tree_node_base f0; u64 f1; };
struct S79_struct_std___Rb_tree_std____cxx11__basic { struct S77_struct_std___Rb_tree_key_compare_9 f0; struct S78_struct_std___Rb_tree_header f1; };
struct S16_class_std___Rb_tree_5 { struct S79_struct_std___Rb_tree_std____cxx11__basic f0; };
struct S43_class_std__map { struct S16_class_std___Rb_tree_5 f0; };
struct S11_class_OpenVolumeMesh__IO__PropertyCodecs { struct S43_class_std__map f0; struct S43_class_std__map f1; };
struct S19_class_OpenVolumeMesh__detail__Tracked { fnptr_t* f0; struct S13_class_OpenVolumeMesh__detail__Tracker* f1; };
struct S70_class_std____weak_count { struct S20_class_std___Sp_counted_base* f0; };
struct S40_class_std____weak_ptr { struct S22_class_OpenVolumeMesh__PropertyStorageBas* f0; struct S70_class_std____weak_count f1; };
struct S25_class_std__weak_ptr { struct S40_class_std____weak_ptr f0; };
struct S37_class_std__enable_shared_from_this { struct S25_class_std__weak_ptr f0; };
struct S80_struct_std____cxx11__basic_string_char__ { u8* f0; };
struct A8 { u8 e[16]; };
struct S64_union_anon { struct A8 f0; };
struct S14_class_std____cxx11__basic_string { struct S80_struct_std____cxx11__basic_string_char__ f0; u64 f1; struct S64_union_anon f2; };
struct S81_class_OpenVolumeMesh__PropertyStorageBas { struct S19_class_OpenVolumeMesh__detail__Tracked f0; struct S37_class_std__enable_shared_from_this f1; struct S14_class_std____cxx11__basic_string f2; struct S14_class_std____cxx11__basic_string f3; u8 f4; u8 f5; u8 f6; } __attribute__((packed));
struct A38 { u8 e[5]; };
struct S82_struct_std___Bit_iterator_base_base { u64* f0; u32 f1; } __attribute__((packed));
struct A39 { u8 e[4]; };
struct S83_struct_std___Bit_iterator { struct S82_struct_std___Bit_iterator_base_base f0; struct A39 f1; };
struct S84_struct_std___Bvector_base_std__allocator { struct S83_struct_std___Bit_iterator f0; struct S83_struct_std___Bit_iterator f1; u64* f2; };
struct S85_struct_std___Bvector_base_std__allocator { struct S84_struct_std___Bvector_base_std__allocator f0; };
struct S35_struct_std___Bvector_base { struct S85_struct_std___Bvector_base_std__allocator f0; };
struct S15_class_std__vector_46 { struct S35_struct_std___Bvector_base f0; };
struct A40 { u8 e[7]; };
struct S12_class_OpenVolumeMesh__PropertyStorageT { struct S81_class_OpenVolumeMesh__PropertyStorageBas f0; struct A38 f1; struct S15_class_std__vector_46 f2; u8 f3; struct A40 f4; } __attribute__((packed));
struct S13_class_OpenVolumeMesh__detail__Tracker { fnptr_t* f0; struct S43_class_std__map f1; };
struct A41 { u8 e[48]; };
struct S67_struct___gnu_cxx____aligned_membuf_34 { struct A41 f0; };
struct S18_struct_std___Rb_tree_node_33 { struct S17_struct_std___Rb_tree_node_base f0; struct S67_struct___gnu_cxx____aligned_membuf_34 f1; };
struct S20_class_std___Sp_counted_base { fnptr_t* f0; u32 f1; u32 f2; };
struct A42 { u8 e[8]; };
struct S66_struct___gnu_cxx____aligned_membuf { struct A42 f0; };
struct S21_struct_std___Rb_tree_node { struct S17_struct_std___Rb_tree_node_base f0; struct S66_struct___gnu_cxx____aligned_membuf f1; };
struct S22_class_OpenVolumeMesh__PropertyStorageBas { struct S19_class_OpenVolumeMesh__detail__Tracked f0; struct S37_class_std__enable_shared_from_this f1; struct S14_class_std____cxx11__basic_string f2; struct S14_class_std____cxx11__basic_string f3; u8 f4; u8 f5; u8 f6; struct A38 f7; } __attribute__((packed));
struct S86_struct_std__ios_base___Words { u8* f0; u64 f1; };
struct A43 { struct S86_struct_std__ios_base___Words e[8]; };
struct S87_class_std__locale { struct S88_class_std__locale___Impl* f0; };
struct S89_class_std__ios_base { fnptr_t* f0; u64 f1; u64 f2; u32 f3; u32 f4; u32 f5; struct S90_struct_std__ios_base___Callback_list* f6; struct S86_struct_std__ios_base___Words f7; struct A43 f8; u32 f9; struct S86_struct_std__ios_base___Words* f10; struct S87_class_std__locale f11; };
struct S91_class_std__basic_ios { struct S89_class_std__ios_base f0; struct S23_class_std__basic_ostream* f1; u8 f2; u8 f3; struct S68_class_std__basic_streambuf* f4; struct S34_class_std__ctype* f5; struct S92_class_std__num_put* f6; struct S92_class_std__num_put* f7; };
struct S23_class_std__basic_ostream { fnptr_t* f0; struct S91_class_std__basic_ios f1; };
struct S24_class_std__basic_istream { fnptr_t* f0; u64 f1; struct S91_class_std__basic_ios f2; };
struct S93_struct_std___Head_base_51 { struct S10_class_OpenVolumeMesh__IO__PropertyDecode* f0; };
struct S94_struct_std___Tuple_impl { struct S93_struct_std___Head_base_51 f0; };
struct S95_class_std__tuple { struct S94_struct_std___Tuple_impl f0; };
struct S96_class_std____uniq_ptr_impl { struct S95_class_std__tuple f0; };
struct S97_struct_std____uniq_ptr_data { struct S96_class_std____uniq_ptr_impl f0; };
struct S26_class_std__unique_ptr { struct S97_struct_std____uniq_ptr_data f0; };
struct S27_class_std__bad_cast { struct S10_class_OpenVolumeMesh__IO__PropertyDecode f0; };
struct S28_class_anon { struct S12_class_OpenVolumeMesh__PropertyStorageT* f0; };
struct S98_struct_std____cow_string { struct S80_struct_std____cxx11__basic_string_char__ f0; };
struct S29_class_std__runtime_error { struct S10_class_OpenVolumeMesh__IO__PropertyDecode f0; struct S98_struct_std____cow_string f1; };
struct S30_class_std____shared_ptr_66 { struct S12_class_OpenVolumeMesh__PropertyStorageT* f0; struct S70_class_std____weak_count f1; };
struct S56_class_std__shared_ptr_65 { struct S30_class_std____shared_ptr_66 f0; };
struct S32_class_OpenVolumeMesh__PropertyStoragePtr { fnptr_t* f0; struct S56_class_std__shared_ptr_65 f1; };
struct S33_class_OpenVolumeMesh__HandleIndexing_87 { struct S32_class_OpenVolumeMesh__PropertyStoragePtr f0; };
struct S31_class_OpenVolumeMesh__PropertyPtr_86 { struct S33_class_OpenVolumeMesh__HandleIndexing_87 f0; struct S10_class_OpenVolumeMesh__IO__PropertyDecode f1; };
struct S99_class_std__locale__facet_base { fnptr_t* f0; u32 f1; } __attribute__((packed));
struct A44 { u8 e[256]; };
struct A45 { u8 e[6]; };
struct S34_class_std__ctype { struct S99_class_std__locale__facet_base f0; struct A39 f1; struct S100_struct___locale_struct* f2; u8 f3; struct A40 f4; u32* f5; u32* f6; u16* f7; u8 f8; struct A44 f9; struct A44 f10; u8 f11; struct A45 f12; } __attribute__((packed));
struct S36 { struct S17_struct_std___Rb_tree_node_base* f0; u8 f1; };
struct S71_struct___gnu_cxx____aligned_buffer { struct S12_class_OpenVolumeMesh__PropertyStorageT f0; };
struct S101_class_std___Sp_counted_ptr_inplace_OpenV { struct S71_struct___gnu_cxx____aligned_buffer f0; };
struct S38_class_std___Sp_counted_ptr_inplace { struct S20_class_std___Sp_counted_base f0; struct S101_class_std___Sp_counted_ptr_inplace_OpenV f1; };
struct S39_class_std__type_info { fnptr_t* f0; u8* f1; };
struct S72_struct___gnu_cxx____aligned_membuf_32 { struct A8 f0; };
struct S41_struct_std___Rb_tree_node_31 { struct S17_struct_std___Rb_tree_node_base f0; struct S72_struct___gnu_cxx____aligned_membuf_32 f1; };
struct S102_class_std____shared_ptr_13 { struct S49_class_OpenVolumeMesh__IO__PropertyEncode* f0; struct S70_class_std____weak_count f1; };
struct S42_class_std__shared_ptr_12 { struct S102_class_std____shared_ptr_13 f0; };
struct S103_class_std____shared_ptr { struct S10_class_OpenVolumeMesh__IO__PropertyDecode* f0; struct S70_class_std____weak_count f1; };
struct S44_class_std__shared_ptr { struct S103_class_std____shared_ptr f0; };
struct S104_struct_std___Head_base_197 { struct S14_class_std____cxx11__basic_string* f0; };
struct S105_struct_std___Tuple_impl_196 { struct S104_struct_std___Head_base_197 f0; };
struct S45_class_std__tuple_195 { struct S105_struct_std___Tuple_impl_196 f0; };
struct S46 { struct S17_struct_std___Rb_tree_node_base* f0; struct S17_struct_std___Rb_tree_node_base* f1; };
struct S47_struct_std___Rb_tree_std____cxx11__basic { struct S16_class_std___Rb_tree_5* f0; struct S18_struct_std___Rb_tree_node_33* f1; };
struct S106_class_OpenVolumeMesh__IO__detail__io_err { struct S29_class_std__runtime_error f0; };
struct S48_class_OpenVolumeMesh__IO__detail__parse_ { struct S106_class_OpenVolumeMesh__IO__detail__io_err f0; };
struct S49_class_OpenVolumeMesh__IO__PropertyEncode { fnptr_t* f0; struct S14_class_std____cxx11__basic_string f1; };
struct S61_class_OpenVolumeMesh__IO__PropertyEncode { struct S49_class_OpenVolumeMesh__IO__PropertyEncode f0; };
struct S75_struct___gnu_cxx____aligned_buffer_3754 { struct S61_class_OpenVolumeMesh__IO__PropertyEncode f0; };
struct S107_class_std___Sp_counted_ptr_inplace_OpenV { struct S75_struct___gnu_cxx____aligned_buffer_3754 f0; };
struct S50_class_std___Sp_counted_ptr_inplace_3753 { struct S20_class_std___Sp_counted_base f0; struct S107_class_std___Sp_counted_ptr_inplace_OpenV f1; };
struct S51_class_std____shared_ptr_3742 { struct S61_class_OpenVolumeMesh__IO__PropertyEncode* f0; struct S70_class_std____weak_count f1; };
struct S52_class_std____shared_ptr_3746 { struct S27_class_std__bad_cast* f0; struct S70_class_std____weak_count f1; };
struct A46 { struct S43_class_std__map e[7]; };
struct S108_struct_std__array { struct A46 f0; };
struct S109_class_OpenVolumeMesh__PerEntity { struct S108_struct_std__array f0; };
struct A47 { struct S13_class_OpenVolumeMesh__detail__Tracker e[7]; };
struct S110_struct_std__array_26 { struct A47 f0; };
struct S111_class_OpenVolumeMesh__PerEntity_25 { struct S110_struct_std__array_26 f0; };
struct S53_class_OpenVolumeMesh__ResourceManager { fnptr_t* f0; struct S109_class_OpenVolumeMesh__PerEntity f1; struct S111_class_OpenVolumeMesh__PerEntity_25 f2; };
struct S112_struct_std___Vector_base_unsigned_char__ { u8* f0; u8* f1; u8* f2; };
struct S113_struct_std___Vector_base_unsigned_char__ { struct S112_struct_std___Vector_base_unsigned_char__ f0; };
struct S114_struct_std___Vector_base { struct S113_struct_std___Vector_base_unsigned_char__ f0; };
struct S54_class_std__vector { struct S114_struct_std___Vector_base f0; };
struct S55_class_OpenVolumeMesh__IO__detail__Decode { struct S54_class_std__vector f0; u8* f1; u8* f2; };
struct S57_class_anon_726 { struct S53_class_OpenVolumeMesh__ResourceManager* f0; struct S14_class_std____cxx11__basic_string* f1; u8* f2; };
struct S115_union_std___Optional_payload_base_OpenVo { struct S31_class_OpenVolumeMesh__PropertyPtr_86 f0; };
struct S116_struct_std___Optional_payload_base_base_ { struct S115_union_std___Optional_payload_base_OpenVo f0; u8 f1; } __attribute__((packed));
struct S117_struct_std___Optional_payload_base_191 { struct S116_struct_std___Optional_payload_base_base_ f0; };
struct S118_struct_std___Optional_payload_187 { struct S117_struct_std___Optional_payload_base_191 f0; struct A40 f1; };
struct S59_struct_std___Optional_base_185 { struct S118_struct_std___Optional_payload_187 f0; };
struct S58_class_std__optional_184 { struct S59_struct_std___Optional_base_185 f0; };
struct S76_struct___gnu_cxx____aligned_buffer_3768 { struct S27_class_std__bad_cast f0; };
struct S119_class_std___Sp_counted_ptr_inplace_OpenV { struct S76_struct___gnu_cxx____aligned_buffer_3768 f0; };
struct S60_class_std___Sp_counted_ptr_inplace_3767 { struct S20_class_std___Sp_counted_base f0; struct S119_class_std___Sp_counted_ptr_inplace_OpenV f1; };
struct S62_class_OpenVolumeMesh__IO__detail__WriteB { struct S54_class_std__vector f0; u64 f1; };
struct S63_class_OpenVolumeMesh__IO__detail__Encode { struct S62_class_OpenVolumeMesh__IO__detail__WriteB* f0; };
struct S65 { u8* f0; u32 f1; };
struct S68_class_std__basic_streambuf { fnptr_t* f0; u8* f1; u8* f2; u8* f3; u8* f4; u8* f5; u8* f6; struct S87_class_std__locale f7; };
struct S69 { u32 f0; u1 f1; };
struct S73_class_std__shared_ptr_3741 { struct S51_class_std____shared_ptr_3742 f0; };
struct S74_class_std__shared_ptr_3745 { struct S52_class_std____shared_ptr_3746 f0; };
struct S88_class_std__locale___Impl { u32 f0; struct S120_class_std__locale__facet** f1; u64 f2; struct S120_class_std__locale__facet** f3; u8** f4; };
struct S90_struct_std__ios_base___Callback_list { struct S90_struct_std__ios_base___Callback_list* f0; fnptr_t f1; u32 f2; u32 f3; };
struct S92_class_std__num_put { struct S99_class_std__locale__facet_base f0; struct A39 f1; };
struct A48 { struct S121_struct___locale_data* e[13]; };
struct A49 { u8* e[13]; };
struct S100_struct___locale_struct { struct A48 f0; u16* f1; u32* f2; u32* f3; struct A49 f4; };
struct S120_class_std__locale__facet { fnptr_t* f0; u32 f1; struct A39 f2; } __attribute__((packed));
struct A0 { u8 e[96]; };
struct A1 { u8 e[52]; };
struct A2 { u8 e[68]; };
struct A3 { u8 e[57]; };
struct A4 { u8 e[94]; };
struct A5 { u8 e[54]; };
struct A6 { u8 e[27]; };
struct A7 { u8 e[30]; };
struct A9 { u8 e[28]; };
struct A10 { u8 e[38]; };
struct A11 { u8 e[29]; };
struct A12 { u8 e[133]; };
struct A13 { u8 e[47]; };
struct A14 { u8 e[70]; };
struct A15 { u8 e[43]; };
struct A16 { u8 e[24]; };
struct A17 { u8 e[22]; };
struct A18 { u8 e[53]; };
struct A19 { u8 e[82]; };
struct A20 { u8 e[42]; };
struct A21 { u8 e[36]; };
struct A22 { u8 e[103]; };
struct A23 { u8 e[40]; };
struct A24 { u8 e[69]; };
struct A25 { u8 e[61]; };
struct A26 { u8 e[51]; };
struct A27 { u8 e[80]; };
struct A28 { u8 e[55]; };
struct A29 { u8 e[84]; };
struct A30 { u8 e[19]; };
struct A31 { u8 e[26]; };
struct A32 { u8 e[50]; };
typedef void (*FT0)(struct S10_class_OpenVolumeMesh__IO__PropertyDecode*, struct S22_class_OpenVolumeMesh__PropertyStorageBas*, struct S55_class_OpenVolumeMesh__IO__detail__Decode*, u64, u64);
typedef void (*FT1)(struct S20_class_std___Sp_counted_base*);
typedef u8 (*FT2)(struct S34_class_std__ctype*, u8);
typedef void (*FT3)(struct S12_class_OpenVolumeMesh__PropertyStorageT*);
typedef void (*FT4)(struct S27_class_std__bad_cast*);
typedef void (*FT5)(struct S61_class_OpenVolumeMesh__IO__PropertyEncode*);
typedef u64 (*FT6)(struct S53_class_OpenVolumeMesh__ResourceManager*);
extern struct S0_class_std__ios_base__Init _ZStL8__ioinit;
extern struct A0 _ZL5g_raw;
extern struct A1 _str_7;
extern struct A1 _str_8;
extern struct A2 _str_9;
extern struct A3 _str_10;
extern struct A4 _str_11;
extern struct A5 _str_12;
extern struct A6 _str_13;
extern struct A7 _str_14;
extern struct A8 _str_15;
extern struct A9 _str_16;
extern struct A10 _str_17;
extern struct A11 _str_18;
extern struct S1 _ZTVSt23_Sp_counted_ptr_inplaceIN14OpenVolumeMesh2IO16PropertyEncoderTIbNS1_6Codecs13BoolPropCodecEEESaIvELN9__gnu_cxx12_Lock_policyE2EE;
extern struct A12 _ZTSSt23_Sp_counted_ptr_inplaceIN14OpenVolumeMesh2IO16PropertyEncoderTIbNS1_6Codecs13BoolPropCodecEEESaIvELN9__gnu_cxx12_Lock_policyE2EE;
extern struct A1 _ZTSSt16_Sp_counted_baseILN9__gnu_cxx12_Lock_policyE2EE;
extern struct A13 _ZTSSt11_Mutex_baseILN9__gnu_cxx12_Lock_policyE2EE;
extern struct S2 _ZTISt11_Mutex_baseILN9__gnu_cxx12_Lock_policyE2EE;
extern struct S3 _ZTISt16_Sp_counted_baseILN9__gnu_cxx12_Lock_policyE2EE;
extern struct S3 _ZTISt23_Sp_counted_ptr_inplaceIN14OpenVolumeMesh2IO16PropertyEncoderTIbNS1_6Codecs13BoolPropCodecEEESaIvELN9__gnu_cxx12_Lock_policyE2EE;
extern struct S1 _ZTVSt16_Sp_counted_baseILN9__gnu_cxx12_Lock_policyE2EE;
extern struct S4 _ZTVN14OpenVolumeMesh2IO16PropertyEncoderTIbNS0_6Codecs13BoolPropCodecEEE;
extern struct A14 _ZTSN14OpenVolumeMesh2IO16PropertyEncoderTIbNS0_6Codecs13BoolPropCodecEEE;
extern struct A15 _ZTSN14OpenVolumeMesh2IO19PropertyEncoderBaseE;
extern struct S2 _ZTIN14OpenVolumeMesh2IO19PropertyEncoderBaseE;
extern struct S3 _ZTIN14OpenVolumeMesh2IO16PropertyEncoderTIbNS0_6Codecs13BoolPropCodecEEE;
extern struct S4 _ZTVN14OpenVolumeMesh2IO19PropertyEncoderBaseE;
extern u8* _ZTISt8bad_cast;
extern struct S5 _ZTVSt8bad_cast;
extern struct A16 _ZTSSt19_Sp_make_shared_tag;
extern struct A8 _ZZNSt19_Sp_make_shared_tag5_S_tiEvE5__tag;
extern struct S0_class_std__ios_base__Init _ZSt19piecewise_construct;
extern u8* _ZTIb[2];
extern struct S1 _ZTVSt23_Sp_counted_ptr_inplaceIN14OpenVolumeMesh2IO16PropertyDecoderTIbNS1_6Codecs13BoolPropCodecEEESaIvELN9__gnu_cxx12_Lock_policyE2EE;
extern struct A12 _ZTSSt23_Sp_counted_ptr_inplaceIN14OpenVolumeMesh2IO16PropertyDecoderTIbNS1_6Codecs13BoolPropCodecEEESaIvELN9__gnu_cxx12_Lock_policyE2EE;
extern struct S3 _ZTISt23_Sp_counted_ptr_inplaceIN14OpenVolumeMesh2IO16PropertyDecoderTIbNS1_6Codecs13BoolPropCodecEEESaIvELN9__gnu_cxx12_Lock_policyE2EE;
extern struct S4 _ZTVN14OpenVolumeMesh2IO16PropertyDecoderTIbNS0_6Codecs13BoolPropCodecEEE;
extern struct A14 _ZTSN14OpenVolumeMesh2IO16PropertyDecoderTIbNS0_6Codecs13BoolPropCodecEEE;
extern struct A15 _ZTSN14OpenVolumeMesh2IO19PropertyDecoderBaseE;
extern struct S2 _ZTIN14OpenVolumeMesh2IO19PropertyDecoderBaseE;
extern struct S3 _ZTIN14OpenVolumeMesh2IO16PropertyDecoderTIbNS0_6Codecs13BoolPropCodecEEE;
extern struct A17 _str_33;
extern struct A10 _str_34;
extern struct S6 _ZTVN14OpenVolumeMesh11PropertyPtrIbNS_6Entity6VertexEEE;
extern u8* _ZTVN10__cxxabiv121__vmi_class_type_infoE;
extern struct A18 _ZTSN14OpenVolumeMesh11PropertyPtrIbNS_6Entity6VertexEEE;
extern struct A19 _ZTSN14OpenVolumeMesh14HandleIndexingINS_6Entity6VertexENS_18PropertyStoragePtrIbEEEE;
extern struct A20 _ZTSN14OpenVolumeMesh18PropertyStoragePtrIbEE;
extern struct S2 _ZTIN14OpenVolumeMesh18PropertyStoragePtrIbEE;
extern struct S3 _ZTIN14OpenVolumeMesh14HandleIndexingINS_6Entity6VertexENS_18PropertyStoragePtrIbEEEE;
extern struct A21 _ZTSN14OpenVolumeMesh15BasePropertyPtrE;
extern struct S2 _ZTIN14OpenVolumeMesh15BasePropertyPtrE;
extern struct S7 _ZTIN14OpenVolumeMesh11PropertyPtrIbNS_6Entity6VertexEEE;
extern struct S8 _ZTVN14OpenVolumeMesh14HandleIndexingINS_6Entity6VertexENS_18PropertyStoragePtrIbEEEE;
extern struct S8 _ZTVN14OpenVolumeMesh18PropertyStoragePtrIbEE;
extern struct S5 _ZTVN14OpenVolumeMesh15BasePropertyPtrE;
extern struct S1 _ZTVSt23_Sp_counted_ptr_inplaceIN14OpenVolumeMesh16PropertyStorageTIbEESaIvELN9__gnu_cxx12_Lock_policyE2EE;
extern struct A22 _ZTSSt23_Sp_counted_ptr_inplaceIN14OpenVolumeMesh16PropertyStorageTIbEESaIvELN9__gnu_cxx12_Lock_policyE2EE;
extern struct S3 _ZTISt23_Sp_counted_ptr_inplaceIN14OpenVolumeMesh16PropertyStorageTIbEESaIvELN9__gnu_cxx12_Lock_policyE2EE;
extern struct S9 _ZTVN14OpenVolumeMesh16PropertyStorageTIbEE;
extern struct A23 _ZTSN14OpenVolumeMesh16PropertyStorageTIbEE;
extern struct A23 _ZTSN14OpenVolumeMesh19PropertyStorageBaseE;
extern struct A24 _ZTSSt23enable_shared_from_thisIN14OpenVolumeMesh19PropertyStorageBaseEE;
extern struct S2 _ZTISt23enable_shared_from_thisIN14OpenVolumeMesh19PropertyStorageBaseEE;
extern struct A25 _ZTSN14OpenVolumeMesh6detail7TrackedINS_19PropertyStorageBaseEEE;
extern struct S2 _ZTIN14OpenVolumeMesh6detail7TrackedINS_19PropertyStorageBaseEEE;
extern struct S7 _ZTIN14OpenVolumeMesh19PropertyStorageBaseE;
extern struct S3 _ZTIN14OpenVolumeMesh16PropertyStorageTIbEE;
extern struct S9 _ZTVN14OpenVolumeMesh19PropertyStorageBaseE;
extern struct S8 _ZTVN14OpenVolumeMesh6detail7TrackedINS_19PropertyStorageBaseEEE;
extern struct S6 _ZTVN14OpenVolumeMesh11PropertyPtrIbNS_6Entity4EdgeEEE;
extern struct A26 _ZTSN14OpenVolumeMesh11PropertyPtrIbNS_6Entity4EdgeEEE;
extern struct A27 _ZTSN14OpenVolumeMesh14HandleIndexingINS_6Entity4EdgeENS_18PropertyStoragePtrIbEEEE;
extern struct S3 _ZTIN14OpenVolumeMesh14HandleIndexingINS_6Entity4EdgeENS_18PropertyStoragePtrIbEEEE;
extern struct S7 _ZTIN14OpenVolumeMesh11PropertyPtrIbNS_6Entity4EdgeEEE;
extern struct S8 _ZTVN14OpenVolumeMesh14HandleIndexingINS_6Entity4EdgeENS_18PropertyStoragePtrIbEEEE;
extern struct S6 _ZTVN14OpenVolumeMesh11PropertyPtrIbNS_6Entity8HalfEdgeEEE;
extern struct A28 _ZTSN14OpenVolumeMesh11PropertyPtrIbNS_6Entity8HalfEdgeEEE;
extern struct A29 _ZTSN14OpenVolumeMesh14HandleIndexingINS_6Entity8HalfEdgeENS_18PropertyStoragePtrIbEEEE;
extern struct S3 _ZTIN14OpenVolumeMesh14HandleIndexingINS_6Entity8HalfEdgeENS_18PropertyStoragePtrIbEEEE;
extern struct S7 _ZTIN14OpenVolumeMesh11PropertyPtrIbNS_6Entity8HalfEdgeEEE;
extern struct S8 _ZTVN14OpenVolumeMesh14HandleIndexingINS_6Entity8HalfEdgeENS_18PropertyStoragePtrIbEEEE;
extern struct S6 _ZTVN14OpenVolumeMesh11PropertyPtrIbNS_6Entity4FaceEEE;
extern struct A26 _ZTSN14OpenVolumeMesh11PropertyPtrIbNS_6Entity4FaceEEE;
extern struct A27 _ZTSN14OpenVolumeMesh14HandleIndexingINS_6Entity4FaceENS_18PropertyStoragePtrIbEEEE;
extern struct S3 _ZTIN14OpenVolumeMesh14HandleIndexingINS_6Entity4FaceENS_18PropertyStoragePtrIbEEEE;
extern struct S7 _ZTIN14OpenVolumeMesh11PropertyPtrIbNS_6Entity4FaceEEE;
extern struct S8 _ZTVN14OpenVolumeMesh14HandleIndexingINS_6Entity4FaceENS_18PropertyStoragePtrIbEEEE;
extern struct S6 _ZTVN14OpenVolumeMesh11PropertyPtrIbNS_6Entity8HalfFaceEEE;
extern struct A28 _ZTSN14OpenVolumeMesh11PropertyPtrIbNS_6Entity8HalfFaceEEE;
extern struct A29 _ZTSN14OpenVolumeMesh14HandleIndexingINS_6Entity8HalfFaceENS_18PropertyStoragePtrIbEEEE;
extern struct S3 _ZTIN14OpenVolumeMesh14HandleIndexingINS_6Entity8HalfFaceENS_18PropertyStoragePtrIbEEEE;
extern struct S7 _ZTIN14OpenVolumeMesh11PropertyPtrIbNS_6Entity8HalfFaceEEE;
extern struct S8 _ZTVN14OpenVolumeMesh14HandleIndexingINS_6Entity8HalfFaceENS_18PropertyStoragePtrIbEEEE;
extern struct S6 _ZTVN14OpenVolumeMesh11PropertyPtrIbNS_6Entity4CellEEE;
extern struct A26 _ZTSN14OpenVolumeMesh11PropertyPtrIbNS_6Entity4CellEEE;
extern struct A27 _ZTSN14OpenVolumeMesh14HandleIndexingINS_6Entity4CellENS_18PropertyStoragePtrIbEEEE;
extern struct S3 _ZTIN14OpenVolumeMesh14HandleIndexingINS_6Entity4CellENS_18PropertyStoragePtrIbEEEE;
extern struct S7 _ZTIN14OpenVolumeMesh11PropertyPtrIbNS_6Entity4CellEEE;
extern struct S8 _ZTVN14OpenVolumeMesh14HandleIndexingINS_6Entity4CellENS_18PropertyStoragePtrIbEEEE;
extern struct S6 _ZTVN14OpenVolumeMesh11PropertyPtrIbNS_6Entity4MeshEEE;
extern struct A26 _ZTSN14OpenVolumeMesh11PropertyPtrIbNS_6Entity4MeshEEE;
extern struct A27 _ZTSN14OpenVolumeMesh14HandleIndexingINS_6Entity4MeshENS_18PropertyStoragePtrIbEEEE;
extern struct S3 _ZTIN14OpenVolumeMesh14HandleIndexingINS_6Entity4MeshENS_18PropertyStoragePtrIbEEEE;
extern struct S7 _ZTIN14OpenVolumeMesh11PropertyPtrIbNS_6Entity4MeshEEE;
extern struct S8 _ZTVN14OpenVolumeMesh14HandleIndexingINS_6Entity4MeshENS_18PropertyStoragePtrIbEEEE;
extern struct A26 _str_38;
extern struct A30 _str_39;
extern struct S0_class_std__ios_base__Init _ZStL8__ioinit_15;
extern struct A30 _str;
extern struct A20 _ZTSN14OpenVolumeMesh2IO6detail11parse_errorE;
extern struct S3 _ZTIN14OpenVolumeMesh2IO6detail11parse_errorE;
extern struct S5 _ZTVN14OpenVolumeMesh2IO6detail11parse_errorE;
extern struct S0_class_std__ios_base__Init _ZStL8__ioinit_34;
extern u8* _ZTVN10__cxxabiv120__si_class_type_infoE;
extern struct A10 _ZTSN14OpenVolumeMesh2IO6detail8io_errorE;
extern u8* _ZTISt13runtime_error;
extern struct S3 _ZTIN14OpenVolumeMesh2IO6detail8io_errorE;
extern struct S0_class_std__ios_base__Init _ZStL8__ioinit_51;
extern struct A31 _str_52;
extern struct S0_class_std__ios_base__Init _ZStL8__ioinit_59;
extern u8* _ZTVN10__cxxabiv117__class_type_infoE;
extern u8 __libc_single_threaded;
extern u8* _ZTISt12bad_weak_ptr;
extern struct S5 _ZTVSt12bad_weak_ptr;
extern struct S0_class_std__ios_base__Init _ZStL8__ioinit_75;
extern u8 __dso_handle;
extern struct A32 _str_78;
void _GLOBAL__sub_I_C07_propcodecs_cpp(void);
void _ZNSt8ios_base4InitC1Ev(struct S0_class_std__ios_base__Init*);
void _ZNSt8ios_base4InitD1Ev(struct S0_class_std__ios_base__Init*);
u32 __cxa_atexit(fnptr_t, u8*, u8*);
void harness_deser_bool(void);
u32 v_nondet_u32(void);
void v_assume(u1);
void _ZN15Case_deser_boolILj0EE3runEv(void);
void _ZN15Case_deser_boolILj1EE3runEv(void);
void _ZN15Case_deser_boolILj2EE3runEv(void);
void _ZN15Case_deser_boolILj3EE3runEv(void);
u8 v_nondet_u8(void);
void _ZL15body_deser_boolj(u32);
u32 __gxx_personality_v0(void);
struct S10_class_OpenVolumeMesh__IO__PropertyDecode* _ZL6lookupRN14OpenVolumeMesh2IO14PropertyCodecsE(struct S11_class_OpenVolumeMesh__IO__PropertyCodecs*);
void v_assert(u1, u8*);
void _ZN14OpenVolumeMesh16PropertyStorageTIbEC2EPNS_6detail7TrackerINS_19PropertyStorageBaseEEENSt7__cxx1112basic_stringIcSt11char_traitsIcESaIcEEENS_10EntityTypeEbb(struct S12_class_OpenVolumeMesh__PropertyStorageT*, struct S13_class_OpenVolumeMesh__detail__Tracker*, struct S14_class_std____cxx11__basic_string*, u8, u1, u1);
void _ZdlPv(u8*);
void _ZNSt6vectorIbSaIbEE14_M_fill_insertESt13_Bit_iteratormb(struct S15_class_std__vector_46*, u64*, u32, u64, u1);
u8* _Znwm(u64);
u8* __cxa_begin_catch(u8*);
void __cxa_end_catch(void);
void v_witness(u8*);
void _ZNSt8_Rb_treeIPN14OpenVolumeMesh19PropertyStorageBaseES2_St9_IdentityIS2_ESt4lessIS2_ESaIS2_EE12_M_erase_auxESt23_Rb_tree_const_iteratorIS2_ESA_(struct S16_class_std___Rb_tree_5*, struct S17_struct_std___Rb_tree_node_base*, struct S17_struct_std___Rb_tree_node_base*);
void __clang_call_terminate(u8*);
void _ZNSt8_Rb_treeINSt7__cxx1112basic_stringIcSt11char_traitsIcESaIcEEESt4pairIKS5_St10shared_ptrIN14OpenVolumeMesh2IO19PropertyEncoderBaseEEESt10_Select1stISD_ESt4lessIS5_ESaISD_EE8_M_eraseEPSt13_Rb_tree_nodeISD_E(struct S16_class_std___Rb_tree_5*, struct S18_struct_std___Rb_tree_node_33*);
void _ZNSt8_Rb_treeINSt7__cxx1112basic_stringIcSt11char_traitsIcESaIcEEESt4pairIKS5_St10shared_ptrIN14OpenVolumeMesh2IO19PropertyDecoderBaseEEESt10_Select1stISD_ESt4lessIS5_ESaISD_EE8_M_eraseEPSt13_Rb_tree_nodeISD_E(struct S16_class_std___Rb_tree_5*, struct S18_struct_std___Rb_tree_node_33*);
void _ZN14OpenVolumeMesh16PropertyStorageTIbED2Ev(struct S12_class_OpenVolumeMesh__PropertyStorageT*);
void _ZN14OpenVolumeMesh2IO14PropertyCodecsD2Ev(struct S11_class_OpenVolumeMesh__IO__PropertyCodecs*);
void _ZN14OpenVolumeMesh6detail7TrackedINS_19PropertyStorageBaseEED2Ev(struct S19_class_OpenVolumeMesh__detail__Tracked*);
void _ZNSt16_Sp_counted_baseILN9__gnu_cxx12_Lock_policyE2EE24_M_release_last_use_coldEv(struct S20_class_std___Sp_counted_base*);
void _ZSt9terminatev(void);
void _ZNSt8_Rb_treeIPN14OpenVolumeMesh19PropertyStorageBaseES2_St9_IdentityIS2_ESt4lessIS2_ESaIS2_EE8_M_eraseEPSt13_Rb_tree_nodeIS2_E(struct S16_class_std___Rb_tree_5*, struct S21_struct_std___Rb_tree_node*);
void _ZN14OpenVolumeMesh6detail7TrackedINS_19PropertyStorageBaseEED0Ev(struct S19_class_OpenVolumeMesh__detail__Tracked*);
void _ZN14OpenVolumeMesh19PropertyStorageBaseD2Ev(struct S22_class_OpenVolumeMesh__PropertyStorageBas*);
void _ZN14OpenVolumeMesh19PropertyStorageBaseD0Ev(struct S22_class_OpenVolumeMesh__PropertyStorageBas*);
void __cxa_pure_virtual(void);
void _ZNK14OpenVolumeMesh19PropertyStorageBase9serializeERSo(struct S22_class_OpenVolumeMesh__PropertyStorageBas*, struct S23_class_std__basic_ostream*);
void _ZN14OpenVolumeMesh19PropertyStorageBase11deserializeERSi(struct S22_class_OpenVolumeMesh__PropertyStorageBas*, struct S24_class_std__basic_istream*);
void _ZN14OpenVolumeMesh16PropertyStorageTIbED0Ev(struct S12_class_OpenVolumeMesh__PropertyStorageT*);
void _ZN14OpenVolumeMesh16PropertyStorageTIbE7reserveEm(struct S12_class_OpenVolumeMesh__PropertyStorageT*, u64);
void _ZN14OpenVolumeMesh16PropertyStorageTIbE6resizeEm(struct S12_class_OpenVolumeMesh__PropertyStorageT*, u64);
u64 _ZNK14OpenVolumeMesh16PropertyStorageTIbE4sizeEv(struct S12_class_OpenVolumeMesh__PropertyStorageT*);
void _ZN14OpenVolumeMesh16PropertyStorageTIbE5clearEv(struct S12_class_OpenVolumeMesh__PropertyStorageT*);
void _ZN14OpenVolumeMesh16PropertyStorageTIbE9push_backEv(struct S12_class_OpenVolumeMesh__PropertyStorageT*);
void _ZN14OpenVolumeMesh16PropertyStorageTIbE4swapEmm(struct S12_class_OpenVolumeMesh__PropertyStorageT*, u64, u64);
void _ZN14OpenVolumeMesh16PropertyStorageTIbE4copyEmm(struct S12_class_OpenVolumeMesh__PropertyStorageT*, u64, u64);
void _ZN14OpenVolumeMesh16PropertyStorageTIbE14delete_elementEm(struct S12_class_OpenVolumeMesh__PropertyStorageT*, u64);
void _ZNK14OpenVolumeMesh16PropertyStorageTIbE5cloneEv(struct S25_class_std__weak_ptr*, struct S12_class_OpenVolumeMesh__PropertyStorageT*);
void _ZNK14OpenVolumeMesh16PropertyStorageTIbE15typeNameWrapperB5cxx11Ev(struct S14_class_std____cxx11__basic_string*, struct S12_class_OpenVolumeMesh__PropertyStorageT*);
void _ZNK14OpenVolumeMesh16PropertyStorageTIbE9serializeERSo(struct S12_class_OpenVolumeMesh__PropertyStorageT*, struct S23_class_std__basic_ostream*);
void _ZN14OpenVolumeMesh16PropertyStorageTIbE11deserializeERSi(struct S12_class_OpenVolumeMesh__PropertyStorageT*, struct S24_class_std__basic_istream*);
void _ZN14OpenVolumeMesh16PropertyStorageTIbE17make_property_ptrEv(struct S26_class_std__unique_ptr*, struct S12_class_OpenVolumeMesh__PropertyStorageT*);
void _ZN14OpenVolumeMesh16PropertyStorageTIbE18assign_values_fromEPKNS_19PropertyStorageBaseE(struct S12_class_OpenVolumeMesh__PropertyStorageT*, struct S22_class_OpenVolumeMesh__PropertyStorageBas*);
void _ZN14OpenVolumeMesh16PropertyStorageTIbE16move_values_fromEPNS_19PropertyStorageBaseE(struct S12_class_OpenVolumeMesh__PropertyStorageT*, struct S22_class_OpenVolumeMesh__PropertyStorageBas*);
struct S12_class_OpenVolumeMesh__PropertyStorageT* _ZN14OpenVolumeMesh19PropertyStorageBase16cast_to_StorageTIbEEPNS_16PropertyStorageTIT_EEv(struct S22_class_OpenVolumeMesh__PropertyStorageBas*);
struct S15_class_std__vector_46* _ZNSt6vectorIbSaIbEEaSERKS1_(struct S15_class_std__vector_46*, struct S15_class_std__vector_46*);
u32 bcmp(u8*, u8*, u64);
u8* __cxa_allocate_exception(u64);
void _ZNSt8bad_castD1Ev(struct S27_class_std__bad_cast*);
void __cxa_throw(u8*, u8*, u8*);
struct S12_class_OpenVolumeMesh__PropertyStorageT* _ZNK14OpenVolumeMesh19PropertyStorageBase16cast_to_StorageTIbEEPKNS_16PropertyStorageTIT_EEv(struct S22_class_OpenVolumeMesh__PropertyStorageBas*);
void _ZN14OpenVolumeMesh18entitytag_dispatchIZNS_16PropertyStorageTIbE17make_property_ptrEvEUlT_E_JEEEDaNS_10EntityTypeES3_DpT0_(struct S26_class_std__unique_ptr*, u8, struct S12_class_OpenVolumeMesh__PropertyStorageT*);
void _ZZN14OpenVolumeMesh16PropertyStorageTIbE17make_property_ptrEvENKUlT_E_clINS_6Entity6VertexEEEDaS2_(struct S26_class_std__unique_ptr*, struct S28_class_anon*);
void _ZZN14OpenVolumeMesh16PropertyStorageTIbE17make_property_ptrEvENKUlT_E_clINS_6Entity4EdgeEEEDaS2_(struct S26_class_std__unique_ptr*, struct S28_class_anon*);
void _ZZN14OpenVolumeMesh16PropertyStorageTIbE17make_property_ptrEvENKUlT_E_clINS_6Entity8HalfEdgeEEEDaS2_(struct S26_class_std__unique_ptr*, struct S28_class_anon*);
void _ZZN14OpenVolumeMesh16PropertyStorageTIbE17make_property_ptrEvENKUlT_E_clINS_6Entity4FaceEEEDaS2_(struct S26_class_std__unique_ptr*, struct S28_class_anon*);
void _ZZN14OpenVolumeMesh16PropertyStorageTIbE17make_property_ptrEvENKUlT_E_clINS_6Entity8HalfFaceEEEDaS2_(struct S26_class_std__unique_ptr*, struct S28_class_anon*);
void _ZZN14OpenVolumeMesh16PropertyStorageTIbE17make_property_ptrEvENKUlT_E_clINS_6Entity4CellEEEDaS2_(struct S26_class_std__unique_ptr*, struct S28_class_anon*);
void _ZZN14OpenVolumeMesh16PropertyStorageTIbE17make_property_ptrEvENKUlT_E_clINS_6Entity4MeshEEEDaS2_(struct S26_class_std__unique_ptr*, struct S28_class_anon*);
void _ZNSt13runtime_errorC1EPKc(struct S29_class_std__runtime_error*, u8*);
void _ZNSt13runtime_errorD1Ev(struct S29_class_std__runtime_error*);
void __cxa_free_exception(u8*);
void _ZNSt12bad_weak_ptrD1Ev(struct S27_class_std__bad_cast*);
void _ZNSt12__shared_ptrIN14OpenVolumeMesh16PropertyStorageTIbEELN9__gnu_cxx12_Lock_policyE2EED2Ev(struct S30_class_std____shared_ptr_66*);
void _ZN14OpenVolumeMesh11PropertyPtrIbNS_6Entity4MeshEED2Ev(struct S31_class_OpenVolumeMesh__PropertyPtr_86*);
void _ZN14OpenVolumeMesh11PropertyPtrIbNS_6Entity4MeshEED0Ev(struct S31_class_OpenVolumeMesh__PropertyPtr_86*);
struct S14_class_std____cxx11__basic_string* _ZNKR14OpenVolumeMesh11PropertyPtrIbNS_6Entity4MeshEE4nameB5cxx11Ev(struct S31_class_OpenVolumeMesh__PropertyPtr_86*);
void _ZThn24_N14OpenVolumeMesh11PropertyPtrIbNS_6Entity4MeshEED1Ev(struct S31_class_OpenVolumeMesh__PropertyPtr_86*);
void _ZThn24_N14OpenVolumeMesh11PropertyPtrIbNS_6Entity4MeshEED0Ev(struct S31_class_OpenVolumeMesh__PropertyPtr_86*);
struct S14_class_std____cxx11__basic_string* _ZThn24_NKR14OpenVolumeMesh11PropertyPtrIbNS_6Entity4MeshEE4nameB5cxx11Ev(struct S31_class_OpenVolumeMesh__PropertyPtr_86*);
void _ZN14OpenVolumeMesh15BasePropertyPtrD2Ev(struct S10_class_OpenVolumeMesh__IO__PropertyDecode*);
void _ZN14OpenVolumeMesh15BasePropertyPtrD0Ev(struct S10_class_OpenVolumeMesh__IO__PropertyDecode*);
void _ZN14OpenVolumeMesh18PropertyStoragePtrIbED2Ev(struct S32_class_OpenVolumeMesh__PropertyStoragePtr*);
void _ZN14OpenVolumeMesh14HandleIndexingINS_6Entity4MeshENS_18PropertyStoragePtrIbEEED0Ev(struct S33_class_OpenVolumeMesh__HandleIndexing_87*);
void _ZN14OpenVolumeMesh18PropertyStoragePtrIbED0Ev(struct S32_class_OpenVolumeMesh__PropertyStoragePtr*);
void _ZN14OpenVolumeMesh11PropertyPtrIbNS_6Entity4CellEED2Ev(struct S31_class_OpenVolumeMesh__PropertyPtr_86*);
void _ZN14OpenVolumeMesh11PropertyPtrIbNS_6Entity4CellEED0Ev(struct S31_class_OpenVolumeMesh__PropertyPtr_86*);
struct S14_class_std____cxx11__basic_string* _ZNKR14OpenVolumeMesh11PropertyPtrIbNS_6Entity4CellEE4nameB5cxx11Ev(struct S31_class_OpenVolumeMesh__PropertyPtr_86*);
void _ZThn24_N14OpenVolumeMesh11PropertyPtrIbNS_6Entity4CellEED1Ev(struct S31_class_OpenVolumeMesh__PropertyPtr_86*);
void _ZThn24_N14OpenVolumeMesh11PropertyPtrIbNS_6Entity4CellEED0Ev(struct S31_class_OpenVolumeMesh__PropertyPtr_86*);
struct S14_class_std____cxx11__basic_string* _ZThn24_NKR14OpenVolumeMesh11PropertyPtrIbNS_6Entity4CellEE4nameB5cxx11Ev(struct S31_class_OpenVolumeMesh__PropertyPtr_86*);
void _ZN14OpenVolumeMesh14HandleIndexingINS_6Entity4CellENS_18PropertyStoragePtrIbEEED0Ev(struct S33_class_OpenVolumeMesh__HandleIndexing_87*);
void _ZN14OpenVolumeMesh11PropertyPtrIbNS_6Entity8HalfFaceEED2Ev(struct S31_class_OpenVolumeMesh__PropertyPtr_86*);
void _ZN14OpenVolumeMesh11PropertyPtrIbNS_6Entity8HalfFaceEED0Ev(struct S31_class_OpenVolumeMesh__PropertyPtr_86*);
struct S14_class_std____cxx11__basic_string* _ZNKR14OpenVolumeMesh11PropertyPtrIbNS_6Entity8HalfFaceEE4nameB5cxx11Ev(struct S31_class_OpenVolumeMesh__PropertyPtr_86*);
void _ZThn24_N14OpenVolumeMesh11PropertyPtrIbNS_6Entity8HalfFaceEED1Ev(struct S31_class_OpenVolumeMesh__PropertyPtr_86*);
void _ZThn24_N14OpenVolumeMesh11PropertyPtrIbNS_6Entity8HalfFaceEED0Ev(struct S31_class_OpenVolumeMesh__PropertyPtr_86*);
struct S14_class_std____cxx11__basic_string* _ZThn24_NKR14OpenVolumeMesh11PropertyPtrIbNS_6Entity8HalfFaceEE4nameB5cxx11Ev(struct S31_class_OpenVolumeMesh__PropertyPtr_86*);
void _ZN14OpenVolumeMesh14HandleIndexingINS_6Entity8HalfFaceENS_18PropertyStoragePtrIbEEED0Ev(struct S33_class_OpenVolumeMesh__HandleIndexing_87*);
void _ZN14OpenVolumeMesh11PropertyPtrIbNS_6Entity4FaceEED2Ev(struct S31_class_OpenVolumeMesh__PropertyPtr_86*);
void _ZN14OpenVolumeMesh11PropertyPtrIbNS_6Entity4FaceEED0Ev(struct S31_class_OpenVolumeMesh__PropertyPtr_86*);
struct S14_class_std____cxx11__basic_string* _ZNKR14OpenVolumeMesh11PropertyPtrIbNS_6Entity4FaceEE4nameB5cxx11Ev(struct S31_class_OpenVolumeMesh__PropertyPtr_86*);
void _ZThn24_N14OpenVolumeMesh11PropertyPtrIbNS_6Entity4FaceEED1Ev(struct S31_class_OpenVolumeMesh__PropertyPtr_86*);
void _ZThn24_N14OpenVolumeMesh11PropertyPtrIbNS_6Entity4FaceEED0Ev(struct S31_class_OpenVolumeMesh__PropertyPtr_86*);
struct S14_class_std____cxx11__basic_string* _ZThn24_NKR14OpenVolumeMesh11PropertyPtrIbNS_6Entity4FaceEE4nameB5cxx11Ev(struct S31_class_OpenVolumeMesh__PropertyPtr_86*);
void _ZN14OpenVolumeMesh14HandleIndexingINS_6Entity4FaceENS_18PropertyStoragePtrIbEEED0Ev(struct S33_class_OpenVolumeMesh__HandleIndexing_87*);
void _ZN14OpenVolumeMesh11PropertyPtrIbNS_6Entity8HalfEdgeEED2Ev(struct S31_class_OpenVolumeMesh__PropertyPtr_86*);
void _ZN14OpenVolumeMesh11PropertyPtrIbNS_6Entity8HalfEdgeEED0Ev(struct S31_class_OpenVolumeMesh__PropertyPtr_86*);
struct S14_class_std____cxx11__basic_string* _ZNKR14OpenVolumeMesh11PropertyPtrIbNS_6Entity8HalfEdgeEE4nameB5cxx11Ev(struct S31_class_OpenVolumeMesh__PropertyPtr_86*);
void _ZThn24_N14OpenVolumeMesh11PropertyPtrIbNS_6Entity8HalfEdgeEED1Ev(struct S31_class_OpenVolumeMesh__PropertyPtr_86*);
void _ZThn24_N14OpenVolumeMesh11PropertyPtrIbNS_6Entity8HalfEdgeEED0Ev(struct S31_class_OpenVolumeMesh__PropertyPtr_86*);
struct S14_class_std____cxx11__basic_string* _ZThn24_NKR14OpenVolumeMesh11PropertyPtrIbNS_6Entity8HalfEdgeEE4nameB5cxx11Ev(struct S31_class_OpenVolumeMesh__PropertyPtr_86*);
void _ZN14OpenVolumeMesh14HandleIndexingINS_6Entity8HalfEdgeENS_18PropertyStoragePtrIbEEED0Ev(struct S33_class_OpenVolumeMesh__HandleIndexing_87*);
void _ZN14OpenVolumeMesh11PropertyPtrIbNS_6Entity4EdgeEED2Ev(struct S31_class_OpenVolumeMesh__PropertyPtr_86*);
void _ZN14OpenVolumeMesh11PropertyPtrIbNS_6Entity4EdgeEED0Ev(struct S31_class_OpenVolumeMesh__PropertyPtr_86*);
struct S14_class_std____cxx11__basic_string* _ZNKR14OpenVolumeMesh11PropertyPtrIbNS_6Entity4EdgeEE4nameB5cxx11Ev(struct S31_class_OpenVolumeMesh__PropertyPtr_86*);
void _ZThn24_N14OpenVolumeMesh11PropertyPtrIbNS_6Entity4EdgeEED1Ev(struct S31_class_OpenVolumeMesh__PropertyPtr_86*);
void _ZThn24_N14OpenVolumeMesh11PropertyPtrIbNS_6Entity4EdgeEED0Ev(struct S31_class_OpenVolumeMesh__PropertyPtr_86*);
struct S14_class_std____cxx11__basic_string* _ZThn24_NKR14OpenVolumeMesh11PropertyPtrIbNS_6Entity4EdgeEE4nameB5cxx11Ev(struct S31_class_OpenVolumeMesh__PropertyPtr_86*);
void _ZN14OpenVolumeMesh14HandleIndexingINS_6Entity4EdgeENS_18PropertyStoragePtrIbEEED0Ev(struct S33_class_OpenVolumeMesh__HandleIndexing_87*);
void _ZN14OpenVolumeMesh11PropertyPtrIbNS_6Entity6VertexEED2Ev(struct S31_class_OpenVolumeMesh__PropertyPtr_86*);
void _ZN14OpenVolumeMesh11PropertyPtrIbNS_6Entity6VertexEED0Ev(struct S31_class_OpenVolumeMesh__PropertyPtr_86*);
struct S14_class_std____cxx11__basic_string* _ZNKR14OpenVolumeMesh11PropertyPtrIbNS_6Entity6VertexEE4nameB5cxx11Ev(struct S31_class_OpenVolumeMesh__PropertyPtr_86*);
void _ZThn24_N14OpenVolumeMesh11PropertyPtrIbNS_6Entity6VertexEED1Ev(struct S31_class_OpenVolumeMesh__PropertyPtr_86*);
void _ZThn24_N14OpenVolumeMesh11PropertyPtrIbNS_6Entity6VertexEED0Ev(struct S31_class_OpenVolumeMesh__PropertyPtr_86*);
struct S14_class_std____cxx11__basic_string* _ZThn24_NKR14OpenVolumeMesh11PropertyPtrIbNS_6Entity6VertexEE4nameB5cxx11Ev(struct S31_class_OpenVolumeMesh__PropertyPtr_86*);
void _ZN14OpenVolumeMesh14HandleIndexingINS_6Entity6VertexENS_18PropertyStoragePtrIbEEED0Ev(struct S33_class_OpenVolumeMesh__HandleIndexing_87*);
struct S24_class_std__basic_istream* _ZNSi10_M_extractIbEERSiRT_(struct S24_class_std__basic_istream*, u8*);
struct S23_class_std__basic_ostream* _ZNSo9_M_insertIbEERSoT_(struct S23_class_std__basic_ostream*, u1);
void _ZSt16__throw_bad_castv(void);
void _ZNKSt5ctypeIcE13_M_widen_initEv(struct S34_class_std__ctype*);
struct S23_class_std__basic_ostream* _ZNSo3putEc(struct S23_class_std__basic_ostream*, u8);
struct S23_class_std__basic_ostream* _ZNSo5flushEv(struct S23_class_std__basic_ostream*);
void _ZN14OpenVolumeMesh8typeNameIbEEKNSt7__cxx1112basic_stringIcSt11char_traitsIcESaIcEEEv(struct S14_class_std____cxx11__basic_string*);
void _ZNSt12__shared_ptrIN14OpenVolumeMesh16PropertyStorageTIbEELN9__gnu_cxx12_Lock_policyE2EEC2ISaIvEJRKS2_EEESt20_Sp_alloc_shared_tagIT_EDpOT0_(struct S30_class_std____shared_ptr_66*, struct S0_class_std__ios_base__Init*, struct S12_class_OpenVolumeMesh__PropertyStorageT*);
void _ZNSt16allocator_traitsISaIvEE9constructIN14OpenVolumeMesh16PropertyStorageTIbEEJRKS5_EEEvRS0_PT_DpOT0_(struct S0_class_std__ios_base__Init*, struct S12_class_OpenVolumeMesh__PropertyStorageT*, struct S12_class_OpenVolumeMesh__PropertyStorageT*);
void _ZN14OpenVolumeMesh19PropertyStorageBaseC2ERKS0_(struct S22_class_OpenVolumeMesh__PropertyStorageBas*, struct S22_class_OpenVolumeMesh__PropertyStorageBas*);
void _ZNSt6vectorIbSaIbEEC2ERKS1_(struct S15_class_std__vector_46*, struct S15_class_std__vector_46*);
void _ZNSt13_Bvector_baseISaIbEED2Ev(struct S35_struct_std___Bvector_base*);
struct S36 _ZNSt8_Rb_treeIPN14OpenVolumeMesh19PropertyStorageBaseES2_St9_IdentityIS2_ESt4lessIS2_ESaIS2_EE16_M_insert_uniqueIRKS2_EESt4pairISt17_Rb_tree_iteratorIS2_EbEOT_(struct S16_class_std___Rb_tree_5*, struct S22_class_OpenVolumeMesh__PropertyStorageBas**);
void _ZNSt23enable_shared_from_thisIN14OpenVolumeMesh19PropertyStorageBaseEED2Ev(struct S37_class_std__enable_shared_from_this*);
void _ZNSt16_Sp_counted_baseILN9__gnu_cxx12_Lock_policyE2EED2Ev(struct S20_class_std___Sp_counted_base*);
void _ZNSt23_Sp_counted_ptr_inplaceIN14OpenVolumeMesh16PropertyStorageTIbEESaIvELN9__gnu_cxx12_Lock_policyE2EED0Ev(struct S38_class_std___Sp_counted_ptr_inplace*);
void _ZNSt23_Sp_counted_ptr_inplaceIN14OpenVolumeMesh16PropertyStorageTIbEESaIvELN9__gnu_cxx12_Lock_policyE2EE10_M_disposeEv(struct S38_class_std___Sp_counted_ptr_inplace*);
void _ZNSt23_Sp_counted_ptr_inplaceIN14OpenVolumeMesh16PropertyStorageTIbEESaIvELN9__gnu_cxx12_Lock_policyE2EE10_M_destroyEv(struct S38_class_std___Sp_counted_ptr_inplace*);
u8* _ZNSt23_Sp_counted_ptr_inplaceIN14OpenVolumeMesh16PropertyStorageTIbEESaIvELN9__gnu_cxx12_Lock_policyE2EE14_M_get_deleterERKSt9type_info(struct S38_class_std___Sp_counted_ptr_inplace*, struct S39_class_std__type_info*);
u32 strcmp(u8*, u8*);
void _ZNSt16_Sp_counted_baseILN9__gnu_cxx12_Lock_policyE2EED0Ev(struct S20_class_std___Sp_counted_base*);
void _ZNSt16_Sp_counted_baseILN9__gnu_cxx12_Lock_policyE2EE10_M_destroyEv(struct S20_class_std___Sp_counted_base*);
void _ZNSt6vectorIbSaIbEE13_M_insert_auxESt13_Bit_iteratorb(struct S15_class_std__vector_46*, u64*, u32, u1);
void _ZNSt6vectorIbSaIbEE13_M_reallocateEm(struct S15_class_std__vector_46*, u64);
void _ZNSt12__shared_ptrIN14OpenVolumeMesh19PropertyStorageBaseELN9__gnu_cxx12_Lock_policyE2EED2Ev(struct S40_class_std____weak_ptr*);
void _ZNSt8_Rb_treeISt10shared_ptrIN14OpenVolumeMesh19PropertyStorageBaseEES3_St9_IdentityIS3_ESt4lessIS3_ESaIS3_EE8_M_eraseEPSt13_Rb_tree_nodeIS3_E(struct S16_class_std___Rb_tree_5*, struct S41_struct_std___Rb_tree_node_31*);
struct S42_class_std__shared_ptr_12* _ZNSt3mapINSt7__cxx1112basic_stringIcSt11char_traitsIcESaIcEEESt10shared_ptrIN14OpenVolumeMesh2IO19PropertyEncoderBaseEESt4lessIS5_ESaISt4pairIKS5_SA_EEEixEOS5_(struct S43_class_std__map*, struct S14_class_std____cxx11__basic_string*);
struct S44_class_std__shared_ptr* _ZNSt3mapINSt7__cxx1112basic_stringIcSt11char_traitsIcESaIcEEESt10shared_ptrIN14OpenVolumeMesh2IO19PropertyDecoderBaseEESt4lessIS5_ESaISt4pairIKS5_SA_EEEixERSE_(struct S43_class_std__map*, struct S14_class_std____cxx11__basic_string*);
u32 memcmp(u8*, u8*, u64);
struct S17_struct_std___Rb_tree_node_base* _ZNSt8_Rb_treeINSt7__cxx1112basic_stringIcSt11char_traitsIcESaIcEEESt4pairIKS5_St10shared_ptrIN14OpenVolumeMesh2IO19PropertyDecoderBaseEEESt10_Select1stISD_ESt4lessIS5_ESaISD_EE22_M_emplace_hint_uniqueIJRKSt21piecewise_construct_tSt5tupleIJRS7_EESO_IJEEEEESt17_Rb_tree_iteratorISD_ESt23_Rb_tree_const_iteratorISD_EDpOT_(struct S16_class_std___Rb_tree_5*, struct S17_struct_std___Rb_tree_node_base*, struct S0_class_std__ios_base__Init*, struct S45_class_std__tuple_195*, struct S0_class_std__ios_base__Init*);
void _ZNSt8_Rb_treeINSt7__cxx1112basic_stringIcSt11char_traitsIcESaIcEEESt4pairIKS5_St10shared_ptrIN14OpenVolumeMesh2IO19PropertyDecoderBaseEEESt10_Select1stISD_ESt4lessIS5_ESaISD_EE17_M_construct_nodeIJRKSt21piecewise_construct_tSt5tupleIJRS7_EESO_IJEEEEEvPSt13_Rb_tree_nodeISD_EDpOT_(struct S16_class_std___Rb_tree_5*, struct S18_struct_std___Rb_tree_node_33*, struct S0_class_std__ios_base__Init*, struct S45_class_std__tuple_195*, struct S0_class_std__ios_base__Init*);
struct S46 _ZNSt8_Rb_treeINSt7__cxx1112basic_stringIcSt11char_traitsIcESaIcEEESt4pairIKS5_St10shared_ptrIN14OpenVolumeMesh2IO19PropertyDecoderBaseEEESt10_Select1stISD_ESt4lessIS5_ESaISD_EE29_M_get_insert_hint_unique_posESt23_Rb_tree_const_iteratorISD_ERS7_(struct S16_class_std___Rb_tree_5*, struct S17_struct_std___Rb_tree_node_base*, struct S14_class_std____cxx11__basic_string*);
void _ZNSt8_Rb_treeINSt7__cxx1112basic_stringIcSt11char_traitsIcESaIcEEESt4pairIKS5_St10shared_ptrIN14OpenVolumeMesh2IO19PropertyDecoderBaseEEESt10_Select1stISD_ESt4lessIS5_ESaISD_EE10_Auto_nodeD2Ev(struct S47_struct_std___Rb_tree_std____cxx11__basic*);
struct S46 _ZNSt8_Rb_treeINSt7__cxx1112basic_stringIcSt11char_traitsIcESaIcEEESt4pairIKS5_St10shared_ptrIN14OpenVolumeMesh2IO19PropertyDecoderBaseEEESt10_Select1stISD_ESt4lessIS5_ESaISD_EE24_M_get_insert_unique_posERS7_(struct S16_class_std___Rb_tree_5*, struct S14_class_std____cxx11__basic_string*);
void __cxa_rethrow(void);
void _ZN14OpenVolumeMesh2IO19PropertyDecoderBaseD2Ev(struct S10_class_OpenVolumeMesh__IO__PropertyDecode*);
void _ZN14OpenVolumeMesh2IO6detail11parse_errorCI2St13runtime_errorEPKc(struct S48_class_OpenVolumeMesh__IO__detail__parse_*, u8*);
void _ZNSt13runtime_errorD2Ev(struct S29_class_std__runtime_error*);
void _ZNSt13runtime_errorC2EPKc(struct S29_class_std__runtime_error*, u8*);
void _ZN14OpenVolumeMesh2IO6detail11parse_errorD0Ev(struct S48_class_OpenVolumeMesh__IO__detail__parse_*);
u8* _ZNKSt13runtime_error4whatEv(struct S29_class_std__runtime_error*);
struct S36 _ZNSt8_Rb_treeISt10shared_ptrIN14OpenVolumeMesh19PropertyStorageBaseEES3_St9_IdentityIS3_ESt4lessIS3_ESaIS3_EE16_M_insert_uniqueIRKS3_EESt4pairISt17_Rb_tree_iteratorIS3_EbEOT_(struct S16_class_std___Rb_tree_5*, struct S25_class_std__weak_ptr*);
void _ZNSt8_Rb_treeISt10shared_ptrIN14OpenVolumeMesh19PropertyStorageBaseEES3_St9_IdentityIS3_ESt4lessIS3_ESaIS3_EE12_M_erase_auxESt23_Rb_tree_const_iteratorIS3_ESB_(struct S16_class_std___Rb_tree_5*, struct S17_struct_std___Rb_tree_node_base*, struct S17_struct_std___Rb_tree_node_base*);
struct S17_struct_std___Rb_tree_node_base* _ZNSt8_Rb_treeINSt7__cxx1112basic_stringIcSt11char_traitsIcESaIcEEESt4pairIKS5_St10shared_ptrIN14OpenVolumeMesh2IO19PropertyEncoderBaseEEESt10_Select1stISD_ESt4lessIS5_ESaISD_EE22_M_emplace_hint_uniqueIJRKSt21piecewise_construct_tSt5tupleIJOS5_EESO_IJEEEEESt17_Rb_tree_iteratorISD_ESt23_Rb_tree_const_iteratorISD_EDpOT_(struct S16_class_std___Rb_tree_5*, struct S17_struct_std___Rb_tree_node_base*, struct S0_class_std__ios_base__Init*, struct S45_class_std__tuple_195*, struct S0_class_std__ios_base__Init*);
struct S46 _ZNSt8_Rb_treeINSt7__cxx1112basic_stringIcSt11char_traitsIcESaIcEEESt4pairIKS5_St10shared_ptrIN14OpenVolumeMesh2IO19PropertyEncoderBaseEEESt10_Select1stISD_ESt4lessIS5_ESaISD_EE29_M_get_insert_hint_unique_posESt23_Rb_tree_const_iteratorISD_ERS7_(struct S16_class_std___Rb_tree_5*, struct S17_struct_std___Rb_tree_node_base*, struct S14_class_std____cxx11__basic_string*);
void _ZNSt8_Rb_treeINSt7__cxx1112basic_stringIcSt11char_traitsIcESaIcEEESt4pairIKS5_St10shared_ptrIN14OpenVolumeMesh2IO19PropertyEncoderBaseEEESt10_Select1stISD_ESt4lessIS5_ESaISD_EE10_Auto_nodeD2Ev(struct S47_struct_std___Rb_tree_std____cxx11__basic*);
struct S46 _ZNSt8_Rb_treeINSt7__cxx1112basic_stringIcSt11char_traitsIcESaIcEEESt4pairIKS5_St10shared_ptrIN14OpenVolumeMesh2IO19PropertyEncoderBaseEEESt10_Select1stISD_ESt4lessIS5_ESaISD_EE24_M_get_insert_unique_posERS7_(struct S16_class_std___Rb_tree_5*, struct S14_class_std____cxx11__basic_string*);
void _ZN14OpenVolumeMesh2IO19PropertyEncoderBaseD2Ev(struct S49_class_OpenVolumeMesh__IO__PropertyEncode*);
void _ZN14OpenVolumeMesh2IO19PropertyEncoderBaseD0Ev(struct S49_class_OpenVolumeMesh__IO__PropertyEncode*);
void _ZN14OpenVolumeMesh2IO14PropertyCodecs14register_codecINS0_6Codecs13BoolPropCodecEEEvRKNSt7__cxx1112basic_stringIcSt11char_traitsIcESaIcEEE(struct S11_class_OpenVolumeMesh__IO__PropertyCodecs*, struct S14_class_std____cxx11__basic_string*);
void _ZNSt23_Sp_counted_ptr_inplaceIN14OpenVolumeMesh2IO16PropertyEncoderTIbNS1_6Codecs13BoolPropCodecEEESaIvELN9__gnu_cxx12_Lock_policyE2EEC2IJRKNSt7__cxx1112basic_stringIcSt11char_traitsIcESaIcEEEEEES6_DpOT_(struct S50_class_std___Sp_counted_ptr_inplace_3753*, struct S14_class_std____cxx11__basic_string*);
void _ZNSt12__shared_ptrIN14OpenVolumeMesh2IO16PropertyEncoderTIbNS1_6Codecs13BoolPropCodecEEELN9__gnu_cxx12_Lock_policyE2EED2Ev(struct S51_class_std____shared_ptr_3742*);
void _ZNSt12__shared_ptrIN14OpenVolumeMesh2IO16PropertyDecoderTIbNS1_6Codecs13BoolPropCodecEEELN9__gnu_cxx12_Lock_policyE2EED2Ev(struct S52_class_std____shared_ptr_3746*);
void _ZN14OpenVolumeMesh2IO16PropertyDecoderTIbNS0_6Codecs13BoolPropCodecEED0Ev(struct S27_class_std__bad_cast*);
void _ZNK14OpenVolumeMesh2IO16PropertyDecoderTIbNS0_6Codecs13BoolPropCodecEE16request_propertyERNS_15ResourceManagerENS_10EntityTypeERKNSt7__cxx1112basic_stringIcSt11char_traitsIcESaIcEEERKSt6vectorIhSaIhEE(struct S25_class_std__weak_ptr*, struct S27_class_std__bad_cast*, struct S53_class_OpenVolumeMesh__ResourceManager*, u8, struct S14_class_std____cxx11__basic_string*, struct S54_class_std__vector*);
void _ZNK14OpenVolumeMesh2IO16PropertyDecoderTIbNS0_6Codecs13BoolPropCodecEE11deserializeEPNS_19PropertyStorageBaseERNS0_6detail7DecoderEmm(struct S27_class_std__bad_cast*, struct S22_class_OpenVolumeMesh__PropertyStorageBas*, struct S55_class_OpenVolumeMesh__IO__detail__Decode*, u64, u64);
void _ZN14OpenVolumeMesh18entitytag_dispatchIZNKS_2IO16PropertyDecoderTIbNS1_6Codecs13BoolPropCodecEE16request_propertyERNS_15ResourceManagerENS_10EntityTypeERKNSt7__cxx1112basic_stringIcSt11char_traitsIcESaIcEEERKSt6vectorIhSaIhEEEUlT_E_JEEEDaS8_SM_DpT0_(struct S56_class_std__shared_ptr_65*, u8, struct S57_class_anon_726*);
void _ZZNK14OpenVolumeMesh2IO16PropertyDecoderTIbNS0_6Codecs13BoolPropCodecEE16request_propertyERNS_15ResourceManagerENS_10EntityTypeERKNSt7__cxx1112basic_stringIcSt11char_traitsIcESaIcEEERKSt6vectorIhSaIhEEENKUlT_E_clINS_6Entity6VertexEEEDaSL_(struct S56_class_std__shared_ptr_65*, struct S57_class_anon_726*);
void _ZZNK14OpenVolumeMesh2IO16PropertyDecoderTIbNS0_6Codecs13BoolPropCodecEE16request_propertyERNS_15ResourceManagerENS_10EntityTypeERKNSt7__cxx1112basic_stringIcSt11char_traitsIcESaIcEEERKSt6vectorIhSaIhEEENKUlT_E_clINS_6Entity4EdgeEEEDaSL_(struct S56_class_std__shared_ptr_65*, struct S57_class_anon_726*);
void _ZZNK14OpenVolumeMesh2IO16PropertyDecoderTIbNS0_6Codecs13BoolPropCodecEE16request_propertyERNS_15ResourceManagerENS_10EntityTypeERKNSt7__cxx1112basic_stringIcSt11char_traitsIcESaIcEEERKSt6vectorIhSaIhEEENKUlT_E_clINS_6Entity8HalfEdgeEEEDaSL_(struct S56_class_std__shared_ptr_65*, struct S57_class_anon_726*);
void _ZZNK14OpenVolumeMesh2IO16PropertyDecoderTIbNS0_6Codecs13BoolPropCodecEE16request_propertyERNS_15ResourceManagerENS_10EntityTypeERKNSt7__cxx1112basic_stringIcSt11char_traitsIcESaIcEEERKSt6vectorIhSaIhEEENKUlT_E_clINS_6Entity4FaceEEEDaSL_(struct S56_class_std__shared_ptr_65*, struct S57_class_anon_726*);
void _ZZNK14OpenVolumeMesh2IO16PropertyDecoderTIbNS0_6Codecs13BoolPropCodecEE16request_propertyERNS_15ResourceManagerENS_10EntityTypeERKNSt7__cxx1112basic_stringIcSt11char_traitsIcESaIcEEERKSt6vectorIhSaIhEEENKUlT_E_clINS_6Entity8HalfFaceEEEDaSL_(struct S56_class_std__shared_ptr_65*, struct S57_class_anon_726*);
void _ZZNK14OpenVolumeMesh2IO16PropertyDecoderTIbNS0_6Codecs13BoolPropCodecEE16request_propertyERNS_15ResourceManagerENS_10EntityTypeERKNSt7__cxx1112basic_stringIcSt11char_traitsIcESaIcEEERKSt6vectorIhSaIhEEENKUlT_E_clINS_6Entity4CellEEEDaSL_(struct S56_class_std__shared_ptr_65*, struct S57_class_anon_726*);
void _ZZNK14OpenVolumeMesh2IO16PropertyDecoderTIbNS0_6Codecs13BoolPropCodecEE16request_propertyERNS_15ResourceManagerENS_10EntityTypeERKNSt7__cxx1112basic_stringIcSt11char_traitsIcESaIcEEERKSt6vectorIhSaIhEEENKUlT_E_clINS_6Entity4MeshEEEDaSL_(struct S56_class_std__shared_ptr_65*, struct S57_class_anon_726*);
void _ZN14OpenVolumeMesh15ResourceManager16request_propertyIbNS_6Entity4MeshEEENS_11PropertyPtrIT_T0_EERKNSt7__cxx1112basic_stringIcSt11char_traitsIcESaIcEEERKS5_(struct S31_class_OpenVolumeMesh__PropertyPtr_86*, struct S53_class_OpenVolumeMesh__ResourceManager*, struct S14_class_std____cxx11__basic_string*, u8*);
void _ZN14OpenVolumeMesh15ResourceManager14set_persistentIbNS_6Entity4MeshEEEvRNS_11PropertyPtrIT_T0_EEb(struct S53_class_OpenVolumeMesh__ResourceManager*, struct S31_class_OpenVolumeMesh__PropertyPtr_86*, u1);
void _ZNK14OpenVolumeMesh15ResourceManager22internal_find_propertyIbNS_6Entity4MeshEEESt8optionalINS_11PropertyPtrIT_T0_EEERKNSt7__cxx1112basic_stringIcSt11char_traitsIcESaIcEEE(struct S58_class_std__optional_184*, struct S53_class_OpenVolumeMesh__ResourceManager*, struct S14_class_std____cxx11__basic_string*);
void _ZNK14OpenVolumeMesh15ResourceManager24internal_create_propertyIbNS_6Entity4MeshEEENS_11PropertyPtrIT_T0_EENSt7__cxx1112basic_stringIcSt11char_traitsIcESaIcEEERKS5_b(struct S31_class_OpenVolumeMesh__PropertyPtr_86*, struct S53_class_OpenVolumeMesh__ResourceManager*, struct S14_class_std____cxx11__basic_string*, u8*, u1);
void _ZNSt14_Optional_baseIN14OpenVolumeMesh11PropertyPtrIbNS0_6Entity4MeshEEELb0ELb0EED2Ev(struct S59_struct_std___Optional_base_185*);
void _ZNSt12__shared_ptrIN14OpenVolumeMesh16PropertyStorageTIbEELN9__gnu_cxx12_Lock_policyE2EEC2ISaIvEJPNS0_6detail7TrackerINS0_19PropertyStorageBaseEEENSt7__cxx1112basic_stringIcSt11char_traitsIcESaIcEEENS0_10EntityTypeERKbRbEEESt20_Sp_alloc_shared_tagIT_EDpOT0_(struct S30_class_std____shared_ptr_66*, struct S0_class_std__ios_base__Init*, struct S13_class_OpenVolumeMesh__detail__Tracker**, struct S14_class_std____cxx11__basic_string*, u8*, u8*, u8*);
void _ZNSt16allocator_traitsISaIvEE9constructIN14OpenVolumeMesh16PropertyStorageTIbEEJPNS3_6detail7TrackerINS3_19PropertyStorageBaseEEENSt7__cxx1112basic_stringIcSt11char_traitsIcESaIcEEENS3_10EntityTypeERKbRbEEEvRS0_PT_DpOT0_(struct S0_class_std__ios_base__Init*, struct S12_class_OpenVolumeMesh__PropertyStorageT*, struct S13_class_OpenVolumeMesh__detail__Tracker**, struct S14_class_std____cxx11__basic_string*, u8*, u8*, u8*);
void _ZN14OpenVolumeMesh15ResourceManager21prop_ptr_from_storageIbNS_6Entity4MeshEEENS_11PropertyPtrIT_T0_EEPNS_19PropertyStorageBaseE(struct S31_class_OpenVolumeMesh__PropertyPtr_86*, struct S22_class_OpenVolumeMesh__PropertyStorageBas*);
void _ZN14OpenVolumeMesh15ResourceManager16request_propertyIbNS_6Entity4CellEEENS_11PropertyPtrIT_T0_EERKNSt7__cxx1112basic_stringIcSt11char_traitsIcESaIcEEERKS5_(struct S31_class_OpenVolumeMesh__PropertyPtr_86*, struct S53_class_OpenVolumeMesh__ResourceManager*, struct S14_class_std____cxx11__basic_string*, u8*);
void _ZN14OpenVolumeMesh15ResourceManager14set_persistentIbNS_6Entity4CellEEEvRNS_11PropertyPtrIT_T0_EEb(struct S53_class_OpenVolumeMesh__ResourceManager*, struct S31_class_OpenVolumeMesh__PropertyPtr_86*, u1);
void _ZNK14OpenVolumeMesh15ResourceManager22internal_find_propertyIbNS_6Entity4CellEEESt8optionalINS_11PropertyPtrIT_T0_EEERKNSt7__cxx1112basic_stringIcSt11char_traitsIcESaIcEEE(struct S58_class_std__optional_184*, struct S53_class_OpenVolumeMesh__ResourceManager*, struct S14_class_std____cxx11__basic_string*);
void _ZNK14OpenVolumeMesh15ResourceManager24internal_create_propertyIbNS_6Entity4CellEEENS_11PropertyPtrIT_T0_EENSt7__cxx1112basic_stringIcSt11char_traitsIcESaIcEEERKS5_b(struct S31_class_OpenVolumeMesh__PropertyPtr_86*, struct S53_class_OpenVolumeMesh__ResourceManager*, struct S14_class_std____cxx11__basic_string*, u8*, u1);
void _ZNSt14_Optional_baseIN14OpenVolumeMesh11PropertyPtrIbNS0_6Entity4CellEEELb0ELb0EED2Ev(struct S59_struct_std___Optional_base_185*);
void _ZN14OpenVolumeMesh15ResourceManager21prop_ptr_from_storageIbNS_6Entity4CellEEENS_11PropertyPtrIT_T0_EEPNS_19PropertyStorageBaseE(struct S31_class_OpenVolumeMesh__PropertyPtr_86*, struct S22_class_OpenVolumeMesh__PropertyStorageBas*);
void _ZN14OpenVolumeMesh15ResourceManager16request_propertyIbNS_6Entity8HalfFaceEEENS_11PropertyPtrIT_T0_EERKNSt7__cxx1112basic_stringIcSt11char_traitsIcESaIcEEERKS5_(struct S31_class_OpenVolumeMesh__PropertyPtr_86*, struct S53_class_OpenVolumeMesh__ResourceManager*, struct S14_class_std____cxx11__basic_string*, u8*);
void _ZN14OpenVolumeMesh15ResourceManager14set_persistentIbNS_6Entity8HalfFaceEEEvRNS_11PropertyPtrIT_T0_EEb(struct S53_class_OpenVolumeMesh__ResourceManager*, struct S31_class_OpenVolumeMesh__PropertyPtr_86*, u1);
void _ZNK14OpenVolumeMesh15ResourceManager22internal_find_propertyIbNS_6Entity8HalfFaceEEESt8optionalINS_11PropertyPtrIT_T0_EEERKNSt7__cxx1112basic_stringIcSt11char_traitsIcESaIcEEE(struct S58_class_std__optional_184*, struct S53_class_OpenVolumeMesh__ResourceManager*, struct S14_class_std____cxx11__basic_string*);
void _ZNK14OpenVolumeMesh15ResourceManager24internal_create_propertyIbNS_6Entity8HalfFaceEEENS_11PropertyPtrIT_T0_EENSt7__cxx1112basic_stringIcSt11char_traitsIcESaIcEEERKS5_b(struct S31_class_OpenVolumeMesh__PropertyPtr_86*, struct S53_class_OpenVolumeMesh__ResourceManager*, struct S14_class_std____cxx11__basic_string*, u8*, u1);
void _ZNSt14_Optional_baseIN14OpenVolumeMesh11PropertyPtrIbNS0_6Entity8HalfFaceEEELb0ELb0EED2Ev(struct S59_struct_std___Optional_base_185*);
void _ZN14OpenVolumeMesh15ResourceManager21prop_ptr_from_storageIbNS_6Entity8HalfFaceEEENS_11PropertyPtrIT_T0_EEPNS_19PropertyStorageBaseE(struct S31_class_OpenVolumeMesh__PropertyPtr_86*, struct S22_class_OpenVolumeMesh__PropertyStorageBas*);
void _ZN14OpenVolumeMesh15ResourceManager16request_propertyIbNS_6Entity4FaceEEENS_11PropertyPtrIT_T0_EERKNSt7__cxx1112basic_stringIcSt11char_traitsIcESaIcEEERKS5_(struct S31_class_OpenVolumeMesh__PropertyPtr_86*, struct S53_class_OpenVolumeMesh__ResourceManager*, struct S14_class_std____cxx11__basic_string*, u8*);
void _ZN14OpenVolumeMesh15ResourceManager14set_persistentIbNS_6Entity4FaceEEEvRNS_11PropertyPtrIT_T0_EEb(struct S53_class_OpenVolumeMesh__ResourceManager*, struct S31_class_OpenVolumeMesh__PropertyPtr_86*, u1);
void _ZNK14OpenVolumeMesh15ResourceManager22internal_find_propertyIbNS_6Entity4FaceEEESt8optionalINS_11PropertyPtrIT_T0_EEERKNSt7__cxx1112basic_stringIcSt11char_traitsIcESaIcEEE(struct S58_class_std__optional_184*, struct S53_class_OpenVolumeMesh__ResourceManager*, struct S14_class_std____cxx11__basic_string*);
void _ZNK14OpenVolumeMesh15ResourceManager24internal_create_propertyIbNS_6Entity4FaceEEENS_11PropertyPtrIT_T0_EENSt7__cxx1112basic_stringIcSt11char_traitsIcESaIcEEERKS5_b(struct S31_class_OpenVolumeMesh__PropertyPtr_86*, struct S53_class_OpenVolumeMesh__ResourceManager*, struct S14_class_std____cxx11__basic_string*, u8*, u1);
void _ZNSt14_Optional_baseIN14OpenVolumeMesh11PropertyPtrIbNS0_6Entity4FaceEEELb0ELb0EED2Ev(struct S59_struct_std___Optional_base_185*);
void _ZN14OpenVolumeMesh15ResourceManager21prop_ptr_from_storageIbNS_6Entity4FaceEEENS_11PropertyPtrIT_T0_EEPNS_19PropertyStorageBaseE(struct S31_class_OpenVolumeMesh__PropertyPtr_86*, struct S22_class_OpenVolumeMesh__PropertyStorageBas*);
void _ZN14OpenVolumeMesh15ResourceManager16request_propertyIbNS_6Entity8HalfEdgeEEENS_11PropertyPtrIT_T0_EERKNSt7__cxx1112basic_stringIcSt11char_traitsIcESaIcEEERKS5_(struct S31_class_OpenVolumeMesh__PropertyPtr_86*, struct S53_class_OpenVolumeMesh__ResourceManager*, struct S14_class_std____cxx11__basic_string*, u8*);
void _ZN14OpenVolumeMesh15ResourceManager14set_persistentIbNS_6Entity8HalfEdgeEEEvRNS_11PropertyPtrIT_T0_EEb(struct S53_class_OpenVolumeMesh__ResourceManager*, struct S31_class_OpenVolumeMesh__PropertyPtr_86*, u1);
void _ZNK14OpenVolumeMesh15ResourceManager22internal_find_propertyIbNS_6Entity8HalfEdgeEEESt8optionalINS_11PropertyPtrIT_T0_EEERKNSt7__cxx1112basic_stringIcSt11char_traitsIcESaIcEEE(struct S58_class_std__optional_184*, struct S53_class_OpenVolumeMesh__ResourceManager*, struct S14_class_std____cxx11__basic_string*);
void _ZNK14OpenVolumeMesh15ResourceManager24internal_create_propertyIbNS_6Entity8HalfEdgeEEENS_11PropertyPtrIT_T0_EENSt7__cxx1112basic_stringIcSt11char_traitsIcESaIcEEERKS5_b(struct S31_class_OpenVolumeMesh__PropertyPtr_86*, struct S53_class_OpenVolumeMesh__ResourceManager*, struct S14_class_std____cxx11__basic_string*, u8*, u1);
void _ZNSt14_Optional_baseIN14OpenVolumeMesh11PropertyPtrIbNS0_6Entity8HalfEdgeEEELb0ELb0EED2Ev(struct S59_struct_std___Optional_base_185*);
void _ZN14OpenVolumeMesh15ResourceManager21prop_ptr_from_storageIbNS_6Entity8HalfEdgeEEENS_11PropertyPtrIT_T0_EEPNS_19PropertyStorageBaseE(struct S31_class_OpenVolumeMesh__PropertyPtr_86*, struct S22_class_OpenVolumeMesh__PropertyStorageBas*);
void _ZN14OpenVolumeMesh15ResourceManager16request_propertyIbNS_6Entity4EdgeEEENS_11PropertyPtrIT_T0_EERKNSt7__cxx1112basic_stringIcSt11char_traitsIcESaIcEEERKS5_(struct S31_class_OpenVolumeMesh__PropertyPtr_86*, struct S53_class_OpenVolumeMesh__ResourceManager*, struct S14_class_std____cxx11__basic_string*, u8*);
void _ZN14OpenVolumeMesh15ResourceManager14set_persistentIbNS_6Entity4EdgeEEEvRNS_11PropertyPtrIT_T0_EEb(struct S53_class_OpenVolumeMesh__ResourceManager*, struct S31_class_OpenVolumeMesh__PropertyPtr_86*, u1);
void _ZNK14OpenVolumeMesh15ResourceManager22internal_find_propertyIbNS_6Entity4EdgeEEESt8optionalINS_11PropertyPtrIT_T0_EEERKNSt7__cxx1112basic_stringIcSt11char_traitsIcESaIcEEE(struct S58_class_std__optional_184*, struct S53_class_OpenVolumeMesh__ResourceManager*, struct S14_class_std____cxx11__basic_string*);
void _ZNK14OpenVolumeMesh15ResourceManager24internal_create_propertyIbNS_6Entity4EdgeEEENS_11PropertyPtrIT_T0_EENSt7__cxx1112basic_stringIcSt11char_traitsIcESaIcEEERKS5_b(struct S31_class_OpenVolumeMesh__PropertyPtr_86*, struct S53_class_OpenVolumeMesh__ResourceManager*, struct S14_class_std____cxx11__basic_string*, u8*, u1);
void _ZNSt14_Optional_baseIN14OpenVolumeMesh11PropertyPtrIbNS0_6Entity4EdgeEEELb0ELb0EED2Ev(struct S59_struct_std___Optional_base_185*);
void _ZN14OpenVolumeMesh15ResourceManager21prop_ptr_from_storageIbNS_6Entity4EdgeEEENS_11PropertyPtrIT_T0_EEPNS_19PropertyStorageBaseE(struct S31_class_OpenVolumeMesh__PropertyPtr_86*, struct S22_class_OpenVolumeMesh__PropertyStorageBas*);
void _ZN14OpenVolumeMesh15ResourceManager16request_propertyIbNS_6Entity6VertexEEENS_11PropertyPtrIT_T0_EERKNSt7__cxx1112basic_stringIcSt11char_traitsIcESaIcEEERKS5_(struct S31_class_OpenVolumeMesh__PropertyPtr_86*, struct S53_class_OpenVolumeMesh__ResourceManager*, struct S14_class_std____cxx11__basic_string*, u8*);
void _ZN14OpenVolumeMesh15ResourceManager14set_persistentIbNS_6Entity6VertexEEEvRNS_11PropertyPtrIT_T0_EEb(struct S53_class_OpenVolumeMesh__ResourceManager*, struct S31_class_OpenVolumeMesh__PropertyPtr_86*, u1);
void _ZNK14OpenVolumeMesh15ResourceManager22internal_find_propertyIbNS_6Entity6VertexEEESt8optionalINS_11PropertyPtrIT_T0_EEERKNSt7__cxx1112basic_stringIcSt11char_traitsIcESaIcEEE(struct S58_class_std__optional_184*, struct S53_class_OpenVolumeMesh__ResourceManager*, struct S14_class_std____cxx11__basic_string*);
void _ZNK14OpenVolumeMesh15ResourceManager24internal_create_propertyIbNS_6Entity6VertexEEENS_11PropertyPtrIT_T0_EENSt7__cxx1112basic_stringIcSt11char_traitsIcESaIcEEERKS5_b(struct S31_class_OpenVolumeMesh__PropertyPtr_86*, struct S53_class_OpenVolumeMesh__ResourceManager*, struct S14_class_std____cxx11__basic_string*, u8*, u1);
void _ZNSt14_Optional_baseIN14OpenVolumeMesh11PropertyPtrIbNS0_6Entity6VertexEEELb0ELb0EED2Ev(struct S59_struct_std___Optional_base_185*);
void _ZN14OpenVolumeMesh15ResourceManager21prop_ptr_from_storageIbNS_6Entity6VertexEEENS_11PropertyPtrIT_T0_EEPNS_19PropertyStorageBaseE(struct S31_class_OpenVolumeMesh__PropertyPtr_86*, struct S22_class_OpenVolumeMesh__PropertyStorageBas*);
void _ZNSt23_Sp_counted_ptr_inplaceIN14OpenVolumeMesh2IO16PropertyDecoderTIbNS1_6Codecs13BoolPropCodecEEESaIvELN9__gnu_cxx12_Lock_policyE2EED0Ev(struct S60_class_std___Sp_counted_ptr_inplace_3767*);
void _ZNSt23_Sp_counted_ptr_inplaceIN14OpenVolumeMesh2IO16PropertyDecoderTIbNS1_6Codecs13BoolPropCodecEEESaIvELN9__gnu_cxx12_Lock_policyE2EE10_M_disposeEv(struct S60_class_std___Sp_counted_ptr_inplace_3767*);
void _ZNSt23_Sp_counted_ptr_inplaceIN14OpenVolumeMesh2IO16PropertyDecoderTIbNS1_6Codecs13BoolPropCodecEEESaIvELN9__gnu_cxx12_Lock_policyE2EE10_M_destroyEv(struct S60_class_std___Sp_counted_ptr_inplace_3767*);
u8* _ZNSt23_Sp_counted_ptr_inplaceIN14OpenVolumeMesh2IO16PropertyDecoderTIbNS1_6Codecs13BoolPropCodecEEESaIvELN9__gnu_cxx12_Lock_policyE2EE14_M_get_deleterERKSt9type_info(struct S60_class_std___Sp_counted_ptr_inplace_3767*, struct S39_class_std__type_info*);
void _ZN14OpenVolumeMesh2IO16PropertyEncoderTIbNS0_6Codecs13BoolPropCodecEED0Ev(struct S61_class_OpenVolumeMesh__IO__PropertyEncode*);
void _ZNK14OpenVolumeMesh2IO16PropertyEncoderTIbNS0_6Codecs13BoolPropCodecEE17serialize_defaultEPKNS_19PropertyStorageBaseERNS0_6detail11WriteBufferE(struct S61_class_OpenVolumeMesh__IO__PropertyEncode*, struct S22_class_OpenVolumeMesh__PropertyStorageBas*, struct S62_class_OpenVolumeMesh__IO__detail__WriteB*);
void _ZNK14OpenVolumeMesh2IO16PropertyEncoderTIbNS0_6Codecs13BoolPropCodecEE9serializeEPKNS_19PropertyStorageBaseERNS0_6detail11WriteBufferEmm(struct S61_class_OpenVolumeMesh__IO__PropertyEncode*, struct S22_class_OpenVolumeMesh__PropertyStorageBas*, struct S62_class_OpenVolumeMesh__IO__detail__WriteB*, u64, u64);
void _ZNSt23_Sp_counted_ptr_inplaceIN14OpenVolumeMesh2IO16PropertyEncoderTIbNS1_6Codecs13BoolPropCodecEEESaIvELN9__gnu_cxx12_Lock_policyE2EED0Ev(struct S50_class_std___Sp_counted_ptr_inplace_3753*);
void _ZNSt23_Sp_counted_ptr_inplaceIN14OpenVolumeMesh2IO16PropertyEncoderTIbNS1_6Codecs13BoolPropCodecEEESaIvELN9__gnu_cxx12_Lock_policyE2EE10_M_disposeEv(struct S50_class_std___Sp_counted_ptr_inplace_3753*);
void _ZNSt23_Sp_counted_ptr_inplaceIN14OpenVolumeMesh2IO16PropertyEncoderTIbNS1_6Codecs13BoolPropCodecEEESaIvELN9__gnu_cxx12_Lock_policyE2EE10_M_destroyEv(struct S50_class_std___Sp_counted_ptr_inplace_3753*);
u8* _ZNSt23_Sp_counted_ptr_inplaceIN14OpenVolumeMesh2IO16PropertyEncoderTIbNS1_6Codecs13BoolPropCodecEEESaIvELN9__gnu_cxx12_Lock_policyE2EE14_M_get_deleterERKSt9type_info(struct S50_class_std___Sp_counted_ptr_inplace_3753*, struct S39_class_std__type_info*);
struct S10_class_OpenVolumeMesh__IO__PropertyDecode* _ZNK14OpenVolumeMesh2IO14PropertyCodecs11get_decoderERKNSt7__cxx1112basic_stringIcSt11char_traitsIcESaIcEEE(struct S11_class_OpenVolumeMesh__IO__PropertyCodecs*, struct S14_class_std____cxx11__basic_string*);
struct S17_struct_std___Rb_tree_node_base* _ZNKSt8_Rb_treeINSt7__cxx1112basic_stringIcSt11char_traitsIcESaIcEEESt4pairIKS5_St10shared_ptrIN14OpenVolumeMesh2IO19PropertyDecoderBaseEEESt10_Select1stISD_ESt4lessIS5_ESaISD_EE4findERS7_(struct S16_class_std___Rb_tree_5*, struct S14_class_std____cxx11__basic_string*);
void _GLOBAL__sub_I_Decoder_cc(void);
u8 _ZN14OpenVolumeMesh2IO6detail7Decoder2u8Ev(struct S55_class_OpenVolumeMesh__IO__detail__Decode*);
void _ZN14OpenVolumeMesh2IO6detail7Decoder4needEm(struct S55_class_OpenVolumeMesh__IO__detail__Decode*, u64);
void _GLOBAL__sub_I_Encoder_cc(void);
void _ZN14OpenVolumeMesh2IO6detail7Encoder2u8Eh(struct S63_class_OpenVolumeMesh__IO__detail__Encode*, u8);
void _GLOBAL__sub_I_WriteBuffer_cc(void);
void _ZNSt6vectorIhSaIhEE17_M_default_appendEm(struct S54_class_std__vector*, u64);
u8* _ZN14OpenVolumeMesh2IO6detail11WriteBuffer14bytes_to_writeEm(struct S62_class_OpenVolumeMesh__IO__detail__WriteB*, u64);
void _GLOBAL__sub_I_ResourceManager_cc(void);
u64 _ZNK14OpenVolumeMesh15ResourceManager1nINS_6Entity6VertexEEEmv(struct S53_class_OpenVolumeMesh__ResourceManager*);
u64 _ZNK14OpenVolumeMesh15ResourceManager1nINS_6Entity4EdgeEEEmv(struct S53_class_OpenVolumeMesh__ResourceManager*);
u64 _ZNK14OpenVolumeMesh15ResourceManager1nINS_6Entity8HalfEdgeEEEmv(struct S53_class_OpenVolumeMesh__ResourceManager*);
u64 _ZNK14OpenVolumeMesh15ResourceManager1nINS_6Entity4FaceEEEmv(struct S53_class_OpenVolumeMesh__ResourceManager*);
u64 _ZNK14OpenVolumeMesh15ResourceManager1nINS_6Entity8HalfFaceEEEmv(struct S53_class_OpenVolumeMesh__ResourceManager*);
u64 _ZNK14OpenVolumeMesh15ResourceManager1nINS_6Entity4CellEEEmv(struct S53_class_OpenVolumeMesh__ResourceManager*);
u64 _ZNK14OpenVolumeMesh15ResourceManager1nINS_6Entity4MeshEEEmv(struct S53_class_OpenVolumeMesh__ResourceManager*);
void _GLOBAL__sub_I_PropertyStorageBase_cc(void);
void _ZN14OpenVolumeMesh6detail18internal_type_nameB5cxx11ERKSt9type_info(struct S14_class_std____cxx11__basic_string*, struct S39_class_std__type_info*);
u64 strlen(u8*);
struct S17_struct_std___Rb_tree_node_base* _ZSt18_Rb_tree_incrementPSt18_Rb_tree_node_base(struct S17_struct_std___Rb_tree_node_base*);
struct S17_struct_std___Rb_tree_node_base* _ZSt18_Rb_tree_incrementPKSt18_Rb_tree_node_base(struct S17_struct_std___Rb_tree_node_base*);
struct S17_struct_std___Rb_tree_node_base* _ZSt18_Rb_tree_decrementPSt18_Rb_tree_node_base(struct S17_struct_std___Rb_tree_node_base*);
void _ZSt29_Rb_tree_insert_and_rebalancebPSt18_Rb_tree_node_baseS0_RS_(u1, struct S17_struct_std___Rb_tree_node_base*, struct S17_struct_std___Rb_tree_node_base*, struct S17_struct_std___Rb_tree_node_base*);
struct S17_struct_std___Rb_tree_node_base* _ZSt28_Rb_tree_rebalance_for_erasePSt18_Rb_tree_node_baseRS_(struct S17_struct_std___Rb_tree_node_base*, struct S17_struct_std___Rb_tree_node_base*);
void _ZSt20__throw_length_errorPKc(u8*);
void v_throw_std(u32);
void _ZSt17__throw_bad_allocv(void);
void _ZSt19__throw_logic_errorPKc(u8*);
u8* _ZNSt7__cxx1112basic_stringIcSt11char_traitsIcESaIcEE9_M_createERmm(struct S14_class_std____cxx11__basic_string*, u64*, u64);
void v_run_static_init(void);
static u8 _ZTIb_name[2] = {98, 0};
u8* _ZTIb[2] = {(u8*)0, _ZTIb_name};
struct S0_class_std__ios_base__Init _ZStL8__ioinit = {0};
struct A0 _ZL5g_raw = {0};
struct A1 _str_7 = {{((u8)100ULL), ((u8)32ULL), ((u8)33ULL), ((u8)61ULL), ((u8)32ULL), ((u8)110ULL), ((u8)117ULL), ((u8)108ULL), ((u8)108ULL), ((u8)112ULL), ((u8)116ULL), ((u8)114ULL), ((u8)32ULL), ((u8)64ULL), ((u8)47ULL), ((u8)118ULL), ((u8)101ULL), ((u8)114ULL), ((u8)105ULL), ((u8)102ULL), ((u8)47ULL), ((u8)104ULL), ((u8)97ULL), ((u8)114ULL), ((u8)110ULL), ((u8)101ULL), ((u8)115ULL), ((u8)115ULL), ((u8)47ULL), ((u8)67ULL), ((u8)48ULL), ((u8)55ULL), ((u8)95ULL), ((u8)112ULL), ((u8)114ULL), ((u8)111ULL), ((u8)112ULL), ((u8)99ULL), ((u8)111ULL), ((u8)100ULL), ((u8)101ULL), ((u8)99ULL), ((u8)115ULL), ((u8)46ULL), ((u8)99ULL), ((u8)112ULL), ((u8)112ULL), ((u8)58ULL), ((u8)49ULL), ((u8)52ULL), ((u8)55ULL), ((u8)0ULL)}};
struct A1 _str_8 = {{((u8)111ULL), ((u8)117ULL), ((u8)116ULL), ((u8)32ULL), ((u8)33ULL), ((u8)61ULL), ((u8)32ULL), ((u8)79ULL), ((u8)84ULL), ((u8)72ULL), ((u8)69ULL), ((u8)82ULL), ((u8)32ULL), ((u8)64ULL), ((u8)47ULL), ((u8)118ULL), ((u8)101ULL), ((u8)114ULL), ((u8)105ULL), ((u8)102ULL), ((u8)47ULL), ((u8)104ULL), ((u8)97ULL), ((u8)114ULL), ((u8)110ULL), ((u8)101ULL), ((u8)115ULL), ((u8)115ULL), ((u8)47ULL), ((u8)67ULL), ((u8)48ULL), ((u8)55ULL), ((u8)95ULL), ((u8)112ULL), ((u8)114ULL), ((u8)111ULL), ((u8)112ULL), ((u8)99ULL), ((u8)111ULL), ((u8)100ULL), ((u8)101ULL), ((u8)99ULL), ((u8)115ULL), ((u8)46ULL), ((u8)99ULL), ((u8)112ULL), ((u8)112ULL), ((u8)58ULL), ((u8)49ULL), ((u8)54ULL), ((u8)48ULL), ((u8)0ULL)}};
struct A2 _str_9 = {{((u8)40ULL), ((u8)111ULL), ((u8)117ULL), ((u8)116ULL), ((u8)32ULL), ((u8)61ULL), ((u8)61ULL), ((u8)32ULL), ((u8)79ULL), ((u8)75ULL), ((u8)41ULL), ((u8)32ULL), ((u8)61ULL), ((u8)61ULL), ((u8)32ULL), ((u8)40ULL), ((u8)110ULL), ((u8)101ULL), ((u8)101ULL), ((u8)100ULL), ((u8)32ULL), ((u8)60ULL), ((u8)61ULL), ((u8)32ULL), ((u8)108ULL), ((u8)101ULL), ((u8)110ULL), ((u8)41ULL), ((u8)32ULL), ((u8)64ULL), ((u8)47ULL), ((u8)118ULL), ((u8)101ULL), ((u8)114ULL), ((u8)105ULL), ((u8)102ULL), ((u8)47ULL), ((u8)104ULL), ((u8)97ULL), ((u8)114ULL), ((u8)110ULL), ((u8)101ULL), ((u8)115ULL), ((u8)115ULL), ((u8)47ULL), ((u8)67ULL), ((u8)48ULL), ((u8)55ULL), ((u8)95ULL), ((u8)112ULL), ((u8)114ULL), ((u8)111ULL), ((u8)112ULL), ((u8)99ULL), ((u8)111ULL), ((u8)100ULL), ((u8)101ULL), ((u8)99ULL), ((u8)115ULL), ((u8)46ULL), ((u8)99ULL), ((u8)112ULL), ((u8)112ULL), ((u8)58ULL), ((u8)49ULL), ((u8)54ULL), ((u8)50ULL), ((u8)0ULL)}};
struct A3 _str_10 = {{((u8)100ULL), ((u8)101ULL), ((u8)99ULL), ((u8)46ULL), ((u8)112ULL), ((u8)111ULL), ((u8)115ULL), ((u8)40ULL), ((u8)41ULL), ((u8)32ULL), ((u8)61ULL), ((u8)61ULL), ((u8)32ULL), ((u8)110ULL), ((u8)101ULL), ((u8)101ULL), ((u8)100ULL), ((u8)32ULL), ((u8)64ULL), ((u8)47ULL), ((u8)118ULL), ((u8)101ULL), ((u8)114ULL), ((u8)105ULL), ((u8)102ULL), ((u8)47ULL), ((u8)104ULL), ((u8)97ULL), ((u8)114ULL), ((u8)110ULL), ((u8)101ULL), ((u8)115ULL), ((u8)115ULL), ((u8)47ULL), ((u8)67ULL), ((u8)48ULL), ((u8)55ULL), ((u8)95ULL), ((u8)112ULL), ((u8)114ULL), ((u8)111ULL), ((u8)112ULL), ((u8)99ULL), ((u8)111ULL), ((u8)100ULL), ((u8)101ULL), ((u8)99ULL), ((u8)115ULL), ((u8)46ULL), ((u8)99ULL), ((u8)112ULL), ((u8)112ULL), ((u8)58ULL), ((u8)49ULL), ((u8)54ULL), ((u8)52ULL), ((u8)0ULL)}};
struct A4 _str_11 = {{((u8)115ULL), ((u8)116ULL), ((u8)91ULL), ((u8)102ULL), ((u8)105ULL), ((u8)114ULL), ((u8)115ULL), ((u8)116ULL), ((u8)32ULL), ((u8)43ULL), ((u8)32ULL), ((u8)107ULL), ((u8)93ULL), ((u8)32ULL), ((u8)61ULL), ((u8)61ULL), ((u8)32ULL), ((u8)40ULL), ((u8)98ULL), ((u8)111ULL), ((u8)111ULL), ((u8)108ULL), ((u8)41ULL), ((u8)40ULL), ((u8)40ULL), ((u8)103ULL), ((u8)95ULL), ((u8)114ULL), ((u8)97ULL), ((u8)119ULL), ((u8)91ULL), ((u8)107ULL), ((u8)32ULL), ((u8)47ULL), ((u8)32ULL), ((u8)56ULL), ((u8)93ULL), ((u8)32ULL), ((u8)62ULL), ((u8)62ULL), ((u8)32ULL), ((u8)40ULL), ((u8)107ULL), ((u8)32ULL), ((u8)37ULL), ((u8)32ULL), ((u8)56ULL), ((u8)41ULL), ((u8)41ULL), ((u8)32ULL), ((u8)38ULL), ((u8)32ULL), ((u8)49ULL), ((u8)41ULL), ((u8)32ULL), ((u8)64ULL), ((u8)47ULL), ((u8)118ULL), ((u8)101ULL), ((u8)114ULL), ((u8)105ULL), ((u8)102ULL), ((u8)47ULL), ((u8)104ULL), ((u8)97ULL), ((u8)114ULL), ((u8)110ULL), ((u8)101ULL), ((u8)115ULL), ((u8)115ULL), ((u8)47ULL), ((u8)67ULL), ((u8)48ULL), ((u8)55ULL), ((u8)95ULL), ((u8)112ULL), ((u8)114ULL), ((u8)111ULL), ((u8)112ULL), ((u8)99ULL), ((u8)111ULL), ((u8)100ULL), ((u8)101ULL), ((u8)99ULL), ((u8)115ULL), ((u8)46ULL), ((u8)99ULL), ((u8)112ULL), ((u8)112ULL), ((u8)58ULL), ((u8)49ULL), ((u8)54ULL), ((u8)54ULL), ((u8)0ULL)}};
struct A5 _str_12 = {{((u8)115ULL), ((u8)116ULL), ((u8)91ULL), ((u8)107ULL), ((u8)93ULL), ((u8)32ULL), ((u8)61ULL), ((u8)61ULL), ((u8)32ULL), ((u8)102ULL), ((u8)97ULL), ((u8)108ULL), ((u8)115ULL), ((u8)101ULL), ((u8)32ULL), ((u8)64ULL), ((u8)47ULL), ((u8)118ULL), ((u8)101ULL), ((u8)114ULL), ((u8)105ULL), ((u8)102ULL), ((u8)47ULL), ((u8)104ULL), ((u8)97ULL), ((u8)114ULL), ((u8)110ULL), ((u8)101ULL), ((u8)115ULL), ((u8)115ULL), ((u8)47ULL), ((u8)67ULL), ((u8)48ULL), ((u8)55ULL), ((u8)95ULL), ((u8)112ULL), ((u8)114ULL), ((u8)111ULL), ((u8)112ULL), ((u8)99ULL), ((u8)111ULL), ((u8)100ULL), ((u8)101ULL), ((u8)99ULL), ((u8)115ULL), ((u8)46ULL), ((u8)99ULL), ((u8)112ULL), ((u8)112ULL), ((u8)58ULL), ((u8)49ULL), ((u8)54ULL), ((u8)55ULL), ((u8)0ULL)}};
struct A6 _str_13 = {{((u8)100ULL), ((u8)101ULL), ((u8)115ULL), ((u8)101ULL), ((u8)114ULL), ((u8)105ULL), ((u8)97ULL), ((u8)108ULL), ((u8)105ULL), ((u8)122ULL), ((u8)101ULL), ((u8)32ULL), ((u8)98ULL), ((u8)111ULL), ((u8)111ULL), ((u8)108ULL), ((u8)58ULL), ((u8)32ULL), ((u8)97ULL), ((u8)99ULL), ((u8)99ULL), ((u8)101ULL), ((u8)112ULL), ((u8)116ULL), ((u8)101ULL), ((u8)100ULL), ((u8)0ULL)}};
struct A7 _str_14 = {{((u8)100ULL), ((u8)101ULL), ((u8)115ULL), ((u8)101ULL), ((u8)114ULL), ((u8)105ULL), ((u8)97ULL), ((u8)108ULL), ((u8)105ULL), ((u8)122ULL), ((u8)101ULL), ((u8)32ULL), ((u8)98ULL), ((u8)111ULL), ((u8)111ULL), ((u8)108ULL), ((u8)58ULL), ((u8)32ULL), ((u8)112ULL), ((u8)97ULL), ((u8)114ULL), ((u8)115ULL), ((u8)101ULL), ((u8)95ULL), ((u8)101ULL), ((u8)114ULL), ((u8)114ULL), ((u8)111ULL), ((u8)114ULL), ((u8)0ULL)}};
struct A8 _str_15 = {{((u8)118ULL), ((u8)101ULL), ((u8)99ULL), ((u8)116ULL), ((u8)111ULL), ((u8)114ULL), ((u8)58ULL), ((u8)58ULL), ((u8)114ULL), ((u8)101ULL), ((u8)115ULL), ((u8)101ULL), ((u8)114ULL), ((u8)118ULL), ((u8)101ULL), ((u8)0ULL)}};
struct A9 _str_16 = {{((u8)118ULL), ((u8)101ULL), ((u8)99ULL), ((u8)116ULL), ((u8)111ULL), ((u8)114ULL), ((u8)60ULL), ((u8)98ULL), ((u8)111ULL), ((u8)111ULL), ((u8)108ULL), ((u8)62ULL), ((u8)58ULL), ((u8)58ULL), ((u8)95ULL), ((u8)77ULL), ((u8)95ULL), ((u8)105ULL), ((u8)110ULL), ((u8)115ULL), ((u8)101ULL), ((u8)114ULL), ((u8)116ULL), ((u8)95ULL), ((u8)97ULL), ((u8)117ULL), ((u8)120ULL), ((u8)0ULL)}};
struct A10 _str_17 = {{((u8)101ULL), ((u8)110ULL), ((u8)116ULL), ((u8)105ULL), ((u8)116ULL), ((u8)121ULL), ((u8)116ULL), ((u8)97ULL), ((u8)103ULL), ((u8)95ULL), ((u8)100ULL), ((u8)105ULL), ((u8)115ULL), ((u8)112ULL), ((u8)97ULL), ((u8)116ULL), ((u8)99ULL), ((u8)104ULL), ((u8)40ULL), ((u8)41ULL), ((u8)58ULL), ((u8)32ULL), ((u8)117ULL), ((u8)110ULL), ((u8)107ULL), ((u8)110ULL), ((u8)111ULL), ((u8)119ULL), ((u8)110ULL), ((u8)32ULL), ((u8)101ULL), ((u8)110ULL), ((u8)116ULL), ((u8)105ULL), ((u8)116ULL), ((u8)121ULL), ((u8)46ULL), ((u8)0ULL)}};
struct A11 _str_18 = {{((u8)118ULL), ((u8)101ULL), ((u8)99ULL), ((u8)116ULL), ((u8)111ULL), ((u8)114ULL), ((u8)60ULL), ((u8)98ULL), ((u8)111ULL), ((u8)111ULL), ((u8)108ULL), ((u8)62ULL), ((u8)58ULL), ((u8)58ULL), ((u8)95ULL), ((u8)77ULL), ((u8)95ULL), ((u8)102ULL), ((u8)105ULL), ((u8)108ULL), ((u8)108ULL), ((u8)95ULL), ((u8)105ULL), ((u8)110ULL), ((u8)115ULL), ((u8)101ULL), ((u8)114ULL), ((u8)116ULL), ((u8)0ULL)}};
struct S1 _ZTVSt23_Sp_counted_ptr_inplaceIN14OpenVolumeMesh2IO16PropertyEncoderTIbNS1_6Codecs13BoolPropCodecEEESaIvELN9__gnu_cxx12_Lock_policyE2EE = {{{((u8*)0), ((u8*)(&_ZTISt23_Sp_counted_ptr_inplaceIN14OpenVolumeMesh2IO16PropertyEncoderTIbNS1_6Codecs13BoolPropCodecEEESaIvELN9__gnu_cxx12_Lock_policyE2EE)), ((u8*)((fnptr_t)_ZNSt16_Sp_counted_baseILN9__gnu_cxx12_Lock_policyE2EED2Ev)), ((u8*)((fnptr_t)_ZNSt23_Sp_counted_ptr_inplaceIN14OpenVolumeMesh2IO16PropertyEncoderTIbNS1_6Codecs13BoolPropCodecEEESaIvELN9__gnu_cxx12_Lock_policyE2EED0Ev)), ((u8*)((fnptr_t)_ZNSt23_Sp_counted_ptr_inplaceIN14OpenVolumeMesh2IO16PropertyEncoderTIbNS1_6Codecs13BoolPropCodecEEESaIvELN9__gnu_cxx12_Lock_policyE2EE10_M_disposeEv)), ((u8*)((fnptr_t)_ZNSt23_Sp_counted_ptr_inplaceIN14OpenVolumeMesh2IO16PropertyEncoderTIbNS1_6Codecs13BoolPropCodecEEESaIvELN9__gnu_cxx12_Lock_policyE2EE10_M_destroyEv)), ((u8*)((fnptr_t)_ZNSt23_Sp_counted_ptr_inplaceIN14OpenVolumeMesh2IO16PropertyEncoderTIbNS1_6Codecs13BoolPropCodecEEESaIvELN9__gnu_cxx12_Lock_policyE2EE14_M_get_deleterERKSt9type_info))}}};
struct A12 _ZTSSt23_Sp_counted_ptr_inplaceIN14OpenVolumeMesh2IO16PropertyEncoderTIbNS1_6Codecs13BoolPropCodecEEESaIvELN9__gnu_cxx12_Lock_policyE2EE = {{((u8)83ULL), ((u8)116ULL), ((u8)50ULL), ((u8)51ULL), ((u8)95ULL), ((u8)83ULL), ((u8)112ULL), ((u8)95ULL), ((u8)99ULL), ((u8)111ULL), ((u8)117ULL), ((u8)110ULL), ((u8)116ULL), ((u8)101ULL), ((u8)100ULL), ((u8)95ULL), ((u8)112ULL), ((u8)116ULL), ((u8)114ULL), ((u8)95ULL), ((u8)105ULL), ((u8)110ULL), ((u8)112ULL), ((u8)108ULL), ((u8)97ULL), ((u8)99ULL), ((u8)101ULL), ((u8)73ULL), ((u8)78ULL), ((u8)49ULL), ((u8)52ULL), ((u8)79ULL), ((u8)112ULL), ((u8)101ULL), ((u8)110ULL), ((u8)86ULL), ((u8)111ULL), ((u8)108ULL), ((u8)117ULL), ((u8)109ULL), ((u8)101ULL), ((u8)77ULL), ((u8)101ULL), ((u8)115ULL), ((u8)104ULL), ((u8)50ULL), ((u8)73ULL), ((u8)79ULL), ((u8)49ULL), ((u8)54ULL), ((u8)80ULL), ((u8)114ULL), ((u8)111ULL), ((u8)112ULL), ((u8)101ULL), ((u8)114ULL), ((u8)116ULL), ((u8)121ULL), ((u8)69ULL), ((u8)110ULL), ((u8)99ULL), ((u8)111ULL), ((u8)100ULL), ((u8)101ULL), ((u8)114ULL), ((u8)84ULL), ((u8)73ULL), ((u8)98ULL), ((u8)78ULL), ((u8)83ULL), ((u8)49ULL), ((u8)95ULL), ((u8)54ULL), ((u8)67ULL), ((u8)111ULL), ((u8)100ULL), ((u8)101ULL), ((u8)99ULL), ((u8)115ULL), ((u8)49ULL), ((u8)51ULL), ((u8)66ULL), ((u8)111ULL), ((u8)111ULL), ((u8)108ULL), ((u8)80ULL), ((u8)114ULL), ((u8)111ULL), ((u8)112ULL), ((u8)67ULL), ((u8)111ULL), ((u8)100ULL), ((u8)101ULL), ((u8)99ULL), ((u8)69ULL), ((u8)69ULL), ((u8)69ULL), ((u8)83ULL), ((u8)97ULL), ((u8)73ULL), ((u8)118ULL), ((u8)69ULL), ((u8)76ULL), ((u8)78ULL), ((u8)57ULL), ((u8)95ULL), ((u8)95ULL), ((u8)103ULL), ((u8)110ULL), ((u8)117ULL), ((u8)95ULL), ((u8)99ULL), ((u8)120ULL), ((u8)120ULL), ((u8)49ULL), ((u8)50ULL), ((u8)95ULL), ((u8)76ULL), ((u8)111ULL), ((u8)99ULL), ((u8)107ULL), ((u8)95ULL), ((u8)112ULL), ((u8)111ULL), ((u8)108ULL), ((u8)105ULL), ((u8)99ULL), ((u8)121ULL), ((u8)69ULL), ((u8)50ULL), ((u8)69ULL), ((u8)69ULL), ((u8)0ULL)}};
struct A1 _ZTSSt16_Sp_counted_baseILN9__gnu_cxx12_Lock_policyE2EE = {{((u8)83ULL), ((u8)116ULL), ((u8)49ULL), ((u8)54ULL), ((u8)95ULL), ((u8)83ULL), ((u8)112ULL), ((u8)95ULL), ((u8)99ULL), ((u8)111ULL), ((u8)117ULL), ((u8)110ULL), ((u8)116ULL), ((u8)101ULL), ((u8)100ULL), ((u8)95ULL), ((u8)98ULL), ((u8)97ULL), ((u8)115ULL), ((u8)101ULL), ((u8)73ULL), ((u8)76ULL), ((u8)78ULL), ((u8)57ULL), ((u8)95ULL), ((u8)95ULL), ((u8)103ULL), ((u8)110ULL), ((u8)117ULL), ((u8)95ULL), ((u8)99ULL), ((u8)120ULL), ((u8)120ULL), ((u8)49ULL), ((u8)50ULL), ((u8)95ULL), ((u8)76ULL), ((u8)111ULL), ((u8)99ULL), ((u8)107ULL), ((u8)95ULL), ((u8)112ULL), ((u8)111ULL), ((u8)108ULL), ((u8)105ULL), ((u8)99ULL), ((u8)121ULL), ((u8)69ULL), ((u8)50ULL), ((u8)69ULL), ((u8)69ULL), ((u8)0ULL)}};
struct A13 _ZTSSt11_Mutex_baseILN9__gnu_cxx12_Lock_policyE2EE = {{((u8)83ULL), ((u8)116ULL), ((u8)49ULL), ((u8)49ULL), ((u8)95ULL), ((u8)77ULL), ((u8)117ULL), ((u8)116ULL), ((u8)101ULL), ((u8)120ULL), ((u8)95ULL), ((u8)98ULL), ((u8)97ULL), ((u8)115ULL), ((u8)101ULL), ((u8)73ULL), ((u8)76ULL), ((u8)78ULL), ((u8)57ULL), ((u8)95ULL), ((u8)95ULL), ((u8)103ULL), ((u8)110ULL), ((u8)117ULL), ((u8)95ULL), ((u8)99ULL), ((u8)120ULL), ((u8)120ULL), ((u8)49ULL), ((u8)50ULL), ((u8)95ULL), ((u8)76ULL), ((u8)111ULL), ((u8)99ULL), ((u8)107ULL), ((u8)95ULL), ((u8)112ULL), ((u8)111ULL), ((u8)108ULL), ((u8)105ULL), ((u8)99ULL), ((u8)121ULL), ((u8)69ULL), ((u8)50ULL), ((u8)69ULL), ((u8)69ULL), ((u8)0ULL)}};
struct S2 _ZTISt11_Mutex_baseILN9__gnu_cxx12_Lock_policyE2EE = {((u8*)((u8**)((&_ZTVN10__cxxabiv117__class_type_infoE) + (s64)((s64)((u64)2ULL))))), ((u8*)(&(*(&_ZTSSt11_Mutex_baseILN9__gnu_cxx12_Lock_policyE2EE)).e[(s64)((s32)((u32)0ULL))]))};
struct S3 _ZTISt16_Sp_counted_baseILN9__gnu_cxx12_Lock_policyE2EE = {((u8*)((u8**)((&_ZTVN10__cxxabiv120__si_class_type_infoE) + (s64)((s64)((u64)2ULL))))), ((u8*)(&(*(&_ZTSSt16_Sp_counted_baseILN9__gnu_cxx12_Lock_policyE2EE)).e[(s64)((s32)((u32)0ULL))])), ((u8*)(&_ZTISt11_Mutex_baseILN9__gnu_cxx12_Lock_policyE2EE))};
struct S3 _ZTISt23_Sp_counted_ptr_inplaceIN14OpenVolumeMesh2IO16PropertyEncoderTIbNS1_6Codecs13BoolPropCodecEEESaIvELN9__gnu_cxx12_Lock_policyE2EE = {((u8*)((u8**)((&_ZTVN10__cxxabiv120__si_class_type_infoE) + (s64)((s64)((u64)2ULL))))), ((u8*)(&(*(&_ZTSSt23_Sp_counted_ptr_inplaceIN14OpenVolumeMesh2IO16PropertyEncoderTIbNS1_6Codecs13BoolPropCodecEEESaIvELN9__gnu_cxx12_Lock_policyE2EE)).e[(s64)((s32)((u32)0ULL))])), ((u8*)(&_ZTISt16_Sp_counted_baseILN9__gnu_cxx12_Lock_policyE2EE))};
struct S1 _ZTVSt16_Sp_counted_baseILN9__gnu_cxx12_Lock_policyE2EE = {{{((u8*)0), ((u8*)(&_ZTISt16_Sp_counted_baseILN9__gnu_cxx12_Lock_policyE2EE)), ((u8*)((fnptr_t)_ZNSt16_Sp_counted_baseILN9__gnu_cxx12_Lock_policyE2EED2Ev)), ((u8*)((fnptr_t)_ZNSt16_Sp_counted_baseILN9__gnu_cxx12_Lock_policyE2EED0Ev)), ((u8*)((fnptr_t)__cxa_pure_virtual)), ((u8*)((fnptr_t)_ZNSt16_Sp_counted_baseILN9__gnu_cxx12_Lock_policyE2EE10_M_destroyEv)), ((u8*)((fnptr_t)__cxa_pure_virtual))}}};
struct S4 _ZTVN14OpenVolumeMesh2IO16PropertyEncoderTIbNS0_6Codecs13BoolPropCodecEEE = {{{((u8*)0), ((u8*)(&_ZTIN14OpenVolumeMesh2IO16PropertyEncoderTIbNS0_6Codecs13BoolPropCodecEEE)), ((u8*)((fnptr_t)_ZN14OpenVolumeMesh2IO19PropertyEncoderBaseD2Ev)), ((u8*)((fnptr_t)_ZN14OpenVolumeMesh2IO16PropertyEncoderTIbNS0_6Codecs13BoolPropCodecEED0Ev)), ((u8*)((fnptr_t)_ZNK14OpenVolumeMesh2IO16PropertyEncoderTIbNS0_6Codecs13BoolPropCodecEE17serialize_defaultEPKNS_19PropertyStorageBaseERNS0_6detail11WriteBufferE)), ((u8*)((fnptr_t)_ZNK14OpenVolumeMesh2IO16PropertyEncoderTIbNS0_6Codecs13BoolPropCodecEE9serializeEPKNS_19PropertyStorageBaseERNS0_6detail11WriteBufferEmm))}}};
struct A14 _ZTSN14OpenVolumeMesh2IO16PropertyEncoderTIbNS0_6Codecs13BoolPropCodecEEE = {{((u8)78ULL), ((u8)49ULL), ((u8)52ULL), ((u8)79ULL), ((u8)112ULL), ((u8)101ULL), ((u8)110ULL), ((u8)86ULL), ((u8)111ULL), ((u8)108ULL), ((u8)117ULL), ((u8)109ULL), ((u8)101ULL), ((u8)77ULL), ((u8)101ULL), ((u8)115ULL), ((u8)104ULL), ((u8)50ULL), ((u8)73ULL), ((u8)79ULL), ((u8)49ULL), ((u8)54ULL), ((u8)80ULL), ((u8)114ULL), ((u8)111ULL), ((u8)112ULL), ((u8)101ULL), ((u8)114ULL), ((u8)116ULL), ((u8)121ULL), ((u8)69ULL), ((u8)110ULL), ((u8)99ULL), ((u8)111ULL), ((u8)100ULL), ((u8)101ULL), ((u8)114ULL), ((u8)84ULL), ((u8)73ULL), ((u8)98ULL), ((u8)78ULL), ((u8)83ULL), ((u8)48ULL), ((u8)95ULL), ((u8)54ULL), ((u8)67ULL), ((u8)111ULL), ((u8)100ULL), ((u8)101ULL), ((u8)99ULL), ((u8)115ULL), ((u8)49ULL), ((u8)51ULL), ((u8)66ULL), ((u8)111ULL), ((u8)111ULL), ((u8)108ULL), ((u8)80ULL), ((u8)114ULL), ((u8)111ULL), ((u8)112ULL), ((u8)67ULL), ((u8)111ULL), ((u8)100ULL), ((u8)101ULL), ((u8)99ULL), ((u8)69ULL), ((u8)69ULL), ((u8)69ULL), ((u8)0ULL)}};
struct A15 _ZTSN14OpenVolumeMesh2IO19PropertyEncoderBaseE = {{((u8)78ULL), ((u8)49ULL), ((u8)52ULL), ((u8)79ULL), ((u8)112ULL), ((u8)101ULL), ((u8)110ULL), ((u8)86ULL), ((u8)111ULL), ((u8)108ULL), ((u8)117ULL), ((u8)109ULL), ((u8)101ULL), ((u8)77ULL), ((u8)101ULL), ((u8)115ULL), ((u8)104ULL), ((u8)50ULL), ((u8)73ULL), ((u8)79ULL), ((u8)49ULL), ((u8)57ULL), ((u8)80ULL), ((u8)114ULL), ((u8)111ULL), ((u8)112ULL), ((u8)101ULL), ((u8)114ULL), ((u8)116ULL), ((u8)121ULL), ((u8)69ULL), ((u8)110ULL), ((u8)99ULL), ((u8)111ULL), ((u8)100ULL), ((u8)101ULL), ((u8)114ULL), ((u8)66ULL), ((u8)97ULL), ((u8)115ULL), ((u8)101ULL), ((u8)69ULL), ((u8)0ULL)}};
struct S2 _ZTIN14OpenVolumeMesh2IO19PropertyEncoderBaseE = {((u8*)((u8**)((&_ZTVN10__cxxabiv117__class_type_infoE) + (s64)((s64)((u64)2ULL))))), ((u8*)(&(*(&_ZTSN14OpenVolumeMesh2IO19PropertyEncoderBaseE)).e[(s64)((s32)((u32)0ULL))]))};
struct S3 _ZTIN14OpenVolumeMesh2IO16PropertyEncoderTIbNS0_6Codecs13BoolPropCodecEEE = {((u8*)((u8**)((&_ZTVN10__cxxabiv120__si_class_type_infoE) + (s64)((s64)((u64)2ULL))))), ((u8*)(&(*(&_ZTSN14OpenVolumeMesh2IO16PropertyEncoderTIbNS0_6Codecs13BoolPropCodecEEE)).e[(s64)((s32)((u32)0ULL))])), ((u8*)(&_ZTIN14OpenVolumeMesh2IO19PropertyEncoderBaseE))};
struct S4 _ZTVN14OpenVolumeMesh2IO19PropertyEncoderBaseE = {{{((u8*)0), ((u8*)(&_ZTIN14OpenVolumeMesh2IO19PropertyEncoderBaseE)), ((u8*)((fnptr_t)_ZN14OpenVolumeMesh2IO19PropertyEncoderBaseD2Ev)), ((u8*)((fnptr_t)_ZN14OpenVolumeMesh2IO19PropertyEncoderBaseD0Ev)), ((u8*)((fnptr_t)__cxa_pure_virtual)), ((u8*)((fnptr_t)__cxa_pure_virtual))}}};
struct A16 _ZTSSt19_Sp_make_shared_tag = {{((u8)83ULL), ((u8)116ULL), ((u8)49ULL), ((u8)57ULL), ((u8)95ULL), ((u8)83ULL), ((u8)112ULL), ((u8)95ULL), ((u8)109ULL), ((u8)97ULL), ((u8)107ULL), ((u8)101ULL), ((u8)95ULL), ((u8)115ULL), ((u8)104ULL), ((u8)97ULL), ((u8)114ULL), ((u8)101ULL), ((u8)100ULL), ((u8)95ULL), ((u8)116ULL), ((u8)97ULL), ((u8)103ULL), ((u8)0ULL)}};
struct A8 _ZZNSt19_Sp_make_shared_tag5_S_tiEvE5__tag = {0};
struct S0_class_std__ios_base__Init _ZSt19piecewise_construct = {0};
struct S1 _ZTVSt23_Sp_counted_ptr_inplaceIN14OpenVolumeMesh2IO16PropertyDecoderTIbNS1_6Codecs13BoolPropCodecEEESaIvELN9__gnu_cxx12_Lock_policyE2EE = {{{((u8*)0), ((u8*)(&_ZTISt23_Sp_counted_ptr_inplaceIN14OpenVolumeMesh2IO16PropertyDecoderTIbNS1_6Codecs13BoolPropCodecEEESaIvELN9__gnu_cxx12_Lock_policyE2EE)), ((u8*)((fnptr_t)_ZNSt16_Sp_counted_baseILN9__gnu_cxx12_Lock_policyE2EED2Ev)), ((u8*)((fnptr_t)_ZNSt23_Sp_counted_ptr_inplaceIN14OpenVolumeMesh2IO16PropertyDecoderTIbNS1_6Codecs13BoolPropCodecEEESaIvELN9__gnu_cxx12_Lock_policyE2EED0Ev)), ((u8*)((fnptr_t)_ZNSt23_Sp_counted_ptr_inplaceIN14OpenVolumeMesh2IO16PropertyDecoderTIbNS1_6Codecs13BoolPropCodecEEESaIvELN9__gnu_cxx12_Lock_policyE2EE10_M_disposeEv)), ((u8*)((fnptr_t)_ZNSt23_Sp_counted_ptr_inplaceIN14OpenVolumeMesh2IO16PropertyDecoderTIbNS1_6Codecs13BoolPropCodecEEESaIvELN9__gnu_cxx12_Lock_policyE2EE10_M_destroyEv)), ((u8*)((fnptr_t)_ZNSt23_Sp_counted_ptr_inplaceIN14OpenVolumeMesh2IO16PropertyDecoderTIbNS1_6Codecs13BoolPropCodecEEESaIvELN9__gnu_cxx12_Lock_policyE2EE14_M_get_deleterERKSt9type_info))}}};
struct A12 _ZTSSt23_Sp_counted_ptr_inplaceIN14OpenVolumeMesh2IO16PropertyDecoderTIbNS1_6Codecs13BoolPropCodecEEESaIvELN9__gnu_cxx12_Lock_policyE2EE = {{((u8)83ULL), ((u8)116ULL), ((u8)50ULL), ((u8)51ULL), ((u8)95ULL), ((u8)83ULL), ((u8)112ULL), ((u8)95ULL), ((u8)99ULL), ((u8)111ULL), ((u8)117ULL), ((u8)110ULL), ((u8)116ULL), ((u8)101ULL), ((u8)100ULL), ((u8)95ULL), ((u8)112ULL), ((u8)116ULL), ((u8)114ULL), ((u8)95ULL), ((u8)105ULL), ((u8)110ULL), ((u8)112ULL), ((u8)108ULL), ((u8)97ULL), ((u8)99ULL), ((u8)101ULL), ((u8)73ULL), ((u8)78ULL), ((u8)49ULL), ((u8)52ULL), ((u8)79ULL), ((u8)112ULL), ((u8)101ULL), ((u8)110ULL), ((u8)86ULL), ((u8)111ULL), ((u8)108ULL), ((u8)117ULL), ((u8)109ULL), ((u8)101ULL), ((u8)77ULL), ((u8)101ULL), ((u8)115ULL), ((u8)104ULL), ((u8)50ULL), ((u8)73ULL), ((u8)79ULL), ((u8)49ULL), ((u8)54ULL), ((u8)80ULL), ((u8)114ULL), ((u8)111ULL), ((u8)112ULL), ((u8)101ULL), ((u8)114ULL), ((u8)116ULL), ((u8)121ULL), ((u8)68ULL), ((u8)101ULL), ((u8)99ULL), ((u8)111ULL), ((u8)100ULL), ((u8)101ULL), ((u8)114ULL), ((u8)84ULL), ((u8)73ULL), ((u8)98ULL), ((u8)78ULL), ((u8)83ULL), ((u8)49ULL), ((u8)95ULL), ((u8)54ULL), ((u8)67ULL), ((u8)111ULL), ((u8)100ULL), ((u8)101ULL), ((u8)99ULL), ((u8)115ULL), ((u8)49ULL), ((u8)51ULL), ((u8)66ULL), ((u8)111ULL), ((u8)111ULL), ((u8)108ULL), ((u8)80ULL), ((u8)114ULL), ((u8)111ULL), ((u8)112ULL), ((u8)67ULL), ((u8)111ULL), ((u8)100ULL), ((u8)101ULL), ((u8)99ULL), ((u8)69ULL), ((u8)69ULL), ((u8)69ULL), ((u8)83ULL), ((u8)97ULL), ((u8)73ULL), ((u8)118ULL), ((u8)69ULL), ((u8)76ULL), ((u8)78ULL), ((u8)57ULL), ((u8)95ULL), ((u8)95ULL), ((u8)103ULL), ((u8)110ULL), ((u8)117ULL), ((u8)95ULL), ((u8)99ULL), ((u8)120ULL), ((u8)120ULL), ((u8)49ULL), ((u8)50ULL), ((u8)95ULL), ((u8)76ULL), ((u8)111ULL), ((u8)99ULL), ((u8)107ULL), ((u8)95ULL), ((u8)112ULL), ((u8)111ULL), ((u8)108ULL), ((u8)105ULL), ((u8)99ULL), ((u8)121ULL), ((u8)69ULL), ((u8)50ULL), ((u8)69ULL), ((u8)69ULL), ((u8)0ULL)}};
struct S3 _ZTISt23_Sp_counted_ptr_inplaceIN14OpenVolumeMesh2IO16PropertyDecoderTIbNS1_6Codecs13BoolPropCodecEEESaIvELN9__gnu_cxx12_Lock_policyE2EE = {((u8*)((u8**)((&_ZTVN10__cxxabiv120__si_class_type_infoE) + (s64)((s64)((u64)2ULL))))), ((u8*)(&(*(&_ZTSSt23_Sp_counted_ptr_inplaceIN14OpenVolumeMesh2IO16PropertyDecoderTIbNS1_6Codecs13BoolPropCodecEEESaIvELN9__gnu_cxx12_Lock_policyE2EE)).e[(s64)((s32)((u32)0ULL))])), ((u8*)(&_ZTISt16_Sp_counted_baseILN9__gnu_cxx12_Lock_policyE2EE))};
struct S4 _ZTVN14OpenVolumeMesh2IO16PropertyDecoderTIbNS0_6Codecs13BoolPropCodecEEE = {{{((u8*)0), ((u8*)(&_ZTIN14OpenVolumeMesh2IO16PropertyDecoderTIbNS0_6Codecs13BoolPropCodecEEE)), ((u8*)((fnptr_t)_ZN14OpenVolumeMesh2IO19PropertyDecoderBaseD2Ev)), ((u8*)((fnptr_t)_ZN14OpenVolumeMesh2IO16PropertyDecoderTIbNS0_6Codecs13BoolPropCodecEED0Ev)), ((u8*)((fnptr_t)_ZNK14OpenVolumeMesh2IO16PropertyDecoderTIbNS0_6Codecs13BoolPropCodecEE16request_propertyERNS_15ResourceManagerENS_10EntityTypeERKNSt7__cxx1112basic_stringIcSt11char_traitsIcESaIcEEERKSt6vectorIhSaIhEE)), ((u8*)((fnptr_t)_ZNK14OpenVolumeMesh2IO16PropertyDecoderTIbNS0_6Codecs13BoolPropCodecEE11deserializeEPNS_19PropertyStorageBaseERNS0_6detail7DecoderEmm))}}};
struct A14 _ZTSN14OpenVolumeMesh2IO16PropertyDecoderTIbNS0_6Codecs13BoolPropCodecEEE = {{((u8)78ULL), ((u8)49ULL), ((u8)52ULL), ((u8)79ULL), ((u8)112ULL), ((u8)101ULL), ((u8)110ULL), ((u8)86ULL), ((u8)111ULL), ((u8)108ULL), ((u8)117ULL), ((u8)109ULL), ((u8)101ULL), ((u8)77ULL), ((u8)101ULL), ((u8)115ULL), ((u8)104ULL), ((u8)50ULL), ((u8)73ULL), ((u8)79ULL), ((u8)49ULL), ((u8)54ULL), ((u8)80ULL), ((u8)114ULL), ((u8)111ULL), ((u8)112ULL), ((u8)101ULL), ((u8)114ULL), ((u8)116ULL), ((u8)121ULL), ((u8)68ULL), ((u8)101ULL), ((u8)99ULL), ((u8)111ULL), ((u8)100ULL), ((u8)101ULL), ((u8)114ULL), ((u8)84ULL), ((u8)73ULL), ((u8)98ULL), ((u8)78ULL), ((u8)83ULL), ((u8)48ULL), ((u8)95ULL), ((u8)54ULL), ((u8)67ULL), ((u8)111ULL), ((u8)100ULL), ((u8)101ULL), ((u8)99ULL), ((u8)115ULL), ((u8)49ULL), ((u8)51ULL), ((u8)66ULL), ((u8)111ULL), ((u8)111ULL), ((u8)108ULL), ((u8)80ULL), ((u8)114ULL), ((u8)111ULL), ((u8)112ULL), ((u8)67ULL), ((u8)111ULL), ((u8)100ULL), ((u8)101ULL), ((u8)99ULL), ((u8)69ULL), ((u8)69ULL), ((u8)69ULL), ((u8)0ULL)}};
struct A15 _ZTSN14OpenVolumeMesh2IO19PropertyDecoderBaseE = {{((u8)78ULL), ((u8)49ULL), ((u8)52ULL), ((u8)79ULL), ((u8)112ULL), ((u8)101ULL), ((u8)110ULL), ((u8)86ULL), ((u8)111ULL), ((u8)108ULL), ((u8)117ULL), ((u8)109ULL), ((u8)101ULL), ((u8)77ULL), ((u8)101ULL), ((u8)115ULL), ((u8)104ULL), ((u8)50ULL), ((u8)73ULL), ((u8)79ULL), ((u8)49ULL), ((u8)57ULL), ((u8)80ULL), ((u8)114ULL), ((u8)111ULL), ((u8)112ULL), ((u8)101ULL), ((u8)114ULL), ((u8)116ULL), ((u8)121ULL), ((u8)68ULL), ((u8)101ULL), ((u8)99ULL), ((u8)111ULL), ((u8)100ULL), ((u8)101ULL), ((u8)114ULL), ((u8)66ULL), ((u8)97ULL), ((u8)115ULL), ((u8)101ULL), ((u8)69ULL), ((u8)0ULL)}};
struct S2 _ZTIN14OpenVolumeMesh2IO19PropertyDecoderBaseE = {((u8*)((u8**)((&_ZTVN10__cxxabiv117__class_type_infoE) + (s64)((s64)((u64)2ULL))))), ((u8*)(&(*(&_ZTSN14OpenVolumeMesh2IO19PropertyDecoderBaseE)).e[(s64)((s32)((u32)0ULL))]))};
struct S3 _ZTIN14OpenVolumeMesh2IO16PropertyDecoderTIbNS0_6Codecs13BoolPropCodecEEE = {((u8*)((u8**)((&_ZTVN10__cxxabiv120__si_class_type_infoE) + (s64)((s64)((u64)2ULL))))), ((u8*)(&(*(&_ZTSN14OpenVolumeMesh2IO16PropertyDecoderTIbNS0_6Codecs13BoolPropCodecEEE)).e[(s64)((s32)((u32)0ULL))])), ((u8*)(&_ZTIN14OpenVolumeMesh2IO19PropertyDecoderBaseE))};
struct A17 _str_33 = {{((u8)105ULL), ((u8)110ULL), ((u8)118ULL), ((u8)97ULL), ((u8)108ULL), ((u8)105ULL), ((u8)100ULL), ((u8)32ULL), ((u8)98ULL), ((u8)111ULL), ((u8)111ULL), ((u8)108ULL), ((u8)32ULL), ((u8)101ULL), ((u8)110ULL), ((u8)99ULL), ((u8)111ULL), ((u8)100ULL), ((u8)105ULL), ((u8)110ULL), ((u8)103ULL), ((u8)0ULL)}};
struct A10 _str_34 = {{((u8)101ULL), ((u8)110ULL), ((u8)116ULL), ((u8)105ULL), ((u8)116ULL), ((u8)121ULL), ((u8)116ULL), ((u8)97ULL), ((u8)103ULL), ((u8)95ULL), ((u8)100ULL), ((u8)105ULL), ((u8)115ULL), ((u8)112ULL), ((u8)97ULL), ((u8)116ULL), ((u8)99ULL), ((u8)104ULL), ((u8)40ULL), ((u8)41ULL), ((u8)58ULL), ((u8)32ULL), ((u8)117ULL), ((u8)110ULL), ((u8)107ULL), ((u8)110ULL), ((u8)111ULL), ((u8)119ULL), ((u8)110ULL), ((u8)32ULL), ((u8)101ULL), ((u8)110ULL), ((u8)116ULL), ((u8)105ULL), ((u8)116ULL), ((u8)121ULL), ((u8)46ULL), ((u8)0ULL)}};
struct S6 _ZTVN14OpenVolumeMesh11PropertyPtrIbNS_6Entity6VertexEEE = {{{((u8*)0), ((u8*)(&_ZTIN14OpenVolumeMesh11PropertyPtrIbNS_6Entity6VertexEEE)), ((u8*)((fnptr_t)_ZN14OpenVolumeMesh11PropertyPtrIbNS_6Entity6VertexEED2Ev)), ((u8*)((fnptr_t)_ZN14OpenVolumeMesh11PropertyPtrIbNS_6Entity6VertexEED0Ev)), ((u8*)((fnptr_t)_ZNKR14OpenVolumeMesh11PropertyPtrIbNS_6Entity6VertexEE4nameB5cxx11Ev))}}, {{((u8*)(u64)((u64)18446744073709551592ULL)), ((u8*)(&_ZTIN14OpenVolumeMesh11PropertyPtrIbNS_6Entity6VertexEEE)), ((u8*)((fnptr_t)_ZThn24_N14OpenVolumeMesh11PropertyPtrIbNS_6Entity6VertexEED1Ev)), ((u8*)((fnptr_t)_ZThn24_N14OpenVolumeMesh11PropertyPtrIbNS_6Entity6VertexEED0Ev)), ((u8*)((fnptr_t)_ZThn24_NKR14OpenVolumeMesh11PropertyPtrIbNS_6Entity6VertexEE4nameB5cxx11Ev))}}};
struct A18 _ZTSN14OpenVolumeMesh11PropertyPtrIbNS_6Entity6VertexEEE = {{((u8)78ULL), ((u8)49ULL), ((u8)52ULL), ((u8)79ULL), ((u8)112ULL), ((u8)101ULL), ((u8)110ULL), ((u8)86ULL), ((u8)111ULL), ((u8)108ULL), ((u8)117ULL), ((u8)109ULL), ((u8)101ULL), ((u8)77ULL), ((u8)101ULL), ((u8)115ULL), ((u8)104ULL), ((u8)49ULL), ((u8)49ULL), ((u8)80ULL), ((u8)114ULL), ((u8)111ULL), ((u8)112ULL), ((u8)101ULL), ((u8)114ULL), ((u8)116ULL), ((u8)121ULL), ((u8)80ULL), ((u8)116ULL), ((u8)114ULL), ((u8)73ULL), ((u8)98ULL), ((u8)78ULL), ((u8)83ULL), ((u8)95ULL), ((u8)54ULL), ((u8)69ULL), ((u8)110ULL), ((u8)116ULL), ((u8)105ULL), ((u8)116ULL), ((u8)121ULL), ((u8)54ULL), ((u8)86ULL), ((u8)101ULL), ((u8)114ULL), ((u8)116ULL), ((u8)101ULL), ((u8)120ULL), ((u8)69ULL), ((u8)69ULL), ((u8)69ULL), ((u8)0ULL)}};
struct A19 _ZTSN14OpenVolumeMesh14HandleIndexingINS_6Entity6VertexENS_18PropertyStoragePtrIbEEEE = {{((u8)78ULL), ((u8)49ULL), ((u8)52ULL), ((u8)79ULL), ((u8)112ULL), ((u8)101ULL), ((u8)110ULL), ((u8)86ULL), ((u8)111ULL), ((u8)108ULL), ((u8)117ULL), ((u8)109ULL), ((u8)101ULL), ((u8)77ULL), ((u8)101ULL), ((u8)115ULL), ((u8)104ULL), ((u8)49ULL), ((u8)52ULL), ((u8)72ULL), ((u8)97ULL), ((u8)110ULL), ((u8)100ULL), ((u8)108ULL), ((u8)101ULL), ((u8)73ULL), ((u8)110ULL), ((u8)100ULL), ((u8)101ULL), ((u8)120ULL), ((u8)105ULL), ((u8)110ULL), ((u8)103ULL), ((u8)73ULL), ((u8)78ULL), ((u8)83ULL), ((u8)95ULL), ((u8)54ULL), ((u8)69ULL), ((u8)110ULL), ((u8)116ULL), ((u8)105ULL), ((u8)116ULL), ((u8)121ULL), ((u8)54ULL), ((u8)86ULL), ((u8)101ULL), ((u8)114ULL), ((u8)116ULL), ((u8)101ULL), ((u8)120ULL), ((u8)69ULL), ((u8)78ULL), ((u8)83ULL), ((u8)95ULL), ((u8)49ULL), ((u8)56ULL), ((u8)80ULL), ((u8)114ULL), ((u8)111ULL), ((u8)112ULL), ((u8)101ULL), ((u8)114ULL), ((u8)116ULL), ((u8)121ULL), ((u8)83ULL), ((u8)116ULL), ((u8)111ULL), ((u8)114ULL), ((u8)97ULL), ((u8)103ULL), ((u8)101ULL), ((u8)80ULL), ((u8)116ULL), ((u8)114ULL), ((u8)73ULL), ((u8)98ULL), ((u8)69ULL), ((u8)69ULL), ((u8)69ULL), ((u8)69ULL), ((u8)0ULL)}};
struct A20 _ZTSN14OpenVolumeMesh18PropertyStoragePtrIbEE = {{((u8)78ULL), ((u8)49ULL), ((u8)52ULL), ((u8)79ULL), ((u8)112ULL), ((u8)101ULL), ((u8)110ULL), ((u8)86ULL), ((u8)111ULL), ((u8)108ULL), ((u8)117ULL), ((u8)109ULL), ((u8)101ULL), ((u8)77ULL), ((u8)101ULL), ((u8)115ULL), ((u8)104ULL), ((u8)49ULL), ((u8)56ULL), ((u8)80ULL), ((u8)114ULL), ((u8)111ULL), ((u8)112ULL), ((u8)101ULL), ((u8)114ULL), ((u8)116ULL), ((u8)121ULL), ((u8)83ULL), ((u8)116ULL), ((u8)111ULL), ((u8)114ULL), ((u8)97ULL), ((u8)103ULL), ((u8)101ULL), ((u8)80ULL), ((u8)116ULL), ((u8)114ULL), ((u8)73ULL), ((u8)98ULL), ((u8)69ULL), ((u8)69ULL), ((u8)0ULL)}};
struct S2 _ZTIN14OpenVolumeMesh18PropertyStoragePtrIbEE = {((u8*)((u8**)((&_ZTVN10__cxxabiv117__class_type_infoE) + (s64)((s64)((u64)2ULL))))), ((u8*)(&(*(&_ZTSN14OpenVolumeMesh18PropertyStoragePtrIbEE)).e[(s64)((s32)((u32)0ULL))]))};
struct S3 _ZTIN14OpenVolumeMesh14HandleIndexingINS_6Entity6VertexENS_18PropertyStoragePtrIbEEEE = {((u8*)((u8**)((&_ZTVN10__cxxabiv120__si_class_type_infoE) + (s64)((s64)((u64)2ULL))))), ((u8*)(&(*(&_ZTSN14OpenVolumeMesh14HandleIndexingINS_6Entity6VertexENS_18PropertyStoragePtrIbEEEE)).e[(s64)((s32)((u32)0ULL))])), ((u8*)(&_ZTIN14OpenVolumeMesh18PropertyStoragePtrIbEE))};
struct A21 _ZTSN14OpenVolumeMesh15BasePropertyPtrE = {{((u8)78ULL), ((u8)49ULL), ((u8)52ULL), ((u8)79ULL), ((u8)112ULL), ((u8)101ULL), ((u8)110ULL), ((u8)86ULL), ((u8)111ULL), ((u8)108ULL), ((u8)117ULL), ((u8)109ULL), ((u8)101ULL), ((u8)77ULL), ((u8)101ULL), ((u8)115ULL), ((u8)104ULL), ((u8)49ULL), ((u8)53ULL), ((u8)66ULL), ((u8)97ULL), ((u8)115ULL), ((u8)101ULL), ((u8)80ULL), ((u8)114ULL), ((u8)111ULL), ((u8)112ULL), ((u8)101ULL), ((u8)114ULL), ((u8)116ULL), ((u8)121ULL), ((u8)80ULL), ((u8)116ULL), ((u8)114ULL), ((u8)69ULL), ((u8)0ULL)}};
struct S2 _ZTIN14OpenVolumeMesh15BasePropertyPtrE = {((u8*)((u8**)((&_ZTVN10__cxxabiv117__class_type_infoE) + (s64)((s64)((u64)2ULL))))), ((u8*)(&(*(&_ZTSN14OpenVolumeMesh15BasePropertyPtrE)).e[(s64)((s32)((u32)0ULL))]))};
struct S7 _ZTIN14OpenVolumeMesh11PropertyPtrIbNS_6Entity6VertexEEE = {((u8*)((u8**)((&_ZTVN10__cxxabiv121__vmi_class_type_infoE) + (s64)((s64)((u64)2ULL))))), ((u8*)(&(*(&_ZTSN14OpenVolumeMesh11PropertyPtrIbNS_6Entity6VertexEEE)).e[(s64)((s32)((u32)0ULL))])), ((u32)0ULL), ((u32)2ULL), ((u8*)(&_ZTIN14OpenVolumeMesh14HandleIndexingINS_6Entity6VertexENS_18PropertyStoragePtrIbEEEE)), ((u64)2ULL), ((u8*)(&_ZTIN14OpenVolumeMesh15BasePropertyPtrE)), ((u64)6146ULL)};
struct S8 _ZTVN14OpenVolumeMesh14HandleIndexingINS_6Entity6VertexENS_18PropertyStoragePtrIbEEEE = {{{((u8*)0), ((u8*)(&_ZTIN14OpenVolumeMesh14HandleIndexingINS_6Entity6VertexENS_18PropertyStoragePtrIbEEEE)), ((u8*)((fnptr_t)_ZN14OpenVolumeMesh18PropertyStoragePtrIbED2Ev)), ((u8*)((fnptr_t)_ZN14OpenVolumeMesh14HandleIndexingINS_6Entity6VertexENS_18PropertyStoragePtrIbEEED0Ev))}}};
struct S8 _ZTVN14OpenVolumeMesh18PropertyStoragePtrIbEE = {{{((u8*)0), ((u8*)(&_ZTIN14OpenVolumeMesh18PropertyStoragePtrIbEE)), ((u8*)((fnptr_t)_ZN14OpenVolumeMesh18PropertyStoragePtrIbED2Ev)), ((u8*)((fnptr_t)_ZN14OpenVolumeMesh18PropertyStoragePtrIbED0Ev))}}};
struct S5 _ZTVN14OpenVolumeMesh15BasePropertyPtrE = {{{((u8*)0), ((u8*)(&_ZTIN14OpenVolumeMesh15BasePropertyPtrE)), ((u8*)((fnptr_t)_ZN14OpenVolumeMesh15BasePropertyPtrD2Ev)), ((u8*)((fnptr_t)_ZN14OpenVolumeMesh15BasePropertyPtrD0Ev)), ((u8*)((fnptr_t)__cxa_pure_virtual))}}};
struct S1 _ZTVSt23_Sp_counted_ptr_inplaceIN14OpenVolumeMesh16PropertyStorageTIbEESaIvELN9__gnu_cxx12_Lock_policyE2EE = {{{((u8*)0), ((u8*)(&_ZTISt23_Sp_counted_ptr_inplaceIN14OpenVolumeMesh16PropertyStorageTIbEESaIvELN9__gnu_cxx12_Lock_policyE2EE)), ((u8*)((fnptr_t)_ZNSt16_Sp_counted_baseILN9__gnu_cxx12_Lock_policyE2EED2Ev)), ((u8*)((fnptr_t)_ZNSt23_Sp_counted_ptr_inplaceIN14OpenVolumeMesh16PropertyStorageTIbEESaIvELN9__gnu_cxx12_Lock_policyE2EED0Ev)), ((u8*)((fnptr_t)_ZNSt23_Sp_counted_ptr_inplaceIN14OpenVolumeMesh16PropertyStorageTIbEESaIvELN9__gnu_cxx12_Lock_policyE2EE10_M_disposeEv)), ((u8*)((fnptr_t)_ZNSt23_Sp_counted_ptr_inplaceIN14OpenVolumeMesh16PropertyStorageTIbEESaIvELN9__gnu_cxx12_Lock_policyE2EE10_M_destroyEv)), ((u8*)((fnptr_t)_ZNSt23_Sp_counted_ptr_inplaceIN14OpenVolumeMesh16PropertyStorageTIbEESaIvELN9__gnu_cxx12_Lock_policyE2EE14_M_get_deleterERKSt9type_info))}}};
struct A22 _ZTSSt23_Sp_counted_ptr_inplaceIN14OpenVolumeMesh16PropertyStorageTIbEESaIvELN9__gnu_cxx12_Lock_policyE2EE = {{((u8)83ULL), ((u8)116ULL), ((u8)50ULL), ((u8)51ULL), ((u8)95ULL), ((u8)83ULL), ((u8)112ULL), ((u8)95ULL), ((u8)99ULL), ((u8)111ULL), ((u8)117ULL), ((u8)110ULL), ((u8)116ULL), ((u8)101ULL), ((u8)100ULL), ((u8)95ULL), ((u8)112ULL), ((u8)116ULL), ((u8)114ULL), ((u8)95ULL), ((u8)105ULL), ((u8)110ULL), ((u8)112ULL), ((u8)108ULL), ((u8)97ULL), ((u8)99ULL), ((u8)101ULL), ((u8)73ULL), ((u8)78ULL), ((u8)49ULL), ((u8)52ULL), ((u8)79ULL), ((u8)112ULL), ((u8)101ULL), ((u8)110ULL), ((u8)86ULL), ((u8)111ULL), ((u8)108ULL), ((u8)117ULL), ((u8)109ULL), ((u8)101ULL), ((u8)77ULL), ((u8)101ULL), ((u8)115ULL), ((u8)104ULL), ((u8)49ULL), ((u8)54ULL), ((u8)80ULL), ((u8)114ULL), ((u8)111ULL), ((u8)112ULL), ((u8)101ULL), ((u8)114ULL), ((u8)116ULL), ((u8)121ULL), ((u8)83ULL), ((u8)116ULL), ((u8)111ULL), ((u8)114ULL), ((u8)97ULL), ((u8)103ULL), ((u8)101ULL), ((u8)84ULL), ((u8)73ULL), ((u8)98ULL), ((u8)69ULL), ((u8)69ULL), ((u8)83ULL), ((u8)97ULL), ((u8)73ULL), ((u8)118ULL), ((u8)69ULL), ((u8)76ULL), ((u8)78ULL), ((u8)57ULL), ((u8)95ULL), ((u8)95ULL), ((u8)103ULL), ((u8)110ULL), ((u8)117ULL), ((u8)95ULL), ((u8)99ULL), ((u8)120ULL), ((u8)120ULL), ((u8)49ULL), ((u8)50ULL), ((u8)95ULL), ((u8)76ULL), ((u8)111ULL), ((u8)99ULL), ((u8)107ULL), ((u8)95ULL), ((u8)112ULL), ((u8)111ULL), ((u8)108ULL), ((u8)105ULL), ((u8)99ULL), ((u8)121ULL), ((u8)69ULL), ((u8)50ULL), ((u8)69ULL), ((u8)69ULL), ((u8)0ULL)}};
struct S3 _ZTISt23_Sp_counted_ptr_inplaceIN14OpenVolumeMesh16PropertyStorageTIbEESaIvELN9__gnu_cxx12_Lock_policyE2EE = {((u8*)((u8**)((&_ZTVN10__cxxabiv120__si_class_type_infoE) + (s64)((s64)((u64)2ULL))))), ((u8*)(&(*(&_ZTSSt23_Sp_counted_ptr_inplaceIN14OpenVolumeMesh16PropertyStorageTIbEESaIvELN9__gnu_cxx12_Lock_policyE2EE)).e[(s64)((s32)((u32)0ULL))])), ((u8*)(&_ZTISt16_Sp_counted_baseILN9__gnu_cxx12_Lock_policyE2EE))};
struct S9 _ZTVN14OpenVolumeMesh16PropertyStorageTIbEE = {{{((u8*)0), ((u8*)(&_ZTIN14OpenVolumeMesh16PropertyStorageTIbEE)), ((u8*)((fnptr_t)_ZN14OpenVolumeMesh16PropertyStorageTIbED2Ev)), ((u8*)((fnptr_t)_ZN14OpenVolumeMesh16PropertyStorageTIbED0Ev)), ((u8*)((fnptr_t)_ZN14OpenVolumeMesh16PropertyStorageTIbE7reserveEm)), ((u8*)((fnptr_t)_ZN14OpenVolumeMesh16PropertyStorageTIbE6resizeEm)), ((u8*)((fnptr_t)_ZNK14OpenVolumeMesh16PropertyStorageTIbE4sizeEv)), ((u8*)((fnptr_t)_ZN14OpenVolumeMesh16PropertyStorageTIbE5clearEv)), ((u8*)((fnptr_t)_ZN14OpenVolumeMesh16PropertyStorageTIbE9push_backEv)), ((u8*)((fnptr_t)_ZN14OpenVolumeMesh16PropertyStorageTIbE4swapEmm)), ((u8*)((fnptr_t)_ZN14OpenVolumeMesh16PropertyStorageTIbE4copyEmm)), ((u8*)((fnptr_t)_ZN14OpenVolumeMesh16PropertyStorageTIbE14delete_elementEm)), ((u8*)((fnptr_t)_ZNK14OpenVolumeMesh16PropertyStorageTIbE5cloneEv)), ((u8*)((fnptr_t)_ZNK14OpenVolumeMesh16PropertyStorageTIbE15typeNameWrapperB5cxx11Ev)), ((u8*)((fnptr_t)_ZNK14OpenVolumeMesh16PropertyStorageTIbE9serializeERSo)), ((u8*)((fnptr_t)_ZN14OpenVolumeMesh16PropertyStorageTIbE11deserializeERSi)), ((u8*)((fnptr_t)_ZN14OpenVolumeMesh16PropertyStorageTIbE17make_property_ptrEv)), ((u8*)((fnptr_t)_ZN14OpenVolumeMesh16PropertyStorageTIbE18assign_values_fromEPKNS_19PropertyStorageBaseE)), ((u8*)((fnptr_t)_ZN14OpenVolumeMesh16PropertyStorageTIbE16move_values_fromEPNS_19PropertyStorageBaseE))}}};
struct A23 _ZTSN14OpenVolumeMesh16PropertyStorageTIbEE = {{((u8)78ULL), ((u8)49ULL), ((u8)52ULL), ((u8)79ULL), ((u8)112ULL), ((u8)101ULL), ((u8)110ULL), ((u8)86ULL), ((u8)111ULL), ((u8)108ULL), ((u8)117ULL), ((u8)109ULL), ((u8)101ULL), ((u8)77ULL), ((u8)101ULL), ((u8)115ULL), ((u8)104ULL), ((u8)49ULL), ((u8)54ULL), ((u8)80ULL), ((u8)114ULL), ((u8)111ULL), ((u8)112ULL), ((u8)101ULL), ((u8)114ULL), ((u8)116ULL), ((u8)121ULL), ((u8)83ULL), ((u8)116ULL), ((u8)111ULL), ((u8)114ULL), ((u8)97ULL), ((u8)103ULL), ((u8)101ULL), ((u8)84ULL), ((u8)73ULL), ((u8)98ULL), ((u8)69ULL), ((u8)69ULL), ((u8)0ULL)}};
struct A23 _ZTSN14OpenVolumeMesh19PropertyStorageBaseE = {{((u8)78ULL), ((u8)49ULL), ((u8)52ULL), ((u8)79ULL), ((u8)112ULL), ((u8)101ULL), ((u8)110ULL), ((u8)86ULL), ((u8)111ULL), ((u8)108ULL), ((u8)117ULL), ((u8)109ULL), ((u8)101ULL), ((u8)77ULL), ((u8)101ULL), ((u8)115ULL), ((u8)104ULL), ((u8)49ULL), ((u8)57ULL), ((u8)80ULL), ((u8)114ULL), ((u8)111ULL), ((u8)112ULL), ((u8)101ULL), ((u8)114ULL), ((u8)116ULL), ((u8)121ULL), ((u8)83ULL), ((u8)116ULL), ((u8)111ULL), ((u8)114ULL), ((u8)97ULL), ((u8)103ULL), ((u8)101ULL), ((u8)66ULL), ((u8)97ULL), ((u8)115ULL), ((u8)101ULL), ((u8)69ULL), ((u8)0ULL)}};
struct A24 _ZTSSt23enable_shared_from_thisIN14OpenVolumeMesh19PropertyStorageBaseEE = {{((u8)83ULL), ((u8)116ULL), ((u8)50ULL), ((u8)51ULL), ((u8)101ULL), ((u8)110ULL), ((u8)97ULL), ((u8)98ULL), ((u8)108ULL), ((u8)101ULL), ((u8)95ULL), ((u8)115ULL), ((u8)104ULL), ((u8)97ULL), ((u8)114ULL), ((u8)101ULL), ((u8)100ULL), ((u8)95ULL), ((u8)102ULL), ((u8)114ULL), ((u8)111ULL), ((u8)109ULL), ((u8)95ULL), ((u8)116ULL), ((u8)104ULL), ((u8)105ULL), ((u8)115ULL), ((u8)73ULL), ((u8)78ULL), ((u8)49ULL), ((u8)52ULL), ((u8)79ULL), ((u8)112ULL), ((u8)101ULL), ((u8)110ULL), ((u8)86ULL), ((u8)111ULL), ((u8)108ULL), ((u8)117ULL), ((u8)109ULL), ((u8)101ULL), ((u8)77ULL), ((u8)101ULL), ((u8)115ULL), ((u8)104ULL), ((u8)49ULL), ((u8)57ULL), ((u8)80ULL), ((u8)114ULL), ((u8)111ULL), ((u8)112ULL), ((u8)101ULL), ((u8)114ULL), ((u8)116ULL), ((u8)121ULL), ((u8)83ULL), ((u8)116ULL), ((u8)111ULL), ((u8)114ULL), ((u8)97ULL), ((u8)103ULL), ((u8)101ULL), ((u8)66ULL), ((u8)97ULL), ((u8)115ULL), ((u8)101ULL), ((u8)69ULL), ((u8)69ULL), ((u8)0ULL)}};
struct S2 _ZTISt23enable_shared_from_thisIN14OpenVolumeMesh19PropertyStorageBaseEE = {((u8*)((u8**)((&_ZTVN10__cxxabiv117__class_type_infoE) + (s64)((s64)((u64)2ULL))))), ((u8*)(&(*(&_ZTSSt23enable_shared_from_thisIN14OpenVolumeMesh19PropertyStorageBaseEE)).e[(s64)((s32)((u32)0ULL))]))};
struct A25 _ZTSN14OpenVolumeMesh6detail7TrackedINS_19PropertyStorageBaseEEE = {{((u8)78ULL), ((u8)49ULL), ((u8)52ULL), ((u8)79ULL), ((u8)112ULL), ((u8)101ULL), ((u8)110ULL), ((u8)86ULL), ((u8)111ULL), ((u8)108ULL), ((u8)117ULL), ((u8)109ULL), ((u8)101ULL), ((u8)77ULL), ((u8)101ULL), ((u8)115ULL), ((u8)104ULL), ((u8)54ULL), ((u8)100ULL), ((u8)101ULL), ((u8)116ULL), ((u8)97ULL), ((u8)105ULL), ((u8)108ULL), ((u8)55ULL), ((u8)84ULL), ((u8)114ULL), ((u8)97ULL), ((u8)99ULL), ((u8)107ULL), ((u8)101ULL), ((u8)100ULL), ((u8)73ULL), ((u8)78ULL), ((u8)83ULL), ((u8)95ULL), ((u8)49ULL), ((u8)57ULL), ((u8)80ULL), ((u8)114ULL), ((u8)111ULL), ((u8)112ULL), ((u8)101ULL), ((u8)114ULL), ((u8)116ULL), ((u8)121ULL), ((u8)83ULL), ((u8)116ULL), ((u8)111ULL), ((u8)114ULL), ((u8)97ULL), ((u8)103ULL), ((u8)101ULL), ((u8)66ULL), ((u8)97ULL), ((u8)115ULL), ((u8)101ULL), ((u8)69ULL), ((u8)69ULL), ((u8)69ULL), ((u8)0ULL)}};
struct S2 _ZTIN14OpenVolumeMesh6detail7TrackedINS_19PropertyStorageBaseEEE = {((u8*)((u8**)((&_ZTVN10__cxxabiv117__class_type_infoE) + (s64)((s64)((u64)2ULL))))), ((u8*)(&(*(&_ZTSN14OpenVolumeMesh6detail7TrackedINS_19PropertyStorageBaseEEE)).e[(s64)((s32)((u32)0ULL))]))};
struct S7 _ZTIN14OpenVolumeMesh19PropertyStorageBaseE = {((u8*)((u8**)((&_ZTVN10__cxxabiv121__vmi_class_type_infoE) + (s64)((s64)((u64)2ULL))))), ((u8*)(&(*(&_ZTSN14OpenVolumeMesh19PropertyStorageBaseE)).e[(s64)((s32)((u32)0ULL))])), ((u32)0ULL), ((u32)2ULL), ((u8*)(&_ZTISt23enable_shared_from_thisIN14OpenVolumeMesh19PropertyStorageBaseEE)), ((u64)4098ULL), ((u8*)(&_ZTIN14OpenVolumeMesh6detail7TrackedINS_19PropertyStorageBaseEEE)), ((u64)2ULL)};
struct S3 _ZTIN14OpenVolumeMesh16PropertyStorageTIbEE = {((u8*)((u8**)((&_ZTVN10__cxxabiv120__si_class_type_infoE) + (s64)((s64)((u64)2ULL))))), ((u8*)(&(*(&_ZTSN14OpenVolumeMesh16PropertyStorageTIbEE)).e[(s64)((s32)((u32)0ULL))])), ((u8*)(&_ZTIN14OpenVolumeMesh19PropertyStorageBaseE))};
struct S9 _ZTVN14OpenVolumeMesh19PropertyStorageBaseE = {{{((u8*)0), ((u8*)(&_ZTIN14OpenVolumeMesh19PropertyStorageBaseE)), ((u8*)((fnptr_t)_ZN14OpenVolumeMesh19PropertyStorageBaseD2Ev)), ((u8*)((fnptr_t)_ZN14OpenVolumeMesh19PropertyStorageBaseD0Ev)), ((u8*)((fnptr_t)__cxa_pure_virtual)), ((u8*)((fnptr_t)__cxa_pure_virtual)), ((u8*)((fnptr_t)__cxa_pure_virtual)), ((u8*)((fnptr_t)__cxa_pure_virtual)), ((u8*)((fnptr_t)__cxa_pure_virtual)), ((u8*)((fnptr_t)__cxa_pure_virtual)), ((u8*)((fnptr_t)__cxa_pure_virtual)), ((u8*)((fnptr_t)__cxa_pure_virtual)), ((u8*)((fnptr_t)__cxa_pure_virtual)), ((u8*)((fnptr_t)__cxa_pure_virtual)), ((u8*)((fnptr_t)_ZNK14OpenVolumeMesh19PropertyStorageBase9serializeERSo)), ((u8*)((fnptr_t)_ZN14OpenVolumeMesh19PropertyStorageBase11deserializeERSi)), ((u8*)((fnptr_t)__cxa_pure_virtual)), ((u8*)((fnptr_t)__cxa_pure_virtual)), ((u8*)((fnptr_t)__cxa_pure_virtual))}}};
struct S8 _ZTVN14OpenVolumeMesh6detail7TrackedINS_19PropertyStorageBaseEEE = {{{((u8*)0), ((u8*)(&_ZTIN14OpenVolumeMesh6detail7TrackedINS_19PropertyStorageBaseEEE)), ((u8*)((fnptr_t)_ZN14OpenVolumeMesh6detail7TrackedINS_19PropertyStorageBaseEED2Ev)), ((u8*)((fnptr_t)_ZN14OpenVolumeMesh6detail7TrackedINS_19PropertyStorageBaseEED0Ev))}}};
struct S6 _ZTVN14OpenVolumeMesh11PropertyPtrIbNS_6Entity4EdgeEEE = {{{((u8*)0), ((u8*)(&_ZTIN14OpenVolumeMesh11PropertyPtrIbNS_6Entity4EdgeEEE)), ((u8*)((fnptr_t)_ZN14OpenVolumeMesh11PropertyPtrIbNS_6Entity4EdgeEED2Ev)), ((u8*)((fnptr_t)_ZN14OpenVolumeMesh11PropertyPtrIbNS_6Entity4EdgeEED0Ev)), ((u8*)((fnptr_t)_ZNKR14OpenVolumeMesh11PropertyPtrIbNS_6Entity4EdgeEE4nameB5cxx11Ev))}}, {{((u8*)(u64)((u64)18446744073709551592ULL)), ((u8*)(&_ZTIN14OpenVolumeMesh11PropertyPtrIbNS_6Entity4EdgeEEE)), ((u8*)((fnptr_t)_ZThn24_N14OpenVolumeMesh11PropertyPtrIbNS_6Entity4EdgeEED1Ev)), ((u8*)((fnptr_t)_ZThn24_N14OpenVolumeMesh11PropertyPtrIbNS_6Entity4EdgeEED0Ev)), ((u8*)((fnptr_t)_ZThn24_NKR14OpenVolumeMesh11PropertyPtrIbNS_6Entity4EdgeEE4nameB5cxx11Ev))}}};
struct A26 _ZTSN14OpenVolumeMesh11PropertyPtrIbNS_6Entity4EdgeEEE = {{((u8)78ULL), ((u8)49ULL), ((u8)52ULL), ((u8)79ULL), ((u8)112ULL), ((u8)101ULL), ((u8)110ULL), ((u8)86ULL), ((u8)111ULL), ((u8)108ULL), ((u8)117ULL), ((u8)109ULL), ((u8)101ULL), ((u8)77ULL), ((u8)101ULL), ((u8)115ULL), ((u8)104ULL), ((u8)49ULL), ((u8)49ULL), ((u8)80ULL), ((u8)114ULL), ((u8)111ULL), ((u8)112ULL), ((u8)101ULL), ((u8)114ULL), ((u8)116ULL), ((u8)121ULL), ((u8)80ULL), ((u8)116ULL), ((u8)114ULL), ((u8)73ULL), ((u8)98ULL), ((u8)78ULL), ((u8)83ULL), ((u8)95ULL), ((u8)54ULL), ((u8)69ULL), ((u8)110ULL), ((u8)116ULL), ((u8)105ULL), ((u8)116ULL), ((u8)121ULL), ((u8)52ULL), ((u8)69ULL), ((u8)100ULL), ((u8)103ULL), ((u8)101ULL), ((u8)69ULL), ((u8)69ULL), ((u8)69ULL), ((u8)0ULL)}};
struct A27 _ZTSN14OpenVolumeMesh14HandleIndexingINS_6Entity4EdgeENS_18PropertyStoragePtrIbEEEE = {{((u8)78ULL), ((u8)49ULL), ((u8)52ULL), ((u8)79ULL), ((u8)112ULL), ((u8)101ULL), ((u8)110ULL), ((u8)86ULL), ((u8)111ULL), ((u8)108ULL), ((u8)117ULL), ((u8)109ULL), ((u8)101ULL), ((u8)77ULL), ((u8)101ULL), ((u8)115ULL), ((u8)104ULL), ((u8)49ULL), ((u8)52ULL), ((u8)72ULL), ((u8)97ULL), ((u8)110ULL), ((u8)100ULL), ((u8)108ULL), ((u8)101ULL), ((u8)73ULL), ((u8)110ULL), ((u8)100ULL), ((u8)101ULL), ((u8)120ULL), ((u8)105ULL), ((u8)110ULL), ((u8)103ULL), ((u8)73ULL), ((u8)78ULL), ((u8)83ULL), ((u8)95ULL), ((u8)54ULL), ((u8)69ULL), ((u8)110ULL), ((u8)116ULL), ((u8)105ULL), ((u8)116ULL), ((u8)121ULL), ((u8)52ULL), ((u8)69ULL), ((u8)100ULL), ((u8)103ULL), ((u8)101ULL), ((u8)69ULL), ((u8)78ULL), ((u8)83ULL), ((u8)95ULL), ((u8)49ULL), ((u8)56ULL), ((u8)80ULL), ((u8)114ULL), ((u8)111ULL), ((u8)112ULL), ((u8)101ULL), ((u8)114ULL), ((u8)116ULL), ((u8)121ULL), ((u8)83ULL), ((u8)116ULL), ((u8)111ULL), ((u8)114ULL), ((u8)97ULL), ((u8)103ULL), ((u8)101ULL), ((u8)80ULL), ((u8)116ULL), ((u8)114ULL), ((u8)73ULL), ((u8)98ULL), ((u8)69ULL), ((u8)69ULL), ((u8)69ULL), ((u8)69ULL), ((u8)0ULL)}};
struct S3 _ZTIN14OpenVolumeMesh14HandleIndexingINS_6Entity4EdgeENS_18PropertyStoragePtrIbEEEE = {((u8*)((u8**)((&_ZTVN10__cxxabiv120__si_class_type_infoE) + (s64)((s64)((u64)2ULL))))), ((u8*)(&(*(&_ZTSN14OpenVolumeMesh14HandleIndexingINS_6Entity4EdgeENS_18PropertyStoragePtrIbEEEE)).e[(s64)((s32)((u32)0ULL))])), ((u8*)(&_ZTIN14OpenVolumeMesh18PropertyStoragePtrIbEE))};
struct S7 _ZTIN14OpenVolumeMesh11PropertyPtrIbNS_6Entity4EdgeEEE = {((u8*)((u8**)((&_ZTVN10__cxxabiv121__vmi_class_type_infoE) + (s64)((s64)((u64)2ULL))))), ((u8*)(&(*(&_ZTSN14OpenVolumeMesh11PropertyPtrIbNS_6Entity4EdgeEEE)).e[(s64)((s32)((u32)0ULL))])), ((u32)0ULL), ((u32)2ULL), ((u8*)(&_ZTIN14OpenVolumeMesh14HandleIndexingINS_6Entity4EdgeENS_18PropertyStoragePtrIbEEEE)), ((u64)2ULL), ((u8*)(&_ZTIN14OpenVolumeMesh15BasePropertyPtrE)), ((u64)6146ULL)};
struct S8 _ZTVN14OpenVolumeMesh14HandleIndexingINS_6Entity4EdgeENS_18PropertyStoragePtrIbEEEE = {{{((u8*)0), ((u8*)(&_ZTIN14OpenVolumeMesh14HandleIndexingINS_6Entity4EdgeENS_18PropertyStoragePtrIbEEEE)), ((u8*)((fnptr_t)_ZN14OpenVolumeMesh18PropertyStoragePtrIbED2Ev)), ((u8*)((fnptr_t)_ZN14OpenVolumeMesh14HandleIndexingINS_6Entity4EdgeENS_18PropertyStoragePtrIbEEED0Ev))}}};
struct S6 _ZTVN14OpenVolumeMesh11PropertyPtrIbNS_6Entity8HalfEdgeEEE = {{{((u8*)0), ((u8*)(&_ZTIN14OpenVolumeMesh11PropertyPtrIbNS_6Entity8HalfEdgeEEE)), ((u8*)((fnptr_t)_ZN14OpenVolumeMesh11PropertyPtrIbNS_6Entity8HalfEdgeEED2Ev)), ((u8*)((fnptr_t)_ZN14OpenVolumeMesh11PropertyPtrIbNS_6Entity8HalfEdgeEED0Ev)), ((u8*)((fnptr_t)_ZNKR14OpenVolumeMesh11PropertyPtrIbNS_6Entity8HalfEdgeEE4nameB5cxx11Ev))}}, {{((u8*)(u64)((u64)18446744073709551592ULL)), ((u8*)(&_ZTIN14OpenVolumeMesh11PropertyPtrIbNS_6Entity8HalfEdgeEEE)), ((u8*)((fnptr_t)_ZThn24_N14OpenVolumeMesh11PropertyPtrIbNS_6Entity8HalfEdgeEED1Ev)), ((u8*)((fnptr_t)_ZThn24_N14OpenVolumeMesh11PropertyPtrIbNS_6Entity8HalfEdgeEED0Ev)), ((u8*)((fnptr_t)_ZThn24_NKR14OpenVolumeMesh11PropertyPtrIbNS_6Entity8HalfEdgeEE4nameB5cxx11Ev))}}};
struct A28 _ZTSN14OpenVolumeMesh11PropertyPtrIbNS_6Entity8HalfEdgeEEE = {{((u8)78ULL), ((u8)49ULL), ((u8)52ULL), ((u8)79ULL), ((u8)112ULL), ((u8)101ULL), ((u8)110ULL), ((u8)86ULL), ((u8)111ULL), ((u8)108ULL), ((u8)117ULL), ((u8)109ULL), ((u8)101ULL), ((u8)77ULL), ((u8)101ULL), ((u8)115ULL), ((u8)104ULL), ((u8)49ULL), ((u8)49ULL), ((u8)80ULL), ((u8)114ULL), ((u8)111ULL), ((u8)112ULL), ((u8)101ULL), ((u8)114ULL), ((u8)116ULL), ((u8)121ULL), ((u8)80ULL), ((u8)116ULL), ((u8)114ULL), ((u8)73ULL), ((u8)98ULL), ((u8)78ULL), ((u8)83ULL), ((u8)95ULL), ((u8)54ULL), ((u8)69ULL), ((u8)110ULL), ((u8)116ULL), ((u8)105ULL), ((u8)116ULL), ((u8)121ULL), ((u8)56ULL), ((u8)72ULL), ((u8)97ULL), ((u8)108ULL), ((u8)102ULL), ((u8)69ULL), ((u8)100ULL), ((u8)103ULL), ((u8)101ULL), ((u8)69ULL), ((u8)69ULL), ((u8)69ULL), ((u8)0ULL)}};
struct A29 _ZTSN14OpenVolumeMesh14HandleIndexingINS_6Entity8HalfEdgeENS_18PropertyStoragePtrIbEEEE = {{((u8)78ULL), ((u8)49ULL), ((u8)52ULL), ((u8)79ULL), ((u8)112ULL), ((u8)101ULL), ((u8)110ULL), ((u8)86ULL), ((u8)111ULL), ((u8)108ULL), ((u8)117ULL), ((u8)109ULL), ((u8)101ULL), ((u8)77ULL), ((u8)101ULL), ((u8)115ULL), ((u8)104ULL), ((u8)49ULL), ((u8)52ULL), ((u8)72ULL), ((u8)97ULL), ((u8)110ULL), ((u8)100ULL), ((u8)108ULL), ((u8)101ULL), ((u8)73ULL), ((u8)110ULL), ((u8)100ULL), ((u8)101ULL), ((u8)120ULL), ((u8)105ULL), ((u8)110ULL), ((u8)103ULL), ((u8)73ULL), ((u8)78ULL), ((u8)83ULL), ((u8)95ULL), ((u8)54ULL), ((u8)69ULL), ((u8)110ULL), ((u8)116ULL), ((u8)105ULL), ((u8)116ULL), ((u8)121ULL), ((u8)56ULL), ((u8)72ULL), ((u8)97ULL), ((u8)108ULL), ((u8)102ULL), ((u8)69ULL), ((u8)100ULL), ((u8)103ULL), ((u8)101ULL), ((u8)69ULL), ((u8)78ULL), ((u8)83ULL), ((u8)95ULL), ((u8)49ULL), ((u8)56ULL), ((u8)80ULL), ((u8)114ULL), ((u8)111ULL), ((u8)112ULL), ((u8)101ULL), ((u8)114ULL), ((u8)116ULL), ((u8)121ULL), ((u8)83ULL), ((u8)116ULL), ((u8)111ULL), ((u8)114ULL), ((u8)97ULL), ((u8)103ULL), ((u8)101ULL), ((u8)80ULL), ((u8)116ULL), ((u8)114ULL), ((u8)73ULL), ((u8)98ULL), ((u8)69ULL), ((u8)69ULL), ((u8)69ULL), ((u8)69ULL), ((u8)0ULL)}};
struct S3 _ZTIN14OpenVolumeMesh14HandleIndexingINS_6Entity8HalfEdgeENS_18PropertyStoragePtrIbEEEE = {((u8*)((u8**)((&_ZTVN10__cxxabiv120__si_class_type_infoE) + (s64)((s64)((u64)2ULL))))), ((u8*)(&(*(&_ZTSN14OpenVolumeMesh14HandleIndexingINS_6Entity8HalfEdgeENS_18PropertyStoragePtrIbEEEE)).e[(s64)((s32)((u32)0ULL))])), ((u8*)(&_ZTIN14OpenVolumeMesh18PropertyStoragePtrIbEE))};
struct S7 _ZTIN14OpenVolumeMesh11PropertyPtrIbNS_6Entity8HalfEdgeEEE = {((u8*)((u8**)((&_ZTVN10__cxxabiv121__vmi_class_type_infoE) + (s64)((s64)((u64)2ULL))))), ((u8*)(&(*(&_ZTSN14OpenVolumeMesh11PropertyPtrIbNS_6Entity8HalfEdgeEEE)).e[(s64)((s32)((u32)0ULL))])), ((u32)0ULL), ((u32)2ULL), ((u8*)(&_ZTIN14OpenVolumeMesh14HandleIndexingINS_6Entity8HalfEdgeENS_18PropertyStoragePtrIbEEEE)), ((u64)2ULL), ((u8*)(&_ZTIN14OpenVolumeMesh15BasePropertyPtrE)), ((u64)6146ULL)};
struct S8 _ZTVN14OpenVolumeMesh14HandleIndexingINS_6Entity8HalfEdgeENS_18PropertyStoragePtrIbEEEE = {{{((u8*)0), ((u8*)(&_ZTIN14OpenVolumeMesh14HandleIndexingINS_6Entity8HalfEdgeENS_18PropertyStoragePtrIbEEEE)), ((u8*)((fnptr_t)_ZN14OpenVolumeMesh18PropertyStoragePtrIbED2Ev)), ((u8*)((fnptr_t)_ZN14OpenVolumeMesh14HandleIndexingINS_6Entity8HalfEdgeENS_18PropertyStoragePtrIbEEED0Ev))}}};
struct S6 _ZTVN14OpenVolumeMesh11PropertyPtrIbNS_6Entity4FaceEEE = {{{((u8*)0), ((u8*)(&_ZTIN14OpenVolumeMesh11PropertyPtrIbNS_6Entity4FaceEEE)), ((u8*)((fnptr_t)_ZN14OpenVolumeMesh11PropertyPtrIbNS_6Entity4FaceEED2Ev)), ((u8*)((fnptr_t)_ZN14OpenVolumeMesh11PropertyPtrIbNS_6Entity4FaceEED0Ev)), ((u8*)((fnptr_t)_ZNKR14OpenVolumeMesh11PropertyPtrIbNS_6Entity4FaceEE4nameB5cxx11Ev))}}, {{((u8*)(u64)((u64)18446744073709551592ULL)), ((u8*)(&_ZTIN14OpenVolumeMesh11PropertyPtrIbNS_6Entity4FaceEEE)), ((u8*)((fnptr_t)_ZThn24_N14OpenVolumeMesh11PropertyPtrIbNS_6Entity4FaceEED1Ev)), ((u8*)((fnptr_t)_ZThn24_N14OpenVolumeMesh11PropertyPtrIbNS_6Entity4FaceEED0Ev)), ((u8*)((fnptr_t)_ZThn24_NKR14OpenVolumeMesh11PropertyPtrIbNS_6Entity4FaceEE4nameB5cxx11Ev))}}};
struct A26 _ZTSN14OpenVolumeMesh11PropertyPtrIbNS_6Entity4FaceEEE = {{((u8)78ULL), ((u8)49ULL), ((u8)52ULL), ((u8)79ULL), ((u8)112ULL), ((u8)101ULL), ((u8)110ULL), ((u8)86ULL), ((u8)111ULL), ((u8)108ULL), ((u8)117ULL), ((u8)109ULL), ((u8)101ULL), ((u8)77ULL), ((u8)101ULL), ((u8)115ULL), ((u8)104ULL), ((u8)49ULL), ((u8)49ULL), ((u8)80ULL), ((u8)114ULL), ((u8)111ULL), ((u8)112ULL), ((u8)101ULL), ((u8)114ULL), ((u8)116ULL), ((u8)121ULL), ((u8)80ULL), ((u8)116ULL), ((u8)114ULL), ((u8)73ULL), ((u8)98ULL), ((u8)78ULL), ((u8)83ULL), ((u8)95ULL), ((u8)54ULL), ((u8)69ULL), ((u8)110ULL), ((u8)116ULL), ((u8)105ULL), ((u8)116ULL), ((u8)121ULL), ((u8)52ULL), ((u8)70ULL), ((u8)97ULL), ((u8)99ULL), ((u8)101ULL), ((u8)69ULL), ((u8)69ULL), ((u8)69ULL), ((u8)0ULL)}};
struct A27 _ZTSN14OpenVolumeMesh14HandleIndexingINS_6Entity4FaceENS_18PropertyStoragePtrIbEEEE = {{((u8)78ULL), ((u8)49ULL), ((u8)52ULL), ((u8)79ULL), ((u8)112ULL), ((u8)101ULL), ((u8)110ULL), ((u8)86ULL), ((u8)111ULL), ((u8)108ULL), ((u8)117ULL), ((u8)109ULL), ((u8)101ULL), ((u8)77ULL), ((u8)101ULL), ((u8)115ULL), ((u8)104ULL), ((u8)49ULL), ((u8)52ULL), ((u8)72ULL), ((u8)97ULL), ((u8)110ULL), ((u8)100ULL), ((u8)108ULL), ((u8)101ULL), ((u8)73ULL), ((u8)110ULL), ((u8)100ULL), ((u8)101ULL), ((u8)120ULL), ((u8)105ULL), ((u8)110ULL), ((u8)103ULL), ((u8)73ULL), ((u8)78ULL), ((u8)83ULL), ((u8)95ULL), ((u8)54ULL), ((u8)69ULL), ((u8)110ULL), ((u8)116ULL), ((u8)105ULL), ((u8)116ULL), ((u8)121ULL), ((u8)52ULL), ((u8)70ULL), ((u8)97ULL), ((u8)99ULL), ((u8)101ULL), ((u8)69ULL), ((u8)78ULL), ((u8)83ULL), ((u8)95ULL), ((u8)49ULL), ((u8)56ULL), ((u8)80ULL), ((u8)114ULL), ((u8)111ULL), ((u8)112ULL), ((u8)101ULL), ((u8)114ULL), ((u8)116ULL), ((u8)121ULL), ((u8)83ULL), ((u8)116ULL), ((u8)111ULL), ((u8)114ULL), ((u8)97ULL), ((u8)103ULL), ((u8)101ULL), ((u8)80ULL), ((u8)116ULL), ((u8)114ULL), ((u8)73ULL), ((u8)98ULL), ((u8)69ULL), ((u8)69ULL), ((u8)69ULL), ((u8)69ULL), ((u8)0ULL)}};
struct S3 _ZTIN14OpenVolumeMesh14HandleIndexingINS_6Entity4FaceENS_18PropertyStoragePtrIbEEEE = {((u8*)((u8**)((&_ZTVN10__cxxabiv120__si_class_type_infoE) + (s64)((s64)((u64)2ULL))))), ((u8*)(&(*(&_ZTSN14OpenVolumeMesh14HandleIndexingINS_6Entity4FaceENS_18PropertyStoragePtrIbEEEE)).e[(s64)((s32)((u32)0ULL))])), ((u8*)(&_ZTIN14OpenVolumeMesh18PropertyStoragePtrIbEE))};
struct S7 _ZTIN14OpenVolumeMesh11PropertyPtrIbNS_6Entity4FaceEEE = {((u8*)((u8**)((&_ZTVN10__cxxabiv121__vmi_class_type_infoE) + (s64)((s64)((u64)2ULL))))), ((u8*)(&(*(&_ZTSN14OpenVolumeMesh11PropertyPtrIbNS_6Entity4FaceEEE)).e[(s64)((s32)((u32)0ULL))])), ((u32)0ULL), ((u32)2ULL), ((u8*)(&_ZTIN14OpenVolumeMesh14HandleIndexingINS_6Entity4FaceENS_18PropertyStoragePtrIbEEEE)), ((u64)2ULL), ((u8*)(&_ZTIN14OpenVolumeMesh15BasePropertyPtrE)), ((u64)6146ULL)};
struct S8 _ZTVN14OpenVolumeMesh14HandleIndexingINS_6Entity4FaceENS_18PropertyStoragePtrIbEEEE = {{{((u8*)0), ((u8*)(&_ZTIN14OpenVolumeMesh14HandleIndexingINS_6Entity4FaceENS_18PropertyStoragePtrIbEEEE)), ((u8*)((fnptr_t)_ZN14OpenVolumeMesh18PropertyStoragePtrIbED2Ev)), ((u8*)((fnptr_t)_ZN14OpenVolumeMesh14HandleIndexingINS_6Entity4FaceENS_18PropertyStoragePtrIbEEED0Ev))}}};
struct S6 _ZTVN14OpenVolumeMesh11PropertyPtrIbNS_6Entity8HalfFaceEEE = {{{((u8*)0), ((u8*)(&_ZTIN14OpenVolumeMesh11PropertyPtrIbNS_6Entity8HalfFaceEEE)), ((u8*)((fnptr_t)_ZN14OpenVolumeMesh11PropertyPtrIbNS_6Entity8HalfFaceEED2Ev)), ((u8*)((fnptr_t)_ZN14OpenVolumeMesh11PropertyPtrIbNS_6Entity8HalfFaceEED0Ev)), ((u8*)((fnptr_t)_ZNKR14OpenVolumeMesh11PropertyPtrIbNS_6Entity8HalfFaceEE4nameB5cxx11Ev))}}, {{((u8*)(u64)((u64)18446744073709551592ULL)), ((u8*)(&_ZTIN14OpenVolumeMesh11PropertyPtrIbNS_6Entity8HalfFaceEEE)), ((u8*)((fnptr_t)_ZThn24_N14OpenVolumeMesh11PropertyPtrIbNS_6Entity8HalfFaceEED1Ev)), ((u8*)((fnptr_t)_ZThn24_N14OpenVolumeMesh11PropertyPtrIbNS_6Entity8HalfFaceEED0Ev)), ((u8*)((fnptr_t)_ZThn24_NKR14OpenVolumeMesh11PropertyPtrIbNS_6Entity8HalfFaceEE4nameB5cxx11Ev))}}};
struct A28 _ZTSN14OpenVolumeMesh11PropertyPtrIbNS_6Entity8HalfFaceEEE = {{((u8)78ULL), ((u8)49ULL), ((u8)52ULL), ((u8)79ULL), ((u8)112ULL), ((u8)101ULL), ((u8)110ULL), ((u8)86ULL), ((u8)111ULL), ((u8)108ULL), ((u8)117ULL), ((u8)109ULL), ((u8)101ULL), ((u8)77ULL), ((u8)101ULL), ((u8)115ULL), ((u8)104ULL), ((u8)49ULL), ((u8)49ULL), ((u8)80ULL), ((u8)114ULL), ((u8)111ULL), ((u8)112ULL), ((u8)101ULL), ((u8)114ULL), ((u8)116ULL), ((u8)121ULL), ((u8)80ULL), ((u8)116ULL), ((u8)114ULL), ((u8)73ULL), ((u8)98ULL), ((u8)78ULL), ((u8)83ULL), ((u8)95ULL), ((u8)54ULL), ((u8)69ULL), ((u8)110ULL), ((u8)116ULL), ((u8)105ULL), ((u8)116ULL), ((u8)121ULL), ((u8)56ULL), ((u8)72ULL), ((u8)97ULL), ((u8)108ULL), ((u8)102ULL), ((u8)70ULL), ((u8)97ULL), ((u8)99ULL), ((u8)101ULL), ((u8)69ULL), ((u8)69ULL), ((u8)69ULL), ((u8)0ULL)}};
struct A29 _ZTSN14OpenVolumeMesh14HandleIndexingINS_6Entity8HalfFaceENS_18PropertyStoragePtrIbEEEE = {{((u8)78ULL), ((u8)49ULL), ((u8)52ULL), ((u8)79ULL), ((u8)112ULL), ((u8)101ULL), ((u8)110ULL), ((u8)86ULL), ((u8)111ULL), ((u8)108ULL), ((u8)117ULL), ((u8)109ULL), ((u8)101ULL), ((u8)77ULL), ((u8)101ULL), ((u8)115ULL), ((u8)104ULL), ((u8)49ULL), ((u8)52ULL), ((u8)72ULL), ((u8)97ULL), ((u8)110ULL), ((u8)100ULL), ((u8)108ULL), ((u8)101ULL), ((u8)73ULL), ((u8)110ULL), ((u8)100ULL), ((u8)101ULL), ((u8)120ULL), ((u8)105ULL), ((u8)110ULL), ((u8)103ULL), ((u8)73ULL), ((u8)78ULL), ((u8)83ULL), ((u8)95ULL), ((u8)54ULL), ((u8)69ULL), ((u8)110ULL), ((u8)116ULL), ((u8)105ULL), ((u8)116ULL), ((u8)121ULL), ((u8)56ULL), ((u8)72ULL), ((u8)97ULL), ((u8)108ULL), ((u8)102ULL), ((u8)70ULL), ((u8)97ULL), ((u8)99ULL), ((u8)101ULL), ((u8)69ULL), ((u8)78ULL), ((u8)83ULL), ((u8)95ULL), ((u8)49ULL), ((u8)56ULL), ((u8)80ULL), ((u8)114ULL), ((u8)111ULL), ((u8)112ULL), ((u8)101ULL), ((u8)114ULL), ((u8)116ULL), ((u8)121ULL), ((u8)83ULL), ((u8)116ULL), ((u8)111ULL), ((u8)114ULL), ((u8)97ULL), ((u8)103ULL), ((u8)101ULL), ((u8)80ULL), ((u8)116ULL), ((u8)114ULL), ((u8)73ULL), ((u8)98ULL), ((u8)69ULL), ((u8)69ULL), ((u8)69ULL), ((u8)69ULL), ((u8)0ULL)}};
struct S3 _ZTIN14OpenVolumeMesh14HandleIndexingINS_6Entity8HalfFaceENS_18PropertyStoragePtrIbEEEE = {((u8*)((u8**)((&_ZTVN10__cxxabiv120__si_class_type_infoE) + (s64)((s64)((u64)2ULL))))), ((u8*)(&(*(&_ZTSN14OpenVolumeMesh14HandleIndexingINS_6Entity8HalfFaceENS_18PropertyStoragePtrIbEEEE)).e[(s64)((s32)((u32)0ULL))])), ((u8*)(&_ZTIN14OpenVolumeMesh18PropertyStoragePtrIbEE))};
struct S7 _ZTIN14OpenVolumeMesh11PropertyPtrIbNS_6Entity8HalfFaceEEE = {((u8*)((u8**)((&_ZTVN10__cxxabiv121__vmi_class_type_infoE) + (s64)((s64)((u64)2ULL))))), ((u8*)(&(*(&_ZTSN14OpenVolumeMesh11PropertyPtrIbNS_6Entity8HalfFaceEEE)).e[(s64)((s32)((u32)0ULL))])), ((u32)0ULL), ((u32)2ULL), ((u8*)(&_ZTIN14OpenVolumeMesh14HandleIndexingINS_6Entity8HalfFaceENS_18PropertyStoragePtrIbEEEE)), ((u64)2ULL), ((u8*)(&_ZTIN14OpenVolumeMesh15BasePropertyPtrE)), ((u64)6146ULL)};
struct S8 _ZTVN14OpenVolumeMesh14HandleIndexingINS_6Entity8HalfFaceENS_18PropertyStoragePtrIbEEEE = {{{((u8*)0), ((u8*)(&_ZTIN14OpenVolumeMesh14HandleIndexingINS_6Entity8HalfFaceENS_18PropertyStoragePtrIbEEEE)), ((u8*)((fnptr_t)_ZN14OpenVolumeMesh18PropertyStoragePtrIbED2Ev)), ((u8*)((fnptr_t)_ZN14OpenVolumeMesh14HandleIndexingINS_6Entity8HalfFaceENS_18PropertyStoragePtrIbEEED0Ev))}}};
struct S6 _ZTVN14OpenVolumeMesh11PropertyPtrIbNS_6Entity4CellEEE = {{{((u8*)0), ((u8*)(&_ZTIN14OpenVolumeMesh11PropertyPtrIbNS_6Entity4CellEEE)), ((u8*)((fnptr_t)_ZN14OpenVolumeMesh11PropertyPtrIbNS_6Entity4CellEED2Ev)), ((u8*)((fnptr_t)_ZN14OpenVolumeMesh11PropertyPtrIbNS_6Entity4CellEED0Ev)), ((u8*)((fnptr_t)_ZNKR14OpenVolumeMesh11PropertyPtrIbNS_6Entity4CellEE4nameB5cxx11Ev))}}, {{((u8*)(u64)((u64)18446744073709551592ULL)), ((u8*)(&_ZTIN14OpenVolumeMesh11PropertyPtrIbNS_6Entity4CellEEE)), ((u8*)((fnptr_t)_ZThn24_N14OpenVolumeMesh11PropertyPtrIbNS_6Entity4CellEED1Ev)), ((u8*)((fnptr_t)_ZThn24_N14OpenVolumeMesh11PropertyPtrIbNS_6Entity4CellEED0Ev)), ((u8*)((fnptr_t)_ZThn24_NKR14OpenVolumeMesh11PropertyPtrIbNS_6Entity4CellEE4nameB5cxx11Ev))}}};
struct A26 _ZTSN14OpenVolumeMesh11PropertyPtrIbNS_6Entity4CellEEE = {{((u8)78ULL), ((u8)49ULL), ((u8)52ULL), ((u8)79ULL), ((u8)112ULL), ((u8)101ULL), ((u8)110ULL), ((u8)86ULL), ((u8)111ULL), ((u8)108ULL), ((u8)117ULL), ((u8)109ULL), ((u8)101ULL), ((u8)77ULL), ((u8)101ULL), ((u8)115ULL), ((u8)104ULL), ((u8)49ULL), ((u8)49ULL), ((u8)80ULL), ((u8)114ULL), ((u8)111ULL), ((u8)112ULL), ((u8)101ULL), ((u8)114ULL), ((u8)116ULL), ((u8)121ULL), ((u8)80ULL), ((u8)116ULL), ((u8)114ULL), ((u8)73ULL), ((u8)98ULL), ((u8)78ULL), ((u8)83ULL), ((u8)95ULL), ((u8)54ULL), ((u8)69ULL), ((u8)110ULL), ((u8)116ULL), ((u8)105ULL), ((u8)116ULL), ((u8)121ULL), ((u8)52ULL), ((u8)67ULL), ((u8)101ULL), ((u8)108ULL), ((u8)108ULL), ((u8)69ULL), ((u8)69ULL), ((u8)69ULL), ((u8)0ULL)}};
struct A27 _ZTSN14OpenVolumeMesh14HandleIndexingINS_6Entity4CellENS_18PropertyStoragePtrIbEEEE = {{((u8)78ULL), ((u8)49ULL), ((u8)52ULL), ((u8)79ULL), ((u8)112ULL), ((u8)101ULL), ((u8)110ULL), ((u8)86ULL), ((u8)111ULL), ((u8)108ULL), ((u8)117ULL), ((u8)109ULL), ((u8)101ULL), ((u8)77ULL), ((u8)101ULL), ((u8)115ULL), ((u8)104ULL), ((u8)49ULL), ((u8)52ULL), ((u8)72ULL), ((u8)97ULL), ((u8)110ULL), ((u8)100ULL), ((u8)108ULL), ((u8)101ULL), ((u8)73ULL), ((u8)110ULL), ((u8)100ULL), ((u8)101ULL), ((u8)120ULL), ((u8)105ULL), ((u8)110ULL), ((u8)103ULL), ((u8)73ULL), ((u8)78ULL), ((u8)83ULL), ((u8)95ULL), ((u8)54ULL), ((u8)69ULL), ((u8)110ULL), ((u8)116ULL), ((u8)105ULL), ((u8)116ULL), ((u8)121ULL), ((u8)52ULL), ((u8)67ULL), ((u8)101ULL), ((u8)108ULL), ((u8)108ULL), ((u8)69ULL), ((u8)78ULL), ((u8)83ULL), ((u8)95ULL), ((u8)49ULL), ((u8)56ULL), ((u8)80ULL), ((u8)114ULL), ((u8)111ULL), ((u8)112ULL), ((u8)101ULL), ((u8)114ULL), ((u8)116ULL), ((u8)121ULL), ((u8)83ULL), ((u8)116ULL), ((u8)111ULL), ((u8)114ULL), ((u8)97ULL), ((u8)103ULL), ((u8)101ULL), ((u8)80ULL), ((u8)116ULL), ((u8)114ULL), ((u8)73ULL), ((u8)98ULL), ((u8)69ULL), ((u8)69ULL), ((u8)69ULL), ((u8)69ULL), ((u8)0ULL)}};
struct S3 _ZTIN14OpenVolumeMesh14HandleIndexingINS_6Entity4CellENS_18PropertyStoragePtrIbEEEE = {((u8*)((u8**)((&_ZTVN10__cxxabiv120__si_class_type_infoE) + (s64)((s64)((u64)2ULL))))), ((u8*)(&(*(&_ZTSN14OpenVolumeMesh14HandleIndexingINS_6Entity4CellENS_18PropertyStoragePtrIbEEEE)).e[(s64)((s32)((u32)0ULL))])), ((u8*)(&_ZTIN14OpenVolumeMesh18PropertyStoragePtrIbEE))};
struct S7 _ZTIN14OpenVolumeMesh11PropertyPtrIbNS_6Entity4CellEEE = {((u8*)((u8**)((&_ZTVN10__cxxabiv121__vmi_class_type_infoE) + (s64)((s64)((u64)2ULL))))), ((u8*)(&(*(&_ZTSN14OpenVolumeMesh11PropertyPtrIbNS_6Entity4CellEEE)).e[(s64)((s32)((u32)0ULL))])), ((u32)0ULL), ((u32)2ULL), ((u8*)(&_ZTIN14OpenVolumeMesh14HandleIndexingINS_6Entity4CellENS_18PropertyStoragePtrIbEEEE)), ((u64)2ULL), ((u8*)(&_ZTIN14OpenVolumeMesh15BasePropertyPtrE)), ((u64)6146ULL)};
struct S8 _ZTVN14OpenVolumeMesh14HandleIndexingINS_6Entity4CellENS_18PropertyStoragePtrIbEEEE = {{{((u8*)0), ((u8*)(&_ZTIN14OpenVolumeMesh14HandleIndexingINS_6Entity4CellENS_18PropertyStoragePtrIbEEEE)), ((u8*)((fnptr_t)_ZN14OpenVolumeMesh18PropertyStoragePtrIbED2Ev)), ((u8*)((fnptr_t)_ZN14OpenVolumeMesh14HandleIndexingINS_6Entity4CellENS_18PropertyStoragePtrIbEEED0Ev))}}};
struct S6 _ZTVN14OpenVolumeMesh11PropertyPtrIbNS_6Entity4MeshEEE = {{{((u8*)0), ((u8*)(&_ZTIN14OpenVolumeMesh11PropertyPtrIbNS_6Entity4MeshEEE)), ((u8*)((fnptr_t)_ZN14OpenVolumeMesh11PropertyPtrIbNS_6Entity4MeshEED2Ev)), ((u8*)((fnptr_t)_ZN14OpenVolumeMesh11PropertyPtrIbNS_6Entity4MeshEED0Ev)), ((u8*)((fnptr_t)_ZNKR14OpenVolumeMesh11PropertyPtrIbNS_6Entity4MeshEE4nameB5cxx11Ev))}}, {{((u8*)(u64)((u64)18446744073709551592ULL)), ((u8*)(&_ZTIN14OpenVolumeMesh11PropertyPtrIbNS_6Entity4MeshEEE)), ((u8*)((fnptr_t)_ZThn24_N14OpenVolumeMesh11PropertyPtrIbNS_6Entity4MeshEED1Ev)), ((u8*)((fnptr_t)_ZThn24_N14OpenVolumeMesh11PropertyPtrIbNS_6Entity4MeshEED0Ev)), ((u8*)((fnptr_t)_ZThn24_NKR14OpenVolumeMesh11PropertyPtrIbNS_6Entity4MeshEE4nameB5cxx11Ev))}}};
struct A26 _ZTSN14OpenVolumeMesh11PropertyPtrIbNS_6Entity4MeshEEE = {{((u8)78ULL), ((u8)49ULL), ((u8)52ULL), ((u8)79ULL), ((u8)112ULL), ((u8)101ULL), ((u8)110ULL), ((u8)86ULL), ((u8)111ULL), ((u8)108ULL), ((u8)117ULL), ((u8)109ULL), ((u8)101ULL), ((u8)77ULL), ((u8)101ULL), ((u8)115ULL), ((u8)104ULL), ((u8)49ULL), ((u8)49ULL), ((u8)80ULL), ((u8)114ULL), ((u8)111ULL), ((u8)112ULL), ((u8)101ULL), ((u8)114ULL), ((u8)116ULL), ((u8)121ULL), ((u8)80ULL), ((u8)116ULL), ((u8)114ULL), ((u8)73ULL), ((u8)98ULL), ((u8)78ULL), ((u8)83ULL), ((u8)95ULL), ((u8)54ULL), ((u8)69ULL), ((u8)110ULL), ((u8)116ULL), ((u8)105ULL), ((u8)116ULL), ((u8)121ULL), ((u8)52ULL), ((u8)77ULL), ((u8)101ULL), ((u8)115ULL), ((u8)104ULL), ((u8)69ULL), ((u8)69ULL), ((u8)69ULL), ((u8)0ULL)}};
struct A27 _ZTSN14OpenVolumeMesh14HandleIndexingINS_6Entity4MeshENS_18PropertyStoragePtrIbEEEE = {{((u8)78ULL), ((u8)49ULL), ((u8)52ULL), ((u8)79ULL), ((u8)112ULL), ((u8)101ULL), ((u8)110ULL), ((u8)86ULL), ((u8)111ULL), ((u8)108ULL), ((u8)117ULL), ((u8)109ULL), ((u8)101ULL), ((u8)77ULL), ((u8)101ULL), ((u8)115ULL), ((u8)104ULL), ((u8)49ULL), ((u8)52ULL), ((u8)72ULL), ((u8)97ULL), ((u8)110ULL), ((u8)100ULL), ((u8)108ULL), ((u8)101ULL), ((u8)73ULL), ((u8)110ULL), ((u8)100ULL), ((u8)101ULL), ((u8)120ULL), ((u8)105ULL), ((u8)110ULL), ((u8)103ULL), ((u8)73ULL), ((u8)78ULL), ((u8)83ULL), ((u8)95ULL), ((u8)54ULL), ((u8)69ULL), ((u8)110ULL), ((u8)116ULL), ((u8)105ULL), ((u8)116ULL), ((u8)121ULL), ((u8)52ULL), ((u8)77ULL), ((u8)101ULL), ((u8)115ULL), ((u8)104ULL), ((u8)69ULL), ((u8)78ULL), ((u8)83ULL), ((u8)95ULL), ((u8)49ULL), ((u8)56ULL), ((u8)80ULL), ((u8)114ULL), ((u8)111ULL), ((u8)112ULL), ((u8)101ULL), ((u8)114ULL), ((u8)116ULL), ((u8)121ULL), ((u8)83ULL), ((u8)116ULL), ((u8)111ULL), ((u8)114ULL), ((u8)97ULL), ((u8)103ULL), ((u8)101ULL), ((u8)80ULL), ((u8)116ULL), ((u8)114ULL), ((u8)73ULL), ((u8)98ULL), ((u8)69ULL), ((u8)69ULL), ((u8)69ULL), ((u8)69ULL), ((u8)0ULL)}};
struct S3 _ZTIN14OpenVolumeMesh14HandleIndexingINS_6Entity4MeshENS_18PropertyStoragePtrIbEEEE = {((u8*)((u8**)((&_ZTVN10__cxxabiv120__si_class_type_infoE) + (s64)((s64)((u64)2ULL))))), ((u8*)(&(*(&_ZTSN14OpenVolumeMesh14HandleIndexingINS_6Entity4MeshENS_18PropertyStoragePtrIbEEEE)).e[(s64)((s32)((u32)0ULL))])), ((u8*)(&_ZTIN14OpenVolumeMesh18PropertyStoragePtrIbEE))};
struct S7 _ZTIN14OpenVolumeMesh11PropertyPtrIbNS_6Entity4MeshEEE = {((u8*)((u8**)((&_ZTVN10__cxxabiv121__vmi_class_type_infoE) + (s64)((s64)((u64)2ULL))))), ((u8*)(&(*(&_ZTSN14OpenVolumeMesh11PropertyPtrIbNS_6Entity4MeshEEE)).e[(s64)((s32)((u32)0ULL))])), ((u32)0ULL), ((u32)2ULL), ((u8*)(&_ZTIN14OpenVolumeMesh14HandleIndexingINS_6Entity4MeshENS_18PropertyStoragePtrIbEEEE)), ((u64)2ULL), ((u8*)(&_ZTIN14OpenVolumeMesh15BasePropertyPtrE)), ((u64)6146ULL)};
struct S8 _ZTVN14OpenVolumeMesh14HandleIndexingINS_6Entity4MeshENS_18PropertyStoragePtrIbEEEE = {{{((u8*)0), ((u8*)(&_ZTIN14OpenVolumeMesh14HandleIndexingINS_6Entity4MeshENS_18PropertyStoragePtrIbEEEE)), ((u8*)((fnptr_t)_ZN14OpenVolumeMesh18PropertyStoragePtrIbED2Ev)), ((u8*)((fnptr_t)_ZN14OpenVolumeMesh14HandleIndexingINS_6Entity4MeshENS_18PropertyStoragePtrIbEEED0Ev))}}};
struct A26 _str_38 = {{((u8)80ULL), ((u8)101ULL), ((u8)114ULL), ((u8)115ULL), ((u8)105ULL), ((u8)115ULL), ((u8)116ULL), ((u8)101ULL), ((u8)110ULL), ((u8)116ULL), ((u8)32ULL), ((u8)112ULL), ((u8)114ULL), ((u8)111ULL), ((u8)112ULL), ((u8)101ULL), ((u8)114ULL), ((u8)116ULL), ((u8)105ULL), ((u8)101ULL), ((u8)115ULL), ((u8)32ULL), ((u8)109ULL), ((u8)117ULL), ((u8)115ULL), ((u8)116ULL), ((u8)32ULL), ((u8)98ULL), ((u8)101ULL), ((u8)32ULL), ((u8)115ULL), ((u8)104ULL), ((u8)97ULL), ((u8)114ULL), ((u8)101ULL), ((u8)100ULL), ((u8)32ULL), ((u8)40ULL), ((u8)115ULL), ((u8)101ULL), ((u8)116ULL), ((u8)95ULL), ((u8)115ULL), ((u8)104ULL), ((u8)97ULL), ((u8)114ULL), ((u8)101ULL), ((u8)100ULL), ((u8)41ULL), ((u8)46ULL), ((u8)0ULL)}};
struct A30 _str_39 = {{((u8)105ULL), ((u8)110ULL), ((u8)118ULL), ((u8)97ULL), ((u8)108ULL), ((u8)105ULL), ((u8)100ULL), ((u8)32ULL), ((u8)112ULL), ((u8)114ULL), ((u8)111ULL), ((u8)112ULL), ((u8)32ULL), ((u8)114ULL), ((u8)97ULL), ((u8)110ULL), ((u8)103ULL), ((u8)101ULL), ((u8)0ULL)}};
struct S0_class_std__ios_base__Init _ZStL8__ioinit_15 = {0};
struct A30 _str = {{((u8)114ULL), ((u8)101ULL), ((u8)97ULL), ((u8)100ULL), ((u8)32ULL), ((u8)98ULL), ((u8)101ULL), ((u8)121ULL), ((u8)111ULL), ((u8)110ULL), ((u8)100ULL), ((u8)32ULL), ((u8)98ULL), ((u8)117ULL), ((u8)102ULL), ((u8)102ULL), ((u8)101ULL), ((u8)114ULL), ((u8)0ULL)}};
struct A20 _ZTSN14OpenVolumeMesh2IO6detail11parse_errorE = {{((u8)78ULL), ((u8)49ULL), ((u8)52ULL), ((u8)79ULL), ((u8)112ULL), ((u8)101ULL), ((u8)110ULL), ((u8)86ULL), ((u8)111ULL), ((u8)108ULL), ((u8)117ULL), ((u8)109ULL), ((u8)101ULL), ((u8)77ULL), ((u8)101ULL), ((u8)115ULL), ((u8)104ULL), ((u8)50ULL), ((u8)73ULL), ((u8)79ULL), ((u8)54ULL), ((u8)100ULL), ((u8)101ULL), ((u8)116ULL), ((u8)97ULL), ((u8)105ULL), ((u8)108ULL), ((u8)49ULL), ((u8)49ULL), ((u8)112ULL), ((u8)97ULL), ((u8)114ULL), ((u8)115ULL), ((u8)101ULL), ((u8)95ULL), ((u8)101ULL), ((u8)114ULL), ((u8)114ULL), ((u8)111ULL), ((u8)114ULL), ((u8)69ULL), ((u8)0ULL)}};
struct S3 _ZTIN14OpenVolumeMesh2IO6detail11parse_errorE = {((u8*)((u8**)((&_ZTVN10__cxxabiv120__si_class_type_infoE) + (s64)((s64)((u64)2ULL))))), ((u8*)(&(*(&_ZTSN14OpenVolumeMesh2IO6detail11parse_errorE)).e[(s64)((s32)((u32)0ULL))])), ((u8*)(&_ZTIN14OpenVolumeMesh2IO6detail8io_errorE))};
struct S5 _ZTVN14OpenVolumeMesh2IO6detail11parse_errorE = {{{((u8*)0), ((u8*)(&_ZTIN14OpenVolumeMesh2IO6detail11parse_errorE)), ((u8*)((fnptr_t)_ZNSt13runtime_errorD2Ev)), ((u8*)((fnptr_t)_ZN14OpenVolumeMesh2IO6detail11parse_errorD0Ev)), ((u8*)((fnptr_t)_ZNKSt13runtime_error4whatEv))}}};
struct S0_class_std__ios_base__Init _ZStL8__ioinit_34 = {0};
struct A10 _ZTSN14OpenVolumeMesh2IO6detail8io_errorE = {{((u8)78ULL), ((u8)49ULL), ((u8)52ULL), ((u8)79ULL), ((u8)112ULL), ((u8)101ULL), ((u8)110ULL), ((u8)86ULL), ((u8)111ULL), ((u8)108ULL), ((u8)117ULL), ((u8)109ULL), ((u8)101ULL), ((u8)77ULL), ((u8)101ULL), ((u8)115ULL), ((u8)104ULL), ((u8)50ULL), ((u8)73ULL), ((u8)79ULL), ((u8)54ULL), ((u8)100ULL), ((u8)101ULL), ((u8)116ULL), ((u8)97ULL), ((u8)105ULL), ((u8)108ULL), ((u8)56ULL), ((u8)105ULL), ((u8)111ULL), ((u8)95ULL), ((u8)101ULL), ((u8)114ULL), ((u8)114ULL), ((u8)111ULL), ((u8)114ULL), ((u8)69ULL), ((u8)0ULL)}};
struct S3 _ZTIN14OpenVolumeMesh2IO6detail8io_errorE = {((u8*)((u8**)((&_ZTVN10__cxxabiv120__si_class_type_infoE) + (s64)((s64)((u64)2ULL))))), ((u8*)(&(*(&_ZTSN14OpenVolumeMesh2IO6detail8io_errorE)).e[(s64)((s32)((u32)0ULL))])), ((u8*)(&_ZTISt13runtime_error))};
struct S0_class_std__ios_base__Init _ZStL8__ioinit_51 = {0};
struct A31 _str_52 = {{((u8)118ULL), ((u8)101ULL), ((u8)99ULL), ((u8)116ULL), ((u8)111ULL), ((u8)114ULL), ((u8)58ULL), ((u8)58ULL), ((u8)95ULL), ((u8)77ULL), ((u8)95ULL), ((u8)100ULL), ((u8)101ULL), ((u8)102ULL), ((u8)97ULL), ((u8)117ULL), ((u8)108ULL), ((u8)116ULL), ((u8)95ULL), ((u8)97ULL), ((u8)112ULL), ((u8)112ULL), ((u8)101ULL), ((u8)110ULL), ((u8)100ULL), ((u8)0ULL)}};
struct S0_class_std__ios_base__Init _ZStL8__ioinit_59 = {0};
struct S0_class_std__ios_base__Init _ZStL8__ioinit_75 = {0};
struct A32 _str_78 = {{((u8)98ULL), ((u8)97ULL), ((u8)115ULL), ((u8)105ULL), ((u8)99ULL), ((u8)95ULL), ((u8)115ULL), ((u8)116ULL), ((u8)114ULL), ((u8)105ULL), ((u8)110ULL), ((u8)103ULL), ((u8)58ULL), ((u8)32ULL), ((u8)99ULL), ((u8)111ULL), ((u8)110ULL), ((u8)115ULL), ((u8)116ULL), ((u8)114ULL), ((u8)117ULL), ((u8)99ULL), ((u8)116ULL), ((u8)105ULL), ((u8)111ULL), ((u8)110ULL), ((u8)32ULL), ((u8)102ULL), ((u8)114ULL), ((u8)111ULL), ((u8)109ULL), ((u8)32ULL), ((u8)110ULL), ((u8)117ULL), ((u8)108ULL), ((u8)108ULL), ((u8)32ULL), ((u8)105ULL), ((u8)115ULL), ((u8)32ULL), ((u8)110ULL), ((u8)111ULL), ((u8)116ULL), ((u8)32ULL), ((u8)118ULL), ((u8)97ULL), ((u8)108ULL), ((u8)105ULL), ((u8)100ULL), ((u8)0ULL)}};
void _GLOBAL__sub_I_C07_propcodecs_cpp(void) {
  u32 v0;
L0: ;
  _ZNSt8ios_base4InitC1Ev((&_ZStL8__ioinit));
  if (v_exc) return;
  v0 = __cxa_atexit(((fnptr_t)((fnptr_t)_ZNSt8ios_base4InitD1Ev)), ((u8*)(&(*(&_ZStL8__ioinit)).f0)), (&__dso_handle));
  return;
}

void harness_deser_bool(void) {
  v_run_static_init();
  u32 v0;
  u1 v1;
  u64 v2; u64 v2_t;
  u8 v3;
  u8* v4;
  u64 v5;
  u1 v6;
L0: ;
  v2 = ((u64)0ULL);
  goto L7;
L1: ;
  v0 = v_nondet_u32();
  if (v_exc) return;
  v1 = (v0 < ((u32)4ULL));
  __CPROVER_assume(v1);
  switch (v0) {
  case ((u32)0ULL): {
    goto L2;
  }
  case ((u32)1ULL): {
    goto L3;
  }
  case ((u32)2ULL): {
    goto L4;
  }
  case ((u32)3ULL): {
    goto L5;
  }
  default: {
    goto L6;
  }
  }
L2: ;
  _ZN15Case_deser_boolILj0EE3runEv();
  if (v_exc) return;
  goto L6;
L3: ;
  _ZN15Case_deser_boolILj1EE3runEv();
  if (v_exc) return;
  goto L6;
L4: ;
  _ZN15Case_deser_boolILj2EE3runEv();
  if (v_exc) return;
  goto L6;
L5: ;
  _ZN15Case_deser_boolILj3EE3runEv();
  if (v_exc) return;
  goto L6;
L6: ;
  return;
L7: ;
  v3 = v_nondet_u8();
  if (v_exc) return;
  v4 = (u8*)(&(*(&_ZL5g_raw)).e[(s64)((s64)v2)]);
  (*(&_ZL5g_raw)).e[(s64)((s64)v2)] = v3;
  v5 = ((u64)(v2 + ((u64)1ULL)));
  v6 = (v5 == ((u64)3ULL));
  if (v6) {
    goto L1;
  } else {
    v2 = v5;
    goto L7;
  }
}

void _ZN15Case_deser_boolILj0EE3runEv(void) {
L0: ;
  _ZL15body_deser_boolj(((u32)0ULL));
  if (v_exc) return;
  return;
}

void _ZN15Case_deser_boolILj1EE3runEv(void) {
L0: ;
  _ZL15body_deser_boolj(((u32)1ULL));
  if (v_exc) return;
  return;
}

void _ZN15Case_deser_boolILj2EE3runEv(void) {
L0: ;
  _ZL15body_deser_boolj(((u32)2ULL));
  if (v_exc) return;
  return;
}

void _ZN15Case_deser_boolILj3EE3runEv(void) {
L0: ;
  _ZL15body_deser_boolj(((u32)3ULL));
  if (v_exc) return;
  return;
}

void _ZL15body_deser_boolj(u32 a0) {
  struct S11_class_OpenVolumeMesh__IO__PropertyCodecs* v0; struct S11_class_OpenVolumeMesh__IO__PropertyCodecs v0_m;
  struct S12_class_OpenVolumeMesh__PropertyStorageT* v1; struct S12_class_OpenVolumeMesh__PropertyStorageT v1_m;
  struct S14_class_std____cxx11__basic_string* v2; struct S14_class_std____cxx11__basic_string v2_m;
  struct S55_class_OpenVolumeMesh__IO__detail__Decode* v3; struct S55_class_OpenVolumeMesh__IO__detail__Decode v3_m;
  u8* v4;
  u8* v5;
  u32* v6;
  u8* v7;
  struct S17_struct_std___Rb_tree_node_base** v8;
  u8* v9;
  u8** v10;
  u8* v11;
  u8** v12;
  u8* v13;
  u64* v14;
  u8* v15;
  u8* v16;
  u32* v17;
  u8* v18;
  struct S17_struct_std___Rb_tree_node_base** v19;
  u8* v20;
  u8** v21;
  u8* v22;
  u8** v23;
  u8* v24;
  u64* v25;
  struct S10_class_OpenVolumeMesh__IO__PropertyDecode* v26;
  u1 v27;
  u8* v28;
  struct S64_union_anon* v29;
  struct S64_union_anon** v30;
  u8** v31;
  u8* v32;
  u64* v33;
  u8* v34;
  u8* v35;
  u8* v36;
  u8* v37;
  u1 v38;
  struct S15_class_std__vector_46* v39;
  u64** v40;
  u64* v41;
  u32* v42;
  u32 v43;
  u64** v44;
  u64* v45;
  u64 v46;
  u64 v47;
  u64 v48;
  u64 v49;
  u64 v50;
  u64 v51;
  u1 v52;
  u8* v53;
  u8 v54;
  u1 v55;
  u64 v56;
  u32 v57;
  u1 v58;
  u32 v59;
  u1 v60;
  u64 v61;
  u1 v62;
  u8* v63;
  u8* v64; u8* v64_t;
  u8* v65;
  struct S65 v66;
  u8* v67;
  u8** v68;
  u8** v69;
  u8** v70;
  u8** v71;
  u8** v72;
  struct S22_class_OpenVolumeMesh__PropertyStorageBas* v73;
  u64 v74;
  u32 v75;
  u64 v76;
  fnptr_t** v77;
  fnptr_t* v78;
  fnptr_t* v79;
  fnptr_t v80;
  struct S65 v81;
  struct S65 v82;
  u8* v83;
  u8* v84;
  u1 v85;
  struct S65 v86;
  struct S65 v87;
  struct S65 v88;
  u8* v89;
  u32 v90;
  u32 v91;
  u1 v92;
  u8* v93;
  u1 v94; u1 v94_t;
  u1 v95; u1 v95_t;
  u1 v96;
  u1 v97;
  u8* v98;
  u8* v99;
  u64 v100;
  u64 v101;
  u64 v102;
  u1 v103;
  u32 v104;
  u1 v105;
  u1 v106;
  u32 v107;
  u64 v108;
  u64** v109;
  u64* v110;
  u64 v111;
  u64* v112;
  u64 v113;
  u64 v114;
  u64 v115;
  u64 v116;
  u1 v117;
  u32 v118;
  u64 v119;
  u8* v120;
  u8 v121;
  u32 v122;
  u32 v123;
  u32 v124;
  u32 v125;
  u1 v126;
  u1 v127;
  struct S65 v128;
  struct S65 v129;
  struct S65 v130;
  struct S65 v131;
  struct S65 v132;
  u1 v133;
  u1 v134;
  u1 v135;
  u64 v136;
  u64** v137;
  u64* v138;
  u64 v139;
  u64* v140;
  u64 v141;
  u64 v142;
  u64 v143;
  u64 v144;
  u1 v145;
  struct S65 v146;
  u8* v147;
  u1 v148;
  fnptr_t** v149;
  u64** v150;
  u64* v151;
  u1 v152;
  u64** v153;
  u64* v154;
  u64 v155;
  u64 v156;
  u64 v157;
  u64 v158;
  u64 v159;
  u64* v160;
  u8* v161;
  u32* v162;
  u8** v163;
  u8* v164;
  struct S64_union_anon* v165;
  u8* v166;
  u1 v167;
  u8** v168;
  u8* v169;
  struct S64_union_anon* v170;
  u8* v171;
  u1 v172;
  fnptr_t** v173;
  struct S13_class_OpenVolumeMesh__detail__Tracker** v174;
  struct S13_class_OpenVolumeMesh__detail__Tracker* v175;
  u1 v176;
  struct S22_class_OpenVolumeMesh__PropertyStorageBas* v177;
  struct S43_class_std__map* v178;
  u8* v179;
  u8* v180;
  struct S21_struct_std___Rb_tree_node** v181;
  u8* v182;
  struct S17_struct_std___Rb_tree_node_base* v183;
  struct S21_struct_std___Rb_tree_node* v184;
  u1 v185;
  struct S21_struct_std___Rb_tree_node* v186; struct S21_struct_std___Rb_tree_node* v186_t;
  struct S17_struct_std___Rb_tree_node_base* v187; struct S17_struct_std___Rb_tree_node_base* v187_t;
  struct S66_struct___gnu_cxx____aligned_membuf* v188;
  struct S22_class_OpenVolumeMesh__PropertyStorageBas** v189;
  struct S22_class_OpenVolumeMesh__PropertyStorageBas* v190;
  u1 v191;
  struct S17_struct_std___Rb_tree_node_base** v192;
  u1 v193;
  struct S17_struct_std___Rb_tree_node_base* v194;
  struct S17_struct_std___Rb_tree_node_base** v195;
  struct S21_struct_std___Rb_tree_node** v196;
  struct S21_struct_std___Rb_tree_node* v197;
  struct S17_struct_std___Rb_tree_node_base** v198;
  struct S21_struct_std___Rb_tree_node** v199;
  struct S21_struct_std___Rb_tree_node* v200;
  u1 v201;
  struct S21_struct_std___Rb_tree_node* v202; struct S21_struct_std___Rb_tree_node* v202_t;
  struct S17_struct_std___Rb_tree_node_base* v203; struct S17_struct_std___Rb_tree_node_base* v203_t;
  struct S66_struct___gnu_cxx____aligned_membuf* v204;
  struct S22_class_OpenVolumeMesh__PropertyStorageBas** v205;
  struct S22_class_OpenVolumeMesh__PropertyStorageBas* v206;
  u1 v207;
  struct S17_struct_std___Rb_tree_node_base** v208;
  struct S17_struct_std___Rb_tree_node_base* v209;
  struct S17_struct_std___Rb_tree_node_base** v210;
  struct S17_struct_std___Rb_tree_node_base* v211;
  struct S17_struct_std___Rb_tree_node_base** v212;
  struct S21_struct_std___Rb_tree_node** v213;
  struct S21_struct_std___Rb_tree_node* v214;
  u1 v215;
  struct S17_struct_std___Rb_tree_node_base* v216; struct S17_struct_std___Rb_tree_node_base* v216_t;
  u1 v217;
  struct S21_struct_std___Rb_tree_node* v218; struct S21_struct_std___Rb_tree_node* v218_t;
  struct S17_struct_std___Rb_tree_node_base* v219; struct S17_struct_std___Rb_tree_node_base* v219_t;
  struct S66_struct___gnu_cxx____aligned_membuf* v220;
  struct S22_class_OpenVolumeMesh__PropertyStorageBas** v221;
  struct S22_class_OpenVolumeMesh__PropertyStorageBas* v222;
  u1 v223;
  struct S17_struct_std___Rb_tree_node_base* v224;
  struct S17_struct_std___Rb_tree_node_base** v225;
  struct S17_struct_std___Rb_tree_node_base** v226;
  struct S17_struct_std___Rb_tree_node_base* v227;
  struct S17_struct_std___Rb_tree_node_base** v228;
  struct S21_struct_std___Rb_tree_node** v229;
  struct S21_struct_std___Rb_tree_node* v230;
  u1 v231;
  struct S17_struct_std___Rb_tree_node_base* v232; struct S17_struct_std___Rb_tree_node_base* v232_t;
  struct S17_struct_std___Rb_tree_node_base** v233; struct S17_struct_std___Rb_tree_node_base** v233_t;
  struct S21_struct_std___Rb_tree_node** v234;
  struct S21_struct_std___Rb_tree_node* v235;
  u1 v236;
  struct S17_struct_std___Rb_tree_node_base* v237; struct S17_struct_std___Rb_tree_node_base* v237_t;
  struct S17_struct_std___Rb_tree_node_base* v238; struct S17_struct_std___Rb_tree_node_base* v238_t;
  struct S16_class_std___Rb_tree_5* v239;
  struct S65 v240;
  u8* v241;
  struct S20_class_std___Sp_counted_base** v242;
  struct S20_class_std___Sp_counted_base* v243;
  u1 v244;
  u32* v245;
  u8 v246;
  u1 v247;
  u32 v248;
  u32 v249;
  u32 v250;
  u32 v251;
  u32 v252; u32 v252_t;
  u1 v253;
  fnptr_t** v254;
  fnptr_t* v255;
  fnptr_t* v256;
  fnptr_t v257;
  struct S43_class_std__map* v258;
  struct S16_class_std___Rb_tree_5* v259;
  u8* v260;
  u8* v261;
  struct S18_struct_std___Rb_tree_node_33** v262;
  struct S18_struct_std___Rb_tree_node_33* v263;
  struct S65 v264;
  u8* v265;
  struct S16_class_std___Rb_tree_5* v266;
  struct S18_struct_std___Rb_tree_node_33** v267;
  struct S18_struct_std___Rb_tree_node_33* v268;
  struct S65 v269;
  u8* v270;
  struct S65 v271; struct S65 v271_t;
  u8* v272;
  u1 v273;
  struct S65 v274; struct S65 v274_t;
  struct S65 v275; struct S65 v275_t;
  struct S65 v276; struct S65 v276_t;
L0: ;
  v0 = &v0_m;
  v1 = &v1_m;
  v2 = &v2_m;
  v3 = &v3_m;
  v4 = (u8*)(&(*v0).f0.f0.f0.f0.f0.f0);
  v5 = (u8*)&(*v0).f0.f0.f0.f1.f0.f0;
  v6 = (u32*)&(*v0).f0.f0.f0.f1.f0.f0;
  *v6 = ((u32)0ULL);
  v7 = (u8*)&(*v0).f0.f0.f0.f1.f0.f1;
  v8 = (struct S17_struct_std___Rb_tree_node_base**)&(*v0).f0.f0.f0.f1.f0.f1;
  *v8 = ((struct S17_struct_std___Rb_tree_node_base*)0);
  v9 = (u8*)&(*v0).f0.f0.f0.f1.f0.f2;
  v10 = (u8**)&(*v0).f0.f0.f0.f1.f0.f2;
  *v10 = v5;
  v11 = (u8*)&(*v0).f0.f0.f0.f1.f0.f3;
  v12 = (u8**)&(*v0).f0.f0.f0.f1.f0.f3;
  *v12 = v5;
  v13 = (u8*)&(*v0).f0.f0.f0.f1.f1;
  v14 = (u64*)&(*v0).f0.f0.f0.f1.f1;
  *v14 = ((u64)0ULL);
  v15 = (u8*)(&(*v0).f1.f0.f0.f0.f0.f0);
  v16 = (u8*)&(*v0).f1.f0.f0.f1.f0.f0;
  v17 = (u32*)&(*v0).f1.f0.f0.f1.f0.f0;
  *v17 = ((u32)0ULL);
  v18 = (u8*)&(*v0).f1.f0.f0.f1.f0.f1;
  v19 = (struct S17_struct_std___Rb_tree_node_base**)&(*v0).f1.f0.f0.f1.f0.f1;
  *v19 = ((struct S17_struct_std___Rb_tree_node_base*)0);
  v20 = (u8*)&(*v0).f1.f0.f0.f1.f0.f2;
  v21 = (u8**)&(*v0).f1.f0.f0.f1.f0.f2;
  *v21 = v16;
  v22 = (u8*)&(*v0).f1.f0.f0.f1.f0.f3;
  v23 = (u8**)&(*v0).f1.f0.f0.f1.f0.f3;
  *v23 = v16;
  v24 = (u8*)&(*v0).f1.f0.f0.f1.f1;
  v25 = (u64*)&(*v0).f1.f0.f0.f1.f1;
  *v25 = ((u64)0ULL);
  v26 = _ZL6lookupRN14OpenVolumeMesh2IO14PropertyCodecsE(v0);
  if (v_exc) {
    goto L17;
  }
  goto L1;
L1: ;
  v27 = ((u8*)v26 != (u8*)((struct S10_class_OpenVolumeMesh__IO__PropertyDecode*)0));
  __CPROVER_assert(v27, "d != nullptr @/verif/harness/C07_propcodecs.cpp:147 [_ZL15body_deser_boolj]");
  if (v_exc) {
    goto L17;
  }
  goto L2;
L2: ;
  v28 = (u8*)v1;
  v29 = (struct S64_union_anon*)(&(*v2).f2);
  v30 = (struct S64_union_anon**)&(*v2).f0.f0;
  *v30 = v29;
  v31 = (u8**)(&(*v2).f0.f0);
  v32 = (u8*)v29;
  *v32 = ((u8)112ULL);
  v33 = (u64*)(&(*v2).f1);
  *v33 = ((u64)1ULL);
  v34 = (u8*)v29;
  v35 = (u8*)&(*v2).f2.f0.e[1];
  *v35 = ((u8)0ULL);
  _ZN14OpenVolumeMesh16PropertyStorageTIbEC2EPNS_6detail7TrackerINS_19PropertyStorageBaseEEENSt7__cxx1112basic_stringIcSt11char_traitsIcESaIcEEENS_10EntityTypeEbb(v1, ((struct S13_class_OpenVolumeMesh__detail__Tracker*)0), v2, ((u8)0ULL), ((u1)0ULL), ((u1)1ULL));
  if (v_exc) {
    goto L18;
  }
  goto L3;
L3: ;
  v36 = *v31;
  v37 = (u8*)v29;
  v38 = ((u8*)v36 == (u8*)v37);
  if (v38) {
    goto L5;
  } else {
    goto L4;
  }
L4: ;
  _ZdlPv(v36);
  goto L5;
L5: ;
  v39 = (struct S15_class_std__vector_46*)(&(*v1).f2);
  v40 = (u64**)(&(*v1).f2.f0.f0.f0.f1.f0.f0);
  v41 = *v40;
  v42 = (u32*)(&(*v1).f2.f0.f0.f0.f1.f0.f1);
  v43 = *v42;
  v44 = (u64**)(&(*v39).f0.f0.f0.f0.f0.f0);
  v45 = *v44;
  v46 = ((u64)((u64)v41));
  v47 = ((u64)((u64)v45));
  v48 = v_pdiff((u8*)v41, (u8*)v45);
  v49 = ((u64)(v48 << ((u64)3ULL)));
  v50 = ((u64)(v43));
  v51 = ((u64)(v49 + v50));
  v52 = (v51 > ((u64)17ULL));
  if (v52) {
    goto L6;
  } else {
    goto L7;
  }
L6: ;
  *v40 = v45;
  *v42 = ((u32)17ULL);
  goto L8;
L7: ;
  v53 = (u8*)(&(*v1).f3);
  v54 = *v53;
  v55 = (v54 != ((u8)0ULL));
  v56 = ((u64)(((u64)17ULL) - v51));
  _ZNSt6vectorIbSaIbEE14_M_fill_insertESt13_Bit_iteratormb(v39, v41, v43, v56, v55);
  if (v_exc) {
    goto L20;
  }
  goto L8;
L8: ;
  v57 = v_nondet_u32();
  if (v_exc) {
    goto L21;
  }
  goto L9;
L9: ;
  v58 = (v57 < ((u32)17ULL));
  __CPROVER_assume(v58);
  if (v_exc) {
    goto L21;
  }
  goto L10;
L10: ;
  v59 = ((u32)(v57 + ((u32)4294967278ULL)));
  v60 = (v59 < ((u32)4294967280ULL));
  __CPROVER_assume(v60);
  if (v_exc) {
    goto L21;
  }
  goto L11;
L11: ;
  v61 = ((u64)(a0));
  v62 = (a0 == ((u32)0ULL));
  if (v62) {
    v64 = ((u8*)0);
    goto L13;
  } else {
    goto L12;
  }
L12: ;
  v63 = _Znwm(v61);
  if (v_exc) {
    goto L15;
  }
  v64 = v63;
  goto L13;
L13: ;
  v65 = (u8*)(v64 + (s64)((s64)v61));
  if (v62) {
    goto L16;
  } else {
    goto L14;
  }
L14: ;
  v_memcpy((u8*)v64, (u8*)((u8*)(&(*(&_ZL5g_raw)).e[(s64)((s64)((u64)0ULL))])), (u64)v61);
  goto L16;
L15: ;
  v66.f0 = v_exc_obj;
  v66.f1 = 0;
  v_exc = 0;
  v274 = v66;
  goto L77;
L16: ;
  v67 = (u8*)v3;
  v68 = (u8**)(&(*v3).f0.f0.f0.f0.f0);
  *v68 = v64;
  v69 = (u8**)(&(*v3).f0.f0.f0.f0.f1);
  *v69 = v65;
  v70 = (u8**)(&(*v3).f0.f0.f0.f0.f2);
  *v70 = v65;
  v71 = (u8**)(&(*v3).f1);
  *v71 = v64;
  v72 = (u8**)(&(*v3).f2);
  *v72 = v65;
  v73 = (struct S22_class_OpenVolumeMesh__PropertyStorageBas*)v1;
  v74 = ((u64)(v57));
  v75 = ((u32)(v57 + ((u32)16ULL)));
  v76 = ((u64)(v75));
  v77 = (fnptr_t**)&(*v26).f0;
  v78 = *v77;
  v79 = (fnptr_t*)(v78 + (s64)((s64)((u64)3ULL)));
  v80 = *v79;
  ((FT0)v80)(v26, v73, v3, v74, v76);
  if (v_exc) {
    goto L22;
  }
  v94_t = ((u1)1ULL);
  v95_t = ((u1)1ULL);
  v94 = v94_t;
  v95 = v95_t;
  goto L24;
L17: ;
  v81.f0 = v_exc_obj;
  v81.f1 = 0;
  v_exc = 0;
  v276 = v81;
  goto L79;
L18: ;
  v82.f0 = v_exc_obj;
  v82.f1 = 0;
  v_exc = 0;
  v83 = *v31;
  v84 = (u8*)v29;
  v85 = ((u8*)v83 == (u8*)v84);
  if (v85) {
    v275 = v82;
    goto L78;
  } else {
    goto L19;
  }
L19: ;
  _ZdlPv(v83);
  v275 = v82;
  goto L78;
L20: ;
  v86.f0 = v_exc_obj;
  v86.f1 = 0;
  v_exc = 0;
  v274 = v86;
  goto L77;
L21: ;
  v87.f0 = v_exc_obj;
  v87.f1 = 0;
  v_exc = 0;
  v274 = v87;
  goto L77;
L22: ;
  v88.f0 = v_exc_obj;
  v88.f1 = 0;
  if (v88.f1 == 0 && v_exc_match((u8*)((u8*)(&_ZTIN14OpenVolumeMesh2IO6detail11parse_errorE)))) v88.f1 = 1;
  if (v88.f1 == 0) v88.f1 = 9999;
  if (v88.f1 == 0) return;
  v_exc = 0;
  v89 = v88.f0;
  v90 = v88.f1;
  v91 = 1;
  v92 = (v90 == v91);
  v93 = __cxa_begin_catch(v89);
  if (v92) {
    goto L23;
  } else {
    goto L32;
  }
L23: ;
  __cxa_end_catch();
  if (v_exc) {
    goto L34;
  }
  v94_t = ((u1)1ULL);
  v95_t = ((u1)0ULL);
  v94 = v94_t;
  v95 = v95_t;
  goto L24;
L24: ;
  __CPROVER_assert(v94, "out != OTHER @/verif/harness/C07_propcodecs.cpp:160 [_ZL15body_deser_boolj]");
  if (v_exc) {
    goto L33;
  }
  goto L25;
L25: ;
  v96 = (a0 < ((u32)2ULL));
  v97 = ((u1)((v96 ^ v95)&1));
  __CPROVER_assert(v97, "(out == OK) == (need <= len) @/verif/harness/C07_propcodecs.cpp:162 [_ZL15body_deser_boolj]");
  if (v_exc) {
    goto L35;
  }
  goto L26;
L26: ;
  if (v95) {
    goto L27;
  } else {
    goto L42;
  }
L27: ;
  v98 = *v71;
  v99 = *v68;
  v100 = ((u64)((u64)v98));
  v101 = ((u64)((u64)v99));
  v102 = v_pdiff((u8*)v98, (u8*)v99);
  v103 = (v102 == ((u64)2ULL));
  __CPROVER_assert(v103, "dec.pos() == need @/verif/harness/C07_propcodecs.cpp:164 [_ZL15body_deser_boolj]");
  if (v_exc) {
    goto L35;
  }
  goto L28;
L28: ;
  v104 = v_nondet_u32();
  if (v_exc) {
    goto L36;
  }
  goto L29;
L29: ;
  v105 = (v104 < ((u32)17ULL));
  __CPROVER_assume(v105);
  if (v_exc) {
    goto L36;
  }
  goto L30;
L30: ;
  v106 = (v104 < ((u32)16ULL));
  if (v106) {
    goto L31;
  } else {
    goto L38;
  }
L31: ;
  v107 = ((u32)(v104 + v57));
  v108 = ((u64)(v107));
  v109 = (u64**)(&(*v1).f2.f0.f0.f0.f0.f0.f0);
  v110 = *v109;
  v111 = ((u64)(v108 >> ((u64)6ULL)));
  v112 = (u64*)(v110 + (s64)((s64)v111));
  v113 = ((u64)(v108 & ((u64)63ULL)));
  v114 = ((u64)(((u64)1ULL) << v113));
  v115 = *v112;
  v116 = ((u64)(v115 & v114));
  v117 = (v116 != ((u64)0ULL));
  v118 = ((u32)(v104 >> ((u32)3ULL)));
  v119 = ((u64)(v118));
  v120 = (u8*)(&(*(&_ZL5g_raw)).e[(s64)((s64)v119)]);
  v121 = (*(&_ZL5g_raw)).e[(s64)((s64)v119)];
  v122 = ((u32)(v121));
  v123 = ((u32)(v104 & ((u32)7ULL)));
  v124 = ((u32)(((u32)1ULL) << v123));
  v125 = ((u32)(v124 & v122));
  v126 = (v125 == ((u32)0ULL));
  v127 = ((u1)((v117 ^ v126)&1));
  __CPROVER_assert(v127, "st[first + k] == (bool)((g_raw[k / 8] >> (k % 8)) & 1) @/verif/harness/C07_propcodecs.cpp:166 [_ZL15body_deser_boolj]");
  if (v_exc) {
    goto L37;
  }
  goto L38;
L32: ;
  __cxa_end_catch();
  if (v_exc) {
    goto L33;
  }
  v94_t = ((u1)0ULL);
  v95_t = ((u1)0ULL);
  v94 = v94_t;
  v95 = v95_t;
  goto L24;
L33: ;
  v128.f0 = v_exc_obj;
  v128.f1 = 0;
  v_exc = 0;
  v271 = v128;
  goto L74;
L34: ;
  v129.f0 = v_exc_obj;
  v129.f1 = 0;
  v_exc = 0;
  v271 = v129;
  goto L74;
L35: ;
  v130.f0 = v_exc_obj;
  v130.f1 = 0;
  v_exc = 0;
  v271 = v130;
  goto L74;
L36: ;
  v131.f0 = v_exc_obj;
  v131.f1 = 0;
  v_exc = 0;
  v271 = v131;
  goto L74;
L37: ;
  v132.f0 = v_exc_obj;
  v132.f1 = 0;
  v_exc = 0;
  v271 = v132;
  goto L74;
L38: ;
  v133 = (v104 >= v57);
  v134 = (v104 < v75);
  v135 = ((u1)((v133 & v134)&1));
  if (v135) {
    goto L41;
  } else {
    goto L39;
  }
L39: ;
  v136 = ((u64)(v104));
  v137 = (u64**)(&(*v1).f2.f0.f0.f0.f0.f0.f0);
  v138 = *v137;
  v139 = ((u64)(v136 >> ((u64)6ULL)));
  v140 = (u64*)(v138 + (s64)((s64)v139));
  v141 = ((u64)(v136 & ((u64)63ULL)));
  v142 = ((u64)(((u64)1ULL) << v141));
  v143 = *v140;
  v144 = ((u64)(v143 & v142));
  v145 = (v144 == ((u64)0ULL));
  __CPROVER_assert(v145, "st[k] == false @/verif/harness/C07_propcodecs.cpp:167 [_ZL15body_deser_boolj]");
  if (v_exc) {
    goto L40;
  }
  goto L41;
L40: ;
  v146.f0 = v_exc_obj;
  v146.f1 = 0;
  v_exc = 0;
  v271 = v146;
  goto L74;
L41: ;
  __CPROVER_assert(0, "WITNESS:deserialize bool: accepted [_ZL15body_deser_boolj]");
  if (v_exc) {
    goto L36;
  }
  goto L43;
L42: ;
  __CPROVER_assert(0, "WITNESS:deserialize bool: parse_error [_ZL15body_deser_boolj]");
  if (v_exc) {
    goto L35;
  }
  goto L43;
L43: ;
  v147 = *v68;
  v148 = ((u8*)v147 == (u8*)((u8*)0));
  if (v148) {
    goto L45;
  } else {
    goto L44;
  }
L44: ;
  _ZdlPv(v147);
  goto L45;
L45: ;
  v149 = (fnptr_t**)(&(*v1).f0.f0.f0);
  *v149 = ((fnptr_t*)((u8**)(&(*(&_ZTVN14OpenVolumeMesh16PropertyStorageTIbEE)).f0.e[(s64)((s64)((u64)2ULL))])));
  v150 = (u64**)(&(*v1).f2.f0.f0.f0.f0.f0.f0);
  v151 = *v150;
  v152 = ((u8*)v151 == (u8*)((u64*)0));
  if (v152) {
    goto L47;
  } else {
    goto L46;
  }
L46: ;
  v153 = (u64**)(&(*v1).f2.f0.f0.f0.f2);
  v154 = *v153;
  v155 = ((u64)((u64)v154));
  v156 = ((u64)((u64)v151));
  v157 = v_pdiff((u8*)v154, (u8*)v151);
  v158 = ((u64)(((s64)v157) >> ((u64)3ULL)));
  v159 = ((u64)(((u64)0ULL) - v158));
  v160 = (u64*)(v154 + (s64)((s64)v159));
  v161 = (u8*)v160;
  _ZdlPv(v161);
  *v150 = ((u64*)0);
  v162 = (u32*)(&(*v1).f2.f0.f0.f0.f0.f0.f1);
  *v162 = ((u32)0ULL);
  *v40 = ((u64*)0);
  *v42 = ((u32)0ULL);
  *v153 = ((u64*)0);
  goto L47;
L47: ;
  *v149 = ((fnptr_t*)((u8**)(&(*(&_ZTVN14OpenVolumeMesh19PropertyStorageBaseE)).f0.e[(s64)((s64)((u64)2ULL))])));
  v163 = (u8**)(&(*v1).f0.f3.f0.f0);
  v164 = *v163;
  v165 = (struct S64_union_anon*)(&(*v1).f0.f3.f2);
  v166 = (u8*)v165;
  v167 = ((u8*)v164 == (u8*)v166);
  if (v167) {
    goto L49;
  } else {
    goto L48;
  }
L48: ;
  _ZdlPv(v164);
  goto L49;
L49: ;
  v168 = (u8**)(&(*v1).f0.f2.f0.f0);
  v169 = *v168;
  v170 = (struct S64_union_anon*)(&(*v1).f0.f2.f2);
  v171 = (u8*)v170;
  v172 = ((u8*)v169 == (u8*)v171);
  if (v172) {
    goto L51;
  } else {
    goto L50;
  }
L50: ;
  _ZdlPv(v169);
  goto L51;
L51: ;
  v173 = (fnptr_t**)(&(*v1).f0.f0.f0);
  *v173 = ((fnptr_t*)((u8**)(&(*(&_ZTVN14OpenVolumeMesh6detail7TrackedINS_19PropertyStorageBaseEEE)).f0.e[(s64)((s64)((u64)2ULL))])));
  v174 = (struct S13_class_OpenVolumeMesh__detail__Tracker**)(&(*v1).f0.f0.f1);
  v175 = *v174;
  v176 = ((u8*)v175 == (u8*)((struct S13_class_OpenVolumeMesh__detail__Tracker*)0));
  if (v176) {
    goto L63;
  } else {
    goto L52;
  }
L52: ;
  v177 = (struct S22_class_OpenVolumeMesh__PropertyStorageBas*)v1;
  v178 = (struct S43_class_std__map*)(&(*v175).f1);
  v179 = (u8*)(&(*v178).f0.f0.f0.f0.f0);
  v180 = (u8*)&(*v175).f1.f0.f0.f1.f0.f1;
  v181 = (struct S21_struct_std___Rb_tree_node**)&(*v175).f1.f0.f0.f1.f0.f1;
  v182 = (u8*)&(*v175).f1.f0.f0.f1.f0.f0;
  v183 = (struct S17_struct_std___Rb_tree_node_base*)&(*v175).f1.f0.f0.f1.f0;
  v184 = *v181;
  v185 = ((u8*)v184 == (u8*)((struct S21_struct_std___Rb_tree_node*)0));
  if (v185) {
    v237_t = v183;
    v238_t = v183;
    v237 = v237_t;
    v238 = v238_t;
    goto L61;
  } else {
    v186_t = v184;
    v187_t = v183;
    v186 = v186_t;
    v187 = v187_t;
    goto L53;
  }
L53: ;
  v188 = (struct S66_struct___gnu_cxx____aligned_membuf*)(&(*v186).f1);
  v189 = (struct S22_class_OpenVolumeMesh__PropertyStorageBas**)v188;
  v190 = *v189;
  v191 = v_plt((u8*)v190, (u8*)v177);
  if (v191) {
    goto L54;
  } else {
    goto L55;
  }
L54: ;
  v192 = (struct S17_struct_std___Rb_tree_node_base**)(&(*v186).f0.f3);
  v232_t = v187;
  v233_t = v192;
  v232 = v232_t;
  v233 = v233_t;
  goto L60;
L55: ;
  v193 = v_plt((u8*)v177, (u8*)v190);
  v194 = (struct S17_struct_std___Rb_tree_node_base*)(&(*v186).f0);
  v195 = (struct S17_struct_std___Rb_tree_node_base**)(&(*v186).f0.f2);
  if (v193) {
    v232_t = v194;
    v233_t = v195;
    v232 = v232_t;
    v233 = v233_t;
    goto L60;
  } else {
    goto L56;
  }
L56: ;
  v196 = (struct S21_struct_std___Rb_tree_node**)&(*v186).f0.f2;
  v197 = *v196;
  v198 = (struct S17_struct_std___Rb_tree_node_base**)(&(*v186).f0.f3);
  v199 = (struct S21_struct_std___Rb_tree_node**)&(*v186).f0.f3;
  v200 = *v199;
  v201 = ((u8*)v197 == (u8*)((struct S21_struct_std___Rb_tree_node*)0));
  if (v201) {
    v216 = v194;
    goto L58;
  } else {
    v202_t = v197;
    v203_t = v194;
    v202 = v202_t;
    v203 = v203_t;
    goto L57;
  }
L57: ;
  v204 = (struct S66_struct___gnu_cxx____aligned_membuf*)(&(*v202).f1);
  v205 = (struct S22_class_OpenVolumeMesh__PropertyStorageBas**)v204;
  v206 = *v205;
  v207 = v_plt((u8*)v206, (u8*)v177);
  v208 = (struct S17_struct_std___Rb_tree_node_base**)(&(*v202).f0.f3);
  v209 = (struct S17_struct_std___Rb_tree_node_base*)(&(*v202).f0);
  v210 = (struct S17_struct_std___Rb_tree_node_base**)(&(*v202).f0.f2);
  v211 = (v207 ? v203 : v209);
  v212 = (v207 ? v208 : v210);
  v213 = (struct S21_struct_std___Rb_tree_node**)v212;
  v214 = *v213;
  v215 = ((u8*)v214 == (u8*)((struct S21_struct_std___Rb_tree_node*)0));
  if (v215) {
    v216 = v211;
    goto L58;
  } else {
    v202_t = v214;
    v203_t = v211;
    v202 = v202_t;
    v203 = v203_t;
    goto L57;
  }
L58: ;
  v217 = ((u8*)v200 == (u8*)((struct S21_struct_std___Rb_tree_node*)0));
  if (v217) {
    v237_t = v216;
    v238_t = v187;
    v237 = v237_t;
    v238 = v238_t;
    goto L61;
  } else {
    v218_t = v200;
    v219_t = v187;
    v218 = v218_t;
    v219 = v219_t;
    goto L59;
  }
L59: ;
  v220 = (struct S66_struct___gnu_cxx____aligned_membuf*)(&(*v218).f1);
  v221 = (struct S22_class_OpenVolumeMesh__PropertyStorageBas**)v220;
  v222 = *v221;
  v223 = v_plt((u8*)v177, (u8*)v222);
  v224 = (struct S17_struct_std___Rb_tree_node_base*)(&(*v218).f0);
  v225 = (struct S17_struct_std___Rb_tree_node_base**)(&(*v218).f0.f2);
  v226 = (struct S17_struct_std___Rb_tree_node_base**)(&(*v218).f0.f3);
  v227 = (v223 ? v224 : v219);
  v228 = (v223 ? v225 : v226);
  v229 = (struct S21_struct_std___Rb_tree_node**)v228;
  v230 = *v229;
  v231 = ((u8*)v230 == (u8*)((struct S21_struct_std___Rb_tree_node*)0));
  if (v231) {
    v237_t = v216;
    v238_t = v227;
    v237 = v237_t;
    v238 = v238_t;
    goto L61;
  } else {
    v218_t = v230;
    v219_t = v227;
    v218 = v218_t;
    v219 = v219_t;
    goto L59;
  }
L60: ;
  v234 = (struct S21_struct_std___Rb_tree_node**)v233;
  v235 = *v234;
  v236 = ((u8*)v235 == (u8*)((struct S21_struct_std___Rb_tree_node*)0));
  if (v236) {
    v237_t = v232;
    v238_t = v232;
    v237 = v237_t;
    v238 = v238_t;
    goto L61;
  } else {
    v186_t = v235;
    v187_t = v232;
    v186 = v186_t;
    v187 = v187_t;
    goto L53;
  }
L61: ;
  v239 = (struct S16_class_std___Rb_tree_5*)(&(*v178).f0);
  _ZNSt8_Rb_treeIPN14OpenVolumeMesh19PropertyStorageBaseES2_St9_IdentityIS2_ESt4lessIS2_ESaIS2_EE12_M_erase_auxESt23_Rb_tree_const_iteratorIS2_ESA_(v239, v237, v238);
  if (v_exc) {
    goto L62;
  }
  goto L63;
L62: ;
  v240.f0 = v_exc_obj;
  v240.f1 = 0;
  if (v240.f1 == 0) v240.f1 = 9999;
  if (v240.f1 == 0) return;
  v_exc = 0;
  v241 = v240.f0;
  __clang_call_terminate(v241);
  __CPROVER_assume(0);
L63: ;
  *v174 = ((struct S13_class_OpenVolumeMesh__detail__Tracker*)0);
  v242 = (struct S20_class_std___Sp_counted_base**)(&(*v1).f0.f1.f0.f0.f1.f0);
  v243 = *v242;
  v244 = ((u8*)v243 == (u8*)((struct S20_class_std___Sp_counted_base*)0));
  if (v244) {
    goto L69;
  } else {
    goto L64;
  }
L64: ;
  v245 = (u32*)(&(*v243).f2);
  v246 = *(&__libc_single_threaded);
  v247 = (v246 == ((u8)0ULL));
  if (v247) {
    goto L66;
  } else {
    goto L65;
  }
L65: ;
  v248 = *v245;
  v249 = ((u32)(v248 + ((u32)4294967295ULL)));
  *v245 = v249;
  v252 = v248;
  goto L67;
L66: ;
  v250 = *v245;
  v251 = ((u32)(v250 + ((u32)4294967295ULL)));
  *v245 = v251;
  v252 = v250;
  goto L67;
L67: ;
  v253 = (v252 == ((u32)1ULL));
  if (v253) {
    goto L68;
  } else {
    goto L69;
  }
L68: ;
  v254 = (fnptr_t**)&(*v243).f0;
  v255 = *v254;
  v256 = (fnptr_t*)(v255 + (s64)((s64)((u64)3ULL)));
  v257 = *v256;
  ((FT1)v257)(v243);
  goto L69;
L69: ;
  v258 = (struct S43_class_std__map*)(&(*v0).f1);
  v259 = (struct S16_class_std___Rb_tree_5*)(&(*v258).f0);
  v260 = (u8*)(&(*v258).f0.f0.f0.f0.f0);
  v261 = (u8*)&(*v0).f1.f0.f0.f1.f0.f1;
  v262 = (struct S18_struct_std___Rb_tree_node_33**)&(*v0).f1.f0.f0.f1.f0.f1;
  v263 = *v262;
  _ZNSt8_Rb_treeINSt7__cxx1112basic_stringIcSt11char_traitsIcESaIcEEESt4pairIKS5_St10shared_ptrIN14OpenVolumeMesh2IO19PropertyEncoderBaseEEESt10_Select1stISD_ESt4lessIS5_ESaISD_EE8_M_eraseEPSt13_Rb_tree_nodeISD_E(v259, v263);
  if (v_exc) {
    goto L70;
  }
  goto L71;
L70: ;
  v264.f0 = v_exc_obj;
  v264.f1 = 0;
  if (v264.f1 == 0) v264.f1 = 9999;
  if (v264.f1 == 0) return;
  v_exc = 0;
  v265 = v264.f0;
  __clang_call_terminate(v265);
  __CPROVER_assume(0);
L71: ;
  v266 = (struct S16_class_std___Rb_tree_5*)(&(*v0).f0.f0);
  v267 = (struct S18_struct_std___Rb_tree_node_33**)&(*v0).f0.f0.f0.f1.f0.f1;
  v268 = *v267;
  _ZNSt8_Rb_treeINSt7__cxx1112basic_stringIcSt11char_traitsIcESaIcEEESt4pairIKS5_St10shared_ptrIN14OpenVolumeMesh2IO19PropertyDecoderBaseEEESt10_Select1stISD_ESt4lessIS5_ESaISD_EE8_M_eraseEPSt13_Rb_tree_nodeISD_E(v266, v268);
  if (v_exc) {
    goto L72;
  }
  goto L73;
L72: ;
  v269.f0 = v_exc_obj;
  v269.f1 = 0;
  if (v269.f1 == 0) v269.f1 = 9999;
  if (v269.f1 == 0) return;
  v_exc = 0;
  v270 = v269.f0;
  __clang_call_terminate(v270);
  __CPROVER_assume(0);
L73: ;
  return;
L74: ;
  v272 = *v68;
  v273 = ((u8*)v272 == (u8*)((u8*)0));
  if (v273) {
    goto L76;
  } else {
    goto L75;
  }
L75: ;
  _ZdlPv(v272);
  goto L76;
L76: ;
  v274 = v271;
  goto L77;
L77: ;
  _ZN14OpenVolumeMesh16PropertyStorageTIbED2Ev(v1);
  v275 = v274;
  goto L78;
L78: ;
  v276 = v275;
  goto L79;
L79: ;
  _ZN14OpenVolumeMesh2IO14PropertyCodecsD2Ev(v0);
  v_exc = 1; return;
}

struct S10_class_OpenVolumeMesh__IO__PropertyDecode* _ZL6lookupRN14OpenVolumeMesh2IO14PropertyCodecsE(struct S11_class_OpenVolumeMesh__IO__PropertyCodecs* a0) {
  struct S14_class_std____cxx11__basic_string* v0; struct S14_class_std____cxx11__basic_string v0_m;
  struct S14_class_std____cxx11__basic_string* v1; struct S14_class_std____cxx11__basic_string v1_m;
  u8* v2;
  struct S64_union_anon* v3;
  struct S64_union_anon** v4;
  u8** v5;
  u8* v6;
  u64* v7;
  u8* v8;
  u8* v9;
  u8* v10;
  u8* v11;
  u1 v12;
  u8* v13;
  struct S64_union_anon* v14;
  struct S64_union_anon** v15;
  u8** v16;
  u8* v17;
  u64* v18;
  u8* v19;
  u8* v20;
  struct S10_class_OpenVolumeMesh__IO__PropertyDecode* v21;
  u8* v22;
  u8* v23;
  u1 v24;
  struct S65 v25;
  u8* v26;
  u8* v27;
  u1 v28;
  struct S65 v29;
  u8* v30;
  u8* v31;
  u1 v32;
  struct S65 v33; struct S65 v33_t;
L0: ;
  v0 = &v0_m;
  v1 = &v1_m;
  v2 = (u8*)v0;
  v3 = (struct S64_union_anon*)(&(*v0).f2);
  v4 = (struct S64_union_anon**)&(*v0).f0.f0;
  *v4 = v3;
  v5 = (u8**)(&(*v0).f0.f0);
  v6 = (u8*)v3;
  *v6 = ((u8)98ULL);
  v7 = (u64*)(&(*v0).f1);
  *v7 = ((u64)1ULL);
  v8 = (u8*)v3;
  v9 = (u8*)&(*v0).f2.f0.e[1];
  *v9 = ((u8)0ULL);
  _ZN14OpenVolumeMesh2IO14PropertyCodecs14register_codecINS0_6Codecs13BoolPropCodecEEEvRKNSt7__cxx1112basic_stringIcSt11char_traitsIcESaIcEEE(a0, v0);
  if (v_exc) {
    goto L7;
  }
  goto L1;
L1: ;
  v10 = *v5;
  v11 = (u8*)v3;
  v12 = ((u8*)v10 == (u8*)v11);
  if (v12) {
    goto L3;
  } else {
    goto L2;
  }
L2: ;
  _ZdlPv(v10);
  goto L3;
L3: ;
  v13 = (u8*)v1;
  v14 = (struct S64_union_anon*)(&(*v1).f2);
  v15 = (struct S64_union_anon**)&(*v1).f0.f0;
  *v15 = v14;
  v16 = (u8**)(&(*v1).f0.f0);
  v17 = (u8*)v14;
  *v17 = ((u8)98ULL);
  v18 = (u64*)(&(*v1).f1);
  *v18 = ((u64)1ULL);
  v19 = (u8*)v14;
  v20 = (u8*)&(*v1).f2.f0.e[1];
  *v20 = ((u8)0ULL);
  v21 = _ZNK14OpenVolumeMesh2IO14PropertyCodecs11get_decoderERKNSt7__cxx1112basic_stringIcSt11char_traitsIcESaIcEEE(a0, v1);
  if (v_exc) {
    goto L10;
  }
  goto L4;
L4: ;
  v22 = *v16;
  v23 = (u8*)v14;
  v24 = ((u8*)v22 == (u8*)v23);
  if (v24) {
    goto L6;
  } else {
    goto L5;
  }
L5: ;
  _ZdlPv(v22);
  goto L6;
L6: ;
  return v21;
L7: ;
  v25.f0 = v_exc_obj;
  v25.f1 = 0;
  v_exc = 0;
  v26 = *v5;
  v27 = (u8*)v3;
  v28 = ((u8*)v26 == (u8*)v27);
  if (v28) {
    goto L9;
  } else {
    goto L8;
  }
L8: ;
  _ZdlPv(v26);
  goto L9;
L9: ;
  v33 = v25;
  goto L13;
L10: ;
  v29.f0 = v_exc_obj;
  v29.f1 = 0;
  v_exc = 0;
  v30 = *v16;
  v31 = (u8*)v14;
  v32 = ((u8*)v30 == (u8*)v31);
  if (v32) {
    goto L12;
  } else {
    goto L11;
  }
L11: ;
  _ZdlPv(v30);
  goto L12;
L12: ;
  v33 = v29;
  goto L13;
L13: ;
  v_exc = 1; return (struct S10_class_OpenVolumeMesh__IO__PropertyDecode*)0;
}

void _ZN14OpenVolumeMesh16PropertyStorageTIbEC2EPNS_6detail7TrackerINS_19PropertyStorageBaseEEENSt7__cxx1112basic_stringIcSt11char_traitsIcESaIcEEENS_10EntityTypeEbb(struct S12_class_OpenVolumeMesh__PropertyStorageT* a0, struct S13_class_OpenVolumeMesh__detail__Tracker* a1, struct S14_class_std____cxx11__basic_string* a2, u8 a3, u1 a4, u1 a5) {
  struct S22_class_OpenVolumeMesh__PropertyStorageBas** v0; struct S22_class_OpenVolumeMesh__PropertyStorageBas* v0_m;
  struct S14_class_std____cxx11__basic_string* v1; struct S14_class_std____cxx11__basic_string v1_m;
  struct S14_class_std____cxx11__basic_string* v2; struct S14_class_std____cxx11__basic_string v2_m;
  struct S64_union_anon* v3;
  u8* v4;
  struct S64_union_anon** v5;
  u8** v6;
  u8* v7;
  struct S64_union_anon* v8;
  u8* v9;
  u1 v10;
  u64* v11;
  u64 v12;
  u64 v13;
  u1 v14;
  u8** v15;
  u64* v16;
  u64 v17;
  u64* v18;
  u64* v19;
  u64 v20;
  u64* v21;
  struct S64_union_anon** v22;
  struct S37_class_std__enable_shared_from_this* v23;
  u8* v24;
  fnptr_t** v25;
  struct S13_class_OpenVolumeMesh__detail__Tracker** v26;
  u1 v27;
  struct S19_class_OpenVolumeMesh__detail__Tracked* v28;
  u8* v29;
  struct S19_class_OpenVolumeMesh__detail__Tracked** v30;
  struct S16_class_std___Rb_tree_5* v31;
  struct S36 v32;
  struct S14_class_std____cxx11__basic_string* v33;
  struct S64_union_anon* v34;
  u8* v35;
  struct S64_union_anon** v36;
  u8** v37;
  u8* v38;
  u1 v39;
  u64 v40;
  u64 v41;
  u1 v42;
  u8** v43;
  u64* v44;
  u64 v45;
  u64* v46;
  u64 v47;
  u64* v48;
  struct S14_class_std____cxx11__basic_string* v49;
  struct S64_union_anon* v50;
  u8* v51;
  struct S64_union_anon** v52;
  u8** v53;
  u8* v54;
  struct S64_union_anon* v55;
  u8* v56;
  u1 v57;
  u64* v58;
  u64 v59;
  u64 v60;
  u1 v61;
  u8** v62;
  u64* v63;
  u64 v64;
  u64* v65;
  struct S65 v66;
  u8** v67;
  u8* v68;
  struct S64_union_anon* v69;
  u8* v70;
  u1 v71;
  u8 v72;
  u64* v73;
  u64 v74;
  u64* v75;
  struct S64_union_anon** v76;
  u8* v77;
  u8* v78;
  u8* v79;
  u8* v80;
  u1 v81;
  u8* v82;
  u1 v83;
  u8 v84;
  fnptr_t** v85;
  u64** v86;
  u32* v87;
  u64** v88;
  u32* v89;
  u64** v90;
  u8* v91;
  struct S65 v92;
  struct S65 v93; struct S65 v93_t;
  u8** v94;
  u8* v95;
  u1 v96;
L0: ;
  v0 = &v0_m;
  v1 = &v1_m;
  v2 = &v2_m;
  v3 = (struct S64_union_anon*)(&(*v1).f2);
  v4 = (u8*)v3;
  v5 = (struct S64_union_anon**)&(*v1).f0.f0;
  *v5 = v3;
  v6 = (u8**)(&(*a2).f0.f0);
  v7 = *v6;
  v8 = (struct S64_union_anon*)(&(*a2).f2);
  v9 = (u8*)v8;
  v10 = ((u8*)v7 == (u8*)v9);
  if (v10) {
    goto L1;
  } else {
    goto L3;
  }
L1: ;
  v11 = (u64*)(&(*a2).f1);
  v12 = *v11;
  v13 = ((u64)(v12 + ((u64)1ULL)));
  v14 = (v13 == ((u64)0ULL));
  if (v14) {
    goto L4;
  } else {
    goto L2;
  }
L2: ;
  { struct S64_union_anon* _d = v3; struct S64_union_anon* _s = v8; u64 _len = (u64)v13; u64 _n = _len / 16;
    if (_len % 16 == 0) { if (_n) { if (__CPROVER_same_object(_d, _s) && __CPROVER_POINTER_OFFSET(_d) > __CPROVER_POINTER_OFFSET(_s)) { for (u64 _i = _n; _i > 0; --_i) _d[_i-1] = _s[_i-1]; } else { for (u64 _i = 0; _i < _n; ++_i) _d[_i] = _s[_i]; } } }
    else { u8* _bd = (u8*)_d; u8* _bs = (u8*)_s; if (__CPROVER_same_object(_bd, _bs) && __CPROVER_POINTER_OFFSET(_bd) > __CPROVER_POINTER_OFFSET(_bs)) { for (u64 _i = _len; _i > 0; --_i) _bd[_i-1] = _bs[_i-1]; } else { for (u64 _i = 0; _i < _len; ++_i) _bd[_i] = _bs[_i]; } } }
  goto L4;
L3: ;
  v15 = (u8**)(&(*v1).f0.f0);
  *v15 = v7;
  v16 = (u64*)(&(*a2).f2.f0.e[0]);
  v17 = *v16;
  v18 = (u64*)(&(*v1).f2.f0.e[0]);
  *v18 = v17;
  goto L4;
L4: ;
  v19 = (u64*)(&(*a2).f1);
  v20 = *v19;
  v21 = (u64*)(&(*v1).f1);
  *v21 = v20;
  v22 = (struct S64_union_anon**)&(*a2).f0.f0;
  *v22 = v8;
  *v19 = ((u64)0ULL);
  *v9 = ((u8)0ULL);
  _ZN14OpenVolumeMesh6detail18internal_type_nameB5cxx11ERKSt9type_info(v2, ((struct S39_class_std__type_info*)(&_ZTIb)));
  if (v_exc) {
    goto L22;
  }
  goto L5;
L5: ;
  v23 = (struct S37_class_std__enable_shared_from_this*)(&(*a0).f0.f1);
  v24 = (u8*)v23;
  (*a0).f0.f1.f0.f0.f0 = (struct S22_class_OpenVolumeMesh__PropertyStorageBas*)0;
  (*a0).f0.f1.f0.f0.f1.f0 = (struct S20_class_std___Sp_counted_base*)0;
  v25 = (fnptr_t**)(&(*a0).f0.f0.f0);
  *v25 = ((fnptr_t*)((u8**)(&(*(&_ZTVN14OpenVolumeMesh6detail7TrackedINS_19PropertyStorageBaseEEE)).f0.e[(s64)((s64)((u64)2ULL))])));
  v26 = (struct S13_class_OpenVolumeMesh__detail__Tracker**)(&(*a0).f0.f0.f1);
  *v26 = a1;
  v27 = ((u8*)a1 == (u8*)((struct S13_class_OpenVolumeMesh__detail__Tracker*)0));
  if (v27) {
    goto L8;
  } else {
    goto L6;
  }
L6: ;
  v28 = (struct S19_class_OpenVolumeMesh__detail__Tracked*)(&(*a0).f0.f0);
  v29 = (u8*)v0;
  v30 = (struct S19_class_OpenVolumeMesh__detail__Tracked**)v0;
  *v30 = v28;
  v31 = (struct S16_class_std___Rb_tree_5*)(&(*a1).f1.f0);
  v32 = _ZNSt8_Rb_treeIPN14OpenVolumeMesh19PropertyStorageBaseES2_St9_IdentityIS2_ESt4lessIS2_ESaIS2_EE16_M_insert_uniqueIRKS2_EESt4pairISt17_Rb_tree_iteratorIS2_EbEOT_(v31, v0);
  if (v_exc) {
    goto L16;
  }
  goto L7;
L7: ;
  goto L8;
L8: ;
  *v25 = ((fnptr_t*)((u8**)(&(*(&_ZTVN14OpenVolumeMesh19PropertyStorageBaseE)).f0.e[(s64)((s64)((u64)2ULL))])));
  v33 = (struct S14_class_std____cxx11__basic_string*)(&(*a0).f0.f2);
  v34 = (struct S64_union_anon*)(&(*a0).f0.f2.f2);
  v35 = (u8*)v34;
  v36 = (struct S64_union_anon**)&(*a0).f0.f2.f0.f0;
  *v36 = v34;
  v37 = (u8**)(&(*v1).f0.f0);
  v38 = *v37;
  v39 = ((u8*)v38 == (u8*)v4);
  if (v39) {
    goto L9;
  } else {
    goto L11;
  }
L9: ;
  v40 = *v21;
  v41 = ((u64)(v40 + ((u64)1ULL)));
  v42 = (v41 == ((u64)0ULL));
  if (v42) {
    goto L12;
  } else {
    goto L10;
  }
L10: ;
  { struct S64_union_anon* _d = v34; struct S64_union_anon* _s = v3; u64 _len = (u64)v41; u64 _n = _len / 16;
    if (_len % 16 == 0) { if (_n) { if (__CPROVER_same_object(_d, _s) && __CPROVER_POINTER_OFFSET(_d) > __CPROVER_POINTER_OFFSET(_s)) { for (u64 _i = _n; _i > 0; --_i) _d[_i-1] = _s[_i-1]; } else { for (u64 _i = 0; _i < _n; ++_i) _d[_i] = _s[_i]; } } }
    else { u8* _bd = (u8*)_d; u8* _bs = (u8*)_s; if (__CPROVER_same_object(_bd, _bs) && __CPROVER_POINTER_OFFSET(_bd) > __CPROVER_POINTER_OFFSET(_bs)) { for (u64 _i = _len; _i > 0; --_i) _bd[_i-1] = _bs[_i-1]; } else { for (u64 _i = 0; _i < _len; ++_i) _bd[_i] = _bs[_i]; } } }
  goto L12;
L11: ;
  v43 = (u8**)(&(*v33).f0.f0);
  *v43 = v38;
  v44 = (u64*)(&(*v1).f2.f0.e[0]);
  v45 = *v44;
  v46 = (u64*)(&(*a0).f0.f2.f2.f0.e[0]);
  *v46 = v45;
  goto L12;
L12: ;
  v47 = *v21;
  v48 = (u64*)(&(*a0).f0.f2.f1);
  *v48 = v47;
  *v5 = v3;
  *v21 = ((u64)0ULL);
  *v4 = ((u8)0ULL);
  v49 = (struct S14_class_std____cxx11__basic_string*)(&(*a0).f0.f3);
  v50 = (struct S64_union_anon*)(&(*a0).f0.f3.f2);
  v51 = (u8*)v50;
  v52 = (struct S64_union_anon**)&(*a0).f0.f3.f0.f0;
  *v52 = v50;
  v53 = (u8**)(&(*v2).f0.f0);
  v54 = *v53;
  v55 = (struct S64_union_anon*)(&(*v2).f2);
  v56 = (u8*)v55;
  v57 = ((u8*)v54 == (u8*)v56);
  if (v57) {
    goto L13;
  } else {
    goto L15;
  }
L13: ;
  v58 = (u64*)(&(*v2).f1);
  v59 = *v58;
  v60 = ((u64)(v59 + ((u64)1ULL)));
  v61 = (v60 == ((u64)0ULL));
  if (v61) {
    goto L17;
  } else {
    goto L14;
  }
L14: ;
  { struct S64_union_anon* _d = v50; struct S64_union_anon* _s = v55; u64 _len = (u64)v60; u64 _n = _len / 16;
    if (_len % 16 == 0) { if (_n) { if (__CPROVER_same_object(_d, _s) && __CPROVER_POINTER_OFFSET(_d) > __CPROVER_POINTER_OFFSET(_s)) { for (u64 _i = _n; _i > 0; --_i) _d[_i-1] = _s[_i-1]; } else { for (u64 _i = 0; _i < _n; ++_i) _d[_i] = _s[_i]; } } }
    else { u8* _bd = (u8*)_d; u8* _bs = (u8*)_s; if (__CPROVER_same_object(_bd, _bs) && __CPROVER_POINTER_OFFSET(_bd) > __CPROVER_POINTER_OFFSET(_bs)) { for (u64 _i = _len; _i > 0; --_i) _bd[_i-1] = _bs[_i-1]; } else { for (u64 _i = 0; _i < _len; ++_i) _bd[_i] = _bs[_i]; } } }
  goto L17;
L15: ;
  v62 = (u8**)(&(*v49).f0.f0);
  *v62 = v54;
  v63 = (u64*)(&(*v2).f2.f0.e[0]);
  v64 = *v63;
  v65 = (u64*)(&(*a0).f0.f3.f2.f0.e[0]);
  *v65 = v64;
  goto L17;
L16: ;
  v66.f0 = v_exc_obj;
  v66.f1 = 0;
  v_exc = 0;
  _ZNSt23enable_shared_from_thisIN14OpenVolumeMesh19PropertyStorageBaseEED2Ev(v23);
  v67 = (u8**)(&(*v2).f0.f0);
  v68 = *v67;
  v69 = (struct S64_union_anon*)(&(*v2).f2);
  v70 = (u8*)v69;
  v71 = ((u8*)v68 == (u8*)v70);
  if (v71) {
    v93 = v66;
    goto L24;
  } else {
    goto L23;
  }
L17: ;
  v72 = ((u8)(a5));
  v73 = (u64*)(&(*v2).f1);
  v74 = *v73;
  v75 = (u64*)(&(*a0).f0.f3.f1);
  *v75 = v74;
  v76 = (struct S64_union_anon**)&(*v2).f0.f0;
  *v76 = v55;
  *v73 = ((u64)0ULL);
  *v56 = ((u8)0ULL);
  v77 = (u8*)(&(*a0).f0.f4);
  *v77 = a3;
  v78 = (u8*)(&(*a0).f0.f5);
  *v78 = ((u8)0ULL);
  v79 = (u8*)(&(*a0).f0.f6);
  *v79 = v72;
  v80 = *v53;
  v81 = ((u8*)v80 == (u8*)v56);
  if (v81) {
    goto L19;
  } else {
    goto L18;
  }
L18: ;
  _ZdlPv(v80);
  goto L19;
L19: ;
  v82 = *v37;
  v83 = ((u8*)v82 == (u8*)v4);
  if (v83) {
    goto L21;
  } else {
    goto L20;
  }
L20: ;
  _ZdlPv(v82);
  goto L21;
L21: ;
  v84 = ((u8)(a4));
  v85 = (fnptr_t**)(&(*a0).f0.f0.f0);
  *v85 = ((fnptr_t*)((u8**)(&(*(&_ZTVN14OpenVolumeMesh16PropertyStorageTIbEE)).f0.e[(s64)((s64)((u64)2ULL))])));
  v86 = (u64**)(&(*a0).f2.f0.f0.f0.f0.f0.f0);
  *v86 = ((u64*)0);
  v87 = (u32*)(&(*a0).f2.f0.f0.f0.f0.f0.f1);
  *v87 = ((u32)0ULL);
  v88 = (u64**)(&(*a0).f2.f0.f0.f0.f1.f0.f0);
  *v88 = ((u64*)0);
  v89 = (u32*)(&(*a0).f2.f0.f0.f0.f1.f0.f1);
  *v89 = ((u32)0ULL);
  v90 = (u64**)(&(*a0).f2.f0.f0.f0.f2);
  *v90 = ((u64*)0);
  v91 = (u8*)(&(*a0).f3);
  *v91 = v84;
  return;
L22: ;
  v92.f0 = v_exc_obj;
  v92.f1 = 0;
  v_exc = 0;
  v93 = v92;
  goto L24;
L23: ;
  _ZdlPv(v68);
  v93 = v66;
  goto L24;
L24: ;
  v94 = (u8**)(&(*v1).f0.f0);
  v95 = *v94;
  v96 = ((u8*)v95 == (u8*)v4);
  if (v96) {
    goto L26;
  } else {
    goto L25;
  }
L25: ;
  _ZdlPv(v95);
  goto L26;
L26: ;
  v_exc = 1; return;
}

void _ZNSt6vectorIbSaIbEE14_M_fill_insertESt13_Bit_iteratormb(struct S15_class_std__vector_46* a0, u64* a1, u32 a2, u64 a3, u1 a4) {
  u8 v0;
  u8 v1;
  u1 v2;
  u64** v3;
  u64* v4;
  u64** v5;
  u64* v6;
  u64 v7;
  u64 v8;
  u64 v9;
  u64 v10;
  u64** v11;
  u64* v12;
  u32* v13;
  u32 v14;
  u64 v15;
  u64 v16;
  u64 v17;
  u64 v18;
  u64 v19;
  u64 v20;
  u1 v21;
  u64** v22;
  u32* v23;
  u32 v24;
  u64 v25;
  u64 v26;
  u64 v27;
  u64 v28;
  u64 v29;
  u64 v30;
  u64 v31;
  u64 v32;
  u64 v33;
  u64 v34;
  u1 v35;
  u1 v36;
  u64 v37;
  u64 v38;
  u32 v39;
  u64* v40;
  u64* v41;
  u64 v42;
  u64* v43;
  u64 v44; u64 v44_t;
  u32 v45; u32 v45_t;
  u64* v46; u64* v46_t;
  u32 v47; u32 v47_t;
  u64* v48; u64* v48_t;
  u32 v49;
  u1 v50;
  u64 v51;
  u64* v52;
  u32 v53;
  u64 v54;
  u64 v55;
  u32 v56;
  u1 v57;
  u64 v58;
  u64* v59;
  u32 v60;
  u64 v61;
  u64 v62;
  u64 v63;
  u64 v64;
  u1 v65;
  u64 v66;
  u64 v67;
  u64 v68;
  u64 v69;
  u64 v70;
  u64 v71; u64 v71_t;
  u64 v72;
  u1 v73;
  u64 v74;
  u64 v75;
  u64* v76;
  u64 v77;
  u1 v78;
  u64 v79;
  u64 v80;
  u64* v81;
  u64 v82;
  u32 v83;
  u1 v84;
  u1 v85;
  u64* v86;
  u64 v87;
  u64 v88;
  u64 v89;
  u64 v90;
  u64 v91;
  u64 v92;
  u64 v93; u64 v93_t;
  u64* v94; u64* v94_t;
  u64 v95;
  u64 v96;
  u64 v97;
  u8* v98;
  u1 v99;
  u64 v100;
  u64 v101;
  u64 v102;
  u64 v103;
  u64 v104;
  u64 v105;
  u64 v106;
  u64 v107;
  u64 v108; u64 v108_t;
  u1 v109;
  u64 v110;
  u64 v111;
  u64 v112;
  u64 v113;
  u64 v114;
  u64 v115;
  u64 v116;
  u64 v117;
  u64 v118;
  u64 v119;
  u64 v120; u64 v120_t;
  u32 v121;
  u64 v122;
  u64 v123;
  u64 v124;
  u64* v125;
  u64* v126;
  u64 v127;
  u1 v128;
  u64 v129;
  u64 v130;
  u64* v131;
  u64 v132;
  u32 v133;
  u64 v134;
  u1 v135;
  u1 v136;
  u64 v137;
  u64 v138;
  u1 v139;
  u1 v140;
  u1 v141;
  u64 v142;
  u64 v143;
  u64 v144;
  u64 v145;
  u8* v146;
  u64* v147;
  u64 v148;
  u64 v149;
  u1 v150;
  u8* v151;
  u64 v152;
  u64* v153;
  u1 v154;
  u64 v155;
  u64 v156; u64 v156_t;
  u32 v157; u32 v157_t;
  u64* v158; u64* v158_t;
  u64* v159; u64* v159_t;
  u32 v160; u32 v160_t;
  u64 v161;
  u64 v162;
  u64 v163;
  u64 v164;
  u1 v165;
  u64 v166;
  u64 v167;
  u64 v168;
  u64 v169;
  u64 v170;
  u64 v171;
  u64 v172;
  u64 v173; u64 v173_t;
  u32 v174;
  u1 v175;
  u64 v176;
  u64* v177;
  u32 v178;
  u32 v179;
  u1 v180;
  u32 v181;
  u64 v182;
  u64* v183;
  u64 v184;
  u1 v185;
  u32 v186; u32 v186_t;
  u64* v187; u64* v187_t;
  u64 v188;
  u64 v189;
  u64 v190;
  u64* v191;
  u64 v192;
  u1 v193;
  u64 v194;
  u64 v195;
  u64* v196;
  u64 v197;
  u32 v198;
  u1 v199;
  u1 v200;
  u64* v201;
  u64 v202;
  u64 v203;
  u64 v204;
  u64 v205;
  u64 v206;
  u64 v207;
  u64 v208; u64 v208_t;
  u64* v209; u64* v209_t;
  u64 v210;
  u64 v211;
  u64 v212;
  u8* v213;
  u1 v214;
  u64 v215;
  u64 v216;
  u64 v217;
  u64 v218;
  u64 v219;
  u64 v220;
  u64 v221;
  u64 v222;
  u64 v223; u64 v223_t;
  u1 v224;
  u64 v225;
  u64 v226;
  u64 v227;
  u64 v228;
  u64 v229;
  u64 v230;
  u64 v231;
  u64 v232;
  u64 v233;
  u64 v234;
  u64 v235; u64 v235_t;
  u64* v236;
  u32 v237;
  u64 v238;
  u64 v239;
  u64 v240;
  u64 v241;
  u64 v242;
  u64 v243;
  u64 v244;
  u1 v245;
  u64 v246; u64 v246_t;
  u32 v247; u32 v247_t;
  u64* v248; u64* v248_t;
  u32 v249; u32 v249_t;
  u64* v250; u64* v250_t;
  u64 v251;
  u64 v252;
  u64 v253;
  u64 v254;
  u64 v255;
  u64 v256;
  u1 v257;
  u64 v258;
  u64 v259;
  u64 v260;
  u64 v261;
  u64 v262;
  u64 v263; u64 v263_t;
  u32 v264;
  u1 v265;
  u64 v266;
  u64* v267;
  u32 v268;
  u32 v269;
  u1 v270;
  u64 v271;
  u64* v272;
  u32 v273;
  u64 v274;
  u1 v275;
  u64* v276; u64* v276_t;
  u32 v277; u32 v277_t;
  u64** v278;
  u64* v279;
  u1 v280;
  u64** v281;
  u64* v282;
  u64 v283;
  u64 v284;
  u64 v285;
  u64 v286;
  u64 v287;
  u64* v288;
  u8* v289;
  u32* v290;
  u64** v291;
  u32* v292;
  u64 v293;
  u64* v294;
  u8** v295;
  u32* v296;
L0: ;
  v0 = ((u8)(((s64)-(s64)(a4))));
  v1 = ((u8)(((s64)-(s64)(a4))));
  v2 = (a3 == ((u64)0ULL));
  if (v2) {
    goto L59;
  } else {
    goto L1;
  }
L1: ;
  v3 = (u64**)(&(*a0).f0.f0.f0.f2);
  v4 = *v3;
  v5 = (u64**)(&(*a0).f0.f0.f0.f0.f0.f0);
  v6 = *v5;
  v7 = ((u64)((u64)v4));
  v8 = ((u64)((u64)v6));
  v9 = v_pdiff((u8*)v4, (u8*)v6);
  v10 = ((u64)(v9 << ((u64)3ULL)));
  v11 = (u64**)(&(*a0).f0.f0.f0.f1.f0.f0);
  v12 = *v11;
  v13 = (u32*)(&(*a0).f0.f0.f0.f1.f0.f1);
  v14 = *v13;
  v15 = ((u64)((u64)v12));
  v16 = v_pdiff((u8*)v12, (u8*)v6);
  v17 = ((u64)(v16 << ((u64)3ULL)));
  v18 = ((u64)(v14));
  v19 = ((u64)(v17 + v18));
  v20 = ((u64)(v10 - v19));
  v21 = (v20 < a3);
  if (v21) {
    goto L25;
  } else {
    goto L2;
  }
L2: ;
  v22 = (u64**)(&(*a0).f0.f0.f0.f1.f0.f0);
  v23 = (u32*)(&(*a0).f0.f0.f0.f1.f0.f1);
  v24 = *v23;
  v25 = ((u64)(v24));
  v26 = ((u64)(v25 + a3));
  v27 = ((u64)(((s64)v26) % ((s64)((u64)64ULL))));
  v28 = ((u64)(((s64)v26) / ((s64)((u64)64ULL))));
  v29 = ((u64)((u64)a1));
  v30 = v_pdiff((u8*)v12, (u8*)a1);
  v31 = ((u64)(v30 << ((u64)3ULL)));
  v32 = ((u64)(a2));
  v33 = ((u64)(v18 - v32));
  v34 = ((u64)(v33 + v31));
  v35 = (((s64)v34) > ((s64)((u64)0ULL)));
  if (v35) {
    goto L3;
  } else {
    goto L8;
  }
L3: ;
  v36 = (((s64)v27) < ((s64)((u64)0ULL)));
  v37 = ((u64)(v27 + ((u64)64ULL)));
  v38 = (v36 ? v37 : v27);
  v39 = ((u32)(v38));
  v40 = *v22;
  v41 = (u64*)(v40 + (s64)((s64)v28));
  v42 = ((u64)(((s64)v27) >> ((u64)63ULL)));
  v43 = (u64*)(v41 + (s64)((s64)v42));
  v44_t = v34;
  v45_t = v14;
  v46_t = v12;
  v47_t = v39;
  v48_t = v43;
  v44 = v44_t;
  v45 = v45_t;
  v46 = v46_t;
  v47 = v47_t;
  v48 = v48_t;
  goto L4;
L4: ;
  v49 = ((u32)(v45 + ((u32)4294967295ULL)));
  v50 = (v45 == ((u32)0ULL));
  v51 = ((u64)(((s64)-(s64)(v50))));
  v52 = (u64*)(v46 + (s64)((s64)v51));
  v53 = (v50 ? ((u32)63ULL) : v49);
  v54 = ((u64)(v53));
  v55 = ((u64)(((u64)1ULL) << v54));
  v56 = ((u32)(v47 + ((u32)4294967295ULL)));
  v57 = (v47 == ((u32)0ULL));
  v58 = ((u64)(((s64)-(s64)(v57))));
  v59 = (u64*)(v48 + (s64)((s64)v58));
  v60 = (v57 ? ((u32)63ULL) : v56);
  v61 = ((u64)(v60));
  v62 = ((u64)(((u64)1ULL) << v61));
  v63 = *v52;
  v64 = ((u64)(v63 & v55));
  v65 = (v64 == ((u64)0ULL));
  if (v65) {
    goto L6;
  } else {
    goto L5;
  }
L5: ;
  v66 = *v59;
  v67 = ((u64)(v66 | v62));
  v71 = v67;
  goto L7;
L6: ;
  v68 = ((u64)(v62 ^ ((u64)18446744073709551615ULL)));
  v69 = *v59;
  v70 = ((u64)(v69 & v68));
  v71 = v70;
  goto L7;
L7: ;
  *v59 = v71;
  v72 = ((u64)(v44 + ((u64)18446744073709551615ULL)));
  v73 = (((s64)v44) > ((s64)((u64)1ULL)));
  if (v73) {
    v44_t = v72;
    v45_t = v53;
    v46_t = v52;
    v47_t = v60;
    v48_t = v59;
    v44 = v44_t;
    v45 = v45_t;
    v46 = v46_t;
    v47 = v47_t;
    v48 = v48_t;
    goto L4;
  } else {
    goto L8;
  }
L8: ;
  v74 = ((u64)(v32 + a3));
  v75 = ((u64)(((s64)v74) / ((s64)((u64)64ULL))));
  v76 = (u64*)(a1 + (s64)((s64)v75));
  v77 = ((u64)(((s64)v74) % ((s64)((u64)64ULL))));
  v78 = (((s64)v77) < ((s64)((u64)0ULL)));
  v79 = ((u64)(v77 + ((u64)64ULL)));
  v80 = ((u64)(((s64)v77) >> ((u64)63ULL)));
  v81 = (u64*)(v76 + (s64)((s64)v80));
  v82 = (v78 ? v79 : v77);
  v83 = ((u32)(v82));
  v84 = ((u8*)v81 == (u8*)a1);
  if (v84) {
    goto L19;
  } else {
    goto L9;
  }
L9: ;
  v85 = (a2 == ((u32)0ULL));
  if (v85) {
    v94 = a1;
    goto L14;
  } else {
    goto L10;
  }
L10: ;
  v86 = (u64*)(a1 + (s64)((s64)((u64)1ULL)));
  v87 = ((u64)(((u64)18446744073709551615ULL) << v32));
  if (a4) {
    goto L11;
  } else {
    goto L12;
  }
L11: ;
  v88 = *a1;
  v89 = ((u64)(v88 | v87));
  v93 = v89;
  goto L13;
L12: ;
  v90 = ((u64)(v87 ^ ((u64)18446744073709551615ULL)));
  v91 = *a1;
  v92 = ((u64)(v91 & v90));
  v93 = v92;
  goto L13;
L13: ;
  *a1 = v93;
  v94 = v86;
  goto L14;
L14: ;
  v95 = ((u64)((u64)v81));
  v96 = ((u64)((u64)v94));
  v97 = v_pdiff((u8*)v81, (u8*)v94);
  v98 = (u8*)v94;
  v_memset((u8*)v98, v0, (u64)v97);
  v99 = (v83 == ((u32)0ULL));
  if (v99) {
    goto L24;
  } else {
    goto L15;
  }
L15: ;
  v100 = ((u64)(((u64)64ULL) - v82));
  v101 = ((u64)(v100 & ((u64)4294967295ULL)));
  v102 = ((u64)(((u64)18446744073709551615ULL) >> v101));
  if (a4) {
    goto L16;
  } else {
    goto L17;
  }
L16: ;
  v103 = *v81;
  v104 = ((u64)(v103 | v102));
  v108 = v104;
  goto L18;
L17: ;
  v105 = ((u64)(v102 ^ ((u64)18446744073709551615ULL)));
  v106 = *v81;
  v107 = ((u64)(v106 & v105));
  v108 = v107;
  goto L18;
L18: ;
  *v81 = v108;
  goto L24;
L19: ;
  v109 = (v83 == a2);
  if (v109) {
    goto L24;
  } else {
    goto L20;
  }
L20: ;
  v110 = ((u64)(((u64)18446744073709551615ULL) << v32));
  v111 = ((u64)(((u64)64ULL) - v82));
  v112 = ((u64)(v111 & ((u64)4294967295ULL)));
  v113 = ((u64)(((u64)18446744073709551615ULL) >> v112));
  v114 = ((u64)(v113 & v110));
  if (a4) {
    goto L21;
  } else {
    goto L22;
  }
L21: ;
  v115 = *a1;
  v116 = ((u64)(v115 | v114));
  v120 = v116;
  goto L23;
L22: ;
  v117 = ((u64)(v114 ^ ((u64)18446744073709551615ULL)));
  v118 = *a1;
  v119 = ((u64)(v118 & v117));
  v120 = v119;
  goto L23;
L23: ;
  *a1 = v120;
  goto L24;
L24: ;
  v121 = *v23;
  v122 = ((u64)(v121));
  v123 = ((u64)(v122 + a3));
  v124 = ((u64)(((s64)v123) / ((s64)((u64)64ULL))));
  v125 = *v22;
  v126 = (u64*)(v125 + (s64)((s64)v124));
  v127 = ((u64)(((s64)v123) % ((s64)((u64)64ULL))));
  v128 = (((s64)v127) < ((s64)((u64)0ULL)));
  v129 = ((u64)(v127 + ((u64)64ULL)));
  v130 = ((u64)(((s64)v127) >> ((u64)63ULL)));
  v131 = (u64*)(v126 + (s64)((s64)v130));
  v132 = (v128 ? v129 : v127);
  *v22 = v131;
  v133 = ((u32)(v132));
  *v23 = v133;
  goto L59;
L25: ;
  v134 = ((u64)(((u64)9223372036854775744ULL) - v19));
  v135 = (v134 < a3);
  if (v135) {
    goto L26;
  } else {
    goto L27;
  }
L26: ;
  _ZSt20__throw_length_errorPKc(((u8*)(&(*(&_str_18)).e[(s64)((s64)((u64)0ULL))])));
  if (v_exc) return;
  __CPROVER_assume(0);
L27: ;
  v136 = (v19 < a3);
  v137 = (v136 ? a3 : v19);
  v138 = ((u64)(v137 + v19));
  v139 = (v138 < v19);
  v140 = (v138 > ((u64)9223372036854775744ULL));
  v141 = ((u1)((v139 | v140)&1));
  v142 = ((u64)(v138 + ((u64)63ULL)));
  v143 = (v141 ? ((u64)9223372036854775807ULL) : v142);
  v144 = ((u64)(v143 >> ((u64)3ULL)));
  v145 = ((u64)(v144 & ((u64)2305843009213693944ULL)));
  v146 = (u8*)((v145 % sizeof(u64) == 0) ? __CPROVER_allocate(sizeof(u64) * (v145 / sizeof(u64)), 1) : __CPROVER_allocate(v145, 0));
  v147 = (u64*)v146;
  v148 = ((u64)((u64)a1));
  v149 = v_pdiff((u8*)a1, (u8*)v6);
  v150 = (v149 == ((u64)0ULL));
  if (v150) {
    goto L29;
  } else {
    goto L28;
  }
L28: ;
  v151 = (u8*)v6;
  v_memmove((u8*)v146, (u8*)v151, (u64)v149);
  goto L29;
L29: ;
  v152 = ((u64)(((s64)v149) >> ((u64)3ULL)));
  v153 = (u64*)(v147 + (s64)((s64)v152));
  v154 = (a2 == ((u32)0ULL));
  if (v154) {
    v186_t = ((u32)0ULL);
    v187_t = v153;
    v186 = v186_t;
    v187 = v187_t;
    goto L35;
  } else {
    goto L30;
  }
L30: ;
  v155 = ((u64)(a2));
  v156_t = v155;
  v157_t = ((u32)0ULL);
  v158_t = a1;
  v159_t = v153;
  v160_t = ((u32)0ULL);
  v156 = v156_t;
  v157 = v157_t;
  v158 = v158_t;
  v159 = v159_t;
  v160 = v160_t;
  goto L31;
L31: ;
  v161 = ((u64)(v157));
  v162 = ((u64)(((u64)1ULL) << v161));
  v163 = *v158;
  v164 = ((u64)(v163 & v162));
  v165 = (v164 == ((u64)0ULL));
  v166 = ((u64)(v160));
  v167 = ((u64)(((u64)1ULL) << v166));
  if (v165) {
    goto L33;
  } else {
    goto L32;
  }
L32: ;
  v168 = *v159;
  v169 = ((u64)(v168 | v167));
  v173 = v169;
  goto L34;
L33: ;
  v170 = ((u64)(v167 ^ ((u64)18446744073709551615ULL)));
  v171 = *v159;
  v172 = ((u64)(v171 & v170));
  v173 = v172;
  goto L34;
L34: ;
  *v159 = v173;
  v174 = ((u32)(v157 + ((u32)1ULL)));
  v175 = (v157 == ((u32)63ULL));
  v176 = ((u64)(v175));
  v177 = (u64*)(v158 + (s64)((s64)v176));
  v178 = (v175 ? ((u32)0ULL) : v174);
  v179 = ((u32)(v160 + ((u32)1ULL)));
  v180 = (v160 == ((u32)63ULL));
  v181 = (v180 ? ((u32)0ULL) : v179);
  v182 = ((u64)(v180));
  v183 = (u64*)(v159 + (s64)((s64)v182));
  v184 = ((u64)(v156 + ((u64)18446744073709551615ULL)));
  v185 = (((s64)v156) > ((s64)((u64)1ULL)));
  if (v185) {
    v156_t = v184;
    v157_t = v178;
    v158_t = v177;
    v159_t = v183;
    v160_t = v181;
    v156 = v156_t;
    v157 = v157_t;
    v158 = v158_t;
    v159 = v159_t;
    v160 = v160_t;
    goto L31;
  } else {
    v186_t = v181;
    v187_t = v183;
    v186 = v186_t;
    v187 = v187_t;
    goto L35;
  }
L35: ;
  v188 = ((u64)(v186));
  v189 = ((u64)(v188 + a3));
  v190 = ((u64)(((s64)v189) / ((s64)((u64)64ULL))));
  v191 = (u64*)(v187 + (s64)((s64)v190));
  v192 = ((u64)(((s64)v189) % ((s64)((u64)64ULL))));
  v193 = (((s64)v192) < ((s64)((u64)0ULL)));
  v194 = ((u64)(v192 + ((u64)64ULL)));
  v195 = ((u64)(((s64)v192) >> ((u64)63ULL)));
  v196 = (u64*)(v191 + (s64)((s64)v195));
  v197 = (v193 ? v194 : v192);
  v198 = ((u32)(v197));
  v199 = ((u8*)v187 == (u8*)v196);
  if (v199) {
    goto L46;
  } else {
    goto L36;
  }
L36: ;
  v200 = (v186 == ((u32)0ULL));
  if (v200) {
    v209 = v187;
    goto L41;
  } else {
    goto L37;
  }
L37: ;
  v201 = (u64*)(v187 + (s64)((s64)((u64)1ULL)));
  v202 = ((u64)(((u64)18446744073709551615ULL) << v188));
  if (a4) {
    goto L38;
  } else {
    goto L39;
  }
L38: ;
  v203 = *v187;
  v204 = ((u64)(v203 | v202));
  v208 = v204;
  goto L40;
L39: ;
  v205 = ((u64)(v202 ^ ((u64)18446744073709551615ULL)));
  v206 = *v187;
  v207 = ((u64)(v206 & v205));
  v208 = v207;
  goto L40;
L40: ;
  *v187 = v208;
  v209 = v201;
  goto L41;
L41: ;
  v210 = ((u64)((u64)v196));
  v211 = ((u64)((u64)v209));
  v212 = v_pdiff((u8*)v196, (u8*)v209);
  v213 = (u8*)v209;
  v_memset((u8*)v213, v1, (u64)v212);
  v214 = (v198 == ((u32)0ULL));
  if (v214) {
    goto L51;
  } else {
    goto L42;
  }
L42: ;
  v215 = ((u64)(((u64)64ULL) - v197));
  v216 = ((u64)(v215 & ((u64)4294967295ULL)));
  v217 = ((u64)(((u64)18446744073709551615ULL) >> v216));
  if (a4) {
    goto L43;
  } else {
    goto L44;
  }
L43: ;
  v218 = *v196;
  v219 = ((u64)(v218 | v217));
  v223 = v219;
  goto L45;
L44: ;
  v220 = ((u64)(v217 ^ ((u64)18446744073709551615ULL)));
  v221 = *v196;
  v222 = ((u64)(v221 & v220));
  v223 = v222;
  goto L45;
L45: ;
  *v196 = v223;
  goto L51;
L46: ;
  v224 = (v186 == v198);
  if (v224) {
    goto L51;
  } else {
    goto L47;
  }
L47: ;
  v225 = ((u64)(((u64)18446744073709551615ULL) << v188));
  v226 = ((u64)(((u64)64ULL) - v197));
  v227 = ((u64)(v226 & ((u64)4294967295ULL)));
  v228 = ((u64)(((u64)18446744073709551615ULL) >> v227));
  v229 = ((u64)(v228 & v225));
  if (a4) {
    goto L48;
  } else {
    goto L49;
  }
L48: ;
  v230 = *v187;
  v231 = ((u64)(v230 | v229));
  v235 = v231;
  goto L50;
L49: ;
  v232 = ((u64)(v229 ^ ((u64)18446744073709551615ULL)));
  v233 = *v187;
  v234 = ((u64)(v233 & v232));
  v235 = v234;
  goto L50;
L50: ;
  *v187 = v235;
  goto L51;
L51: ;
  v236 = *v11;
  v237 = *v13;
  v238 = ((u64)((u64)v236));
  v239 = v_pdiff((u8*)v236, (u8*)a1);
  v240 = ((u64)(v239 << ((u64)3ULL)));
  v241 = ((u64)(v237));
  v242 = ((u64)(a2));
  v243 = ((u64)(v241 - v242));
  v244 = ((u64)(v243 + v240));
  v245 = (((s64)v244) > ((s64)((u64)0ULL)));
  if (v245) {
    v246_t = v244;
    v247_t = a2;
    v248_t = a1;
    v249_t = v198;
    v250_t = v196;
    v246 = v246_t;
    v247 = v247_t;
    v248 = v248_t;
    v249 = v249_t;
    v250 = v250_t;
    goto L52;
  } else {
    v276_t = v196;
    v277_t = v198;
    v276 = v276_t;
    v277 = v277_t;
    goto L56;
  }
L52: ;
  v251 = ((u64)(v247));
  v252 = ((u64)(((u64)1ULL) << v251));
  v253 = ((u64)(v249));
  v254 = ((u64)(((u64)1ULL) << v253));
  v255 = *v248;
  v256 = ((u64)(v255 & v252));
  v257 = (v256 == ((u64)0ULL));
  if (v257) {
    goto L54;
  } else {
    goto L53;
  }
L53: ;
  v258 = *v250;
  v259 = ((u64)(v258 | v254));
  v263 = v259;
  goto L55;
L54: ;
  v260 = ((u64)(v254 ^ ((u64)18446744073709551615ULL)));
  v261 = *v250;
  v262 = ((u64)(v261 & v260));
  v263 = v262;
  goto L55;
L55: ;
  *v250 = v263;
  v264 = ((u32)(v247 + ((u32)1ULL)));
  v265 = (v247 == ((u32)63ULL));
  v266 = ((u64)(v265));
  v267 = (u64*)(v248 + (s64)((s64)v266));
  v268 = (v265 ? ((u32)0ULL) : v264);
  v269 = ((u32)(v249 + ((u32)1ULL)));
  v270 = (v249 == ((u32)63ULL));
  v271 = ((u64)(v270));
  v272 = (u64*)(v250 + (s64)((s64)v271));
  v273 = (v270 ? ((u32)0ULL) : v269);
  v274 = ((u64)(v246 + ((u64)18446744073709551615ULL)));
  v275 = (((s64)v246) > ((s64)((u64)1ULL)));
  if (v275) {
    v246_t = v274;
    v247_t = v268;
    v248_t = v267;
    v249_t = v273;
    v250_t = v272;
    v246 = v246_t;
    v247 = v247_t;
    v248 = v248_t;
    v249 = v249_t;
    v250 = v250_t;
    goto L52;
  } else {
    v276_t = v272;
    v277_t = v273;
    v276 = v276_t;
    v277 = v277_t;
    goto L56;
  }
L56: ;
  v278 = (u64**)(&(*a0).f0.f0.f0.f0.f0.f0);
  v279 = *v278;
  v280 = ((u8*)v279 == (u8*)((u64*)0));
  if (v280) {
    goto L58;
  } else {
    goto L57;
  }
L57: ;
  v281 = (u64**)(&(*a0).f0.f0.f0.f2);
  v282 = *v281;
  v283 = ((u64)((u64)v282));
  v284 = ((u64)((u64)v279));
  v285 = v_pdiff((u8*)v282, (u8*)v279);
  v286 = ((u64)(((s64)v285) >> ((u64)3ULL)));
  v287 = ((u64)(((u64)0ULL) - v286));
  v288 = (u64*)(v282 + (s64)((s64)v287));
  v289 = (u8*)v288;
  _ZdlPv(v289);
  *v278 = ((u64*)0);
  v290 = (u32*)(&(*a0).f0.f0.f0.f0.f0.f1);
  *v290 = ((u32)0ULL);
  v291 = (u64**)(&(*a0).f0.f0.f0.f1.f0.f0);
  *v291 = ((u64*)0);
  v292 = (u32*)(&(*a0).f0.f0.f0.f1.f0.f1);
  *v292 = ((u32)0ULL);
  *v281 = ((u64*)0);
  goto L58;
L58: ;
  v293 = ((u64)(v143 >> ((u64)6ULL)));
  v294 = (u64*)(v147 + (s64)((s64)v293));
  *v3 = v294;
  v295 = (u8**)&(*a0).f0.f0.f0.f0.f0.f0;
  *v295 = v146;
  v296 = (u32*)(&(*a0).f0.f0.f0.f0.f0.f1);
  *v296 = ((u32)0ULL);
  *v11 = v276;
  *v13 = v277;
  goto L59;
L59: ;
  return;
}

void _ZNSt8_Rb_treeIPN14OpenVolumeMesh19PropertyStorageBaseES2_St9_IdentityIS2_ESt4lessIS2_ESaIS2_EE12_M_erase_auxESt23_Rb_tree_const_iteratorIS2_ESA_(struct S16_class_std___Rb_tree_5* a0, struct S17_struct_std___Rb_tree_node_base* a1, struct S17_struct_std___Rb_tree_node_base* a2) {
  u8* v0;
  u8* v1;
  struct S17_struct_std___Rb_tree_node_base** v2;
  struct S17_struct_std___Rb_tree_node_base* v3;
  u1 v4;
  u8* v5;
  struct S17_struct_std___Rb_tree_node_base* v6;
  u1 v7;
  u8* v8;
  struct S21_struct_std___Rb_tree_node** v9;
  struct S21_struct_std___Rb_tree_node* v10;
  struct S65 v11;
  u8* v12;
  struct S17_struct_std___Rb_tree_node_base** v13;
  u8** v14;
  u8* v15;
  u8** v16;
  u8* v17;
  u64* v18;
  u1 v19;
  u8* v20;
  struct S17_struct_std___Rb_tree_node_base* v21;
  u8* v22;
  u64* v23;
  struct S17_struct_std___Rb_tree_node_base* v24; struct S17_struct_std___Rb_tree_node_base* v24_t;
  struct S17_struct_std___Rb_tree_node_base* v25;
  struct S17_struct_std___Rb_tree_node_base* v26;
  u8* v27;
  u64 v28;
  u64 v29;
  u1 v30;
L0: ;
  v0 = (u8*)(&(*a0).f0.f0.f0.f0);
  v1 = (u8*)&(*a0).f0.f1.f0.f2;
  v2 = (struct S17_struct_std___Rb_tree_node_base**)&(*a0).f0.f1.f0.f2;
  v3 = *v2;
  v4 = ((u8*)v3 == (u8*)a1);
  if (v4) {
    goto L1;
  } else {
    goto L5;
  }
L1: ;
  v5 = (u8*)&(*a0).f0.f1.f0.f0;
  v6 = (struct S17_struct_std___Rb_tree_node_base*)&(*a0).f0.f1.f0;
  v7 = ((u8*)v6 == (u8*)a2);
  if (v7) {
    goto L2;
  } else {
    goto L5;
  }
L2: ;
  v8 = (u8*)&(*a0).f0.f1.f0.f1;
  v9 = (struct S21_struct_std___Rb_tree_node**)&(*a0).f0.f1.f0.f1;
  v10 = *v9;
  _ZNSt8_Rb_treeIPN14OpenVolumeMesh19PropertyStorageBaseES2_St9_IdentityIS2_ESt4lessIS2_ESaIS2_EE8_M_eraseEPSt13_Rb_tree_nodeIS2_E(a0, v10);
  if (v_exc) {
    goto L3;
  }
  goto L4;
L3: ;
  v11.f0 = v_exc_obj;
  v11.f1 = 0;
  if (v11.f1 == 0) v11.f1 = 9999;
  if (v11.f1 == 0) return;
  v_exc = 0;
  v12 = v11.f0;
  __clang_call_terminate(v12);
  __CPROVER_assume(0);
L4: ;
  v13 = (struct S17_struct_std___Rb_tree_node_base**)&(*a0).f0.f1.f0.f1;
  *v13 = ((struct S17_struct_std___Rb_tree_node_base*)0);
  v14 = (u8**)&(*a0).f0.f1.f0.f2;
  *v14 = v5;
  v15 = (u8*)&(*a0).f0.f1.f0.f3;
  v16 = (u8**)&(*a0).f0.f1.f0.f3;
  *v16 = v5;
  v17 = (u8*)&(*a0).f0.f1.f1;
  v18 = (u64*)&(*a0).f0.f1.f1;
  *v18 = ((u64)0ULL);
  goto L8;
L5: ;
  v19 = ((u8*)a1 == (u8*)a2);
  if (v19) {
    goto L8;
  } else {
    goto L6;
  }
L6: ;
  v20 = (u8*)&(*a0).f0.f1.f0.f0;
  v21 = (struct S17_struct_std___Rb_tree_node_base*)&(*a0).f0.f1.f0;
  v22 = (u8*)&(*a0).f0.f1.f1;
  v23 = (u64*)&(*a0).f0.f1.f1;
  v24 = a1;
  goto L7;
L7: ;
  v25 = _ZSt18_Rb_tree_incrementPKSt18_Rb_tree_node_base(v24);
  v26 = _ZSt28_Rb_tree_rebalance_for_erasePSt18_Rb_tree_node_baseRS_(v24, v21);
  v27 = (u8*)v26;
  _ZdlPv(v27);
  v28 = *v23;
  v29 = ((u64)(v28 + ((u64)18446744073709551615ULL)));
  *v23 = v29;
  v30 = ((u8*)v25 == (u8*)a2);
  if (v30) {
    goto L8;
  } else {
    v24 = v25;
    goto L7;
  }
L8: ;
  return;
}

void __clang_call_terminate(u8* a0) {
  u8* v0;
L0: ;
  v0 = __cxa_begin_catch(a0);
  _ZSt9terminatev();
  __CPROVER_assume(0);
}

void _ZNSt8_Rb_treeINSt7__cxx1112basic_stringIcSt11char_traitsIcESaIcEEESt4pairIKS5_St10shared_ptrIN14OpenVolumeMesh2IO19PropertyEncoderBaseEEESt10_Select1stISD_ESt4lessIS5_ESaISD_EE8_M_eraseEPSt13_Rb_tree_nodeISD_E(struct S16_class_std___Rb_tree_5* a0, struct S18_struct_std___Rb_tree_node_33* a1) {
  u1 v0;
  struct S18_struct_std___Rb_tree_node_33* v1; struct S18_struct_std___Rb_tree_node_33* v1_t;
  struct S17_struct_std___Rb_tree_node_base** v2;
  struct S18_struct_std___Rb_tree_node_33** v3;
  struct S18_struct_std___Rb_tree_node_33* v4;
  struct S17_struct_std___Rb_tree_node_base** v5;
  struct S18_struct_std___Rb_tree_node_33** v6;
  struct S18_struct_std___Rb_tree_node_33* v7;
  struct S67_struct___gnu_cxx____aligned_membuf_34* v8;
  u8* v9;
  struct S20_class_std___Sp_counted_base** v10;
  struct S20_class_std___Sp_counted_base* v11;
  u1 v12;
  u32* v13;
  u64* v14;
  u64 v15;
  u1 v16;
  u32* v17;
  fnptr_t** v18;
  fnptr_t* v19;
  fnptr_t* v20;
  fnptr_t v21;
  fnptr_t* v22;
  fnptr_t* v23;
  fnptr_t v24;
  u8 v25;
  u1 v26;
  u32 v27;
  u32 v28;
  u32 v29;
  u32 v30;
  u32 v31; u32 v31_t;
  u1 v32;
  u8** v33;
  u8* v34;
  u8* v35;
  u1 v36;
  u8* v37;
  u1 v38;
L0: ;
  v0 = ((u8*)a1 == (u8*)((struct S18_struct_std___Rb_tree_node_33*)0));
  if (v0) {
    goto L12;
  } else {
    v1 = a1;
    goto L1;
  }
L1: ;
  v2 = (struct S17_struct_std___Rb_tree_node_base**)(&(*v1).f0.f3);
  v3 = (struct S18_struct_std___Rb_tree_node_33**)&(*v1).f0.f3;
  v4 = *v3;
  _ZNSt8_Rb_treeINSt7__cxx1112basic_stringIcSt11char_traitsIcESaIcEEESt4pairIKS5_St10shared_ptrIN14OpenVolumeMesh2IO19PropertyEncoderBaseEEESt10_Select1stISD_ESt4lessIS5_ESaISD_EE8_M_eraseEPSt13_Rb_tree_nodeISD_E(a0, v4);
  if (v_exc) return;
  v5 = (struct S17_struct_std___Rb_tree_node_base**)(&(*v1).f0.f2);
  v6 = (struct S18_struct_std___Rb_tree_node_33**)&(*v1).f0.f2;
  v7 = *v6;
  v8 = (struct S67_struct___gnu_cxx____aligned_membuf_34*)(&(*v1).f1);
  v9 = (u8*)(&(*v1).f1.f0.e[(s64)((s64)((u64)40ULL))]);
  v10 = (struct S20_class_std___Sp_counted_base**)v9;
  v11 = *v10;
  v12 = ((u8*)v11 == (u8*)((struct S20_class_std___Sp_counted_base*)0));
  if (v12) {
    goto L9;
  } else {
    goto L2;
  }
L2: ;
  v13 = (u32*)(&(*v11).f1);
  v14 = (u64*)v13;
  v15 = (((u64)(*v11).f1 << 0) | ((u64)(*v11).f2 << 32));
  v16 = (v15 == ((u64)4294967297ULL));
  if (v16) {
    goto L3;
  } else {
    goto L4;
  }
L3: ;
  *v13 = ((u32)0ULL);
  v17 = (u32*)(&(*v11).f2);
  *v17 = ((u32)0ULL);
  v18 = (fnptr_t**)&(*v11).f0;
  v19 = *v18;
  v20 = (fnptr_t*)(v19 + (s64)((s64)((u64)2ULL)));
  v21 = *v20;
  ((FT1)v21)(v11);
  v22 = *v18;
  v23 = (fnptr_t*)(v22 + (s64)((s64)((u64)3ULL)));
  v24 = *v23;
  ((FT1)v24)(v11);
  goto L9;
L4: ;
  v25 = *(&__libc_single_threaded);
  v26 = (v25 == ((u8)0ULL));
  if (v26) {
    goto L6;
  } else {
    goto L5;
  }
L5: ;
  v27 = *v13;
  v28 = ((u32)(v27 + ((u32)4294967295ULL)));
  *v13 = v28;
  v31 = v27;
  goto L7;
L6: ;
  v29 = *v13;
  v30 = ((u32)(v29 + ((u32)4294967295ULL)));
  *v13 = v30;
  v31 = v29;
  goto L7;
L7: ;
  v32 = (v31 == ((u32)1ULL));
  if (v32) {
    goto L8;
  } else {
    goto L9;
  }
L8: ;
  _ZNSt16_Sp_counted_baseILN9__gnu_cxx12_Lock_policyE2EE24_M_release_last_use_coldEv(v11);
  goto L9;
L9: ;
  v33 = (u8**)v8;
  v34 = *v33;
  v35 = (u8*)(&(*v1).f1.f0.e[(s64)((s64)((u64)16ULL))]);
  v36 = ((u8*)v34 == (u8*)v35);
  if (v36) {
    goto L11;
  } else {
    goto L10;
  }
L10: ;
  _ZdlPv(v34);
  goto L11;
L11: ;
  v37 = (u8*)v1;
  _ZdlPv(v37);
  v38 = ((u8*)v7 == (u8*)((struct S18_struct_std___Rb_tree_node_33*)0));
  if (v38) {
    goto L12;
  } else {
    v1 = v7;
    goto L1;
  }
L12: ;
  return;
}

void _ZNSt8_Rb_treeINSt7__cxx1112basic_stringIcSt11char_traitsIcESaIcEEESt4pairIKS5_St10shared_ptrIN14OpenVolumeMesh2IO19PropertyDecoderBaseEEESt10_Select1stISD_ESt4lessIS5_ESaISD_EE8_M_eraseEPSt13_Rb_tree_nodeISD_E(struct S16_class_std___Rb_tree_5* a0, struct S18_struct_std___Rb_tree_node_33* a1) {
  u1 v0;
  struct S18_struct_std___Rb_tree_node_33* v1; struct S18_struct_std___Rb_tree_node_33* v1_t;
  struct S17_struct_std___Rb_tree_node_base** v2;
  struct S18_struct_std___Rb_tree_node_33** v3;
  struct S18_struct_std___Rb_tree_node_33* v4;
  struct S17_struct_std___Rb_tree_node_base** v5;
  struct S18_struct_std___Rb_tree_node_33** v6;
  struct S18_struct_std___Rb_tree_node_33* v7;
  struct S67_struct___gnu_cxx____aligned_membuf_34* v8;
  u8* v9;
  struct S20_class_std___Sp_counted_base** v10;
  struct S20_class_std___Sp_counted_base* v11;
  u1 v12;
  u32* v13;
  u64* v14;
  u64 v15;
  u1 v16;
  u32* v17;
  fnptr_t** v18;
  fnptr_t* v19;
  fnptr_t* v20;
  fnptr_t v21;
  fnptr_t* v22;
  fnptr_t* v23;
  fnptr_t v24;
  u8 v25;
  u1 v26;
  u32 v27;
  u32 v28;
  u32 v29;
  u32 v30;
  u32 v31; u32 v31_t;
  u1 v32;
  u8** v33;
  u8* v34;
  u8* v35;
  u1 v36;
  u8* v37;
  u1 v38;
L0: ;
  v0 = ((u8*)a1 == (u8*)((struct S18_struct_std___Rb_tree_node_33*)0));
  if (v0) {
    goto L12;
  } else {
    v1 = a1;
    goto L1;
  }
L1: ;
  v2 = (struct S17_struct_std___Rb_tree_node_base**)(&(*v1).f0.f3);
  v3 = (struct S18_struct_std___Rb_tree_node_33**)&(*v1).f0.f3;
  v4 = *v3;
  _ZNSt8_Rb_treeINSt7__cxx1112basic_stringIcSt11char_traitsIcESaIcEEESt4pairIKS5_St10shared_ptrIN14OpenVolumeMesh2IO19PropertyDecoderBaseEEESt10_Select1stISD_ESt4lessIS5_ESaISD_EE8_M_eraseEPSt13_Rb_tree_nodeISD_E(a0, v4);
  if (v_exc) return;
  v5 = (struct S17_struct_std___Rb_tree_node_base**)(&(*v1).f0.f2);
  v6 = (struct S18_struct_std___Rb_tree_node_33**)&(*v1).f0.f2;
  v7 = *v6;
  v8 = (struct S67_struct___gnu_cxx____aligned_membuf_34*)(&(*v1).f1);
  v9 = (u8*)(&(*v1).f1.f0.e[(s64)((s64)((u64)40ULL))]);
  v10 = (struct S20_class_std___Sp_counted_base**)v9;
  v11 = *v10;
  v12 = ((u8*)v11 == (u8*)((struct S20_class_std___Sp_counted_base*)0));
  if (v12) {
    goto L9;
  } else {
    goto L2;
  }
L2: ;
  v13 = (u32*)(&(*v11).f1);
  v14 = (u64*)v13;
  v15 = (((u64)(*v11).f1 << 0) | ((u64)(*v11).f2 << 32));
  v16 = (v15 == ((u64)4294967297ULL));
  if (v16) {
    goto L3;
  } else {
    goto L4;
  }
L3: ;
  *v13 = ((u32)0ULL);
  v17 = (u32*)(&(*v11).f2);
  *v17 = ((u32)0ULL);
  v18 = (fnptr_t**)&(*v11).f0;
  v19 = *v18;
  v20 = (fnptr_t*)(v19 + (s64)((s64)((u64)2ULL)));
  v21 = *v20;
  ((FT1)v21)(v11);
  v22 = *v18;
  v23 = (fnptr_t*)(v22 + (s64)((s64)((u64)3ULL)));
  v24 = *v23;
  ((FT1)v24)(v11);
  goto L9;
L4: ;
  v25 = *(&__libc_single_threaded);
  v26 = (v25 == ((u8)0ULL));
  if (v26) {
    goto L6;
  } else {
    goto L5;
  }
L5: ;
  v27 = *v13;
  v28 = ((u32)(v27 + ((u32)4294967295ULL)));
  *v13 = v28;
  v31 = v27;
  goto L7;
L6: ;
  v29 = *v13;
  v30 = ((u32)(v29 + ((u32)4294967295ULL)));
  *v13 = v30;
  v31 = v29;
  goto L7;
L7: ;
  v32 = (v31 == ((u32)1ULL));
  if (v32) {
    goto L8;
  } else {
    goto L9;
  }
L8: ;
  _ZNSt16_Sp_counted_baseILN9__gnu_cxx12_Lock_policyE2EE24_M_release_last_use_coldEv(v11);
  goto L9;
L9: ;
  v33 = (u8**)v8;
  v34 = *v33;
  v35 = (u8*)(&(*v1).f1.f0.e[(s64)((s64)((u64)16ULL))]);
  v36 = ((u8*)v34 == (u8*)v35);
  if (v36) {
    goto L11;
  } else {
    goto L10;
  }
L10: ;
  _ZdlPv(v34);
  goto L11;
L11: ;
  v37 = (u8*)v1;
  _ZdlPv(v37);
  v38 = ((u8*)v7 == (u8*)((struct S18_struct_std___Rb_tree_node_33*)0));
  if (v38) {
    goto L12;
  } else {
    v1 = v7;
    goto L1;
  }
L12: ;
  return;
}

void _ZN14OpenVolumeMesh16PropertyStorageTIbED2Ev(struct S12_class_OpenVolumeMesh__PropertyStorageT* a0) {
  fnptr_t** v0;
  u64** v1;
  u64* v2;
  u1 v3;
  u64** v4;
  u64* v5;
  u64 v6;
  u64 v7;
  u64 v8;
  u64 v9;
  u64 v10;
  u64* v11;
  u8* v12;
  u32* v13;
  u64** v14;
  u32* v15;
  fnptr_t** v16;
  u8** v17;
  u8* v18;
  struct S64_union_anon* v19;
  u8* v20;
  u1 v21;
  u8** v22;
  u8* v23;
  struct S64_union_anon* v24;
  u8* v25;
  u1 v26;
  struct S19_class_OpenVolumeMesh__detail__Tracked* v27;
  struct S20_class_std___Sp_counted_base** v28;
  struct S20_class_std___Sp_counted_base* v29;
  u1 v30;
  u32* v31;
  u8 v32;
  u1 v33;
  u32 v34;
  u32 v35;
  u32 v36;
  u32 v37;
  u32 v38; u32 v38_t;
  u1 v39;
  fnptr_t** v40;
  fnptr_t* v41;
  fnptr_t* v42;
  fnptr_t v43;
L0: ;
  v0 = (fnptr_t**)(&(*a0).f0.f0.f0);
  *v0 = ((fnptr_t*)((u8**)(&(*(&_ZTVN14OpenVolumeMesh16PropertyStorageTIbEE)).f0.e[(s64)((s64)((u64)2ULL))])));
  v1 = (u64**)(&(*a0).f2.f0.f0.f0.f0.f0.f0);
  v2 = *v1;
  v3 = ((u8*)v2 == (u8*)((u64*)0));
  if (v3) {
    goto L2;
  } else {
    goto L1;
  }
L1: ;
  v4 = (u64**)(&(*a0).f2.f0.f0.f0.f2);
  v5 = *v4;
  v6 = ((u64)((u64)v5));
  v7 = ((u64)((u64)v2));
  v8 = v_pdiff((u8*)v5, (u8*)v2);
  v9 = ((u64)(((s64)v8) >> ((u64)3ULL)));
  v10 = ((u64)(((u64)0ULL) - v9));
  v11 = (u64*)(v5 + (s64)((s64)v10));
  v12 = (u8*)v11;
  _ZdlPv(v12);
  *v1 = ((u64*)0);
  v13 = (u32*)(&(*a0).f2.f0.f0.f0.f0.f0.f1);
  *v13 = ((u32)0ULL);
  v14 = (u64**)(&(*a0).f2.f0.f0.f0.f1.f0.f0);
  *v14 = ((u64*)0);
  v15 = (u32*)(&(*a0).f2.f0.f0.f0.f1.f0.f1);
  *v15 = ((u32)0ULL);
  *v4 = ((u64*)0);
  goto L2;
L2: ;
  v16 = (fnptr_t**)(&(*a0).f0.f0.f0);
  *v16 = ((fnptr_t*)((u8**)(&(*(&_ZTVN14OpenVolumeMesh19PropertyStorageBaseE)).f0.e[(s64)((s64)((u64)2ULL))])));
  v17 = (u8**)(&(*a0).f0.f3.f0.f0);
  v18 = *v17;
  v19 = (struct S64_union_anon*)(&(*a0).f0.f3.f2);
  v20 = (u8*)v19;
  v21 = ((u8*)v18 == (u8*)v20);
  if (v21) {
    goto L4;
  } else {
    goto L3;
  }
L3: ;
  _ZdlPv(v18);
  goto L4;
L4: ;
  v22 = (u8**)(&(*a0).f0.f2.f0.f0);
  v23 = *v22;
  v24 = (struct S64_union_anon*)(&(*a0).f0.f2.f2);
  v25 = (u8*)v24;
  v26 = ((u8*)v23 == (u8*)v25);
  if (v26) {
    goto L6;
  } else {
    goto L5;
  }
L5: ;
  _ZdlPv(v23);
  goto L6;
L6: ;
  v27 = (struct S19_class_OpenVolumeMesh__detail__Tracked*)(&(*a0).f0.f0);
  _ZN14OpenVolumeMesh6detail7TrackedINS_19PropertyStorageBaseEED2Ev(v27);
  v28 = (struct S20_class_std___Sp_counted_base**)(&(*a0).f0.f1.f0.f0.f1.f0);
  v29 = *v28;
  v30 = ((u8*)v29 == (u8*)((struct S20_class_std___Sp_counted_base*)0));
  if (v30) {
    goto L12;
  } else {
    goto L7;
  }
L7: ;
  v31 = (u32*)(&(*v29).f2);
  v32 = *(&__libc_single_threaded);
  v33 = (v32 == ((u8)0ULL));
  if (v33) {
    goto L9;
  } else {
    goto L8;
  }
L8: ;
  v34 = *v31;
  v35 = ((u32)(v34 + ((u32)4294967295ULL)));
  *v31 = v35;
  v38 = v34;
  goto L10;
L9: ;
  v36 = *v31;
  v37 = ((u32)(v36 + ((u32)4294967295ULL)));
  *v31 = v37;
  v38 = v36;
  goto L10;
L10: ;
  v39 = (v38 == ((u32)1ULL));
  if (v39) {
    goto L11;
  } else {
    goto L12;
  }
L11: ;
  v40 = (fnptr_t**)&(*v29).f0;
  v41 = *v40;
  v42 = (fnptr_t*)(v41 + (s64)((s64)((u64)3ULL)));
  v43 = *v42;
  ((FT1)v43)(v29);
  goto L12;
L12: ;
  return;
}

void _ZN14OpenVolumeMesh2IO14PropertyCodecsD2Ev(struct S11_class_OpenVolumeMesh__IO__PropertyCodecs* a0) {
  struct S43_class_std__map* v0;
  struct S16_class_std___Rb_tree_5* v1;
  u8* v2;
  u8* v3;
  struct S18_struct_std___Rb_tree_node_33** v4;
  struct S18_struct_std___Rb_tree_node_33* v5;
  struct S65 v6;
  u8* v7;
  struct S16_class_std___Rb_tree_5* v8;
  u8* v9;
  u8* v10;
  struct S18_struct_std___Rb_tree_node_33** v11;
  struct S18_struct_std___Rb_tree_node_33* v12;
  struct S65 v13;
  u8* v14;
L0: ;
  v0 = (struct S43_class_std__map*)(&(*a0).f1);
  v1 = (struct S16_class_std___Rb_tree_5*)(&(*v0).f0);
  v2 = (u8*)(&(*v0).f0.f0.f0.f0.f0);
  v3 = (u8*)&(*a0).f1.f0.f0.f1.f0.f1;
  v4 = (struct S18_struct_std___Rb_tree_node_33**)&(*a0).f1.f0.f0.f1.f0.f1;
  v5 = *v4;
  _ZNSt8_Rb_treeINSt7__cxx1112basic_stringIcSt11char_traitsIcESaIcEEESt4pairIKS5_St10shared_ptrIN14OpenVolumeMesh2IO19PropertyEncoderBaseEEESt10_Select1stISD_ESt4lessIS5_ESaISD_EE8_M_eraseEPSt13_Rb_tree_nodeISD_E(v1, v5);
  if (v_exc) {
    goto L1;
  }
  goto L2;
L1: ;
  v6.f0 = v_exc_obj;
  v6.f1 = 0;
  if (v6.f1 == 0) v6.f1 = 9999;
  if (v6.f1 == 0) return;
  v_exc = 0;
  v7 = v6.f0;
  __clang_call_terminate(v7);
  __CPROVER_assume(0);
L2: ;
  v8 = (struct S16_class_std___Rb_tree_5*)(&(*a0).f0.f0);
  v9 = (u8*)(&(*a0).f0.f0.f0.f0.f0.f0);
  v10 = (u8*)&(*a0).f0.f0.f0.f1.f0.f1;
  v11 = (struct S18_struct_std___Rb_tree_node_33**)&(*a0).f0.f0.f0.f1.f0.f1;
  v12 = *v11;
  _ZNSt8_Rb_treeINSt7__cxx1112basic_stringIcSt11char_traitsIcESaIcEEESt4pairIKS5_St10shared_ptrIN14OpenVolumeMesh2IO19PropertyDecoderBaseEEESt10_Select1stISD_ESt4lessIS5_ESaISD_EE8_M_eraseEPSt13_Rb_tree_nodeISD_E(v8, v12);
  if (v_exc) {
    goto L3;
  }
  goto L4;
L3: ;
  v13.f0 = v_exc_obj;
  v13.f1 = 0;
  if (v13.f1 == 0) v13.f1 = 9999;
  if (v13.f1 == 0) return;
  v_exc = 0;
  v14 = v13.f0;
  __clang_call_terminate(v14);
  __CPROVER_assume(0);
L4: ;
  return;
}

void _ZN14OpenVolumeMesh6detail7TrackedINS_19PropertyStorageBaseEED2Ev(struct S19_class_OpenVolumeMesh__detail__Tracked* a0) {
  fnptr_t** v0;
  struct S13_class_OpenVolumeMesh__detail__Tracker** v1;
  struct S13_class_OpenVolumeMesh__detail__Tracker* v2;
  u1 v3;
  struct S22_class_OpenVolumeMesh__PropertyStorageBas* v4;
  struct S43_class_std__map* v5;
  u8* v6;
  u8* v7;
  struct S21_struct_std___Rb_tree_node** v8;
  u8* v9;
  struct S17_struct_std___Rb_tree_node_base* v10;
  struct S21_struct_std___Rb_tree_node* v11;
  u1 v12;
  struct S21_struct_std___Rb_tree_node* v13; struct S21_struct_std___Rb_tree_node* v13_t;
  struct S17_struct_std___Rb_tree_node_base* v14; struct S17_struct_std___Rb_tree_node_base* v14_t;
  struct S66_struct___gnu_cxx____aligned_membuf* v15;
  struct S22_class_OpenVolumeMesh__PropertyStorageBas** v16;
  struct S22_class_OpenVolumeMesh__PropertyStorageBas* v17;
  u1 v18;
  struct S17_struct_std___Rb_tree_node_base** v19;
  u1 v20;
  struct S17_struct_std___Rb_tree_node_base* v21;
  struct S17_struct_std___Rb_tree_node_base** v22;
  struct S21_struct_std___Rb_tree_node** v23;
  struct S21_struct_std___Rb_tree_node* v24;
  struct S17_struct_std___Rb_tree_node_base** v25;
  struct S21_struct_std___Rb_tree_node** v26;
  struct S21_struct_std___Rb_tree_node* v27;
  u1 v28;
  struct S21_struct_std___Rb_tree_node* v29; struct S21_struct_std___Rb_tree_node* v29_t;
  struct S17_struct_std___Rb_tree_node_base* v30; struct S17_struct_std___Rb_tree_node_base* v30_t;
  struct S66_struct___gnu_cxx____aligned_membuf* v31;
  struct S22_class_OpenVolumeMesh__PropertyStorageBas** v32;
  struct S22_class_OpenVolumeMesh__PropertyStorageBas* v33;
  u1 v34;
  struct S17_struct_std___Rb_tree_node_base** v35;
  struct S17_struct_std___Rb_tree_node_base* v36;
  struct S17_struct_std___Rb_tree_node_base** v37;
  struct S17_struct_std___Rb_tree_node_base* v38;
  struct S17_struct_std___Rb_tree_node_base** v39;
  struct S21_struct_std___Rb_tree_node** v40;
  struct S21_struct_std___Rb_tree_node* v41;
  u1 v42;
  struct S17_struct_std___Rb_tree_node_base* v43; struct S17_struct_std___Rb_tree_node_base* v43_t;
  u1 v44;
  struct S21_struct_std___Rb_tree_node* v45; struct S21_struct_std___Rb_tree_node* v45_t;
  struct S17_struct_std___Rb_tree_node_base* v46; struct S17_struct_std___Rb_tree_node_base* v46_t;
  struct S66_struct___gnu_cxx____aligned_membuf* v47;
  struct S22_class_OpenVolumeMesh__PropertyStorageBas** v48;
  struct S22_class_OpenVolumeMesh__PropertyStorageBas* v49;
  u1 v50;
  struct S17_struct_std___Rb_tree_node_base* v51;
  struct S17_struct_std___Rb_tree_node_base** v52;
  struct S17_struct_std___Rb_tree_node_base** v53;
  struct S17_struct_std___Rb_tree_node_base* v54;
  struct S17_struct_std___Rb_tree_node_base** v55;
  struct S21_struct_std___Rb_tree_node** v56;
  struct S21_struct_std___Rb_tree_node* v57;
  u1 v58;
  struct S17_struct_std___Rb_tree_node_base* v59; struct S17_struct_std___Rb_tree_node_base* v59_t;
  struct S17_struct_std___Rb_tree_node_base** v60; struct S17_struct_std___Rb_tree_node_base** v60_t;
  struct S21_struct_std___Rb_tree_node** v61;
  struct S21_struct_std___Rb_tree_node* v62;
  u1 v63;
  struct S17_struct_std___Rb_tree_node_base* v64; struct S17_struct_std___Rb_tree_node_base* v64_t;
  struct S17_struct_std___Rb_tree_node_base* v65; struct S17_struct_std___Rb_tree_node_base* v65_t;
  struct S16_class_std___Rb_tree_5* v66;
  struct S65 v67;
  u8* v68;
L0: ;
  v0 = (fnptr_t**)(&(*a0).f0);
  *v0 = ((fnptr_t*)((u8**)(&(*(&_ZTVN14OpenVolumeMesh6detail7TrackedINS_19PropertyStorageBaseEEE)).f0.e[(s64)((s64)((u64)2ULL))])));
  v1 = (struct S13_class_OpenVolumeMesh__detail__Tracker**)(&(*a0).f1);
  v2 = *v1;
  v3 = ((u8*)v2 == (u8*)((struct S13_class_OpenVolumeMesh__detail__Tracker*)0));
  if (v3) {
    goto L11;
  } else {
    goto L1;
  }
L1: ;
  v4 = (struct S22_class_OpenVolumeMesh__PropertyStorageBas*)a0;
  v5 = (struct S43_class_std__map*)(&(*v2).f1);
  v6 = (u8*)(&(*v5).f0.f0.f0.f0.f0);
  v7 = (u8*)&(*v2).f1.f0.f0.f1.f0.f1;
  v8 = (struct S21_struct_std___Rb_tree_node**)&(*v2).f1.f0.f0.f1.f0.f1;
  v9 = (u8*)&(*v2).f1.f0.f0.f1.f0.f0;
  v10 = (struct S17_struct_std___Rb_tree_node_base*)&(*v2).f1.f0.f0.f1.f0;
  v11 = *v8;
  v12 = ((u8*)v11 == (u8*)((struct S21_struct_std___Rb_tree_node*)0));
  if (v12) {
    v64_t = v10;
    v65_t = v10;
    v64 = v64_t;
    v65 = v65_t;
    goto L10;
  } else {
    v13_t = v11;
    v14_t = v10;
    v13 = v13_t;
    v14 = v14_t;
    goto L2;
  }
L2: ;
  v15 = (struct S66_struct___gnu_cxx____aligned_membuf*)(&(*v13).f1);
  v16 = (struct S22_class_OpenVolumeMesh__PropertyStorageBas**)v15;
  v17 = *v16;
  v18 = v_plt((u8*)v17, (u8*)v4);
  if (v18) {
    goto L3;
  } else {
    goto L4;
  }
L3: ;
  v19 = (struct S17_struct_std___Rb_tree_node_base**)(&(*v13).f0.f3);
  v59_t = v14;
  v60_t = v19;
  v59 = v59_t;
  v60 = v60_t;
  goto L9;
L4: ;
  v20 = v_plt((u8*)v4, (u8*)v17);
  v21 = (struct S17_struct_std___Rb_tree_node_base*)(&(*v13).f0);
  v22 = (struct S17_struct_std___Rb_tree_node_base**)(&(*v13).f0.f2);
  if (v20) {
    v59_t = v21;
    v60_t = v22;
    v59 = v59_t;
    v60 = v60_t;
    goto L9;
  } else {
    goto L5;
  }
L5: ;
  v23 = (struct S21_struct_std___Rb_tree_node**)&(*v13).f0.f2;
  v24 = *v23;
  v25 = (struct S17_struct_std___Rb_tree_node_base**)(&(*v13).f0.f3);
  v26 = (struct S21_struct_std___Rb_tree_node**)&(*v13).f0.f3;
  v27 = *v26;
  v28 = ((u8*)v24 == (u8*)((struct S21_struct_std___Rb_tree_node*)0));
  if (v28) {
    v43 = v21;
    goto L7;
  } else {
    v29_t = v24;
    v30_t = v21;
    v29 = v29_t;
    v30 = v30_t;
    goto L6;
  }
L6: ;
  v31 = (struct S66_struct___gnu_cxx____aligned_membuf*)(&(*v29).f1);
  v32 = (struct S22_class_OpenVolumeMesh__PropertyStorageBas**)v31;
  v33 = *v32;
  v34 = v_plt((u8*)v33, (u8*)v4);
  v35 = (struct S17_struct_std___Rb_tree_node_base**)(&(*v29).f0.f3);
  v36 = (struct S17_struct_std___Rb_tree_node_base*)(&(*v29).f0);
  v37 = (struct S17_struct_std___Rb_tree_node_base**)(&(*v29).f0.f2);
  v38 = (v34 ? v30 : v36);
  v39 = (v34 ? v35 : v37);
  v40 = (struct S21_struct_std___Rb_tree_node**)v39;
  v41 = *v40;
  v42 = ((u8*)v41 == (u8*)((struct S21_struct_std___Rb_tree_node*)0));
  if (v42) {
    v43 = v38;
    goto L7;
  } else {
    v29_t = v41;
    v30_t = v38;
    v29 = v29_t;
    v30 = v30_t;
    goto L6;
  }
L7: ;
  v44 = ((u8*)v27 == (u8*)((struct S21_struct_std___Rb_tree_node*)0));
  if (v44) {
    v64_t = v43;
    v65_t = v14;
    v64 = v64_t;
    v65 = v65_t;
    goto L10;
  } else {
    v45_t = v27;
    v46_t = v14;
    v45 = v45_t;
    v46 = v46_t;
    goto L8;
  }
L8: ;
  v47 = (struct S66_struct___gnu_cxx____aligned_membuf*)(&(*v45).f1);
  v48 = (struct S22_class_OpenVolumeMesh__PropertyStorageBas**)v47;
  v49 = *v48;
  v50 = v_plt((u8*)v4, (u8*)v49);
  v51 = (struct S17_struct_std___Rb_tree_node_base*)(&(*v45).f0);
  v52 = (struct S17_struct_std___Rb_tree_node_base**)(&(*v45).f0.f2);
  v53 = (struct S17_struct_std___Rb_tree_node_base**)(&(*v45).f0.f3);
  v54 = (v50 ? v51 : v46);
  v55 = (v50 ? v52 : v53);
  v56 = (struct S21_struct_std___Rb_tree_node**)v55;
  v57 = *v56;
  v58 = ((u8*)v57 == (u8*)((struct S21_struct_std___Rb_tree_node*)0));
  if (v58) {
    v64_t = v43;
    v65_t = v54;
    v64 = v64_t;
    v65 = v65_t;
    goto L10;
  } else {
    v45_t = v57;
    v46_t = v54;
    v45 = v45_t;
    v46 = v46_t;
    goto L8;
  }
L9: ;
  v61 = (struct S21_struct_std___Rb_tree_node**)v60;
  v62 = *v61;
  v63 = ((u8*)v62 == (u8*)((struct S21_struct_std___Rb_tree_node*)0));
  if (v63) {
    v64_t = v59;
    v65_t = v59;
    v64 = v64_t;
    v65 = v65_t;
    goto L10;
  } else {
    v13_t = v62;
    v14_t = v59;
    v13 = v13_t;
    v14 = v14_t;
    goto L2;
  }
L10: ;
  v66 = (struct S16_class_std___Rb_tree_5*)(&(*v5).f0);
  _ZNSt8_Rb_treeIPN14OpenVolumeMesh19PropertyStorageBaseES2_St9_IdentityIS2_ESt4lessIS2_ESaIS2_EE12_M_erase_auxESt23_Rb_tree_const_iteratorIS2_ESA_(v66, v64, v65);
  if (v_exc) {
    goto L12;
  }
  goto L11;
L11: ;
  *v1 = ((struct S13_class_OpenVolumeMesh__detail__Tracker*)0);
  return;
L12: ;
  v67.f0 = v_exc_obj;
  v67.f1 = 0;
  if (v67.f1 == 0) v67.f1 = 9999;
  if (v67.f1 == 0) return;
  v_exc = 0;
  v68 = v67.f0;
  __clang_call_terminate(v68);
  __CPROVER_assume(0);
}

void _ZNSt16_Sp_counted_baseILN9__gnu_cxx12_Lock_policyE2EE24_M_release_last_use_coldEv(struct S20_class_std___Sp_counted_base* a0) {
  fnptr_t** v0;
  fnptr_t* v1;
  fnptr_t* v2;
  fnptr_t v3;
  u32* v4;
  u8 v5;
  u1 v6;
  u32 v7;
  u32 v8;
  u32 v9;
  u32 v10;
  u32 v11; u32 v11_t;
  u1 v12;
  fnptr_t* v13;
  fnptr_t* v14;
  fnptr_t v15;
L0: ;
  v0 = (fnptr_t**)&(*a0).f0;
  v1 = *v0;
  v2 = (fnptr_t*)(v1 + (s64)((s64)((u64)2ULL)));
  v3 = *v2;
  ((FT1)v3)(a0);
  v4 = (u32*)(&(*a0).f2);
  v5 = *(&__libc_single_threaded);
  v6 = (v5 == ((u8)0ULL));
  if (v6) {
    goto L2;
  } else {
    goto L1;
  }
L1: ;
  v7 = *v4;
  v8 = ((u32)(v7 + ((u32)4294967295ULL)));
  *v4 = v8;
  v11 = v7;
  goto L3;
L2: ;
  v9 = *v4;
  v10 = ((u32)(v9 + ((u32)4294967295ULL)));
  *v4 = v10;
  v11 = v9;
  goto L3;
L3: ;
  v12 = (v11 == ((u32)1ULL));
  if (v12) {
    goto L4;
  } else {
    goto L5;
  }
L4: ;
  v13 = *v0;
  v14 = (fnptr_t*)(v13 + (s64)((s64)((u64)3ULL)));
  v15 = *v14;
  ((FT1)v15)(a0);
  goto L5;
L5: ;
  return;
}

void _ZNSt8_Rb_treeIPN14OpenVolumeMesh19PropertyStorageBaseES2_St9_IdentityIS2_ESt4lessIS2_ESaIS2_EE8_M_eraseEPSt13_Rb_tree_nodeIS2_E(struct S16_class_std___Rb_tree_5* a0, struct S21_struct_std___Rb_tree_node* a1) {
  u1 v0;
  struct S21_struct_std___Rb_tree_node* v1; struct S21_struct_std___Rb_tree_node* v1_t;
  struct S17_struct_std___Rb_tree_node_base** v2;
  struct S21_struct_std___Rb_tree_node** v3;
  struct S21_struct_std___Rb_tree_node* v4;
  struct S17_struct_std___Rb_tree_node_base** v5;
  struct S21_struct_std___Rb_tree_node** v6;
  struct S21_struct_std___Rb_tree_node* v7;
  u8* v8;
  u1 v9;
L0: ;
  v0 = ((u8*)a1 == (u8*)((struct S21_struct_std___Rb_tree_node*)0));
  if (v0) {
    goto L2;
  } else {
    v1 = a1;
    goto L1;
  }
L1: ;
  v2 = (struct S17_struct_std___Rb_tree_node_base**)(&(*v1).f0.f3);
  v3 = (struct S21_struct_std___Rb_tree_node**)&(*v1).f0.f3;
  v4 = *v3;
  _ZNSt8_Rb_treeIPN14OpenVolumeMesh19PropertyStorageBaseES2_St9_IdentityIS2_ESt4lessIS2_ESaIS2_EE8_M_eraseEPSt13_Rb_tree_nodeIS2_E(a0, v4);
  if (v_exc) return;
  v5 = (struct S17_struct_std___Rb_tree_node_base**)(&(*v1).f0.f2);
  v6 = (struct S21_struct_std___Rb_tree_node**)&(*v1).f0.f2;
  v7 = *v6;
  v8 = (u8*)v1;
  _ZdlPv(v8);
  v9 = ((u8*)v7 == (u8*)((struct S21_struct_std___Rb_tree_node*)0));
  if (v9) {
    goto L2;
  } else {
    v1 = v7;
    goto L1;
  }
L2: ;
  return;
}

void _ZN14OpenVolumeMesh6detail7TrackedINS_19PropertyStorageBaseEED0Ev(struct S19_class_OpenVolumeMesh__detail__Tracked* a0) {
  u8* v0;
L0: ;
  _ZN14OpenVolumeMesh6detail7TrackedINS_19PropertyStorageBaseEED2Ev(a0);
  v0 = (u8*)a0;
  _ZdlPv(v0);
  return;
}

void _ZN14OpenVolumeMesh19PropertyStorageBaseD2Ev(struct S22_class_OpenVolumeMesh__PropertyStorageBas* a0) {
  fnptr_t** v0;
  u8** v1;
  u8* v2;
  struct S64_union_anon* v3;
  u8* v4;
  u1 v5;
  u8** v6;
  u8* v7;
  struct S64_union_anon* v8;
  u8* v9;
  u1 v10;
  struct S19_class_OpenVolumeMesh__detail__Tracked* v11;
  struct S20_class_std___Sp_counted_base** v12;
  struct S20_class_std___Sp_counted_base* v13;
  u1 v14;
  u32* v15;
  u8 v16;
  u1 v17;
  u32 v18;
  u32 v19;
  u32 v20;
  u32 v21;
  u32 v22; u32 v22_t;
  u1 v23;
  fnptr_t** v24;
  fnptr_t* v25;
  fnptr_t* v26;
  fnptr_t v27;
L0: ;
  v0 = (fnptr_t**)(&(*a0).f0.f0);
  *v0 = ((fnptr_t*)((u8**)(&(*(&_ZTVN14OpenVolumeMesh19PropertyStorageBaseE)).f0.e[(s64)((s64)((u64)2ULL))])));
  v1 = (u8**)(&(*a0).f3.f0.f0);
  v2 = *v1;
  v3 = (struct S64_union_anon*)(&(*a0).f3.f2);
  v4 = (u8*)v3;
  v5 = ((u8*)v2 == (u8*)v4);
  if (v5) {
    goto L2;
  } else {
    goto L1;
  }
L1: ;
  _ZdlPv(v2);
  goto L2;
L2: ;
  v6 = (u8**)(&(*a0).f2.f0.f0);
  v7 = *v6;
  v8 = (struct S64_union_anon*)(&(*a0).f2.f2);
  v9 = (u8*)v8;
  v10 = ((u8*)v7 == (u8*)v9);
  if (v10) {
    goto L4;
  } else {
    goto L3;
  }
L3: ;
  _ZdlPv(v7);
  goto L4;
L4: ;
  v11 = (struct S19_class_OpenVolumeMesh__detail__Tracked*)(&(*a0).f0);
  _ZN14OpenVolumeMesh6detail7TrackedINS_19PropertyStorageBaseEED2Ev(v11);
  v12 = (struct S20_class_std___Sp_counted_base**)(&(*a0).f1.f0.f0.f1.f0);
  v13 = *v12;
  v14 = ((u8*)v13 == (u8*)((struct S20_class_std___Sp_counted_base*)0));
  if (v14) {
    goto L10;
  } else {
    goto L5;
  }
L5: ;
  v15 = (u32*)(&(*v13).f2);
  v16 = *(&__libc_single_threaded);
  v17 = (v16 == ((u8)0ULL));
  if (v17) {
    goto L7;
  } else {
    goto L6;
  }
L6: ;
  v18 = *v15;
  v19 = ((u32)(v18 + ((u32)4294967295ULL)));
  *v15 = v19;
  v22 = v18;
  goto L8;
L7: ;
  v20 = *v15;
  v21 = ((u32)(v20 + ((u32)4294967295ULL)));
  *v15 = v21;
  v22 = v20;
  goto L8;
L8: ;
  v23 = (v22 == ((u32)1ULL));
  if (v23) {
    goto L9;
  } else {
    goto L10;
  }
L9: ;
  v24 = (fnptr_t**)&(*v13).f0;
  v25 = *v24;
  v26 = (fnptr_t*)(v25 + (s64)((s64)((u64)3ULL)));
  v27 = *v26;
  ((FT1)v27)(v13);
  goto L10;
L10: ;
  return;
}

void _ZN14OpenVolumeMesh19PropertyStorageBaseD0Ev(struct S22_class_OpenVolumeMesh__PropertyStorageBas* a0) {
L0: ;
  __CPROVER_assert(0, "llvm.trap"); __CPROVER_assume(0);
  __CPROVER_assume(0);
}

void _ZNK14OpenVolumeMesh19PropertyStorageBase9serializeERSo(struct S22_class_OpenVolumeMesh__PropertyStorageBas* a0, struct S23_class_std__basic_ostream* a1) {
L0: ;
  return;
}

void _ZN14OpenVolumeMesh19PropertyStorageBase11deserializeERSi(struct S22_class_OpenVolumeMesh__PropertyStorageBas* a0, struct S24_class_std__basic_istream* a1) {
L0: ;
  return;
}

void _ZN14OpenVolumeMesh16PropertyStorageTIbED0Ev(struct S12_class_OpenVolumeMesh__PropertyStorageT* a0) {
  fnptr_t** v0;
  u64** v1;
  u64* v2;
  u1 v3;
  u64** v4;
  u64* v5;
  u64 v6;
  u64 v7;
  u64 v8;
  u64 v9;
  u64 v10;
  u64* v11;
  u8* v12;
  u32* v13;
  u64** v14;
  u32* v15;
  u8** v16;
  u8* v17;
  struct S64_union_anon* v18;
  u8* v19;
  u1 v20;
  u8** v21;
  u8* v22;
  struct S64_union_anon* v23;
  u8* v24;
  u1 v25;
  struct S19_class_OpenVolumeMesh__detail__Tracked* v26;
  struct S20_class_std___Sp_counted_base** v27;
  struct S20_class_std___Sp_counted_base* v28;
  u1 v29;
  u32* v30;
  u8 v31;
  u1 v32;
  u32 v33;
  u32 v34;
  u32 v35;
  u32 v36;
  u32 v37; u32 v37_t;
  u1 v38;
  fnptr_t** v39;
  fnptr_t* v40;
  fnptr_t* v41;
  fnptr_t v42;
  u8* v43;
L0: ;
  v0 = (fnptr_t**)(&(*a0).f0.f0.f0);
  *v0 = ((fnptr_t*)((u8**)(&(*(&_ZTVN14OpenVolumeMesh16PropertyStorageTIbEE)).f0.e[(s64)((s64)((u64)2ULL))])));
  v1 = (u64**)(&(*a0).f2.f0.f0.f0.f0.f0.f0);
  v2 = *v1;
  v3 = ((u8*)v2 == (u8*)((u64*)0));
  if (v3) {
    goto L2;
  } else {
    goto L1;
  }
L1: ;
  v4 = (u64**)(&(*a0).f2.f0.f0.f0.f2);
  v5 = *v4;
  v6 = ((u64)((u64)v5));
  v7 = ((u64)((u64)v2));
  v8 = v_pdiff((u8*)v5, (u8*)v2);
  v9 = ((u64)(((s64)v8) >> ((u64)3ULL)));
  v10 = ((u64)(((u64)0ULL) - v9));
  v11 = (u64*)(v5 + (s64)((s64)v10));
  v12 = (u8*)v11;
  _ZdlPv(v12);
  *v1 = ((u64*)0);
  v13 = (u32*)(&(*a0).f2.f0.f0.f0.f0.f0.f1);
  *v13 = ((u32)0ULL);
  v14 = (u64**)(&(*a0).f2.f0.f0.f0.f1.f0.f0);
  *v14 = ((u64*)0);
  v15 = (u32*)(&(*a0).f2.f0.f0.f0.f1.f0.f1);
  *v15 = ((u32)0ULL);
  *v4 = ((u64*)0);
  goto L2;
L2: ;
  *v0 = ((fnptr_t*)((u8**)(&(*(&_ZTVN14OpenVolumeMesh19PropertyStorageBaseE)).f0.e[(s64)((s64)((u64)2ULL))])));
  v16 = (u8**)(&(*a0).f0.f3.f0.f0);
  v17 = *v16;
  v18 = (struct S64_union_anon*)(&(*a0).f0.f3.f2);
  v19 = (u8*)v18;
  v20 = ((u8*)v17 == (u8*)v19);
  if (v20) {
    goto L4;
  } else {
    goto L3;
  }
L3: ;
  _ZdlPv(v17);
  goto L4;
L4: ;
  v21 = (u8**)(&(*a0).f0.f2.f0.f0);
  v22 = *v21;
  v23 = (struct S64_union_anon*)(&(*a0).f0.f2.f2);
  v24 = (u8*)v23;
  v25 = ((u8*)v22 == (u8*)v24);
  if (v25) {
    goto L6;
  } else {
    goto L5;
  }
L5: ;
  _ZdlPv(v22);
  goto L6;
L6: ;
  v26 = (struct S19_class_OpenVolumeMesh__detail__Tracked*)(&(*a0).f0.f0);
  _ZN14OpenVolumeMesh6detail7TrackedINS_19PropertyStorageBaseEED2Ev(v26);
  v27 = (struct S20_class_std___Sp_counted_base**)(&(*a0).f0.f1.f0.f0.f1.f0);
  v28 = *v27;
  v29 = ((u8*)v28 == (u8*)((struct S20_class_std___Sp_counted_base*)0));
  if (v29) {
    goto L12;
  } else {
    goto L7;
  }
L7: ;
  v30 = (u32*)(&(*v28).f2);
  v31 = *(&__libc_single_threaded);
  v32 = (v31 == ((u8)0ULL));
  if (v32) {
    goto L9;
  } else {
    goto L8;
  }
L8: ;
  v33 = *v30;
  v34 = ((u32)(v33 + ((u32)4294967295ULL)));
  *v30 = v34;
  v37 = v33;
  goto L10;
L9: ;
  v35 = *v30;
  v36 = ((u32)(v35 + ((u32)4294967295ULL)));
  *v30 = v36;
  v37 = v35;
  goto L10;
L10: ;
  v38 = (v37 == ((u32)1ULL));
  if (v38) {
    goto L11;
  } else {
    goto L12;
  }
L11: ;
  v39 = (fnptr_t**)&(*v28).f0;
  v40 = *v39;
  v41 = (fnptr_t*)(v40 + (s64)((s64)((u64)3ULL)));
  v42 = *v41;
  ((FT1)v42)(v28);
  goto L12;
L12: ;
  v43 = (u8*)a0;
  _ZdlPv(v43);
  return;
}

void _ZN14OpenVolumeMesh16PropertyStorageTIbE7reserveEm(struct S12_class_OpenVolumeMesh__PropertyStorageT* a0, u64 a1) {
  struct S15_class_std__vector_46* v0;
  u1 v1;
  u64** v2;
  u64* v3;
  u64** v4;
  u64* v5;
  u64 v6;
  u64 v7;
  u64 v8;
  u64 v9;
  u1 v10;
L0: ;
  v0 = (struct S15_class_std__vector_46*)(&(*a0).f2);
  v1 = (a1 > ((u64)9223372036854775744ULL));
  if (v1) {
    goto L1;
  } else {
    goto L2;
  }
L1: ;
  _ZSt20__throw_length_errorPKc(((u8*)(&(*(&_str_15)).e[(s64)((s64)((u64)0ULL))])));
  if (v_exc) return;
  __CPROVER_assume(0);
L2: ;
  v2 = (u64**)(&(*a0).f2.f0.f0.f0.f2);
  v3 = *v2;
  v4 = (u64**)(&(*v0).f0.f0.f0.f0.f0.f0);
  v5 = *v4;
  v6 = ((u64)((u64)v3));
  v7 = ((u64)((u64)v5));
  v8 = v_pdiff((u8*)v3, (u8*)v5);
  v9 = ((u64)(v8 << ((u64)3ULL)));
  v10 = (v9 < a1);
  if (v10) {
    goto L3;
  } else {
    goto L4;
  }
L3: ;
  _ZNSt6vectorIbSaIbEE13_M_reallocateEm(v0, a1);
  if (v_exc) return;
  goto L4;
L4: ;
  return;
}

void _ZN14OpenVolumeMesh16PropertyStorageTIbE6resizeEm(struct S12_class_OpenVolumeMesh__PropertyStorageT* a0, u64 a1) {
  struct S15_class_std__vector_46* v0;
  u64** v1;
  u64* v2;
  u32* v3;
  u32 v4;
  u64** v5;
  u64* v6;
  u64 v7;
  u64 v8;
  u64 v9;
  u64 v10;
  u64 v11;
  u64 v12;
  u1 v13;
  u64 v14;
  u64* v15;
  u64 v16;
  u1 v17;
  u64 v18;
  u64 v19;
  u64* v20;
  u64 v21;
  u32 v22;
  u8* v23;
  u8 v24;
  u1 v25;
  u64 v26;
L0: ;
  v0 = (struct S15_class_std__vector_46*)(&(*a0).f2);
  v1 = (u64**)(&(*a0).f2.f0.f0.f0.f1.f0.f0);
  v2 = *v1;
  v3 = (u32*)(&(*a0).f2.f0.f0.f0.f1.f0.f1);
  v4 = *v3;
  v5 = (u64**)(&(*v0).f0.f0.f0.f0.f0.f0);
  v6 = *v5;
  v7 = ((u64)((u64)v2));
  v8 = ((u64)((u64)v6));
  v9 = v_pdiff((u8*)v2, (u8*)v6);
  v10 = ((u64)(v9 << ((u64)3ULL)));
  v11 = ((u64)(v4));
  v12 = ((u64)(v10 + v11));
  v13 = (v12 > a1);
  if (v13) {
    goto L1;
  } else {
    goto L2;
  }
L1: ;
  v14 = ((u64)(((s64)a1) / ((s64)((u64)64ULL))));
  v15 = (u64*)(v6 + (s64)((s64)v14));
  v16 = ((u64)(((s64)a1) % ((s64)((u64)64ULL))));
  v17 = (((s64)v16) < ((s64)((u64)0ULL)));
  v18 = ((u64)(v16 + ((u64)64ULL)));
  v19 = ((u64)(((s64)v16) >> ((u64)63ULL)));
  v20 = (u64*)(v15 + (s64)((s64)v19));
  v21 = (v17 ? v18 : v16);
  v22 = ((u32)(v21));
  *v1 = v20;
  *v3 = v22;
  goto L3;
L2: ;
  v23 = (u8*)(&(*a0).f3);
  v24 = *v23;
  v25 = (v24 != ((u8)0ULL));
  v26 = ((u64)(a1 - v12));
  _ZNSt6vectorIbSaIbEE14_M_fill_insertESt13_Bit_iteratormb(v0, v2, v4, v26, v25);
  if (v_exc) return;
  goto L3;
L3: ;
  return;
}

u64 _ZNK14OpenVolumeMesh16PropertyStorageTIbE4sizeEv(struct S12_class_OpenVolumeMesh__PropertyStorageT* a0) {
  u64** v0;
  u64* v1;
  u32* v2;
  u32 v3;
  u64** v4;
  u64* v5;
  u64 v6;
  u64 v7;
  u64 v8;
  u64 v9;
  u64 v10;
  u64 v11;
L0: ;
  v0 = (u64**)(&(*a0).f2.f0.f0.f0.f1.f0.f0);
  v1 = *v0;
  v2 = (u32*)(&(*a0).f2.f0.f0.f0.f1.f0.f1);
  v3 = *v2;
  v4 = (u64**)(&(*a0).f2.f0.f0.f0.f0.f0.f0);
  v5 = *v4;
  v6 = ((u64)((u64)v1));
  v7 = ((u64)((u64)v5));
  v8 = v_pdiff((u8*)v1, (u8*)v5);
  v9 = ((u64)(v8 << ((u64)3ULL)));
  v10 = ((u64)(v3));
  v11 = ((u64)(v9 + v10));
  return v11;
}

void _ZN14OpenVolumeMesh16PropertyStorageTIbE5clearEv(struct S12_class_OpenVolumeMesh__PropertyStorageT* a0) {
  u64** v0;
  u64* v1;
  u64** v2;
  u32* v3;
L0: ;
  v0 = (u64**)(&(*a0).f2.f0.f0.f0.f0.f0.f0);
  v1 = *v0;
  v2 = (u64**)(&(*a0).f2.f0.f0.f0.f1.f0.f0);
  *v2 = v1;
  v3 = (u32*)(&(*a0).f2.f0.f0.f0.f1.f0.f1);
  *v3 = ((u32)0ULL);
  return;
}

void _ZN14OpenVolumeMesh16PropertyStorageTIbE9push_backEv(struct S12_class_OpenVolumeMesh__PropertyStorageT* a0) {
  u8* v0;
  u8 v1;
  u1 v2;
  u64** v3;
  u64* v4;
  u64** v5;
  u64* v6;
  u1 v7;
  u32* v8;
  u32 v9;
  u32 v10;
  u1 v11;
  u64* v12;
  u64 v13;
  u64 v14;
  u64 v15;
  u64 v16;
  u64 v17;
  u64 v18;
  u64 v19;
  struct S15_class_std__vector_46* v20;
  u32* v21;
  u32 v22;
L0: ;
  v0 = (u8*)(&(*a0).f3);
  v1 = *v0;
  v2 = (v1 != ((u8)0ULL));
  v3 = (u64**)(&(*a0).f2.f0.f0.f0.f1.f0.f0);
  v4 = *v3;
  v5 = (u64**)(&(*a0).f2.f0.f0.f0.f2);
  v6 = *v5;
  v7 = ((u8*)v4 == (u8*)v6);
  if (v7) {
    goto L6;
  } else {
    goto L1;
  }
L1: ;
  v8 = (u32*)(&(*a0).f2.f0.f0.f0.f1.f0.f1);
  v9 = *v8;
  v10 = ((u32)(v9 + ((u32)1ULL)));
  *v8 = v10;
  v11 = (v9 == ((u32)63ULL));
  if (v11) {
    goto L2;
  } else {
    goto L3;
  }
L2: ;
  *v8 = ((u32)0ULL);
  v12 = (u64*)(v4 + (s64)((s64)((u64)1ULL)));
  *v3 = v12;
  goto L3;
L3: ;
  v13 = ((u64)(v9));
  v14 = ((u64)(((u64)1ULL) << v13));
  if (v2) {
    goto L4;
  } else {
    goto L5;
  }
L4: ;
  v15 = *v4;
  v16 = ((u64)(v15 | v14));
  *v4 = v16;
  goto L7;
L5: ;
  v17 = ((u64)(v14 ^ ((u64)18446744073709551615ULL)));
  v18 = *v4;
  v19 = ((u64)(v18 & v17));
  *v4 = v19;
  goto L7;
L6: ;
  v20 = (struct S15_class_std__vector_46*)(&(*a0).f2);
  v21 = (u32*)(&(*a0).f2.f0.f0.f0.f1.f0.f1);
  v22 = *v21;
  _ZNSt6vectorIbSaIbEE13_M_insert_auxESt13_Bit_iteratorb(v20, v4, v22, v2);
  if (v_exc) return;
  goto L7;
L7: ;
  return;
}

void _ZN14OpenVolumeMesh16PropertyStorageTIbE4swapEmm(struct S12_class_OpenVolumeMesh__PropertyStorageT* a0, u64 a1, u64 a2) {
  u64** v0;
  u64* v1;
  u64 v2;
  u64* v3;
  u64 v4;
  u1 v5;
  u64 v6;
  u64 v7;
  u64* v8;
  u64 v9;
  u64 v10;
  u64 v11;
  u64 v12;
  u64 v13;
  u1 v14;
  u64 v15;
  u64* v16;
  u64 v17;
  u1 v18;
  u64 v19;
  u64 v20;
  u64* v21;
  u64 v22;
  u64 v23;
  u64 v24;
  u64 v25;
  u64 v26;
  u1 v27;
  u64 v28;
  u64 v29;
  u64 v30;
  u64 v31;
  u64 v32;
  u64 v33;
  u64 v34;
  u64 v35;
  u64 v36;
  u64 v37; u64 v37_t;
L0: ;
  v0 = (u64**)(&(*a0).f2.f0.f0.f0.f0.f0.f0);
  v1 = *v0;
  v2 = ((u64)(((s64)a1) / ((s64)((u64)64ULL))));
  v3 = (u64*)(v1 + (s64)((s64)v2));
  v4 = ((u64)(((s64)a1) % ((s64)((u64)64ULL))));
  v5 = (((s64)v4) < ((s64)((u64)0ULL)));
  v6 = ((u64)(v4 + ((u64)64ULL)));
  v7 = ((u64)(((s64)v4) >> ((u64)63ULL)));
  v8 = (u64*)(v3 + (s64)((s64)v7));
  v9 = (v5 ? v6 : v4);
  v10 = ((u64)(v9 & ((u64)4294967295ULL)));
  v11 = ((u64)(((u64)1ULL) << v10));
  v12 = *v8;
  v13 = ((u64)(v12 & v11));
  v14 = (v13 == ((u64)0ULL));
  v15 = ((u64)(((s64)a2) / ((s64)((u64)64ULL))));
  v16 = (u64*)(v1 + (s64)((s64)v15));
  v17 = ((u64)(((s64)a2) % ((s64)((u64)64ULL))));
  v18 = (((s64)v17) < ((s64)((u64)0ULL)));
  v19 = ((u64)(v17 + ((u64)64ULL)));
  v20 = ((u64)(((s64)v17) >> ((u64)63ULL)));
  v21 = (u64*)(v16 + (s64)((s64)v20));
  v22 = (v18 ? v19 : v17);
  v23 = ((u64)(v22 & ((u64)4294967295ULL)));
  v24 = ((u64)(((u64)1ULL) << v23));
  v25 = *v21;
  v26 = ((u64)(v25 & v24));
  v27 = (v26 == ((u64)0ULL));
  v28 = ((u64)(v12 | v11));
  v29 = ((u64)(v11 ^ ((u64)18446744073709551615ULL)));
  v30 = ((u64)(v12 & v29));
  v31 = (v27 ? v30 : v28);
  *v8 = v31;
  if (v14) {
    goto L2;
  } else {
    goto L1;
  }
L1: ;
  v32 = *v21;
  v33 = ((u64)(v32 | v24));
  v37 = v33;
  goto L3;
L2: ;
  v34 = ((u64)(v24 ^ ((u64)18446744073709551615ULL)));
  v35 = *v21;
  v36 = ((u64)(v35 & v34));
  v37 = v36;
  goto L3;
L3: ;
  *v21 = v37;
  return;
}

void _ZN14OpenVolumeMesh16PropertyStorageTIbE4copyEmm(struct S12_class_OpenVolumeMesh__PropertyStorageT* a0, u64 a1, u64 a2) {
  u64** v0;
  u64* v1;
  u64 v2;
  u64* v3;
  u64 v4;
  u1 v5;
  u64 v6;
  u64 v7;
  u64* v8;
  u64 v9;
  u64 v10;
  u64 v11;
  u64 v12;
  u64* v13;
  u64 v14;
  u1 v15;
  u64 v16;
  u64 v17;
  u64* v18;
  u64 v19;
  u64 v20;
  u64 v21;
  u64 v22;
  u64 v23;
  u1 v24;
  u64 v25;
  u64 v26;
  u64 v27;
  u64 v28;
  u64 v29;
  u64 v30; u64 v30_t;
L0: ;
  v0 = (u64**)(&(*a0).f2.f0.f0.f0.f0.f0.f0);
  v1 = *v0;
  v2 = ((u64)(((s64)a1) / ((s64)((u64)64ULL))));
  v3 = (u64*)(v1 + (s64)((s64)v2));
  v4 = ((u64)(((s64)a1) % ((s64)((u64)64ULL))));
  v5 = (((s64)v4) < ((s64)((u64)0ULL)));
  v6 = ((u64)(v4 + ((u64)64ULL)));
  v7 = ((u64)(((s64)v4) >> ((u64)63ULL)));
  v8 = (u64*)(v3 + (s64)((s64)v7));
  v9 = (v5 ? v6 : v4);
  v10 = ((u64)(v9 & ((u64)4294967295ULL)));
  v11 = ((u64)(((u64)1ULL) << v10));
  v12 = ((u64)(((s64)a2) / ((s64)((u64)64ULL))));
  v13 = (u64*)(v1 + (s64)((s64)v12));
  v14 = ((u64)(((s64)a2) % ((s64)((u64)64ULL))));
  v15 = (((s64)v14) < ((s64)((u64)0ULL)));
  v16 = ((u64)(v14 + ((u64)64ULL)));
  v17 = ((u64)(((s64)v14) >> ((u64)63ULL)));
  v18 = (u64*)(v13 + (s64)((s64)v17));
  v19 = (v15 ? v16 : v14);
  v20 = ((u64)(v19 & ((u64)4294967295ULL)));
  v21 = ((u64)(((u64)1ULL) << v20));
  v22 = *v8;
  v23 = ((u64)(v22 & v11));
  v24 = (v23 == ((u64)0ULL));
  if (v24) {
    goto L2;
  } else {
    goto L1;
  }
L1: ;
  v25 = *v18;
  v26 = ((u64)(v25 | v21));
  v30 = v26;
  goto L3;
L2: ;
  v27 = ((u64)(v21 ^ ((u64)18446744073709551615ULL)));
  v28 = *v18;
  v29 = ((u64)(v28 & v27));
  v30 = v29;
  goto L3;
L3: ;
  *v18 = v30;
  return;
}

void _ZN14OpenVolumeMesh16PropertyStorageTIbE14delete_elementEm(struct S12_class_OpenVolumeMesh__PropertyStorageT* a0, u64 a1) {
  u64** v0;
  u64* v1;
  u64 v2;
  u64* v3;
  u64 v4;
  u1 v5;
  u64 v6;
  u64 v7;
  u64* v8;
  u64 v9;
  u64 v10;
  u64 v11;
  u64 v12;
  u64* v13;
  u32 v14;
  u32 v15;
  u64** v16;
  u64* v17;
  u32* v18;
  u32 v19;
  u1 v20;
  u1 v21;
  u1 v22;
  u64 v23;
  u64 v24;
  u64 v25;
  u64 v26;
  u64 v27;
  u64 v28;
  u64 v29;
  u64 v30;
  u1 v31;
  u32 v32;
  u64 v33; u64 v33_t;
  u32 v34; u32 v34_t;
  u64* v35; u64* v35_t;
  u32 v36; u32 v36_t;
  u64* v37; u64* v37_t;
  u64 v38;
  u64 v39;
  u64 v40;
  u64 v41;
  u64 v42;
  u64 v43;
  u1 v44;
  u64 v45;
  u64 v46;
  u64 v47;
  u64 v48;
  u64 v49;
  u64 v50; u64 v50_t;
  u32 v51;
  u1 v52;
  u64 v53;
  u64* v54;
  u32 v55;
  u32 v56;
  u1 v57;
  u64 v58;
  u64* v59;
  u32 v60;
  u64 v61;
  u1 v62;
  u32 v63;
  u1 v64;
  u64* v65;
L0: ;
  v0 = (u64**)(&(*a0).f2.f0.f0.f0.f0.f0.f0);
  v1 = *v0;
  v2 = ((u64)(((s64)a1) / ((s64)((u64)64ULL))));
  v3 = (u64*)(v1 + (s64)((s64)v2));
  v4 = ((u64)(((s64)a1) % ((s64)((u64)64ULL))));
  v5 = (((s64)v4) < ((s64)((u64)0ULL)));
  v6 = ((u64)(v4 + ((u64)64ULL)));
  v7 = ((u64)(((s64)v4) >> ((u64)63ULL)));
  v8 = (u64*)(v3 + (s64)((s64)v7));
  v9 = (v5 ? v6 : v4);
  v10 = ((u64)(v9 & ((u64)4294967295ULL)));
  v11 = ((u64)(v10 + ((u64)1ULL)));
  v12 = ((u64)(v11 >> ((u64)6ULL)));
  v13 = (u64*)(v8 + (s64)((s64)v12));
  v14 = ((u32)(v11));
  v15 = ((u32)(v14 & ((u32)63ULL)));
  v16 = (u64**)(&(*a0).f2.f0.f0.f0.f1.f0.f0);
  v17 = *v16;
  v18 = (u32*)(&(*a0).f2.f0.f0.f0.f1.f0.f1);
  v19 = *v18;
  v20 = ((u8*)v13 != (u8*)v17);
  v21 = (v15 != v19);
  v22 = (v20 ? ((u1)1ULL) : v21);
  if (v22) {
    goto L1;
  } else {
    goto L7;
  }
L1: ;
  v23 = ((u64)((u64)v17));
  v24 = ((u64)((u64)v13));
  v25 = v_pdiff((u8*)v17, (u8*)v13);
  v26 = ((u64)(v25 << ((u64)3ULL)));
  v27 = ((u64)(v19));
  v28 = ((u64)(v15));
  v29 = ((u64)(v27 - v28));
  v30 = ((u64)(v26 + v29));
  v31 = (((s64)v30) > ((s64)((u64)0ULL)));
  if (v31) {
    goto L2;
  } else {
    goto L7;
  }
L2: ;
  v32 = ((u32)(v9));
  v33_t = v30;
  v34_t = v15;
  v35_t = v13;
  v36_t = v32;
  v37_t = v8;
  v33 = v33_t;
  v34 = v34_t;
  v35 = v35_t;
  v36 = v36_t;
  v37 = v37_t;
  goto L3;
L3: ;
  v38 = ((u64)(v34));
  v39 = ((u64)(((u64)1ULL) << v38));
  v40 = ((u64)(v36));
  v41 = ((u64)(((u64)1ULL) << v40));
  v42 = *v35;
  v43 = ((u64)(v42 & v39));
  v44 = (v43 == ((u64)0ULL));
  if (v44) {
    goto L5;
  } else {
    goto L4;
  }
L4: ;
  v45 = *v37;
  v46 = ((u64)(v45 | v41));
  v50 = v46;
  goto L6;
L5: ;
  v47 = ((u64)(v41 ^ ((u64)18446744073709551615ULL)));
  v48 = *v37;
  v49 = ((u64)(v48 & v47));
  v50 = v49;
  goto L6;
L6: ;
  *v37 = v50;
  v51 = ((u32)(v34 + ((u32)1ULL)));
  v52 = (v34 == ((u32)63ULL));
  v53 = ((u64)(v52));
  v54 = (u64*)(v35 + (s64)((s64)v53));
  v55 = (v52 ? ((u32)0ULL) : v51);
  v56 = ((u32)(v36 + ((u32)1ULL)));
  v57 = (v36 == ((u32)63ULL));
  v58 = ((u64)(v57));
  v59 = (u64*)(v37 + (s64)((s64)v58));
  v60 = (v57 ? ((u32)0ULL) : v56);
  v61 = ((u64)(v33 + ((u64)18446744073709551615ULL)));
  v62 = (((s64)v33) > ((s64)((u64)1ULL)));
  if (v62) {
    v33_t = v61;
    v34_t = v55;
    v35_t = v54;
    v36_t = v60;
    v37_t = v59;
    v33 = v33_t;
    v34 = v34_t;
    v35 = v35_t;
    v36 = v36_t;
    v37 = v37_t;
    goto L3;
  } else {
    goto L7;
  }
L7: ;
  v63 = ((u32)(v19 + ((u32)4294967295ULL)));
  *v18 = v63;
  v64 = (v19 == ((u32)0ULL));
  if (v64) {
    goto L8;
  } else {
    goto L9;
  }
L8: ;
  *v18 = ((u32)63ULL);
  v65 = (u64*)(v17 + (s64)((s64)((u64)18446744073709551615ULL)));
  *v16 = v65;
  goto L9;
L9: ;
  return;
}

void _ZNK14OpenVolumeMesh16PropertyStorageTIbE5cloneEv(struct S25_class_std__weak_ptr* a0, struct S12_class_OpenVolumeMesh__PropertyStorageT* a1) {
  struct S0_class_std__ios_base__Init* v0; struct S0_class_std__ios_base__Init v0_m;
  struct S56_class_std__shared_ptr_65* v1; struct S56_class_std__shared_ptr_65 v1_m;
  u8* v2;
  u8* v3;
  struct S30_class_std____shared_ptr_66* v4;
  struct S12_class_OpenVolumeMesh__PropertyStorageT** v5;
  struct S12_class_OpenVolumeMesh__PropertyStorageT* v6;
  struct S13_class_OpenVolumeMesh__detail__Tracker** v7;
  struct S13_class_OpenVolumeMesh__detail__Tracker* v8;
  u1 v9;
  struct S22_class_OpenVolumeMesh__PropertyStorageBas* v10;
  struct S43_class_std__map* v11;
  u8* v12;
  u8* v13;
  struct S21_struct_std___Rb_tree_node** v14;
  u8* v15;
  struct S17_struct_std___Rb_tree_node_base* v16;
  struct S21_struct_std___Rb_tree_node* v17;
  u1 v18;
  struct S21_struct_std___Rb_tree_node* v19; struct S21_struct_std___Rb_tree_node* v19_t;
  struct S17_struct_std___Rb_tree_node_base* v20; struct S17_struct_std___Rb_tree_node_base* v20_t;
  struct S66_struct___gnu_cxx____aligned_membuf* v21;
  struct S22_class_OpenVolumeMesh__PropertyStorageBas** v22;
  struct S22_class_OpenVolumeMesh__PropertyStorageBas* v23;
  u1 v24;
  struct S17_struct_std___Rb_tree_node_base** v25;
  u1 v26;
  struct S17_struct_std___Rb_tree_node_base* v27;
  struct S17_struct_std___Rb_tree_node_base** v28;
  struct S21_struct_std___Rb_tree_node** v29;
  struct S21_struct_std___Rb_tree_node* v30;
  struct S17_struct_std___Rb_tree_node_base** v31;
  struct S21_struct_std___Rb_tree_node** v32;
  struct S21_struct_std___Rb_tree_node* v33;
  u1 v34;
  struct S21_struct_std___Rb_tree_node* v35; struct S21_struct_std___Rb_tree_node* v35_t;
  struct S17_struct_std___Rb_tree_node_base* v36; struct S17_struct_std___Rb_tree_node_base* v36_t;
  struct S66_struct___gnu_cxx____aligned_membuf* v37;
  struct S22_class_OpenVolumeMesh__PropertyStorageBas** v38;
  struct S22_class_OpenVolumeMesh__PropertyStorageBas* v39;
  u1 v40;
  struct S17_struct_std___Rb_tree_node_base** v41;
  struct S17_struct_std___Rb_tree_node_base* v42;
  struct S17_struct_std___Rb_tree_node_base** v43;
  struct S17_struct_std___Rb_tree_node_base* v44;
  struct S17_struct_std___Rb_tree_node_base** v45;
  struct S21_struct_std___Rb_tree_node** v46;
  struct S21_struct_std___Rb_tree_node* v47;
  u1 v48;
  struct S17_struct_std___Rb_tree_node_base* v49; struct S17_struct_std___Rb_tree_node_base* v49_t;
  u1 v50;
  struct S21_struct_std___Rb_tree_node* v51; struct S21_struct_std___Rb_tree_node* v51_t;
  struct S17_struct_std___Rb_tree_node_base* v52; struct S17_struct_std___Rb_tree_node_base* v52_t;
  struct S66_struct___gnu_cxx____aligned_membuf* v53;
  struct S22_class_OpenVolumeMesh__PropertyStorageBas** v54;
  struct S22_class_OpenVolumeMesh__PropertyStorageBas* v55;
  u1 v56;
  struct S17_struct_std___Rb_tree_node_base* v57;
  struct S17_struct_std___Rb_tree_node_base** v58;
  struct S17_struct_std___Rb_tree_node_base** v59;
  struct S17_struct_std___Rb_tree_node_base* v60;
  struct S17_struct_std___Rb_tree_node_base** v61;
  struct S21_struct_std___Rb_tree_node** v62;
  struct S21_struct_std___Rb_tree_node* v63;
  u1 v64;
  struct S17_struct_std___Rb_tree_node_base* v65; struct S17_struct_std___Rb_tree_node_base* v65_t;
  struct S17_struct_std___Rb_tree_node_base** v66; struct S17_struct_std___Rb_tree_node_base** v66_t;
  struct S21_struct_std___Rb_tree_node** v67;
  struct S21_struct_std___Rb_tree_node* v68;
  u1 v69;
  struct S17_struct_std___Rb_tree_node_base* v70; struct S17_struct_std___Rb_tree_node_base* v70_t;
  struct S17_struct_std___Rb_tree_node_base* v71; struct S17_struct_std___Rb_tree_node_base* v71_t;
  struct S16_class_std___Rb_tree_5* v72;
  struct S22_class_OpenVolumeMesh__PropertyStorageBas** v73;
  struct S12_class_OpenVolumeMesh__PropertyStorageT** v74;
  struct S22_class_OpenVolumeMesh__PropertyStorageBas** v75;
  struct S22_class_OpenVolumeMesh__PropertyStorageBas* v76;
  struct S20_class_std___Sp_counted_base** v77;
  struct S20_class_std___Sp_counted_base** v78;
  struct S20_class_std___Sp_counted_base* v79;
  struct S65 v80;
L0: ;
  v0 = &v0_m;
  v1 = &v1_m;
  v2 = (u8*)v1;
  v3 = (u8*)(&(*v0).f0);
  v4 = (struct S30_class_std____shared_ptr_66*)(&(*v1).f0);
  _ZNSt12__shared_ptrIN14OpenVolumeMesh16PropertyStorageTIbEELN9__gnu_cxx12_Lock_policyE2EEC2ISaIvEJRKS2_EEESt20_Sp_alloc_shared_tagIT_EDpOT0_(v4, v0, a1);
  if (v_exc) return;
  v5 = (struct S12_class_OpenVolumeMesh__PropertyStorageT**)(&(*v1).f0.f0);
  v6 = *v5;
  v7 = (struct S13_class_OpenVolumeMesh__detail__Tracker**)(&(*v6).f0.f0.f1);
  v8 = *v7;
  v9 = ((u8*)v8 == (u8*)((struct S13_class_OpenVolumeMesh__detail__Tracker*)0));
  if (v9) {
    goto L11;
  } else {
    goto L1;
  }
L1: ;
  v10 = (struct S22_class_OpenVolumeMesh__PropertyStorageBas*)v6;
  v11 = (struct S43_class_std__map*)(&(*v8).f1);
  v12 = (u8*)(&(*v11).f0.f0.f0.f0.f0);
  v13 = (u8*)&(*v8).f1.f0.f0.f1.f0.f1;
  v14 = (struct S21_struct_std___Rb_tree_node**)&(*v8).f1.f0.f0.f1.f0.f1;
  v15 = (u8*)&(*v8).f1.f0.f0.f1.f0.f0;
  v16 = (struct S17_struct_std___Rb_tree_node_base*)&(*v8).f1.f0.f0.f1.f0;
  v17 = *v14;
  v18 = ((u8*)v17 == (u8*)((struct S21_struct_std___Rb_tree_node*)0));
  if (v18) {
    v70_t = v16;
    v71_t = v16;
    v70 = v70_t;
    v71 = v71_t;
    goto L10;
  } else {
    v19_t = v17;
    v20_t = v16;
    v19 = v19_t;
    v20 = v20_t;
    goto L2;
  }
L2: ;
  v21 = (struct S66_struct___gnu_cxx____aligned_membuf*)(&(*v19).f1);
  v22 = (struct S22_class_OpenVolumeMesh__PropertyStorageBas**)v21;
  v23 = *v22;
  v24 = v_plt((u8*)v23, (u8*)v10);
  if (v24) {
    goto L3;
  } else {
    goto L4;
  }
L3: ;
  v25 = (struct S17_struct_std___Rb_tree_node_base**)(&(*v19).f0.f3);
  v65_t = v20;
  v66_t = v25;
  v65 = v65_t;
  v66 = v66_t;
  goto L9;
L4: ;
  v26 = v_plt((u8*)v10, (u8*)v23);
  v27 = (struct S17_struct_std___Rb_tree_node_base*)(&(*v19).f0);
  v28 = (struct S17_struct_std___Rb_tree_node_base**)(&(*v19).f0.f2);
  if (v26) {
    v65_t = v27;
    v66_t = v28;
    v65 = v65_t;
    v66 = v66_t;
    goto L9;
  } else {
    goto L5;
  }
L5: ;
  v29 = (struct S21_struct_std___Rb_tree_node**)&(*v19).f0.f2;
  v30 = *v29;
  v31 = (struct S17_struct_std___Rb_tree_node_base**)(&(*v19).f0.f3);
  v32 = (struct S21_struct_std___Rb_tree_node**)&(*v19).f0.f3;
  v33 = *v32;
  v34 = ((u8*)v30 == (u8*)((struct S21_struct_std___Rb_tree_node*)0));
  if (v34) {
    v49 = v27;
    goto L7;
  } else {
    v35_t = v30;
    v36_t = v27;
    v35 = v35_t;
    v36 = v36_t;
    goto L6;
  }
L6: ;
  v37 = (struct S66_struct___gnu_cxx____aligned_membuf*)(&(*v35).f1);
  v38 = (struct S22_class_OpenVolumeMesh__PropertyStorageBas**)v37;
  v39 = *v38;
  v40 = v_plt((u8*)v39, (u8*)v10);
  v41 = (struct S17_struct_std___Rb_tree_node_base**)(&(*v35).f0.f3);
  v42 = (struct S17_struct_std___Rb_tree_node_base*)(&(*v35).f0);
  v43 = (struct S17_struct_std___Rb_tree_node_base**)(&(*v35).f0.f2);
  v44 = (v40 ? v36 : v42);
  v45 = (v40 ? v41 : v43);
  v46 = (struct S21_struct_std___Rb_tree_node**)v45;
  v47 = *v46;
  v48 = ((u8*)v47 == (u8*)((struct S21_struct_std___Rb_tree_node*)0));
  if (v48) {
    v49 = v44;
    goto L7;
  } else {
    v35_t = v47;
    v36_t = v44;
    v35 = v35_t;
    v36 = v36_t;
    goto L6;
  }
L7: ;
  v50 = ((u8*)v33 == (u8*)((struct S21_struct_std___Rb_tree_node*)0));
  if (v50) {
    v70_t = v49;
    v71_t = v20;
    v70 = v70_t;
    v71 = v71_t;
    goto L10;
  } else {
    v51_t = v33;
    v52_t = v20;
    v51 = v51_t;
    v52 = v52_t;
    goto L8;
  }
L8: ;
  v53 = (struct S66_struct___gnu_cxx____aligned_membuf*)(&(*v51).f1);
  v54 = (struct S22_class_OpenVolumeMesh__PropertyStorageBas**)v53;
  v55 = *v54;
  v56 = v_plt((u8*)v10, (u8*)v55);
  v57 = (struct S17_struct_std___Rb_tree_node_base*)(&(*v51).f0);
  v58 = (struct S17_struct_std___Rb_tree_node_base**)(&(*v51).f0.f2);
  v59 = (struct S17_struct_std___Rb_tree_node_base**)(&(*v51).f0.f3);
  v60 = (v56 ? v57 : v52);
  v61 = (v56 ? v58 : v59);
  v62 = (struct S21_struct_std___Rb_tree_node**)v61;
  v63 = *v62;
  v64 = ((u8*)v63 == (u8*)((struct S21_struct_std___Rb_tree_node*)0));
  if (v64) {
    v70_t = v49;
    v71_t = v60;
    v70 = v70_t;
    v71 = v71_t;
    goto L10;
  } else {
    v51_t = v63;
    v52_t = v60;
    v51 = v51_t;
    v52 = v52_t;
    goto L8;
  }
L9: ;
  v67 = (struct S21_struct_std___Rb_tree_node**)v66;
  v68 = *v67;
  v69 = ((u8*)v68 == (u8*)((struct S21_struct_std___Rb_tree_node*)0));
  if (v69) {
    v70_t = v65;
    v71_t = v65;
    v70 = v70_t;
    v71 = v71_t;
    goto L10;
  } else {
    v19_t = v68;
    v20_t = v65;
    v19 = v19_t;
    v20 = v20_t;
    goto L2;
  }
L10: ;
  v72 = (struct S16_class_std___Rb_tree_5*)(&(*v11).f0);
  _ZNSt8_Rb_treeIPN14OpenVolumeMesh19PropertyStorageBaseES2_St9_IdentityIS2_ESt4lessIS2_ESaIS2_EE12_M_erase_auxESt23_Rb_tree_const_iteratorIS2_ESA_(v72, v70, v71);
  if (v_exc) {
    goto L12;
  }
  goto L11;
L11: ;
  *v7 = ((struct S13_class_OpenVolumeMesh__detail__Tracker*)0);
  v73 = (struct S22_class_OpenVolumeMesh__PropertyStorageBas**)(&(*a0).f0.f0);
  v74 = (struct S12_class_OpenVolumeMesh__PropertyStorageT**)(&(*v1).f0.f0);
  v75 = (struct S22_class_OpenVolumeMesh__PropertyStorageBas**)&(*v1).f0.f0;
  v76 = *v75;
  *v73 = v76;
  v77 = (struct S20_class_std___Sp_counted_base**)(&(*a0).f0.f1.f0);
  *v77 = ((struct S20_class_std___Sp_counted_base*)0);
  v78 = (struct S20_class_std___Sp_counted_base**)(&(*v1).f0.f1.f0);
  v79 = *v78;
  *v78 = ((struct S20_class_std___Sp_counted_base*)0);
  *v77 = v79;
  *v74 = ((struct S12_class_OpenVolumeMesh__PropertyStorageT*)0);
  return;
L12: ;
  v80.f0 = v_exc_obj;
  v80.f1 = 0;
  v_exc = 0;
  _ZNSt12__shared_ptrIN14OpenVolumeMesh16PropertyStorageTIbEELN9__gnu_cxx12_Lock_policyE2EED2Ev(v4);
  v_exc = 1; return;
}

void _ZNK14OpenVolumeMesh16PropertyStorageTIbE15typeNameWrapperB5cxx11Ev(struct S14_class_std____cxx11__basic_string* a0, struct S12_class_OpenVolumeMesh__PropertyStorageT* a1) {
L0: ;
  _ZN14OpenVolumeMesh8typeNameIbEEKNSt7__cxx1112basic_stringIcSt11char_traitsIcESaIcEEEv(a0);
  if (v_exc) return;
  return;
}

void _ZNK14OpenVolumeMesh16PropertyStorageTIbE9serializeERSo(struct S12_class_OpenVolumeMesh__PropertyStorageT* a0, struct S23_class_std__basic_ostream* a1) {
  u64** v0;
  u64* v1;
  u64** v2;
  u32* v3;
  u64* v4;
  u32 v5;
  u1 v6;
  u1 v7;
  u1 v8;
  u8** v9;
  struct S68_class_std__basic_streambuf** v10;
  u8* v11;
  u32 v12; u32 v12_t;
  u64* v13; u64* v13_t;
  u64 v14;
  u64 v15;
  u64 v16;
  u64 v17;
  u1 v18;
  struct S23_class_std__basic_ostream* v19;
  u8* v20;
  u8* v21;
  u64* v22;
  u64 v23;
  u8* v24;
  struct S34_class_std__ctype** v25;
  struct S34_class_std__ctype* v26;
  u1 v27;
  u8* v28;
  u8 v29;
  u1 v30;
  u8* v31;
  u8 v32;
  fnptr_t** v33;
  fnptr_t* v34;
  fnptr_t* v35;
  fnptr_t v36;
  u8 v37;
  u8 v38; u8 v38_t;
  struct S23_class_std__basic_ostream* v39;
  struct S23_class_std__basic_ostream* v40;
  u32 v41;
  u1 v42;
  u64 v43;
  u64* v44;
  u32 v45;
  u64* v46;
  u32 v47;
  u1 v48;
  u1 v49;
  u1 v50;
L0: ;
  v0 = (u64**)(&(*a0).f2.f0.f0.f0.f0.f0.f0);
  v1 = *v0;
  v2 = (u64**)(&(*a0).f2.f0.f0.f0.f1.f0.f0);
  v3 = (u32*)(&(*a0).f2.f0.f0.f0.f1.f0.f1);
  v4 = *v2;
  v5 = *v3;
  v6 = ((u8*)v1 != (u8*)v4);
  v7 = (v5 != ((u32)0ULL));
  v8 = (v6 ? ((u1)1ULL) : v7);
  if (v8) {
    goto L1;
  } else {
    goto L2;
  }
L1: ;
  v9 = (u8**)&(*a1).f0;
  v10 = (struct S68_class_std__basic_streambuf**)(&(*a1).f1.f4);
  v11 = (u8*)v10;
  v12_t = ((u32)0ULL);
  v13_t = v1;
  v12 = v12_t;
  v13 = v13_t;
  goto L3;
L2: ;
  return;
L3: ;
  v14 = ((u64)(v12));
  v15 = ((u64)(((u64)1ULL) << v14));
  v16 = *v13;
  v17 = ((u64)(v16 & v15));
  v18 = (v17 != ((u64)0ULL));
  v19 = _ZNSo9_M_insertIbEERSoT_(a1, v18);
  if (v_exc) return;
  v20 = *v9;
  v21 = (u8*)(v20 + (s64)((s64)((u64)18446744073709551592ULL)));
  v22 = (u64*)v21;
  v23 = *v22;
  v24 = (u8*)(v11 + (s64)((s64)v23));
  v25 = (struct S34_class_std__ctype**)v24;
  v26 = *v25;
  v27 = ((u8*)v26 == (u8*)((struct S34_class_std__ctype*)0));
  if (v27) {
    goto L4;
  } else {
    goto L5;
  }
L4: ;
  _ZSt16__throw_bad_castv();
  if (v_exc) return;
  __CPROVER_assume(0);
L5: ;
  v28 = (u8*)(&(*v26).f8);
  v29 = *v28;
  v30 = (v29 == ((u8)0ULL));
  if (v30) {
    goto L7;
  } else {
    goto L6;
  }
L6: ;
  v31 = (u8*)(&(*v26).f9.e[(s64)((s64)((u64)10ULL))]);
  v32 = *v31;
  v38 = v32;
  goto L8;
L7: ;
  _ZNKSt5ctypeIcE13_M_widen_initEv(v26);
  if (v_exc) return;
  v33 = (fnptr_t**)&(*v26).f0.f0;
  v34 = *v33;
  v35 = (fnptr_t*)(v34 + (s64)((s64)((u64)6ULL)));
  v36 = *v35;
  v37 = ((FT2)v36)(v26, ((u8)10ULL));
  if (v_exc) return;
  v38 = v37;
  goto L8;
L8: ;
  v39 = _ZNSo3putEc(a1, v38);
  if (v_exc) return;
  v40 = _ZNSo5flushEv(v39);
  if (v_exc) return;
  v41 = ((u32)(v12 + ((u32)1ULL)));
  v42 = (v12 == ((u32)63ULL));
  v43 = ((u64)(v42));
  v44 = (u64*)(v13 + (s64)((s64)v43));
  v45 = (v42 ? ((u32)0ULL) : v41);
  v46 = *v2;
  v47 = *v3;
  v48 = ((u8*)v44 != (u8*)v46);
  v49 = (v45 != v47);
  v50 = (v48 ? ((u1)1ULL) : v49);
  if (v50) {
    v12_t = v45;
    v13_t = v44;
    v12 = v12_t;
    v13 = v13_t;
    goto L3;
  } else {
    goto L2;
  }
}

void _ZN14OpenVolumeMesh16PropertyStorageTIbE11deserializeERSi(struct S12_class_OpenVolumeMesh__PropertyStorageT* a0, struct S24_class_std__basic_istream* a1) {
  u8* v0; u8 v0_m;
  u64** v1;
  u32* v2;
  u64** v3;
  u64* v4;
  u32 v5;
  u64* v6;
  u64 v7;
  u64 v8;
  u64 v9;
  u64 v10;
  u64 v11;
  u64 v12;
  u1 v13;
  u64** v14;
  u64 v15; u64 v15_t;
  struct S24_class_std__basic_istream* v16;
  u8 v17;
  u1 v18;
  u64* v19;
  u64 v20;
  u64* v21;
  u64 v22;
  u64 v23;
  u64 v24;
  u64 v25;
  u64 v26;
  u64 v27;
  u64 v28;
  u64 v29; u64 v29_t;
  u64 v30;
  u64 v31;
  u64* v32;
  u32 v33;
  u64* v34;
  u64 v35;
  u64 v36;
  u64 v37;
  u64 v38;
  u64 v39;
  u64 v40;
  u1 v41;
L0: ;
  v0 = &v0_m;
  v1 = (u64**)(&(*a0).f2.f0.f0.f0.f1.f0.f0);
  v2 = (u32*)(&(*a0).f2.f0.f0.f0.f1.f0.f1);
  v3 = (u64**)(&(*a0).f2.f0.f0.f0.f0.f0.f0);
  v4 = *v1;
  v5 = *v2;
  v6 = *v3;
  v7 = ((u64)((u64)v4));
  v8 = ((u64)((u64)v6));
  v9 = v_pdiff((u8*)v4, (u8*)v6);
  v10 = ((u64)(v9 << ((u64)3ULL)));
  v11 = ((u64)(v5));
  v12 = ((u64)(((u64)0ULL) - v11));
  v13 = (v10 == v12);
  if (v13) {
    goto L2;
  } else {
    goto L1;
  }
L1: ;
  v14 = (u64**)(&(*a0).f2.f0.f0.f0.f0.f0.f0);
  v15 = ((u64)0ULL);
  goto L3;
L2: ;
  return;
L3: ;
  v16 = _ZNSi10_M_extractIbEERSiRT_(a1, v0);
  if (v_exc) return;
  v17 = *v0;
  v18 = (v17 == ((u8)0ULL));
  v19 = *v14;
  v20 = ((u64)(v15 >> ((u64)6ULL)));
  v21 = (u64*)(v19 + (s64)((s64)v20));
  v22 = ((u64)(v15 & ((u64)63ULL)));
  v23 = ((u64)(((u64)1ULL) << v22));
  if (v18) {
    goto L5;
  } else {
    goto L4;
  }
L4: ;
  v24 = *v21;
  v25 = ((u64)(v24 | v23));
  v29 = v25;
  goto L6;
L5: ;
  v26 = ((u64)(v23 ^ ((u64)18446744073709551615ULL)));
  v27 = *v21;
  v28 = ((u64)(v27 & v26));
  v29 = v28;
  goto L6;
L6: ;
  *v21 = v29;
  v30 = ((u64)(v15 + ((u64)1ULL)));
  v31 = ((u64)(v30 & ((u64)4294967295ULL)));
  v32 = *v1;
  v33 = *v2;
  v34 = *v3;
  v35 = ((u64)((u64)v32));
  v36 = ((u64)((u64)v34));
  v37 = v_pdiff((u8*)v32, (u8*)v34);
  v38 = ((u64)(v37 << ((u64)3ULL)));
  v39 = ((u64)(v33));
  v40 = ((u64)(v38 + v39));
  v41 = (v40 > v31);
  if (v41) {
    v15 = v31;
    goto L3;
  } else {
    goto L2;
  }
}

void _ZN14OpenVolumeMesh16PropertyStorageTIbE17make_property_ptrEv(struct S26_class_std__unique_ptr* a0, struct S12_class_OpenVolumeMesh__PropertyStorageT* a1) {
  u8* v0;
  u8 v1;
L0: ;
  v0 = (u8*)(&(*a1).f0.f4);
  v1 = *v0;
  _ZN14OpenVolumeMesh18entitytag_dispatchIZNS_16PropertyStorageTIbE17make_property_ptrEvEUlT_E_JEEEDaNS_10EntityTypeES3_DpT0_(a0, v1, a1);
  if (v_exc) return;
  return;
}

void _ZN14OpenVolumeMesh16PropertyStorageTIbE18assign_values_fromEPKNS_19PropertyStorageBaseE(struct S12_class_OpenVolumeMesh__PropertyStorageT* a0, struct S22_class_OpenVolumeMesh__PropertyStorageBas* a1) {
  struct S12_class_OpenVolumeMesh__PropertyStorageT* v0;
  struct S15_class_std__vector_46* v1;
  struct S15_class_std__vector_46* v2;
  struct S15_class_std__vector_46* v3;
  u8* v4;
  u8 v5;
  u8* v6;
L0: ;
  v0 = _ZNK14OpenVolumeMesh19PropertyStorageBase16cast_to_StorageTIbEEPKNS_16PropertyStorageTIT_EEv(a1);
  if (v_exc) return;
  v1 = (struct S15_class_std__vector_46*)(&(*v0).f2);
  v2 = (struct S15_class_std__vector_46*)(&(*a0).f2);
  v3 = _ZNSt6vectorIbSaIbEEaSERKS1_(v2, v1);
  if (v_exc) return;
  v4 = (u8*)(&(*v0).f3);
  v5 = *v4;
  v6 = (u8*)(&(*a0).f3);
  *v6 = v5;
  return;
}

void _ZN14OpenVolumeMesh16PropertyStorageTIbE16move_values_fromEPNS_19PropertyStorageBaseE(struct S12_class_OpenVolumeMesh__PropertyStorageT* a0, struct S22_class_OpenVolumeMesh__PropertyStorageBas* a1) {
  struct S12_class_OpenVolumeMesh__PropertyStorageT* v0;
  struct S15_class_std__vector_46* v1;
  struct S15_class_std__vector_46* v2;
  struct S15_class_std__vector_46* v3;
  u8* v4;
  u8 v5;
  u8* v6;
L0: ;
  v0 = _ZN14OpenVolumeMesh19PropertyStorageBase16cast_to_StorageTIbEEPNS_16PropertyStorageTIT_EEv(a1);
  if (v_exc) return;
  v1 = (struct S15_class_std__vector_46*)(&(*v0).f2);
  v2 = (struct S15_class_std__vector_46*)(&(*a0).f2);
  v3 = _ZNSt6vectorIbSaIbEEaSERKS1_(v2, v1);
  if (v_exc) return;
  v4 = (u8*)(&(*v0).f3);
  v5 = *v4;
  v6 = (u8*)(&(*a0).f3);
  *v6 = v5;
  return;
}

struct S12_class_OpenVolumeMesh__PropertyStorageT* _ZN14OpenVolumeMesh19PropertyStorageBase16cast_to_StorageTIbEEPNS_16PropertyStorageTIT_EEv(struct S22_class_OpenVolumeMesh__PropertyStorageBas* a0) {
  struct S14_class_std____cxx11__basic_string* v0; struct S14_class_std____cxx11__basic_string v0_m;
  u8* v1;
  u64* v2;
  u64 v3;
  u64* v4;
  u64 v5;
  u1 v6;
  u1 v7;
  u8** v8;
  u8* v9;
  u8** v10;
  u8* v11;
  u32 v12;
  u1 v13;
  u1 v14; u1 v14_t;
  u8** v15;
  u8* v16;
  struct S64_union_anon* v17;
  u8* v18;
  u1 v19;
  u8* v20;
  fnptr_t** v21;
  struct S12_class_OpenVolumeMesh__PropertyStorageT* v22;
L0: ;
  v0 = &v0_m;
  v1 = (u8*)v0;
  _ZN14OpenVolumeMesh6detail18internal_type_nameB5cxx11ERKSt9type_info(v0, ((struct S39_class_std__type_info*)(&_ZTIb)));
  if (v_exc) return (struct S12_class_OpenVolumeMesh__PropertyStorageT*)0;
  v2 = (u64*)(&(*v0).f1);
  v3 = *v2;
  v4 = (u64*)(&(*a0).f3.f1);
  v5 = *v4;
  v6 = (v3 == v5);
  if (v6) {
    goto L1;
  } else {
    v14 = ((u1)1ULL);
    goto L3;
  }
L1: ;
  v7 = (v3 == ((u64)0ULL));
  if (v7) {
    v14 = ((u1)0ULL);
    goto L3;
  } else {
    goto L2;
  }
L2: ;
  v8 = (u8**)(&(*a0).f3.f0.f0);
  v9 = *v8;
  v10 = (u8**)(&(*v0).f0.f0);
  v11 = *v10;
  v12 = bcmp(v11, v9, v3);
  v13 = (v12 != ((u32)0ULL));
  v14 = v13;
  goto L3;
L3: ;
  v15 = (u8**)(&(*v0).f0.f0);
  v16 = *v15;
  v17 = (struct S64_union_anon*)(&(*v0).f2);
  v18 = (u8*)v17;
  v19 = ((u8*)v16 == (u8*)v18);
  if (v19) {
    goto L5;
  } else {
    goto L4;
  }
L4: ;
  _ZdlPv(v16);
  goto L5;
L5: ;
  if (v14) {
    goto L6;
  } else {
    goto L7;
  }
L6: ;
  v20 = __cxa_allocate_exception(((u64)8ULL));
  v21 = (fnptr_t**)v20;
  *v21 = ((fnptr_t*)((u8**)(&(*(&_ZTVSt8bad_cast)).f0.e[(s64)((s64)((u64)2ULL))])));
  __cxa_throw(v20, ((u8*)(&_ZTISt8bad_cast)), ((u8*)((fnptr_t)_ZNSt8bad_castD1Ev)));
  if (v_exc) return (struct S12_class_OpenVolumeMesh__PropertyStorageT*)0;
  __CPROVER_assume(0);
L7: ;
  v22 = (struct S12_class_OpenVolumeMesh__PropertyStorageT*)a0;
  return v22;
}

struct S15_class_std__vector_46* _ZNSt6vectorIbSaIbEEaSERKS1_(struct S15_class_std__vector_46* a0, struct S15_class_std__vector_46* a1) {
  u1 v0;
  u64** v1;
  u64* v2;
  u32* v3;
  u32 v4;
  u64** v5;
  u64* v6;
  u64 v7;
  u64 v8;
  u64 v9;
  u64 v10;
  u64 v11;
  u64 v12;
  u64** v13;
  u64* v14;
  u64** v15;
  u64* v16;
  u64 v17;
  u64 v18;
  u64 v19;
  u64 v20;
  u1 v21;
  u64** v22;
  u64* v23;
  u1 v24;
  u64** v25;
  u64* v26;
  u64 v27;
  u64 v28;
  u64 v29;
  u64 v30;
  u64 v31;
  u64* v32;
  u8* v33;
  u32* v34;
  u64** v35;
  u32* v36;
  u64* v37;
  u32 v38;
  u64* v39;
  u64 v40;
  u64 v41;
  u64 v42;
  u64 v43;
  u64 v44;
  u64 v45;
  u1 v46;
  u64 v47;
  u64 v48;
  u64 v49;
  u8* v50;
  u64* v51;
  u64 v52;
  u64* v53;
  u8** v54;
  u32* v55;
  u64 v56;
  u64* v57;
  u64 v58;
  u1 v59;
  u64 v60;
  u64 v61;
  u64* v62;
  u64 v63;
  u32 v64;
  u64** v65;
  u32* v66;
  u64* v67;
  u64* v68;
  u32 v69;
  u64* v70;
  u64 v71;
  u64 v72;
  u64 v73;
  u1 v74;
  u8* v75;
  u8* v76;
  u64 v77;
  u64* v78;
  u1 v79;
  u64 v80;
  u64 v81; u64 v81_t;
  u32 v82; u32 v82_t;
  u64* v83; u64* v83_t;
  u64* v84; u64* v84_t;
  u32 v85; u32 v85_t;
  u64 v86;
  u64 v87;
  u64 v88;
  u64 v89;
  u1 v90;
  u64 v91;
  u64 v92;
  u64 v93;
  u64 v94;
  u64 v95;
  u64 v96;
  u64 v97;
  u64 v98; u64 v98_t;
  u32 v99;
  u1 v100;
  u64 v101;
  u64* v102;
  u32 v103;
  u32 v104;
  u1 v105;
  u32 v106;
  u64 v107;
  u64* v108;
  u64 v109;
  u1 v110;
  u32 v111; u32 v111_t;
  u64* v112; u64* v112_t;
  u64** v113;
  u32* v114;
L0: ;
  v0 = ((u8*)a1 == (u8*)a0);
  if (v0) {
    goto L15;
  } else {
    goto L1;
  }
L1: ;
  v1 = (u64**)(&(*a1).f0.f0.f0.f1.f0.f0);
  v2 = *v1;
  v3 = (u32*)(&(*a1).f0.f0.f0.f1.f0.f1);
  v4 = *v3;
  v5 = (u64**)(&(*a1).f0.f0.f0.f0.f0.f0);
  v6 = *v5;
  v7 = ((u64)((u64)v2));
  v8 = ((u64)((u64)v6));
  v9 = v_pdiff((u8*)v2, (u8*)v6);
  v10 = ((u64)(v9 << ((u64)3ULL)));
  v11 = ((u64)(v4));
  v12 = ((u64)(v10 + v11));
  v13 = (u64**)(&(*a0).f0.f0.f0.f2);
  v14 = *v13;
  v15 = (u64**)(&(*a0).f0.f0.f0.f0.f0.f0);
  v16 = *v15;
  v17 = ((u64)((u64)v14));
  v18 = ((u64)((u64)v16));
  v19 = v_pdiff((u8*)v14, (u8*)v16);
  v20 = ((u64)(v19 << ((u64)3ULL)));
  v21 = (v12 > v20);
  if (v21) {
    goto L2;
  } else {
    goto L6;
  }
L2: ;
  v22 = (u64**)(&(*a0).f0.f0.f0.f0.f0.f0);
  v23 = *v22;
  v24 = ((u8*)v23 == (u8*)((u64*)0));
  if (v24) {
    goto L4;
  } else {
    goto L3;
  }
L3: ;
  v25 = (u64**)(&(*a0).f0.f0.f0.f2);
  v26 = *v25;
  v27 = ((u64)((u64)v26));
  v28 = ((u64)((u64)v23));
  v29 = v_pdiff((u8*)v26, (u8*)v23);
  v30 = ((u64)(((s64)v29) >> ((u64)3ULL)));
  v31 = ((u64)(((u64)0ULL) - v30));
  v32 = (u64*)(v26 + (s64)((s64)v31));
  v33 = (u8*)v32;
  _ZdlPv(v33);
  *v22 = ((u64*)0);
  v34 = (u32*)(&(*a0).f0.f0.f0.f0.f0.f1);
  *v34 = ((u32)0ULL);
  v35 = (u64**)(&(*a0).f0.f0.f0.f1.f0.f0);
  *v35 = ((u64*)0);
  v36 = (u32*)(&(*a0).f0.f0.f0.f1.f0.f1);
  *v36 = ((u32)0ULL);
  *v25 = ((u64*)0);
  goto L4;
L4: ;
  v37 = *v1;
  v38 = *v3;
  v39 = *v5;
  v40 = ((u64)((u64)v37));
  v41 = ((u64)((u64)v39));
  v42 = v_pdiff((u8*)v37, (u8*)v39);
  v43 = ((u64)(v42 << ((u64)3ULL)));
  v44 = ((u64)(v38));
  v45 = ((u64)(v43 + v44));
  v46 = (v45 == ((u64)0ULL));
  if (v46) {
    goto L6;
  } else {
    goto L5;
  }
L5: ;
  v47 = ((u64)(v45 + ((u64)63ULL)));
  v48 = ((u64)(v47 >> ((u64)3ULL)));
  v49 = ((u64)(v48 & ((u64)2305843009213693944ULL)));
  v50 = (u8*)((v49 % sizeof(u64) == 0) ? __CPROVER_allocate(sizeof(u64) * (v49 / sizeof(u64)), 1) : __CPROVER_allocate(v49, 0));
  v51 = (u64*)v50;
  v52 = ((u64)(v47 >> ((u64)6ULL)));
  v53 = (u64*)(v51 + (s64)((s64)v52));
  *v13 = v53;
  v54 = (u8**)&(*a0).f0.f0.f0.f0.f0.f0;
  *v54 = v50;
  v55 = (u32*)(&(*a0).f0.f0.f0.f0.f0.f1);
  *v55 = ((u32)0ULL);
  v56 = ((u64)(((s64)v45) / ((s64)((u64)64ULL))));
  v57 = (u64*)(v51 + (s64)((s64)v56));
  v58 = ((u64)(((s64)v45) % ((s64)((u64)64ULL))));
  v59 = (((s64)v58) < ((s64)((u64)0ULL)));
  v60 = ((u64)(v58 + ((u64)64ULL)));
  v61 = ((u64)(((s64)v58) >> ((u64)63ULL)));
  v62 = (u64*)(v57 + (s64)((s64)v61));
  v63 = (v59 ? v60 : v58);
  v64 = ((u32)(v63));
  v65 = (u64**)(&(*a0).f0.f0.f0.f1.f0.f0);
  *v65 = v62;
  v66 = (u32*)(&(*a0).f0.f0.f0.f1.f0.f1);
  *v66 = v64;
  goto L6;
L6: ;
  v67 = *v5;
  v68 = *v1;
  v69 = *v3;
  v70 = *v15;
  v71 = ((u64)((u64)v68));
  v72 = ((u64)((u64)v67));
  v73 = v_pdiff((u8*)v68, (u8*)v67);
  v74 = (v73 == ((u64)0ULL));
  if (v74) {
    goto L8;
  } else {
    goto L7;
  }
L7: ;
  v75 = (u8*)v70;
  v76 = (u8*)v67;
  { u64* _d = v70; u64* _s = v67; u64 _n = (u64)v73 / 8; __CPROVER_assert((u64)v73 % 8 == 0, "typed memcpy size");
    if (_n) { if (__CPROVER_same_object(_d, _s) && __CPROVER_POINTER_OFFSET(_d) > __CPROVER_POINTER_OFFSET(_s)) { for (u64 _i = _n; _i > 0; --_i) _d[_i-1] = _s[_i-1]; } else { for (u64 _i = 0; _i < _n; ++_i) _d[_i] = _s[_i]; } } }
  goto L8;
L8: ;
  v77 = ((u64)(((s64)v73) >> ((u64)3ULL)));
  v78 = (u64*)(v70 + (s64)((s64)v77));
  v79 = (v69 == ((u32)0ULL));
  if (v79) {
    v111_t = ((u32)0ULL);
    v112_t = v78;
    v111 = v111_t;
    v112 = v112_t;
    goto L14;
  } else {
    goto L9;
  }
L9: ;
  v80 = ((u64)(v69));
  v81_t = v80;
  v82_t = ((u32)0ULL);
  v83_t = v68;
  v84_t = v78;
  v85_t = ((u32)0ULL);
  v81 = v81_t;
  v82 = v82_t;
  v83 = v83_t;
  v84 = v84_t;
  v85 = v85_t;
  goto L10;
L10: ;
  v86 = ((u64)(v82));
  v87 = ((u64)(((u64)1ULL) << v86));
  v88 = *v83;
  v89 = ((u64)(v88 & v87));
  v90 = (v89 == ((u64)0ULL));
  v91 = ((u64)(v85));
  v92 = ((u64)(((u64)1ULL) << v91));
  if (v90) {
    goto L12;
  } else {
    goto L11;
  }
L11: ;
  v93 = *v84;
  v94 = ((u64)(v93 | v92));
  v98 = v94;
  goto L13;
L12: ;
  v95 = ((u64)(v92 ^ ((u64)18446744073709551615ULL)));
  v96 = *v84;
  v97 = ((u64)(v96 & v95));
  v98 = v97;
  goto L13;
L13: ;
  *v84 = v98;
  v99 = ((u32)(v82 + ((u32)1ULL)));
  v100 = (v82 == ((u32)63ULL));
  v101 = ((u64)(v100));
  v102 = (u64*)(v83 + (s64)((s64)v101));
  v103 = (v100 ? ((u32)0ULL) : v99);
  v104 = ((u32)(v85 + ((u32)1ULL)));
  v105 = (v85 == ((u32)63ULL));
  v106 = (v105 ? ((u32)0ULL) : v104);
  v107 = ((u64)(v105));
  v108 = (u64*)(v84 + (s64)((s64)v107));
  v109 = ((u64)(v81 + ((u64)18446744073709551615ULL)));
  v110 = (((s64)v81) > ((s64)((u64)1ULL)));
  if (v110) {
    v81_t = v109;
    v82_t = v103;
    v83_t = v102;
    v84_t = v108;
    v85_t = v106;
    v81 = v81_t;
    v82 = v82_t;
    v83 = v83_t;
    v84 = v84_t;
    v85 = v85_t;
    goto L10;
  } else {
    v111_t = v106;
    v112_t = v108;
    v111 = v111_t;
    v112 = v112_t;
    goto L14;
  }
L14: ;
  v113 = (u64**)(&(*a0).f0.f0.f0.f1.f0.f0);
  *v113 = v112;
  v114 = (u32*)(&(*a0).f0.f0.f0.f1.f0.f1);
  *v114 = v111;
  goto L15;
L15: ;
  return a0;
}

struct S12_class_OpenVolumeMesh__PropertyStorageT* _ZNK14OpenVolumeMesh19PropertyStorageBase16cast_to_StorageTIbEEPKNS_16PropertyStorageTIT_EEv(struct S22_class_OpenVolumeMesh__PropertyStorageBas* a0) {
  struct S14_class_std____cxx11__basic_string* v0; struct S14_class_std____cxx11__basic_string v0_m;
  u8* v1;
  u64* v2;
  u64 v3;
  u64* v4;
  u64 v5;
  u1 v6;
  u1 v7;
  u8** v8;
  u8* v9;
  u8** v10;
  u8* v11;
  u32 v12;
  u1 v13;
  u1 v14; u1 v14_t;
  u8** v15;
  u8* v16;
  struct S64_union_anon* v17;
  u8* v18;
  u1 v19;
  u8* v20;
  fnptr_t** v21;
  struct S12_class_OpenVolumeMesh__PropertyStorageT* v22;
L0: ;
  v0 = &v0_m;
  v1 = (u8*)v0;
  _ZN14OpenVolumeMesh6detail18internal_type_nameB5cxx11ERKSt9type_info(v0, ((struct S39_class_std__type_info*)(&_ZTIb)));
  if (v_exc) return (struct S12_class_OpenVolumeMesh__PropertyStorageT*)0;
  v2 = (u64*)(&(*v0).f1);
  v3 = *v2;
  v4 = (u64*)(&(*a0).f3.f1);
  v5 = *v4;
  v6 = (v3 == v5);
  if (v6) {
    goto L1;
  } else {
    v14 = ((u1)1ULL);
    goto L3;
  }
L1: ;
  v7 = (v3 == ((u64)0ULL));
  if (v7) {
    v14 = ((u1)0ULL);
    goto L3;
  } else {
    goto L2;
  }
L2: ;
  v8 = (u8**)(&(*a0).f3.f0.f0);
  v9 = *v8;
  v10 = (u8**)(&(*v0).f0.f0);
  v11 = *v10;
  v12 = bcmp(v11, v9, v3);
  v13 = (v12 != ((u32)0ULL));
  v14 = v13;
  goto L3;
L3: ;
  v15 = (u8**)(&(*v0).f0.f0);
  v16 = *v15;
  v17 = (struct S64_union_anon*)(&(*v0).f2);
  v18 = (u8*)v17;
  v19 = ((u8*)v16 == (u8*)v18);
  if (v19) {
    goto L5;
  } else {
    goto L4;
  }
L4: ;
  _ZdlPv(v16);
  goto L5;
L5: ;
  if (v14) {
    goto L6;
  } else {
    goto L7;
  }
L6: ;
  v20 = __cxa_allocate_exception(((u64)8ULL));
  v21 = (fnptr_t**)v20;
  *v21 = ((fnptr_t*)((u8**)(&(*(&_ZTVSt8bad_cast)).f0.e[(s64)((s64)((u64)2ULL))])));
  __cxa_throw(v20, ((u8*)(&_ZTISt8bad_cast)), ((u8*)((fnptr_t)_ZNSt8bad_castD1Ev)));
  if (v_exc) return (struct S12_class_OpenVolumeMesh__PropertyStorageT*)0;
  __CPROVER_assume(0);
L7: ;
  v22 = (struct S12_class_OpenVolumeMesh__PropertyStorageT*)a0;
  return v22;
}

void _ZN14OpenVolumeMesh18entitytag_dispatchIZNS_16PropertyStorageTIbE17make_property_ptrEvEUlT_E_JEEEDaNS_10EntityTypeES3_DpT0_(struct S26_class_std__unique_ptr* a0, u8 a1, struct S12_class_OpenVolumeMesh__PropertyStorageT* a2) {
  struct S28_class_anon* v0; struct S28_class_anon v0_m;
  struct S12_class_OpenVolumeMesh__PropertyStorageT** v1;
  u8* v2;
  struct S29_class_std__runtime_error* v3;
  struct S65 v4;
L0: ;
  v0 = &v0_m;
  v1 = (struct S12_class_OpenVolumeMesh__PropertyStorageT**)(&(*v0).f0);
  *v1 = a2;
  switch (a1) {
  case ((u8)0ULL): {
    goto L1;
  }
  case ((u8)1ULL): {
    goto L2;
  }
  case ((u8)2ULL): {
    goto L3;
  }
  case ((u8)3ULL): {
    goto L4;
  }
  case ((u8)4ULL): {
    goto L5;
  }
  case ((u8)5ULL): {
    goto L6;
  }
  case ((u8)6ULL): {
    goto L7;
  }
  default: {
    goto L8;
  }
  }
L1: ;
  _ZZN14OpenVolumeMesh16PropertyStorageTIbE17make_property_ptrEvENKUlT_E_clINS_6Entity6VertexEEEDaS2_(a0, v0);
  if (v_exc) return;
  goto L11;
L2: ;
  _ZZN14OpenVolumeMesh16PropertyStorageTIbE17make_property_ptrEvENKUlT_E_clINS_6Entity4EdgeEEEDaS2_(a0, v0);
  if (v_exc) return;
  goto L11;
L3: ;
  _ZZN14OpenVolumeMesh16PropertyStorageTIbE17make_property_ptrEvENKUlT_E_clINS_6Entity8HalfEdgeEEEDaS2_(a0, v0);
  if (v_exc) return;
  goto L11;
L4: ;
  _ZZN14OpenVolumeMesh16PropertyStorageTIbE17make_property_ptrEvENKUlT_E_clINS_6Entity4FaceEEEDaS2_(a0, v0);
  if (v_exc) return;
  goto L11;
L5: ;
  _ZZN14OpenVolumeMesh16PropertyStorageTIbE17make_property_ptrEvENKUlT_E_clINS_6Entity8HalfFaceEEEDaS2_(a0, v0);
  if (v_exc) return;
  goto L11;
L6: ;
  _ZZN14OpenVolumeMesh16PropertyStorageTIbE17make_property_ptrEvENKUlT_E_clINS_6Entity4CellEEEDaS2_(a0, v0);
  if (v_exc) return;
  goto L11;
L7: ;
  _ZZN14OpenVolumeMesh16PropertyStorageTIbE17make_property_ptrEvENKUlT_E_clINS_6Entity4MeshEEEDaS2_(a0, v0);
  if (v_exc) return;
  goto L11;
L8: ;
  v2 = __cxa_allocate_exception(((u64)16ULL));
  v3 = (struct S29_class_std__runtime_error*)v2;
  _ZNSt13runtime_errorC1EPKc(v3, ((u8*)(&(*(&_str_17)).e[(s64)((s64)((u64)0ULL))])));
  if (v_exc) {
    goto L10;
  }
  goto L9;
L9: ;
  __cxa_throw(v2, ((u8*)(&_ZTISt13runtime_error)), ((u8*)((fnptr_t)_ZNSt13runtime_errorD1Ev)));
  if (v_exc) return;
  __CPROVER_assume(0);
L10: ;
  v4.f0 = v_exc_obj;
  v4.f1 = 0;
  v_exc = 0;
  __cxa_free_exception(v2);
  v_exc = 1; return;
L11: ;
  return;
}

void _ZZN14OpenVolumeMesh16PropertyStorageTIbE17make_property_ptrEvENKUlT_E_clINS_6Entity6VertexEEEDaS2_(struct S26_class_std__unique_ptr* a0, struct S28_class_anon* a1) {
  struct S56_class_std__shared_ptr_65* v0; struct S56_class_std__shared_ptr_65 v0_m;
  u8** v1;
  u8* v2;
  u8* v3;
  u8* v4;
  u8* v5;
  struct S20_class_std___Sp_counted_base** v6;
  struct S20_class_std___Sp_counted_base* v7;
  u1 v8;
  u32* v9;
  u32 v10;
  u32 v11; u32 v11_t;
  u1 v12;
  u32 v13;
  u32 v14;
  u1 v15;
  u32 v16;
  struct S69 v17;
  struct S69 v18;
  u1 v19;
  u32 v20;
  u8* v21;
  u64* v22;
  fnptr_t** v23;
  struct S12_class_OpenVolumeMesh__PropertyStorageT** v24;
  struct S12_class_OpenVolumeMesh__PropertyStorageT* v25;
  struct S12_class_OpenVolumeMesh__PropertyStorageT** v26;
  struct S20_class_std___Sp_counted_base** v27;
  u8 v28;
  u1 v29;
  u32 v30;
  u32 v31;
  u32 v32;
  u32 v33;
  u64* v34;
  u64 v35;
  u1 v36;
  u32* v37;
  fnptr_t** v38;
  fnptr_t* v39;
  fnptr_t* v40;
  fnptr_t v41;
  fnptr_t* v42;
  fnptr_t* v43;
  fnptr_t v44;
  u8 v45;
  u1 v46;
  u32 v47;
  u32 v48;
  u32 v49;
  u32 v50;
  u32 v51; u32 v51_t;
  u1 v52;
  u8* v53;
  struct S31_class_OpenVolumeMesh__PropertyPtr_86* v54;
  struct S12_class_OpenVolumeMesh__PropertyStorageT* v55;
  struct S20_class_std___Sp_counted_base* v56;
  fnptr_t** v57;
  u8* v58;
  struct S12_class_OpenVolumeMesh__PropertyStorageT** v59;
  struct S20_class_std___Sp_counted_base** v60;
  fnptr_t** v61;
  u8* v62;
  u8** v63;
  struct S20_class_std___Sp_counted_base** v64;
  struct S20_class_std___Sp_counted_base* v65;
  u1 v66;
  u32* v67;
  u64* v68;
  u64 v69;
  u1 v70;
  u32* v71;
  fnptr_t** v72;
  fnptr_t* v73;
  fnptr_t* v74;
  fnptr_t v75;
  fnptr_t* v76;
  fnptr_t* v77;
  fnptr_t v78;
  u8 v79;
  u1 v80;
  u32 v81;
  u32 v82;
  u32 v83;
  u32 v84;
  u32 v85; u32 v85_t;
  u1 v86;
  struct S65 v87;
  struct S30_class_std____shared_ptr_66* v88;
L0: ;
  v0 = &v0_m;
  v1 = (u8**)&(*a1).f0;
  v2 = *v1;
  v3 = (u8*)v0;
  v4 = (u8*)(v2 + (s64)((s64)((u64)16ULL)));
  v5 = (u8*)(v2 + (s64)((s64)((u64)24ULL)));
  v6 = (struct S20_class_std___Sp_counted_base**)v5;
  v7 = *v6;
  v8 = ((u8*)v7 == (u8*)((struct S20_class_std___Sp_counted_base*)0));
  if (v8) {
    goto L4;
  } else {
    goto L1;
  }
L1: ;
  v9 = (u32*)(&(*v7).f1);
  v10 = *v9;
  v11 = v10;
  goto L2;
L2: ;
  v12 = (v11 == ((u32)0ULL));
  if (v12) {
    goto L4;
  } else {
    goto L3;
  }
L3: ;
  v13 = ((u32)(v11 + ((u32)1ULL)));
  v14 = *v9;
  v15 = (v14 == v11);
  v16 = (v15 ? v13 : v14);
  *v9 = v16;
  v17.f0 = v14;
  v18 = v17;
  v18.f1 = v15;
  v19 = v18.f1;
  v20 = v18.f0;
  if (v19) {
    goto L5;
  } else {
    v11 = v20;
    goto L2;
  }
L4: ;
  v21 = __cxa_allocate_exception(((u64)8ULL));
  v22 = (u64*)v21;
  *v22 = ((u64)0ULL);
  v23 = (fnptr_t**)v21;
  *v23 = ((fnptr_t*)((u8**)(&(*(&_ZTVSt12bad_weak_ptr)).f0.e[(s64)((s64)((u64)2ULL))])));
  __cxa_throw(v21, ((u8*)(&_ZTISt12bad_weak_ptr)), ((u8*)((fnptr_t)_ZNSt12bad_weak_ptrD1Ev)));
  if (v_exc) return;
  __CPROVER_assume(0);
L5: ;
  v24 = (struct S12_class_OpenVolumeMesh__PropertyStorageT**)v4;
  v25 = *v24;
  v26 = (struct S12_class_OpenVolumeMesh__PropertyStorageT**)(&(*v0).f0.f0);
  *v26 = v25;
  v27 = (struct S20_class_std___Sp_counted_base**)(&(*v0).f0.f1.f0);
  *v27 = v7;
  v28 = *(&__libc_single_threaded);
  v29 = (v28 == ((u8)0ULL));
  if (v29) {
    goto L7;
  } else {
    goto L6;
  }
L6: ;
  v30 = *v9;
  v31 = ((u32)(v30 + ((u32)1ULL)));
  *v9 = v31;
  goto L8;
L7: ;
  v32 = *v9;
  v33 = ((u32)(v32 + ((u32)1ULL)));
  *v9 = v33;
  goto L8;
L8: ;
  v34 = (u64*)v9;
  v35 = (((u64)(*v7).f1 << 0) | ((u64)(*v7).f2 << 32));
  v36 = (v35 == ((u64)4294967297ULL));
  if (v36) {
    goto L9;
  } else {
    goto L10;
  }
L9: ;
  *v9 = ((u32)0ULL);
  v37 = (u32*)(&(*v7).f2);
  *v37 = ((u32)0ULL);
  v38 = (fnptr_t**)&(*v7).f0;
  v39 = *v38;
  v40 = (fnptr_t*)(v39 + (s64)((s64)((u64)2ULL)));
  v41 = *v40;
  ((FT1)v41)(v7);
  v42 = *v38;
  v43 = (fnptr_t*)(v42 + (s64)((s64)((u64)3ULL)));
  v44 = *v43;
  ((FT1)v44)(v7);
  goto L15;
L10: ;
  v45 = *(&__libc_single_threaded);
  v46 = (v45 == ((u8)0ULL));
  if (v46) {
    goto L12;
  } else {
    goto L11;
  }
L11: ;
  v47 = *v9;
  v48 = ((u32)(v47 + ((u32)4294967295ULL)));
  *v9 = v48;
  v51 = v47;
  goto L13;
L12: ;
  v49 = *v9;
  v50 = ((u32)(v49 + ((u32)4294967295ULL)));
  *v9 = v50;
  v51 = v49;
  goto L13;
L13: ;
  v52 = (v51 == ((u32)1ULL));
  if (v52) {
    goto L14;
  } else {
    goto L15;
  }
L14: ;
  _ZNSt16_Sp_counted_baseILN9__gnu_cxx12_Lock_policyE2EE24_M_release_last_use_coldEv(v7);
  goto L15;
L15: ;
  v53 = (u8*)((((u64)32ULL) % sizeof(struct S31_class_OpenVolumeMesh__PropertyPtr_86) == 0) ? __CPROVER_allocate(sizeof(struct S31_class_OpenVolumeMesh__PropertyPtr_86) * (((u64)32ULL) / sizeof(struct S31_class_OpenVolumeMesh__PropertyPtr_86)), 0) : __CPROVER_allocate(((u64)32ULL), 0));
  v_alloc_note((u8*)v53);
  if (v_exc) {
    goto L25;
  }
  goto L16;
L16: ;
  v54 = (struct S31_class_OpenVolumeMesh__PropertyPtr_86*)v53;
  v55 = *v26;
  v56 = *v27;
  v57 = (fnptr_t**)(&(*v54).f0.f0.f0);
  v58 = (u8*)v0;
  (*v0).f0.f0 = (struct S12_class_OpenVolumeMesh__PropertyStorageT*)0;
  (*v0).f0.f1.f0 = (struct S20_class_std___Sp_counted_base*)0;
  *v57 = ((fnptr_t*)((u8**)(&(*(&_ZTVN14OpenVolumeMesh18PropertyStoragePtrIbEE)).f0.e[(s64)((s64)((u64)2ULL))])));
  v59 = (struct S12_class_OpenVolumeMesh__PropertyStorageT**)(&(*v54).f0.f0.f1.f0.f0);
  *v59 = v55;
  v60 = (struct S20_class_std___Sp_counted_base**)(&(*v54).f0.f0.f1.f0.f1.f0);
  *v60 = v56;
  *v57 = ((fnptr_t*)((u8**)(&(*(&_ZTVN14OpenVolumeMesh14HandleIndexingINS_6Entity6VertexENS_18PropertyStoragePtrIbEEEE)).f0.e[(s64)((s64)((u64)2ULL))])));
  v61 = (fnptr_t**)(&(*v54).f1.f0);
  *v61 = ((fnptr_t*)((u8**)(&(*(&_ZTVN14OpenVolumeMesh15BasePropertyPtrE)).f0.e[(s64)((s64)((u64)2ULL))])));
  *v57 = ((fnptr_t*)((u8**)(&(*(&_ZTVN14OpenVolumeMesh11PropertyPtrIbNS_6Entity6VertexEEE)).f0.e[(s64)((s64)((u64)2ULL))])));
  *v61 = ((fnptr_t*)((u8**)(&(*(&_ZTVN14OpenVolumeMesh11PropertyPtrIbNS_6Entity6VertexEEE)).f1.e[(s64)((s64)((u64)2ULL))])));
  v62 = (u8*)(v53 + (s64)((s64)((u64)24ULL)));
  v63 = (u8**)&(*a0).f0.f0.f0.f0.f0.f0;
  *v63 = v62;
  v64 = (struct S20_class_std___Sp_counted_base**)(&(*v0).f0.f1.f0);
  v65 = *v64;
  v66 = ((u8*)v65 == (u8*)((struct S20_class_std___Sp_counted_base*)0));
  if (v66) {
    goto L24;
  } else {
    goto L17;
  }
L17: ;
  v67 = (u32*)(&(*v65).f1);
  v68 = (u64*)v67;
  v69 = (((u64)(*v65).f1 << 0) | ((u64)(*v65).f2 << 32));
  v70 = (v69 == ((u64)4294967297ULL));
  if (v70) {
    goto L18;
  } else {
    goto L19;
  }
L18: ;
  *v67 = ((u32)0ULL);
  v71 = (u32*)(&(*v65).f2);
  *v71 = ((u32)0ULL);
  v72 = (fnptr_t**)&(*v65).f0;
  v73 = *v72;
  v74 = (fnptr_t*)(v73 + (s64)((s64)((u64)2ULL)));
  v75 = *v74;
  ((FT1)v75)(v65);
  v76 = *v72;
  v77 = (fnptr_t*)(v76 + (s64)((s64)((u64)3ULL)));
  v78 = *v77;
  ((FT1)v78)(v65);
  goto L24;
L19: ;
  v79 = *(&__libc_single_threaded);
  v80 = (v79 == ((u8)0ULL));
  if (v80) {
    goto L21;
  } else {
    goto L20;
  }
L20: ;
  v81 = *v67;
  v82 = ((u32)(v81 + ((u32)4294967295ULL)));
  *v67 = v82;
  v85 = v81;
  goto L22;
L21: ;
  v83 = *v67;
  v84 = ((u32)(v83 + ((u32)4294967295ULL)));
  *v67 = v84;
  v85 = v83;
  goto L22;
L22: ;
  v86 = (v85 == ((u32)1ULL));
  if (v86) {
    goto L23;
  } else {
    goto L24;
  }
L23: ;
  _ZNSt16_Sp_counted_baseILN9__gnu_cxx12_Lock_policyE2EE24_M_release_last_use_coldEv(v65);
  goto L24;
L24: ;
  return;
L25: ;
  v87.f0 = v_exc_obj;
  v87.f1 = 0;
  v_exc = 0;
  v88 = (struct S30_class_std____shared_ptr_66*)(&(*v0).f0);
  _ZNSt12__shared_ptrIN14OpenVolumeMesh16PropertyStorageTIbEELN9__gnu_cxx12_Lock_policyE2EED2Ev(v88);
  v_exc = 1; return;
}

void _ZZN14OpenVolumeMesh16PropertyStorageTIbE17make_property_ptrEvENKUlT_E_clINS_6Entity4EdgeEEEDaS2_(struct S26_class_std__unique_ptr* a0, struct S28_class_anon* a1) {
  struct S56_class_std__shared_ptr_65* v0; struct S56_class_std__shared_ptr_65 v0_m;
  u8** v1;
  u8* v2;
  u8* v3;
  u8* v4;
  u8* v5;
  struct S20_class_std___Sp_counted_base** v6;
  struct S20_class_std___Sp_counted_base* v7;
  u1 v8;
  u32* v9;
  u32 v10;
  u32 v11; u32 v11_t;
  u1 v12;
  u32 v13;
  u32 v14;
  u1 v15;
  u32 v16;
  struct S69 v17;
  struct S69 v18;
  u1 v19;
  u32 v20;
  u8* v21;
  u64* v22;
  fnptr_t** v23;
  struct S12_class_OpenVolumeMesh__PropertyStorageT** v24;
  struct S12_class_OpenVolumeMesh__PropertyStorageT* v25;
  struct S12_class_OpenVolumeMesh__PropertyStorageT** v26;
  struct S20_class_std___Sp_counted_base** v27;
  u8 v28;
  u1 v29;
  u32 v30;
  u32 v31;
  u32 v32;
  u32 v33;
  u64* v34;
  u64 v35;
  u1 v36;
  u32* v37;
  fnptr_t** v38;
  fnptr_t* v39;
  fnptr_t* v40;
  fnptr_t v41;
  fnptr_t* v42;
  fnptr_t* v43;
  fnptr_t v44;
  u8 v45;
  u1 v46;
  u32 v47;
  u32 v48;
  u32 v49;
  u32 v50;
  u32 v51; u32 v51_t;
  u1 v52;
  u8* v53;
  struct S31_class_OpenVolumeMesh__PropertyPtr_86* v54;
  struct S12_class_OpenVolumeMesh__PropertyStorageT* v55;
  struct S20_class_std___Sp_counted_base* v56;
  fnptr_t** v57;
  u8* v58;
  struct S12_class_OpenVolumeMesh__PropertyStorageT** v59;
  struct S20_class_std___Sp_counted_base** v60;
  fnptr_t** v61;
  u8* v62;
  u8** v63;
  struct S20_class_std___Sp_counted_base** v64;
  struct S20_class_std___Sp_counted_base* v65;
  u1 v66;
  u32* v67;
  u64* v68;
  u64 v69;
  u1 v70;
  u32* v71;
  fnptr_t** v72;
  fnptr_t* v73;
  fnptr_t* v74;
  fnptr_t v75;
  fnptr_t* v76;
  fnptr_t* v77;
  fnptr_t v78;
  u8 v79;
  u1 v80;
  u32 v81;
  u32 v82;
  u32 v83;
  u32 v84;
  u32 v85; u32 v85_t;
  u1 v86;
  struct S65 v87;
  struct S30_class_std____shared_ptr_66* v88;
L0: ;
  v0 = &v0_m;
  v1 = (u8**)&(*a1).f0;
  v2 = *v1;
  v3 = (u8*)v0;
  v4 = (u8*)(v2 + (s64)((s64)((u64)16ULL)));
  v5 = (u8*)(v2 + (s64)((s64)((u64)24ULL)));
  v6 = (struct S20_class_std___Sp_counted_base**)v5;
  v7 = *v6;
  v8 = ((u8*)v7 == (u8*)((struct S20_class_std___Sp_counted_base*)0));
  if (v8) {
    goto L4;
  } else {
    goto L1;
  }
L1: ;
  v9 = (u32*)(&(*v7).f1);
  v10 = *v9;
  v11 = v10;
  goto L2;
L2: ;
  v12 = (v11 == ((u32)0ULL));
  if (v12) {
    goto L4;
  } else {
    goto L3;
  }
L3: ;
  v13 = ((u32)(v11 + ((u32)1ULL)));
  v14 = *v9;
  v15 = (v14 == v11);
  v16 = (v15 ? v13 : v14);
  *v9 = v16;
  v17.f0 = v14;
  v18 = v17;
  v18.f1 = v15;
  v19 = v18.f1;
  v20 = v18.f0;
  if (v19) {
    goto L5;
  } else {
    v11 = v20;
    goto L2;
  }
L4: ;
  v21 = __cxa_allocate_exception(((u64)8ULL));
  v22 = (u64*)v21;
  *v22 = ((u64)0ULL);
  v23 = (fnptr_t**)v21;
  *v23 = ((fnptr_t*)((u8**)(&(*(&_ZTVSt12bad_weak_ptr)).f0.e[(s64)((s64)((u64)2ULL))])));
  __cxa_throw(v21, ((u8*)(&_ZTISt12bad_weak_ptr)), ((u8*)((fnptr_t)_ZNSt12bad_weak_ptrD1Ev)));
  if (v_exc) return;
  __CPROVER_assume(0);
L5: ;
  v24 = (struct S12_class_OpenVolumeMesh__PropertyStorageT**)v4;
  v25 = *v24;
  v26 = (struct S12_class_OpenVolumeMesh__PropertyStorageT**)(&(*v0).f0.f0);
  *v26 = v25;
  v27 = (struct S20_class_std___Sp_counted_base**)(&(*v0).f0.f1.f0);
  *v27 = v7;
  v28 = *(&__libc_single_threaded);
  v29 = (v28 == ((u8)0ULL));
  if (v29) {
    goto L7;
  } else {
    goto L6;
  }
L6: ;
  v30 = *v9;
  v31 = ((u32)(v30 + ((u32)1ULL)));
  *v9 = v31;
  goto L8;
L7: ;
  v32 = *v9;
  v33 = ((u32)(v32 + ((u32)1ULL)));
  *v9 = v33;
  goto L8;
L8: ;
  v34 = (u64*)v9;
  v35 = (((u64)(*v7).f1 << 0) | ((u64)(*v7).f2 << 32));
  v36 = (v35 == ((u64)4294967297ULL));
  if (v36) {
    goto L9;
  } else {
    goto L10;
  }
L9: ;
  *v9 = ((u32)0ULL);
  v37 = (u32*)(&(*v7).f2);
  *v37 = ((u32)0ULL);
  v38 = (fnptr_t**)&(*v7).f0;
  v39 = *v38;
  v40 = (fnptr_t*)(v39 + (s64)((s64)((u64)2ULL)));
  v41 = *v40;
  ((FT1)v41)(v7);
  v42 = *v38;
  v43 = (fnptr_t*)(v42 + (s64)((s64)((u64)3ULL)));
  v44 = *v43;
  ((FT1)v44)(v7);
  goto L15;
L10: ;
  v45 = *(&__libc_single_threaded);
  v46 = (v45 == ((u8)0ULL));
  if (v46) {
    goto L12;
  } else {
    goto L11;
  }
L11: ;
  v47 = *v9;
  v48 = ((u32)(v47 + ((u32)4294967295ULL)));
  *v9 = v48;
  v51 = v47;
  goto L13;
L12: ;
  v49 = *v9;
  v50 = ((u32)(v49 + ((u32)4294967295ULL)));
  *v9 = v50;
  v51 = v49;
  goto L13;
L13: ;
  v52 = (v51 == ((u32)1ULL));
  if (v52) {
    goto L14;
  } else {
    goto L15;
  }
L14: ;
  _ZNSt16_Sp_counted_baseILN9__gnu_cxx12_Lock_policyE2EE24_M_release_last_use_coldEv(v7);
  goto L15;
L15: ;
  v53 = (u8*)((((u64)32ULL) % sizeof(struct S31_class_OpenVolumeMesh__PropertyPtr_86) == 0) ? __CPROVER_allocate(sizeof(struct S31_class_OpenVolumeMesh__PropertyPtr_86) * (((u64)32ULL) / sizeof(struct S31_class_OpenVolumeMesh__PropertyPtr_86)), 0) : __CPROVER_allocate(((u64)32ULL), 0));
  v_alloc_note((u8*)v53);
  if (v_exc) {
    goto L25;
  }
  goto L16;
L16: ;
  v54 = (struct S31_class_OpenVolumeMesh__PropertyPtr_86*)v53;
  v55 = *v26;
  v56 = *v27;
  v57 = (fnptr_t**)(&(*v54).f0.f0.f0);
  v58 = (u8*)v0;
  (*v0).f0.f0 = (struct S12_class_OpenVolumeMesh__PropertyStorageT*)0;
  (*v0).f0.f1.f0 = (struct S20_class_std___Sp_counted_base*)0;
  *v57 = ((fnptr_t*)((u8**)(&(*(&_ZTVN14OpenVolumeMesh18PropertyStoragePtrIbEE)).f0.e[(s64)((s64)((u64)2ULL))])));
  v59 = (struct S12_class_OpenVolumeMesh__PropertyStorageT**)(&(*v54).f0.f0.f1.f0.f0);
  *v59 = v55;
  v60 = (struct S20_class_std___Sp_counted_base**)(&(*v54).f0.f0.f1.f0.f1.f0);
  *v60 = v56;
  *v57 = ((fnptr_t*)((u8**)(&(*(&_ZTVN14OpenVolumeMesh14HandleIndexingINS_6Entity4EdgeENS_18PropertyStoragePtrIbEEEE)).f0.e[(s64)((s64)((u64)2ULL))])));
  v61 = (fnptr_t**)(&(*v54).f1.f0);
  *v61 = ((fnptr_t*)((u8**)(&(*(&_ZTVN14OpenVolumeMesh15BasePropertyPtrE)).f0.e[(s64)((s64)((u64)2ULL))])));
  *v57 = ((fnptr_t*)((u8**)(&(*(&_ZTVN14OpenVolumeMesh11PropertyPtrIbNS_6Entity4EdgeEEE)).f0.e[(s64)((s64)((u64)2ULL))])));
  *v61 = ((fnptr_t*)((u8**)(&(*(&_ZTVN14OpenVolumeMesh11PropertyPtrIbNS_6Entity4EdgeEEE)).f1.e[(s64)((s64)((u64)2ULL))])));
  v62 = (u8*)(v53 + (s64)((s64)((u64)24ULL)));
  v63 = (u8**)&(*a0).f0.f0.f0.f0.f0.f0;
  *v63 = v62;
  v64 = (struct S20_class_std___Sp_counted_base**)(&(*v0).f0.f1.f0);
  v65 = *v64;
  v66 = ((u8*)v65 == (u8*)((struct S20_class_std___Sp_counted_base*)0));
  if (v66) {
    goto L24;
  } else {
    goto L17;
  }
L17: ;
  v67 = (u32*)(&(*v65).f1);
  v68 = (u64*)v67;
  v69 = (((u64)(*v65).f1 << 0) | ((u64)(*v65).f2 << 32));
  v70 = (v69 == ((u64)4294967297ULL));
  if (v70) {
    goto L18;
  } else {
    goto L19;
  }
L18: ;
  *v67 = ((u32)0ULL);
  v71 = (u32*)(&(*v65).f2);
  *v71 = ((u32)0ULL);
  v72 = (fnptr_t**)&(*v65).f0;
  v73 = *v72;
  v74 = (fnptr_t*)(v73 + (s64)((s64)((u64)2ULL)));
  v75 = *v74;
  ((FT1)v75)(v65);
  v76 = *v72;
  v77 = (fnptr_t*)(v76 + (s64)((s64)((u64)3ULL)));
  v78 = *v77;
  ((FT1)v78)(v65);
  goto L24;
L19: ;
  v79 = *(&__libc_single_threaded);
  v80 = (v79 == ((u8)0ULL));
  if (v80) {
    goto L21;
  } else {
    goto L20;
  }
L20: ;
  v81 = *v67;
  v82 = ((u32)(v81 + ((u32)4294967295ULL)));
  *v67 = v82;
  v85 = v81;
  goto L22;
L21: ;
  v83 = *v67;
  v84 = ((u32)(v83 + ((u32)4294967295ULL)));
  *v67 = v84;
  v85 = v83;
  goto L22;
L22: ;
  v86 = (v85 == ((u32)1ULL));
  if (v86) {
    goto L23;
  } else {
    goto L24;
  }
L23: ;
  _ZNSt16_Sp_counted_baseILN9__gnu_cxx12_Lock_policyE2EE24_M_release_last_use_coldEv(v65);
  goto L24;
L24: ;
  return;
L25: ;
  v87.f0 = v_exc_obj;
  v87.f1 = 0;
  v_exc = 0;
  v88 = (struct S30_class_std____shared_ptr_66*)(&(*v0).f0);
  _ZNSt12__shared_ptrIN14OpenVolumeMesh16PropertyStorageTIbEELN9__gnu_cxx12_Lock_policyE2EED2Ev(v88);
  v_exc = 1; return;
}

void _ZZN14OpenVolumeMesh16PropertyStorageTIbE17make_property_ptrEvENKUlT_E_clINS_6Entity8HalfEdgeEEEDaS2_(struct S26_class_std__unique_ptr* a0, struct S28_class_anon* a1) {
  struct S56_class_std__shared_ptr_65* v0; struct S56_class_std__shared_ptr_65 v0_m;
  u8** v1;
  u8* v2;
  u8* v3;
  u8* v4;
  u8* v5;
  struct S20_class_std___Sp_counted_base** v6;
  struct S20_class_std___Sp_counted_base* v7;
  u1 v8;
  u32* v9;
  u32 v10;
  u32 v11; u32 v11_t;
  u1 v12;
  u32 v13;
  u32 v14;
  u1 v15;
  u32 v16;
  struct S69 v17;
  struct S69 v18;
  u1 v19;
  u32 v20;
  u8* v21;
  u64* v22;
  fnptr_t** v23;
  struct S12_class_OpenVolumeMesh__PropertyStorageT** v24;
  struct S12_class_OpenVolumeMesh__PropertyStorageT* v25;
  struct S12_class_OpenVolumeMesh__PropertyStorageT** v26;
  struct S20_class_std___Sp_counted_base** v27;
  u8 v28;
  u1 v29;
  u32 v30;
  u32 v31;
  u32 v32;
  u32 v33;
  u64* v34;
  u64 v35;
  u1 v36;
  u32* v37;
  fnptr_t** v38;
  fnptr_t* v39;
  fnptr_t* v40;
  fnptr_t v41;
  fnptr_t* v42;
  fnptr_t* v43;
  fnptr_t v44;
  u8 v45;
  u1 v46;
  u32 v47;
  u32 v48;
  u32 v49;
  u32 v50;
  u32 v51; u32 v51_t;
  u1 v52;
  u8* v53;
  struct S31_class_OpenVolumeMesh__PropertyPtr_86* v54;
  struct S12_class_OpenVolumeMesh__PropertyStorageT* v55;
  struct S20_class_std___Sp_counted_base* v56;
  fnptr_t** v57;
  u8* v58;
  struct S12_class_OpenVolumeMesh__PropertyStorageT** v59;
  struct S20_class_std___Sp_counted_base** v60;
  fnptr_t** v61;
  u8* v62;
  u8** v63;
  struct S20_class_std___Sp_counted_base** v64;
  struct S20_class_std___Sp_counted_base* v65;
  u1 v66;
  u32* v67;
  u64* v68;
  u64 v69;
  u1 v70;
  u32* v71;
  fnptr_t** v72;
  fnptr_t* v73;
  fnptr_t* v74;
  fnptr_t v75;
  fnptr_t* v76;
  fnptr_t* v77;
  fnptr_t v78;
  u8 v79;
  u1 v80;
  u32 v81;
  u32 v82;
  u32 v83;
  u32 v84;
  u32 v85; u32 v85_t;
  u1 v86;
  struct S65 v87;
  struct S30_class_std____shared_ptr_66* v88;
L0: ;
  v0 = &v0_m;
  v1 = (u8**)&(*a1).f0;
  v2 = *v1;
  v3 = (u8*)v0;
  v4 = (u8*)(v2 + (s64)((s64)((u64)16ULL)));
  v5 = (u8*)(v2 + (s64)((s64)((u64)24ULL)));
  v6 = (struct S20_class_std___Sp_counted_base**)v5;
  v7 = *v6;
  v8 = ((u8*)v7 == (u8*)((struct S20_class_std___Sp_counted_base*)0));
  if (v8) {
    goto L4;
  } else {
    goto L1;
  }
L1: ;
  v9 = (u32*)(&(*v7).f1);
  v10 = *v9;
  v11 = v10;
  goto L2;
L2: ;
  v12 = (v11 == ((u32)0ULL));
  if (v12) {
    goto L4;
  } else {
    goto L3;
  }
L3: ;
  v13 = ((u32)(v11 + ((u32)1ULL)));
  v14 = *v9;
  v15 = (v14 == v11);
  v16 = (v15 ? v13 : v14);
  *v9 = v16;
  v17.f0 = v14;
  v18 = v17;
  v18.f1 = v15;
  v19 = v18.f1;
  v20 = v18.f0;
  if (v19) {
    goto L5;
  } else {
    v11 = v20;
    goto L2;
  }
L4: ;
  v21 = __cxa_allocate_exception(((u64)8ULL));
  v22 = (u64*)v21;
  *v22 = ((u64)0ULL);
  v23 = (fnptr_t**)v21;
  *v23 = ((fnptr_t*)((u8**)(&(*(&_ZTVSt12bad_weak_ptr)).f0.e[(s64)((s64)((u64)2ULL))])));
  __cxa_throw(v21, ((u8*)(&_ZTISt12bad_weak_ptr)), ((u8*)((fnptr_t)_ZNSt12bad_weak_ptrD1Ev)));
  if (v_exc) return;
  __CPROVER_assume(0);
L5: ;
  v24 = (struct S12_class_OpenVolumeMesh__PropertyStorageT**)v4;
  v25 = *v24;
  v26 = (struct S12_class_OpenVolumeMesh__PropertyStorageT**)(&(*v0).f0.f0);
  *v26 = v25;
  v27 = (struct S20_class_std___Sp_counted_base**)(&(*v0).f0.f1.f0);
  *v27 = v7;
  v28 = *(&__libc_single_threaded);
  v29 = (v28 == ((u8)0ULL));
  if (v29) {
    goto L7;
  } else {
    goto L6;
  }
L6: ;
  v30 = *v9;
  v31 = ((u32)(v30 + ((u32)1ULL)));
  *v9 = v31;
  goto L8;
L7: ;
  v32 = *v9;
  v33 = ((u32)(v32 + ((u32)1ULL)));
  *v9 = v33;
  goto L8;
L8: ;
  v34 = (u64*)v9;
  v35 = (((u64)(*v7).f1 << 0) | ((u64)(*v7).f2 << 32));
  v36 = (v35 == ((u64)4294967297ULL));
  if (v36) {
    goto L9;
  } else {
    goto L10;
  }
L9: ;
  *v9 = ((u32)0ULL);
  v37 = (u32*)(&(*v7).f2);
  *v37 = ((u32)0ULL);
  v38 = (fnptr_t**)&(*v7).f0;
  v39 = *v38;
  v40 = (fnptr_t*)(v39 + (s64)((s64)((u64)2ULL)));
  v41 = *v40;
  ((FT1)v41)(v7);
  v42 = *v38;
  v43 = (fnptr_t*)(v42 + (s64)((s64)((u64)3ULL)));
  v44 = *v43;
  ((FT1)v44)(v7);
  goto L15;
L10: ;
  v45 = *(&__libc_single_threaded);
  v46 = (v45 == ((u8)0ULL));
  if (v46) {
    goto L12;
  } else {
    goto L11;
  }
L11: ;
  v47 = *v9;
  v48 = ((u32)(v47 + ((u32)4294967295ULL)));
  *v9 = v48;
  v51 = v47;
  goto L13;
L12: ;
  v49 = *v9;
  v50 = ((u32)(v49 + ((u32)4294967295ULL)));
  *v9 = v50;
  v51 = v49;
  goto L13;
L13: ;
  v52 = (v51 == ((u32)1ULL));
  if (v52) {
    goto L14;
  } else {
    goto L15;
  }
L14: ;
  _ZNSt16_Sp_counted_baseILN9__gnu_cxx12_Lock_policyE2EE24_M_release_last_use_coldEv(v7);
  goto L15;
L15: ;
  v53 = (u8*)((((u64)32ULL) % sizeof(struct S31_class_OpenVolumeMesh__PropertyPtr_86) == 0) ? __CPROVER_allocate(sizeof(struct S31_class_OpenVolumeMesh__PropertyPtr_86) * (((u64)32ULL) / sizeof(struct S31_class_OpenVolumeMesh__PropertyPtr_86)), 0) : __CPROVER_allocate(((u64)32ULL), 0));
  v_alloc_note((u8*)v53);
  if (v_exc) {
    goto L25;
  }
  goto L16;
L16: ;
  v54 = (struct S31_class_OpenVolumeMesh__PropertyPtr_86*)v53;
  v55 = *v26;
  v56 = *v27;
  v57 = (fnptr_t**)(&(*v54).f0.f0.f0);
  v58 = (u8*)v0;
  (*v0).f0.f0 = (struct S12_class_OpenVolumeMesh__PropertyStorageT*)0;
  (*v0).f0.f1.f0 = (struct S20_class_std___Sp_counted_base*)0;
  *v57 = ((fnptr_t*)((u8**)(&(*(&_ZTVN14OpenVolumeMesh18PropertyStoragePtrIbEE)).f0.e[(s64)((s64)((u64)2ULL))])));
  v59 = (struct S12_class_OpenVolumeMesh__PropertyStorageT**)(&(*v54).f0.f0.f1.f0.f0);
  *v59 = v55;
  v60 = (struct S20_class_std___Sp_counted_base**)(&(*v54).f0.f0.f1.f0.f1.f0);
  *v60 = v56;
  *v57 = ((fnptr_t*)((u8**)(&(*(&_ZTVN14OpenVolumeMesh14HandleIndexingINS_6Entity8HalfEdgeENS_18PropertyStoragePtrIbEEEE)).f0.e[(s64)((s64)((u64)2ULL))])));
  v61 = (fnptr_t**)(&(*v54).f1.f0);
  *v61 = ((fnptr_t*)((u8**)(&(*(&_ZTVN14OpenVolumeMesh15BasePropertyPtrE)).f0.e[(s64)((s64)((u64)2ULL))])));
  *v57 = ((fnptr_t*)((u8**)(&(*(&_ZTVN14OpenVolumeMesh11PropertyPtrIbNS_6Entity8HalfEdgeEEE)).f0.e[(s64)((s64)((u64)2ULL))])));
  *v61 = ((fnptr_t*)((u8**)(&(*(&_ZTVN14OpenVolumeMesh11PropertyPtrIbNS_6Entity8HalfEdgeEEE)).f1.e[(s64)((s64)((u64)2ULL))])));
  v62 = (u8*)(v53 + (s64)((s64)((u64)24ULL)));
  v63 = (u8**)&(*a0).f0.f0.f0.f0.f0.f0;
  *v63 = v62;
  v64 = (struct S20_class_std___Sp_counted_base**)(&(*v0).f0.f1.f0);
  v65 = *v64;
  v66 = ((u8*)v65 == (u8*)((struct S20_class_std___Sp_counted_base*)0));
  if (v66) {
    goto L24;
  } else {
    goto L17;
  }
L17: ;
  v67 = (u32*)(&(*v65).f1);
  v68 = (u64*)v67;
  v69 = (((u64)(*v65).f1 << 0) | ((u64)(*v65).f2 << 32));
  v70 = (v69 == ((u64)4294967297ULL));
  if (v70) {
    goto L18;
  } else {
    goto L19;
  }
L18: ;
  *v67 = ((u32)0ULL);
  v71 = (u32*)(&(*v65).f2);
  *v71 = ((u32)0ULL);
  v72 = (fnptr_t**)&(*v65).f0;
  v73 = *v72;
  v74 = (fnptr_t*)(v73 + (s64)((s64)((u64)2ULL)));
  v75 = *v74;
  ((FT1)v75)(v65);
  v76 = *v72;
  v77 = (fnptr_t*)(v76 + (s64)((s64)((u64)3ULL)));
  v78 = *v77;
  ((FT1)v78)(v65);
  goto L24;
L19: ;
  v79 = *(&__libc_single_threaded);
  v80 = (v79 == ((u8)0ULL));
  if (v80) {
    goto L21;
  } else {
    goto L20;
  }
L20: ;
  v81 = *v67;
  v82 = ((u32)(v81 + ((u32)4294967295ULL)));
  *v67 = v82;
  v85 = v81;
  goto L22;
L21: ;
  v83 = *v67;
  v84 = ((u32)(v83 + ((u32)4294967295ULL)));
  *v67 = v84;
  v85 = v83;
  goto L22;
L22: ;
  v86 = (v85 == ((u32)1ULL));
  if (v86) {
    goto L23;
  } else {
    goto L24;
  }
L23: ;
  _ZNSt16_Sp_counted_baseILN9__gnu_cxx12_Lock_policyE2EE24_M_release_last_use_coldEv(v65);
  goto L24;
L24: ;
  return;
L25: ;
  v87.f0 = v_exc_obj;
  v87.f1 = 0;
  v_exc = 0;
  v88 = (struct S30_class_std____shared_ptr_66*)(&(*v0).f0);
  _ZNSt12__shared_ptrIN14OpenVolumeMesh16PropertyStorageTIbEELN9__gnu_cxx12_Lock_policyE2EED2Ev(v88);
  v_exc = 1; return;
}

void _ZZN14OpenVolumeMesh16PropertyStorageTIbE17make_property_ptrEvENKUlT_E_clINS_6Entity4FaceEEEDaS2_(struct S26_class_std__unique_ptr* a0, struct S28_class_anon* a1) {
  struct S56_class_std__shared_ptr_65* v0; struct S56_class_std__shared_ptr_65 v0_m;
  u8** v1;
  u8* v2;
  u8* v3;
  u8* v4;
  u8* v5;
  struct S20_class_std___Sp_counted_base** v6;
  struct S20_class_std___Sp_counted_base* v7;
  u1 v8;
  u32* v9;
  u32 v10;
  u32 v11; u32 v11_t;
  u1 v12;
  u32 v13;
  u32 v14;
  u1 v15;
  u32 v16;
  struct S69 v17;
  struct S69 v18;
  u1 v19;
  u32 v20;
  u8* v21;
  u64* v22;
  fnptr_t** v23;
  struct S12_class_OpenVolumeMesh__PropertyStorageT** v24;
  struct S12_class_OpenVolumeMesh__PropertyStorageT* v25;
  struct S12_class_OpenVolumeMesh__PropertyStorageT** v26;
  struct S20_class_std___Sp_counted_base** v27;
  u8 v28;
  u1 v29;
  u32 v30;
  u32 v31;
  u32 v32;
  u32 v33;
  u64* v34;
  u64 v35;
  u1 v36;
  u32* v37;
  fnptr_t** v38;
  fnptr_t* v39;
  fnptr_t* v40;
  fnptr_t v41;
  fnptr_t* v42;
  fnptr_t* v43;
  fnptr_t v44;
  u8 v45;
  u1 v46;
  u32 v47;
  u32 v48;
  u32 v49;
  u32 v50;
  u32 v51; u32 v51_t;
  u1 v52;
  u8* v53;
  struct S31_class_OpenVolumeMesh__PropertyPtr_86* v54;
  struct S12_class_OpenVolumeMesh__PropertyStorageT* v55;
  struct S20_class_std___Sp_counted_base* v56;
  fnptr_t** v57;
  u8* v58;
  struct S12_class_OpenVolumeMesh__PropertyStorageT** v59;
  struct S20_class_std___Sp_counted_base** v60;
  fnptr_t** v61;
  u8* v62;
  u8** v63;
  struct S20_class_std___Sp_counted_base** v64;
  struct S20_class_std___Sp_counted_base* v65;
  u1 v66;
  u32* v67;
  u64* v68;
  u64 v69;
  u1 v70;
  u32* v71;
  fnptr_t** v72;
  fnptr_t* v73;
  fnptr_t* v74;
  fnptr_t v75;
  fnptr_t* v76;
  fnptr_t* v77;
  fnptr_t v78;
  u8 v79;
  u1 v80;
  u32 v81;
  u32 v82;
  u32 v83;
  u32 v84;
  u32 v85; u32 v85_t;
  u1 v86;
  struct S65 v87;
  struct S30_class_std____shared_ptr_66* v88;
L0: ;
  v0 = &v0_m;
  v1 = (u8**)&(*a1).f0;
  v2 = *v1;
  v3 = (u8*)v0;
  v4 = (u8*)(v2 + (s64)((s64)((u64)16ULL)));
  v5 = (u8*)(v2 + (s64)((s64)((u64)24ULL)));
  v6 = (struct S20_class_std___Sp_counted_base**)v5;
  v7 = *v6;
  v8 = ((u8*)v7 == (u8*)((struct S20_class_std___Sp_counted_base*)0));
  if (v8) {
    goto L4;
  } else {
    goto L1;
  }
L1: ;
  v9 = (u32*)(&(*v7).f1);
  v10 = *v9;
  v11 = v10;
  goto L2;
L2: ;
  v12 = (v11 == ((u32)0ULL));
  if (v12) {
    goto L4;
  } else {
    goto L3;
  }
L3: ;
  v13 = ((u32)(v11 + ((u32)1ULL)));
  v14 = *v9;
  v15 = (v14 == v11);
  v16 = (v15 ? v13 : v14);
  *v9 = v16;
  v17.f0 = v14;
  v18 = v17;
  v18.f1 = v15;
  v19 = v18.f1;
  v20 = v18.f0;
  if (v19) {
    goto L5;
  } else {
    v11 = v20;
    goto L2;
  }
L4: ;
  v21 = __cxa_allocate_exception(((u64)8ULL));
  v22 = (u64*)v21;
  *v22 = ((u64)0ULL);
  v23 = (fnptr_t**)v21;
  *v23 = ((fnptr_t*)((u8**)(&(*(&_ZTVSt12bad_weak_ptr)).f0.e[(s64)((s64)((u64)2ULL))])));
  __cxa_throw(v21, ((u8*)(&_ZTISt12bad_weak_ptr)), ((u8*)((fnptr_t)_ZNSt12bad_weak_ptrD1Ev)));
  if (v_exc) return;
  __CPROVER_assume(0);
L5: ;
  v24 = (struct S12_class_OpenVolumeMesh__PropertyStorageT**)v4;
  v25 = *v24;
  v26 = (struct S12_class_OpenVolumeMesh__PropertyStorageT**)(&(*v0).f0.f0);
  *v26 = v25;
  v27 = (struct S20_class_std___Sp_counted_base**)(&(*v0).f0.f1.f0);
  *v27 = v7;
  v28 = *(&__libc_single_threaded);
  v29 = (v28 == ((u8)0ULL));
  if (v29) {
    goto L7;
  } else {
    goto L6;
  }
L6: ;
  v30 = *v9;
  v31 = ((u32)(v30 + ((u32)1ULL)));
  *v9 = v31;
  goto L8;
L7: ;
  v32 = *v9;
  v33 = ((u32)(v32 + ((u32)1ULL)));
  *v9 = v33;
  goto L8;
L8: ;
  v34 = (u64*)v9;
  v35 = (((u64)(*v7).f1 << 0) | ((u64)(*v7).f2 << 32));
  v36 = (v35 == ((u64)4294967297ULL));
  if (v36) {
    goto L9;
  } else {
    goto L10;
  }
L9: ;
  *v9 = ((u32)0ULL);
  v37 = (u32*)(&(*v7).f2);
  *v37 = ((u32)0ULL);
  v38 = (fnptr_t**)&(*v7).f0;
  v39 = *v38;
  v40 = (fnptr_t*)(v39 + (s64)((s64)((u64)2ULL)));
  v41 = *v40;
  ((FT1)v41)(v7);
  v42 = *v38;
  v43 = (fnptr_t*)(v42 + (s64)((s64)((u64)3ULL)));
  v44 = *v43;
  ((FT1)v44)(v7);
  goto L15;
L10: ;
  v45 = *(&__libc_single_threaded);
  v46 = (v45 == ((u8)0ULL));
  if (v46) {
    goto L12;
  } else {
    goto L11;
  }
L11: ;
  v47 = *v9;
  v48 = ((u32)(v47 + ((u32)4294967295ULL)));
  *v9 = v48;
  v51 = v47;
  goto L13;
L12: ;
  v49 = *v9;
  v50 = ((u32)(v49 + ((u32)4294967295ULL)));
  *v9 = v50;
  v51 = v49;
  goto L13;
L13: ;
  v52 = (v51 == ((u32)1ULL));
  if (v52) {
    goto L14;
  } else {
    goto L15;
  }
L14: ;
  _ZNSt16_Sp_counted_baseILN9__gnu_cxx12_Lock_policyE2EE24_M_release_last_use_coldEv(v7);
  goto L15;
L15: ;
  v53 = (u8*)((((u64)32ULL) % sizeof(struct S31_class_OpenVolumeMesh__PropertyPtr_86) == 0) ? __CPROVER_allocate(sizeof(struct S31_class_OpenVolumeMesh__PropertyPtr_86) * (((u64)32ULL) / sizeof(struct S31_class_OpenVolumeMesh__PropertyPtr_86)), 0) : __CPROVER_allocate(((u64)32ULL), 0));
  v_alloc_note((u8*)v53);
  if (v_exc) {
    goto L25;
  }
  goto L16;
L16: ;
  v54 = (struct S31_class_OpenVolumeMesh__PropertyPtr_86*)v53;
  v55 = *v26;
  v56 = *v27;
  v57 = (fnptr_t**)(&(*v54).f0.f0.f0);
  v58 = (u8*)v0;
  (*v0).f0.f0 = (struct S12_class_OpenVolumeMesh__PropertyStorageT*)0;
  (*v0).f0.f1.f0 = (struct S20_class_std___Sp_counted_base*)0;
  *v57 = ((fnptr_t*)((u8**)(&(*(&_ZTVN14OpenVolumeMesh18PropertyStoragePtrIbEE)).f0.e[(s64)((s64)((u64)2ULL))])));
  v59 = (struct S12_class_OpenVolumeMesh__PropertyStorageT**)(&(*v54).f0.f0.f1.f0.f0);
  *v59 = v55;
  v60 = (struct S20_class_std___Sp_counted_base**)(&(*v54).f0.f0.f1.f0.f1.f0);
  *v60 = v56;
  *v57 = ((fnptr_t*)((u8**)(&(*(&_ZTVN14OpenVolumeMesh14HandleIndexingINS_6Entity4FaceENS_18PropertyStoragePtrIbEEEE)).f0.e[(s64)((s64)((u64)2ULL))])));
  v61 = (fnptr_t**)(&(*v54).f1.f0);
  *v61 = ((fnptr_t*)((u8**)(&(*(&_ZTVN14OpenVolumeMesh15BasePropertyPtrE)).f0.e[(s64)((s64)((u64)2ULL))])));
  *v57 = ((fnptr_t*)((u8**)(&(*(&_ZTVN14OpenVolumeMesh11PropertyPtrIbNS_6Entity4FaceEEE)).f0.e[(s64)((s64)((u64)2ULL))])));
  *v61 = ((fnptr_t*)((u8**)(&(*(&_ZTVN14OpenVolumeMesh11PropertyPtrIbNS_6Entity4FaceEEE)).f1.e[(s64)((s64)((u64)2ULL))])));
  v62 = (u8*)(v53 + (s64)((s64)((u64)24ULL)));
  v63 = (u8**)&(*a0).f0.f0.f0.f0.f0.f0;
  *v63 = v62;
  v64 = (struct S20_class_std___Sp_counted_base**)(&(*v0).f0.f1.f0);
  v65 = *v64;
  v66 = ((u8*)v65 == (u8*)((struct S20_class_std___Sp_counted_base*)0));
  if (v66) {
    goto L24;
  } else {
    goto L17;
  }
L17: ;
  v67 = (u32*)(&(*v65).f1);
  v68 = (u64*)v67;
  v69 = (((u64)(*v65).f1 << 0) | ((u64)(*v65).f2 << 32));
  v70 = (v69 == ((u64)4294967297ULL));
  if (v70) {
    goto L18;
  } else {
    goto L19;
  }
L18: ;
  *v67 = ((u32)0ULL);
  v71 = (u32*)(&(*v65).f2);
  *v71 = ((u32)0ULL);
  v72 = (fnptr_t**)&(*v65).f0;
  v73 = *v72;
  v74 = (fnptr_t*)(v73 + (s64)((s64)((u64)2ULL)));
  v75 = *v74;
  ((FT1)v75)(v65);
  v76 = *v72;
  v77 = (fnptr_t*)(v76 + (s64)((s64)((u64)3ULL)));
  v78 = *v77;
  ((FT1)v78)(v65);
  goto L24;
L19: ;
  v79 = *(&__libc_single_threaded);
  v80 = (v79 == ((u8)0ULL));
  if (v80) {
    goto L21;
  } else {
    goto L20;
  }
L20: ;
  v81 = *v67;
  v82 = ((u32)(v81 + ((u32)4294967295ULL)));
  *v67 = v82;
  v85 = v81;
  goto L22;
L21: ;
  v83 = *v67;
  v84 = ((u32)(v83 + ((u32)4294967295ULL)));
  *v67 = v84;
  v85 = v83;
  goto L22;
L22: ;
  v86 = (v85 == ((u32)1ULL));
  if (v86) {
    goto L23;
  } else {
    goto L24;
  }
L23: ;
  _ZNSt16_Sp_counted_baseILN9__gnu_cxx12_Lock_policyE2EE24_M_release_last_use_coldEv(v65);
  goto L24;
L24: ;
  return;
L25: ;
  v87.f0 = v_exc_obj;
  v87.f1 = 0;
  v_exc = 0;
  v88 = (struct S30_class_std____shared_ptr_66*)(&(*v0).f0);
  _ZNSt12__shared_ptrIN14OpenVolumeMesh16PropertyStorageTIbEELN9__gnu_cxx12_Lock_policyE2EED2Ev(v88);
  v_exc = 1; return;
}

void _ZZN14OpenVolumeMesh16PropertyStorageTIbE17make_property_ptrEvENKUlT_E_clINS_6Entity8HalfFaceEEEDaS2_(struct S26_class_std__unique_ptr* a0, struct S28_class_anon* a1) {
  struct S56_class_std__shared_ptr_65* v0; struct S56_class_std__shared_ptr_65 v0_m;
  u8** v1;
  u8* v2;
  u8* v3;
  u8* v4;
  u8* v5;
  struct S20_class_std___Sp_counted_base** v6;
  struct S20_class_std___Sp_counted_base* v7;
  u1 v8;
  u32* v9;
  u32 v10;
  u32 v11; u32 v11_t;
  u1 v12;
  u32 v13;
  u32 v14;
  u1 v15;
  u32 v16;
  struct S69 v17;
  struct S69 v18;
  u1 v19;
  u32 v20;
  u8* v21;
  u64* v22;
  fnptr_t** v23;
  struct S12_class_OpenVolumeMesh__PropertyStorageT** v24;
  struct S12_class_OpenVolumeMesh__PropertyStorageT* v25;
  struct S12_class_OpenVolumeMesh__PropertyStorageT** v26;
  struct S20_class_std___Sp_counted_base** v27;
  u8 v28;
  u1 v29;
  u32 v30;
  u32 v31;
  u32 v32;
  u32 v33;
  u64* v34;
  u64 v35;
  u1 v36;
  u32* v37;
  fnptr_t** v38;
  fnptr_t* v39;
  fnptr_t* v40;
  fnptr_t v41;
  fnptr_t* v42;
  fnptr_t* v43;
  fnptr_t v44;
  u8 v45;
  u1 v46;
  u32 v47;
  u32 v48;
  u32 v49;
  u32 v50;
  u32 v51; u32 v51_t;
  u1 v52;
  u8* v53;
  struct S31_class_OpenVolumeMesh__PropertyPtr_86* v54;
  struct S12_class_OpenVolumeMesh__PropertyStorageT* v55;
  struct S20_class_std___Sp_counted_base* v56;
  fnptr_t** v57;
  u8* v58;
  struct S12_class_OpenVolumeMesh__PropertyStorageT** v59;
  struct S20_class_std___Sp_counted_base** v60;
  fnptr_t** v61;
  u8* v62;
  u8** v63;
  struct S20_class_std___Sp_counted_base** v64;
  struct S20_class_std___Sp_counted_base* v65;
  u1 v66;
  u32* v67;
  u64* v68;
  u64 v69;
  u1 v70;
  u32* v71;
  fnptr_t** v72;
  fnptr_t* v73;
  fnptr_t* v74;
  fnptr_t v75;
  fnptr_t* v76;
  fnptr_t* v77;
  fnptr_t v78;
  u8 v79;
  u1 v80;
  u32 v81;
  u32 v82;
  u32 v83;
  u32 v84;
  u32 v85; u32 v85_t;
  u1 v86;
  struct S65 v87;
  struct S30_class_std____shared_ptr_66* v88;
L0: ;
  v0 = &v0_m;
  v1 = (u8**)&(*a1).f0;
  v2 = *v1;
  v3 = (u8*)v0;
  v4 = (u8*)(v2 + (s64)((s64)((u64)16ULL)));
  v5 = (u8*)(v2 + (s64)((s64)((u64)24ULL)));
  v6 = (struct S20_class_std___Sp_counted_base**)v5;
  v7 = *v6;
  v8 = ((u8*)v7 == (u8*)((struct S20_class_std___Sp_counted_base*)0));
  if (v8) {
    goto L4;
  } else {
    goto L1;
  }
L1: ;
  v9 = (u32*)(&(*v7).f1);
  v10 = *v9;
  v11 = v10;
  goto L2;
L2: ;
  v12 = (v11 == ((u32)0ULL));
  if (v12) {
    goto L4;
  } else {
    goto L3;
  }
L3: ;
  v13 = ((u32)(v11 + ((u32)1ULL)));
  v14 = *v9;
  v15 = (v14 == v11);
  v16 = (v15 ? v13 : v14);
  *v9 = v16;
  v17.f0 = v14;
  v18 = v17;
  v18.f1 = v15;
  v19 = v18.f1;
  v20 = v18.f0;
  if (v19) {
    goto L5;
  } else {
    v11 = v20;
    goto L2;
  }
L4: ;
  v21 = __cxa_allocate_exception(((u64)8ULL));
  v22 = (u64*)v21;
  *v22 = ((u64)0ULL);
  v23 = (fnptr_t**)v21;
  *v23 = ((fnptr_t*)((u8**)(&(*(&_ZTVSt12bad_weak_ptr)).f0.e[(s64)((s64)((u64)2ULL))])));
  __cxa_throw(v21, ((u8*)(&_ZTISt12bad_weak_ptr)), ((u8*)((fnptr_t)_ZNSt12bad_weak_ptrD1Ev)));
  if (v_exc) return;
  __CPROVER_assume(0);
L5: ;
  v24 = (struct S12_class_OpenVolumeMesh__PropertyStorageT**)v4;
  v25 = *v24;
  v26 = (struct S12_class_OpenVolumeMesh__PropertyStorageT**)(&(*v0).f0.f0);
  *v26 = v25;
  v27 = (struct S20_class_std___Sp_counted_base**)(&(*v0).f0.f1.f0);
  *v27 = v7;
  v28 = *(&__libc_single_threaded);
  v29 = (v28 == ((u8)0ULL));
  if (v29) {
    goto L7;
  } else {
    goto L6;
  }
L6: ;
  v30 = *v9;
  v31 = ((u32)(v30 + ((u32)1ULL)));
  *v9 = v31;
  goto L8;
L7: ;
  v32 = *v9;
  v33 = ((u32)(v32 + ((u32)1ULL)));
  *v9 = v33;
  goto L8;
L8: ;
  v34 = (u64*)v9;
  v35 = (((u64)(*v7).f1 << 0) | ((u64)(*v7).f2 << 32));
  v36 = (v35 == ((u64)4294967297ULL));
  if (v36) {
    goto L9;
  } else {
    goto L10;
  }
L9: ;
  *v9 = ((u32)0ULL);
  v37 = (u32*)(&(*v7).f2);
  *v37 = ((u32)0ULL);
  v38 = (fnptr_t**)&(*v7).f0;
  v39 = *v38;
  v40 = (fnptr_t*)(v39 + (s64)((s64)((u64)2ULL)));
  v41 = *v40;
  ((FT1)v41)(v7);
  v42 = *v38;
  v43 = (fnptr_t*)(v42 + (s64)((s64)((u64)3ULL)));
  v44 = *v43;
  ((FT1)v44)(v7);
  goto L15;
L10: ;
  v45 = *(&__libc_single_threaded);
  v46 = (v45 == ((u8)0ULL));
  if (v46) {
    goto L12;
  } else {
    goto L11;
  }
L11: ;
  v47 = *v9;
  v48 = ((u32)(v47 + ((u32)4294967295ULL)));
  *v9 = v48;
  v51 = v47;
  goto L13;
L12: ;
  v49 = *v9;
  v50 = ((u32)(v49 + ((u32)4294967295ULL)));
  *v9 = v50;
  v51 = v49;
  goto L13;
L13: ;
  v52 = (v51 == ((u32)1ULL));
  if (v52) {
    goto L14;
  } else {
    goto L15;
  }
L14: ;
  _ZNSt16_Sp_counted_baseILN9__gnu_cxx12_Lock_policyE2EE24_M_release_last_use_coldEv(v7);
  goto L15;
L15: ;
  v53 = (u8*)((((u64)32ULL) % sizeof(struct S31_class_OpenVolumeMesh__PropertyPtr_86) == 0) ? __CPROVER_allocate(sizeof(struct S31_class_OpenVolumeMesh__PropertyPtr_86) * (((u64)32ULL) / sizeof(struct S31_class_OpenVolumeMesh__PropertyPtr_86)), 0) : __CPROVER_allocate(((u64)32ULL), 0));
  v_alloc_note((u8*)v53);
  if (v_exc) {
    goto L25;
  }
  goto L16;
L16: ;
  v54 = (struct S31_class_OpenVolumeMesh__PropertyPtr_86*)v53;
  v55 = *v26;
  v56 = *v27;
  v57 = (fnptr_t**)(&(*v54).f0.f0.f0);
  v58 = (u8*)v0;
  (*v0).f0.f0 = (struct S12_class_OpenVolumeMesh__PropertyStorageT*)0;
  (*v0).f0.f1.f0 = (struct S20_class_std___Sp_counted_base*)0;
  *v57 = ((fnptr_t*)((u8**)(&(*(&_ZTVN14OpenVolumeMesh18PropertyStoragePtrIbEE)).f0.e[(s64)((s64)((u64)2ULL))])));
  v59 = (struct S12_class_OpenVolumeMesh__PropertyStorageT**)(&(*v54).f0.f0.f1.f0.f0);
  *v59 = v55;
  v60 = (struct S20_class_std___Sp_counted_base**)(&(*v54).f0.f0.f1.f0.f1.f0);
  *v60 = v56;
  *v57 = ((fnptr_t*)((u8**)(&(*(&_ZTVN14OpenVolumeMesh14HandleIndexingINS_6Entity8HalfFaceENS_18PropertyStoragePtrIbEEEE)).f0.e[(s64)((s64)((u64)2ULL))])));
  v61 = (fnptr_t**)(&(*v54).f1.f0);
  *v61 = ((fnptr_t*)((u8**)(&(*(&_ZTVN14OpenVolumeMesh15BasePropertyPtrE)).f0.e[(s64)((s64)((u64)2ULL))])));
  *v57 = ((fnptr_t*)((u8**)(&(*(&_ZTVN14OpenVolumeMesh11PropertyPtrIbNS_6Entity8HalfFaceEEE)).f0.e[(s64)((s64)((u64)2ULL))])));
  *v61 = ((fnptr_t*)((u8**)(&(*(&_ZTVN14OpenVolumeMesh11PropertyPtrIbNS_6Entity8HalfFaceEEE)).f1.e[(s64)((s64)((u64)2ULL))])));
  v62 = (u8*)(v53 + (s64)((s64)((u64)24ULL)));
  v63 = (u8**)&(*a0).f0.f0.f0.f0.f0.f0;
  *v63 = v62;
  v64 = (struct S20_class_std___Sp_counted_base**)(&(*v0).f0.f1.f0);
  v65 = *v64;
  v66 = ((u8*)v65 == (u8*)((struct S20_class_std___Sp_counted_base*)0));
  if (v66) {
    goto L24;
  } else {
    goto L17;
  }
L17: ;
  v67 = (u32*)(&(*v65).f1);
  v68 = (u64*)v67;
  v69 = (((u64)(*v65).f1 << 0) | ((u64)(*v65).f2 << 32));
  v70 = (v69 == ((u64)4294967297ULL));
  if (v70) {
    goto L18;
  } else {
    goto L19;
  }
L18: ;
  *v67 = ((u32)0ULL);
  v71 = (u32*)(&(*v65).f2);
  *v71 = ((u32)0ULL);
  v72 = (fnptr_t**)&(*v65).f0;
  v73 = *v72;
  v74 = (fnptr_t*)(v73 + (s64)((s64)((u64)2ULL)));
  v75 = *v74;
  ((FT1)v75)(v65);
  v76 = *v72;
  v77 = (fnptr_t*)(v76 + (s64)((s64)((u64)3ULL)));
  v78 = *v77;
  ((FT1)v78)(v65);
  goto L24;
L19: ;
  v79 = *(&__libc_single_threaded);
  v80 = (v79 == ((u8)0ULL));
  if (v80) {
    goto L21;
  } else {
    goto L20;
  }
L20: ;
  v81 = *v67;
  v82 = ((u32)(v81 + ((u32)4294967295ULL)));
  *v67 = v82;
  v85 = v81;
  goto L22;
L21: ;
  v83 = *v67;
  v84 = ((u32)(v83 + ((u32)4294967295ULL)));
  *v67 = v84;
  v85 = v83;
  goto L22;
L22: ;
  v86 = (v85 == ((u32)1ULL));
  if (v86) {
    goto L23;
  } else {
    goto L24;
  }
L23: ;
  _ZNSt16_Sp_counted_baseILN9__gnu_cxx12_Lock_policyE2EE24_M_release_last_use_coldEv(v65);
  goto L24;
L24: ;
  return;
L25: ;
  v87.f0 = v_exc_obj;
  v87.f1 = 0;
  v_exc = 0;
  v88 = (struct S30_class_std____shared_ptr_66*)(&(*v0).f0);
  _ZNSt12__shared_ptrIN14OpenVolumeMesh16PropertyStorageTIbEELN9__gnu_cxx12_Lock_policyE2EED2Ev(v88);
  v_exc = 1; return;
}

void _ZZN14OpenVolumeMesh16PropertyStorageTIbE17make_property_ptrEvENKUlT_E_clINS_6Entity4CellEEEDaS2_(struct S26_class_std__unique_ptr* a0, struct S28_class_anon* a1) {
  struct S56_class_std__shared_ptr_65* v0; struct S56_class_std__shared_ptr_65 v0_m;
  u8** v1;
  u8* v2;
  u8* v3;
  u8* v4;
  u8* v5;
  struct S20_class_std___Sp_counted_base** v6;
  struct S20_class_std___Sp_counted_base* v7;
  u1 v8;
  u32* v9;
  u32 v10;
  u32 v11; u32 v11_t;
  u1 v12;
  u32 v13;
  u32 v14;
  u1 v15;
  u32 v16;
  struct S69 v17;
  struct S69 v18;
  u1 v19;
  u32 v20;
  u8* v21;
  u64* v22;
  fnptr_t** v23;
  struct S12_class_OpenVolumeMesh__PropertyStorageT** v24;
  struct S12_class_OpenVolumeMesh__PropertyStorageT* v25;
  struct S12_class_OpenVolumeMesh__PropertyStorageT** v26;
  struct S20_class_std___Sp_counted_base** v27;
  u8 v28;
  u1 v29;
  u32 v30;
  u32 v31;
  u32 v32;
  u32 v33;
  u64* v34;
  u64 v35;
  u1 v36;
  u32* v37;
  fnptr_t** v38;
  fnptr_t* v39;
  fnptr_t* v40;
  fnptr_t v41;
  fnptr_t* v42;
  fnptr_t* v43;
  fnptr_t v44;
  u8 v45;
  u1 v46;
  u32 v47;
  u32 v48;
  u32 v49;
  u32 v50;
  u32 v51; u32 v51_t;
  u1 v52;
  u8* v53;
  struct S31_class_OpenVolumeMesh__PropertyPtr_86* v54;
  struct S12_class_OpenVolumeMesh__PropertyStorageT* v55;
  struct S20_class_std___Sp_counted_base* v56;
  fnptr_t** v57;
  u8* v58;
  struct S12_class_OpenVolumeMesh__PropertyStorageT** v59;
  struct S20_class_std___Sp_counted_base** v60;
  fnptr_t** v61;
  u8* v62;
  u8** v63;
  struct S20_class_std___Sp_counted_base** v64;
  struct S20_class_std___Sp_counted_base* v65;
  u1 v66;
  u32* v67;
  u64* v68;
  u64 v69;
  u1 v70;
  u32* v71;
  fnptr_t** v72;
  fnptr_t* v73;
  fnptr_t* v74;
  fnptr_t v75;
  fnptr_t* v76;
  fnptr_t* v77;
  fnptr_t v78;
  u8 v79;
  u1 v80;
  u32 v81;
  u32 v82;
  u32 v83;
  u32 v84;
  u32 v85; u32 v85_t;
  u1 v86;
  struct S65 v87;
  struct S30_class_std____shared_ptr_66* v88;
L0: ;
  v0 = &v0_m;
  v1 = (u8**)&(*a1).f0;
  v2 = *v1;
  v3 = (u8*)v0;
  v4 = (u8*)(v2 + (s64)((s64)((u64)16ULL)));
  v5 = (u8*)(v2 + (s64)((s64)((u64)24ULL)));
  v6 = (struct S20_class_std___Sp_counted_base**)v5;
  v7 = *v6;
  v8 = ((u8*)v7 == (u8*)((struct S20_class_std___Sp_counted_base*)0));
  if (v8) {
    goto L4;
  } else {
    goto L1;
  }
L1: ;
  v9 = (u32*)(&(*v7).f1);
  v10 = *v9;
  v11 = v10;
  goto L2;
L2: ;
  v12 = (v11 == ((u32)0ULL));
  if (v12) {
    goto L4;
  } else {
    goto L3;
  }
L3: ;
  v13 = ((u32)(v11 + ((u32)1ULL)));
  v14 = *v9;
  v15 = (v14 == v11);
  v16 = (v15 ? v13 : v14);
  *v9 = v16;
  v17.f0 = v14;
  v18 = v17;
  v18.f1 = v15;
  v19 = v18.f1;
  v20 = v18.f0;
  if (v19) {
    goto L5;
  } else {
    v11 = v20;
    goto L2;
  }
L4: ;
  v21 = __cxa_allocate_exception(((u64)8ULL));
  v22 = (u64*)v21;
  *v22 = ((u64)0ULL);
  v23 = (fnptr_t**)v21;
  *v23 = ((fnptr_t*)((u8**)(&(*(&_ZTVSt12bad_weak_ptr)).f0.e[(s64)((s64)((u64)2ULL))])));
  __cxa_throw(v21, ((u8*)(&_ZTISt12bad_weak_ptr)), ((u8*)((fnptr_t)_ZNSt12bad_weak_ptrD1Ev)));
  if (v_exc) return;
  __CPROVER_assume(0);
L5: ;
  v24 = (struct S12_class_OpenVolumeMesh__PropertyStorageT**)v4;
  v25 = *v24;
  v26 = (struct S12_class_OpenVolumeMesh__PropertyStorageT**)(&(*v0).f0.f0);
  *v26 = v25;
  v27 = (struct S20_class_std___Sp_counted_base**)(&(*v0).f0.f1.f0);
  *v27 = v7;
  v28 = *(&__libc_single_threaded);
  v29 = (v28 == ((u8)0ULL));
  if (v29) {
    goto L7;
  } else {
    goto L6;
  }
L6: ;
  v30 = *v9;
  v31 = ((u32)(v30 + ((u32)1ULL)));
  *v9 = v31;
  goto L8;
L7: ;
  v32 = *v9;
  v33 = ((u32)(v32 + ((u32)1ULL)));
  *v9 = v33;
  goto L8;
L8: ;
  v34 = (u64*)v9;
  v35 = (((u64)(*v7).f1 << 0) | ((u64)(*v7).f2 << 32));
  v36 = (v35 == ((u64)4294967297ULL));
  if (v36) {
    goto L9;
  } else {
    goto L10;
  }
L9: ;
  *v9 = ((u32)0ULL);
  v37 = (u32*)(&(*v7).f2);
  *v37 = ((u32)0ULL);
  v38 = (fnptr_t**)&(*v7).f0;
  v39 = *v38;
  v40 = (fnptr_t*)(v39 + (s64)((s64)((u64)2ULL)));
  v41 = *v40;
  ((FT1)v41)(v7);
  v42 = *v38;
  v43 = (fnptr_t*)(v42 + (s64)((s64)((u64)3ULL)));
  v44 = *v43;
  ((FT1)v44)(v7);
  goto L15;
L10: ;
  v45 = *(&__libc_single_threaded);
  v46 = (v45 == ((u8)0ULL));
  if (v46) {
    goto L12;
  } else {
    goto L11;
  }
L11: ;
  v47 = *v9;
  v48 = ((u32)(v47 + ((u32)4294967295ULL)));
  *v9 = v48;
  v51 = v47;
  goto L13;
L12: ;
  v49 = *v9;
  v50 = ((u32)(v49 + ((u32)4294967295ULL)));
  *v9 = v50;
  v51 = v49;
  goto L13;
L13: ;
  v52 = (v51 == ((u32)1ULL));
  if (v52) {
    goto L14;
  } else {
    goto L15;
  }
L14: ;
  _ZNSt16_Sp_counted_baseILN9__gnu_cxx12_Lock_policyE2EE24_M_release_last_use_coldEv(v7);
  goto L15;
L15: ;
  v53 = (u8*)((((u64)32ULL) % sizeof(struct S31_class_OpenVolumeMesh__PropertyPtr_86) == 0) ? __CPROVER_allocate(sizeof(struct S31_class_OpenVolumeMesh__PropertyPtr_86) * (((u64)32ULL) / sizeof(struct S31_class_OpenVolumeMesh__PropertyPtr_86)), 0) : __CPROVER_allocate(((u64)32ULL), 0));
  v_alloc_note((u8*)v53);
  if (v_exc) {
    goto L25;
  }
  goto L16;
L16: ;
  v54 = (struct S31_class_OpenVolumeMesh__PropertyPtr_86*)v53;
  v55 = *v26;
  v56 = *v27;
  v57 = (fnptr_t**)(&(*v54).f0.f0.f0);
  v58 = (u8*)v0;
  (*v0).f0.f0 = (struct S12_class_OpenVolumeMesh__PropertyStorageT*)0;
  (*v0).f0.f1.f0 = (struct S20_class_std___Sp_counted_base*)0;
  *v57 = ((fnptr_t*)((u8**)(&(*(&_ZTVN14OpenVolumeMesh18PropertyStoragePtrIbEE)).f0.e[(s64)((s64)((u64)2ULL))])));
  v59 = (struct S12_class_OpenVolumeMesh__PropertyStorageT**)(&(*v54).f0.f0.f1.f0.f0);
  *v59 = v55;
  v60 = (struct S20_class_std___Sp_counted_base**)(&(*v54).f0.f0.f1.f0.f1.f0);
  *v60 = v56;
  *v57 = ((fnptr_t*)((u8**)(&(*(&_ZTVN14OpenVolumeMesh14HandleIndexingINS_6Entity4CellENS_18PropertyStoragePtrIbEEEE)).f0.e[(s64)((s64)((u64)2ULL))])));
  v61 = (fnptr_t**)(&(*v54).f1.f0);
  *v61 = ((fnptr_t*)((u8**)(&(*(&_ZTVN14OpenVolumeMesh15BasePropertyPtrE)).f0.e[(s64)((s64)((u64)2ULL))])));
  *v57 = ((fnptr_t*)((u8**)(&(*(&_ZTVN14OpenVolumeMesh11PropertyPtrIbNS_6Entity4CellEEE)).f0.e[(s64)((s64)((u64)2ULL))])));
  *v61 = ((fnptr_t*)((u8**)(&(*(&_ZTVN14OpenVolumeMesh11PropertyPtrIbNS_6Entity4CellEEE)).f1.e[(s64)((s64)((u64)2ULL))])));
  v62 = (u8*)(v53 + (s64)((s64)((u64)24ULL)));
  v63 = (u8**)&(*a0).f0.f0.f0.f0.f0.f0;
  *v63 = v62;
  v64 = (struct S20_class_std___Sp_counted_base**)(&(*v0).f0.f1.f0);
  v65 = *v64;
  v66 = ((u8*)v65 == (u8*)((struct S20_class_std___Sp_counted_base*)0));
  if (v66) {
    goto L24;
  } else {
    goto L17;
  }
L17: ;
  v67 = (u32*)(&(*v65).f1);
  v68 = (u64*)v67;
  v69 = (((u64)(*v65).f1 << 0) | ((u64)(*v65).f2 << 32));
  v70 = (v69 == ((u64)4294967297ULL));
  if (v70) {
    goto L18;
  } else {
    goto L19;
  }
L18: ;
  *v67 = ((u32)0ULL);
  v71 = (u32*)(&(*v65).f2);
  *v71 = ((u32)0ULL);
  v72 = (fnptr_t**)&(*v65).f0;
  v73 = *v72;
  v74 = (fnptr_t*)(v73 + (s64)((s64)((u64)2ULL)));
  v75 = *v74;
  ((FT1)v75)(v65);
  v76 = *v72;
  v77 = (fnptr_t*)(v76 + (s64)((s64)((u64)3ULL)));
  v78 = *v77;
  ((FT1)v78)(v65);
  goto L24;
L19: ;
  v79 = *(&__libc_single_threaded);
  v80 = (v79 == ((u8)0ULL));
  if (v80) {
    goto L21;
  } else {
    goto L20;
  }
L20: ;
  v81 = *v67;
  v82 = ((u32)(v81 + ((u32)4294967295ULL)));
  *v67 = v82;
  v85 = v81;
  goto L22;
L21: ;
  v83 = *v67;
  v84 = ((u32)(v83 + ((u32)4294967295ULL)));
  *v67 = v84;
  v85 = v83;
  goto L22;
L22: ;
  v86 = (v85 == ((u32)1ULL));
  if (v86) {
    goto L23;
  } else {
    goto L24;
  }
L23: ;
  _ZNSt16_Sp_counted_baseILN9__gnu_cxx12_Lock_policyE2EE24_M_release_last_use_coldEv(v65);
  goto L24;
L24: ;
  return;
L25: ;
  v87.f0 = v_exc_obj;
  v87.f1 = 0;
  v_exc = 0;
  v88 = (struct S30_class_std____shared_ptr_66*)(&(*v0).f0);
  _ZNSt12__shared_ptrIN14OpenVolumeMesh16PropertyStorageTIbEELN9__gnu_cxx12_Lock_policyE2EED2Ev(v88);
  v_exc = 1; return;
}

void _ZZN14OpenVolumeMesh16PropertyStorageTIbE17make_property_ptrEvENKUlT_E_clINS_6Entity4MeshEEEDaS2_(struct S26_class_std__unique_ptr* a0, struct S28_class_anon* a1) {
  struct S56_class_std__shared_ptr_65* v0; struct S56_class_std__shared_ptr_65 v0_m;
  u8** v1;
  u8* v2;
  u8* v3;
  u8* v4;
  u8* v5;
  struct S20_class_std___Sp_counted_base** v6;
  struct S20_class_std___Sp_counted_base* v7;
  u1 v8;
  u32* v9;
  u32 v10;
  u32 v11; u32 v11_t;
  u1 v12;
  u32 v13;
  u32 v14;
  u1 v15;
  u32 v16;
  struct S69 v17;
  struct S69 v18;
  u1 v19;
  u32 v20;
  u8* v21;
  u64* v22;
  fnptr_t** v23;
  struct S12_class_OpenVolumeMesh__PropertyStorageT** v24;
  struct S12_class_OpenVolumeMesh__PropertyStorageT* v25;
  struct S12_class_OpenVolumeMesh__PropertyStorageT** v26;
  struct S20_class_std___Sp_counted_base** v27;
  u8 v28;
  u1 v29;
  u32 v30;
  u32 v31;
  u32 v32;
  u32 v33;
  u64* v34;
  u64 v35;
  u1 v36;
  u32* v37;
  fnptr_t** v38;
  fnptr_t* v39;
  fnptr_t* v40;
  fnptr_t v41;
  fnptr_t* v42;
  fnptr_t* v43;
  fnptr_t v44;
  u8 v45;
  u1 v46;
  u32 v47;
  u32 v48;
  u32 v49;
  u32 v50;
  u32 v51; u32 v51_t;
  u1 v52;
  u8* v53;
  struct S31_class_OpenVolumeMesh__PropertyPtr_86* v54;
  struct S12_class_OpenVolumeMesh__PropertyStorageT* v55;
  struct S20_class_std___Sp_counted_base* v56;
  fnptr_t** v57;
  u8* v58;
  struct S12_class_OpenVolumeMesh__PropertyStorageT** v59;
  struct S20_class_std___Sp_counted_base** v60;
  fnptr_t** v61;
  u8* v62;
  u8** v63;
  struct S20_class_std___Sp_counted_base** v64;
  struct S20_class_std___Sp_counted_base* v65;
  u1 v66;
  u32* v67;
  u64* v68;
  u64 v69;
  u1 v70;
  u32* v71;
  fnptr_t** v72;
  fnptr_t* v73;
  fnptr_t* v74;
  fnptr_t v75;
  fnptr_t* v76;
  fnptr_t* v77;
  fnptr_t v78;
  u8 v79;
  u1 v80;
  u32 v81;
  u32 v82;
  u32 v83;
  u32 v84;
  u32 v85; u32 v85_t;
  u1 v86;
  struct S65 v87;
  struct S30_class_std____shared_ptr_66* v88;
L0: ;
  v0 = &v0_m;
  v1 = (u8**)&(*a1).f0;
  v2 = *v1;
  v3 = (u8*)v0;
  v4 = (u8*)(v2 + (s64)((s64)((u64)16ULL)));
  v5 = (u8*)(v2 + (s64)((s64)((u64)24ULL)));
  v6 = (struct S20_class_std___Sp_counted_base**)v5;
  v7 = *v6;
  v8 = ((u8*)v7 == (u8*)((struct S20_class_std___Sp_counted_base*)0));
  if (v8) {
    goto L4;
  } else {
    goto L1;
  }
L1: ;
  v9 = (u32*)(&(*v7).f1);
  v10 = *v9;
  v11 = v10;
  goto L2;
L2: ;
  v12 = (v11 == ((u32)0ULL));
  if (v12) {
    goto L4;
  } else {
    goto L3;
  }
L3: ;
  v13 = ((u32)(v11 + ((u32)1ULL)));
  v14 = *v9;
  v15 = (v14 == v11);
  v16 = (v15 ? v13 : v14);
  *v9 = v16;
  v17.f0 = v14;
  v18 = v17;
  v18.f1 = v15;
  v19 = v18.f1;
  v20 = v18.f0;
  if (v19) {
    goto L5;
  } else {
    v11 = v20;
    goto L2;
  }
L4: ;
  v21 = __cxa_allocate_exception(((u64)8ULL));
  v22 = (u64*)v21;
  *v22 = ((u64)0ULL);
  v23 = (fnptr_t**)v21;
  *v23 = ((fnptr_t*)((u8**)(&(*(&_ZTVSt12bad_weak_ptr)).f0.e[(s64)((s64)((u64)2ULL))])));
  __cxa_throw(v21, ((u8*)(&_ZTISt12bad_weak_ptr)), ((u8*)((fnptr_t)_ZNSt12bad_weak_ptrD1Ev)));
  if (v_exc) return;
  __CPROVER_assume(0);
L5: ;
  v24 = (struct S12_class_OpenVolumeMesh__PropertyStorageT**)v4;
  v25 = *v24;
  v26 = (struct S12_class_OpenVolumeMesh__PropertyStorageT**)(&(*v0).f0.f0);
  *v26 = v25;
  v27 = (struct S20_class_std___Sp_counted_base**)(&(*v0).f0.f1.f0);
  *v27 = v7;
  v28 = *(&__libc_single_threaded);
  v29 = (v28 == ((u8)0ULL));
  if (v29) {
    goto L7;
  } else {
    goto L6;
  }
L6: ;
  v30 = *v9;
  v31 = ((u32)(v30 + ((u32)1ULL)));
  *v9 = v31;
  goto L8;
L7: ;
  v32 = *v9;
  v33 = ((u32)(v32 + ((u32)1ULL)));
  *v9 = v33;
  goto L8;
L8: ;
  v34 = (u64*)v9;
  v35 = (((u64)(*v7).f1 << 0) | ((u64)(*v7).f2 << 32));
  v36 = (v35 == ((u64)4294967297ULL));
  if (v36) {
    goto L9;
  } else {
    goto L10;
  }
L9: ;
  *v9 = ((u32)0ULL);
  v37 = (u32*)(&(*v7).f2);
  *v37 = ((u32)0ULL);
  v38 = (fnptr_t**)&(*v7).f0;
  v39 = *v38;
  v40 = (fnptr_t*)(v39 + (s64)((s64)((u64)2ULL)));
  v41 = *v40;
  ((FT1)v41)(v7);
  v42 = *v38;
  v43 = (fnptr_t*)(v42 + (s64)((s64)((u64)3ULL)));
  v44 = *v43;
  ((FT1)v44)(v7);
  goto L15;
L10: ;
  v45 = *(&__libc_single_threaded);
  v46 = (v45 == ((u8)0ULL));
  if (v46) {
    goto L12;
  } else {
    goto L11;
  }
L11: ;
  v47 = *v9;
  v48 = ((u32)(v47 + ((u32)4294967295ULL)));
  *v9 = v48;
  v51 = v47;
  goto L13;
L12: ;
  v49 = *v9;
  v50 = ((u32)(v49 + ((u32)4294967295ULL)));
  *v9 = v50;
  v51 = v49;
  goto L13;
L13: ;
  v52 = (v51 == ((u32)1ULL));
  if (v52) {
    goto L14;
  } else {
    goto L15;
  }
L14: ;
  _ZNSt16_Sp_counted_baseILN9__gnu_cxx12_Lock_policyE2EE24_M_release_last_use_coldEv(v7);
  goto L15;
L15: ;
  v53 = (u8*)((((u64)32ULL) % sizeof(struct S31_class_OpenVolumeMesh__PropertyPtr_86) == 0) ? __CPROVER_allocate(sizeof(struct S31_class_OpenVolumeMesh__PropertyPtr_86) * (((u64)32ULL) / sizeof(struct S31_class_OpenVolumeMesh__PropertyPtr_86)), 0) : __CPROVER_allocate(((u64)32ULL), 0));
  v_alloc_note((u8*)v53);
  if (v_exc) {
    goto L25;
  }
  goto L16;
L16: ;
  v54 = (struct S31_class_OpenVolumeMesh__PropertyPtr_86*)v53;
  v55 = *v26;
  v56 = *v27;
  v57 = (fnptr_t**)(&(*v54).f0.f0.f0);
  v58 = (u8*)v0;
  (*v0).f0.f0 = (struct S12_class_OpenVolumeMesh__PropertyStorageT*)0;
  (*v0).f0.f1.f0 = (struct S20_class_std___Sp_counted_base*)0;
  *v57 = ((fnptr_t*)((u8**)(&(*(&_ZTVN14OpenVolumeMesh18PropertyStoragePtrIbEE)).f0.e[(s64)((s64)((u64)2ULL))])));
  v59 = (struct S12_class_OpenVolumeMesh__PropertyStorageT**)(&(*v54).f0.f0.f1.f0.f0);
  *v59 = v55;
  v60 = (struct S20_class_std___Sp_counted_base**)(&(*v54).f0.f0.f1.f0.f1.f0);
  *v60 = v56;
  *v57 = ((fnptr_t*)((u8**)(&(*(&_ZTVN14OpenVolumeMesh14HandleIndexingINS_6Entity4MeshENS_18PropertyStoragePtrIbEEEE)).f0.e[(s64)((s64)((u64)2ULL))])));
  v61 = (fnptr_t**)(&(*v54).f1.f0);
  *v61 = ((fnptr_t*)((u8**)(&(*(&_ZTVN14OpenVolumeMesh15BasePropertyPtrE)).f0.e[(s64)((s64)((u64)2ULL))])));
  *v57 = ((fnptr_t*)((u8**)(&(*(&_ZTVN14OpenVolumeMesh11PropertyPtrIbNS_6Entity4MeshEEE)).f0.e[(s64)((s64)((u64)2ULL))])));
  *v61 = ((fnptr_t*)((u8**)(&(*(&_ZTVN14OpenVolumeMesh11PropertyPtrIbNS_6Entity4MeshEEE)).f1.e[(s64)((s64)((u64)2ULL))])));
  v62 = (u8*)(v53 + (s64)((s64)((u64)24ULL)));
  v63 = (u8**)&(*a0).f0.f0.f0.f0.f0.f0;
  *v63 = v62;
  v64 = (struct S20_class_std___Sp_counted_base**)(&(*v0).f0.f1.f0);
  v65 = *v64;
  v66 = ((u8*)v65 == (u8*)((struct S20_class_std___Sp_counted_base*)0));
  if (v66) {
    goto L24;
  } else {
    goto L17;
  }
L17: ;
  v67 = (u32*)(&(*v65).f1);
  v68 = (u64*)v67;
  v69 = (((u64)(*v65).f1 << 0) | ((u64)(*v65).f2 << 32));
  v70 = (v69 == ((u64)4294967297ULL));
  if (v70) {
    goto L18;
  } else {
    goto L19;
  }
L18: ;
  *v67 = ((u32)0ULL);
  v71 = (u32*)(&(*v65).f2);
  *v71 = ((u32)0ULL);
  v72 = (fnptr_t**)&(*v65).f0;
  v73 = *v72;
  v74 = (fnptr_t*)(v73 + (s64)((s64)((u64)2ULL)));
  v75 = *v74;
  ((FT1)v75)(v65);
  v76 = *v72;
  v77 = (fnptr_t*)(v76 + (s64)((s64)((u64)3ULL)));
  v78 = *v77;
  ((FT1)v78)(v65);
  goto L24;
L19: ;
  v79 = *(&__libc_single_threaded);
  v80 = (v79 == ((u8)0ULL));
  if (v80) {
    goto L21;
  } else {
    goto L20;
  }
L20: ;
  v81 = *v67;
  v82 = ((u32)(v81 + ((u32)4294967295ULL)));
  *v67 = v82;
  v85 = v81;
  goto L22;
L21: ;
  v83 = *v67;
  v84 = ((u32)(v83 + ((u32)4294967295ULL)));
  *v67 = v84;
  v85 = v83;
  goto L22;
L22: ;
  v86 = (v85 == ((u32)1ULL));
  if (v86) {
    goto L23;
  } else {
    goto L24;
  }
L23: ;
  _ZNSt16_Sp_counted_baseILN9__gnu_cxx12_Lock_policyE2EE24_M_release_last_use_coldEv(v65);
  goto L24;
L24: ;
  return;
L25: ;
  v87.f0 = v_exc_obj;
  v87.f1 = 0;
  v_exc = 0;
  v88 = (struct S30_class_std____shared_ptr_66*)(&(*v0).f0);
  _ZNSt12__shared_ptrIN14OpenVolumeMesh16PropertyStorageTIbEELN9__gnu_cxx12_Lock_policyE2EED2Ev(v88);
  v_exc = 1; return;
}

void _ZNSt12__shared_ptrIN14OpenVolumeMesh16PropertyStorageTIbEELN9__gnu_cxx12_Lock_policyE2EED2Ev(struct S30_class_std____shared_ptr_66* a0) {
  struct S20_class_std___Sp_counted_base** v0;
  struct S20_class_std___Sp_counted_base* v1;
  u1 v2;
  u32* v3;
  u64* v4;
  u64 v5;
  u1 v6;
  u32* v7;
  fnptr_t** v8;
  fnptr_t* v9;
  fnptr_t* v10;
  fnptr_t v11;
  fnptr_t* v12;
  fnptr_t* v13;
  fnptr_t v14;
  u8 v15;
  u1 v16;
  u32 v17;
  u32 v18;
  u32 v19;
  u32 v20;
  u32 v21; u32 v21_t;
  u1 v22;
L0: ;
  v0 = (struct S20_class_std___Sp_counted_base**)(&(*a0).f1.f0);
  v1 = *v0;
  v2 = ((u8*)v1 == (u8*)((struct S20_class_std___Sp_counted_base*)0));
  if (v2) {
    goto L8;
  } else {
    goto L1;
  }
L1: ;
  v3 = (u32*)(&(*v1).f1);
  v4 = (u64*)v3;
  v5 = (((u64)(*v1).f1 << 0) | ((u64)(*v1).f2 << 32));
  v6 = (v5 == ((u64)4294967297ULL));
  if (v6) {
    goto L2;
  } else {
    goto L3;
  }
L2: ;
  *v3 = ((u32)0ULL);
  v7 = (u32*)(&(*v1).f2);
  *v7 = ((u32)0ULL);
  v8 = (fnptr_t**)&(*v1).f0;
  v9 = *v8;
  v10 = (fnptr_t*)(v9 + (s64)((s64)((u64)2ULL)));
  v11 = *v10;
  ((FT1)v11)(v1);
  v12 = *v8;
  v13 = (fnptr_t*)(v12 + (s64)((s64)((u64)3ULL)));
  v14 = *v13;
  ((FT1)v14)(v1);
  goto L8;
L3: ;
  v15 = *(&__libc_single_threaded);
  v16 = (v15 == ((u8)0ULL));
  if (v16) {
    goto L5;
  } else {
    goto L4;
  }
L4: ;
  v17 = *v3;
  v18 = ((u32)(v17 + ((u32)4294967295ULL)));
  *v3 = v18;
  v21 = v17;
  goto L6;
L5: ;
  v19 = *v3;
  v20 = ((u32)(v19 + ((u32)4294967295ULL)));
  *v3 = v20;
  v21 = v19;
  goto L6;
L6: ;
  v22 = (v21 == ((u32)1ULL));
  if (v22) {
    goto L7;
  } else {
    goto L8;
  }
L7: ;
  _ZNSt16_Sp_counted_baseILN9__gnu_cxx12_Lock_policyE2EE24_M_release_last_use_coldEv(v1);
  goto L8;
L8: ;
  return;
}

void _ZN14OpenVolumeMesh11PropertyPtrIbNS_6Entity4MeshEED2Ev(struct S31_class_OpenVolumeMesh__PropertyPtr_86* a0) {
  fnptr_t** v0;
  struct S20_class_std___Sp_counted_base** v1;
  struct S20_class_std___Sp_counted_base* v2;
  u1 v3;
  u32* v4;
  u64* v5;
  u64 v6;
  u1 v7;
  u32* v8;
  fnptr_t** v9;
  fnptr_t* v10;
  fnptr_t* v11;
  fnptr_t v12;
  fnptr_t* v13;
  fnptr_t* v14;
  fnptr_t v15;
  u8 v16;
  u1 v17;
  u32 v18;
  u32 v19;
  u32 v20;
  u32 v21;
  u32 v22; u32 v22_t;
  u1 v23;
L0: ;
  v0 = (fnptr_t**)(&(*a0).f0.f0.f0);
  *v0 = ((fnptr_t*)((u8**)(&(*(&_ZTVN14OpenVolumeMesh18PropertyStoragePtrIbEE)).f0.e[(s64)((s64)((u64)2ULL))])));
  v1 = (struct S20_class_std___Sp_counted_base**)(&(*a0).f0.f0.f1.f0.f1.f0);
  v2 = *v1;
  v3 = ((u8*)v2 == (u8*)((struct S20_class_std___Sp_counted_base*)0));
  if (v3) {
    goto L8;
  } else {
    goto L1;
  }
L1: ;
  v4 = (u32*)(&(*v2).f1);
  v5 = (u64*)v4;
  v6 = (((u64)(*v2).f1 << 0) | ((u64)(*v2).f2 << 32));
  v7 = (v6 == ((u64)4294967297ULL));
  if (v7) {
    goto L2;
  } else {
    goto L3;
  }
L2: ;
  *v4 = ((u32)0ULL);
  v8 = (u32*)(&(*v2).f2);
  *v8 = ((u32)0ULL);
  v9 = (fnptr_t**)&(*v2).f0;
  v10 = *v9;
  v11 = (fnptr_t*)(v10 + (s64)((s64)((u64)2ULL)));
  v12 = *v11;
  ((FT1)v12)(v2);
  v13 = *v9;
  v14 = (fnptr_t*)(v13 + (s64)((s64)((u64)3ULL)));
  v15 = *v14;
  ((FT1)v15)(v2);
  goto L8;
L3: ;
  v16 = *(&__libc_single_threaded);
  v17 = (v16 == ((u8)0ULL));
  if (v17) {
    goto L5;
  } else {
    goto L4;
  }
L4: ;
  v18 = *v4;
  v19 = ((u32)(v18 + ((u32)4294967295ULL)));
  *v4 = v19;
  v22 = v18;
  goto L6;
L5: ;
  v20 = *v4;
  v21 = ((u32)(v20 + ((u32)4294967295ULL)));
  *v4 = v21;
  v22 = v20;
  goto L6;
L6: ;
  v23 = (v22 == ((u32)1ULL));
  if (v23) {
    goto L7;
  } else {
    goto L8;
  }
L7: ;
  _ZNSt16_Sp_counted_baseILN9__gnu_cxx12_Lock_policyE2EE24_M_release_last_use_coldEv(v2);
  goto L8;
L8: ;
  return;
}

void _ZN14OpenVolumeMesh11PropertyPtrIbNS_6Entity4MeshEED0Ev(struct S31_class_OpenVolumeMesh__PropertyPtr_86* a0) {
  fnptr_t** v0;
  struct S20_class_std___Sp_counted_base** v1;
  struct S20_class_std___Sp_counted_base* v2;
  u1 v3;
  u32* v4;
  u64* v5;
  u64 v6;
  u1 v7;
  u32* v8;
  fnptr_t** v9;
  fnptr_t* v10;
  fnptr_t* v11;
  fnptr_t v12;
  fnptr_t* v13;
  fnptr_t* v14;
  fnptr_t v15;
  u8 v16;
  u1 v17;
  u32 v18;
  u32 v19;
  u32 v20;
  u32 v21;
  u32 v22; u32 v22_t;
  u1 v23;
  u8* v24;
L0: ;
  v0 = (fnptr_t**)(&(*a0).f0.f0.f0);
  *v0 = ((fnptr_t*)((u8**)(&(*(&_ZTVN14OpenVolumeMesh18PropertyStoragePtrIbEE)).f0.e[(s64)((s64)((u64)2ULL))])));
  v1 = (struct S20_class_std___Sp_counted_base**)(&(*a0).f0.f0.f1.f0.f1.f0);
  v2 = *v1;
  v3 = ((u8*)v2 == (u8*)((struct S20_class_std___Sp_counted_base*)0));
  if (v3) {
    goto L8;
  } else {
    goto L1;
  }
L1: ;
  v4 = (u32*)(&(*v2).f1);
  v5 = (u64*)v4;
  v6 = (((u64)(*v2).f1 << 0) | ((u64)(*v2).f2 << 32));
  v7 = (v6 == ((u64)4294967297ULL));
  if (v7) {
    goto L2;
  } else {
    goto L3;
  }
L2: ;
  *v4 = ((u32)0ULL);
  v8 = (u32*)(&(*v2).f2);
  *v8 = ((u32)0ULL);
  v9 = (fnptr_t**)&(*v2).f0;
  v10 = *v9;
  v11 = (fnptr_t*)(v10 + (s64)((s64)((u64)2ULL)));
  v12 = *v11;
  ((FT1)v12)(v2);
  v13 = *v9;
  v14 = (fnptr_t*)(v13 + (s64)((s64)((u64)3ULL)));
  v15 = *v14;
  ((FT1)v15)(v2);
  goto L8;
L3: ;
  v16 = *(&__libc_single_threaded);
  v17 = (v16 == ((u8)0ULL));
  if (v17) {
    goto L5;
  } else {
    goto L4;
  }
L4: ;
  v18 = *v4;
  v19 = ((u32)(v18 + ((u32)4294967295ULL)));
  *v4 = v19;
  v22 = v18;
  goto L6;
L5: ;
  v20 = *v4;
  v21 = ((u32)(v20 + ((u32)4294967295ULL)));
  *v4 = v21;
  v22 = v20;
  goto L6;
L6: ;
  v23 = (v22 == ((u32)1ULL));
  if (v23) {
    goto L7;
  } else {
    goto L8;
  }
L7: ;
  _ZNSt16_Sp_counted_baseILN9__gnu_cxx12_Lock_policyE2EE24_M_release_last_use_coldEv(v2);
  goto L8;
L8: ;
  v24 = (u8*)a0;
  _ZdlPv(v24);
  return;
}

struct S14_class_std____cxx11__basic_string* _ZNKR14OpenVolumeMesh11PropertyPtrIbNS_6Entity4MeshEE4nameB5cxx11Ev(struct S31_class_OpenVolumeMesh__PropertyPtr_86* a0) {
  struct S12_class_OpenVolumeMesh__PropertyStorageT** v0;
  struct S22_class_OpenVolumeMesh__PropertyStorageBas** v1;
  struct S22_class_OpenVolumeMesh__PropertyStorageBas* v2;
  struct S14_class_std____cxx11__basic_string* v3;
L0: ;
  v0 = (struct S12_class_OpenVolumeMesh__PropertyStorageT**)(&(*a0).f0.f0.f1.f0.f0);
  v1 = (struct S22_class_OpenVolumeMesh__PropertyStorageBas**)&(*a0).f0.f0.f1.f0.f0;
  v2 = *v1;
  v3 = (struct S14_class_std____cxx11__basic_string*)(&(*v2).f2);
  return v3;
}

void _ZThn24_N14OpenVolumeMesh11PropertyPtrIbNS_6Entity4MeshEED1Ev(struct S31_class_OpenVolumeMesh__PropertyPtr_86* a0) {
  struct S56_class_std__shared_ptr_65* v0;
  fnptr_t** v1;
  struct S56_class_std__shared_ptr_65* v2;
  struct S20_class_std___Sp_counted_base** v3;
  struct S20_class_std___Sp_counted_base* v4;
  u1 v5;
  u32* v6;
  u64* v7;
  u64 v8;
  u1 v9;
  u32* v10;
  fnptr_t** v11;
  fnptr_t* v12;
  fnptr_t* v13;
  fnptr_t v14;
  fnptr_t* v15;
  fnptr_t* v16;
  fnptr_t v17;
  u8 v18;
  u1 v19;
  u32 v20;
  u32 v21;
  u32 v22;
  u32 v23;
  u32 v24; u32 v24_t;
  u1 v25;
L0: ;
  v0 = (struct S56_class_std__shared_ptr_65*)(&(a0)[(s64)((s64)((u64)18446744073709551615ULL))].f0.f0.f1);
  v1 = (fnptr_t**)v0;
  *v1 = ((fnptr_t*)((u8**)(&(*(&_ZTVN14OpenVolumeMesh18PropertyStoragePtrIbEE)).f0.e[(s64)((s64)((u64)2ULL))])));
  v2 = (struct S56_class_std__shared_ptr_65*)(v0 + (s64)((s64)((u64)1ULL)));
  v3 = (struct S20_class_std___Sp_counted_base**)v2;
  v4 = *v3;
  v5 = ((u8*)v4 == (u8*)((struct S20_class_std___Sp_counted_base*)0));
  if (v5) {
    goto L8;
  } else {
    goto L1;
  }
L1: ;
  v6 = (u32*)(&(*v4).f1);
  v7 = (u64*)v6;
  v8 = (((u64)(*v4).f1 << 0) | ((u64)(*v4).f2 << 32));
  v9 = (v8 == ((u64)4294967297ULL));
  if (v9) {
    goto L2;
  } else {
    goto L3;
  }
L2: ;
  *v6 = ((u32)0ULL);
  v10 = (u32*)(&(*v4).f2);
  *v10 = ((u32)0ULL);
  v11 = (fnptr_t**)&(*v4).f0;
  v12 = *v11;
  v13 = (fnptr_t*)(v12 + (s64)((s64)((u64)2ULL)));
  v14 = *v13;
  ((FT1)v14)(v4);
  v15 = *v11;
  v16 = (fnptr_t*)(v15 + (s64)((s64)((u64)3ULL)));
  v17 = *v16;
  ((FT1)v17)(v4);
  goto L8;
L3: ;
  v18 = *(&__libc_single_threaded);
  v19 = (v18 == ((u8)0ULL));
  if (v19) {
    goto L5;
  } else {
    goto L4;
  }
L4: ;
  v20 = *v6;
  v21 = ((u32)(v20 + ((u32)4294967295ULL)));
  *v6 = v21;
  v24 = v20;
  goto L6;
L5: ;
  v22 = *v6;
  v23 = ((u32)(v22 + ((u32)4294967295ULL)));
  *v6 = v23;
  v24 = v22;
  goto L6;
L6: ;
  v25 = (v24 == ((u32)1ULL));
  if (v25) {
    goto L7;
  } else {
    goto L8;
  }
L7: ;
  _ZNSt16_Sp_counted_baseILN9__gnu_cxx12_Lock_policyE2EE24_M_release_last_use_coldEv(v4);
  goto L8;
L8: ;
  return;
}

void _ZThn24_N14OpenVolumeMesh11PropertyPtrIbNS_6Entity4MeshEED0Ev(struct S31_class_OpenVolumeMesh__PropertyPtr_86* a0) {
  struct S56_class_std__shared_ptr_65* v0;
  fnptr_t** v1;
  struct S56_class_std__shared_ptr_65* v2;
  struct S20_class_std___Sp_counted_base** v3;
  struct S20_class_std___Sp_counted_base* v4;
  u1 v5;
  u32* v6;
  u64* v7;
  u64 v8;
  u1 v9;
  u32* v10;
  fnptr_t** v11;
  fnptr_t* v12;
  fnptr_t* v13;
  fnptr_t v14;
  fnptr_t* v15;
  fnptr_t* v16;
  fnptr_t v17;
  u8 v18;
  u1 v19;
  u32 v20;
  u32 v21;
  u32 v22;
  u32 v23;
  u32 v24; u32 v24_t;
  u1 v25;
  u8* v26;
L0: ;
  v0 = (struct S56_class_std__shared_ptr_65*)(&(a0)[(s64)((s64)((u64)18446744073709551615ULL))].f0.f0.f1);
  v1 = (fnptr_t**)v0;
  *v1 = ((fnptr_t*)((u8**)(&(*(&_ZTVN14OpenVolumeMesh18PropertyStoragePtrIbEE)).f0.e[(s64)((s64)((u64)2ULL))])));
  v2 = (struct S56_class_std__shared_ptr_65*)(v0 + (s64)((s64)((u64)1ULL)));
  v3 = (struct S20_class_std___Sp_counted_base**)v2;
  v4 = *v3;
  v5 = ((u8*)v4 == (u8*)((struct S20_class_std___Sp_counted_base*)0));
  if (v5) {
    goto L8;
  } else {
    goto L1;
  }
L1: ;
  v6 = (u32*)(&(*v4).f1);
  v7 = (u64*)v6;
  v8 = (((u64)(*v4).f1 << 0) | ((u64)(*v4).f2 << 32));
  v9 = (v8 == ((u64)4294967297ULL));
  if (v9) {
    goto L2;
  } else {
    goto L3;
  }
L2: ;
  *v6 = ((u32)0ULL);
  v10 = (u32*)(&(*v4).f2);
  *v10 = ((u32)0ULL);
  v11 = (fnptr_t**)&(*v4).f0;
  v12 = *v11;
  v13 = (fnptr_t*)(v12 + (s64)((s64)((u64)2ULL)));
  v14 = *v13;
  ((FT1)v14)(v4);
  v15 = *v11;
  v16 = (fnptr_t*)(v15 + (s64)((s64)((u64)3ULL)));
  v17 = *v16;
  ((FT1)v17)(v4);
  goto L8;
L3: ;
  v18 = *(&__libc_single_threaded);
  v19 = (v18 == ((u8)0ULL));
  if (v19) {
    goto L5;
  } else {
    goto L4;
  }
L4: ;
  v20 = *v6;
  v21 = ((u32)(v20 + ((u32)4294967295ULL)));
  *v6 = v21;
  v24 = v20;
  goto L6;
L5: ;
  v22 = *v6;
  v23 = ((u32)(v22 + ((u32)4294967295ULL)));
  *v6 = v23;
  v24 = v22;
  goto L6;
L6: ;
  v25 = (v24 == ((u32)1ULL));
  if (v25) {
    goto L7;
  } else {
    goto L8;
  }
L7: ;
  _ZNSt16_Sp_counted_baseILN9__gnu_cxx12_Lock_policyE2EE24_M_release_last_use_coldEv(v4);
  goto L8;
L8: ;
  v26 = (u8*)v0;
  _ZdlPv(v26);
  return;
}

struct S14_class_std____cxx11__basic_string* _ZThn24_NKR14OpenVolumeMesh11PropertyPtrIbNS_6Entity4MeshEE4nameB5cxx11Ev(struct S31_class_OpenVolumeMesh__PropertyPtr_86* a0) {
  struct S70_class_std____weak_count* v0;
  struct S22_class_OpenVolumeMesh__PropertyStorageBas** v1;
  struct S22_class_OpenVolumeMesh__PropertyStorageBas* v2;
  struct S14_class_std____cxx11__basic_string* v3;
L0: ;
  v0 = (struct S70_class_std____weak_count*)(&(a0)[(s64)((s64)((u64)18446744073709551615ULL))].f0.f0.f1.f0.f1);
  v1 = (struct S22_class_OpenVolumeMesh__PropertyStorageBas**)v0;
  v2 = *v1;
  v3 = (struct S14_class_std____cxx11__basic_string*)(&(*v2).f2);
  return v3;
}

void _ZN14OpenVolumeMesh15BasePropertyPtrD2Ev(struct S10_class_OpenVolumeMesh__IO__PropertyDecode* a0) {
L0: ;
  return;
}

void _ZN14OpenVolumeMesh15BasePropertyPtrD0Ev(struct S10_class_OpenVolumeMesh__IO__PropertyDecode* a0) {
L0: ;
  __CPROVER_assert(0, "llvm.trap"); __CPROVER_assume(0);
  __CPROVER_assume(0);
}

void _ZN14OpenVolumeMesh18PropertyStoragePtrIbED2Ev(struct S32_class_OpenVolumeMesh__PropertyStoragePtr* a0) {
  fnptr_t** v0;
  struct S20_class_std___Sp_counted_base** v1;
  struct S20_class_std___Sp_counted_base* v2;
  u1 v3;
  u32* v4;
  u64* v5;
  u64 v6;
  u1 v7;
  u32* v8;
  fnptr_t** v9;
  fnptr_t* v10;
  fnptr_t* v11;
  fnptr_t v12;
  fnptr_t* v13;
  fnptr_t* v14;
  fnptr_t v15;
  u8 v16;
  u1 v17;
  u32 v18;
  u32 v19;
  u32 v20;
  u32 v21;
  u32 v22; u32 v22_t;
  u1 v23;
L0: ;
  v0 = (fnptr_t**)(&(*a0).f0);
  *v0 = ((fnptr_t*)((u8**)(&(*(&_ZTVN14OpenVolumeMesh18PropertyStoragePtrIbEE)).f0.e[(s64)((s64)((u64)2ULL))])));
  v1 = (struct S20_class_std___Sp_counted_base**)(&(*a0).f1.f0.f1.f0);
  v2 = *v1;
  v3 = ((u8*)v2 == (u8*)((struct S20_class_std___Sp_counted_base*)0));
  if (v3) {
    goto L8;
  } else {
    goto L1;
  }
L1: ;
  v4 = (u32*)(&(*v2).f1);
  v5 = (u64*)v4;
  v6 = (((u64)(*v2).f1 << 0) | ((u64)(*v2).f2 << 32));
  v7 = (v6 == ((u64)4294967297ULL));
  if (v7) {
    goto L2;
  } else {
    goto L3;
  }
L2: ;
  *v4 = ((u32)0ULL);
  v8 = (u32*)(&(*v2).f2);
  *v8 = ((u32)0ULL);
  v9 = (fnptr_t**)&(*v2).f0;
  v10 = *v9;
  v11 = (fnptr_t*)(v10 + (s64)((s64)((u64)2ULL)));
  v12 = *v11;
  ((FT1)v12)(v2);
  v13 = *v9;
  v14 = (fnptr_t*)(v13 + (s64)((s64)((u64)3ULL)));
  v15 = *v14;
  ((FT1)v15)(v2);
  goto L8;
L3: ;
  v16 = *(&__libc_single_threaded);
  v17 = (v16 == ((u8)0ULL));
  if (v17) {
    goto L5;
  } else {
    goto L4;
  }
L4: ;
  v18 = *v4;
  v19 = ((u32)(v18 + ((u32)4294967295ULL)));
  *v4 = v19;
  v22 = v18;
  goto L6;
L5: ;
  v20 = *v4;
  v21 = ((u32)(v20 + ((u32)4294967295ULL)));
  *v4 = v21;
  v22 = v20;
  goto L6;
L6: ;
  v23 = (v22 == ((u32)1ULL));
  if (v23) {
    goto L7;
  } else {
    goto L8;
  }
L7: ;
  _ZNSt16_Sp_counted_baseILN9__gnu_cxx12_Lock_policyE2EE24_M_release_last_use_coldEv(v2);
  goto L8;
L8: ;
  return;
}

void _ZN14OpenVolumeMesh14HandleIndexingINS_6Entity4MeshENS_18PropertyStoragePtrIbEEED0Ev(struct S33_class_OpenVolumeMesh__HandleIndexing_87* a0) {
  fnptr_t** v0;
  struct S20_class_std___Sp_counted_base** v1;
  struct S20_class_std___Sp_counted_base* v2;
  u1 v3;
  u32* v4;
  u64* v5;
  u64 v6;
  u1 v7;
  u32* v8;
  fnptr_t** v9;
  fnptr_t* v10;
  fnptr_t* v11;
  fnptr_t v12;
  fnptr_t* v13;
  fnptr_t* v14;
  fnptr_t v15;
  u8 v16;
  u1 v17;
  u32 v18;
  u32 v19;
  u32 v20;
  u32 v21;
  u32 v22; u32 v22_t;
  u1 v23;
  u8* v24;
L0: ;
  v0 = (fnptr_t**)(&(*a0).f0.f0);
  *v0 = ((fnptr_t*)((u8**)(&(*(&_ZTVN14OpenVolumeMesh18PropertyStoragePtrIbEE)).f0.e[(s64)((s64)((u64)2ULL))])));
  v1 = (struct S20_class_std___Sp_counted_base**)(&(*a0).f0.f1.f0.f1.f0);
  v2 = *v1;
  v3 = ((u8*)v2 == (u8*)((struct S20_class_std___Sp_counted_base*)0));
  if (v3) {
    goto L8;
  } else {
    goto L1;
  }
L1: ;
  v4 = (u32*)(&(*v2).f1);
  v5 = (u64*)v4;
  v6 = (((u64)(*v2).f1 << 0) | ((u64)(*v2).f2 << 32));
  v7 = (v6 == ((u64)4294967297ULL));
  if (v7) {
    goto L2;
  } else {
    goto L3;
  }
L2: ;
  *v4 = ((u32)0ULL);
  v8 = (u32*)(&(*v2).f2);
  *v8 = ((u32)0ULL);
  v9 = (fnptr_t**)&(*v2).f0;
  v10 = *v9;
  v11 = (fnptr_t*)(v10 + (s64)((s64)((u64)2ULL)));
  v12 = *v11;
  ((FT1)v12)(v2);
  v13 = *v9;
  v14 = (fnptr_t*)(v13 + (s64)((s64)((u64)3ULL)));
  v15 = *v14;
  ((FT1)v15)(v2);
  goto L8;
L3: ;
  v16 = *(&__libc_single_threaded);
  v17 = (v16 == ((u8)0ULL));
  if (v17) {
    goto L5;
  } else {
    goto L4;
  }
L4: ;
  v18 = *v4;
  v19 = ((u32)(v18 + ((u32)4294967295ULL)));
  *v4 = v19;
  v22 = v18;
  goto L6;
L5: ;
  v20 = *v4;
  v21 = ((u32)(v20 + ((u32)4294967295ULL)));
  *v4 = v21;
  v22 = v20;
  goto L6;
L6: ;
  v23 = (v22 == ((u32)1ULL));
  if (v23) {
    goto L7;
  } else {
    goto L8;
  }
L7: ;
  _ZNSt16_Sp_counted_baseILN9__gnu_cxx12_Lock_policyE2EE24_M_release_last_use_coldEv(v2);
  goto L8;
L8: ;
  v24 = (u8*)a0;
  _ZdlPv(v24);
  return;
}

void _ZN14OpenVolumeMesh18PropertyStoragePtrIbED0Ev(struct S32_class_OpenVolumeMesh__PropertyStoragePtr* a0) {
  fnptr_t** v0;
  struct S20_class_std___Sp_counted_base** v1;
  struct S20_class_std___Sp_counted_base* v2;
  u1 v3;
  u32* v4;
  u64* v5;
  u64 v6;
  u1 v7;
  u32* v8;
  fnptr_t** v9;
  fnptr_t* v10;
  fnptr_t* v11;
  fnptr_t v12;
  fnptr_t* v13;
  fnptr_t* v14;
  fnptr_t v15;
  u8 v16;
  u1 v17;
  u32 v18;
  u32 v19;
  u32 v20;
  u32 v21;
  u32 v22; u32 v22_t;
  u1 v23;
  u8* v24;
L0: ;
  v0 = (fnptr_t**)(&(*a0).f0);
  *v0 = ((fnptr_t*)((u8**)(&(*(&_ZTVN14OpenVolumeMesh18PropertyStoragePtrIbEE)).f0.e[(s64)((s64)((u64)2ULL))])));
  v1 = (struct S20_class_std___Sp_counted_base**)(&(*a0).f1.f0.f1.f0);
  v2 = *v1;
  v3 = ((u8*)v2 == (u8*)((struct S20_class_std___Sp_counted_base*)0));
  if (v3) {
    goto L8;
  } else {
    goto L1;
  }
L1: ;
  v4 = (u32*)(&(*v2).f1);
  v5 = (u64*)v4;
  v6 = (((u64)(*v2).f1 << 0) | ((u64)(*v2).f2 << 32));
  v7 = (v6 == ((u64)4294967297ULL));
  if (v7) {
    goto L2;
  } else {
    goto L3;
  }
L2: ;
  *v4 = ((u32)0ULL);
  v8 = (u32*)(&(*v2).f2);
  *v8 = ((u32)0ULL);
  v9 = (fnptr_t**)&(*v2).f0;
  v10 = *v9;
  v11 = (fnptr_t*)(v10 + (s64)((s64)((u64)2ULL)));
  v12 = *v11;
  ((FT1)v12)(v2);
  v13 = *v9;
  v14 = (fnptr_t*)(v13 + (s64)((s64)((u64)3ULL)));
  v15 = *v14;
  ((FT1)v15)(v2);
  goto L8;
L3: ;
  v16 = *(&__libc_single_threaded);
  v17 = (v16 == ((u8)0ULL));
  if (v17) {
    goto L5;
  } else {
    goto L4;
  }
L4: ;
  v18 = *v4;
  v19 = ((u32)(v18 + ((u32)4294967295ULL)));
  *v4 = v19;
  v22 = v18;
  goto L6;
L5: ;
  v20 = *v4;
  v21 = ((u32)(v20 + ((u32)4294967295ULL)));
  *v4 = v21;
  v22 = v20;
  goto L6;
L6: ;
  v23 = (v22 == ((u32)1ULL));
  if (v23) {
    goto L7;
  } else {
    goto L8;
  }
L7: ;
  _ZNSt16_Sp_counted_baseILN9__gnu_cxx12_Lock_policyE2EE24_M_release_last_use_coldEv(v2);
  goto L8;
L8: ;
  v24 = (u8*)a0;
  _ZdlPv(v24);
  return;
}

void _ZN14OpenVolumeMesh11PropertyPtrIbNS_6Entity4CellEED2Ev(struct S31_class_OpenVolumeMesh__PropertyPtr_86* a0) {
  fnptr_t** v0;
  struct S20_class_std___Sp_counted_base** v1;
  struct S20_class_std___Sp_counted_base* v2;
  u1 v3;
  u32* v4;
  u64* v5;
  u64 v6;
  u1 v7;
  u32* v8;
  fnptr_t** v9;
  fnptr_t* v10;
  fnptr_t* v11;
  fnptr_t v12;
  fnptr_t* v13;
  fnptr_t* v14;
  fnptr_t v15;
  u8 v16;
  u1 v17;
  u32 v18;
  u32 v19;
  u32 v20;
  u32 v21;
  u32 v22; u32 v22_t;
  u1 v23;
L0: ;
  v0 = (fnptr_t**)(&(*a0).f0.f0.f0);
  *v0 = ((fnptr_t*)((u8**)(&(*(&_ZTVN14OpenVolumeMesh18PropertyStoragePtrIbEE)).f0.e[(s64)((s64)((u64)2ULL))])));
  v1 = (struct S20_class_std___Sp_counted_base**)(&(*a0).f0.f0.f1.f0.f1.f0);
  v2 = *v1;
  v3 = ((u8*)v2 == (u8*)((struct S20_class_std___Sp_counted_base*)0));
  if (v3) {
    goto L8;
  } else {
    goto L1;
  }
L1: ;
  v4 = (u32*)(&(*v2).f1);
  v5 = (u64*)v4;
  v6 = (((u64)(*v2).f1 << 0) | ((u64)(*v2).f2 << 32));
  v7 = (v6 == ((u64)4294967297ULL));
  if (v7) {
    goto L2;
  } else {
    goto L3;
  }
L2: ;
  *v4 = ((u32)0ULL);
  v8 = (u32*)(&(*v2).f2);
  *v8 = ((u32)0ULL);
  v9 = (fnptr_t**)&(*v2).f0;
  v10 = *v9;
  v11 = (fnptr_t*)(v10 + (s64)((s64)((u64)2ULL)));
  v12 = *v11;
  ((FT1)v12)(v2);
  v13 = *v9;
  v14 = (fnptr_t*)(v13 + (s64)((s64)((u64)3ULL)));
  v15 = *v14;
  ((FT1)v15)(v2);
  goto L8;
L3: ;
  v16 = *(&__libc_single_threaded);
  v17 = (v16 == ((u8)0ULL));
  if (v17) {
    goto L5;
  } else {
    goto L4;
  }
L4: ;
  v18 = *v4;
  v19 = ((u32)(v18 + ((u32)4294967295ULL)));
  *v4 = v19;
  v22 = v18;
  goto L6;
L5: ;
  v20 = *v4;
  v21 = ((u32)(v20 + ((u32)4294967295ULL)));
  *v4 = v21;
  v22 = v20;
  goto L6;
L6: ;
  v23 = (v22 == ((u32)1ULL));
  if (v23) {
    goto L7;
  } else {
    goto L8;
  }
L7: ;
  _ZNSt16_Sp_counted_baseILN9__gnu_cxx12_Lock_policyE2EE24_M_release_last_use_coldEv(v2);
  goto L8;
L8: ;
  return;
}

void _ZN14OpenVolumeMesh11PropertyPtrIbNS_6Entity4CellEED0Ev(struct S31_class_OpenVolumeMesh__PropertyPtr_86* a0) {
  fnptr_t** v0;
  struct S20_class_std___Sp_counted_base** v1;
  struct S20_class_std___Sp_counted_base* v2;
  u1 v3;
  u32* v4;
  u64* v5;
  u64 v6;
  u1 v7;
  u32* v8;
  fnptr_t** v9;
  fnptr_t* v10;
  fnptr_t* v11;
  fnptr_t v12;
  fnptr_t* v13;
  fnptr_t* v14;
  fnptr_t v15;
  u8 v16;
  u1 v17;
  u32 v18;
  u32 v19;
  u32 v20;
  u32 v21;
  u32 v22; u32 v22_t;
  u1 v23;
  u8* v24;
L0: ;
  v0 = (fnptr_t**)(&(*a0).f0.f0.f0);
  *v0 = ((fnptr_t*)((u8**)(&(*(&_ZTVN14OpenVolumeMesh18PropertyStoragePtrIbEE)).f0.e[(s64)((s64)((u64)2ULL))])));
  v1 = (struct S20_class_std___Sp_counted_base**)(&(*a0).f0.f0.f1.f0.f1.f0);
  v2 = *v1;
  v3 = ((u8*)v2 == (u8*)((struct S20_class_std___Sp_counted_base*)0));
  if (v3) {
    goto L8;
  } else {
    goto L1;
  }
L1: ;
  v4 = (u32*)(&(*v2).f1);
  v5 = (u64*)v4;
  v6 = (((u64)(*v2).f1 << 0) | ((u64)(*v2).f2 << 32));
  v7 = (v6 == ((u64)4294967297ULL));
  if (v7) {
    goto L2;
  } else {
    goto L3;
  }
L2: ;
  *v4 = ((u32)0ULL);
  v8 = (u32*)(&(*v2).f2);
  *v8 = ((u32)0ULL);
  v9 = (fnptr_t**)&(*v2).f0;
  v10 = *v9;
  v11 = (fnptr_t*)(v10 + (s64)((s64)((u64)2ULL)));
  v12 = *v11;
  ((FT1)v12)(v2);
  v13 = *v9;
  v14 = (fnptr_t*)(v13 + (s64)((s64)((u64)3ULL)));
  v15 = *v14;
  ((FT1)v15)(v2);
  goto L8;
L3: ;
  v16 = *(&__libc_single_threaded);
  v17 = (v16 == ((u8)0ULL));
  if (v17) {
    goto L5;
  } else {
    goto L4;
  }
L4: ;
  v18 = *v4;
  v19 = ((u32)(v18 + ((u32)4294967295ULL)));
  *v4 = v19;
  v22 = v18;
  goto L6;
L5: ;
  v20 = *v4;
  v21 = ((u32)(v20 + ((u32)4294967295ULL)));
  *v4 = v21;
  v22 = v20;
  goto L6;
L6: ;
  v23 = (v22 == ((u32)1ULL));
  if (v23) {
    goto L7;
  } else {
    goto L8;
  }
L7: ;
  _ZNSt16_Sp_counted_baseILN9__gnu_cxx12_Lock_policyE2EE24_M_release_last_use_coldEv(v2);
  goto L8;
L8: ;
  v24 = (u8*)a0;
  _ZdlPv(v24);
  return;
}

struct S14_class_std____cxx11__basic_string* _ZNKR14OpenVolumeMesh11PropertyPtrIbNS_6Entity4CellEE4nameB5cxx11Ev(struct S31_class_OpenVolumeMesh__PropertyPtr_86* a0) {
  struct S12_class_OpenVolumeMesh__PropertyStorageT** v0;
  struct S22_class_OpenVolumeMesh__PropertyStorageBas** v1;
  struct S22_class_OpenVolumeMesh__PropertyStorageBas* v2;
  struct S14_class_std____cxx11__basic_string* v3;
L0: ;
  v0 = (struct S12_class_OpenVolumeMesh__PropertyStorageT**)(&(*a0).f0.f0.f1.f0.f0);
  v1 = (struct S22_class_OpenVolumeMesh__PropertyStorageBas**)&(*a0).f0.f0.f1.f0.f0;
  v2 = *v1;
  v3 = (struct S14_class_std____cxx11__basic_string*)(&(*v2).f2);
  return v3;
}

void _ZThn24_N14OpenVolumeMesh11PropertyPtrIbNS_6Entity4CellEED1Ev(struct S31_class_OpenVolumeMesh__PropertyPtr_86* a0) {
  struct S56_class_std__shared_ptr_65* v0;
  fnptr_t** v1;
  struct S56_class_std__shared_ptr_65* v2;
  struct S20_class_std___Sp_counted_base** v3;
  struct S20_class_std___Sp_counted_base* v4;
  u1 v5;
  u32* v6;
  u64* v7;
  u64 v8;
  u1 v9;
  u32* v10;
  fnptr_t** v11;
  fnptr_t* v12;
  fnptr_t* v13;
  fnptr_t v14;
  fnptr_t* v15;
  fnptr_t* v16;
  fnptr_t v17;
  u8 v18;
  u1 v19;
  u32 v20;
  u32 v21;
  u32 v22;
  u32 v23;
  u32 v24; u32 v24_t;
  u1 v25;
L0: ;
  v0 = (struct S56_class_std__shared_ptr_65*)(&(a0)[(s64)((s64)((u64)18446744073709551615ULL))].f0.f0.f1);
  v1 = (fnptr_t**)v0;
  *v1 = ((fnptr_t*)((u8**)(&(*(&_ZTVN14OpenVolumeMesh18PropertyStoragePtrIbEE)).f0.e[(s64)((s64)((u64)2ULL))])));
  v2 = (struct S56_class_std__shared_ptr_65*)(v0 + (s64)((s64)((u64)1ULL)));
  v3 = (struct S20_class_std___Sp_counted_base**)v2;
  v4 = *v3;
  v5 = ((u8*)v4 == (u8*)((struct S20_class_std___Sp_counted_base*)0));
  if (v5) {
    goto L8;
  } else {
    goto L1;
  }
L1: ;
  v6 = (u32*)(&(*v4).f1);
  v7 = (u64*)v6;
  v8 = (((u64)(*v4).f1 << 0) | ((u64)(*v4).f2 << 32));
  v9 = (v8 == ((u64)4294967297ULL));
  if (v9) {
    goto L2;
  } else {
    goto L3;
  }
L2: ;
  *v6 = ((u32)0ULL);
  v10 = (u32*)(&(*v4).f2);
  *v10 = ((u32)0ULL);
  v11 = (fnptr_t**)&(*v4).f0;
  v12 = *v11;
  v13 = (fnptr_t*)(v12 + (s64)((s64)((u64)2ULL)));
  v14 = *v13;
  ((FT1)v14)(v4);
  v15 = *v11;
  v16 = (fnptr_t*)(v15 + (s64)((s64)((u64)3ULL)));
  v17 = *v16;
  ((FT1)v17)(v4);
  goto L8;
L3: ;
  v18 = *(&__libc_single_threaded);
  v19 = (v18 == ((u8)0ULL));
  if (v19) {
    goto L5;
  } else {
    goto L4;
  }
L4: ;
  v20 = *v6;
  v21 = ((u32)(v20 + ((u32)4294967295ULL)));
  *v6 = v21;
  v24 = v20;
  goto L6;
L5: ;
  v22 = *v6;
  v23 = ((u32)(v22 + ((u32)4294967295ULL)));
  *v6 = v23;
  v24 = v22;
  goto L6;
L6: ;
  v25 = (v24 == ((u32)1ULL));
  if (v25) {
    goto L7;
  } else {
    goto L8;
  }
L7: ;
  _ZNSt16_Sp_counted_baseILN9__gnu_cxx12_Lock_policyE2EE24_M_release_last_use_coldEv(v4);
  goto L8;
L8: ;
  return;
}

void _ZThn24_N14OpenVolumeMesh11PropertyPtrIbNS_6Entity4CellEED0Ev(struct S31_class_OpenVolumeMesh__PropertyPtr_86* a0) {
  struct S56_class_std__shared_ptr_65* v0;
  fnptr_t** v1;
  struct S56_class_std__shared_ptr_65* v2;
  struct S20_class_std___Sp_counted_base** v3;
  struct S20_class_std___Sp_counted_base* v4;
  u1 v5;
  u32* v6;
  u64* v7;
  u64 v8;
  u1 v9;
  u32* v10;
  fnptr_t** v11;
  fnptr_t* v12;
  fnptr_t* v13;
  fnptr_t v14;
  fnptr_t* v15;
  fnptr_t* v16;
  fnptr_t v17;
  u8 v18;
  u1 v19;
  u32 v20;
  u32 v21;
  u32 v22;
  u32 v23;
  u32 v24; u32 v24_t;
  u1 v25;
  u8* v26;
L0: ;
  v0 = (struct S56_class_std__shared_ptr_65*)(&(a0)[(s64)((s64)((u64)18446744073709551615ULL))].f0.f0.f1);
  v1 = (fnptr_t**)v0;
  *v1 = ((fnptr_t*)((u8**)(&(*(&_ZTVN14OpenVolumeMesh18PropertyStoragePtrIbEE)).f0.e[(s64)((s64)((u64)2ULL))])));
  v2 = (struct S56_class_std__shared_ptr_65*)(v0 + (s64)((s64)((u64)1ULL)));
  v3 = (struct S20_class_std___Sp_counted_base**)v2;
  v4 = *v3;
  v5 = ((u8*)v4 == (u8*)((struct S20_class_std___Sp_counted_base*)0));
  if (v5) {
    goto L8;
  } else {
    goto L1;
  }
L1: ;
  v6 = (u32*)(&(*v4).f1);
  v7 = (u64*)v6;
  v8 = (((u64)(*v4).f1 << 0) | ((u64)(*v4).f2 << 32));
  v9 = (v8 == ((u64)4294967297ULL));
  if (v9) {
    goto L2;
  } else {
    goto L3;
  }
L2: ;
  *v6 = ((u32)0ULL);
  v10 = (u32*)(&(*v4).f2);
  *v10 = ((u32)0ULL);
  v11 = (fnptr_t**)&(*v4).f0;
  v12 = *v11;
  v13 = (fnptr_t*)(v12 + (s64)((s64)((u64)2ULL)));
  v14 = *v13;
  ((FT1)v14)(v4);
  v15 = *v11;
  v16 = (fnptr_t*)(v15 + (s64)((s64)((u64)3ULL)));
  v17 = *v16;
  ((FT1)v17)(v4);
  goto L8;
L3: ;
  v18 = *(&__libc_single_threaded);
  v19 = (v18 == ((u8)0ULL));
  if (v19) {
    goto L5;
  } else {
    goto L4;
  }
L4: ;
  v20 = *v6;
  v21 = ((u32)(v20 + ((u32)4294967295ULL)));
  *v6 = v21;
  v24 = v20;
  goto L6;
L5: ;
  v22 = *v6;
  v23 = ((u32)(v22 + ((u32)4294967295ULL)));
  *v6 = v23;
  v24 = v22;
  goto L6;
L6: ;
  v25 = (v24 == ((u32)1ULL));
  if (v25) {
    goto L7;
  } else {
    goto L8;
  }
L7: ;
  _ZNSt16_Sp_counted_baseILN9__gnu_cxx12_Lock_policyE2EE24_M_release_last_use_coldEv(v4);
  goto L8;
L8: ;
  v26 = (u8*)v0;
  _ZdlPv(v26);
  return;
}

struct S14_class_std____cxx11__basic_string* _ZThn24_NKR14OpenVolumeMesh11PropertyPtrIbNS_6Entity4CellEE4nameB5cxx11Ev(struct S31_class_OpenVolumeMesh__PropertyPtr_86* a0) {
  struct S70_class_std____weak_count* v0;
  struct S22_class_OpenVolumeMesh__PropertyStorageBas** v1;
  struct S22_class_OpenVolumeMesh__PropertyStorageBas* v2;
  struct S14_class_std____cxx11__basic_string* v3;
L0: ;
  v0 = (struct S70_class_std____weak_count*)(&(a0)[(s64)((s64)((u64)18446744073709551615ULL))].f0.f0.f1.f0.f1);
  v1 = (struct S22_class_OpenVolumeMesh__PropertyStorageBas**)v0;
  v2 = *v1;
  v3 = (struct S14_class_std____cxx11__basic_string*)(&(*v2).f2);
  return v3;
}

void _ZN14OpenVolumeMesh14HandleIndexingINS_6Entity4CellENS_18PropertyStoragePtrIbEEED0Ev(struct S33_class_OpenVolumeMesh__HandleIndexing_87* a0) {
  fnptr_t** v0;
  struct S20_class_std___Sp_counted_base** v1;
  struct S20_class_std___Sp_counted_base* v2;
  u1 v3;
  u32* v4;
  u64* v5;
  u64 v6;
  u1 v7;
  u32* v8;
  fnptr_t** v9;
  fnptr_t* v10;
  fnptr_t* v11;
  fnptr_t v12;
  fnptr_t* v13;
  fnptr_t* v14;
  fnptr_t v15;
  u8 v16;
  u1 v17;
  u32 v18;
  u32 v19;
  u32 v20;
  u32 v21;
  u32 v22; u32 v22_t;
  u1 v23;
  u8* v24;
L0: ;
  v0 = (fnptr_t**)(&(*a0).f0.f0);
  *v0 = ((fnptr_t*)((u8**)(&(*(&_ZTVN14OpenVolumeMesh18PropertyStoragePtrIbEE)).f0.e[(s64)((s64)((u64)2ULL))])));
  v1 = (struct S20_class_std___Sp_counted_base**)(&(*a0).f0.f1.f0.f1.f0);
  v2 = *v1;
  v3 = ((u8*)v2 == (u8*)((struct S20_class_std___Sp_counted_base*)0));
  if (v3) {
    goto L8;
  } else {
    goto L1;
  }
L1: ;
  v4 = (u32*)(&(*v2).f1);
  v5 = (u64*)v4;
  v6 = (((u64)(*v2).f1 << 0) | ((u64)(*v2).f2 << 32));
  v7 = (v6 == ((u64)4294967297ULL));
  if (v7) {
    goto L2;
  } else {
    goto L3;
  }
L2: ;
  *v4 = ((u32)0ULL);
  v8 = (u32*)(&(*v2).f2);
  *v8 = ((u32)0ULL);
  v9 = (fnptr_t**)&(*v2).f0;
  v10 = *v9;
  v11 = (fnptr_t*)(v10 + (s64)((s64)((u64)2ULL)));
  v12 = *v11;
  ((FT1)v12)(v2);
  v13 = *v9;
  v14 = (fnptr_t*)(v13 + (s64)((s64)((u64)3ULL)));
  v15 = *v14;
  ((FT1)v15)(v2);
  goto L8;
L3: ;
  v16 = *(&__libc_single_threaded);
  v17 = (v16 == ((u8)0ULL));
  if (v17) {
    goto L5;
  } else {
    goto L4;
  }
L4: ;
  v18 = *v4;
  v19 = ((u32)(v18 + ((u32)4294967295ULL)));
  *v4 = v19;
  v22 = v18;
  goto L6;
L5: ;
  v20 = *v4;
  v21 = ((u32)(v20 + ((u32)4294967295ULL)));
  *v4 = v21;
  v22 = v20;
  goto L6;
L6: ;
  v23 = (v22 == ((u32)1ULL));
  if (v23) {
    goto L7;
  } else {
    goto L8;
  }
L7: ;
  _ZNSt16_Sp_counted_baseILN9__gnu_cxx12_Lock_policyE2EE24_M_release_last_use_coldEv(v2);
  goto L8;
L8: ;
  v24 = (u8*)a0;
  _ZdlPv(v24);
  return;
}

void _ZN14OpenVolumeMesh11PropertyPtrIbNS_6Entity8HalfFaceEED2Ev(struct S31_class_OpenVolumeMesh__PropertyPtr_86* a0) {
  fnptr_t** v0;
  struct S20_class_std___Sp_counted_base** v1;
  struct S20_class_std___Sp_counted_base* v2;
  u1 v3;
  u32* v4;
  u64* v5;
  u64 v6;
  u1 v7;
  u32* v8;
  fnptr_t** v9;
  fnptr_t* v10;
  fnptr_t* v11;
  fnptr_t v12;
  fnptr_t* v13;
  fnptr_t* v14;
  fnptr_t v15;
  u8 v16;
  u1 v17;
  u32 v18;
  u32 v19;
  u32 v20;
  u32 v21;
  u32 v22; u32 v22_t;
  u1 v23;
L0: ;
  v0 = (fnptr_t**)(&(*a0).f0.f0.f0);
  *v0 = ((fnptr_t*)((u8**)(&(*(&_ZTVN14OpenVolumeMesh18PropertyStoragePtrIbEE)).f0.e[(s64)((s64)((u64)2ULL))])));
  v1 = (struct S20_class_std___Sp_counted_base**)(&(*a0).f0.f0.f1.f0.f1.f0);
  v2 = *v1;
  v3 = ((u8*)v2 == (u8*)((struct S20_class_std___Sp_counted_base*)0));
  if (v3) {
    goto L8;
  } else {
    goto L1;
  }
L1: ;
  v4 = (u32*)(&(*v2).f1);
  v5 = (u64*)v4;
  v6 = (((u64)(*v2).f1 << 0) | ((u64)(*v2).f2 << 32));
  v7 = (v6 == ((u64)4294967297ULL));
  if (v7) {
    goto L2;
  } else {
    goto L3;
  }
L2: ;
  *v4 = ((u32)0ULL);
  v8 = (u32*)(&(*v2).f2);
  *v8 = ((u32)0ULL);
  v9 = (fnptr_t**)&(*v2).f0;
  v10 = *v9;
  v11 = (fnptr_t*)(v10 + (s64)((s64)((u64)2ULL)));
  v12 = *v11;
  ((FT1)v12)(v2);
  v13 = *v9;
  v14 = (fnptr_t*)(v13 + (s64)((s64)((u64)3ULL)));
  v15 = *v14;
  ((FT1)v15)(v2);
  goto L8;
L3: ;
  v16 = *(&__libc_single_threaded);
  v17 = (v16 == ((u8)0ULL));
  if (v17) {
    goto L5;
  } else {
    goto L4;
  }
L4: ;
  v18 = *v4;
  v19 = ((u32)(v18 + ((u32)4294967295ULL)));
  *v4 = v19;
  v22 = v18;
  goto L6;
L5: ;
  v20 = *v4;
  v21 = ((u32)(v20 + ((u32)4294967295ULL)));
  *v4 = v21;
  v22 = v20;
  goto L6;
L6: ;
  v23 = (v22 == ((u32)1ULL));
  if (v23) {
    goto L7;
  } else {
    goto L8;
  }
L7: ;
  _ZNSt16_Sp_counted_baseILN9__gnu_cxx12_Lock_policyE2EE24_M_release_last_use_coldEv(v2);
  goto L8;
L8: ;
  return;
}

void _ZN14OpenVolumeMesh11PropertyPtrIbNS_6Entity8HalfFaceEED0Ev(struct S31_class_OpenVolumeMesh__PropertyPtr_86* a0) {
  fnptr_t** v0;
  struct S20_class_std___Sp_counted_base** v1;
  struct S20_class_std___Sp_counted_base* v2;
  u1 v3;
  u32* v4;
  u64* v5;
  u64 v6;
  u1 v7;
  u32* v8;
  fnptr_t** v9;
  fnptr_t* v10;
  fnptr_t* v11;
  fnptr_t v12;
  fnptr_t* v13;
  fnptr_t* v14;
  fnptr_t v15;
  u8 v16;
  u1 v17;
  u32 v18;
  u32 v19;
  u32 v20;
  u32 v21;
  u32 v22; u32 v22_t;
  u1 v23;
  u8* v24;
L0: ;
  v0 = (fnptr_t**)(&(*a0).f0.f0.f0);
  *v0 = ((fnptr_t*)((u8**)(&(*(&_ZTVN14OpenVolumeMesh18PropertyStoragePtrIbEE)).f0.e[(s64)((s64)((u64)2ULL))])));
  v1 = (struct S20_class_std___Sp_counted_base**)(&(*a0).f0.f0.f1.f0.f1.f0);
  v2 = *v1;
  v3 = ((u8*)v2 == (u8*)((struct S20_class_std___Sp_counted_base*)0));
  if (v3) {
    goto L8;
  } else {
    goto L1;
  }
L1: ;
  v4 = (u32*)(&(*v2).f1);
  v5 = (u64*)v4;
  v6 = (((u64)(*v2).f1 << 0) | ((u64)(*v2).f2 << 32));
  v7 = (v6 == ((u64)4294967297ULL));
  if (v7) {
    goto L2;
  } else {
    goto L3;
  }
L2: ;
  *v4 = ((u32)0ULL);
  v8 = (u32*)(&(*v2).f2);
  *v8 = ((u32)0ULL);
  v9 = (fnptr_t**)&(*v2).f0;
  v10 = *v9;
  v11 = (fnptr_t*)(v10 + (s64)((s64)((u64)2ULL)));
  v12 = *v11;
  ((FT1)v12)(v2);
  v13 = *v9;
  v14 = (fnptr_t*)(v13 + (s64)((s64)((u64)3ULL)));
  v15 = *v14;
  ((FT1)v15)(v2);
  goto L8;
L3: ;
  v16 = *(&__libc_single_threaded);
  v17 = (v16 == ((u8)0ULL));
  if (v17) {
    goto L5;
  } else {
    goto L4;
  }
L4: ;
  v18 = *v4;
  v19 = ((u32)(v18 + ((u32)4294967295ULL)));
  *v4 = v19;
  v22 = v18;
  goto L6;
L5: ;
  v20 = *v4;
  v21 = ((u32)(v20 + ((u32)4294967295ULL)));
  *v4 = v21;
  v22 = v20;
  goto L6;
L6: ;
  v23 = (v22 == ((u32)1ULL));
  if (v23) {
    goto L7;
  } else {
    goto L8;
  }
L7: ;
  _ZNSt16_Sp_counted_baseILN9__gnu_cxx12_Lock_policyE2EE24_M_release_last_use_coldEv(v2);
  goto L8;
L8: ;
  v24 = (u8*)a0;
  _ZdlPv(v24);
  return;
}

struct S14_class_std____cxx11__basic_string* _ZNKR14OpenVolumeMesh11PropertyPtrIbNS_6Entity8HalfFaceEE4nameB5cxx11Ev(struct S31_class_OpenVolumeMesh__PropertyPtr_86* a0) {
  struct S12_class_OpenVolumeMesh__PropertyStorageT** v0;
  struct S22_class_OpenVolumeMesh__PropertyStorageBas** v1;
  struct S22_class_OpenVolumeMesh__PropertyStorageBas* v2;
  struct S14_class_std____cxx11__basic_string* v3;
L0: ;
  v0 = (struct S12_class_OpenVolumeMesh__PropertyStorageT**)(&(*a0).f0.f0.f1.f0.f0);
  v1 = (struct S22_class_OpenVolumeMesh__PropertyStorageBas**)&(*a0).f0.f0.f1.f0.f0;
  v2 = *v1;
  v3 = (struct S14_class_std____cxx11__basic_string*)(&(*v2).f2);
  return v3;
}

void _ZThn24_N14OpenVolumeMesh11PropertyPtrIbNS_6Entity8HalfFaceEED1Ev(struct S31_class_OpenVolumeMesh__PropertyPtr_86* a0) {
  struct S56_class_std__shared_ptr_65* v0;
  fnptr_t** v1;
  struct S56_class_std__shared_ptr_65* v2;
  struct S20_class_std___Sp_counted_base** v3;
  struct S20_class_std___Sp_counted_base* v4;
  u1 v5;
  u32* v6;
  u64* v7;
  u64 v8;
  u1 v9;
  u32* v10;
  fnptr_t** v11;
  fnptr_t* v12;
  fnptr_t* v13;
  fnptr_t v14;
  fnptr_t* v15;
  fnptr_t* v16;
  fnptr_t v17;
  u8 v18;
  u1 v19;
  u32 v20;
  u32 v21;
  u32 v22;
  u32 v23;
  u32 v24; u32 v24_t;
  u1 v25;
L0: ;
  v0 = (struct S56_class_std__shared_ptr_65*)(&(a0)[(s64)((s64)((u64)18446744073709551615ULL))].f0.f0.f1);
  v1 = (fnptr_t**)v0;
  *v1 = ((fnptr_t*)((u8**)(&(*(&_ZTVN14OpenVolumeMesh18PropertyStoragePtrIbEE)).f0.e[(s64)((s64)((u64)2ULL))])));
  v2 = (struct S56_class_std__shared_ptr_65*)(v0 + (s64)((s64)((u64)1ULL)));
  v3 = (struct S20_class_std___Sp_counted_base**)v2;
  v4 = *v3;
  v5 = ((u8*)v4 == (u8*)((struct S20_class_std___Sp_counted_base*)0));
  if (v5) {
    goto L8;
  } else {
    goto L1;
  }
L1: ;
  v6 = (u32*)(&(*v4).f1);
  v7 = (u64*)v6;
  v8 = (((u64)(*v4).f1 << 0) | ((u64)(*v4).f2 << 32));
  v9 = (v8 == ((u64)4294967297ULL));
  if (v9) {
    goto L2;
  } else {
    goto L3;
  }
L2: ;
  *v6 = ((u32)0ULL);
  v10 = (u32*)(&(*v4).f2);
  *v10 = ((u32)0ULL);
  v11 = (fnptr_t**)&(*v4).f0;
  v12 = *v11;
  v13 = (fnptr_t*)(v12 + (s64)((s64)((u64)2ULL)));
  v14 = *v13;
  ((FT1)v14)(v4);
  v15 = *v11;
  v16 = (fnptr_t*)(v15 + (s64)((s64)((u64)3ULL)));
  v17 = *v16;
  ((FT1)v17)(v4);
  goto L8;
L3: ;
  v18 = *(&__libc_single_threaded);
  v19 = (v18 == ((u8)0ULL));
  if (v19) {
    goto L5;
  } else {
    goto L4;
  }
L4: ;
  v20 = *v6;
  v21 = ((u32)(v20 + ((u32)4294967295ULL)));
  *v6 = v21;
  v24 = v20;
  goto L6;
L5: ;
  v22 = *v6;
  v23 = ((u32)(v22 + ((u32)4294967295ULL)));
  *v6 = v23;
  v24 = v22;
  goto L6;
L6: ;
  v25 = (v24 == ((u32)1ULL));
  if (v25) {
    goto L7;
  } else {
    goto L8;
  }
L7: ;
  _ZNSt16_Sp_counted_baseILN9__gnu_cxx12_Lock_policyE2EE24_M_release_last_use_coldEv(v4);
  goto L8;
L8: ;
  return;
}

void _ZThn24_N14OpenVolumeMesh11PropertyPtrIbNS_6Entity8HalfFaceEED0Ev(struct S31_class_OpenVolumeMesh__PropertyPtr_86* a0) {
  struct S56_class_std__shared_ptr_65* v0;
  fnptr_t** v1;
  struct S56_class_std__shared_ptr_65* v2;
  struct S20_class_std___Sp_counted_base** v3;
  struct S20_class_std___Sp_counted_base* v4;
  u1 v5;
  u32* v6;
  u64* v7;
  u64 v8;
  u1 v9;
  u32* v10;
  fnptr_t** v11;
  fnptr_t* v12;
  fnptr_t* v13;
  fnptr_t v14;
  fnptr_t* v15;
  fnptr_t* v16;
  fnptr_t v17;
  u8 v18;
  u1 v19;
  u32 v20;
  u32 v21;
  u32 v22;
  u32 v23;
  u32 v24; u32 v24_t;
  u1 v25;
  u8* v26;
L0: ;
  v0 = (struct S56_class_std__shared_ptr_65*)(&(a0)[(s64)((s64)((u64)18446744073709551615ULL))].f0.f0.f1);
  v1 = (fnptr_t**)v0;
  *v1 = ((fnptr_t*)((u8**)(&(*(&_ZTVN14OpenVolumeMesh18PropertyStoragePtrIbEE)).f0.e[(s64)((s64)((u64)2ULL))])));
  v2 = (struct S56_class_std__shared_ptr_65*)(v0 + (s64)((s64)((u64)1ULL)));
  v3 = (struct S20_class_std___Sp_counted_base**)v2;
  v4 = *v3;
  v5 = ((u8*)v4 == (u8*)((struct S20_class_std___Sp_counted_base*)0));
  if (v5) {
    goto L8;
  } else {
    goto L1;
  }
L1: ;
  v6 = (u32*)(&(*v4).f1);
  v7 = (u64*)v6;
  v8 = (((u64)(*v4).f1 << 0) | ((u64)(*v4).f2 << 32));
  v9 = (v8 == ((u64)4294967297ULL));
  if (v9) {
    goto L2;
  } else {
    goto L3;
  }
L2: ;
  *v6 = ((u32)0ULL);
  v10 = (u32*)(&(*v4).f2);
  *v10 = ((u32)0ULL);
  v11 = (fnptr_t**)&(*v4).f0;
  v12 = *v11;
  v13 = (fnptr_t*)(v12 + (s64)((s64)((u64)2ULL)));
  v14 = *v13;
  ((FT1)v14)(v4);
  v15 = *v11;
  v16 = (fnptr_t*)(v15 + (s64)((s64)((u64)3ULL)));
  v17 = *v16;
  ((FT1)v17)(v4);
  goto L8;
L3: ;
  v18 = *(&__libc_single_threaded);
  v19 = (v18 == ((u8)0ULL));
  if (v19) {
    goto L5;
  } else {
    goto L4;
  }
L4: ;
  v20 = *v6;
  v21 = ((u32)(v20 + ((u32)4294967295ULL)));
  *v6 = v21;
  v24 = v20;
  goto L6;
L5: ;
  v22 = *v6;
  v23 = ((u32)(v22 + ((u32)4294967295ULL)));
  *v6 = v23;
  v24 = v22;
  goto L6;
L6: ;
  v25 = (v24 == ((u32)1ULL));
  if (v25) {
    goto L7;
  } else {
    goto L8;
  }
L7: ;
  _ZNSt16_Sp_counted_baseILN9__gnu_cxx12_Lock_policyE2EE24_M_release_last_use_coldEv(v4);
  goto L8;
L8: ;
  v26 = (u8*)v0;
  _ZdlPv(v26);
  return;
}

struct S14_class_std____cxx11__basic_string* _ZThn24_NKR14OpenVolumeMesh11PropertyPtrIbNS_6Entity8HalfFaceEE4nameB5cxx11Ev(struct S31_class_OpenVolumeMesh__PropertyPtr_86* a0) {
  struct S70_class_std____weak_count* v0;
  struct S22_class_OpenVolumeMesh__PropertyStorageBas** v1;
  struct S22_class_OpenVolumeMesh__PropertyStorageBas* v2;
  struct S14_class_std____cxx11__basic_string* v3;
L0: ;
  v0 = (struct S70_class_std____weak_count*)(&(a0)[(s64)((s64)((u64)18446744073709551615ULL))].f0.f0.f1.f0.f1);
  v1 = (struct S22_class_OpenVolumeMesh__PropertyStorageBas**)v0;
  v2 = *v1;
  v3 = (struct S14_class_std____cxx11__basic_string*)(&(*v2).f2);
  return v3;
}

void _ZN14OpenVolumeMesh14HandleIndexingINS_6Entity8HalfFaceENS_18PropertyStoragePtrIbEEED0Ev(struct S33_class_OpenVolumeMesh__HandleIndexing_87* a0) {
  fnptr_t** v0;
  struct S20_class_std___Sp_counted_base** v1;
  struct S20_class_std___Sp_counted_base* v2;
  u1 v3;
  u32* v4;
  u64* v5;
  u64 v6;
  u1 v7;
  u32* v8;
  fnptr_t** v9;
  fnptr_t* v10;
  fnptr_t* v11;
  fnptr_t v12;
  fnptr_t* v13;
  fnptr_t* v14;
  fnptr_t v15;
  u8 v16;
  u1 v17;
  u32 v18;
  u32 v19;
  u32 v20;
  u32 v21;
  u32 v22; u32 v22_t;
  u1 v23;
  u8* v24;
L0: ;
  v0 = (fnptr_t**)(&(*a0).f0.f0);
  *v0 = ((fnptr_t*)((u8**)(&(*(&_ZTVN14OpenVolumeMesh18PropertyStoragePtrIbEE)).f0.e[(s64)((s64)((u64)2ULL))])));
  v1 = (struct S20_class_std___Sp_counted_base**)(&(*a0).f0.f1.f0.f1.f0);
  v2 = *v1;
  v3 = ((u8*)v2 == (u8*)((struct S20_class_std___Sp_counted_base*)0));
  if (v3) {
    goto L8;
  } else {
    goto L1;
  }
L1: ;
  v4 = (u32*)(&(*v2).f1);
  v5 = (u64*)v4;
  v6 = (((u64)(*v2).f1 << 0) | ((u64)(*v2).f2 << 32));
  v7 = (v6 == ((u64)4294967297ULL));
  if (v7) {
    goto L2;
  } else {
    goto L3;
  }
L2: ;
  *v4 = ((u32)0ULL);
  v8 = (u32*)(&(*v2).f2);
  *v8 = ((u32)0ULL);
  v9 = (fnptr_t**)&(*v2).f0;
  v10 = *v9;
  v11 = (fnptr_t*)(v10 + (s64)((s64)((u64)2ULL)));
  v12 = *v11;
  ((FT1)v12)(v2);
  v13 = *v9;
  v14 = (fnptr_t*)(v13 + (s64)((s64)((u64)3ULL)));
  v15 = *v14;
  ((FT1)v15)(v2);
  goto L8;
L3: ;
  v16 = *(&__libc_single_threaded);
  v17 = (v16 == ((u8)0ULL));
  if (v17) {
    goto L5;
  } else {
    goto L4;
  }
L4: ;
  v18 = *v4;
  v19 = ((u32)(v18 + ((u32)4294967295ULL)));
  *v4 = v19;
  v22 = v18;
  goto L6;
L5: ;
  v20 = *v4;
  v21 = ((u32)(v20 + ((u32)4294967295ULL)));
  *v4 = v21;
  v22 = v20;
  goto L6;
L6: ;
  v23 = (v22 == ((u32)1ULL));
  if (v23) {
    goto L7;
  } else {
    goto L8;
  }
L7: ;
  _ZNSt16_Sp_counted_baseILN9__gnu_cxx12_Lock_policyE2EE24_M_release_last_use_coldEv(v2);
  goto L8;
L8: ;
  v24 = (u8*)a0;
  _ZdlPv(v24);
  return;
}

void _ZN14OpenVolumeMesh11PropertyPtrIbNS_6Entity4FaceEED2Ev(struct S31_class_OpenVolumeMesh__PropertyPtr_86* a0) {
  fnptr_t** v0;
  struct S20_class_std___Sp_counted_base** v1;
  struct S20_class_std___Sp_counted_base* v2;
  u1 v3;
  u32* v4;
  u64* v5;
  u64 v6;
  u1 v7;
  u32* v8;
  fnptr_t** v9;
  fnptr_t* v10;
  fnptr_t* v11;
  fnptr_t v12;
  fnptr_t* v13;
  fnptr_t* v14;
  fnptr_t v15;
  u8 v16;
  u1 v17;
  u32 v18;
  u32 v19;
  u32 v20;
  u32 v21;
  u32 v22; u32 v22_t;
  u1 v23;
L0: ;
  v0 = (fnptr_t**)(&(*a0).f0.f0.f0);
  *v0 = ((fnptr_t*)((u8**)(&(*(&_ZTVN14OpenVolumeMesh18PropertyStoragePtrIbEE)).f0.e[(s64)((s64)((u64)2ULL))])));
  v1 = (struct S20_class_std___Sp_counted_base**)(&(*a0).f0.f0.f1.f0.f1.f0);
  v2 = *v1;
  v3 = ((u8*)v2 == (u8*)((struct S20_class_std___Sp_counted_base*)0));
  if (v3) {
    goto L8;
  } else {
    goto L1;
  }
L1: ;
  v4 = (u32*)(&(*v2).f1);
  v5 = (u64*)v4;
  v6 = (((u64)(*v2).f1 << 0) | ((u64)(*v2).f2 << 32));
  v7 = (v6 == ((u64)4294967297ULL));
  if (v7) {
    goto L2;
  } else {
    goto L3;
  }
L2: ;
  *v4 = ((u32)0ULL);
  v8 = (u32*)(&(*v2).f2);
  *v8 = ((u32)0ULL);
  v9 = (fnptr_t**)&(*v2).f0;
  v10 = *v9;
  v11 = (fnptr_t*)(v10 + (s64)((s64)((u64)2ULL)));
  v12 = *v11;
  ((FT1)v12)(v2);
  v13 = *v9;
  v14 = (fnptr_t*)(v13 + (s64)((s64)((u64)3ULL)));
  v15 = *v14;
  ((FT1)v15)(v2);
  goto L8;
L3: ;
  v16 = *(&__libc_single_threaded);
  v17 = (v16 == ((u8)0ULL));
  if (v17) {
    goto L5;
  } else {
    goto L4;
  }
L4: ;
  v18 = *v4;
  v19 = ((u32)(v18 + ((u32)4294967295ULL)));
  *v4 = v19;
  v22 = v18;
  goto L6;
L5: ;
  v20 = *v4;
  v21 = ((u32)(v20 + ((u32)4294967295ULL)));
  *v4 = v21;
  v22 = v20;
  goto L6;
L6: ;
  v23 = (v22 == ((u32)1ULL));
  if (v23) {
    goto L7;
  } else {
    goto L8;
  }
L7: ;
  _ZNSt16_Sp_counted_baseILN9__gnu_cxx12_Lock_policyE2EE24_M_release_last_use_coldEv(v2);
  goto L8;
L8: ;
  return;
}

void _ZN14OpenVolumeMesh11PropertyPtrIbNS_6Entity4FaceEED0Ev(struct S31_class_OpenVolumeMesh__PropertyPtr_86* a0) {
  fnptr_t** v0;
  struct S20_class_std___Sp_counted_base** v1;
  struct S20_class_std___Sp_counted_base* v2;
  u1 v3;
  u32* v4;
  u64* v5;
  u64 v6;
  u1 v7;
  u32* v8;
  fnptr_t** v9;
  fnptr_t* v10;
  fnptr_t* v11;
  fnptr_t v12;
  fnptr_t* v13;
  fnptr_t* v14;
  fnptr_t v15;
  u8 v16;
  u1 v17;
  u32 v18;
  u32 v19;
  u32 v20;
  u32 v21;
  u32 v22; u32 v22_t;
  u1 v23;
  u8* v24;
L0: ;
  v0 = (fnptr_t**)(&(*a0).f0.f0.f0);
  *v0 = ((fnptr_t*)((u8**)(&(*(&_ZTVN14OpenVolumeMesh18PropertyStoragePtrIbEE)).f0.e[(s64)((s64)((u64)2ULL))])));
  v1 = (struct S20_class_std___Sp_counted_base**)(&(*a0).f0.f0.f1.f0.f1.f0);
  v2 = *v1;
  v3 = ((u8*)v2 == (u8*)((struct S20_class_std___Sp_counted_base*)0));
  if (v3) {
    goto L8;
  } else {
    goto L1;
  }
L1: ;
  v4 = (u32*)(&(*v2).f1);
  v5 = (u64*)v4;
  v6 = (((u64)(*v2).f1 << 0) | ((u64)(*v2).f2 << 32));
  v7 = (v6 == ((u64)4294967297ULL));
  if (v7) {
    goto L2;
  } else {
    goto L3;
  }
L2: ;
  *v4 = ((u32)0ULL);
  v8 = (u32*)(&(*v2).f2);
  *v8 = ((u32)0ULL);
  v9 = (fnptr_t**)&(*v2).f0;
  v10 = *v9;
  v11 = (fnptr_t*)(v10 + (s64)((s64)((u64)2ULL)));
  v12 = *v11;
  ((FT1)v12)(v2);
  v13 = *v9;
  v14 = (fnptr_t*)(v13 + (s64)((s64)((u64)3ULL)));
  v15 = *v14;
  ((FT1)v15)(v2);
  goto L8;
L3: ;
  v16 = *(&__libc_single_threaded);
  v17 = (v16 == ((u8)0ULL));
  if (v17) {
    goto L5;
  } else {
    goto L4;
  }
L4: ;
  v18 = *v4;
  v19 = ((u32)(v18 + ((u32)4294967295ULL)));
  *v4 = v19;
  v22 = v18;
  goto L6;
L5: ;
  v20 = *v4;
  v21 = ((u32)(v20 + ((u32)4294967295ULL)));
  *v4 = v21;
  v22 = v20;
  goto L6;
L6: ;
  v23 = (v22 == ((u32)1ULL));
  if (v23) {
    goto L7;
  } else {
    goto L8;
  }
L7: ;
  _ZNSt16_Sp_counted_baseILN9__gnu_cxx12_Lock_policyE2EE24_M_release_last_use_coldEv(v2);
  goto L8;
L8: ;
  v24 = (u8*)a0;
  _ZdlPv(v24);
  return;
}

struct S14_class_std____cxx11__basic_string* _ZNKR14OpenVolumeMesh11PropertyPtrIbNS_6Entity4FaceEE4nameB5cxx11Ev(struct S31_class_OpenVolumeMesh__PropertyPtr_86* a0) {
  struct S12_class_OpenVolumeMesh__PropertyStorageT** v0;
  struct S22_class_OpenVolumeMesh__PropertyStorageBas** v1;
  struct S22_class_OpenVolumeMesh__PropertyStorageBas* v2;
  struct S14_class_std____cxx11__basic_string* v3;
L0: ;
  v0 = (struct S12_class_OpenVolumeMesh__PropertyStorageT**)(&(*a0).f0.f0.f1.f0.f0);
  v1 = (struct S22_class_OpenVolumeMesh__PropertyStorageBas**)&(*a0).f0.f0.f1.f0.f0;
  v2 = *v1;
  v3 = (struct S14_class_std____cxx11__basic_string*)(&(*v2).f2);
  return v3;
}

void _ZThn24_N14OpenVolumeMesh11PropertyPtrIbNS_6Entity4FaceEED1Ev(struct S31_class_OpenVolumeMesh__PropertyPtr_86* a0) {
  struct S56_class_std__shared_ptr_65* v0;
  fnptr_t** v1;
  struct S56_class_std__shared_ptr_65* v2;
  struct S20_class_std___Sp_counted_base** v3;
  struct S20_class_std___Sp_counted_base* v4;
  u1 v5;
  u32* v6;
  u64* v7;
  u64 v8;
  u1 v9;
  u32* v10;
  fnptr_t** v11;
  fnptr_t* v12;
  fnptr_t* v13;
  fnptr_t v14;
  fnptr_t* v15;
  fnptr_t* v16;
  fnptr_t v17;
  u8 v18;
  u1 v19;
  u32 v20;
  u32 v21;
  u32 v22;
  u32 v23;
  u32 v24; u32 v24_t;
  u1 v25;
L0: ;
  v0 = (struct S56_class_std__shared_ptr_65*)(&(a0)[(s64)((s64)((u64)18446744073709551615ULL))].f0.f0.f1);
  v1 = (fnptr_t**)v0;
  *v1 = ((fnptr_t*)((u8**)(&(*(&_ZTVN14OpenVolumeMesh18PropertyStoragePtrIbEE)).f0.e[(s64)((s64)((u64)2ULL))])));
  v2 = (struct S56_class_std__shared_ptr_65*)(v0 + (s64)((s64)((u64)1ULL)));
  v3 = (struct S20_class_std___Sp_counted_base**)v2;
  v4 = *v3;
  v5 = ((u8*)v4 == (u8*)((struct S20_class_std___Sp_counted_base*)0));
  if (v5) {
    goto L8;
  } else {
    goto L1;
  }
L1: ;
  v6 = (u32*)(&(*v4).f1);
  v7 = (u64*)v6;
  v8 = (((u64)(*v4).f1 << 0) | ((u64)(*v4).f2 << 32));
  v9 = (v8 == ((u64)4294967297ULL));
  if (v9) {
    goto L2;
  } else {
    goto L3;
  }
L2: ;
  *v6 = ((u32)0ULL);
  v10 = (u32*)(&(*v4).f2);
  *v10 = ((u32)0ULL);
  v11 = (fnptr_t**)&(*v4).f0;
  v12 = *v11;
  v13 = (fnptr_t*)(v12 + (s64)((s64)((u64)2ULL)));
  v14 = *v13;
  ((FT1)v14)(v4);
  v15 = *v11;
  v16 = (fnptr_t*)(v15 + (s64)((s64)((u64)3ULL)));
  v17 = *v16;
  ((FT1)v17)(v4);
  goto L8;
L3: ;
  v18 = *(&__libc_single_threaded);
  v19 = (v18 == ((u8)0ULL));
  if (v19) {
    goto L5;
  } else {
    goto L4;
  }
L4: ;
  v20 = *v6;
  v21 = ((u32)(v20 + ((u32)4294967295ULL)));
  *v6 = v21;
  v24 = v20;
  goto L6;
L5: ;
  v22 = *v6;
  v23 = ((u32)(v22 + ((u32)4294967295ULL)));
  *v6 = v23;
  v24 = v22;
  goto L6;
L6: ;
  v25 = (v24 == ((u32)1ULL));
  if (v25) {
    goto L7;
  } else {
    goto L8;
  }
L7: ;
  _ZNSt16_Sp_counted_baseILN9__gnu_cxx12_Lock_policyE2EE24_M_release_last_use_coldEv(v4);
  goto L8;
L8: ;
  return;
}

void _ZThn24_N14OpenVolumeMesh11PropertyPtrIbNS_6Entity4FaceEED0Ev(struct S31_class_OpenVolumeMesh__PropertyPtr_86* a0) {
  struct S56_class_std__shared_ptr_65* v0;
  fnptr_t** v1;
  struct S56_class_std__shared_ptr_65* v2;
  struct S20_class_std___Sp_counted_base** v3;
  struct S20_class_std___Sp_counted_base* v4;
  u1 v5;
  u32* v6;
  u64* v7;
  u64 v8;
  u1 v9;
  u32* v10;
  fnptr_t** v11;
  fnptr_t* v12;
  fnptr_t* v13;
  fnptr_t v14;
  fnptr_t* v15;
  fnptr_t* v16;
  fnptr_t v17;
  u8 v18;
  u1 v19;
  u32 v20;
  u32 v21;
  u32 v22;
  u32 v23;
  u32 v24; u32 v24_t;
  u1 v25;
  u8* v26;
L0: ;
  v0 = (struct S56_class_std__shared_ptr_65*)(&(a0)[(s64)((s64)((u64)18446744073709551615ULL))].f0.f0.f1);
  v1 = (fnptr_t**)v0;
  *v1 = ((fnptr_t*)((u8**)(&(*(&_ZTVN14OpenVolumeMesh18PropertyStoragePtrIbEE)).f0.e[(s64)((s64)((u64)2ULL))])));
  v2 = (struct S56_class_std__shared_ptr_65*)(v0 + (s64)((s64)((u64)1ULL)));
  v3 = (struct S20_class_std___Sp_counted_base**)v2;
  v4 = *v3;
  v5 = ((u8*)v4 == (u8*)((struct S20_class_std___Sp_counted_base*)0));
  if (v5) {
    goto L8;
  } else {
    goto L1;
  }
L1: ;
  v6 = (u32*)(&(*v4).f1);
  v7 = (u64*)v6;
  v8 = (((u64)(*v4).f1 << 0) | ((u64)(*v4).f2 << 32));
  v9 = (v8 == ((u64)4294967297ULL));
  if (v9) {
    goto L2;
  } else {
    goto L3;
  }
L2: ;
  *v6 = ((u32)0ULL);
  v10 = (u32*)(&(*v4).f2);
  *v10 = ((u32)0ULL);
  v11 = (fnptr_t**)&(*v4).f0;
  v12 = *v11;
  v13 = (fnptr_t*)(v12 + (s64)((s64)((u64)2ULL)));
  v14 = *v13;
  ((FT1)v14)(v4);
  v15 = *v11;
  v16 = (fnptr_t*)(v15 + (s64)((s64)((u64)3ULL)));
  v17 = *v16;
  ((FT1)v17)(v4);
  goto L8;
L3: ;
  v18 = *(&__libc_single_threaded);
  v19 = (v18 == ((u8)0ULL));
  if (v19) {
    goto L5;
  } else {
    goto L4;
  }
L4: ;
  v20 = *v6;
  v21 = ((u32)(v20 + ((u32)4294967295ULL)));
  *v6 = v21;
  v24 = v20;
  goto L6;
L5: ;
  v22 = *v6;
  v23 = ((u32)(v22 + ((u32)4294967295ULL)));
  *v6 = v23;
  v24 = v22;
  goto L6;
L6: ;
  v25 = (v24 == ((u32)1ULL));
  if (v25) {
    goto L7;
  } else {
    goto L8;
  }
L7: ;
  _ZNSt16_Sp_counted_baseILN9__gnu_cxx12_Lock_policyE2EE24_M_release_last_use_coldEv(v4);
  goto L8;
L8: ;
  v26 = (u8*)v0;
  _ZdlPv(v26);
  return;
}

struct S14_class_std____cxx11__basic_string* _ZThn24_NKR14OpenVolumeMesh11PropertyPtrIbNS_6Entity4FaceEE4nameB5cxx11Ev(struct S31_class_OpenVolumeMesh__PropertyPtr_86* a0) {
  struct S70_class_std____weak_count* v0;
  struct S22_class_OpenVolumeMesh__PropertyStorageBas** v1;
  struct S22_class_OpenVolumeMesh__PropertyStorageBas* v2;
  struct S14_class_std____cxx11__basic_string* v3;
L0: ;
  v0 = (struct S70_class_std____weak_count*)(&(a0)[(s64)((s64)((u64)18446744073709551615ULL))].f0.f0.f1.f0.f1);
  v1 = (struct S22_class_OpenVolumeMesh__PropertyStorageBas**)v0;
  v2 = *v1;
  v3 = (struct S14_class_std____cxx11__basic_string*)(&(*v2).f2);
  return v3;
}

void _ZN14OpenVolumeMesh14HandleIndexingINS_6Entity4FaceENS_18PropertyStoragePtrIbEEED0Ev(struct S33_class_OpenVolumeMesh__HandleIndexing_87* a0) {
  fnptr_t** v0;
  struct S20_class_std___Sp_counted_base** v1;
  struct S20_class_std___Sp_counted_base* v2;
  u1 v3;
  u32* v4;
  u64* v5;
  u64 v6;
  u1 v7;
  u32* v8;
  fnptr_t** v9;
  fnptr_t* v10;
  fnptr_t* v11;
  fnptr_t v12;
  fnptr_t* v13;
  fnptr_t* v14;
  fnptr_t v15;
  u8 v16;
  u1 v17;
  u32 v18;
  u32 v19;
  u32 v20;
  u32 v21;
  u32 v22; u32 v22_t;
  u1 v23;
  u8* v24;
L0: ;
  v0 = (fnptr_t**)(&(*a0).f0.f0);
  *v0 = ((fnptr_t*)((u8**)(&(*(&_ZTVN14OpenVolumeMesh18PropertyStoragePtrIbEE)).f0.e[(s64)((s64)((u64)2ULL))])));
  v1 = (struct S20_class_std___Sp_counted_base**)(&(*a0).f0.f1.f0.f1.f0);
  v2 = *v1;
  v3 = ((u8*)v2 == (u8*)((struct S20_class_std___Sp_counted_base*)0));
  if (v3) {
    goto L8;
  } else {
    goto L1;
  }
L1: ;
  v4 = (u32*)(&(*v2).f1);
  v5 = (u64*)v4;
  v6 = (((u64)(*v2).f1 << 0) | ((u64)(*v2).f2 << 32));
  v7 = (v6 == ((u64)4294967297ULL));
  if (v7) {
    goto L2;
  } else {
    goto L3;
  }
L2: ;
  *v4 = ((u32)0ULL);
  v8 = (u32*)(&(*v2).f2);
  *v8 = ((u32)0ULL);
  v9 = (fnptr_t**)&(*v2).f0;
  v10 = *v9;
  v11 = (fnptr_t*)(v10 + (s64)((s64)((u64)2ULL)));
  v12 = *v11;
  ((FT1)v12)(v2);
  v13 = *v9;
  v14 = (fnptr_t*)(v13 + (s64)((s64)((u64)3ULL)));
  v15 = *v14;
  ((FT1)v15)(v2);
  goto L8;
L3: ;
  v16 = *(&__libc_single_threaded);
  v17 = (v16 == ((u8)0ULL));
  if (v17) {
    goto L5;
  } else {
    goto L4;
  }
L4: ;
  v18 = *v4;
  v19 = ((u32)(v18 + ((u32)4294967295ULL)));
  *v4 = v19;
  v22 = v18;
  goto L6;
L5: ;
  v20 = *v4;
  v21 = ((u32)(v20 + ((u32)4294967295ULL)));
  *v4 = v21;
  v22 = v20;
  goto L6;
L6: ;
  v23 = (v22 == ((u32)1ULL));
  if (v23) {
    goto L7;
  } else {
    goto L8;
  }
L7: ;
  _ZNSt16_Sp_counted_baseILN9__gnu_cxx12_Lock_policyE2EE24_M_release_last_use_coldEv(v2);
  goto L8;
L8: ;
  v24 = (u8*)a0;
  _ZdlPv(v24);
  return;
}

void _ZN14OpenVolumeMesh11PropertyPtrIbNS_6Entity8HalfEdgeEED2Ev(struct S31_class_OpenVolumeMesh__PropertyPtr_86* a0) {
  fnptr_t** v0;
  struct S20_class_std___Sp_counted_base** v1;
  struct S20_class_std___Sp_counted_base* v2;
  u1 v3;
  u32* v4;
  u64* v5;
  u64 v6;
  u1 v7;
  u32* v8;
  fnptr_t** v9;
  fnptr_t* v10;
  fnptr_t* v11;
  fnptr_t v12;
  fnptr_t* v13;
  fnptr_t* v14;
  fnptr_t v15;
  u8 v16;
  u1 v17;
  u32 v18;
  u32 v19;
  u32 v20;
  u32 v21;
  u32 v22; u32 v22_t;
  u1 v23;
L0: ;
  v0 = (fnptr_t**)(&(*a0).f0.f0.f0);
  *v0 = ((fnptr_t*)((u8**)(&(*(&_ZTVN14OpenVolumeMesh18PropertyStoragePtrIbEE)).f0.e[(s64)((s64)((u64)2ULL))])));
  v1 = (struct S20_class_std___Sp_counted_base**)(&(*a0).f0.f0.f1.f0.f1.f0);
  v2 = *v1;
  v3 = ((u8*)v2 == (u8*)((struct S20_class_std___Sp_counted_base*)0));
  if (v3) {
    goto L8;
  } else {
    goto L1;
  }
L1: ;
  v4 = (u32*)(&(*v2).f1);
  v5 = (u64*)v4;
  v6 = (((u64)(*v2).f1 << 0) | ((u64)(*v2).f2 << 32));
  v7 = (v6 == ((u64)4294967297ULL));
  if (v7) {
    goto L2;
  } else {
    goto L3;
  }
L2: ;
  *v4 = ((u32)0ULL);
  v8 = (u32*)(&(*v2).f2);
  *v8 = ((u32)0ULL);
  v9 = (fnptr_t**)&(*v2).f0;
  v10 = *v9;
  v11 = (fnptr_t*)(v10 + (s64)((s64)((u64)2ULL)));
  v12 = *v11;
  ((FT1)v12)(v2);
  v13 = *v9;
  v14 = (fnptr_t*)(v13 + (s64)((s64)((u64)3ULL)));
  v15 = *v14;
  ((FT1)v15)(v2);
  goto L8;
L3: ;
  v16 = *(&__libc_single_threaded);
  v17 = (v16 == ((u8)0ULL));
  if (v17) {
    goto L5;
  } else {
    goto L4;
  }
L4: ;
  v18 = *v4;
  v19 = ((u32)(v18 + ((u32)4294967295ULL)));
  *v4 = v19;
  v22 = v18;
  goto L6;
L5: ;
  v20 = *v4;
  v21 = ((u32)(v20 + ((u32)4294967295ULL)));
  *v4 = v21;
  v22 = v20;
  goto L6;
L6: ;
  v23 = (v22 == ((u32)1ULL));
  if (v23) {
    goto L7;
  } else {
    goto L8;
  }
L7: ;
  _ZNSt16_Sp_counted_baseILN9__gnu_cxx12_Lock_policyE2EE24_M_release_last_use_coldEv(v2);
  goto L8;
L8: ;
  return;
}

void _ZN14OpenVolumeMesh11PropertyPtrIbNS_6Entity8HalfEdgeEED0Ev(struct S31_class_OpenVolumeMesh__PropertyPtr_86* a0) {
  fnptr_t** v0;
  struct S20_class_std___Sp_counted_base** v1;
  struct S20_class_std___Sp_counted_base* v2;
  u1 v3;
  u32* v4;
  u64* v5;
  u64 v6;
  u1 v7;
  u32* v8;
  fnptr_t** v9;
  fnptr_t* v10;
  fnptr_t* v11;
  fnptr_t v12;
  fnptr_t* v13;
  fnptr_t* v14;
  fnptr_t v15;
  u8 v16;
  u1 v17;
  u32 v18;
  u32 v19;
  u32 v20;
  u32 v21;
  u32 v22; u32 v22_t;
  u1 v23;
  u8* v24;
L0: ;
  v0 = (fnptr_t**)(&(*a0).f0.f0.f0);
  *v0 = ((fnptr_t*)((u8**)(&(*(&_ZTVN14OpenVolumeMesh18PropertyStoragePtrIbEE)).f0.e[(s64)((s64)((u64)2ULL))])));
  v1 = (struct S20_class_std___Sp_counted_base**)(&(*a0).f0.f0.f1.f0.f1.f0);
  v2 = *v1;
  v3 = ((u8*)v2 == (u8*)((struct S20_class_std___Sp_counted_base*)0));
  if (v3) {
    goto L8;
  } else {
    goto L1;
  }
L1: ;
  v4 = (u32*)(&(*v2).f1);
  v5 = (u64*)v4;
  v6 = (((u64)(*v2).f1 << 0) | ((u64)(*v2).f2 << 32));
  v7 = (v6 == ((u64)4294967297ULL));
  if (v7) {
    goto L2;
  } else {
    goto L3;
  }
L2: ;
  *v4 = ((u32)0ULL);
  v8 = (u32*)(&(*v2).f2);
  *v8 = ((u32)0ULL);
  v9 = (fnptr_t**)&(*v2).f0;
  v10 = *v9;
  v11 = (fnptr_t*)(v10 + (s64)((s64)((u64)2ULL)));
  v12 = *v11;
  ((FT1)v12)(v2);
  v13 = *v9;
  v14 = (fnptr_t*)(v13 + (s64)((s64)((u64)3ULL)));
  v15 = *v14;
  ((FT1)v15)(v2);
  goto L8;
L3: ;
  v16 = *(&__libc_single_threaded);
  v17 = (v16 == ((u8)0ULL));
  if (v17) {
    goto L5;
  } else {
    goto L4;
  }
L4: ;
  v18 = *v4;
  v19 = ((u32)(v18 + ((u32)4294967295ULL)));
  *v4 = v19;
  v22 = v18;
  goto L6;
L5: ;
  v20 = *v4;
  v21 = ((u32)(v20 + ((u32)4294967295ULL)));
  *v4 = v21;
  v22 = v20;
  goto L6;
L6: ;
  v23 = (v22 == ((u32)1ULL));
  if (v23) {
    goto L7;
  } else {
    goto L8;
  }
L7: ;
  _ZNSt16_Sp_counted_baseILN9__gnu_cxx12_Lock_policyE2EE24_M_release_last_use_coldEv(v2);
  goto L8;
L8: ;
  v24 = (u8*)a0;
  _ZdlPv(v24);
  return;
}

struct S14_class_std____cxx11__basic_string* _ZNKR14OpenVolumeMesh11PropertyPtrIbNS_6Entity8HalfEdgeEE4nameB5cxx11Ev(struct S31_class_OpenVolumeMesh__PropertyPtr_86* a0) {
  struct S12_class_OpenVolumeMesh__PropertyStorageT** v0;
  struct S22_class_OpenVolumeMesh__PropertyStorageBas** v1;
  struct S22_class_OpenVolumeMesh__PropertyStorageBas* v2;
  struct S14_class_std____cxx11__basic_string* v3;
L0: ;
  v0 = (struct S12_class_OpenVolumeMesh__PropertyStorageT**)(&(*a0).f0.f0.f1.f0.f0);
  v1 = (struct S22_class_OpenVolumeMesh__PropertyStorageBas**)&(*a0).f0.f0.f1.f0.f0;
  v2 = *v1;
  v3 = (struct S14_class_std____cxx11__basic_string*)(&(*v2).f2);
  return v3;
}

void _ZThn24_N14OpenVolumeMesh11PropertyPtrIbNS_6Entity8HalfEdgeEED1Ev(struct S31_class_OpenVolumeMesh__PropertyPtr_86* a0) {
  struct S56_class_std__shared_ptr_65* v0;
  fnptr_t** v1;
  struct S56_class_std__shared_ptr_65* v2;
  struct S20_class_std___Sp_counted_base** v3;
  struct S20_class_std___Sp_counted_base* v4;
  u1 v5;
  u32* v6;
  u64* v7;
  u64 v8;
  u1 v9;
  u32* v10;
  fnptr_t** v11;
  fnptr_t* v12;
  fnptr_t* v13;
  fnptr_t v14;
  fnptr_t* v15;
  fnptr_t* v16;
  fnptr_t v17;
  u8 v18;
  u1 v19;
  u32 v20;
  u32 v21;
  u32 v22;
  u32 v23;
  u32 v24; u32 v24_t;
  u1 v25;
L0: ;
  v0 = (struct S56_class_std__shared_ptr_65*)(&(a0)[(s64)((s64)((u64)18446744073709551615ULL))].f0.f0.f1);
  v1 = (fnptr_t**)v0;
  *v1 = ((fnptr_t*)((u8**)(&(*(&_ZTVN14OpenVolumeMesh18PropertyStoragePtrIbEE)).f0.e[(s64)((s64)((u64)2ULL))])));
  v2 = (struct S56_class_std__shared_ptr_65*)(v0 + (s64)((s64)((u64)1ULL)));
  v3 = (struct S20_class_std___Sp_counted_base**)v2;
  v4 = *v3;
  v5 = ((u8*)v4 == (u8*)((struct S20_class_std___Sp_counted_base*)0));
  if (v5) {
    goto L8;
  } else {
    goto L1;
  }
L1: ;
  v6 = (u32*)(&(*v4).f1);
  v7 = (u64*)v6;
  v8 = (((u64)(*v4).f1 << 0) | ((u64)(*v4).f2 << 32));
  v9 = (v8 == ((u64)4294967297ULL));
  if (v9) {
    goto L2;
  } else {
    goto L3;
  }
L2: ;
  *v6 = ((u32)0ULL);
  v10 = (u32*)(&(*v4).f2);
  *v10 = ((u32)0ULL);
  v11 = (fnptr_t**)&(*v4).f0;
  v12 = *v11;
  v13 = (fnptr_t*)(v12 + (s64)((s64)((u64)2ULL)));
  v14 = *v13;
  ((FT1)v14)(v4);
  v15 = *v11;
  v16 = (fnptr_t*)(v15 + (s64)((s64)((u64)3ULL)));
  v17 = *v16;
  ((FT1)v17)(v4);
  goto L8;
L3: ;
  v18 = *(&__libc_single_threaded);
  v19 = (v18 == ((u8)0ULL));
  if (v19) {
    goto L5;
  } else {
    goto L4;
  }
L4: ;
  v20 = *v6;
  v21 = ((u32)(v20 + ((u32)4294967295ULL)));
  *v6 = v21;
  v24 = v20;
  goto L6;
L5: ;
  v22 = *v6;
  v23 = ((u32)(v22 + ((u32)4294967295ULL)));
  *v6 = v23;
  v24 = v22;
  goto L6;
L6: ;
  v25 = (v24 == ((u32)1ULL));
  if (v25) {
    goto L7;
  } else {
    goto L8;
  }
L7: ;
  _ZNSt16_Sp_counted_baseILN9__gnu_cxx12_Lock_policyE2EE24_M_release_last_use_coldEv(v4);
  goto L8;
L8: ;
  return;
}

void _ZThn24_N14OpenVolumeMesh11PropertyPtrIbNS_6Entity8HalfEdgeEED0Ev(struct S31_class_OpenVolumeMesh__PropertyPtr_86* a0) {
  struct S56_class_std__shared_ptr_65* v0;
  fnptr_t** v1;
  struct S56_class_std__shared_ptr_65* v2;
  struct S20_class_std___Sp_counted_base** v3;
  struct S20_class_std___Sp_counted_base* v4;
  u1 v5;
  u32* v6;
  u64* v7;
  u64 v8;
  u1 v9;
  u32* v10;
  fnptr_t** v11;
  fnptr_t* v12;
  fnptr_t* v13;
  fnptr_t v14;
  fnptr_t* v15;
  fnptr_t* v16;
  fnptr_t v17;
  u8 v18;
  u1 v19;
  u32 v20;
  u32 v21;
  u32 v22;
  u32 v23;
  u32 v24; u32 v24_t;
  u1 v25;
  u8* v26;
L0: ;
  v0 = (struct S56_class_std__shared_ptr_65*)(&(a0)[(s64)((s64)((u64)18446744073709551615ULL))].f0.f0.f1);
  v1 = (fnptr_t**)v0;
  *v1 = ((fnptr_t*)((u8**)(&(*(&_ZTVN14OpenVolumeMesh18PropertyStoragePtrIbEE)).f0.e[(s64)((s64)((u64)2ULL))])));
  v2 = (struct S56_class_std__shared_ptr_65*)(v0 + (s64)((s64)((u64)1ULL)));
  v3 = (struct S20_class_std___Sp_counted_base**)v2;
  v4 = *v3;
  v5 = ((u8*)v4 == (u8*)((struct S20_class_std___Sp_counted_base*)0));
  if (v5) {
    goto L8;
  } else {
    goto L1;
  }
L1: ;
  v6 = (u32*)(&(*v4).f1);
  v7 = (u64*)v6;
  v8 = (((u64)(*v4).f1 << 0) | ((u64)(*v4).f2 << 32));
  v9 = (v8 == ((u64)4294967297ULL));
  if (v9) {
    goto L2;
  } else {
    goto L3;
  }
L2: ;
  *v6 = ((u32)0ULL);
  v10 = (u32*)(&(*v4).f2);
  *v10 = ((u32)0ULL);
  v11 = (fnptr_t**)&(*v4).f0;
  v12 = *v11;
  v13 = (fnptr_t*)(v12 + (s64)((s64)((u64)2ULL)));
  v14 = *v13;
  ((FT1)v14)(v4);
  v15 = *v11;
  v16 = (fnptr_t*)(v15 + (s64)((s64)((u64)3ULL)));
  v17 = *v16;
  ((FT1)v17)(v4);
  goto L8;
L3: ;
  v18 = *(&__libc_single_threaded);
  v19 = (v18 == ((u8)0ULL));
  if (v19) {
    goto L5;
  } else {
    goto L4;
  }
L4: ;
  v20 = *v6;
  v21 = ((u32)(v20 + ((u32)4294967295ULL)));
  *v6 = v21;
  v24 = v20;
  goto L6;
L5: ;
  v22 = *v6;
  v23 = ((u32)(v22 + ((u32)4294967295ULL)));
  *v6 = v23;
  v24 = v22;
  goto L6;
L6: ;
  v25 = (v24 == ((u32)1ULL));
  if (v25) {
    goto L7;
  } else {
    goto L8;
  }
L7: ;
  _ZNSt16_Sp_counted_baseILN9__gnu_cxx12_Lock_policyE2EE24_M_release_last_use_coldEv(v4);
  goto L8;
L8: ;
  v26 = (u8*)v0;
  _ZdlPv(v26);
  return;
}

struct S14_class_std____cxx11__basic_string* _ZThn24_NKR14OpenVolumeMesh11PropertyPtrIbNS_6Entity8HalfEdgeEE4nameB5cxx11Ev(struct S31_class_OpenVolumeMesh__PropertyPtr_86* a0) {
  struct S70_class_std____weak_count* v0;
  struct S22_class_OpenVolumeMesh__PropertyStorageBas** v1;
  struct S22_class_OpenVolumeMesh__PropertyStorageBas* v2;
  struct S14_class_std____cxx11__basic_string* v3;
L0: ;
  v0 = (struct S70_class_std____weak_count*)(&(a0)[(s64)((s64)((u64)18446744073709551615ULL))].f0.f0.f1.f0.f1);
  v1 = (struct S22_class_OpenVolumeMesh__PropertyStorageBas**)v0;
  v2 = *v1;
  v3 = (struct S14_class_std____cxx11__basic_string*)(&(*v2).f2);
  return v3;
}

void _ZN14OpenVolumeMesh14HandleIndexingINS_6Entity8HalfEdgeENS_18PropertyStoragePtrIbEEED0Ev(struct S33_class_OpenVolumeMesh__HandleIndexing_87* a0) {
  fnptr_t** v0;
  struct S20_class_std___Sp_counted_base** v1;
  struct S20_class_std___Sp_counted_base* v2;
  u1 v3;
  u32* v4;
  u64* v5;
  u64 v6;
  u1 v7;
  u32* v8;
  fnptr_t** v9;
  fnptr_t* v10;
  fnptr_t* v11;
  fnptr_t v12;
  fnptr_t* v13;
  fnptr_t* v14;
  fnptr_t v15;
  u8 v16;
  u1 v17;
  u32 v18;
  u32 v19;
  u32 v20;
  u32 v21;
  u32 v22; u32 v22_t;
  u1 v23;
  u8* v24;
L0: ;
  v0 = (fnptr_t**)(&(*a0).f0.f0);
  *v0 = ((fnptr_t*)((u8**)(&(*(&_ZTVN14OpenVolumeMesh18PropertyStoragePtrIbEE)).f0.e[(s64)((s64)((u64)2ULL))])));
  v1 = (struct S20_class_std___Sp_counted_base**)(&(*a0).f0.f1.f0.f1.f0);
  v2 = *v1;
  v3 = ((u8*)v2 == (u8*)((struct S20_class_std___Sp_counted_base*)0));
  if (v3) {
    goto L8;
  } else {
    goto L1;
  }
L1: ;
  v4 = (u32*)(&(*v2).f1);
  v5 = (u64*)v4;
  v6 = (((u64)(*v2).f1 << 0) | ((u64)(*v2).f2 << 32));
  v7 = (v6 == ((u64)4294967297ULL));
  if (v7) {
    goto L2;
  } else {
    goto L3;
  }
L2: ;
  *v4 = ((u32)0ULL);
  v8 = (u32*)(&(*v2).f2);
  *v8 = ((u32)0ULL);
  v9 = (fnptr_t**)&(*v2).f0;
  v10 = *v9;
  v11 = (fnptr_t*)(v10 + (s64)((s64)((u64)2ULL)));
  v12 = *v11;
  ((FT1)v12)(v2);
  v13 = *v9;
  v14 = (fnptr_t*)(v13 + (s64)((s64)((u64)3ULL)));
  v15 = *v14;
  ((FT1)v15)(v2);
  goto L8;
L3: ;
  v16 = *(&__libc_single_threaded);
  v17 = (v16 == ((u8)0ULL));
  if (v17) {
    goto L5;
  } else {
    goto L4;
  }
L4: ;
  v18 = *v4;
  v19 = ((u32)(v18 + ((u32)4294967295ULL)));
  *v4 = v19;
  v22 = v18;
  goto L6;
L5: ;
  v20 = *v4;
  v21 = ((u32)(v20 + ((u32)4294967295ULL)));
  *v4 = v21;
  v22 = v20;
  goto L6;
L6: ;
  v23 = (v22 == ((u32)1ULL));
  if (v23) {
    goto L7;
  } else {
    goto L8;
  }
L7: ;
  _ZNSt16_Sp_counted_baseILN9__gnu_cxx12_Lock_policyE2EE24_M_release_last_use_coldEv(v2);
  goto L8;
L8: ;
  v24 = (u8*)a0;
  _ZdlPv(v24);
  return;
}

void _ZN14OpenVolumeMesh11PropertyPtrIbNS_6Entity4EdgeEED2Ev(struct S31_class_OpenVolumeMesh__PropertyPtr_86* a0) {
  fnptr_t** v0;
  struct S20_class_std___Sp_counted_base** v1;
  struct S20_class_std___Sp_counted_base* v2;
  u1 v3;
  u32* v4;
  u64* v5;
  u64 v6;
  u1 v7;
  u32* v8;
  fnptr_t** v9;
  fnptr_t* v10;
  fnptr_t* v11;
  fnptr_t v12;
  fnptr_t* v13;
  fnptr_t* v14;
  fnptr_t v15;
  u8 v16;
  u1 v17;
  u32 v18;
  u32 v19;
  u32 v20;
  u32 v21;
  u32 v22; u32 v22_t;
  u1 v23;
L0: ;
  v0 = (fnptr_t**)(&(*a0).f0.f0.f0);
  *v0 = ((fnptr_t*)((u8**)(&(*(&_ZTVN14OpenVolumeMesh18PropertyStoragePtrIbEE)).f0.e[(s64)((s64)((u64)2ULL))])));
  v1 = (struct S20_class_std___Sp_counted_base**)(&(*a0).f0.f0.f1.f0.f1.f0);
  v2 = *v1;
  v3 = ((u8*)v2 == (u8*)((struct S20_class_std___Sp_counted_base*)0));
  if (v3) {
    goto L8;
  } else {
    goto L1;
  }
L1: ;
  v4 = (u32*)(&(*v2).f1);
  v5 = (u64*)v4;
  v6 = (((u64)(*v2).f1 << 0) | ((u64)(*v2).f2 << 32));
  v7 = (v6 == ((u64)4294967297ULL));
  if (v7) {
    goto L2;
  } else {
    goto L3;
  }
L2: ;
  *v4 = ((u32)0ULL);
  v8 = (u32*)(&(*v2).f2);
  *v8 = ((u32)0ULL);
  v9 = (fnptr_t**)&(*v2).f0;
  v10 = *v9;
  v11 = (fnptr_t*)(v10 + (s64)((s64)((u64)2ULL)));
  v12 = *v11;
  ((FT1)v12)(v2);
  v13 = *v9;
  v14 = (fnptr_t*)(v13 + (s64)((s64)((u64)3ULL)));
  v15 = *v14;
  ((FT1)v15)(v2);
  goto L8;
L3: ;
  v16 = *(&__libc_single_threaded);
  v17 = (v16 == ((u8)0ULL));
  if (v17) {
    goto L5;
  } else {
    goto L4;
  }
L4: ;
  v18 = *v4;
  v19 = ((u32)(v18 + ((u32)4294967295ULL)));
  *v4 = v19;
  v22 = v18;
  goto L6;
L5: ;
  v20 = *v4;
  v21 = ((u32)(v20 + ((u32)4294967295ULL)));
  *v4 = v21;
  v22 = v20;
  goto L6;
L6: ;
  v23 = (v22 == ((u32)1ULL));
  if (v23) {
    goto L7;
  } else {
    goto L8;
  }
L7: ;
  _ZNSt16_Sp_counted_baseILN9__gnu_cxx12_Lock_policyE2EE24_M_release_last_use_coldEv(v2);
  goto L8;
L8: ;
  return;
}

void _ZN14OpenVolumeMesh11PropertyPtrIbNS_6Entity4EdgeEED0Ev(struct S31_class_OpenVolumeMesh__PropertyPtr_86* a0) {
  fnptr_t** v0;
  struct S20_class_std___Sp_counted_base** v1;
  struct S20_class_std___Sp_counted_base* v2;
  u1 v3;
  u32* v4;
  u64* v5;
  u64 v6;
  u1 v7;
  u32* v8;
  fnptr_t** v9;
  fnptr_t* v10;
  fnptr_t* v11;
  fnptr_t v12;
  fnptr_t* v13;
  fnptr_t* v14;
  fnptr_t v15;
  u8 v16;
  u1 v17;
  u32 v18;
  u32 v19;
  u32 v20;
  u32 v21;
  u32 v22; u32 v22_t;
  u1 v23;
  u8* v24;
L0: ;
  v0 = (fnptr_t**)(&(*a0).f0.f0.f0);
  *v0 = ((fnptr_t*)((u8**)(&(*(&_ZTVN14OpenVolumeMesh18PropertyStoragePtrIbEE)).f0.e[(s64)((s64)((u64)2ULL))])));
  v1 = (struct S20_class_std___Sp_counted_base**)(&(*a0).f0.f0.f1.f0.f1.f0);
  v2 = *v1;
  v3 = ((u8*)v2 == (u8*)((struct S20_class_std___Sp_counted_base*)0));
  if (v3) {
    goto L8;
  } else {
    goto L1;
  }
L1: ;
  v4 = (u32*)(&(*v2).f1);
  v5 = (u64*)v4;
  v6 = (((u64)(*v2).f1 << 0) | ((u64)(*v2).f2 << 32));
  v7 = (v6 == ((u64)4294967297ULL));
  if (v7) {
    goto L2;
  } else {
    goto L3;
  }
L2: ;
  *v4 = ((u32)0ULL);
  v8 = (u32*)(&(*v2).f2);
  *v8 = ((u32)0ULL);
  v9 = (fnptr_t**)&(*v2).f0;
  v10 = *v9;
  v11 = (fnptr_t*)(v10 + (s64)((s64)((u64)2ULL)));
  v12 = *v11;
  ((FT1)v12)(v2);
  v13 = *v9;
  v14 = (fnptr_t*)(v13 + (s64)((s64)((u64)3ULL)));
  v15 = *v14;
  ((FT1)v15)(v2);
  goto L8;
L3: ;
  v16 = *(&__libc_single_threaded);
  v17 = (v16 == ((u8)0ULL));
  if (v17) {
    goto L5;
  } else {
    goto L4;
  }
L4: ;
  v18 = *v4;
  v19 = ((u32)(v18 + ((u32)4294967295ULL)));
  *v4 = v19;
  v22 = v18;
  goto L6;
L5: ;
  v20 = *v4;
  v21 = ((u32)(v20 + ((u32)4294967295ULL)));
  *v4 = v21;
  v22 = v20;
  goto L6;
L6: ;
  v23 = (v22 == ((u32)1ULL));
  if (v23) {
    goto L7;
  } else {
    goto L8;
  }
L7: ;
  _ZNSt16_Sp_counted_baseILN9__gnu_cxx12_Lock_policyE2EE24_M_release_last_use_coldEv(v2);
  goto L8;
L8: ;
  v24 = (u8*)a0;
  _ZdlPv(v24);
  return;
}

struct S14_class_std____cxx11__basic_string* _ZNKR14OpenVolumeMesh11PropertyPtrIbNS_6Entity4EdgeEE4nameB5cxx11Ev(struct S31_class_OpenVolumeMesh__PropertyPtr_86* a0) {
  struct S12_class_OpenVolumeMesh__PropertyStorageT** v0;
  struct S22_class_OpenVolumeMesh__PropertyStorageBas** v1;
  struct S22_class_OpenVolumeMesh__PropertyStorageBas* v2;
  struct S14_class_std____cxx11__basic_string* v3;
L0: ;
  v0 = (struct S12_class_OpenVolumeMesh__PropertyStorageT**)(&(*a0).f0.f0.f1.f0.f0);
  v1 = (struct S22_class_OpenVolumeMesh__PropertyStorageBas**)&(*a0).f0.f0.f1.f0.f0;
  v2 = *v1;
  v3 = (struct S14_class_std____cxx11__basic_string*)(&(*v2).f2);
  return v3;
}

void _ZThn24_N14OpenVolumeMesh11PropertyPtrIbNS_6Entity4EdgeEED1Ev(struct S31_class_OpenVolumeMesh__PropertyPtr_86* a0) {
  struct S56_class_std__shared_ptr_65* v0;
  fnptr_t** v1;
  struct S56_class_std__shared_ptr_65* v2;
  struct S20_class_std___Sp_counted_base** v3;
  struct S20_class_std___Sp_counted_base* v4;
  u1 v5;
  u32* v6;
  u64* v7;
  u64 v8;
  u1 v9;
  u32* v10;
  fnptr_t** v11;
  fnptr_t* v12;
  fnptr_t* v13;
  fnptr_t v14;
  fnptr_t* v15;
  fnptr_t* v16;
  fnptr_t v17;
  u8 v18;
  u1 v19;
  u32 v20;
  u32 v21;
  u32 v22;
  u32 v23;
  u32 v24; u32 v24_t;
  u1 v25;
L0: ;
  v0 = (struct S56_class_std__shared_ptr_65*)(&(a0)[(s64)((s64)((u64)18446744073709551615ULL))].f0.f0.f1);
  v1 = (fnptr_t**)v0;
  *v1 = ((fnptr_t*)((u8**)(&(*(&_ZTVN14OpenVolumeMesh18PropertyStoragePtrIbEE)).f0.e[(s64)((s64)((u64)2ULL))])));
  v2 = (struct S56_class_std__shared_ptr_65*)(v0 + (s64)((s64)((u64)1ULL)));
  v3 = (struct S20_class_std___Sp_counted_base**)v2;
  v4 = *v3;
  v5 = ((u8*)v4 == (u8*)((struct S20_class_std___Sp_counted_base*)0));
  if (v5) {
    goto L8;
  } else {
    goto L1;
  }
L1: ;
  v6 = (u32*)(&(*v4).f1);
  v7 = (u64*)v6;
  v8 = (((u64)(*v4).f1 << 0) | ((u64)(*v4).f2 << 32));
  v9 = (v8 == ((u64)4294967297ULL));
  if (v9) {
    goto L2;
  } else {
    goto L3;
  }
L2: ;
  *v6 = ((u32)0ULL);
  v10 = (u32*)(&(*v4).f2);
  *v10 = ((u32)0ULL);
  v11 = (fnptr_t**)&(*v4).f0;
  v12 = *v11;
  v13 = (fnptr_t*)(v12 + (s64)((s64)((u64)2ULL)));
  v14 = *v13;
  ((FT1)v14)(v4);
  v15 = *v11;
  v16 = (fnptr_t*)(v15 + (s64)((s64)((u64)3ULL)));
  v17 = *v16;
  ((FT1)v17)(v4);
  goto L8;
L3: ;
  v18 = *(&__libc_single_threaded);
  v19 = (v18 == ((u8)0ULL));
  if (v19) {
    goto L5;
  } else {
    goto L4;
  }
L4: ;
  v20 = *v6;
  v21 = ((u32)(v20 + ((u32)4294967295ULL)));
  *v6 = v21;
  v24 = v20;
  goto L6;
L5: ;
  v22 = *v6;
  v23 = ((u32)(v22 + ((u32)4294967295ULL)));
  *v6 = v23;
  v24 = v22;
  goto L6;
L6: ;
  v25 = (v24 == ((u32)1ULL));
  if (v25) {
    goto L7;
  } else {
    goto L8;
  }
L7: ;
  _ZNSt16_Sp_counted_baseILN9__gnu_cxx12_Lock_policyE2EE24_M_release_last_use_coldEv(v4);
  goto L8;
L8: ;
  return;
}

void _ZThn24_N14OpenVolumeMesh11PropertyPtrIbNS_6Entity4EdgeEED0Ev(struct S31_class_OpenVolumeMesh__PropertyPtr_86* a0) {
  struct S56_class_std__shared_ptr_65* v0;
  fnptr_t** v1;
  struct S56_class_std__shared_ptr_65* v2;
  struct S20_class_std___Sp_counted_base** v3;
  struct S20_class_std___Sp_counted_base* v4;
  u1 v5;
  u32* v6;
  u64* v7;
  u64 v8;
  u1 v9;
  u32* v10;
  fnptr_t** v11;
  fnptr_t* v12;
  fnptr_t* v13;
  fnptr_t v14;
  fnptr_t* v15;
  fnptr_t* v16;
  fnptr_t v17;
  u8 v18;
  u1 v19;
  u32 v20;
  u32 v21;
  u32 v22;
  u32 v23;
  u32 v24; u32 v24_t;
  u1 v25;
  u8* v26;
L0: ;
  v0 = (struct S56_class_std__shared_ptr_65*)(&(a0)[(s64)((s64)((u64)18446744073709551615ULL))].f0.f0.f1);
  v1 = (fnptr_t**)v0;
  *v1 = ((fnptr_t*)((u8**)(&(*(&_ZTVN14OpenVolumeMesh18PropertyStoragePtrIbEE)).f0.e[(s64)((s64)((u64)2ULL))])));
  v2 = (struct S56_class_std__shared_ptr_65*)(v0 + (s64)((s64)((u64)1ULL)));
  v3 = (struct S20_class_std___Sp_counted_base**)v2;
  v4 = *v3;
  v5 = ((u8*)v4 == (u8*)((struct S20_class_std___Sp_counted_base*)0));
  if (v5) {
    goto L8;
  } else {
    goto L1;
  }
L1: ;
  v6 = (u32*)(&(*v4).f1);
  v7 = (u64*)v6;
  v8 = (((u64)(*v4).f1 << 0) | ((u64)(*v4).f2 << 32));
  v9 = (v8 == ((u64)4294967297ULL));
  if (v9) {
    goto L2;
  } else {
    goto L3;
  }
L2: ;
  *v6 = ((u32)0ULL);
  v10 = (u32*)(&(*v4).f2);
  *v10 = ((u32)0ULL);
  v11 = (fnptr_t**)&(*v4).f0;
  v12 = *v11;
  v13 = (fnptr_t*)(v12 + (s64)((s64)((u64)2ULL)));
  v14 = *v13;
  ((FT1)v14)(v4);
  v15 = *v11;
  v16 = (fnptr_t*)(v15 + (s64)((s64)((u64)3ULL)));
  v17 = *v16;
  ((FT1)v17)(v4);
  goto L8;
L3: ;
  v18 = *(&__libc_single_threaded);
  v19 = (v18 == ((u8)0ULL));
  if (v19) {
    goto L5;
  } else {
    goto L4;
  }
L4: ;
  v20 = *v6;
  v21 = ((u32)(v20 + ((u32)4294967295ULL)));
  *v6 = v21;
  v24 = v20;
  goto L6;
L5: ;
  v22 = *v6;
  v23 = ((u32)(v22 + ((u32)4294967295ULL)));
  *v6 = v23;
  v24 = v22;
  goto L6;
L6: ;
  v25 = (v24 == ((u32)1ULL));
  if (v25) {
    goto L7;
  } else {
    goto L8;
  }
L7: ;
  _ZNSt16_Sp_counted_baseILN9__gnu_cxx12_Lock_policyE2EE24_M_release_last_use_coldEv(v4);
  goto L8;
L8: ;
  v26 = (u8*)v0;
  _ZdlPv(v26);
  return;
}

struct S14_class_std____cxx11__basic_string* _ZThn24_NKR14OpenVolumeMesh11PropertyPtrIbNS_6Entity4EdgeEE4nameB5cxx11Ev(struct S31_class_OpenVolumeMesh__PropertyPtr_86* a0) {
  struct S70_class_std____weak_count* v0;
  struct S22_class_OpenVolumeMesh__PropertyStorageBas** v1;
  struct S22_class_OpenVolumeMesh__PropertyStorageBas* v2;
  struct S14_class_std____cxx11__basic_string* v3;
L0: ;
  v0 = (struct S70_class_std____weak_count*)(&(a0)[(s64)((s64)((u64)18446744073709551615ULL))].f0.f0.f1.f0.f1);
  v1 = (struct S22_class_OpenVolumeMesh__PropertyStorageBas**)v0;
  v2 = *v1;
  v3 = (struct S14_class_std____cxx11__basic_string*)(&(*v2).f2);
  return v3;
}

void _ZN14OpenVolumeMesh14HandleIndexingINS_6Entity4EdgeENS_18PropertyStoragePtrIbEEED0Ev(struct S33_class_OpenVolumeMesh__HandleIndexing_87* a0) {
  fnptr_t** v0;
  struct S20_class_std___Sp_counted_base** v1;
  struct S20_class_std___Sp_counted_base* v2;
  u1 v3;
  u32* v4;
  u64* v5;
  u64 v6;
  u1 v7;
  u32* v8;
  fnptr_t** v9;
  fnptr_t* v10;
  fnptr_t* v11;
  fnptr_t v12;
  fnptr_t* v13;
  fnptr_t* v14;
  fnptr_t v15;
  u8 v16;
  u1 v17;
  u32 v18;
  u32 v19;
  u32 v20;
  u32 v21;
  u32 v22; u32 v22_t;
  u1 v23;
  u8* v24;
L0: ;
  v0 = (fnptr_t**)(&(*a0).f0.f0);
  *v0 = ((fnptr_t*)((u8**)(&(*(&_ZTVN14OpenVolumeMesh18PropertyStoragePtrIbEE)).f0.e[(s64)((s64)((u64)2ULL))])));
  v1 = (struct S20_class_std___Sp_counted_base**)(&(*a0).f0.f1.f0.f1.f0);
  v2 = *v1;
  v3 = ((u8*)v2 == (u8*)((struct S20_class_std___Sp_counted_base*)0));
  if (v3) {
    goto L8;
  } else {
    goto L1;
  }
L1: ;
  v4 = (u32*)(&(*v2).f1);
  v5 = (u64*)v4;
  v6 = (((u64)(*v2).f1 << 0) | ((u64)(*v2).f2 << 32));
  v7 = (v6 == ((u64)4294967297ULL));
  if (v7) {
    goto L2;
  } else {
    goto L3;
  }
L2: ;
  *v4 = ((u32)0ULL);
  v8 = (u32*)(&(*v2).f2);
  *v8 = ((u32)0ULL);
  v9 = (fnptr_t**)&(*v2).f0;
  v10 = *v9;
  v11 = (fnptr_t*)(v10 + (s64)((s64)((u64)2ULL)));
  v12 = *v11;
  ((FT1)v12)(v2);
  v13 = *v9;
  v14 = (fnptr_t*)(v13 + (s64)((s64)((u64)3ULL)));
  v15 = *v14;
  ((FT1)v15)(v2);
  goto L8;
L3: ;
  v16 = *(&__libc_single_threaded);
  v17 = (v16 == ((u8)0ULL));
  if (v17) {
    goto L5;
  } else {
    goto L4;
  }
L4: ;
  v18 = *v4;
  v19 = ((u32)(v18 + ((u32)4294967295ULL)));
  *v4 = v19;
  v22 = v18;
  goto L6;
L5: ;
  v20 = *v4;
  v21 = ((u32)(v20 + ((u32)4294967295ULL)));
  *v4 = v21;
  v22 = v20;
  goto L6;
L6: ;
  v23 = (v22 == ((u32)1ULL));
  if (v23) {
    goto L7;
  } else {
    goto L8;
  }
L7: ;
  _ZNSt16_Sp_counted_baseILN9__gnu_cxx12_Lock_policyE2EE24_M_release_last_use_coldEv(v2);
  goto L8;
L8: ;
  v24 = (u8*)a0;
  _ZdlPv(v24);
  return;
}

void _ZN14OpenVolumeMesh11PropertyPtrIbNS_6Entity6VertexEED2Ev(struct S31_class_OpenVolumeMesh__PropertyPtr_86* a0) {
  fnptr_t** v0;
  struct S20_class_std___Sp_counted_base** v1;
  struct S20_class_std___Sp_counted_base* v2;
  u1 v3;
  u32* v4;
  u64* v5;
  u64 v6;
  u1 v7;
  u32* v8;
  fnptr_t** v9;
  fnptr_t* v10;
  fnptr_t* v11;
  fnptr_t v12;
  fnptr_t* v13;
  fnptr_t* v14;
  fnptr_t v15;
  u8 v16;
  u1 v17;
  u32 v18;
  u32 v19;
  u32 v20;
  u32 v21;
  u32 v22; u32 v22_t;
  u1 v23;
L0: ;
  v0 = (fnptr_t**)(&(*a0).f0.f0.f0);
  *v0 = ((fnptr_t*)((u8**)(&(*(&_ZTVN14OpenVolumeMesh18PropertyStoragePtrIbEE)).f0.e[(s64)((s64)((u64)2ULL))])));
  v1 = (struct S20_class_std___Sp_counted_base**)(&(*a0).f0.f0.f1.f0.f1.f0);
  v2 = *v1;
  v3 = ((u8*)v2 == (u8*)((struct S20_class_std___Sp_counted_base*)0));
  if (v3) {
    goto L8;
  } else {
    goto L1;
  }
L1: ;
  v4 = (u32*)(&(*v2).f1);
  v5 = (u64*)v4;
  v6 = (((u64)(*v2).f1 << 0) | ((u64)(*v2).f2 << 32));
  v7 = (v6 == ((u64)4294967297ULL));
  if (v7) {
    goto L2;
  } else {
    goto L3;
  }
L2: ;
  *v4 = ((u32)0ULL);
  v8 = (u32*)(&(*v2).f2);
  *v8 = ((u32)0ULL);
  v9 = (fnptr_t**)&(*v2).f0;
  v10 = *v9;
  v11 = (fnptr_t*)(v10 + (s64)((s64)((u64)2ULL)));
  v12 = *v11;
  ((FT1)v12)(v2);
  v13 = *v9;
  v14 = (fnptr_t*)(v13 + (s64)((s64)((u64)3ULL)));
  v15 = *v14;
  ((FT1)v15)(v2);
  goto L8;
L3: ;
  v16 = *(&__libc_single_threaded);
  v17 = (v16 == ((u8)0ULL));
  if (v17) {
    goto L5;
  } else {
    goto L4;
  }
L4: ;
  v18 = *v4;
  v19 = ((u32)(v18 + ((u32)4294967295ULL)));
  *v4 = v19;
  v22 = v18;
  goto L6;
L5: ;
  v20 = *v4;
  v21 = ((u32)(v20 + ((u32)4294967295ULL)));
  *v4 = v21;
  v22 = v20;
  goto L6;
L6: ;
  v23 = (v22 == ((u32)1ULL));
  if (v23) {
    goto L7;
  } else {
    goto L8;
  }
L7: ;
  _ZNSt16_Sp_counted_baseILN9__gnu_cxx12_Lock_policyE2EE24_M_release_last_use_coldEv(v2);
  goto L8;
L8: ;
  return;
}

void _ZN14OpenVolumeMesh11PropertyPtrIbNS_6Entity6VertexEED0Ev(struct S31_class_OpenVolumeMesh__PropertyPtr_86* a0) {
  fnptr_t** v0;
  struct S20_class_std___Sp_counted_base** v1;
  struct S20_class_std___Sp_counted_base* v2;
  u1 v3;
  u32* v4;
  u64* v5;
  u64 v6;
  u1 v7;
  u32* v8;
  fnptr_t** v9;
  fnptr_t* v10;
  fnptr_t* v11;
  fnptr_t v12;
  fnptr_t* v13;
  fnptr_t* v14;
  fnptr_t v15;
  u8 v16;
  u1 v17;
  u32 v18;
  u32 v19;
  u32 v20;
  u32 v21;
  u32 v22; u32 v22_t;
  u1 v23;
  u8* v24;
L0: ;
  v0 = (fnptr_t**)(&(*a0).f0.f0.f0);
  *v0 = ((fnptr_t*)((u8**)(&(*(&_ZTVN14OpenVolumeMesh18PropertyStoragePtrIbEE)).f0.e[(s64)((s64)((u64)2ULL))])));
  v1 = (struct S20_class_std___Sp_counted_base**)(&(*a0).f0.f0.f1.f0.f1.f0);
  v2 = *v1;
  v3 = ((u8*)v2 == (u8*)((struct S20_class_std___Sp_counted_base*)0));
  if (v3) {
    goto L8;
  } else {
    goto L1;
  }
L1: ;
  v4 = (u32*)(&(*v2).f1);
  v5 = (u64*)v4;
  v6 = (((u64)(*v2).f1 << 0) | ((u64)(*v2).f2 << 32));
  v7 = (v6 == ((u64)4294967297ULL));
  if (v7) {
    goto L2;
  } else {
    goto L3;
  }
L2: ;
  *v4 = ((u32)0ULL);
  v8 = (u32*)(&(*v2).f2);
  *v8 = ((u32)0ULL);
  v9 = (fnptr_t**)&(*v2).f0;
  v10 = *v9;
  v11 = (fnptr_t*)(v10 + (s64)((s64)((u64)2ULL)));
  v12 = *v11;
  ((FT1)v12)(v2);
  v13 = *v9;
  v14 = (fnptr_t*)(v13 + (s64)((s64)((u64)3ULL)));
  v15 = *v14;
  ((FT1)v15)(v2);
  goto L8;
L3: ;
  v16 = *(&__libc_single_threaded);
  v17 = (v16 == ((u8)0ULL));
  if (v17) {
    goto L5;
  } else {
    goto L4;
  }
L4: ;
  v18 = *v4;
  v19 = ((u32)(v18 + ((u32)4294967295ULL)));
  *v4 = v19;
  v22 = v18;
  goto L6;
L5: ;
  v20 = *v4;
  v21 = ((u32)(v20 + ((u32)4294967295ULL)));
  *v4 = v21;
  v22 = v20;
  goto L6;
L6: ;
  v23 = (v22 == ((u32)1ULL));
  if (v23) {
    goto L7;
  } else {
    goto L8;
  }
L7: ;
  _ZNSt16_Sp_counted_baseILN9__gnu_cxx12_Lock_policyE2EE24_M_release_last_use_coldEv(v2);
  goto L8;
L8: ;
  v24 = (u8*)a0;
  _ZdlPv(v24);
  return;
}

struct S14_class_std____cxx11__basic_string* _ZNKR14OpenVolumeMesh11PropertyPtrIbNS_6Entity6VertexEE4nameB5cxx11Ev(struct S31_class_OpenVolumeMesh__PropertyPtr_86* a0) {
  struct S12_class_OpenVolumeMesh__PropertyStorageT** v0;
  struct S22_class_OpenVolumeMesh__PropertyStorageBas** v1;
  struct S22_class_OpenVolumeMesh__PropertyStorageBas* v2;
  struct S14_class_std____cxx11__basic_string* v3;
L0: ;
  v0 = (struct S12_class_OpenVolumeMesh__PropertyStorageT**)(&(*a0).f0.f0.f1.f0.f0);
  v1 = (struct S22_class_OpenVolumeMesh__PropertyStorageBas**)&(*a0).f0.f0.f1.f0.f0;
  v2 = *v1;
  v3 = (struct S14_class_std____cxx11__basic_string*)(&(*v2).f2);
  return v3;
}

void _ZThn24_N14OpenVolumeMesh11PropertyPtrIbNS_6Entity6VertexEED1Ev(struct S31_class_OpenVolumeMesh__PropertyPtr_86* a0) {
  struct S56_class_std__shared_ptr_65* v0;
  fnptr_t** v1;
  struct S56_class_std__shared_ptr_65* v2;
  struct S20_class_std___Sp_counted_base** v3;
  struct S20_class_std___Sp_counted_base* v4;
  u1 v5;
  u32* v6;
  u64* v7;
  u64 v8;
  u1 v9;
  u32* v10;
  fnptr_t** v11;
  fnptr_t* v12;
  fnptr_t* v13;
  fnptr_t v14;
  fnptr_t* v15;
  fnptr_t* v16;
  fnptr_t v17;
  u8 v18;
  u1 v19;
  u32 v20;
  u32 v21;
  u32 v22;
  u32 v23;
  u32 v24; u32 v24_t;
  u1 v25;
L0: ;
  v0 = (struct S56_class_std__shared_ptr_65*)(&(a0)[(s64)((s64)((u64)18446744073709551615ULL))].f0.f0.f1);
  v1 = (fnptr_t**)v0;
  *v1 = ((fnptr_t*)((u8**)(&(*(&_ZTVN14OpenVolumeMesh18PropertyStoragePtrIbEE)).f0.e[(s64)((s64)((u64)2ULL))])));
  v2 = (struct S56_class_std__shared_ptr_65*)(v0 + (s64)((s64)((u64)1ULL)));
  v3 = (struct S20_class_std___Sp_counted_base**)v2;
  v4 = *v3;
  v5 = ((u8*)v4 == (u8*)((struct S20_class_std___Sp_counted_base*)0));
  if (v5) {
    goto L8;
  } else {
    goto L1;
  }
L1: ;
  v6 = (u32*)(&(*v4).f1);
  v7 = (u64*)v6;
  v8 = (((u64)(*v4).f1 << 0) | ((u64)(*v4).f2 << 32));
  v9 = (v8 == ((u64)4294967297ULL));
  if (v9) {
    goto L2;
  } else {
    goto L3;
  }
L2: ;
  *v6 = ((u32)0ULL);
  v10 = (u32*)(&(*v4).f2);
  *v10 = ((u32)0ULL);
  v11 = (fnptr_t**)&(*v4).f0;
  v12 = *v11;
  v13 = (fnptr_t*)(v12 + (s64)((s64)((u64)2ULL)));
  v14 = *v13;
  ((FT1)v14)(v4);
  v15 = *v11;
  v16 = (fnptr_t*)(v15 + (s64)((s64)((u64)3ULL)));
  v17 = *v16;
  ((FT1)v17)(v4);
  goto L8;
L3: ;
  v18 = *(&__libc_single_threaded);
  v19 = (v18 == ((u8)0ULL));
  if (v19) {
    goto L5;
  } else {
    goto L4;
  }
L4: ;
  v20 = *v6;
  v21 = ((u32)(v20 + ((u32)4294967295ULL)));
  *v6 = v21;
  v24 = v20;
  goto L6;
L5: ;
  v22 = *v6;
  v23 = ((u32)(v22 + ((u32)4294967295ULL)));
  *v6 = v23;
  v24 = v22;
  goto L6;
L6: ;
  v25 = (v24 == ((u32)1ULL));
  if (v25) {
    goto L7;
  } else {
    goto L8;
  }
L7: ;
  _ZNSt16_Sp_counted_baseILN9__gnu_cxx12_Lock_policyE2EE24_M_release_last_use_coldEv(v4);
  goto L8;
L8: ;
  return;
}

void _ZThn24_N14OpenVolumeMesh11PropertyPtrIbNS_6Entity6VertexEED0Ev(struct S31_class_OpenVolumeMesh__PropertyPtr_86* a0) {
  struct S56_class_std__shared_ptr_65* v0;
  fnptr_t** v1;
  struct S56_class_std__shared_ptr_65* v2;
  struct S20_class_std___Sp_counted_base** v3;
  struct S20_class_std___Sp_counted_base* v4;
  u1 v5;
  u32* v6;
  u64* v7;
  u64 v8;
  u1 v9;
  u32* v10;
  fnptr_t** v11;
  fnptr_t* v12;
  fnptr_t* v13;
  fnptr_t v14;
  fnptr_t* v15;
  fnptr_t* v16;
  fnptr_t v17;
  u8 v18;
  u1 v19;
  u32 v20;
  u32 v21;
  u32 v22;
  u32 v23;
  u32 v24; u32 v24_t;
  u1 v25;
  u8* v26;
L0: ;
  v0 = (struct S56_class_std__shared_ptr_65*)(&(a0)[(s64)((s64)((u64)18446744073709551615ULL))].f0.f0.f1);
  v1 = (fnptr_t**)v0;
  *v1 = ((fnptr_t*)((u8**)(&(*(&_ZTVN14OpenVolumeMesh18PropertyStoragePtrIbEE)).f0.e[(s64)((s64)((u64)2ULL))])));
  v2 = (struct S56_class_std__shared_ptr_65*)(v0 + (s64)((s64)((u64)1ULL)));
  v3 = (struct S20_class_std___Sp_counted_base**)v2;
  v4 = *v3;
  v5 = ((u8*)v4 == (u8*)((struct S20_class_std___Sp_counted_base*)0));
  if (v5) {
    goto L8;
  } else {
    goto L1;
  }
L1: ;
  v6 = (u32*)(&(*v4).f1);
  v7 = (u64*)v6;
  v8 = (((u64)(*v4).f1 << 0) | ((u64)(*v4).f2 << 32));
  v9 = (v8 == ((u64)4294967297ULL));
  if (v9) {
    goto L2;
  } else {
    goto L3;
  }
L2: ;
  *v6 = ((u32)0ULL);
  v10 = (u32*)(&(*v4).f2);
  *v10 = ((u32)0ULL);
  v11 = (fnptr_t**)&(*v4).f0;
  v12 = *v11;
  v13 = (fnptr_t*)(v12 + (s64)((s64)((u64)2ULL)));
  v14 = *v13;
  ((FT1)v14)(v4);
  v15 = *v11;
  v16 = (fnptr_t*)(v15 + (s64)((s64)((u64)3ULL)));
  v17 = *v16;
  ((FT1)v17)(v4);
  goto L8;
L3: ;
  v18 = *(&__libc_single_threaded);
  v19 = (v18 == ((u8)0ULL));
  if (v19) {
    goto L5;
  } else {
    goto L4;
  }
L4: ;
  v20 = *v6;
  v21 = ((u32)(v20 + ((u32)4294967295ULL)));
  *v6 = v21;
  v24 = v20;
  goto L6;
L5: ;
  v22 = *v6;
  v23 = ((u32)(v22 + ((u32)4294967295ULL)));
  *v6 = v23;
  v24 = v22;
  goto L6;
L6: ;
  v25 = (v24 == ((u32)1ULL));
  if (v25) {
    goto L7;
  } else {
    goto L8;
  }
L7: ;
  _ZNSt16_Sp_counted_baseILN9__gnu_cxx12_Lock_policyE2EE24_M_release_last_use_coldEv(v4);
  goto L8;
L8: ;
  v26 = (u8*)v0;
  _ZdlPv(v26);
  return;
}

struct S14_class_std____cxx11__basic_string* _ZThn24_NKR14OpenVolumeMesh11PropertyPtrIbNS_6Entity6VertexEE4nameB5cxx11Ev(struct S31_class_OpenVolumeMesh__PropertyPtr_86* a0) {
  struct S70_class_std____weak_count* v0;
  struct S22_class_OpenVolumeMesh__PropertyStorageBas** v1;
  struct S22_class_OpenVolumeMesh__PropertyStorageBas* v2;
  struct S14_class_std____cxx11__basic_string* v3;
L0: ;
  v0 = (struct S70_class_std____weak_count*)(&(a0)[(s64)((s64)((u64)18446744073709551615ULL))].f0.f0.f1.f0.f1);
  v1 = (struct S22_class_OpenVolumeMesh__PropertyStorageBas**)v0;
  v2 = *v1;
  v3 = (struct S14_class_std____cxx11__basic_string*)(&(*v2).f2);
  return v3;
}

void _ZN14OpenVolumeMesh14HandleIndexingINS_6Entity6VertexENS_18PropertyStoragePtrIbEEED0Ev(struct S33_class_OpenVolumeMesh__HandleIndexing_87* a0) {
  fnptr_t** v0;
  struct S20_class_std___Sp_counted_base** v1;
  struct S20_class_std___Sp_counted_base* v2;
  u1 v3;
  u32* v4;
  u64* v5;
  u64 v6;
  u1 v7;
  u32* v8;
  fnptr_t** v9;
  fnptr_t* v10;
  fnptr_t* v11;
  fnptr_t v12;
  fnptr_t* v13;
  fnptr_t* v14;
  fnptr_t v15;
  u8 v16;
  u1 v17;
  u32 v18;
  u32 v19;
  u32 v20;
  u32 v21;
  u32 v22; u32 v22_t;
  u1 v23;
  u8* v24;
L0: ;
  v0 = (fnptr_t**)(&(*a0).f0.f0);
  *v0 = ((fnptr_t*)((u8**)(&(*(&_ZTVN14OpenVolumeMesh18PropertyStoragePtrIbEE)).f0.e[(s64)((s64)((u64)2ULL))])));
  v1 = (struct S20_class_std___Sp_counted_base**)(&(*a0).f0.f1.f0.f1.f0);
  v2 = *v1;
  v3 = ((u8*)v2 == (u8*)((struct S20_class_std___Sp_counted_base*)0));
  if (v3) {
    goto L8;
  } else {
    goto L1;
  }
L1: ;
  v4 = (u32*)(&(*v2).f1);
  v5 = (u64*)v4;
  v6 = (((u64)(*v2).f1 << 0) | ((u64)(*v2).f2 << 32));
  v7 = (v6 == ((u64)4294967297ULL));
  if (v7) {
    goto L2;
  } else {
    goto L3;
  }
L2: ;
  *v4 = ((u32)0ULL);
  v8 = (u32*)(&(*v2).f2);
  *v8 = ((u32)0ULL);
  v9 = (fnptr_t**)&(*v2).f0;
  v10 = *v9;
  v11 = (fnptr_t*)(v10 + (s64)((s64)((u64)2ULL)));
  v12 = *v11;
  ((FT1)v12)(v2);
  v13 = *v9;
  v14 = (fnptr_t*)(v13 + (s64)((s64)((u64)3ULL)));
  v15 = *v14;
  ((FT1)v15)(v2);
  goto L8;
L3: ;
  v16 = *(&__libc_single_threaded);
  v17 = (v16 == ((u8)0ULL));
  if (v17) {
    goto L5;
  } else {
    goto L4;
  }
L4: ;
  v18 = *v4;
  v19 = ((u32)(v18 + ((u32)4294967295ULL)));
  *v4 = v19;
  v22 = v18;
  goto L6;
L5: ;
  v20 = *v4;
  v21 = ((u32)(v20 + ((u32)4294967295ULL)));
  *v4 = v21;
  v22 = v20;
  goto L6;
L6: ;
  v23 = (v22 == ((u32)1ULL));
  if (v23) {
    goto L7;
  } else {
    goto L8;
  }
L7: ;
  _ZNSt16_Sp_counted_baseILN9__gnu_cxx12_Lock_policyE2EE24_M_release_last_use_coldEv(v2);
  goto L8;
L8: ;
  v24 = (u8*)a0;
  _ZdlPv(v24);
  return;
}

void _ZNSt12__shared_ptrIN14OpenVolumeMesh16PropertyStorageTIbEELN9__gnu_cxx12_Lock_policyE2EEC2ISaIvEJRKS2_EEESt20_Sp_alloc_shared_tagIT_EDpOT0_(struct S30_class_std____shared_ptr_66* a0, struct S0_class_std__ios_base__Init* a1, struct S12_class_OpenVolumeMesh__PropertyStorageT* a2) {
  struct S0_class_std__ios_base__Init* v0; struct S0_class_std__ios_base__Init v0_m;
  struct S12_class_OpenVolumeMesh__PropertyStorageT** v1;
  u8* v2;
  struct S38_class_std___Sp_counted_ptr_inplace* v3;
  u8* v4;
  fnptr_t** v5;
  u32* v6;
  u32* v7;
  struct S71_struct___gnu_cxx____aligned_buffer* v8;
  struct S12_class_OpenVolumeMesh__PropertyStorageT* v9;
  struct S65 v10;
  struct S20_class_std___Sp_counted_base* v11;
  struct S20_class_std___Sp_counted_base** v12;
  struct S71_struct___gnu_cxx____aligned_buffer** v13;
  u8* v14;
  u8* v15;
  struct S20_class_std___Sp_counted_base** v16;
  struct S20_class_std___Sp_counted_base* v17;
  u1 v18;
  u32* v19;
  u32 v20;
  u1 v21;
  struct S71_struct___gnu_cxx____aligned_buffer** v22;
  struct S20_class_std___Sp_counted_base** v23;
  struct S20_class_std___Sp_counted_base* v24;
  u1 v25;
  u32* v26;
  u8 v27;
  u1 v28;
  u32 v29;
  u32 v30;
  u32 v31;
  u32 v32;
  struct S20_class_std___Sp_counted_base* v33;
  u1 v34;
  u32* v35;
  u8 v36;
  u1 v37;
  u32 v38;
  u32 v39;
  u32 v40;
  u32 v41;
  u32 v42; u32 v42_t;
  u1 v43;
  fnptr_t** v44;
  fnptr_t* v45;
  fnptr_t* v46;
  fnptr_t v47;
L0: ;
  v0 = &v0_m;
  v1 = (struct S12_class_OpenVolumeMesh__PropertyStorageT**)(&(*a0).f0);
  *v1 = ((struct S12_class_OpenVolumeMesh__PropertyStorageT*)0);
  v2 = (u8*)((((u64)168ULL) % sizeof(struct S38_class_std___Sp_counted_ptr_inplace) == 0) ? __CPROVER_allocate(sizeof(struct S38_class_std___Sp_counted_ptr_inplace) * (((u64)168ULL) / sizeof(struct S38_class_std___Sp_counted_ptr_inplace)), 0) : __CPROVER_allocate(((u64)168ULL), 0));
  v_alloc_note((u8*)v2);
  v3 = (struct S38_class_std___Sp_counted_ptr_inplace*)v2;
  v4 = (u8*)(&(*v0).f0);
  v5 = (fnptr_t**)(&(*v3).f0.f0);
  *v5 = ((fnptr_t*)((u8**)(&(*(&_ZTVSt16_Sp_counted_baseILN9__gnu_cxx12_Lock_policyE2EE)).f0.e[(s64)((s64)((u64)2ULL))])));
  v6 = (u32*)(&(*v3).f0.f1);
  *v6 = ((u32)1ULL);
  v7 = (u32*)(&(*v3).f0.f2);
  *v7 = ((u32)1ULL);
  *v5 = ((fnptr_t*)((u8**)(&(*(&_ZTVSt23_Sp_counted_ptr_inplaceIN14OpenVolumeMesh16PropertyStorageTIbEESaIvELN9__gnu_cxx12_Lock_policyE2EE)).f0.e[(s64)((s64)((u64)2ULL))])));
  v8 = (struct S71_struct___gnu_cxx____aligned_buffer*)(&(*v3).f1.f0);
  v9 = (struct S12_class_OpenVolumeMesh__PropertyStorageT*)v8;
  _ZNSt16allocator_traitsISaIvEE9constructIN14OpenVolumeMesh16PropertyStorageTIbEEJRKS5_EEEvRS0_PT_DpOT0_(v0, v9, a2);
  if (v_exc) {
    goto L1;
  }
  goto L2;
L1: ;
  v10.f0 = v_exc_obj;
  v10.f1 = 0;
  v_exc = 0;
  _ZdlPv(v2);
  v_exc = 1; return;
L2: ;
  v11 = (struct S20_class_std___Sp_counted_base*)(&(*v3).f0);
  v12 = (struct S20_class_std___Sp_counted_base**)(&(*a0).f1.f0);
  *v12 = v11;
  v13 = (struct S71_struct___gnu_cxx____aligned_buffer**)&(*a0).f0;
  *v13 = v8;
  v14 = (u8*)(&(*v3).f1.f0.f0.f0.f1.f0.f0.f0);
  v15 = (u8*)(&(*v3).f1.f0.f0.f0.f1.f0.f0.f1.f0);
  v16 = (struct S20_class_std___Sp_counted_base**)v15;
  v17 = *v16;
  v18 = ((u8*)v17 == (u8*)((struct S20_class_std___Sp_counted_base*)0));
  if (v18) {
    goto L4;
  } else {
    goto L3;
  }
L3: ;
  v19 = (u32*)(&(*v17).f1);
  v20 = *v19;
  v21 = (v20 == ((u32)0ULL));
  if (v21) {
    goto L4;
  } else {
    goto L15;
  }
L4: ;
  v22 = (struct S71_struct___gnu_cxx____aligned_buffer**)v14;
  *v22 = v8;
  v23 = (struct S20_class_std___Sp_counted_base**)(&(*a0).f1.f0);
  v24 = *v23;
  v25 = ((u8*)v24 == (u8*)((struct S20_class_std___Sp_counted_base*)0));
  if (v25) {
    goto L8;
  } else {
    goto L5;
  }
L5: ;
  v26 = (u32*)(&(*v24).f2);
  v27 = *(&__libc_single_threaded);
  v28 = (v27 == ((u8)0ULL));
  if (v28) {
    goto L7;
  } else {
    goto L6;
  }
L6: ;
  v29 = *v26;
  v30 = ((u32)(v29 + ((u32)1ULL)));
  *v26 = v30;
  goto L8;
L7: ;
  v31 = *v26;
  v32 = ((u32)(v31 + ((u32)1ULL)));
  *v26 = v32;
  goto L8;
L8: ;
  v33 = *v16;
  v34 = ((u8*)v33 == (u8*)((struct S20_class_std___Sp_counted_base*)0));
  if (v34) {
    goto L14;
  } else {
    goto L9;
  }
L9: ;
  v35 = (u32*)(&(*v33).f2);
  v36 = *(&__libc_single_threaded);
  v37 = (v36 == ((u8)0ULL));
  if (v37) {
    goto L11;
  } else {
    goto L10;
  }
L10: ;
  v38 = *v35;
  v39 = ((u32)(v38 + ((u32)4294967295ULL)));
  *v35 = v39;
  v42 = v38;
  goto L12;
L11: ;
  v40 = *v35;
  v41 = ((u32)(v40 + ((u32)4294967295ULL)));
  *v35 = v41;
  v42 = v40;
  goto L12;
L12: ;
  v43 = (v42 == ((u32)1ULL));
  if (v43) {
    goto L13;
  } else {
    goto L14;
  }
L13: ;
  v44 = (fnptr_t**)&(*v33).f0;
  v45 = *v44;
  v46 = (fnptr_t*)(v45 + (s64)((s64)((u64)3ULL)));
  v47 = *v46;
  ((FT1)v47)(v33);
  goto L14;
L14: ;
  *v16 = v24;
  goto L15;
L15: ;
  return;
}

void _ZNSt16allocator_traitsISaIvEE9constructIN14OpenVolumeMesh16PropertyStorageTIbEEJRKS5_EEEvRS0_PT_DpOT0_(struct S0_class_std__ios_base__Init* a0, struct S12_class_OpenVolumeMesh__PropertyStorageT* a1, struct S12_class_OpenVolumeMesh__PropertyStorageT* a2) {
  struct S22_class_OpenVolumeMesh__PropertyStorageBas* v0;
  struct S22_class_OpenVolumeMesh__PropertyStorageBas* v1;
  fnptr_t** v2;
  struct S15_class_std__vector_46* v3;
  struct S15_class_std__vector_46* v4;
  struct S65 v5;
  u8** v6;
  u8* v7;
  struct S64_union_anon* v8;
  u8* v9;
  u1 v10;
  u8** v11;
  u8* v12;
  struct S64_union_anon* v13;
  u8* v14;
  u1 v15;
  struct S19_class_OpenVolumeMesh__detail__Tracked* v16;
  struct S20_class_std___Sp_counted_base** v17;
  struct S20_class_std___Sp_counted_base* v18;
  u1 v19;
  u32* v20;
  u8 v21;
  u1 v22;
  u32 v23;
  u32 v24;
  u32 v25;
  u32 v26;
  u32 v27; u32 v27_t;
  u1 v28;
  fnptr_t** v29;
  fnptr_t* v30;
  fnptr_t* v31;
  fnptr_t v32;
  u8* v33;
  u8* v34;
  u8 v35;
L0: ;
  v0 = (struct S22_class_OpenVolumeMesh__PropertyStorageBas*)a1;
  v1 = (struct S22_class_OpenVolumeMesh__PropertyStorageBas*)a2;
  _ZN14OpenVolumeMesh19PropertyStorageBaseC2ERKS0_(v0, v1);
  if (v_exc) return;
  v2 = (fnptr_t**)(&(*a1).f0.f0.f0);
  *v2 = ((fnptr_t*)((u8**)(&(*(&_ZTVN14OpenVolumeMesh16PropertyStorageTIbEE)).f0.e[(s64)((s64)((u64)2ULL))])));
  v3 = (struct S15_class_std__vector_46*)(&(*a1).f2);
  v4 = (struct S15_class_std__vector_46*)(&(*a2).f2);
  _ZNSt6vectorIbSaIbEEC2ERKS1_(v3, v4);
  if (v_exc) {
    goto L1;
  }
  goto L12;
L1: ;
  v5.f0 = v_exc_obj;
  v5.f1 = 0;
  v_exc = 0;
  *v2 = ((fnptr_t*)((u8**)(&(*(&_ZTVN14OpenVolumeMesh19PropertyStorageBaseE)).f0.e[(s64)((s64)((u64)2ULL))])));
  v6 = (u8**)(&(*a1).f0.f3.f0.f0);
  v7 = *v6;
  v8 = (struct S64_union_anon*)(&(*a1).f0.f3.f2);
  v9 = (u8*)v8;
  v10 = ((u8*)v7 == (u8*)v9);
  if (v10) {
    goto L3;
  } else {
    goto L2;
  }
L2: ;
  _ZdlPv(v7);
  goto L3;
L3: ;
  v11 = (u8**)(&(*a1).f0.f2.f0.f0);
  v12 = *v11;
  v13 = (struct S64_union_anon*)(&(*a1).f0.f2.f2);
  v14 = (u8*)v13;
  v15 = ((u8*)v12 == (u8*)v14);
  if (v15) {
    goto L5;
  } else {
    goto L4;
  }
L4: ;
  _ZdlPv(v12);
  goto L5;
L5: ;
  v16 = (struct S19_class_OpenVolumeMesh__detail__Tracked*)(&(*a1).f0.f0);
  _ZN14OpenVolumeMesh6detail7TrackedINS_19PropertyStorageBaseEED2Ev(v16);
  v17 = (struct S20_class_std___Sp_counted_base**)(&(*a1).f0.f1.f0.f0.f1.f0);
  v18 = *v17;
  v19 = ((u8*)v18 == (u8*)((struct S20_class_std___Sp_counted_base*)0));
  if (v19) {
    goto L11;
  } else {
    goto L6;
  }
L6: ;
  v20 = (u32*)(&(*v18).f2);
  v21 = *(&__libc_single_threaded);
  v22 = (v21 == ((u8)0ULL));
  if (v22) {
    goto L8;
  } else {
    goto L7;
  }
L7: ;
  v23 = *v20;
  v24 = ((u32)(v23 + ((u32)4294967295ULL)));
  *v20 = v24;
  v27 = v23;
  goto L9;
L8: ;
  v25 = *v20;
  v26 = ((u32)(v25 + ((u32)4294967295ULL)));
  *v20 = v26;
  v27 = v25;
  goto L9;
L9: ;
  v28 = (v27 == ((u32)1ULL));
  if (v28) {
    goto L10;
  } else {
    goto L11;
  }
L10: ;
  v29 = (fnptr_t**)&(*v18).f0;
  v30 = *v29;
  v31 = (fnptr_t*)(v30 + (s64)((s64)((u64)3ULL)));
  v32 = *v31;
  ((FT1)v32)(v18);
  goto L11;
L11: ;
  v_exc = 1; return;
L12: ;
  v33 = (u8*)(&(*a1).f3);
  v34 = (u8*)(&(*a2).f3);
  v35 = *v34;
  *v33 = v35;
  return;
}

void _ZN14OpenVolumeMesh19PropertyStorageBaseC2ERKS0_(struct S22_class_OpenVolumeMesh__PropertyStorageBas* a0, struct S22_class_OpenVolumeMesh__PropertyStorageBas* a1) {
  u64* v0; u64 v0_m;
  u64* v1; u64 v1_m;
  struct S22_class_OpenVolumeMesh__PropertyStorageBas** v2; struct S22_class_OpenVolumeMesh__PropertyStorageBas* v2_m;
  struct S37_class_std__enable_shared_from_this* v3;
  u8* v4;
  struct S19_class_OpenVolumeMesh__detail__Tracked* v5;
  fnptr_t** v6;
  struct S13_class_OpenVolumeMesh__detail__Tracker** v7;
  struct S13_class_OpenVolumeMesh__detail__Tracker** v8;
  struct S13_class_OpenVolumeMesh__detail__Tracker* v9;
  u1 v10;
  u8* v11;
  struct S19_class_OpenVolumeMesh__detail__Tracked** v12;
  struct S16_class_std___Rb_tree_5* v13;
  struct S36 v14;
  fnptr_t** v15;
  struct S14_class_std____cxx11__basic_string* v16;
  struct S64_union_anon* v17;
  struct S64_union_anon** v18;
  u8** v19;
  u8* v20;
  u64* v21;
  u64 v22;
  u8* v23;
  u1 v24;
  u8* v25;
  u8** v26;
  u64 v27;
  u64* v28;
  u8** v29;
  u8* v30;
  u8 v31;
  u64 v32;
  u64* v33;
  u8* v34;
  u8* v35;
  struct S14_class_std____cxx11__basic_string* v36;
  struct S64_union_anon* v37;
  struct S64_union_anon** v38;
  u8** v39;
  u8* v40;
  u64* v41;
  u64 v42;
  u8* v43;
  u1 v44;
  u8* v45;
  u8** v46;
  u64 v47;
  u64* v48;
  u8** v49;
  u8* v50;
  u8 v51;
  u64 v52;
  u64* v53;
  u8* v54;
  u8* v55;
  u8* v56;
  u8* v57;
  struct S65 v58;
  struct S65 v59;
  struct S65 v60;
  u8* v61;
  u8* v62;
  u1 v63;
  struct S65 v64; struct S65 v64_t;
  struct S65 v65; struct S65 v65_t;
L0: ;
  v0 = &v0_m;
  v1 = &v1_m;
  v2 = &v2_m;
  v3 = (struct S37_class_std__enable_shared_from_this*)(&(*a0).f1);
  v4 = (u8*)v3;
  (*a0).f1.f0.f0.f0 = (struct S22_class_OpenVolumeMesh__PropertyStorageBas*)0;
  (*a0).f1.f0.f0.f1.f0 = (struct S20_class_std___Sp_counted_base*)0;
  v5 = (struct S19_class_OpenVolumeMesh__detail__Tracked*)(&(*a0).f0);
  v6 = (fnptr_t**)(&(*a0).f0.f0);
  *v6 = ((fnptr_t*)((u8**)(&(*(&_ZTVN14OpenVolumeMesh6detail7TrackedINS_19PropertyStorageBaseEEE)).f0.e[(s64)((s64)((u64)2ULL))])));
  v7 = (struct S13_class_OpenVolumeMesh__detail__Tracker**)(&(*a0).f0.f1);
  v8 = (struct S13_class_OpenVolumeMesh__detail__Tracker**)(&(*a1).f0.f1);
  v9 = *v8;
  *v7 = v9;
  v10 = ((u8*)v9 == (u8*)((struct S13_class_OpenVolumeMesh__detail__Tracker*)0));
  if (v10) {
    goto L3;
  } else {
    goto L1;
  }
L1: ;
  v11 = (u8*)v2;
  v12 = (struct S19_class_OpenVolumeMesh__detail__Tracked**)v2;
  *v12 = v5;
  v13 = (struct S16_class_std___Rb_tree_5*)(&(*v9).f1.f0);
  v14 = _ZNSt8_Rb_treeIPN14OpenVolumeMesh19PropertyStorageBaseES2_St9_IdentityIS2_ESt4lessIS2_ESaIS2_EE16_M_insert_uniqueIRKS2_EESt4pairISt17_Rb_tree_iteratorIS2_EbEOT_(v13, v2);
  if (v_exc) {
    goto L16;
  }
  goto L2;
L2: ;
  goto L3;
L3: ;
  v15 = (fnptr_t**)(&(*a0).f0.f0);
  *v15 = ((fnptr_t*)((u8**)(&(*(&_ZTVN14OpenVolumeMesh19PropertyStorageBaseE)).f0.e[(s64)((s64)((u64)2ULL))])));
  v16 = (struct S14_class_std____cxx11__basic_string*)(&(*a0).f2);
  v17 = (struct S64_union_anon*)(&(*a0).f2.f2);
  v18 = (struct S64_union_anon**)&(*a0).f2.f0.f0;
  *v18 = v17;
  v19 = (u8**)(&(*a1).f2.f0.f0);
  v20 = *v19;
  v21 = (u64*)(&(*a1).f2.f1);
  v22 = *v21;
  v23 = (u8*)v1;
  *v1 = v22;
  v24 = (v22 > ((u64)15ULL));
  if (v24) {
    goto L4;
  } else {
    goto L6;
  }
L4: ;
  v25 = _ZNSt7__cxx1112basic_stringIcSt11char_traitsIcESaIcEE9_M_createERmm(v16, v1, ((u64)0ULL));
  if (v_exc) {
    goto L17;
  }
  goto L5;
L5: ;
  v26 = (u8**)(&(*v16).f0.f0);
  *v26 = v25;
  v27 = *v1;
  v28 = (u64*)(&(*a0).f2.f2.f0.e[0]);
  *v28 = v27;
  goto L6;
L6: ;
  v29 = (u8**)(&(*v16).f0.f0);
  v30 = *v29;
  switch (v22) {
  case ((u64)1ULL): {
    goto L7;
  }
  case ((u64)0ULL): {
    goto L9;
  }
  default: {
    goto L8;
  }
  }
L7: ;
  v31 = *v20;
  *v30 = v31;
  goto L9;
L8: ;
  v_memcpy((u8*)v30, (u8*)v20, (u64)v22);
  goto L9;
L9: ;
  v32 = *v1;
  v33 = (u64*)(&(*a0).f2.f1);
  *v33 = v32;
  v34 = *v29;
  v35 = (u8*)(v34 + (s64)((s64)v32));
  *v35 = ((u8)0ULL);
  v36 = (struct S14_class_std____cxx11__basic_string*)(&(*a0).f3);
  v37 = (struct S64_union_anon*)(&(*a0).f3.f2);
  v38 = (struct S64_union_anon**)&(*a0).f3.f0.f0;
  *v38 = v37;
  v39 = (u8**)(&(*a1).f3.f0.f0);
  v40 = *v39;
  v41 = (u64*)(&(*a1).f3.f1);
  v42 = *v41;
  v43 = (u8*)v0;
  *v0 = v42;
  v44 = (v42 > ((u64)15ULL));
  if (v44) {
    goto L10;
  } else {
    goto L12;
  }
L10: ;
  v45 = _ZNSt7__cxx1112basic_stringIcSt11char_traitsIcESaIcEE9_M_createERmm(v36, v0, ((u64)0ULL));
  if (v_exc) {
    goto L18;
  }
  goto L11;
L11: ;
  v46 = (u8**)(&(*v36).f0.f0);
  *v46 = v45;
  v47 = *v0;
  v48 = (u64*)(&(*a0).f3.f2.f0.e[0]);
  *v48 = v47;
  goto L12;
L12: ;
  v49 = (u8**)(&(*v36).f0.f0);
  v50 = *v49;
  switch (v42) {
  case ((u64)1ULL): {
    goto L13;
  }
  case ((u64)0ULL): {
    goto L15;
  }
  default: {
    goto L14;
  }
  }
L13: ;
  v51 = *v40;
  *v50 = v51;
  goto L15;
L14: ;
  v_memcpy((u8*)v50, (u8*)v40, (u64)v42);
  goto L15;
L15: ;
  v52 = *v0;
  v53 = (u64*)(&(*a0).f3.f1);
  *v53 = v52;
  v54 = *v49;
  v55 = (u8*)(v54 + (s64)((s64)v52));
  *v55 = ((u8)0ULL);
  v56 = (u8*)(&(*a0).f4);
  v57 = (u8*)(&(*a1).f4);
  (*a0).f4 = (u8)(*a1).f4;
  (*a0).f5 = (u8)(*a1).f5;
  (*a0).f6 = (u8)(*a1).f6;
  return;
L16: ;
  v58.f0 = v_exc_obj;
  v58.f1 = 0;
  v_exc = 0;
  v65 = v58;
  goto L21;
L17: ;
  v59.f0 = v_exc_obj;
  v59.f1 = 0;
  v_exc = 0;
  v64 = v59;
  goto L20;
L18: ;
  v60.f0 = v_exc_obj;
  v60.f1 = 0;
  v_exc = 0;
  v61 = *v29;
  v62 = (u8*)v17;
  v63 = ((u8*)v61 == (u8*)v62);
  if (v63) {
    v64 = v60;
    goto L20;
  } else {
    goto L19;
  }
L19: ;
  _ZdlPv(v61);
  v64 = v60;
  goto L20;
L20: ;
  _ZN14OpenVolumeMesh6detail7TrackedINS_19PropertyStorageBaseEED2Ev(v5);
  v65 = v64;
  goto L21;
L21: ;
  _ZNSt23enable_shared_from_thisIN14OpenVolumeMesh19PropertyStorageBaseEED2Ev(v3);
  v_exc = 1; return;
}

void _ZNSt6vectorIbSaIbEEC2ERKS1_(struct S15_class_std__vector_46* a0, struct S15_class_std__vector_46* a1) {
  u64** v0;
  u32* v1;
  u64** v2;
  u32* v3;
  u64** v4;
  u64** v5;
  u64* v6;
  u32* v7;
  u32 v8;
  u64** v9;
  u64* v10;
  u64 v11;
  u64 v12;
  u64 v13;
  u64 v14;
  u64 v15;
  u64 v16;
  u1 v17;
  u64 v18;
  u64 v19;
  u64 v20;
  u8* v21;
  u64* v22;
  u64 v23;
  u64* v24;
  u64** v25;
  u8** v26;
  u32* v27;
  u64 v28;
  u64* v29;
  u64 v30;
  u1 v31;
  u64 v32;
  u64 v33;
  u64* v34;
  u64 v35;
  u32 v36;
  u64** v37;
  u32* v38;
  u64* v39;
  u64* v40;
  u32 v41;
  u64** v42;
  u64* v43;
  u64 v44;
  u64 v45;
  u64 v46;
  u1 v47;
  u8* v48;
  u8* v49;
  u1 v50;
  u64 v51;
  u64* v52;
  u64 v53;
  u64 v54; u64 v54_t;
  u32 v55; u32 v55_t;
  u64* v56; u64* v56_t;
  u64* v57; u64* v57_t;
  u32 v58; u32 v58_t;
  u64 v59;
  u64 v60;
  u64 v61;
  u64 v62;
  u1 v63;
  u64 v64;
  u64 v65;
  u64 v66;
  u64 v67;
  u64 v68;
  u64 v69;
  u64 v70;
  u64 v71; u64 v71_t;
  u32 v72;
  u1 v73;
  u64 v74;
  u64* v75;
  u32 v76;
  u32 v77;
  u1 v78;
  u32 v79;
  u64 v80;
  u64* v81;
  u64 v82;
  u1 v83;
  struct S65 v84;
  struct S35_struct_std___Bvector_base* v85;
L0: ;
  v0 = (u64**)(&(*a0).f0.f0.f0.f0.f0.f0);
  *v0 = ((u64*)0);
  v1 = (u32*)(&(*a0).f0.f0.f0.f0.f0.f1);
  *v1 = ((u32)0ULL);
  v2 = (u64**)(&(*a0).f0.f0.f0.f1.f0.f0);
  *v2 = ((u64*)0);
  v3 = (u32*)(&(*a0).f0.f0.f0.f1.f0.f1);
  *v3 = ((u32)0ULL);
  v4 = (u64**)(&(*a0).f0.f0.f0.f2);
  *v4 = ((u64*)0);
  v5 = (u64**)(&(*a1).f0.f0.f0.f1.f0.f0);
  v6 = *v5;
  v7 = (u32*)(&(*a1).f0.f0.f0.f1.f0.f1);
  v8 = *v7;
  v9 = (u64**)(&(*a1).f0.f0.f0.f0.f0.f0);
  v10 = *v9;
  v11 = ((u64)((u64)v6));
  v12 = ((u64)((u64)v10));
  v13 = v_pdiff((u8*)v6, (u8*)v10);
  v14 = ((u64)(v13 << ((u64)3ULL)));
  v15 = ((u64)(v8));
  v16 = ((u64)(v14 + v15));
  v17 = (v16 == ((u64)0ULL));
  if (v17) {
    goto L3;
  } else {
    goto L1;
  }
L1: ;
  v18 = ((u64)(v16 + ((u64)63ULL)));
  v19 = ((u64)(v18 >> ((u64)3ULL)));
  v20 = ((u64)(v19 & ((u64)2305843009213693944ULL)));
  v21 = (u8*)((v20 % sizeof(u64) == 0) ? __CPROVER_allocate(sizeof(u64) * (v20 / sizeof(u64)), 1) : __CPROVER_allocate(v20, 0));
  if (v_exc) {
    goto L12;
  }
  goto L2;
L2: ;
  v22 = (u64*)v21;
  v23 = ((u64)(v18 >> ((u64)6ULL)));
  v24 = (u64*)(v22 + (s64)((s64)v23));
  v25 = (u64**)(&(*a0).f0.f0.f0.f2);
  *v25 = v24;
  v26 = (u8**)&(*a0).f0.f0.f0.f0.f0.f0;
  *v26 = v21;
  v27 = (u32*)(&(*a0).f0.f0.f0.f0.f0.f1);
  *v27 = ((u32)0ULL);
  v28 = ((u64)(((s64)v16) / ((s64)((u64)64ULL))));
  v29 = (u64*)(v22 + (s64)((s64)v28));
  v30 = ((u64)(((s64)v16) % ((s64)((u64)64ULL))));
  v31 = (((s64)v30) < ((s64)((u64)0ULL)));
  v32 = ((u64)(v30 + ((u64)64ULL)));
  v33 = ((u64)(((s64)v30) >> ((u64)63ULL)));
  v34 = (u64*)(v29 + (s64)((s64)v33));
  v35 = (v31 ? v32 : v30);
  v36 = ((u32)(v35));
  v37 = (u64**)(&(*a0).f0.f0.f0.f1.f0.f0);
  *v37 = v34;
  v38 = (u32*)(&(*a0).f0.f0.f0.f1.f0.f1);
  *v38 = v36;
  goto L3;
L3: ;
  v39 = *v9;
  v40 = *v5;
  v41 = *v7;
  v42 = (u64**)(&(*a0).f0.f0.f0.f0.f0.f0);
  v43 = *v42;
  v44 = ((u64)((u64)v40));
  v45 = ((u64)((u64)v39));
  v46 = v_pdiff((u8*)v40, (u8*)v39);
  v47 = (v46 == ((u64)0ULL));
  if (v47) {
    goto L5;
  } else {
    goto L4;
  }
L4: ;
  v48 = (u8*)v43;
  v49 = (u8*)v39;
  { u64* _d = v43; u64* _s = v39; u64 _n = (u64)v46 / 8; __CPROVER_assert((u64)v46 % 8 == 0, "typed memcpy size");
    if (_n) { if (__CPROVER_same_object(_d, _s) && __CPROVER_POINTER_OFFSET(_d) > __CPROVER_POINTER_OFFSET(_s)) { for (u64 _i = _n; _i > 0; --_i) _d[_i-1] = _s[_i-1]; } else { for (u64 _i = 0; _i < _n; ++_i) _d[_i] = _s[_i]; } } }
  goto L5;
L5: ;
  v50 = (v41 == ((u32)0ULL));
  if (v50) {
    goto L11;
  } else {
    goto L6;
  }
L6: ;
  v51 = ((u64)(((s64)v46) >> ((u64)3ULL)));
  v52 = (u64*)(v43 + (s64)((s64)v51));
  v53 = ((u64)(v41));
  v54_t = v53;
  v55_t = ((u32)0ULL);
  v56_t = v40;
  v57_t = v52;
  v58_t = ((u32)0ULL);
  v54 = v54_t;
  v55 = v55_t;
  v56 = v56_t;
  v57 = v57_t;
  v58 = v58_t;
  goto L7;
L7: ;
  v59 = ((u64)(v55));
  v60 = ((u64)(((u64)1ULL) << v59));
  v61 = *v56;
  v62 = ((u64)(v61 & v60));
  v63 = (v62 == ((u64)0ULL));
  v64 = ((u64)(v58));
  v65 = ((u64)(((u64)1ULL) << v64));
  if (v63) {
    goto L9;
  } else {
    goto L8;
  }
L8: ;
  v66 = *v57;
  v67 = ((u64)(v66 | v65));
  v71 = v67;
  goto L10;
L9: ;
  v68 = ((u64)(v65 ^ ((u64)18446744073709551615ULL)));
  v69 = *v57;
  v70 = ((u64)(v69 & v68));
  v71 = v70;
  goto L10;
L10: ;
  *v57 = v71;
  v72 = ((u32)(v55 + ((u32)1ULL)));
  v73 = (v55 == ((u32)63ULL));
  v74 = ((u64)(v73));
  v75 = (u64*)(v56 + (s64)((s64)v74));
  v76 = (v73 ? ((u32)0ULL) : v72);
  v77 = ((u32)(v58 + ((u32)1ULL)));
  v78 = (v58 == ((u32)63ULL));
  v79 = (v78 ? ((u32)0ULL) : v77);
  v80 = ((u64)(v78));
  v81 = (u64*)(v57 + (s64)((s64)v80));
  v82 = ((u64)(v54 + ((u64)18446744073709551615ULL)));
  v83 = (((s64)v54) > ((s64)((u64)1ULL)));
  if (v83) {
    v54_t = v82;
    v55_t = v76;
    v56_t = v75;
    v57_t = v81;
    v58_t = v79;
    v54 = v54_t;
    v55 = v55_t;
    v56 = v56_t;
    v57 = v57_t;
    v58 = v58_t;
    goto L7;
  } else {
    goto L11;
  }
L11: ;
  return;
L12: ;
  v84.f0 = v_exc_obj;
  v84.f1 = 0;
  v_exc = 0;
  v85 = (struct S35_struct_std___Bvector_base*)(&(*a0).f0);
  _ZNSt13_Bvector_baseISaIbEED2Ev(v85);
  v_exc = 1; return;
}

void _ZNSt13_Bvector_baseISaIbEED2Ev(struct S35_struct_std___Bvector_base* a0) {
  u64** v0;
  u64* v1;
  u1 v2;
  u64** v3;
  u64* v4;
  u64 v5;
  u64 v6;
  u64 v7;
  u64 v8;
  u64 v9;
  u64* v10;
  u8* v11;
  u32* v12;
  u64** v13;
  u32* v14;
L0: ;
  v0 = (u64**)(&(*a0).f0.f0.f0.f0.f0);
  v1 = *v0;
  v2 = ((u8*)v1 == (u8*)((u64*)0));
  if (v2) {
    goto L2;
  } else {
    goto L1;
  }
L1: ;
  v3 = (u64**)(&(*a0).f0.f0.f2);
  v4 = *v3;
  v5 = ((u64)((u64)v4));
  v6 = ((u64)((u64)v1));
  v7 = v_pdiff((u8*)v4, (u8*)v1);
  v8 = ((u64)(((s64)v7) >> ((u64)3ULL)));
  v9 = ((u64)(((u64)0ULL) - v8));
  v10 = (u64*)(v4 + (s64)((s64)v9));
  v11 = (u8*)v10;
  _ZdlPv(v11);
  *v0 = ((u64*)0);
  v12 = (u32*)(&(*a0).f0.f0.f0.f0.f1);
  *v12 = ((u32)0ULL);
  v13 = (u64**)(&(*a0).f0.f0.f1.f0.f0);
  *v13 = ((u64*)0);
  v14 = (u32*)(&(*a0).f0.f0.f1.f0.f1);
  *v14 = ((u32)0ULL);
  *v3 = ((u64*)0);
  goto L2;
L2: ;
  return;
}

struct S36 _ZNSt8_Rb_treeIPN14OpenVolumeMesh19PropertyStorageBaseES2_St9_IdentityIS2_ESt4lessIS2_ESaIS2_EE16_M_insert_uniqueIRKS2_EESt4pairISt17_Rb_tree_iteratorIS2_EbEOT_(struct S16_class_std___Rb_tree_5* a0, struct S22_class_OpenVolumeMesh__PropertyStorageBas** a1) {
  u8* v0;
  u8* v1;
  struct S21_struct_std___Rb_tree_node** v2;
  u8* v3;
  struct S17_struct_std___Rb_tree_node_base* v4;
  struct S21_struct_std___Rb_tree_node* v5;
  u1 v6;
  struct S22_class_OpenVolumeMesh__PropertyStorageBas* v7;
  struct S21_struct_std___Rb_tree_node* v8; struct S21_struct_std___Rb_tree_node* v8_t;
  struct S66_struct___gnu_cxx____aligned_membuf* v9;
  struct S22_class_OpenVolumeMesh__PropertyStorageBas** v10;
  struct S22_class_OpenVolumeMesh__PropertyStorageBas* v11;
  u1 v12;
  struct S17_struct_std___Rb_tree_node_base** v13;
  struct S17_struct_std___Rb_tree_node_base** v14;
  struct S17_struct_std___Rb_tree_node_base** v15;
  struct S21_struct_std___Rb_tree_node** v16;
  struct S21_struct_std___Rb_tree_node* v17;
  u1 v18;
  struct S17_struct_std___Rb_tree_node_base* v19;
  struct S17_struct_std___Rb_tree_node_base* v20; struct S17_struct_std___Rb_tree_node_base* v20_t;
  u1 v21; u1 v21_t;
  struct S21_struct_std___Rb_tree_node* v22; struct S21_struct_std___Rb_tree_node* v22_t;
  u8* v23;
  struct S17_struct_std___Rb_tree_node_base** v24;
  struct S17_struct_std___Rb_tree_node_base* v25;
  u1 v26;
  struct S17_struct_std___Rb_tree_node_base* v27;
  struct S17_struct_std___Rb_tree_node_base* v28;
  struct S17_struct_std___Rb_tree_node_base* v29; struct S17_struct_std___Rb_tree_node_base* v29_t;
  struct S17_struct_std___Rb_tree_node_base* v30;
  struct S22_class_OpenVolumeMesh__PropertyStorageBas** v31;
  struct S22_class_OpenVolumeMesh__PropertyStorageBas* v32;
  struct S22_class_OpenVolumeMesh__PropertyStorageBas* v33;
  u1 v34;
  struct S17_struct_std___Rb_tree_node_base* v35;
  struct S17_struct_std___Rb_tree_node_base* v36;
  struct S17_struct_std___Rb_tree_node_base* v37;
  struct S17_struct_std___Rb_tree_node_base* v38; struct S17_struct_std___Rb_tree_node_base* v38_t;
  struct S17_struct_std___Rb_tree_node_base* v39; struct S17_struct_std___Rb_tree_node_base* v39_t;
  u1 v40;
  u1 v41;
  u1 v42;
  u1 v43;
  struct S22_class_OpenVolumeMesh__PropertyStorageBas* v44;
  struct S17_struct_std___Rb_tree_node_base* v45;
  struct S22_class_OpenVolumeMesh__PropertyStorageBas** v46;
  struct S22_class_OpenVolumeMesh__PropertyStorageBas* v47;
  u1 v48;
  u1 v49; u1 v49_t;
  u8* v50;
  struct S21_struct_std___Rb_tree_node* v51;
  struct S66_struct___gnu_cxx____aligned_membuf* v52;
  struct S22_class_OpenVolumeMesh__PropertyStorageBas** v53;
  struct S22_class_OpenVolumeMesh__PropertyStorageBas* v54;
  struct S17_struct_std___Rb_tree_node_base* v55;
  u8* v56;
  u64* v57;
  u64 v58;
  u64 v59;
  struct S17_struct_std___Rb_tree_node_base* v60; struct S17_struct_std___Rb_tree_node_base* v60_t;
  u8 v61; u8 v61_t;
  struct S36 v62;
  struct S36 v63;
L0: ;
  v0 = (u8*)(&(*a0).f0.f0.f0.f0);
  v1 = (u8*)&(*a0).f0.f1.f0.f1;
  v2 = (struct S21_struct_std___Rb_tree_node**)&(*a0).f0.f1.f0.f1;
  v3 = (u8*)&(*a0).f0.f1.f0.f0;
  v4 = (struct S17_struct_std___Rb_tree_node_base*)&(*a0).f0.f1.f0;
  v5 = *v2;
  v6 = ((u8*)v5 == (u8*)((struct S21_struct_std___Rb_tree_node*)0));
  if (v6) {
    v20_t = v4;
    v21_t = ((u1)1ULL);
    v22_t = v5;
    v20 = v20_t;
    v21 = v21_t;
    v22 = v22_t;
    goto L4;
  } else {
    goto L1;
  }
L1: ;
  v7 = *a1;
  v8 = v5;
  goto L2;
L2: ;
  v9 = (struct S66_struct___gnu_cxx____aligned_membuf*)(&(*v8).f1);
  v10 = (struct S22_class_OpenVolumeMesh__PropertyStorageBas**)v9;
  v11 = *v10;
  v12 = v_plt((u8*)v7, (u8*)v11);
  v13 = (struct S17_struct_std___Rb_tree_node_base**)(&(*v8).f0.f2);
  v14 = (struct S17_struct_std___Rb_tree_node_base**)(&(*v8).f0.f3);
  v15 = (v12 ? v13 : v14);
  v16 = (struct S21_struct_std___Rb_tree_node**)v15;
  v17 = *v16;
  v18 = ((u8*)v17 == (u8*)((struct S21_struct_std___Rb_tree_node*)0));
  if (v18) {
    goto L3;
  } else {
    v8 = v17;
    goto L2;
  }
L3: ;
  v19 = (struct S17_struct_std___Rb_tree_node_base*)(&(*v8).f0);
  v20_t = v19;
  v21_t = v12;
  v22_t = v17;
  v20 = v20_t;
  v21 = v21_t;
  v22 = v22_t;
  goto L4;
L4: ;
  if (v21) {
    goto L5;
  } else {
    v29 = v20;
    goto L8;
  }
L5: ;
  v23 = (u8*)&(*a0).f0.f1.f0.f2;
  v24 = (struct S17_struct_std___Rb_tree_node_base**)&(*a0).f0.f1.f0.f2;
  v25 = *v24;
  v26 = ((u8*)v20 == (u8*)v25);
  if (v26) {
    goto L6;
  } else {
    goto L7;
  }
L6: ;
  v27 = (struct S17_struct_std___Rb_tree_node_base*)(&(*v22).f0);
  v38_t = v27;
  v39_t = v20;
  v38 = v38_t;
  v39 = v39_t;
  goto L9;
L7: ;
  v28 = _ZSt18_Rb_tree_decrementPSt18_Rb_tree_node_base(v20);
  v29 = v28;
  goto L8;
L8: ;
  v30 = (struct S17_struct_std___Rb_tree_node_base*)(v29 + (s64)((s64)((u64)1ULL)));
  v31 = (struct S22_class_OpenVolumeMesh__PropertyStorageBas**)v30;
  v32 = *v31;
  v33 = *a1;
  v34 = v_plt((u8*)v32, (u8*)v33);
  v35 = (struct S17_struct_std___Rb_tree_node_base*)(&(*v22).f0);
  v36 = (v34 ? v35 : v29);
  v37 = (v34 ? v20 : ((struct S17_struct_std___Rb_tree_node_base*)0));
  v38_t = v36;
  v39_t = v37;
  v38 = v38_t;
  v39 = v39_t;
  goto L9;
L9: ;
  v40 = ((u8*)v39 == (u8*)((struct S17_struct_std___Rb_tree_node_base*)0));
  if (v40) {
    v60_t = v38;
    v61_t = ((u8)0ULL);
    v60 = v60_t;
    v61 = v61_t;
    goto L13;
  } else {
    goto L10;
  }
L10: ;
  v41 = ((u8*)v38 != (u8*)((struct S17_struct_std___Rb_tree_node_base*)0));
  v42 = ((u8*)v39 == (u8*)v4);
  v43 = (v41 ? ((u1)1ULL) : v42);
  if (v43) {
    v49 = ((u1)1ULL);
    goto L12;
  } else {
    goto L11;
  }
L11: ;
  v44 = *a1;
  v45 = (struct S17_struct_std___Rb_tree_node_base*)(v39 + (s64)((s64)((u64)1ULL)));
  v46 = (struct S22_class_OpenVolumeMesh__PropertyStorageBas**)v45;
  v47 = *v46;
  v48 = v_plt((u8*)v44, (u8*)v47);
  v49 = v48;
  goto L12;
L12: ;
  v50 = (u8*)((((u64)40ULL) % sizeof(struct S21_struct_std___Rb_tree_node) == 0) ? __CPROVER_allocate(sizeof(struct S21_struct_std___Rb_tree_node) * (((u64)40ULL) / sizeof(struct S21_struct_std___Rb_tree_node)), 0) : __CPROVER_allocate(((u64)40ULL), 0));
  v_alloc_note((u8*)v50);
  v51 = (struct S21_struct_std___Rb_tree_node*)v50;
  v52 = (struct S66_struct___gnu_cxx____aligned_membuf*)(&(*v51).f1);
  v53 = (struct S22_class_OpenVolumeMesh__PropertyStorageBas**)v52;
  v54 = *a1;
  *v53 = v54;
  v55 = (struct S17_struct_std___Rb_tree_node_base*)(&(*v51).f0);
  _ZSt29_Rb_tree_insert_and_rebalancebPSt18_Rb_tree_node_baseS0_RS_(v49, v55, v39, v4);
  v56 = (u8*)&(*a0).f0.f1.f1;
  v57 = (u64*)&(*a0).f0.f1.f1;
  v58 = *v57;
  v59 = ((u64)(v58 + ((u64)1ULL)));
  *v57 = v59;
  v60_t = v55;
  v61_t = ((u8)1ULL);
  v60 = v60_t;
  v61 = v61_t;
  goto L13;
L13: ;
  v62.f0 = v60;
  v63 = v62;
  v63.f1 = v61;
  return v63;
}

void _ZNSt23enable_shared_from_thisIN14OpenVolumeMesh19PropertyStorageBaseEED2Ev(struct S37_class_std__enable_shared_from_this* a0) {
  struct S20_class_std___Sp_counted_base** v0;
  struct S20_class_std___Sp_counted_base* v1;
  u1 v2;
  u32* v3;
  u8 v4;
  u1 v5;
  u32 v6;
  u32 v7;
  u32 v8;
  u32 v9;
  u32 v10; u32 v10_t;
  u1 v11;
  fnptr_t** v12;
  fnptr_t* v13;
  fnptr_t* v14;
  fnptr_t v15;
L0: ;
  v0 = (struct S20_class_std___Sp_counted_base**)(&(*a0).f0.f0.f1.f0);
  v1 = *v0;
  v2 = ((u8*)v1 == (u8*)((struct S20_class_std___Sp_counted_base*)0));
  if (v2) {
    goto L6;
  } else {
    goto L1;
  }
L1: ;
  v3 = (u32*)(&(*v1).f2);
  v4 = *(&__libc_single_threaded);
  v5 = (v4 == ((u8)0ULL));
  if (v5) {
    goto L3;
  } else {
    goto L2;
  }
L2: ;
  v6 = *v3;
  v7 = ((u32)(v6 + ((u32)4294967295ULL)));
  *v3 = v7;
  v10 = v6;
  goto L4;
L3: ;
  v8 = *v3;
  v9 = ((u32)(v8 + ((u32)4294967295ULL)));
  *v3 = v9;
  v10 = v8;
  goto L4;
L4: ;
  v11 = (v10 == ((u32)1ULL));
  if (v11) {
    goto L5;
  } else {
    goto L6;
  }
L5: ;
  v12 = (fnptr_t**)&(*v1).f0;
  v13 = *v12;
  v14 = (fnptr_t*)(v13 + (s64)((s64)((u64)3ULL)));
  v15 = *v14;
  ((FT1)v15)(v1);
  goto L6;
L6: ;
  return;
}

void _ZNSt16_Sp_counted_baseILN9__gnu_cxx12_Lock_policyE2EED2Ev(struct S20_class_std___Sp_counted_base* a0) {
L0: ;
  return;
}

void _ZNSt23_Sp_counted_ptr_inplaceIN14OpenVolumeMesh16PropertyStorageTIbEESaIvELN9__gnu_cxx12_Lock_policyE2EED0Ev(struct S38_class_std___Sp_counted_ptr_inplace* a0) {
  u8* v0;
L0: ;
  v0 = (u8*)a0;
  _ZdlPv(v0);
  return;
}

void _ZNSt23_Sp_counted_ptr_inplaceIN14OpenVolumeMesh16PropertyStorageTIbEESaIvELN9__gnu_cxx12_Lock_policyE2EE10_M_disposeEv(struct S38_class_std___Sp_counted_ptr_inplace* a0) {
  struct S71_struct___gnu_cxx____aligned_buffer* v0;
  struct S12_class_OpenVolumeMesh__PropertyStorageT* v1;
  fnptr_t** v2;
  fnptr_t* v3;
  fnptr_t v4;
L0: ;
  v0 = (struct S71_struct___gnu_cxx____aligned_buffer*)(&(*a0).f1.f0);
  v1 = (struct S12_class_OpenVolumeMesh__PropertyStorageT*)&(*a0).f1.f0.f0;
  v2 = (fnptr_t**)&(*a0).f1.f0.f0.f0.f0.f0;
  v3 = *v2;
  v4 = *v3;
  ((FT3)v4)(v1);
  return;
}

void _ZNSt23_Sp_counted_ptr_inplaceIN14OpenVolumeMesh16PropertyStorageTIbEESaIvELN9__gnu_cxx12_Lock_policyE2EE10_M_destroyEv(struct S38_class_std___Sp_counted_ptr_inplace* a0) {
  u8* v0;
L0: ;
  v0 = (u8*)a0;
  _ZdlPv(v0);
  return;
}

u8* _ZNSt23_Sp_counted_ptr_inplaceIN14OpenVolumeMesh16PropertyStorageTIbEESaIvELN9__gnu_cxx12_Lock_policyE2EE14_M_get_deleterERKSt9type_info(struct S38_class_std___Sp_counted_ptr_inplace* a0, struct S39_class_std__type_info* a1) {
  u1 v0;
  u8** v1;
  u8* v2;
  u1 v3;
  u8 v4;
  u1 v5;
  u32 v6;
  u1 v7;
  u8* v8;
  u8* v9; u8* v9_t;
L0: ;
  v0 = ((u8*)a1 == (u8*)((struct S39_class_std__type_info*)(&_ZZNSt19_Sp_make_shared_tag5_S_tiEvE5__tag)));
  if (v0) {
    goto L4;
  } else {
    goto L1;
  }
L1: ;
  v1 = (u8**)(&(*a1).f1);
  v2 = *v1;
  v3 = ((u8*)v2 == (u8*)((u8*)(&(*(&_ZTSSt19_Sp_make_shared_tag)).e[(s64)((s64)((u64)0ULL))])));
  if (v3) {
    goto L4;
  } else {
    goto L2;
  }
L2: ;
  v4 = *v2;
  v5 = (v4 == ((u8)42ULL));
  if (v5) {
    v9 = ((u8*)0);
    goto L5;
  } else {
    goto L3;
  }
L3: ;
  v6 = strcmp(v2, ((u8*)(&(*(&_ZTSSt19_Sp_make_shared_tag)).e[(s64)((s64)((u64)0ULL))])));
  v7 = (v6 == ((u32)0ULL));
  if (v7) {
    goto L4;
  } else {
    v9 = ((u8*)0);
    goto L5;
  }
L4: ;
  v8 = (u8*)(&(*a0).f1.f0.f0.f0.f0.f0);
  v9 = v8;
  goto L5;
L5: ;
  return v9;
}

void _ZNSt16_Sp_counted_baseILN9__gnu_cxx12_Lock_policyE2EED0Ev(struct S20_class_std___Sp_counted_base* a0) {
L0: ;
  __CPROVER_assert(0, "llvm.trap"); __CPROVER_assume(0);
  __CPROVER_assume(0);
}

void _ZNSt16_Sp_counted_baseILN9__gnu_cxx12_Lock_policyE2EE10_M_destroyEv(struct S20_class_std___Sp_counted_base* a0) {
  fnptr_t** v0;
  fnptr_t* v1;
  fnptr_t* v2;
  fnptr_t v3;
L0: ;
  v0 = (fnptr_t**)&(*a0).f0;
  v1 = *v0;
  v2 = (fnptr_t*)(v1 + (s64)((s64)((u64)1ULL)));
  v3 = *v2;
  ((FT1)v3)(a0);
  return;
}

void _ZNSt6vectorIbSaIbEE13_M_insert_auxESt13_Bit_iteratorb(struct S15_class_std__vector_46* a0, u64* a1, u32 a2, u1 a3) {
  u64** v0;
  u64* v1;
  u64** v2;
  u64* v3;
  u1 v4;
  u64** v5;
  u32* v6;
  u32 v7;
  u32* v8;
  u64 v9;
  u64 v10;
  u64 v11;
  u64 v12;
  u64 v13;
  u64 v14;
  u64 v15;
  u64 v16;
  u64 v17;
  u64 v18;
  u1 v19;
  u32 v20;
  u32 v21;
  u64 v22;
  u64* v23;
  u64 v24; u64 v24_t;
  u32 v25; u32 v25_t;
  u64* v26; u64* v26_t;
  u32 v27; u32 v27_t;
  u64* v28; u64* v28_t;
  u32 v29;
  u1 v30;
  u64 v31;
  u64* v32;
  u32 v33;
  u64 v34;
  u64 v35;
  u32 v36;
  u1 v37;
  u64 v38;
  u64* v39;
  u32 v40;
  u64 v41;
  u64 v42;
  u64 v43;
  u64 v44;
  u1 v45;
  u64 v46;
  u64 v47;
  u64 v48;
  u64 v49;
  u64 v50;
  u64 v51; u64 v51_t;
  u64 v52;
  u1 v53;
  u64 v54;
  u64 v55;
  u64 v56;
  u64 v57;
  u64 v58;
  u64 v59;
  u64 v60; u64 v60_t;
  u32 v61;
  u1 v62;
  u64* v63;
  u64** v64;
  u64* v65;
  u64 v66;
  u64 v67;
  u64 v68;
  u64 v69;
  u64 v70;
  u64 v71;
  u1 v72;
  u1 v73;
  u64 v74;
  u64 v75;
  u1 v76;
  u1 v77;
  u1 v78;
  u64 v79;
  u64 v80;
  u64 v81;
  u64 v82;
  u8* v83;
  u64* v84;
  u64 v85;
  u64 v86;
  u1 v87;
  u8* v88;
  u64 v89;
  u64* v90;
  u1 v91;
  u64 v92;
  u64 v93; u64 v93_t;
  u32 v94; u32 v94_t;
  u64* v95; u64* v95_t;
  u64* v96; u64* v96_t;
  u32 v97; u32 v97_t;
  u64 v98;
  u64 v99;
  u64 v100;
  u64 v101;
  u1 v102;
  u64 v103;
  u64 v104;
  u64 v105;
  u64 v106;
  u64 v107;
  u64 v108;
  u64 v109;
  u64 v110; u64 v110_t;
  u32 v111;
  u1 v112;
  u64 v113;
  u64* v114;
  u32 v115;
  u32 v116;
  u1 v117;
  u32 v118;
  u64 v119;
  u64* v120;
  u64 v121;
  u1 v122;
  u32 v123; u32 v123_t;
  u64* v124; u64* v124_t;
  u32 v125;
  u1 v126;
  u64 v127;
  u64* v128;
  u32 v129;
  u64 v130;
  u64 v131;
  u64 v132;
  u64 v133;
  u64 v134;
  u64 v135;
  u64 v136;
  u64 v137; u64 v137_t;
  u64* v138;
  u32 v139;
  u64 v140;
  u64 v141;
  u64 v142;
  u64 v143;
  u64 v144;
  u64 v145;
  u64 v146;
  u1 v147;
  u64 v148; u64 v148_t;
  u32 v149; u32 v149_t;
  u64* v150; u64* v150_t;
  u32 v151; u32 v151_t;
  u64* v152; u64* v152_t;
  u64 v153;
  u64 v154;
  u64 v155;
  u64 v156;
  u64 v157;
  u64 v158;
  u1 v159;
  u64 v160;
  u64 v161;
  u64 v162;
  u64 v163;
  u64 v164;
  u64 v165; u64 v165_t;
  u32 v166;
  u1 v167;
  u64 v168;
  u64* v169;
  u32 v170;
  u32 v171;
  u1 v172;
  u64 v173;
  u64* v174;
  u32 v175;
  u64 v176;
  u1 v177;
  u64* v178; u64* v178_t;
  u32 v179; u32 v179_t;
  u64** v180;
  u64* v181;
  u1 v182;
  u64** v183;
  u64* v184;
  u64 v185;
  u64 v186;
  u64 v187;
  u64 v188;
  u64 v189;
  u64* v190;
  u8* v191;
  u32* v192;
  u64** v193;
  u32* v194;
  u64 v195;
  u64* v196;
  u64** v197;
  u8** v198;
  u32* v199;
L0: ;
  v0 = (u64**)(&(*a0).f0.f0.f0.f1.f0.f0);
  v1 = *v0;
  v2 = (u64**)(&(*a0).f0.f0.f0.f2);
  v3 = *v2;
  v4 = ((u8*)v1 == (u8*)v3);
  v5 = (u64**)(&(*a0).f0.f0.f0.f1.f0.f0);
  v6 = (u32*)(&(*a0).f0.f0.f0.f1.f0.f1);
  v7 = *v6;
  if (v4) {
    goto L12;
  } else {
    goto L1;
  }
L1: ;
  v8 = (u32*)(&(*a0).f0.f0.f0.f1.f0.f1);
  v9 = ((u64)(v7));
  v10 = ((u64)(v9 + ((u64)1ULL)));
  v11 = ((u64)((u64)v1));
  v12 = ((u64)((u64)a1));
  v13 = v_pdiff((u8*)v1, (u8*)a1);
  v14 = ((u64)(v13 << ((u64)3ULL)));
  v15 = ((u64)(v7));
  v16 = ((u64)(a2));
  v17 = ((u64)(v15 - v16));
  v18 = ((u64)(v17 + v14));
  v19 = (((s64)v18) > ((s64)((u64)0ULL)));
  if (v19) {
    goto L2;
  } else {
    goto L7;
  }
L2: ;
  v20 = ((u32)(v10));
  v21 = ((u32)(v20 & ((u32)63ULL)));
  v22 = ((u64)(v10 >> ((u64)6ULL)));
  v23 = (u64*)(v1 + (s64)((s64)v22));
  v24_t = v18;
  v25_t = v7;
  v26_t = v1;
  v27_t = v21;
  v28_t = v23;
  v24 = v24_t;
  v25 = v25_t;
  v26 = v26_t;
  v27 = v27_t;
  v28 = v28_t;
  goto L3;
L3: ;
  v29 = ((u32)(v25 + ((u32)4294967295ULL)));
  v30 = (v25 == ((u32)0ULL));
  v31 = ((u64)(((s64)-(s64)(v30))));
  v32 = (u64*)(v26 + (s64)((s64)v31));
  v33 = (v30 ? ((u32)63ULL) : v29);
  v34 = ((u64)(v33));
  v35 = ((u64)(((u64)1ULL) << v34));
  v36 = ((u32)(v27 + ((u32)4294967295ULL)));
  v37 = (v27 == ((u32)0ULL));
  v38 = ((u64)(((s64)-(s64)(v37))));
  v39 = (u64*)(v28 + (s64)((s64)v38));
  v40 = (v37 ? ((u32)63ULL) : v36);
  v41 = ((u64)(v40));
  v42 = ((u64)(((u64)1ULL) << v41));
  v43 = *v32;
  v44 = ((u64)(v43 & v35));
  v45 = (v44 == ((u64)0ULL));
  if (v45) {
    goto L5;
  } else {
    goto L4;
  }
L4: ;
  v46 = *v39;
  v47 = ((u64)(v46 | v42));
  v51 = v47;
  goto L6;
L5: ;
  v48 = ((u64)(v42 ^ ((u64)18446744073709551615ULL)));
  v49 = *v39;
  v50 = ((u64)(v49 & v48));
  v51 = v50;
  goto L6;
L6: ;
  *v39 = v51;
  v52 = ((u64)(v24 + ((u64)18446744073709551615ULL)));
  v53 = (((s64)v24) > ((s64)((u64)1ULL)));
  if (v53) {
    v24_t = v52;
    v25_t = v33;
    v26_t = v32;
    v27_t = v40;
    v28_t = v39;
    v24 = v24_t;
    v25 = v25_t;
    v26 = v26_t;
    v27 = v27_t;
    v28 = v28_t;
    goto L3;
  } else {
    goto L7;
  }
L7: ;
  v54 = ((u64)(((u64)1ULL) << v16));
  if (a3) {
    goto L8;
  } else {
    goto L9;
  }
L8: ;
  v55 = *a1;
  v56 = ((u64)(v55 | v54));
  v60 = v56;
  goto L10;
L9: ;
  v57 = ((u64)(v54 ^ ((u64)18446744073709551615ULL)));
  v58 = *a1;
  v59 = ((u64)(v58 & v57));
  v60 = v59;
  goto L10;
L10: ;
  *a1 = v60;
  v61 = ((u32)(v7 + ((u32)1ULL)));
  *v8 = v61;
  v62 = (v7 == ((u32)63ULL));
  if (v62) {
    goto L11;
  } else {
    goto L33;
  }
L11: ;
  *v8 = ((u32)0ULL);
  v63 = (u64*)(v1 + (s64)((s64)((u64)1ULL)));
  *v0 = v63;
  goto L33;
L12: ;
  v64 = (u64**)(&(*a0).f0.f0.f0.f0.f0.f0);
  v65 = *v64;
  v66 = ((u64)((u64)v1));
  v67 = ((u64)((u64)v65));
  v68 = v_pdiff((u8*)v1, (u8*)v65);
  v69 = ((u64)(v68 << ((u64)3ULL)));
  v70 = ((u64)(v7));
  v71 = ((u64)(v69 + v70));
  v72 = (v71 == ((u64)9223372036854775744ULL));
  if (v72) {
    goto L13;
  } else {
    goto L14;
  }
L13: ;
  _ZSt20__throw_length_errorPKc(((u8*)(&(*(&_str_16)).e[(s64)((s64)((u64)0ULL))])));
  if (v_exc) return;
  __CPROVER_assume(0);
L14: ;
  v73 = (v71 == ((u64)0ULL));
  v74 = (v73 ? ((u64)1ULL) : v71);
  v75 = ((u64)(v74 + v71));
  v76 = (v75 < v71);
  v77 = (v75 > ((u64)9223372036854775744ULL));
  v78 = ((u1)((v76 | v77)&1));
  v79 = ((u64)(v75 + ((u64)63ULL)));
  v80 = (v78 ? ((u64)9223372036854775807ULL) : v79);
  v81 = ((u64)(v80 >> ((u64)3ULL)));
  v82 = ((u64)(v81 & ((u64)2305843009213693944ULL)));
  v83 = (u8*)((v82 % sizeof(u64) == 0) ? __CPROVER_allocate(sizeof(u64) * (v82 / sizeof(u64)), 1) : __CPROVER_allocate(v82, 0));
  v84 = (u64*)v83;
  v85 = ((u64)((u64)a1));
  v86 = v_pdiff((u8*)a1, (u8*)v65);
  v87 = (v86 == ((u64)0ULL));
  if (v87) {
    goto L16;
  } else {
    goto L15;
  }
L15: ;
  v88 = (u8*)v65;
  v_memmove((u8*)v83, (u8*)v88, (u64)v86);
  goto L16;
L16: ;
  v89 = ((u64)(((s64)v86) >> ((u64)3ULL)));
  v90 = (u64*)(v84 + (s64)((s64)v89));
  v91 = (a2 == ((u32)0ULL));
  if (v91) {
    v123_t = ((u32)0ULL);
    v124_t = v90;
    v123 = v123_t;
    v124 = v124_t;
    goto L22;
  } else {
    goto L17;
  }
L17: ;
  v92 = ((u64)(a2));
  v93_t = v92;
  v94_t = ((u32)0ULL);
  v95_t = a1;
  v96_t = v90;
  v97_t = ((u32)0ULL);
  v93 = v93_t;
  v94 = v94_t;
  v95 = v95_t;
  v96 = v96_t;
  v97 = v97_t;
  goto L18;
L18: ;
  v98 = ((u64)(v94));
  v99 = ((u64)(((u64)1ULL) << v98));
  v100 = *v95;
  v101 = ((u64)(v100 & v99));
  v102 = (v101 == ((u64)0ULL));
  v103 = ((u64)(v97));
  v104 = ((u64)(((u64)1ULL) << v103));
  if (v102) {
    goto L20;
  } else {
    goto L19;
  }
L19: ;
  v105 = *v96;
  v106 = ((u64)(v105 | v104));
  v110 = v106;
  goto L21;
L20: ;
  v107 = ((u64)(v104 ^ ((u64)18446744073709551615ULL)));
  v108 = *v96;
  v109 = ((u64)(v108 & v107));
  v110 = v109;
  goto L21;
L21: ;
  *v96 = v110;
  v111 = ((u32)(v94 + ((u32)1ULL)));
  v112 = (v94 == ((u32)63ULL));
  v113 = ((u64)(v112));
  v114 = (u64*)(v95 + (s64)((s64)v113));
  v115 = (v112 ? ((u32)0ULL) : v111);
  v116 = ((u32)(v97 + ((u32)1ULL)));
  v117 = (v97 == ((u32)63ULL));
  v118 = (v117 ? ((u32)0ULL) : v116);
  v119 = ((u64)(v117));
  v120 = (u64*)(v96 + (s64)((s64)v119));
  v121 = ((u64)(v93 + ((u64)18446744073709551615ULL)));
  v122 = (((s64)v93) > ((s64)((u64)1ULL)));
  if (v122) {
    v93_t = v121;
    v94_t = v115;
    v95_t = v114;
    v96_t = v120;
    v97_t = v118;
    v93 = v93_t;
    v94 = v94_t;
    v95 = v95_t;
    v96 = v96_t;
    v97 = v97_t;
    goto L18;
  } else {
    v123_t = v118;
    v124_t = v120;
    v123 = v123_t;
    v124 = v124_t;
    goto L22;
  }
L22: ;
  v125 = ((u32)(v123 + ((u32)1ULL)));
  v126 = (v123 == ((u32)63ULL));
  v127 = ((u64)(v126));
  v128 = (u64*)(v124 + (s64)((s64)v127));
  v129 = (v126 ? ((u32)0ULL) : v125);
  v130 = ((u64)(v123));
  v131 = ((u64)(((u64)1ULL) << v130));
  if (a3) {
    goto L23;
  } else {
    goto L24;
  }
L23: ;
  v132 = *v124;
  v133 = ((u64)(v132 | v131));
  v137 = v133;
  goto L25;
L24: ;
  v134 = ((u64)(v131 ^ ((u64)18446744073709551615ULL)));
  v135 = *v124;
  v136 = ((u64)(v135 & v134));
  v137 = v136;
  goto L25;
L25: ;
  *v124 = v137;
  v138 = *v5;
  v139 = *v6;
  v140 = ((u64)((u64)v138));
  v141 = v_pdiff((u8*)v138, (u8*)a1);
  v142 = ((u64)(v141 << ((u64)3ULL)));
  v143 = ((u64)(v139));
  v144 = ((u64)(a2));
  v145 = ((u64)(v143 - v144));
  v146 = ((u64)(v145 + v142));
  v147 = (((s64)v146) > ((s64)((u64)0ULL)));
  if (v147) {
    v148_t = v146;
    v149_t = a2;
    v150_t = a1;
    v151_t = v129;
    v152_t = v128;
    v148 = v148_t;
    v149 = v149_t;
    v150 = v150_t;
    v151 = v151_t;
    v152 = v152_t;
    goto L26;
  } else {
    v178_t = v128;
    v179_t = v129;
    v178 = v178_t;
    v179 = v179_t;
    goto L30;
  }
L26: ;
  v153 = ((u64)(v149));
  v154 = ((u64)(((u64)1ULL) << v153));
  v155 = ((u64)(v151));
  v156 = ((u64)(((u64)1ULL) << v155));
  v157 = *v150;
  v158 = ((u64)(v157 & v154));
  v159 = (v158 == ((u64)0ULL));
  if (v159) {
    goto L28;
  } else {
    goto L27;
  }
L27: ;
  v160 = *v152;
  v161 = ((u64)(v160 | v156));
  v165 = v161;
  goto L29;
L28: ;
  v162 = ((u64)(v156 ^ ((u64)18446744073709551615ULL)));
  v163 = *v152;
  v164 = ((u64)(v163 & v162));
  v165 = v164;
  goto L29;
L29: ;
  *v152 = v165;
  v166 = ((u32)(v149 + ((u32)1ULL)));
  v167 = (v149 == ((u32)63ULL));
  v168 = ((u64)(v167));
  v169 = (u64*)(v150 + (s64)((s64)v168));
  v170 = (v167 ? ((u32)0ULL) : v166);
  v171 = ((u32)(v151 + ((u32)1ULL)));
  v172 = (v151 == ((u32)63ULL));
  v173 = ((u64)(v172));
  v174 = (u64*)(v152 + (s64)((s64)v173));
  v175 = (v172 ? ((u32)0ULL) : v171);
  v176 = ((u64)(v148 + ((u64)18446744073709551615ULL)));
  v177 = (((s64)v148) > ((s64)((u64)1ULL)));
  if (v177) {
    v148_t = v176;
    v149_t = v170;
    v150_t = v169;
    v151_t = v175;
    v152_t = v174;
    v148 = v148_t;
    v149 = v149_t;
    v150 = v150_t;
    v151 = v151_t;
    v152 = v152_t;
    goto L26;
  } else {
    v178_t = v174;
    v179_t = v175;
    v178 = v178_t;
    v179 = v179_t;
    goto L30;
  }
L30: ;
  v180 = (u64**)(&(*a0).f0.f0.f0.f0.f0.f0);
  v181 = *v180;
  v182 = ((u8*)v181 == (u8*)((u64*)0));
  if (v182) {
    goto L32;
  } else {
    goto L31;
  }
L31: ;
  v183 = (u64**)(&(*a0).f0.f0.f0.f2);
  v184 = *v183;
  v185 = ((u64)((u64)v184));
  v186 = ((u64)((u64)v181));
  v187 = v_pdiff((u8*)v184, (u8*)v181);
  v188 = ((u64)(((s64)v187) >> ((u64)3ULL)));
  v189 = ((u64)(((u64)0ULL) - v188));
  v190 = (u64*)(v184 + (s64)((s64)v189));
  v191 = (u8*)v190;
  _ZdlPv(v191);
  *v180 = ((u64*)0);
  v192 = (u32*)(&(*a0).f0.f0.f0.f0.f0.f1);
  *v192 = ((u32)0ULL);
  v193 = (u64**)(&(*a0).f0.f0.f0.f1.f0.f0);
  *v193 = ((u64*)0);
  v194 = (u32*)(&(*a0).f0.f0.f0.f1.f0.f1);
  *v194 = ((u32)0ULL);
  *v183 = ((u64*)0);
  goto L32;
L32: ;
  v195 = ((u64)(v80 >> ((u64)6ULL)));
  v196 = (u64*)(v84 + (s64)((s64)v195));
  v197 = (u64**)(&(*a0).f0.f0.f0.f2);
  *v197 = v196;
  v198 = (u8**)&(*a0).f0.f0.f0.f0.f0.f0;
  *v198 = v83;
  v199 = (u32*)(&(*a0).f0.f0.f0.f0.f0.f1);
  *v199 = ((u32)0ULL);
  *v5 = v178;
  *v6 = v179;
  goto L33;
L33: ;
  return;
}

void _ZNSt6vectorIbSaIbEE13_M_reallocateEm(struct S15_class_std__vector_46* a0, u64 a1) {
  u64 v0;
  u64 v1;
  u64 v2;
  u8* v3;
  u64* v4;
  u64** v5;
  u64* v6;
  u64** v7;
  u64* v8;
  u32* v9;
  u32 v10;
  u64 v11;
  u64 v12;
  u64 v13;
  u1 v14;
  u8* v15;
  u64 v16;
  u64* v17;
  u1 v18;
  u64 v19;
  u64 v20; u64 v20_t;
  u32 v21; u32 v21_t;
  u64* v22; u64* v22_t;
  u64* v23; u64* v23_t;
  u32 v24; u32 v24_t;
  u64 v25;
  u64 v26;
  u64 v27;
  u64 v28;
  u1 v29;
  u64 v30;
  u64 v31;
  u64 v32;
  u64 v33;
  u64 v34;
  u64 v35;
  u64 v36;
  u64 v37; u64 v37_t;
  u32 v38;
  u1 v39;
  u64 v40;
  u64* v41;
  u32 v42;
  u32 v43;
  u1 v44;
  u32 v45;
  u64 v46;
  u64* v47;
  u64 v48;
  u1 v49;
  u32 v50; u32 v50_t;
  u64* v51; u64* v51_t;
  u64** v52;
  u64* v53;
  u1 v54;
  u64** v55;
  u64* v56;
  u64 v57;
  u64 v58;
  u64 v59;
  u64 v60;
  u64 v61;
  u64* v62;
  u8* v63;
  u32* v64;
  u64** v65;
  u32* v66;
  u8** v67;
  u32* v68;
  u64 v69;
  u64* v70;
  u64** v71;
L0: ;
  v0 = ((u64)(a1 + ((u64)63ULL)));
  v1 = ((u64)(v0 >> ((u64)3ULL)));
  v2 = ((u64)(v1 & ((u64)2305843009213693944ULL)));
  v3 = (u8*)((v2 % sizeof(u64) == 0) ? __CPROVER_allocate(sizeof(u64) * (v2 / sizeof(u64)), 1) : __CPROVER_allocate(v2, 0));
  v4 = (u64*)v3;
  v5 = (u64**)(&(*a0).f0.f0.f0.f0.f0.f0);
  v6 = *v5;
  v7 = (u64**)(&(*a0).f0.f0.f0.f1.f0.f0);
  v8 = *v7;
  v9 = (u32*)(&(*a0).f0.f0.f0.f1.f0.f1);
  v10 = *v9;
  v11 = ((u64)((u64)v8));
  v12 = ((u64)((u64)v6));
  v13 = v_pdiff((u8*)v8, (u8*)v6);
  v14 = (v13 == ((u64)0ULL));
  if (v14) {
    goto L2;
  } else {
    goto L1;
  }
L1: ;
  v15 = (u8*)v6;
  v_memmove((u8*)v3, (u8*)v15, (u64)v13);
  goto L2;
L2: ;
  v16 = ((u64)(((s64)v13) >> ((u64)3ULL)));
  v17 = (u64*)(v4 + (s64)((s64)v16));
  v18 = (v10 == ((u32)0ULL));
  if (v18) {
    v50_t = ((u32)0ULL);
    v51_t = v17;
    v50 = v50_t;
    v51 = v51_t;
    goto L8;
  } else {
    goto L3;
  }
L3: ;
  v19 = ((u64)(v10));
  v20_t = v19;
  v21_t = ((u32)0ULL);
  v22_t = v8;
  v23_t = v17;
  v24_t = ((u32)0ULL);
  v20 = v20_t;
  v21 = v21_t;
  v22 = v22_t;
  v23 = v23_t;
  v24 = v24_t;
  goto L4;
L4: ;
  v25 = ((u64)(v21));
  v26 = ((u64)(((u64)1ULL) << v25));
  v27 = *v22;
  v28 = ((u64)(v27 & v26));
  v29 = (v28 == ((u64)0ULL));
  v30 = ((u64)(v24));
  v31 = ((u64)(((u64)1ULL) << v30));
  if (v29) {
    goto L6;
  } else {
    goto L5;
  }
L5: ;
  v32 = *v23;
  v33 = ((u64)(v32 | v31));
  v37 = v33;
  goto L7;
L6: ;
  v34 = ((u64)(v31 ^ ((u64)18446744073709551615ULL)));
  v35 = *v23;
  v36 = ((u64)(v35 & v34));
  v37 = v36;
  goto L7;
L7: ;
  *v23 = v37;
  v38 = ((u32)(v21 + ((u32)1ULL)));
  v39 = (v21 == ((u32)63ULL));
  v40 = ((u64)(v39));
  v41 = (u64*)(v22 + (s64)((s64)v40));
  v42 = (v39 ? ((u32)0ULL) : v38);
  v43 = ((u32)(v24 + ((u32)1ULL)));
  v44 = (v24 == ((u32)63ULL));
  v45 = (v44 ? ((u32)0ULL) : v43);
  v46 = ((u64)(v44));
  v47 = (u64*)(v23 + (s64)((s64)v46));
  v48 = ((u64)(v20 + ((u64)18446744073709551615ULL)));
  v49 = (((s64)v20) > ((s64)((u64)1ULL)));
  if (v49) {
    v20_t = v48;
    v21_t = v42;
    v22_t = v41;
    v23_t = v47;
    v24_t = v45;
    v20 = v20_t;
    v21 = v21_t;
    v22 = v22_t;
    v23 = v23_t;
    v24 = v24_t;
    goto L4;
  } else {
    v50_t = v45;
    v51_t = v47;
    v50 = v50_t;
    v51 = v51_t;
    goto L8;
  }
L8: ;
  v52 = (u64**)(&(*a0).f0.f0.f0.f0.f0.f0);
  v53 = *v52;
  v54 = ((u8*)v53 == (u8*)((u64*)0));
  if (v54) {
    goto L10;
  } else {
    goto L9;
  }
L9: ;
  v55 = (u64**)(&(*a0).f0.f0.f0.f2);
  v56 = *v55;
  v57 = ((u64)((u64)v56));
  v58 = ((u64)((u64)v53));
  v59 = v_pdiff((u8*)v56, (u8*)v53);
  v60 = ((u64)(((s64)v59) >> ((u64)3ULL)));
  v61 = ((u64)(((u64)0ULL) - v60));
  v62 = (u64*)(v56 + (s64)((s64)v61));
  v63 = (u8*)v62;
  _ZdlPv(v63);
  *v52 = ((u64*)0);
  v64 = (u32*)(&(*a0).f0.f0.f0.f0.f0.f1);
  *v64 = ((u32)0ULL);
  v65 = (u64**)(&(*a0).f0.f0.f0.f1.f0.f0);
  *v65 = ((u64*)0);
  v66 = (u32*)(&(*a0).f0.f0.f0.f1.f0.f1);
  *v66 = ((u32)0ULL);
  *v55 = ((u64*)0);
  goto L10;
L10: ;
  v67 = (u8**)&(*a0).f0.f0.f0.f0.f0.f0;
  *v67 = v3;
  v68 = (u32*)(&(*a0).f0.f0.f0.f0.f0.f1);
  *v68 = ((u32)0ULL);
  *v7 = v51;
  *v9 = v50;
  v69 = ((u64)(v0 >> ((u64)6ULL)));
  v70 = (u64*)(v4 + (s64)((s64)v69));
  v71 = (u64**)(&(*a0).f0.f0.f0.f2);
  *v71 = v70;
  return;
}

void _ZNSt12__shared_ptrIN14OpenVolumeMesh19PropertyStorageBaseELN9__gnu_cxx12_Lock_policyE2EED2Ev(struct S40_class_std____weak_ptr* a0) {
  struct S20_class_std___Sp_counted_base** v0;
  struct S20_class_std___Sp_counted_base* v1;
  u1 v2;
  u32* v3;
  u64* v4;
  u64 v5;
  u1 v6;
  u32* v7;
  fnptr_t** v8;
  fnptr_t* v9;
  fnptr_t* v10;
  fnptr_t v11;
  fnptr_t* v12;
  fnptr_t* v13;
  fnptr_t v14;
  u8 v15;
  u1 v16;
  u32 v17;
  u32 v18;
  u32 v19;
  u32 v20;
  u32 v21; u32 v21_t;
  u1 v22;
L0: ;
  v0 = (struct S20_class_std___Sp_counted_base**)(&(*a0).f1.f0);
  v1 = *v0;
  v2 = ((u8*)v1 == (u8*)((struct S20_class_std___Sp_counted_base*)0));
  if (v2) {
    goto L8;
  } else {
    goto L1;
  }
L1: ;
  v3 = (u32*)(&(*v1).f1);
  v4 = (u64*)v3;
  v5 = (((u64)(*v1).f1 << 0) | ((u64)(*v1).f2 << 32));
  v6 = (v5 == ((u64)4294967297ULL));
  if (v6) {
    goto L2;
  } else {
    goto L3;
  }
L2: ;
  *v3 = ((u32)0ULL);
  v7 = (u32*)(&(*v1).f2);
  *v7 = ((u32)0ULL);
  v8 = (fnptr_t**)&(*v1).f0;
  v9 = *v8;
  v10 = (fnptr_t*)(v9 + (s64)((s64)((u64)2ULL)));
  v11 = *v10;
  ((FT1)v11)(v1);
  v12 = *v8;
  v13 = (fnptr_t*)(v12 + (s64)((s64)((u64)3ULL)));
  v14 = *v13;
  ((FT1)v14)(v1);
  goto L8;
L3: ;
  v15 = *(&__libc_single_threaded);
  v16 = (v15 == ((u8)0ULL));
  if (v16) {
    goto L5;
  } else {
    goto L4;
  }
L4: ;
  v17 = *v3;
  v18 = ((u32)(v17 + ((u32)4294967295ULL)));
  *v3 = v18;
  v21 = v17;
  goto L6;
L5: ;
  v19 = *v3;
  v20 = ((u32)(v19 + ((u32)4294967295ULL)));
  *v3 = v20;
  v21 = v19;
  goto L6;
L6: ;
  v22 = (v21 == ((u32)1ULL));
  if (v22) {
    goto L7;
  } else {
    goto L8;
  }
L7: ;
  _ZNSt16_Sp_counted_baseILN9__gnu_cxx12_Lock_policyE2EE24_M_release_last_use_coldEv(v1);
  goto L8;
L8: ;
  return;
}

void _ZNSt8_Rb_treeISt10shared_ptrIN14OpenVolumeMesh19PropertyStorageBaseEES3_St9_IdentityIS3_ESt4lessIS3_ESaIS3_EE8_M_eraseEPSt13_Rb_tree_nodeIS3_E(struct S16_class_std___Rb_tree_5* a0, struct S41_struct_std___Rb_tree_node_31* a1) {
  u1 v0;
  struct S41_struct_std___Rb_tree_node_31* v1; struct S41_struct_std___Rb_tree_node_31* v1_t;
  struct S17_struct_std___Rb_tree_node_base** v2;
  struct S41_struct_std___Rb_tree_node_31** v3;
  struct S41_struct_std___Rb_tree_node_31* v4;
  struct S17_struct_std___Rb_tree_node_base** v5;
  struct S41_struct_std___Rb_tree_node_31** v6;
  struct S41_struct_std___Rb_tree_node_31* v7;
  u8* v8;
  struct S20_class_std___Sp_counted_base** v9;
  struct S20_class_std___Sp_counted_base* v10;
  u1 v11;
  u32* v12;
  u64* v13;
  u64 v14;
  u1 v15;
  u32* v16;
  fnptr_t** v17;
  fnptr_t* v18;
  fnptr_t* v19;
  fnptr_t v20;
  fnptr_t* v21;
  fnptr_t* v22;
  fnptr_t v23;
  u8 v24;
  u1 v25;
  u32 v26;
  u32 v27;
  u32 v28;
  u32 v29;
  u32 v30; u32 v30_t;
  u1 v31;
  u8* v32;
  u1 v33;
L0: ;
  v0 = ((u8*)a1 == (u8*)((struct S41_struct_std___Rb_tree_node_31*)0));
  if (v0) {
    goto L10;
  } else {
    v1 = a1;
    goto L1;
  }
L1: ;
  v2 = (struct S17_struct_std___Rb_tree_node_base**)(&(*v1).f0.f3);
  v3 = (struct S41_struct_std___Rb_tree_node_31**)&(*v1).f0.f3;
  v4 = *v3;
  _ZNSt8_Rb_treeISt10shared_ptrIN14OpenVolumeMesh19PropertyStorageBaseEES3_St9_IdentityIS3_ESt4lessIS3_ESaIS3_EE8_M_eraseEPSt13_Rb_tree_nodeIS3_E(a0, v4);
  if (v_exc) return;
  v5 = (struct S17_struct_std___Rb_tree_node_base**)(&(*v1).f0.f2);
  v6 = (struct S41_struct_std___Rb_tree_node_31**)&(*v1).f0.f2;
  v7 = *v6;
  v8 = (u8*)(&(*v1).f1.f0.e[(s64)((s64)((u64)8ULL))]);
  v9 = (struct S20_class_std___Sp_counted_base**)v8;
  v10 = *v9;
  v11 = ((u8*)v10 == (u8*)((struct S20_class_std___Sp_counted_base*)0));
  if (v11) {
    goto L9;
  } else {
    goto L2;
  }
L2: ;
  v12 = (u32*)(&(*v10).f1);
  v13 = (u64*)v12;
  v14 = (((u64)(*v10).f1 << 0) | ((u64)(*v10).f2 << 32));
  v15 = (v14 == ((u64)4294967297ULL));
  if (v15) {
    goto L3;
  } else {
    goto L4;
  }
L3: ;
  *v12 = ((u32)0ULL);
  v16 = (u32*)(&(*v10).f2);
  *v16 = ((u32)0ULL);
  v17 = (fnptr_t**)&(*v10).f0;
  v18 = *v17;
  v19 = (fnptr_t*)(v18 + (s64)((s64)((u64)2ULL)));
  v20 = *v19;
  ((FT1)v20)(v10);
  v21 = *v17;
  v22 = (fnptr_t*)(v21 + (s64)((s64)((u64)3ULL)));
  v23 = *v22;
  ((FT1)v23)(v10);
  goto L9;
L4: ;
  v24 = *(&__libc_single_threaded);
  v25 = (v24 == ((u8)0ULL));
  if (v25) {
    goto L6;
  } else {
    goto L5;
  }
L5: ;
  v26 = *v12;
  v27 = ((u32)(v26 + ((u32)4294967295ULL)));
  *v12 = v27;
  v30 = v26;
  goto L7;
L6: ;
  v28 = *v12;
  v29 = ((u32)(v28 + ((u32)4294967295ULL)));
  *v12 = v29;
  v30 = v28;
  goto L7;
L7: ;
  v31 = (v30 == ((u32)1ULL));
  if (v31) {
    goto L8;
  } else {
    goto L9;
  }
L8: ;
  _ZNSt16_Sp_counted_baseILN9__gnu_cxx12_Lock_policyE2EE24_M_release_last_use_coldEv(v10);
  goto L9;
L9: ;
  v32 = (u8*)v1;
  _ZdlPv(v32);
  v33 = ((u8*)v7 == (u8*)((struct S41_struct_std___Rb_tree_node_31*)0));
  if (v33) {
    goto L10;
  } else {
    v1 = v7;
    goto L1;
  }
L10: ;
  return;
}

struct S42_class_std__shared_ptr_12* _ZNSt3mapINSt7__cxx1112basic_stringIcSt11char_traitsIcESaIcEEESt10shared_ptrIN14OpenVolumeMesh2IO19PropertyEncoderBaseEESt4lessIS5_ESaISt4pairIKS5_SA_EEEixEOS5_(struct S43_class_std__map* a0, struct S14_class_std____cxx11__basic_string* a1) {
  struct S45_class_std__tuple_195* v0; struct S45_class_std__tuple_195 v0_m;
  struct S0_class_std__ios_base__Init* v1; struct S0_class_std__ios_base__Init v1_m;
  u8* v2;
  u8* v3;
  struct S18_struct_std___Rb_tree_node_33** v4;
  struct S18_struct_std___Rb_tree_node_33* v5;
  u8* v6;
  struct S17_struct_std___Rb_tree_node_base* v7;
  u1 v8;
  u64* v9;
  u64 v10;
  u8** v11;
  u8* v12;
  struct S18_struct_std___Rb_tree_node_33* v13; struct S18_struct_std___Rb_tree_node_33* v13_t;
  struct S17_struct_std___Rb_tree_node_base* v14; struct S17_struct_std___Rb_tree_node_base* v14_t;
  u8* v15;
  u64* v16;
  u64 v17;
  u1 v18;
  u64 v19;
  u1 v20;
  struct S67_struct___gnu_cxx____aligned_membuf_34* v21;
  u8** v22;
  u8* v23;
  u32 v24;
  u32 v25; u32 v25_t;
  u1 v26;
  u64 v27;
  u1 v28;
  u64 v29;
  u1 v30;
  u64 v31;
  u32 v32;
  u32 v33; u32 v33_t;
  u1 v34;
  struct S17_struct_std___Rb_tree_node_base** v35;
  struct S17_struct_std___Rb_tree_node_base* v36;
  struct S17_struct_std___Rb_tree_node_base** v37;
  struct S17_struct_std___Rb_tree_node_base* v38;
  struct S17_struct_std___Rb_tree_node_base** v39;
  struct S18_struct_std___Rb_tree_node_33** v40;
  struct S18_struct_std___Rb_tree_node_33* v41;
  u1 v42;
  struct S17_struct_std___Rb_tree_node_base* v43; struct S17_struct_std___Rb_tree_node_base* v43_t;
  u1 v44;
  u64* v45;
  u64 v46;
  struct S17_struct_std___Rb_tree_node_base** v47;
  u64* v48;
  u64 v49;
  u1 v50;
  u64 v51;
  u1 v52;
  struct S17_struct_std___Rb_tree_node_base* v53;
  u8** v54;
  u8* v55;
  u8** v56;
  u8* v57;
  u32 v58;
  u32 v59; u32 v59_t;
  u1 v60;
  u64 v61;
  u1 v62;
  u64 v63;
  u1 v64;
  u64 v65;
  u32 v66;
  u32 v67; u32 v67_t;
  u1 v68;
  struct S16_class_std___Rb_tree_5* v69;
  u8* v70;
  struct S14_class_std____cxx11__basic_string** v71;
  u8* v72;
  struct S17_struct_std___Rb_tree_node_base* v73;
  struct S17_struct_std___Rb_tree_node_base* v74; struct S17_struct_std___Rb_tree_node_base* v74_t;
  struct S17_struct_std___Rb_tree_node_base* v75;
  struct S42_class_std__shared_ptr_12* v76;
L0: ;
  v0 = &v0_m;
  v1 = &v1_m;
  v2 = (u8*)(&(*a0).f0.f0.f0.f0.f0);
  v3 = (u8*)&(*a0).f0.f0.f1.f0.f1;
  v4 = (struct S18_struct_std___Rb_tree_node_33**)&(*a0).f0.f0.f1.f0.f1;
  v5 = *v4;
  v6 = (u8*)&(*a0).f0.f0.f1.f0.f0;
  v7 = (struct S17_struct_std___Rb_tree_node_base*)&(*a0).f0.f0.f1.f0;
  v8 = ((u8*)v5 == (u8*)((struct S18_struct_std___Rb_tree_node_33*)0));
  if (v8) {
    v43 = v7;
    goto L7;
  } else {
    goto L1;
  }
L1: ;
  v9 = (u64*)(&(*a1).f1);
  v10 = *v9;
  v11 = (u8**)(&(*a1).f0.f0);
  v12 = *v11;
  v13_t = v5;
  v14_t = v7;
  v13 = v13_t;
  v14 = v14_t;
  goto L2;
L2: ;
  v15 = (u8*)(&(*v13).f1.f0.e[(s64)((s64)((u64)8ULL))]);
  v16 = (u64*)v15;
  v17 = (((u64)(*v13).f1.f0.e[8] << 0) | ((u64)(*v13).f1.f0.e[9] << 8) | ((u64)(*v13).f1.f0.e[10] << 16) | ((u64)(*v13).f1.f0.e[11] << 24) | ((u64)(*v13).f1.f0.e[12] << 32) | ((u64)(*v13).f1.f0.e[13] << 40) | ((u64)(*v13).f1.f0.e[14] << 48) | ((u64)(*v13).f1.f0.e[15] << 56));
  v18 = (v17 > v10);
  v19 = (v18 ? v10 : v17);
  v20 = (v19 == ((u64)0ULL));
  if (v20) {
    v25 = ((u32)0ULL);
    goto L4;
  } else {
    goto L3;
  }
L3: ;
  v21 = (struct S67_struct___gnu_cxx____aligned_membuf_34*)(&(*v13).f1);
  v22 = (u8**)v21;
  v23 = *v22;
  v24 = memcmp(v23, v12, v19);
  v25 = v24;
  goto L4;
L4: ;
  v26 = (v25 == ((u32)0ULL));
  if (v26) {
    goto L5;
  } else {
    v33 = v25;
    goto L6;
  }
L5: ;
  v27 = ((u64)(v17 - v10));
  v28 = (((s64)v27) > ((s64)((u64)18446744071562067968ULL)));
  v29 = (v28 ? v27 : ((u64)18446744071562067968ULL));
  v30 = (((s64)v29) < ((s64)((u64)2147483647ULL)));
  v31 = (v30 ? v29 : ((u64)2147483647ULL));
  v32 = ((u32)(v31));
  v33 = v32;
  goto L6;
L6: ;
  v34 = (((s32)v33) < ((s32)((u32)0ULL)));
  v35 = (struct S17_struct_std___Rb_tree_node_base**)(&(*v13).f0.f3);
  v36 = (struct S17_struct_std___Rb_tree_node_base*)(&(*v13).f0);
  v37 = (struct S17_struct_std___Rb_tree_node_base**)(&(*v13).f0.f2);
  v38 = (v34 ? v14 : v36);
  v39 = (v34 ? v35 : v37);
  v40 = (struct S18_struct_std___Rb_tree_node_33**)v39;
  v41 = *v40;
  v42 = ((u8*)v41 == (u8*)((struct S18_struct_std___Rb_tree_node_33*)0));
  if (v42) {
    v43 = v38;
    goto L7;
  } else {
    v13_t = v41;
    v14_t = v38;
    v13 = v13_t;
    v14 = v14_t;
    goto L2;
  }
L7: ;
  v44 = ((u8*)v43 == (u8*)v7);
  if (v44) {
    goto L13;
  } else {
    goto L8;
  }
L8: ;
  v45 = (u64*)(&(*a1).f1);
  v46 = *v45;
  v47 = (struct S17_struct_std___Rb_tree_node_base**)(&(v43)[(s64)((s64)((u64)1ULL))].f1);
  v48 = (u64*)v47;
  v49 = *v48;
  v50 = (v46 > v49);
  v51 = (v50 ? v49 : v46);
  v52 = (v51 == ((u64)0ULL));
  if (v52) {
    v59 = ((u32)0ULL);
    goto L10;
  } else {
    goto L9;
  }
L9: ;
  v53 = (struct S17_struct_std___Rb_tree_node_base*)(v43 + (s64)((s64)((u64)1ULL)));
  v54 = (u8**)v53;
  v55 = *v54;
  v56 = (u8**)(&(*a1).f0.f0);
  v57 = *v56;
  v58 = memcmp(v57, v55, v51);
  v59 = v58;
  goto L10;
L10: ;
  v60 = (v59 == ((u32)0ULL));
  if (v60) {
    goto L11;
  } else {
    v67 = v59;
    goto L12;
  }
L11: ;
  v61 = ((u64)(v46 - v49));
  v62 = (((s64)v61) > ((s64)((u64)18446744071562067968ULL)));
  v63 = (v62 ? v61 : ((u64)18446744071562067968ULL));
  v64 = (((s64)v63) < ((s64)((u64)2147483647ULL)));
  v65 = (v64 ? v63 : ((u64)2147483647ULL));
  v66 = ((u32)(v65));
  v67 = v66;
  goto L12;
L12: ;
  v68 = (((s32)v67) < ((s32)((u32)0ULL)));
  if (v68) {
    goto L13;
  } else {
    v74 = v43;
    goto L14;
  }
L13: ;
  v69 = (struct S16_class_std___Rb_tree_5*)(&(*a0).f0);
  v70 = (u8*)v0;
  v71 = (struct S14_class_std____cxx11__basic_string**)(&(*v0).f0.f0.f0);
  *v71 = a1;
  v72 = (u8*)(&(*v1).f0);
  v73 = _ZNSt8_Rb_treeINSt7__cxx1112basic_stringIcSt11char_traitsIcESaIcEEESt4pairIKS5_St10shared_ptrIN14OpenVolumeMesh2IO19PropertyEncoderBaseEEESt10_Select1stISD_ESt4lessIS5_ESaISD_EE22_M_emplace_hint_uniqueIJRKSt21piecewise_construct_tSt5tupleIJOS5_EESO_IJEEEEESt17_Rb_tree_iteratorISD_ESt23_Rb_tree_const_iteratorISD_EDpOT_(v69, v43, (&_ZSt19piecewise_construct), v0, v1);
  if (v_exc) return (struct S42_class_std__shared_ptr_12*)0;
  v74 = v73;
  goto L14;
L14: ;
  v75 = (struct S17_struct_std___Rb_tree_node_base*)(v74 + (s64)((s64)((u64)2ULL)));
  v76 = (struct S42_class_std__shared_ptr_12*)v75;
  return v76;
}

struct S44_class_std__shared_ptr* _ZNSt3mapINSt7__cxx1112basic_stringIcSt11char_traitsIcESaIcEEESt10shared_ptrIN14OpenVolumeMesh2IO19PropertyDecoderBaseEESt4lessIS5_ESaISt4pairIKS5_SA_EEEixERSE_(struct S43_class_std__map* a0, struct S14_class_std____cxx11__basic_string* a1) {
  struct S45_class_std__tuple_195* v0; struct S45_class_std__tuple_195 v0_m;
  struct S0_class_std__ios_base__Init* v1; struct S0_class_std__ios_base__Init v1_m;
  u8* v2;
  u8* v3;
  struct S18_struct_std___Rb_tree_node_33** v4;
  struct S18_struct_std___Rb_tree_node_33* v5;
  u8* v6;
  struct S17_struct_std___Rb_tree_node_base* v7;
  u1 v8;
  u64* v9;
  u64 v10;
  u8** v11;
  u8* v12;
  struct S18_struct_std___Rb_tree_node_33* v13; struct S18_struct_std___Rb_tree_node_33* v13_t;
  struct S17_struct_std___Rb_tree_node_base* v14; struct S17_struct_std___Rb_tree_node_base* v14_t;
  u8* v15;
  u64* v16;
  u64 v17;
  u1 v18;
  u64 v19;
  u1 v20;
  struct S67_struct___gnu_cxx____aligned_membuf_34* v21;
  u8** v22;
  u8* v23;
  u32 v24;
  u32 v25; u32 v25_t;
  u1 v26;
  u64 v27;
  u1 v28;
  u64 v29;
  u1 v30;
  u64 v31;
  u32 v32;
  u32 v33; u32 v33_t;
  u1 v34;
  struct S17_struct_std___Rb_tree_node_base** v35;
  struct S17_struct_std___Rb_tree_node_base* v36;
  struct S17_struct_std___Rb_tree_node_base** v37;
  struct S17_struct_std___Rb_tree_node_base* v38;
  struct S17_struct_std___Rb_tree_node_base** v39;
  struct S18_struct_std___Rb_tree_node_33** v40;
  struct S18_struct_std___Rb_tree_node_33* v41;
  u1 v42;
  struct S17_struct_std___Rb_tree_node_base* v43; struct S17_struct_std___Rb_tree_node_base* v43_t;
  u1 v44;
  u64* v45;
  u64 v46;
  struct S17_struct_std___Rb_tree_node_base** v47;
  u64* v48;
  u64 v49;
  u1 v50;
  u64 v51;
  u1 v52;
  struct S17_struct_std___Rb_tree_node_base* v53;
  u8** v54;
  u8* v55;
  u8** v56;
  u8* v57;
  u32 v58;
  u32 v59; u32 v59_t;
  u1 v60;
  u64 v61;
  u1 v62;
  u64 v63;
  u1 v64;
  u64 v65;
  u32 v66;
  u32 v67; u32 v67_t;
  u1 v68;
  struct S16_class_std___Rb_tree_5* v69;
  u8* v70;
  struct S14_class_std____cxx11__basic_string** v71;
  u8* v72;
  struct S17_struct_std___Rb_tree_node_base* v73;
  struct S17_struct_std___Rb_tree_node_base* v74; struct S17_struct_std___Rb_tree_node_base* v74_t;
  struct S17_struct_std___Rb_tree_node_base* v75;
  struct S44_class_std__shared_ptr* v76;
L0: ;
  v0 = &v0_m;
  v1 = &v1_m;
  v2 = (u8*)(&(*a0).f0.f0.f0.f0.f0);
  v3 = (u8*)&(*a0).f0.f0.f1.f0.f1;
  v4 = (struct S18_struct_std___Rb_tree_node_33**)&(*a0).f0.f0.f1.f0.f1;
  v5 = *v4;
  v6 = (u8*)&(*a0).f0.f0.f1.f0.f0;
  v7 = (struct S17_struct_std___Rb_tree_node_base*)&(*a0).f0.f0.f1.f0;
  v8 = ((u8*)v5 == (u8*)((struct S18_struct_std___Rb_tree_node_33*)0));
  if (v8) {
    v43 = v7;
    goto L7;
  } else {
    goto L1;
  }
L1: ;
  v9 = (u64*)(&(*a1).f1);
  v10 = *v9;
  v11 = (u8**)(&(*a1).f0.f0);
  v12 = *v11;
  v13_t = v5;
  v14_t = v7;
  v13 = v13_t;
  v14 = v14_t;
  goto L2;
L2: ;
  v15 = (u8*)(&(*v13).f1.f0.e[(s64)((s64)((u64)8ULL))]);
  v16 = (u64*)v15;
  v17 = (((u64)(*v13).f1.f0.e[8] << 0) | ((u64)(*v13).f1.f0.e[9] << 8) | ((u64)(*v13).f1.f0.e[10] << 16) | ((u64)(*v13).f1.f0.e[11] << 24) | ((u64)(*v13).f1.f0.e[12] << 32) | ((u64)(*v13).f1.f0.e[13] << 40) | ((u64)(*v13).f1.f0.e[14] << 48) | ((u64)(*v13).f1.f0.e[15] << 56));
  v18 = (v17 > v10);
  v19 = (v18 ? v10 : v17);
  v20 = (v19 == ((u64)0ULL));
  if (v20) {
    v25 = ((u32)0ULL);
    goto L4;
  } else {
    goto L3;
  }
L3: ;
  v21 = (struct S67_struct___gnu_cxx____aligned_membuf_34*)(&(*v13).f1);
  v22 = (u8**)v21;
  v23 = *v22;
  v24 = memcmp(v23, v12, v19);
  v25 = v24;
  goto L4;
L4: ;
  v26 = (v25 == ((u32)0ULL));
  if (v26) {
    goto L5;
  } else {
    v33 = v25;
    goto L6;
  }
L5: ;
  v27 = ((u64)(v17 - v10));
  v28 = (((s64)v27) > ((s64)((u64)18446744071562067968ULL)));
  v29 = (v28 ? v27 : ((u64)18446744071562067968ULL));
  v30 = (((s64)v29) < ((s64)((u64)2147483647ULL)));
  v31 = (v30 ? v29 : ((u64)2147483647ULL));
  v32 = ((u32)(v31));
  v33 = v32;
  goto L6;
L6: ;
  v34 = (((s32)v33) < ((s32)((u32)0ULL)));
  v35 = (struct S17_struct_std___Rb_tree_node_base**)(&(*v13).f0.f3);
  v36 = (struct S17_struct_std___Rb_tree_node_base*)(&(*v13).f0);
  v37 = (struct S17_struct_std___Rb_tree_node_base**)(&(*v13).f0.f2);
  v38 = (v34 ? v14 : v36);
  v39 = (v34 ? v35 : v37);
  v40 = (struct S18_struct_std___Rb_tree_node_33**)v39;
  v41 = *v40;
  v42 = ((u8*)v41 == (u8*)((struct S18_struct_std___Rb_tree_node_33*)0));
  if (v42) {
    v43 = v38;
    goto L7;
  } else {
    v13_t = v41;
    v14_t = v38;
    v13 = v13_t;
    v14 = v14_t;
    goto L2;
  }
L7: ;
  v44 = ((u8*)v43 == (u8*)v7);
  if (v44) {
    goto L13;
  } else {
    goto L8;
  }
L8: ;
  v45 = (u64*)(&(*a1).f1);
  v46 = *v45;
  v47 = (struct S17_struct_std___Rb_tree_node_base**)(&(v43)[(s64)((s64)((u64)1ULL))].f1);
  v48 = (u64*)v47;
  v49 = *v48;
  v50 = (v46 > v49);
  v51 = (v50 ? v49 : v46);
  v52 = (v51 == ((u64)0ULL));
  if (v52) {
    v59 = ((u32)0ULL);
    goto L10;
  } else {
    goto L9;
  }
L9: ;
  v53 = (struct S17_struct_std___Rb_tree_node_base*)(v43 + (s64)((s64)((u64)1ULL)));
  v54 = (u8**)v53;
  v55 = *v54;
  v56 = (u8**)(&(*a1).f0.f0);
  v57 = *v56;
  v58 = memcmp(v57, v55, v51);
  v59 = v58;
  goto L10;
L10: ;
  v60 = (v59 == ((u32)0ULL));
  if (v60) {
    goto L11;
  } else {
    v67 = v59;
    goto L12;
  }
L11: ;
  v61 = ((u64)(v46 - v49));
  v62 = (((s64)v61) > ((s64)((u64)18446744071562067968ULL)));
  v63 = (v62 ? v61 : ((u64)18446744071562067968ULL));
  v64 = (((s64)v63) < ((s64)((u64)2147483647ULL)));
  v65 = (v64 ? v63 : ((u64)2147483647ULL));
  v66 = ((u32)(v65));
  v67 = v66;
  goto L12;
L12: ;
  v68 = (((s32)v67) < ((s32)((u32)0ULL)));
  if (v68) {
    goto L13;
  } else {
    v74 = v43;
    goto L14;
  }
L13: ;
  v69 = (struct S16_class_std___Rb_tree_5*)(&(*a0).f0);
  v70 = (u8*)v0;
  v71 = (struct S14_class_std____cxx11__basic_string**)(&(*v0).f0.f0.f0);
  *v71 = a1;
  v72 = (u8*)(&(*v1).f0);
  v73 = _ZNSt8_Rb_treeINSt7__cxx1112basic_stringIcSt11char_traitsIcESaIcEEESt4pairIKS5_St10shared_ptrIN14OpenVolumeMesh2IO19PropertyDecoderBaseEEESt10_Select1stISD_ESt4lessIS5_ESaISD_EE22_M_emplace_hint_uniqueIJRKSt21piecewise_construct_tSt5tupleIJRS7_EESO_IJEEEEESt17_Rb_tree_iteratorISD_ESt23_Rb_tree_const_iteratorISD_EDpOT_(v69, v43, (&_ZSt19piecewise_construct), v0, v1);
  if (v_exc) return (struct S44_class_std__shared_ptr*)0;
  v74 = v73;
  goto L14;
L14: ;
  v75 = (struct S17_struct_std___Rb_tree_node_base*)(v74 + (s64)((s64)((u64)2ULL)));
  v76 = (struct S44_class_std__shared_ptr*)v75;
  return v76;
}

struct S17_struct_std___Rb_tree_node_base* _ZNSt8_Rb_treeINSt7__cxx1112basic_stringIcSt11char_traitsIcESaIcEEESt4pairIKS5_St10shared_ptrIN14OpenVolumeMesh2IO19PropertyDecoderBaseEEESt10_Select1stISD_ESt4lessIS5_ESaISD_EE22_M_emplace_hint_uniqueIJRKSt21piecewise_construct_tSt5tupleIJRS7_EESO_IJEEEEESt17_Rb_tree_iteratorISD_ESt23_Rb_tree_const_iteratorISD_EDpOT_(struct S16_class_std___Rb_tree_5* a0, struct S17_struct_std___Rb_tree_node_base* a1, struct S0_class_std__ios_base__Init* a2, struct S45_class_std__tuple_195* a3, struct S0_class_std__ios_base__Init* a4) {
  struct S47_struct_std___Rb_tree_std____cxx11__basic* v0; struct S47_struct_std___Rb_tree_std____cxx11__basic v0_m;
  u8* v1;
  struct S16_class_std___Rb_tree_5** v2;
  struct S18_struct_std___Rb_tree_node_33** v3;
  u8* v4;
  struct S18_struct_std___Rb_tree_node_33* v5;
  u8** v6;
  struct S18_struct_std___Rb_tree_node_33* v7;
  struct S67_struct___gnu_cxx____aligned_membuf_34* v8;
  struct S14_class_std____cxx11__basic_string* v9;
  struct S46 v10;
  struct S17_struct_std___Rb_tree_node_base* v11;
  struct S17_struct_std___Rb_tree_node_base* v12;
  u1 v13;
  struct S16_class_std___Rb_tree_5* v14;
  struct S18_struct_std___Rb_tree_node_33* v15;
  u1 v16;
  u8* v17;
  u8* v18;
  struct S17_struct_std___Rb_tree_node_base* v19;
  u1 v20;
  u1 v21;
  u8* v22;
  u64* v23;
  u64 v24;
  struct S17_struct_std___Rb_tree_node_base** v25;
  u64* v26;
  u64 v27;
  u1 v28;
  u64 v29;
  u1 v30;
  struct S17_struct_std___Rb_tree_node_base* v31;
  struct S67_struct___gnu_cxx____aligned_membuf_34* v32;
  u8** v33;
  u8* v34;
  u8** v35;
  u8* v36;
  u32 v37;
  u32 v38; u32 v38_t;
  u1 v39;
  u64 v40;
  u1 v41;
  u64 v42;
  u1 v43;
  u64 v44;
  u32 v45;
  u32 v46; u32 v46_t;
  u1 v47;
  u1 v48; u1 v48_t;
  struct S17_struct_std___Rb_tree_node_base* v49;
  u8* v50;
  u64* v51;
  u64 v52;
  u64 v53;
  struct S65 v54;
  struct S17_struct_std___Rb_tree_node_base* v55; struct S17_struct_std___Rb_tree_node_base* v55_t;
  struct S18_struct_std___Rb_tree_node_33* v56;
  u1 v57;
  struct S67_struct___gnu_cxx____aligned_membuf_34* v58;
  u8* v59;
  struct S20_class_std___Sp_counted_base** v60;
  struct S20_class_std___Sp_counted_base* v61;
  u1 v62;
  u32* v63;
  u64* v64;
  u64 v65;
  u1 v66;
  u32* v67;
  fnptr_t** v68;
  fnptr_t* v69;
  fnptr_t* v70;
  fnptr_t v71;
  fnptr_t* v72;
  fnptr_t* v73;
  fnptr_t v74;
  u8 v75;
  u1 v76;
  u32 v77;
  u32 v78;
  u32 v79;
  u32 v80;
  u32 v81; u32 v81_t;
  u1 v82;
  u8** v83;
  u8* v84;
  u8* v85;
  u1 v86;
  u8* v87;
L0: ;
  v0 = &v0_m;
  v1 = (u8*)v0;
  v2 = (struct S16_class_std___Rb_tree_5**)(&(*v0).f0);
  *v2 = a0;
  v3 = (struct S18_struct_std___Rb_tree_node_33**)(&(*v0).f1);
  v4 = (u8*)((((u64)80ULL) % sizeof(struct S18_struct_std___Rb_tree_node_33) == 0) ? __CPROVER_allocate(sizeof(struct S18_struct_std___Rb_tree_node_33) * (((u64)80ULL) / sizeof(struct S18_struct_std___Rb_tree_node_33)), 0) : __CPROVER_allocate(((u64)80ULL), 0));
  v_alloc_note((u8*)v4);
  v5 = (struct S18_struct_std___Rb_tree_node_33*)v4;
  _ZNSt8_Rb_treeINSt7__cxx1112basic_stringIcSt11char_traitsIcESaIcEEESt4pairIKS5_St10shared_ptrIN14OpenVolumeMesh2IO19PropertyDecoderBaseEEESt10_Select1stISD_ESt4lessIS5_ESaISD_EE17_M_construct_nodeIJRKSt21piecewise_construct_tSt5tupleIJRS7_EESO_IJEEEEEvPSt13_Rb_tree_nodeISD_EDpOT_(a0, v5, a2, a3, a4);
  if (v_exc) return (struct S17_struct_std___Rb_tree_node_base*)0;
  v6 = (u8**)&(*v0).f1;
  *v6 = v4;
  v7 = (struct S18_struct_std___Rb_tree_node_33*)v4;
  v8 = (struct S67_struct___gnu_cxx____aligned_membuf_34*)(&(*v7).f1);
  v9 = (struct S14_class_std____cxx11__basic_string*)v8;
  v10 = _ZNSt8_Rb_treeINSt7__cxx1112basic_stringIcSt11char_traitsIcESaIcEEESt4pairIKS5_St10shared_ptrIN14OpenVolumeMesh2IO19PropertyDecoderBaseEEESt10_Select1stISD_ESt4lessIS5_ESaISD_EE29_M_get_insert_hint_unique_posESt23_Rb_tree_const_iteratorISD_ERS7_(a0, a1, v9);
  if (v_exc) {
    goto L9;
  }
  goto L1;
L1: ;
  v11 = v10.f0;
  v12 = v10.f1;
  v13 = ((u8*)v12 == (u8*)((struct S17_struct_std___Rb_tree_node_base*)0));
  if (v13) {
    v55 = v11;
    goto L10;
  } else {
    goto L2;
  }
L2: ;
  v14 = *v2;
  v15 = *v3;
  v16 = ((u8*)v11 != (u8*)((struct S17_struct_std___Rb_tree_node_base*)0));
  v17 = (u8*)(&(*v14).f0.f0.f0.f0);
  v18 = (u8*)&(*v14).f0.f1.f0.f0;
  v19 = (struct S17_struct_std___Rb_tree_node_base*)&(*v14).f0.f1.f0;
  v20 = ((u8*)v12 == (u8*)v19);
  v21 = (v16 ? ((u1)1ULL) : v20);
  if (v21) {
    v48 = ((u1)1ULL);
    goto L8;
  } else {
    goto L3;
  }
L3: ;
  v22 = (u8*)(&(*v15).f1.f0.e[(s64)((s64)((u64)8ULL))]);
  v23 = (u64*)v22;
  v24 = (((u64)(*v15).f1.f0.e[8] << 0) | ((u64)(*v15).f1.f0.e[9] << 8) | ((u64)(*v15).f1.f0.e[10] << 16) | ((u64)(*v15).f1.f0.e[11] << 24) | ((u64)(*v15).f1.f0.e[12] << 32) | ((u64)(*v15).f1.f0.e[13] << 40) | ((u64)(*v15).f1.f0.e[14] << 48) | ((u64)(*v15).f1.f0.e[15] << 56));
  v25 = (struct S17_struct_std___Rb_tree_node_base**)(&(v12)[(s64)((s64)((u64)1ULL))].f1);
  v26 = (u64*)v25;
  v27 = *v26;
  v28 = (v24 > v27);
  v29 = (v28 ? v27 : v24);
  v30 = (v29 == ((u64)0ULL));
  if (v30) {
    v38 = ((u32)0ULL);
    goto L5;
  } else {
    goto L4;
  }
L4: ;
  v31 = (struct S17_struct_std___Rb_tree_node_base*)(v12 + (s64)((s64)((u64)1ULL)));
  v32 = (struct S67_struct___gnu_cxx____aligned_membuf_34*)(&(*v15).f1);
  v33 = (u8**)v31;
  v34 = *v33;
  v35 = (u8**)v32;
  v36 = *v35;
  v37 = memcmp(v36, v34, v29);
  v38 = v37;
  goto L5;
L5: ;
  v39 = (v38 == ((u32)0ULL));
  if (v39) {
    goto L6;
  } else {
    v46 = v38;
    goto L7;
  }
L6: ;
  v40 = ((u64)(v24 - v27));
  v41 = (((s64)v40) > ((s64)((u64)18446744071562067968ULL)));
  v42 = (v41 ? v40 : ((u64)18446744071562067968ULL));
  v43 = (((s64)v42) < ((s64)((u64)2147483647ULL)));
  v44 = (v43 ? v42 : ((u64)2147483647ULL));
  v45 = ((u32)(v44));
  v46 = v45;
  goto L7;
L7: ;
  v47 = (((s32)v46) < ((s32)((u32)0ULL)));
  v48 = v47;
  goto L8;
L8: ;
  v49 = (struct S17_struct_std___Rb_tree_node_base*)(&(*v15).f0);
  _ZSt29_Rb_tree_insert_and_rebalancebPSt18_Rb_tree_node_baseS0_RS_(v48, v49, v12, v19);
  v50 = (u8*)&(*v14).f0.f1.f1;
  v51 = (u64*)&(*v14).f0.f1.f1;
  v52 = *v51;
  v53 = ((u64)(v52 + ((u64)1ULL)));
  *v51 = v53;
  *v3 = ((struct S18_struct_std___Rb_tree_node_33*)0);
  v55 = v49;
  goto L10;
L9: ;
  v54.f0 = v_exc_obj;
  v54.f1 = 0;
  v_exc = 0;
  _ZNSt8_Rb_treeINSt7__cxx1112basic_stringIcSt11char_traitsIcESaIcEEESt4pairIKS5_St10shared_ptrIN14OpenVolumeMesh2IO19PropertyDecoderBaseEEESt10_Select1stISD_ESt4lessIS5_ESaISD_EE10_Auto_nodeD2Ev(v0);
  v_exc = 1; return (struct S17_struct_std___Rb_tree_node_base*)0;
L10: ;
  v56 = *v3;
  v57 = ((u8*)v56 == (u8*)((struct S18_struct_std___Rb_tree_node_33*)0));
  if (v57) {
    goto L22;
  } else {
    goto L11;
  }
L11: ;
  v58 = (struct S67_struct___gnu_cxx____aligned_membuf_34*)(&(*v56).f1);
  v59 = (u8*)(&(*v56).f1.f0.e[(s64)((s64)((u64)40ULL))]);
  v60 = (struct S20_class_std___Sp_counted_base**)v59;
  v61 = *v60;
  v62 = ((u8*)v61 == (u8*)((struct S20_class_std___Sp_counted_base*)0));
  if (v62) {
    goto L19;
  } else {
    goto L12;
  }
L12: ;
  v63 = (u32*)(&(*v61).f1);
  v64 = (u64*)v63;
  v65 = (((u64)(*v61).f1 << 0) | ((u64)(*v61).f2 << 32));
  v66 = (v65 == ((u64)4294967297ULL));
  if (v66) {
    goto L13;
  } else {
    goto L14;
  }
L13: ;
  *v63 = ((u32)0ULL);
  v67 = (u32*)(&(*v61).f2);
  *v67 = ((u32)0ULL);
  v68 = (fnptr_t**)&(*v61).f0;
  v69 = *v68;
  v70 = (fnptr_t*)(v69 + (s64)((s64)((u64)2ULL)));
  v71 = *v70;
  ((FT1)v71)(v61);
  v72 = *v68;
  v73 = (fnptr_t*)(v72 + (s64)((s64)((u64)3ULL)));
  v74 = *v73;
  ((FT1)v74)(v61);
  goto L19;
L14: ;
  v75 = *(&__libc_single_threaded);
  v76 = (v75 == ((u8)0ULL));
  if (v76) {
    goto L16;
  } else {
    goto L15;
  }
L15: ;
  v77 = *v63;
  v78 = ((u32)(v77 + ((u32)4294967295ULL)));
  *v63 = v78;
  v81 = v77;
  goto L17;
L16: ;
  v79 = *v63;
  v80 = ((u32)(v79 + ((u32)4294967295ULL)));
  *v63 = v80;
  v81 = v79;
  goto L17;
L17: ;
  v82 = (v81 == ((u32)1ULL));
  if (v82) {
    goto L18;
  } else {
    goto L19;
  }
L18: ;
  _ZNSt16_Sp_counted_baseILN9__gnu_cxx12_Lock_policyE2EE24_M_release_last_use_coldEv(v61);
  goto L19;
L19: ;
  v83 = (u8**)v58;
  v84 = *v83;
  v85 = (u8*)(&(*v56).f1.f0.e[(s64)((s64)((u64)16ULL))]);
  v86 = ((u8*)v84 == (u8*)v85);
  if (v86) {
    goto L21;
  } else {
    goto L20;
  }
L20: ;
  _ZdlPv(v84);
  goto L21;
L21: ;
  v87 = (u8*)v56;
  _ZdlPv(v87);
  goto L22;
L22: ;
  return v55;
}

void _ZNSt8_Rb_treeINSt7__cxx1112basic_stringIcSt11char_traitsIcESaIcEEESt4pairIKS5_St10shared_ptrIN14OpenVolumeMesh2IO19PropertyDecoderBaseEEESt10_Select1stISD_ESt4lessIS5_ESaISD_EE17_M_construct_nodeIJRKSt21piecewise_construct_tSt5tupleIJRS7_EESO_IJEEEEEvPSt13_Rb_tree_nodeISD_EDpOT_(struct S16_class_std___Rb_tree_5* a0, struct S18_struct_std___Rb_tree_node_33* a1, struct S0_class_std__ios_base__Init* a2, struct S45_class_std__tuple_195* a3, struct S0_class_std__ios_base__Init* a4) {
  u64* v0; u64 v0_m;
  struct S67_struct___gnu_cxx____aligned_membuf_34* v1;
  u64* v2;
  u64 v3;
  struct S14_class_std____cxx11__basic_string* v4;
  u8* v5;
  u8** v6;
  u8** v7;
  u8* v8;
  u64* v9;
  u64 v10;
  u8* v11;
  u1 v12;
  struct S14_class_std____cxx11__basic_string* v13;
  u8* v14;
  u8** v15;
  u64 v16;
  u8* v17;
  u64* v18;
  u8** v19;
  u8* v20;
  u8 v21;
  u64 v22;
  u8* v23;
  u64* v24;
  u8* v25;
  u8* v26;
  u8* v27;
  struct S65 v28;
  u8* v29;
  u8* v30;
  u8* v31;
  struct S65 v32;
  struct S65 v33;
  u8* v34;
L0: ;
  v0 = &v0_m;
  v1 = (struct S67_struct___gnu_cxx____aligned_membuf_34*)(&(*a1).f1);
  v2 = (u64*)a3;
  v3 = *v2;
  v4 = (struct S14_class_std____cxx11__basic_string*)(u64)v3;
  v5 = (u8*)(&(*a1).f1.f0.e[(s64)((s64)((u64)16ULL))]);
  v6 = (u8**)v1;
  *v6 = v5;
  v7 = (u8**)(&(*v4).f0.f0);
  v8 = *v7;
  v9 = (u64*)(&(*v4).f1);
  v10 = *v9;
  v11 = (u8*)v0;
  *v0 = v10;
  v12 = (v10 > ((u64)15ULL));
  if (v12) {
    goto L1;
  } else {
    goto L3;
  }
L1: ;
  v13 = (struct S14_class_std____cxx11__basic_string*)v1;
  v14 = _ZNSt7__cxx1112basic_stringIcSt11char_traitsIcESaIcEE9_M_createERmm(v13, v0, ((u64)0ULL));
  if (v_exc) {
    goto L7;
  }
  goto L2;
L2: ;
  v15 = (u8**)v1;
  *v15 = v14;
  v16 = *v0;
  v17 = (u8*)(&(*a1).f1.f0.e[(s64)((s64)((u64)16ULL))]);
  v18 = (u64*)v17;
  (*a1).f1.f0.e[16] = (u8)(v16 >> 0);
  (*a1).f1.f0.e[17] = (u8)(v16 >> 8);
  (*a1).f1.f0.e[18] = (u8)(v16 >> 16);
  (*a1).f1.f0.e[19] = (u8)(v16 >> 24);
  (*a1).f1.f0.e[20] = (u8)(v16 >> 32);
  (*a1).f1.f0.e[21] = (u8)(v16 >> 40);
  (*a1).f1.f0.e[22] = (u8)(v16 >> 48);
  (*a1).f1.f0.e[23] = (u8)(v16 >> 56);
  goto L3;
L3: ;
  v19 = (u8**)v1;
  v20 = *v19;
  switch (v10) {
  case ((u64)1ULL): {
    goto L4;
  }
  case ((u64)0ULL): {
    goto L6;
  }
  default: {
    goto L5;
  }
  }
L4: ;
  v21 = *v8;
  *v20 = v21;
  goto L6;
L5: ;
  v_memcpy((u8*)v20, (u8*)v8, (u64)v10);
  goto L6;
L6: ;
  v22 = *v0;
  v23 = (u8*)(&(*a1).f1.f0.e[(s64)((s64)((u64)8ULL))]);
  v24 = (u64*)v23;
  (*a1).f1.f0.e[8] = (u8)(v22 >> 0);
  (*a1).f1.f0.e[9] = (u8)(v22 >> 8);
  (*a1).f1.f0.e[10] = (u8)(v22 >> 16);
  (*a1).f1.f0.e[11] = (u8)(v22 >> 24);
  (*a1).f1.f0.e[12] = (u8)(v22 >> 32);
  (*a1).f1.f0.e[13] = (u8)(v22 >> 40);
  (*a1).f1.f0.e[14] = (u8)(v22 >> 48);
  (*a1).f1.f0.e[15] = (u8)(v22 >> 56);
  v25 = *v19;
  v26 = (u8*)(v25 + (s64)((s64)v22));
  *v26 = ((u8)0ULL);
  v27 = (u8*)(&(*a1).f1.f0.e[(s64)((s64)((u64)32ULL))]);
  (*a1).f1.f0.e[32] = ((u8)0ULL);
  (*a1).f1.f0.e[33] = ((u8)0ULL);
  (*a1).f1.f0.e[34] = ((u8)0ULL);
  (*a1).f1.f0.e[35] = ((u8)0ULL);
  (*a1).f1.f0.e[36] = ((u8)0ULL);
  (*a1).f1.f0.e[37] = ((u8)0ULL);
  (*a1).f1.f0.e[38] = ((u8)0ULL);
  (*a1).f1.f0.e[39] = ((u8)0ULL);
  (*a1).f1.f0.e[40] = ((u8)0ULL);
  (*a1).f1.f0.e[41] = ((u8)0ULL);
  (*a1).f1.f0.e[42] = ((u8)0ULL);
  (*a1).f1.f0.e[43] = ((u8)0ULL);
  (*a1).f1.f0.e[44] = ((u8)0ULL);
  (*a1).f1.f0.e[45] = ((u8)0ULL);
  (*a1).f1.f0.e[46] = ((u8)0ULL);
  (*a1).f1.f0.e[47] = ((u8)0ULL);
  return;
L7: ;
  v28.f0 = v_exc_obj;
  v28.f1 = 0;
  if (v28.f1 == 0) v28.f1 = 9999;
  if (v28.f1 == 0) return;
  v_exc = 0;
  v29 = v28.f0;
  v30 = __cxa_begin_catch(v29);
  v31 = (u8*)a1;
  _ZdlPv(v31);
  __cxa_rethrow();
  if (v_exc) {
    goto L8;
  }
  goto L11;
L8: ;
  v32.f0 = v_exc_obj;
  v32.f1 = 0;
  v_exc = 0;
  __cxa_end_catch();
  if (v_exc) {
    goto L10;
  }
  goto L9;
L9: ;
  v_exc = 1; return;
L10: ;
  v33.f0 = v_exc_obj;
  v33.f1 = 0;
  if (v33.f1 == 0) v33.f1 = 9999;
  if (v33.f1 == 0) return;
  v_exc = 0;
  v34 = v33.f0;
  __clang_call_terminate(v34);
  __CPROVER_assume(0);
L11: ;
  __CPROVER_assume(0);
}

struct S46 _ZNSt8_Rb_treeINSt7__cxx1112basic_stringIcSt11char_traitsIcESaIcEEESt4pairIKS5_St10shared_ptrIN14OpenVolumeMesh2IO19PropertyDecoderBaseEEESt10_Select1stISD_ESt4lessIS5_ESaISD_EE29_M_get_insert_hint_unique_posESt23_Rb_tree_const_iteratorISD_ERS7_(struct S16_class_std___Rb_tree_5* a0, struct S17_struct_std___Rb_tree_node_base* a1, struct S14_class_std____cxx11__basic_string* a2) {
  u8* v0;
  u8* v1;
  struct S17_struct_std___Rb_tree_node_base* v2;
  u1 v3;
  u8* v4;
  u64* v5;
  u64 v6;
  u1 v7;
  u8* v8;
  struct S17_struct_std___Rb_tree_node_base** v9;
  struct S17_struct_std___Rb_tree_node_base* v10;
  struct S17_struct_std___Rb_tree_node_base** v11;
  u64* v12;
  u64 v13;
  u64* v14;
  u64 v15;
  u1 v16;
  u64 v17;
  u1 v18;
  struct S17_struct_std___Rb_tree_node_base* v19;
  u8** v20;
  u8* v21;
  u8** v22;
  u8* v23;
  u32 v24;
  u32 v25; u32 v25_t;
  u1 v26;
  u64 v27;
  u1 v28;
  u64 v29;
  u1 v30;
  u64 v31;
  u32 v32;
  u32 v33; u32 v33_t;
  u1 v34;
  struct S46 v35;
  struct S17_struct_std___Rb_tree_node_base* v36;
  struct S17_struct_std___Rb_tree_node_base* v37;
  struct S17_struct_std___Rb_tree_node_base* v38;
  u64* v39;
  u64 v40;
  struct S17_struct_std___Rb_tree_node_base** v41;
  u64* v42;
  u64 v43;
  u1 v44;
  u64 v45;
  u1 v46;
  u8** v47;
  u8* v48;
  u8** v49;
  u8* v50;
  u32 v51;
  u32 v52; u32 v52_t;
  u1 v53;
  u64 v54;
  u1 v55;
  u64 v56;
  u1 v57;
  u64 v58;
  u32 v59;
  u32 v60; u32 v60_t;
  u1 v61;
  u8* v62;
  struct S17_struct_std___Rb_tree_node_base** v63;
  struct S17_struct_std___Rb_tree_node_base* v64;
  u1 v65;
  struct S17_struct_std___Rb_tree_node_base* v66;
  struct S17_struct_std___Rb_tree_node_base** v67;
  u64* v68;
  u64 v69;
  u1 v70;
  u64 v71;
  u1 v72;
  struct S17_struct_std___Rb_tree_node_base* v73;
  u8** v74;
  u8* v75;
  u8** v76;
  u8* v77;
  u32 v78;
  u32 v79; u32 v79_t;
  u1 v80;
  u64 v81;
  u1 v82;
  u64 v83;
  u1 v84;
  u64 v85;
  u32 v86;
  u32 v87; u32 v87_t;
  u1 v88;
  struct S17_struct_std___Rb_tree_node_base** v89;
  struct S18_struct_std___Rb_tree_node_33** v90;
  struct S18_struct_std___Rb_tree_node_33* v91;
  u1 v92;
  struct S17_struct_std___Rb_tree_node_base* v93;
  struct S17_struct_std___Rb_tree_node_base* v94;
  struct S46 v95;
  struct S17_struct_std___Rb_tree_node_base* v96;
  struct S17_struct_std___Rb_tree_node_base* v97;
  u8** v98;
  u8* v99;
  u8** v100;
  u8* v101;
  u32 v102;
  u32 v103; u32 v103_t;
  u1 v104;
  u64 v105;
  u1 v106;
  u64 v107;
  u1 v108;
  u64 v109;
  u32 v110;
  u32 v111; u32 v111_t;
  u1 v112;
  u8* v113;
  struct S17_struct_std___Rb_tree_node_base** v114;
  struct S17_struct_std___Rb_tree_node_base* v115;
  u1 v116;
  struct S17_struct_std___Rb_tree_node_base* v117;
  struct S17_struct_std___Rb_tree_node_base** v118;
  u64* v119;
  u64 v120;
  u1 v121;
  u64 v122;
  u1 v123;
  struct S17_struct_std___Rb_tree_node_base* v124;
  u8** v125;
  u8* v126;
  u8** v127;
  u8* v128;
  u32 v129;
  u32 v130; u32 v130_t;
  u1 v131;
  u64 v132;
  u1 v133;
  u64 v134;
  u1 v135;
  u64 v136;
  u32 v137;
  u32 v138; u32 v138_t;
  u1 v139;
  struct S17_struct_std___Rb_tree_node_base** v140;
  struct S18_struct_std___Rb_tree_node_33** v141;
  struct S18_struct_std___Rb_tree_node_33* v142;
  u1 v143;
  struct S17_struct_std___Rb_tree_node_base* v144;
  struct S17_struct_std___Rb_tree_node_base* v145;
  struct S46 v146;
  struct S17_struct_std___Rb_tree_node_base* v147;
  struct S17_struct_std___Rb_tree_node_base* v148;
  struct S17_struct_std___Rb_tree_node_base* v149; struct S17_struct_std___Rb_tree_node_base* v149_t;
  struct S17_struct_std___Rb_tree_node_base* v150; struct S17_struct_std___Rb_tree_node_base* v150_t;
  struct S46 v151;
  struct S46 v152;
L0: ;
  v0 = (u8*)(&(*a0).f0.f0.f0.f0);
  v1 = (u8*)&(*a0).f0.f1.f0.f0;
  v2 = (struct S17_struct_std___Rb_tree_node_base*)&(*a0).f0.f1.f0;
  v3 = ((u8*)v2 == (u8*)a1);
  if (v3) {
    goto L1;
  } else {
    goto L8;
  }
L1: ;
  v4 = (u8*)&(*a0).f0.f1.f1;
  v5 = (u64*)&(*a0).f0.f1.f1;
  v6 = *v5;
  v7 = (v6 == ((u64)0ULL));
  if (v7) {
    goto L7;
  } else {
    goto L2;
  }
L2: ;
  v8 = (u8*)&(*a0).f0.f1.f0.f3;
  v9 = (struct S17_struct_std___Rb_tree_node_base**)&(*a0).f0.f1.f0.f3;
  v10 = *v9;
  v11 = (struct S17_struct_std___Rb_tree_node_base**)(&(v10)[(s64)((s64)((u64)1ULL))].f1);
  v12 = (u64*)v11;
  v13 = *v12;
  v14 = (u64*)(&(*a2).f1);
  v15 = *v14;
  v16 = (v13 > v15);
  v17 = (v16 ? v15 : v13);
  v18 = (v17 == ((u64)0ULL));
  if (v18) {
    v25 = ((u32)0ULL);
    goto L4;
  } else {
    goto L3;
  }
L3: ;
  v19 = (struct S17_struct_std___Rb_tree_node_base*)(v10 + (s64)((s64)((u64)1ULL)));
  v20 = (u8**)(&(*a2).f0.f0);
  v21 = *v20;
  v22 = (u8**)v19;
  v23 = *v22;
  v24 = memcmp(v23, v21, v17);
  v25 = v24;
  goto L4;
L4: ;
  v26 = (v25 == ((u32)0ULL));
  if (v26) {
    goto L5;
  } else {
    v33 = v25;
    goto L6;
  }
L5: ;
  v27 = ((u64)(v13 - v15));
  v28 = (((s64)v27) > ((s64)((u64)18446744071562067968ULL)));
  v29 = (v28 ? v27 : ((u64)18446744071562067968ULL));
  v30 = (((s64)v29) < ((s64)((u64)2147483647ULL)));
  v31 = (v30 ? v29 : ((u64)2147483647ULL));
  v32 = ((u32)(v31));
  v33 = v32;
  goto L6;
L6: ;
  v34 = (((s32)v33) < ((s32)((u32)0ULL)));
  if (v34) {
    v149_t = ((struct S17_struct_std___Rb_tree_node_base*)0);
    v150_t = v10;
    v149 = v149_t;
    v150 = v150_t;
    goto L34;
  } else {
    goto L7;
  }
L7: ;
  v35 = _ZNSt8_Rb_treeINSt7__cxx1112basic_stringIcSt11char_traitsIcESaIcEEESt4pairIKS5_St10shared_ptrIN14OpenVolumeMesh2IO19PropertyDecoderBaseEEESt10_Select1stISD_ESt4lessIS5_ESaISD_EE24_M_get_insert_unique_posERS7_(a0, a2);
  if (v_exc) { struct S46 _d = {0}; return _d; }
  v36 = v35.f0;
  v37 = v35.f1;
  v149_t = v36;
  v150_t = v37;
  v149 = v149_t;
  v150 = v150_t;
  goto L34;
L8: ;
  v38 = (struct S17_struct_std___Rb_tree_node_base*)(a1 + (s64)((s64)((u64)1ULL)));
  v39 = (u64*)(&(*a2).f1);
  v40 = *v39;
  v41 = (struct S17_struct_std___Rb_tree_node_base**)(&(a1)[(s64)((s64)((u64)1ULL))].f1);
  v42 = (u64*)v41;
  v43 = *v42;
  v44 = (v40 > v43);
  v45 = (v44 ? v43 : v40);
  v46 = (v45 == ((u64)0ULL));
  if (v46) {
    v52 = ((u32)0ULL);
    goto L10;
  } else {
    goto L9;
  }
L9: ;
  v47 = (u8**)v38;
  v48 = *v47;
  v49 = (u8**)(&(*a2).f0.f0);
  v50 = *v49;
  v51 = memcmp(v50, v48, v45);
  v52 = v51;
  goto L10;
L10: ;
  v53 = (v52 == ((u32)0ULL));
  if (v53) {
    goto L11;
  } else {
    v60 = v52;
    goto L12;
  }
L11: ;
  v54 = ((u64)(v40 - v43));
  v55 = (((s64)v54) > ((s64)((u64)18446744071562067968ULL)));
  v56 = (v55 ? v54 : ((u64)18446744071562067968ULL));
  v57 = (((s64)v56) < ((s64)((u64)2147483647ULL)));
  v58 = (v57 ? v56 : ((u64)2147483647ULL));
  v59 = ((u32)(v58));
  v60 = v59;
  goto L12;
L12: ;
  v61 = (((s32)v60) < ((s32)((u32)0ULL)));
  if (v61) {
    goto L13;
  } else {
    goto L21;
  }
L13: ;
  v62 = (u8*)&(*a0).f0.f1.f0.f2;
  v63 = (struct S17_struct_std___Rb_tree_node_base**)&(*a0).f0.f1.f0.f2;
  v64 = *v63;
  v65 = ((u8*)v64 == (u8*)a1);
  if (v65) {
    v149_t = v64;
    v150_t = v64;
    v149 = v149_t;
    v150 = v150_t;
    goto L34;
  } else {
    goto L14;
  }
L14: ;
  v66 = _ZSt18_Rb_tree_decrementPSt18_Rb_tree_node_base(a1);
  v67 = (struct S17_struct_std___Rb_tree_node_base**)(&(v66)[(s64)((s64)((u64)1ULL))].f1);
  v68 = (u64*)v67;
  v69 = *v68;
  v70 = (v69 > v40);
  v71 = (v70 ? v40 : v69);
  v72 = (v71 == ((u64)0ULL));
  if (v72) {
    v79 = ((u32)0ULL);
    goto L16;
  } else {
    goto L15;
  }
L15: ;
  v73 = (struct S17_struct_std___Rb_tree_node_base*)(v66 + (s64)((s64)((u64)1ULL)));
  v74 = (u8**)(&(*a2).f0.f0);
  v75 = *v74;
  v76 = (u8**)v73;
  v77 = *v76;
  v78 = memcmp(v77, v75, v71);
  v79 = v78;
  goto L16;
L16: ;
  v80 = (v79 == ((u32)0ULL));
  if (v80) {
    goto L17;
  } else {
    v87 = v79;
    goto L18;
  }
L17: ;
  v81 = ((u64)(v69 - v40));
  v82 = (((s64)v81) > ((s64)((u64)18446744071562067968ULL)));
  v83 = (v82 ? v81 : ((u64)18446744071562067968ULL));
  v84 = (((s64)v83) < ((s64)((u64)2147483647ULL)));
  v85 = (v84 ? v83 : ((u64)2147483647ULL));
  v86 = ((u32)(v85));
  v87 = v86;
  goto L18;
L18: ;
  v88 = (((s32)v87) < ((s32)((u32)0ULL)));
  if (v88) {
    goto L19;
  } else {
    goto L20;
  }
L19: ;
  v89 = (struct S17_struct_std___Rb_tree_node_base**)(&(*v66).f3);
  v90 = (struct S18_struct_std___Rb_tree_node_33**)&(*v66).f3;
  v91 = *v90;
  v92 = ((u8*)v91 == (u8*)((struct S18_struct_std___Rb_tree_node_33*)0));
  v93 = (v92 ? ((struct S17_struct_std___Rb_tree_node_base*)0) : a1);
  v94 = (v92 ? v66 : a1);
  v149_t = v93;
  v150_t = v94;
  v149 = v149_t;
  v150 = v150_t;
  goto L34;
L20: ;
  v95 = _ZNSt8_Rb_treeINSt7__cxx1112basic_stringIcSt11char_traitsIcESaIcEEESt4pairIKS5_St10shared_ptrIN14OpenVolumeMesh2IO19PropertyDecoderBaseEEESt10_Select1stISD_ESt4lessIS5_ESaISD_EE24_M_get_insert_unique_posERS7_(a0, a2);
  if (v_exc) { struct S46 _d = {0}; return _d; }
  v96 = v95.f0;
  v97 = v95.f1;
  v149_t = v96;
  v150_t = v97;
  v149 = v149_t;
  v150 = v150_t;
  goto L34;
L21: ;
  if (v46) {
    v103 = ((u32)0ULL);
    goto L23;
  } else {
    goto L22;
  }
L22: ;
  v98 = (u8**)(&(*a2).f0.f0);
  v99 = *v98;
  v100 = (u8**)v38;
  v101 = *v100;
  v102 = memcmp(v101, v99, v45);
  v103 = v102;
  goto L23;
L23: ;
  v104 = (v103 == ((u32)0ULL));
  if (v104) {
    goto L24;
  } else {
    v111 = v103;
    goto L25;
  }
L24: ;
  v105 = ((u64)(v43 - v40));
  v106 = (((s64)v105) > ((s64)((u64)18446744071562067968ULL)));
  v107 = (v106 ? v105 : ((u64)18446744071562067968ULL));
  v108 = (((s64)v107) < ((s64)((u64)2147483647ULL)));
  v109 = (v108 ? v107 : ((u64)2147483647ULL));
  v110 = ((u32)(v109));
  v111 = v110;
  goto L25;
L25: ;
  v112 = (((s32)v111) < ((s32)((u32)0ULL)));
  if (v112) {
    goto L26;
  } else {
    v149_t = a1;
    v150_t = ((struct S17_struct_std___Rb_tree_node_base*)0);
    v149 = v149_t;
    v150 = v150_t;
    goto L34;
  }
L26: ;
  v113 = (u8*)&(*a0).f0.f1.f0.f3;
  v114 = (struct S17_struct_std___Rb_tree_node_base**)&(*a0).f0.f1.f0.f3;
  v115 = *v114;
  v116 = ((u8*)v115 == (u8*)a1);
  if (v116) {
    v149_t = ((struct S17_struct_std___Rb_tree_node_base*)0);
    v150_t = v115;
    v149 = v149_t;
    v150 = v150_t;
    goto L34;
  } else {
    goto L27;
  }
L27: ;
  v117 = _ZSt18_Rb_tree_incrementPSt18_Rb_tree_node_base(a1);
  v118 = (struct S17_struct_std___Rb_tree_node_base**)(&(v117)[(s64)((s64)((u64)1ULL))].f1);
  v119 = (u64*)v118;
  v120 = *v119;
  v121 = (v40 > v120);
  v122 = (v121 ? v120 : v40);
  v123 = (v122 == ((u64)0ULL));
  if (v123) {
    v130 = ((u32)0ULL);
    goto L29;
  } else {
    goto L28;
  }
L28: ;
  v124 = (struct S17_struct_std___Rb_tree_node_base*)(v117 + (s64)((s64)((u64)1ULL)));
  v125 = (u8**)v124;
  v126 = *v125;
  v127 = (u8**)(&(*a2).f0.f0);
  v128 = *v127;
  v129 = memcmp(v128, v126, v122);
  v130 = v129;
  goto L29;
L29: ;
  v131 = (v130 == ((u32)0ULL));
  if (v131) {
    goto L30;
  } else {
    v138 = v130;
    goto L31;
  }
L30: ;
  v132 = ((u64)(v40 - v120));
  v133 = (((s64)v132) > ((s64)((u64)18446744071562067968ULL)));
  v134 = (v133 ? v132 : ((u64)18446744071562067968ULL));
  v135 = (((s64)v134) < ((s64)((u64)2147483647ULL)));
  v136 = (v135 ? v134 : ((u64)2147483647ULL));
  v137 = ((u32)(v136));
  v138 = v137;
  goto L31;
L31: ;
  v139 = (((s32)v138) < ((s32)((u32)0ULL)));
  if (v139) {
    goto L32;
  } else {
    goto L33;
  }
L32: ;
  v140 = (struct S17_struct_std___Rb_tree_node_base**)(&(*a1).f3);
  v141 = (struct S18_struct_std___Rb_tree_node_33**)&(*a1).f3;
  v142 = *v141;
  v143 = ((u8*)v142 == (u8*)((struct S18_struct_std___Rb_tree_node_33*)0));
  v144 = (v143 ? ((struct S17_struct_std___Rb_tree_node_base*)0) : v117);
  v145 = (v143 ? a1 : v117);
  v149_t = v144;
  v150_t = v145;
  v149 = v149_t;
  v150 = v150_t;
  goto L34;
L33: ;
  v146 = _ZNSt8_Rb_treeINSt7__cxx1112basic_stringIcSt11char_traitsIcESaIcEEESt4pairIKS5_St10shared_ptrIN14OpenVolumeMesh2IO19PropertyDecoderBaseEEESt10_Select1stISD_ESt4lessIS5_ESaISD_EE24_M_get_insert_unique_posERS7_(a0, a2);
  if (v_exc) { struct S46 _d = {0}; return _d; }
  v147 = v146.f0;
  v148 = v146.f1;
  v149_t = v147;
  v150_t = v148;
  v149 = v149_t;
  v150 = v150_t;
  goto L34;
L34: ;
  v151.f0 = v149;
  v152 = v151;
  v152.f1 = v150;
  return v152;
}

void _ZNSt8_Rb_treeINSt7__cxx1112basic_stringIcSt11char_traitsIcESaIcEEESt4pairIKS5_St10shared_ptrIN14OpenVolumeMesh2IO19PropertyDecoderBaseEEESt10_Select1stISD_ESt4lessIS5_ESaISD_EE10_Auto_nodeD2Ev(struct S47_struct_std___Rb_tree_std____cxx11__basic* a0) {
  struct S18_struct_std___Rb_tree_node_33** v0;
  struct S18_struct_std___Rb_tree_node_33* v1;
  u1 v2;
  struct S67_struct___gnu_cxx____aligned_membuf_34* v3;
  u8* v4;
  struct S20_class_std___Sp_counted_base** v5;
  struct S20_class_std___Sp_counted_base* v6;
  u1 v7;
  u32* v8;
  u64* v9;
  u64 v10;
  u1 v11;
  u32* v12;
  fnptr_t** v13;
  fnptr_t* v14;
  fnptr_t* v15;
  fnptr_t v16;
  fnptr_t* v17;
  fnptr_t* v18;
  fnptr_t v19;
  u8 v20;
  u1 v21;
  u32 v22;
  u32 v23;
  u32 v24;
  u32 v25;
  u32 v26; u32 v26_t;
  u1 v27;
  u8** v28;
  u8* v29;
  u8* v30;
  u1 v31;
  u8* v32;
L0: ;
  v0 = (struct S18_struct_std___Rb_tree_node_33**)(&(*a0).f1);
  v1 = *v0;
  v2 = ((u8*)v1 == (u8*)((struct S18_struct_std___Rb_tree_node_33*)0));
  if (v2) {
    goto L12;
  } else {
    goto L1;
  }
L1: ;
  v3 = (struct S67_struct___gnu_cxx____aligned_membuf_34*)(&(*v1).f1);
  v4 = (u8*)(&(*v1).f1.f0.e[(s64)((s64)((u64)40ULL))]);
  v5 = (struct S20_class_std___Sp_counted_base**)v4;
  v6 = *v5;
  v7 = ((u8*)v6 == (u8*)((struct S20_class_std___Sp_counted_base*)0));
  if (v7) {
    goto L9;
  } else {
    goto L2;
  }
L2: ;
  v8 = (u32*)(&(*v6).f1);
  v9 = (u64*)v8;
  v10 = (((u64)(*v6).f1 << 0) | ((u64)(*v6).f2 << 32));
  v11 = (v10 == ((u64)4294967297ULL));
  if (v11) {
    goto L3;
  } else {
    goto L4;
  }
L3: ;
  *v8 = ((u32)0ULL);
  v12 = (u32*)(&(*v6).f2);
  *v12 = ((u32)0ULL);
  v13 = (fnptr_t**)&(*v6).f0;
  v14 = *v13;
  v15 = (fnptr_t*)(v14 + (s64)((s64)((u64)2ULL)));
  v16 = *v15;
  ((FT1)v16)(v6);
  v17 = *v13;
  v18 = (fnptr_t*)(v17 + (s64)((s64)((u64)3ULL)));
  v19 = *v18;
  ((FT1)v19)(v6);
  goto L9;
L4: ;
  v20 = *(&__libc_single_threaded);
  v21 = (v20 == ((u8)0ULL));
  if (v21) {
    goto L6;
  } else {
    goto L5;
  }
L5: ;
  v22 = *v8;
  v23 = ((u32)(v22 + ((u32)4294967295ULL)));
  *v8 = v23;
  v26 = v22;
  goto L7;
L6: ;
  v24 = *v8;
  v25 = ((u32)(v24 + ((u32)4294967295ULL)));
  *v8 = v25;
  v26 = v24;
  goto L7;
L7: ;
  v27 = (v26 == ((u32)1ULL));
  if (v27) {
    goto L8;
  } else {
    goto L9;
  }
L8: ;
  _ZNSt16_Sp_counted_baseILN9__gnu_cxx12_Lock_policyE2EE24_M_release_last_use_coldEv(v6);
  goto L9;
L9: ;
  v28 = (u8**)v3;
  v29 = *v28;
  v30 = (u8*)(&(*v1).f1.f0.e[(s64)((s64)((u64)16ULL))]);
  v31 = ((u8*)v29 == (u8*)v30);
  if (v31) {
    goto L11;
  } else {
    goto L10;
  }
L10: ;
  _ZdlPv(v29);
  goto L11;
L11: ;
  v32 = (u8*)v1;
  _ZdlPv(v32);
  goto L12;
L12: ;
  return;
}

struct S46 _ZNSt8_Rb_treeINSt7__cxx1112basic_stringIcSt11char_traitsIcESaIcEEESt4pairIKS5_St10shared_ptrIN14OpenVolumeMesh2IO19PropertyDecoderBaseEEESt10_Select1stISD_ESt4lessIS5_ESaISD_EE24_M_get_insert_unique_posERS7_(struct S16_class_std___Rb_tree_5* a0, struct S14_class_std____cxx11__basic_string* a1) {
  u8* v0;
  u8* v1;
  struct S18_struct_std___Rb_tree_node_33** v2;
  u8* v3;
  struct S17_struct_std___Rb_tree_node_base* v4;
  struct S18_struct_std___Rb_tree_node_33* v5;
  u1 v6;
  u64* v7;
  u64 v8;
  u8** v9;
  u8* v10;
  struct S18_struct_std___Rb_tree_node_33* v11; struct S18_struct_std___Rb_tree_node_33* v11_t;
  u8* v12;
  u64* v13;
  u64 v14;
  u1 v15;
  u64 v16;
  u1 v17;
  struct S67_struct___gnu_cxx____aligned_membuf_34* v18;
  u8** v19;
  u8* v20;
  u32 v21;
  u32 v22; u32 v22_t;
  u1 v23;
  u64 v24;
  u1 v25;
  u64 v26;
  u1 v27;
  u64 v28;
  u32 v29;
  u32 v30; u32 v30_t;
  u1 v31;
  struct S17_struct_std___Rb_tree_node_base** v32;
  struct S17_struct_std___Rb_tree_node_base** v33;
  struct S17_struct_std___Rb_tree_node_base** v34;
  struct S18_struct_std___Rb_tree_node_33** v35;
  struct S18_struct_std___Rb_tree_node_33* v36;
  u1 v37;
  struct S17_struct_std___Rb_tree_node_base* v38;
  struct S17_struct_std___Rb_tree_node_base* v39; struct S17_struct_std___Rb_tree_node_base* v39_t;
  u1 v40; u1 v40_t;
  struct S18_struct_std___Rb_tree_node_33* v41; struct S18_struct_std___Rb_tree_node_33* v41_t;
  u8* v42;
  struct S17_struct_std___Rb_tree_node_base** v43;
  struct S17_struct_std___Rb_tree_node_base* v44;
  u1 v45;
  struct S17_struct_std___Rb_tree_node_base* v46;
  struct S17_struct_std___Rb_tree_node_base* v47;
  struct S17_struct_std___Rb_tree_node_base* v48; struct S17_struct_std___Rb_tree_node_base* v48_t;
  struct S17_struct_std___Rb_tree_node_base** v49;
  u64* v50;
  u64 v51;
  u64* v52;
  u64 v53;
  u1 v54;
  u64 v55;
  u1 v56;
  struct S17_struct_std___Rb_tree_node_base* v57;
  u8** v58;
  u8* v59;
  u8** v60;
  u8* v61;
  u32 v62;
  u32 v63; u32 v63_t;
  u1 v64;
  u64 v65;
  u1 v66;
  u64 v67;
  u1 v68;
  u64 v69;
  u32 v70;
  u32 v71; u32 v71_t;
  u1 v72;
  struct S17_struct_std___Rb_tree_node_base* v73;
  struct S17_struct_std___Rb_tree_node_base* v74;
  struct S17_struct_std___Rb_tree_node_base* v75;
  struct S17_struct_std___Rb_tree_node_base* v76; struct S17_struct_std___Rb_tree_node_base* v76_t;
  struct S17_struct_std___Rb_tree_node_base* v77; struct S17_struct_std___Rb_tree_node_base* v77_t;
  struct S46 v78;
  struct S46 v79;
L0: ;
  v0 = (u8*)(&(*a0).f0.f0.f0.f0);
  v1 = (u8*)&(*a0).f0.f1.f0.f1;
  v2 = (struct S18_struct_std___Rb_tree_node_33**)&(*a0).f0.f1.f0.f1;
  v3 = (u8*)&(*a0).f0.f1.f0.f0;
  v4 = (struct S17_struct_std___Rb_tree_node_base*)&(*a0).f0.f1.f0;
  v5 = *v2;
  v6 = ((u8*)v5 == (u8*)((struct S18_struct_std___Rb_tree_node_33*)0));
  if (v6) {
    v39_t = v4;
    v40_t = ((u1)1ULL);
    v41_t = v5;
    v39 = v39_t;
    v40 = v40_t;
    v41 = v41_t;
    goto L8;
  } else {
    goto L1;
  }
L1: ;
  v7 = (u64*)(&(*a1).f1);
  v8 = *v7;
  v9 = (u8**)(&(*a1).f0.f0);
  v10 = *v9;
  v11 = v5;
  goto L2;
L2: ;
  v12 = (u8*)(&(*v11).f1.f0.e[(s64)((s64)((u64)8ULL))]);
  v13 = (u64*)v12;
  v14 = (((u64)(*v11).f1.f0.e[8] << 0) | ((u64)(*v11).f1.f0.e[9] << 8) | ((u64)(*v11).f1.f0.e[10] << 16) | ((u64)(*v11).f1.f0.e[11] << 24) | ((u64)(*v11).f1.f0.e[12] << 32) | ((u64)(*v11).f1.f0.e[13] << 40) | ((u64)(*v11).f1.f0.e[14] << 48) | ((u64)(*v11).f1.f0.e[15] << 56));
  v15 = (v8 > v14);
  v16 = (v15 ? v14 : v8);
  v17 = (v16 == ((u64)0ULL));
  if (v17) {
    v22 = ((u32)0ULL);
    goto L4;
  } else {
    goto L3;
  }
L3: ;
  v18 = (struct S67_struct___gnu_cxx____aligned_membuf_34*)(&(*v11).f1);
  v19 = (u8**)v18;
  v20 = *v19;
  v21 = memcmp(v10, v20, v16);
  v22 = v21;
  goto L4;
L4: ;
  v23 = (v22 == ((u32)0ULL));
  if (v23) {
    goto L5;
  } else {
    v30 = v22;
    goto L6;
  }
L5: ;
  v24 = ((u64)(v8 - v14));
  v25 = (((s64)v24) > ((s64)((u64)18446744071562067968ULL)));
  v26 = (v25 ? v24 : ((u64)18446744071562067968ULL));
  v27 = (((s64)v26) < ((s64)((u64)2147483647ULL)));
  v28 = (v27 ? v26 : ((u64)2147483647ULL));
  v29 = ((u32)(v28));
  v30 = v29;
  goto L6;
L6: ;
  v31 = (((s32)v30) < ((s32)((u32)0ULL)));
  v32 = (struct S17_struct_std___Rb_tree_node_base**)(&(*v11).f0.f2);
  v33 = (struct S17_struct_std___Rb_tree_node_base**)(&(*v11).f0.f3);
  v34 = (v31 ? v32 : v33);
  v35 = (struct S18_struct_std___Rb_tree_node_33**)v34;
  v36 = *v35;
  v37 = ((u8*)v36 == (u8*)((struct S18_struct_std___Rb_tree_node_33*)0));
  if (v37) {
    goto L7;
  } else {
    v11 = v36;
    goto L2;
  }
L7: ;
  v38 = (struct S17_struct_std___Rb_tree_node_base*)(&(*v11).f0);
  v39_t = v38;
  v40_t = v31;
  v41_t = v36;
  v39 = v39_t;
  v40 = v40_t;
  v41 = v41_t;
  goto L8;
L8: ;
  if (v40) {
    goto L9;
  } else {
    v48 = v39;
    goto L12;
  }
L9: ;
  v42 = (u8*)&(*a0).f0.f1.f0.f2;
  v43 = (struct S17_struct_std___Rb_tree_node_base**)&(*a0).f0.f1.f0.f2;
  v44 = *v43;
  v45 = ((u8*)v39 == (u8*)v44);
  if (v45) {
    goto L10;
  } else {
    goto L11;
  }
L10: ;
  v46 = (struct S17_struct_std___Rb_tree_node_base*)(&(*v41).f0);
  v76_t = v46;
  v77_t = v39;
  v76 = v76_t;
  v77 = v77_t;
  goto L17;
L11: ;
  v47 = _ZSt18_Rb_tree_decrementPSt18_Rb_tree_node_base(v39);
  v48 = v47;
  goto L12;
L12: ;
  v49 = (struct S17_struct_std___Rb_tree_node_base**)(&(v48)[(s64)((s64)((u64)1ULL))].f1);
  v50 = (u64*)v49;
  v51 = *v50;
  v52 = (u64*)(&(*a1).f1);
  v53 = *v52;
  v54 = (v51 > v53);
  v55 = (v54 ? v53 : v51);
  v56 = (v55 == ((u64)0ULL));
  if (v56) {
    v63 = ((u32)0ULL);
    goto L14;
  } else {
    goto L13;
  }
L13: ;
  v57 = (struct S17_struct_std___Rb_tree_node_base*)(v48 + (s64)((s64)((u64)1ULL)));
  v58 = (u8**)(&(*a1).f0.f0);
  v59 = *v58;
  v60 = (u8**)v57;
  v61 = *v60;
  v62 = memcmp(v61, v59, v55);
  v63 = v62;
  goto L14;
L14: ;
  v64 = (v63 == ((u32)0ULL));
  if (v64) {
    goto L15;
  } else {
    v71 = v63;
    goto L16;
  }
L15: ;
  v65 = ((u64)(v51 - v53));
  v66 = (((s64)v65) > ((s64)((u64)18446744071562067968ULL)));
  v67 = (v66 ? v65 : ((u64)18446744071562067968ULL));
  v68 = (((s64)v67) < ((s64)((u64)2147483647ULL)));
  v69 = (v68 ? v67 : ((u64)2147483647ULL));
  v70 = ((u32)(v69));
  v71 = v70;
  goto L16;
L16: ;
  v72 = (((s32)v71) < ((s32)((u32)0ULL)));
  v73 = (struct S17_struct_std___Rb_tree_node_base*)(&(*v41).f0);
  v74 = (v72 ? v73 : v48);
  v75 = (v72 ? v39 : ((struct S17_struct_std___Rb_tree_node_base*)0));
  v76_t = v74;
  v77_t = v75;
  v76 = v76_t;
  v77 = v77_t;
  goto L17;
L17: ;
  v78.f0 = v76;
  v79 = v78;
  v79.f1 = v77;
  return v79;
}

void _ZN14OpenVolumeMesh2IO19PropertyDecoderBaseD2Ev(struct S10_class_OpenVolumeMesh__IO__PropertyDecode* a0) {
L0: ;
  return;
}

void _ZN14OpenVolumeMesh2IO6detail11parse_errorCI2St13runtime_errorEPKc(struct S48_class_OpenVolumeMesh__IO__detail__parse_* a0, u8* a1) {
  struct S29_class_std__runtime_error* v0;
  fnptr_t** v1;
L0: ;
  v0 = (struct S29_class_std__runtime_error*)(&(*a0).f0.f0);
  _ZNSt13runtime_errorC2EPKc(v0, a1);
  if (v_exc) return;
  v1 = (fnptr_t**)(&(*a0).f0.f0.f0.f0);
  *v1 = ((fnptr_t*)((u8**)(&(*(&_ZTVN14OpenVolumeMesh2IO6detail11parse_errorE)).f0.e[(s64)((s64)((u64)2ULL))])));
  return;
}

void _ZN14OpenVolumeMesh2IO6detail11parse_errorD0Ev(struct S48_class_OpenVolumeMesh__IO__detail__parse_* a0) {
  struct S29_class_std__runtime_error* v0;
  u8* v1;
L0: ;
  v0 = (struct S29_class_std__runtime_error*)(&(*a0).f0.f0);
  _ZNSt13runtime_errorD2Ev(v0);
  v1 = (u8*)a0;
  _ZdlPv(v1);
  return;
}

struct S36 _ZNSt8_Rb_treeISt10shared_ptrIN14OpenVolumeMesh19PropertyStorageBaseEES3_St9_IdentityIS3_ESt4lessIS3_ESaIS3_EE16_M_insert_uniqueIRKS3_EESt4pairISt17_Rb_tree_iteratorIS3_EbEOT_(struct S16_class_std___Rb_tree_5* a0, struct S25_class_std__weak_ptr* a1) {
  u8* v0;
  u8* v1;
  struct S41_struct_std___Rb_tree_node_31** v2;
  u8* v3;
  struct S17_struct_std___Rb_tree_node_base* v4;
  struct S41_struct_std___Rb_tree_node_31* v5;
  u1 v6;
  struct S22_class_OpenVolumeMesh__PropertyStorageBas** v7;
  struct S22_class_OpenVolumeMesh__PropertyStorageBas* v8;
  struct S41_struct_std___Rb_tree_node_31* v9; struct S41_struct_std___Rb_tree_node_31* v9_t;
  struct S72_struct___gnu_cxx____aligned_membuf_32* v10;
  struct S22_class_OpenVolumeMesh__PropertyStorageBas** v11;
  struct S22_class_OpenVolumeMesh__PropertyStorageBas* v12;
  u1 v13;
  struct S17_struct_std___Rb_tree_node_base** v14;
  struct S17_struct_std___Rb_tree_node_base** v15;
  struct S17_struct_std___Rb_tree_node_base** v16;
  struct S41_struct_std___Rb_tree_node_31** v17;
  struct S41_struct_std___Rb_tree_node_31* v18;
  u1 v19;
  struct S17_struct_std___Rb_tree_node_base* v20;
  struct S17_struct_std___Rb_tree_node_base* v21; struct S17_struct_std___Rb_tree_node_base* v21_t;
  u1 v22; u1 v22_t;
  struct S41_struct_std___Rb_tree_node_31* v23; struct S41_struct_std___Rb_tree_node_31* v23_t;
  u8* v24;
  struct S17_struct_std___Rb_tree_node_base** v25;
  struct S17_struct_std___Rb_tree_node_base* v26;
  u1 v27;
  struct S17_struct_std___Rb_tree_node_base* v28;
  struct S17_struct_std___Rb_tree_node_base* v29;
  struct S17_struct_std___Rb_tree_node_base* v30; struct S17_struct_std___Rb_tree_node_base* v30_t;
  struct S17_struct_std___Rb_tree_node_base* v31;
  struct S22_class_OpenVolumeMesh__PropertyStorageBas** v32;
  struct S22_class_OpenVolumeMesh__PropertyStorageBas* v33;
  struct S22_class_OpenVolumeMesh__PropertyStorageBas** v34;
  struct S22_class_OpenVolumeMesh__PropertyStorageBas* v35;
  u1 v36;
  struct S17_struct_std___Rb_tree_node_base* v37;
  struct S17_struct_std___Rb_tree_node_base* v38;
  struct S17_struct_std___Rb_tree_node_base* v39;
  struct S17_struct_std___Rb_tree_node_base* v40; struct S17_struct_std___Rb_tree_node_base* v40_t;
  struct S17_struct_std___Rb_tree_node_base* v41; struct S17_struct_std___Rb_tree_node_base* v41_t;
  u1 v42;
  u1 v43;
  u1 v44;
  u1 v45;
  struct S17_struct_std___Rb_tree_node_base* v46;
  struct S22_class_OpenVolumeMesh__PropertyStorageBas** v47;
  struct S22_class_OpenVolumeMesh__PropertyStorageBas* v48;
  struct S22_class_OpenVolumeMesh__PropertyStorageBas** v49;
  struct S22_class_OpenVolumeMesh__PropertyStorageBas* v50;
  u1 v51;
  u1 v52; u1 v52_t;
  u8* v53;
  struct S41_struct_std___Rb_tree_node_31* v54;
  struct S72_struct___gnu_cxx____aligned_membuf_32* v55;
  struct S22_class_OpenVolumeMesh__PropertyStorageBas** v56;
  struct S22_class_OpenVolumeMesh__PropertyStorageBas** v57;
  struct S22_class_OpenVolumeMesh__PropertyStorageBas* v58;
  u8* v59;
  struct S20_class_std___Sp_counted_base** v60;
  struct S20_class_std___Sp_counted_base** v61;
  struct S20_class_std___Sp_counted_base* v62;
  u1 v63;
  u32* v64;
  u8 v65;
  u1 v66;
  u32 v67;
  u32 v68;
  u32 v69;
  u32 v70;
  struct S17_struct_std___Rb_tree_node_base* v71;
  u8* v72;
  u64* v73;
  u64 v74;
  u64 v75;
  struct S17_struct_std___Rb_tree_node_base* v76; struct S17_struct_std___Rb_tree_node_base* v76_t;
  u8 v77; u8 v77_t;
  struct S36 v78;
  struct S36 v79;
L0: ;
  v0 = (u8*)(&(*a0).f0.f0.f0.f0);
  v1 = (u8*)&(*a0).f0.f1.f0.f1;
  v2 = (struct S41_struct_std___Rb_tree_node_31**)&(*a0).f0.f1.f0.f1;
  v3 = (u8*)&(*a0).f0.f1.f0.f0;
  v4 = (struct S17_struct_std___Rb_tree_node_base*)&(*a0).f0.f1.f0;
  v5 = *v2;
  v6 = ((u8*)v5 == (u8*)((struct S41_struct_std___Rb_tree_node_31*)0));
  if (v6) {
    v21_t = v4;
    v22_t = ((u1)1ULL);
    v23_t = v5;
    v21 = v21_t;
    v22 = v22_t;
    v23 = v23_t;
    goto L4;
  } else {
    goto L1;
  }
L1: ;
  v7 = (struct S22_class_OpenVolumeMesh__PropertyStorageBas**)(&(*a1).f0.f0);
  v8 = *v7;
  v9 = v5;
  goto L2;
L2: ;
  v10 = (struct S72_struct___gnu_cxx____aligned_membuf_32*)(&(*v9).f1);
  v11 = (struct S22_class_OpenVolumeMesh__PropertyStorageBas**)v10;
  v12 = *v11;
  v13 = v_plt((u8*)v8, (u8*)v12);
  v14 = (struct S17_struct_std___Rb_tree_node_base**)(&(*v9).f0.f2);
  v15 = (struct S17_struct_std___Rb_tree_node_base**)(&(*v9).f0.f3);
  v16 = (v13 ? v14 : v15);
  v17 = (struct S41_struct_std___Rb_tree_node_31**)v16;
  v18 = *v17;
  v19 = ((u8*)v18 == (u8*)((struct S41_struct_std___Rb_tree_node_31*)0));
  if (v19) {
    goto L3;
  } else {
    v9 = v18;
    goto L2;
  }
L3: ;
  v20 = (struct S17_struct_std___Rb_tree_node_base*)(&(*v9).f0);
  v21_t = v20;
  v22_t = v13;
  v23_t = v18;
  v21 = v21_t;
  v22 = v22_t;
  v23 = v23_t;
  goto L4;
L4: ;
  if (v22) {
    goto L5;
  } else {
    v30 = v21;
    goto L8;
  }
L5: ;
  v24 = (u8*)&(*a0).f0.f1.f0.f2;
  v25 = (struct S17_struct_std___Rb_tree_node_base**)&(*a0).f0.f1.f0.f2;
  v26 = *v25;
  v27 = ((u8*)v21 == (u8*)v26);
  if (v27) {
    goto L6;
  } else {
    goto L7;
  }
L6: ;
  v28 = (struct S17_struct_std___Rb_tree_node_base*)(&(*v23).f0);
  v40_t = v28;
  v41_t = v21;
  v40 = v40_t;
  v41 = v41_t;
  goto L9;
L7: ;
  v29 = _ZSt18_Rb_tree_decrementPSt18_Rb_tree_node_base(v21);
  v30 = v29;
  goto L8;
L8: ;
  v31 = (struct S17_struct_std___Rb_tree_node_base*)(v30 + (s64)((s64)((u64)1ULL)));
  v32 = (struct S22_class_OpenVolumeMesh__PropertyStorageBas**)v31;
  v33 = *v32;
  v34 = (struct S22_class_OpenVolumeMesh__PropertyStorageBas**)(&(*a1).f0.f0);
  v35 = *v34;
  v36 = v_plt((u8*)v33, (u8*)v35);
  v37 = (struct S17_struct_std___Rb_tree_node_base*)(&(*v23).f0);
  v38 = (v36 ? v37 : v30);
  v39 = (v36 ? v21 : ((struct S17_struct_std___Rb_tree_node_base*)0));
  v40_t = v38;
  v41_t = v39;
  v40 = v40_t;
  v41 = v41_t;
  goto L9;
L9: ;
  v42 = ((u8*)v41 == (u8*)((struct S17_struct_std___Rb_tree_node_base*)0));
  if (v42) {
    v76_t = v40;
    v77_t = ((u8)0ULL);
    v76 = v76_t;
    v77 = v77_t;
    goto L17;
  } else {
    goto L10;
  }
L10: ;
  v43 = ((u8*)v40 != (u8*)((struct S17_struct_std___Rb_tree_node_base*)0));
  v44 = ((u8*)v41 == (u8*)v4);
  v45 = (v43 ? ((u1)1ULL) : v44);
  if (v45) {
    v52 = ((u1)1ULL);
    goto L12;
  } else {
    goto L11;
  }
L11: ;
  v46 = (struct S17_struct_std___Rb_tree_node_base*)(v41 + (s64)((s64)((u64)1ULL)));
  v47 = (struct S22_class_OpenVolumeMesh__PropertyStorageBas**)(&(*a1).f0.f0);
  v48 = *v47;
  v49 = (struct S22_class_OpenVolumeMesh__PropertyStorageBas**)v46;
  v50 = *v49;
  v51 = v_plt((u8*)v48, (u8*)v50);
  v52 = v51;
  goto L12;
L12: ;
  v53 = (u8*)((((u64)48ULL) % sizeof(struct S41_struct_std___Rb_tree_node_31) == 0) ? __CPROVER_allocate(sizeof(struct S41_struct_std___Rb_tree_node_31) * (((u64)48ULL) / sizeof(struct S41_struct_std___Rb_tree_node_31)), 0) : __CPROVER_allocate(((u64)48ULL), 0));
  v_alloc_note((u8*)v53);
  v54 = (struct S41_struct_std___Rb_tree_node_31*)v53;
  v55 = (struct S72_struct___gnu_cxx____aligned_membuf_32*)(&(*v54).f1);
  v56 = (struct S22_class_OpenVolumeMesh__PropertyStorageBas**)v55;
  v57 = (struct S22_class_OpenVolumeMesh__PropertyStorageBas**)(&(*a1).f0.f0);
  v58 = *v57;
  *v56 = v58;
  v59 = (u8*)(&(*v54).f1.f0.e[(s64)((s64)((u64)8ULL))]);
  v60 = (struct S20_class_std___Sp_counted_base**)v59;
  v61 = (struct S20_class_std___Sp_counted_base**)(&(*a1).f0.f1.f0);
  v62 = *v61;
  *v60 = v62;
  v63 = ((u8*)v62 == (u8*)((struct S20_class_std___Sp_counted_base*)0));
  if (v63) {
    goto L16;
  } else {
    goto L13;
  }
L13: ;
  v64 = (u32*)(&(*v62).f1);
  v65 = *(&__libc_single_threaded);
  v66 = (v65 == ((u8)0ULL));
  if (v66) {
    goto L15;
  } else {
    goto L14;
  }
L14: ;
  v67 = *v64;
  v68 = ((u32)(v67 + ((u32)1ULL)));
  *v64 = v68;
  goto L16;
L15: ;
  v69 = *v64;
  v70 = ((u32)(v69 + ((u32)1ULL)));
  *v64 = v70;
  goto L16;
L16: ;
  v71 = (struct S17_struct_std___Rb_tree_node_base*)(&(*v54).f0);
  _ZSt29_Rb_tree_insert_and_rebalancebPSt18_Rb_tree_node_baseS0_RS_(v52, v71, v41, v4);
  v72 = (u8*)&(*a0).f0.f1.f1;
  v73 = (u64*)&(*a0).f0.f1.f1;
  v74 = *v73;
  v75 = ((u64)(v74 + ((u64)1ULL)));
  *v73 = v75;
  v76_t = v71;
  v77_t = ((u8)1ULL);
  v76 = v76_t;
  v77 = v77_t;
  goto L17;
L17: ;
  v78.f0 = v76;
  v79 = v78;
  v79.f1 = v77;
  return v79;
}

void _ZNSt8_Rb_treeISt10shared_ptrIN14OpenVolumeMesh19PropertyStorageBaseEES3_St9_IdentityIS3_ESt4lessIS3_ESaIS3_EE12_M_erase_auxESt23_Rb_tree_const_iteratorIS3_ESB_(struct S16_class_std___Rb_tree_5* a0, struct S17_struct_std___Rb_tree_node_base* a1, struct S17_struct_std___Rb_tree_node_base* a2) {
  u8* v0;
  u8* v1;
  struct S17_struct_std___Rb_tree_node_base** v2;
  struct S17_struct_std___Rb_tree_node_base* v3;
  u1 v4;
  u8* v5;
  struct S17_struct_std___Rb_tree_node_base* v6;
  u1 v7;
  u8* v8;
  struct S41_struct_std___Rb_tree_node_31** v9;
  struct S41_struct_std___Rb_tree_node_31* v10;
  struct S65 v11;
  u8* v12;
  struct S17_struct_std___Rb_tree_node_base** v13;
  u8** v14;
  u8* v15;
  u8** v16;
  u8* v17;
  u64* v18;
  u1 v19;
  u8* v20;
  struct S17_struct_std___Rb_tree_node_base* v21;
  u8* v22;
  u64* v23;
  struct S17_struct_std___Rb_tree_node_base* v24; struct S17_struct_std___Rb_tree_node_base* v24_t;
  struct S17_struct_std___Rb_tree_node_base* v25;
  struct S17_struct_std___Rb_tree_node_base* v26;
  struct S17_struct_std___Rb_tree_node_base** v27;
  struct S20_class_std___Sp_counted_base** v28;
  struct S20_class_std___Sp_counted_base* v29;
  u1 v30;
  u32* v31;
  u64* v32;
  u64 v33;
  u1 v34;
  u32* v35;
  fnptr_t** v36;
  fnptr_t* v37;
  fnptr_t* v38;
  fnptr_t v39;
  fnptr_t* v40;
  fnptr_t* v41;
  fnptr_t v42;
  u8 v43;
  u1 v44;
  u32 v45;
  u32 v46;
  u32 v47;
  u32 v48;
  u32 v49; u32 v49_t;
  u1 v50;
  u8* v51;
  u64 v52;
  u64 v53;
  u1 v54;
L0: ;
  v0 = (u8*)(&(*a0).f0.f0.f0.f0);
  v1 = (u8*)&(*a0).f0.f1.f0.f2;
  v2 = (struct S17_struct_std___Rb_tree_node_base**)&(*a0).f0.f1.f0.f2;
  v3 = *v2;
  v4 = ((u8*)v3 == (u8*)a1);
  if (v4) {
    goto L1;
  } else {
    goto L5;
  }
L1: ;
  v5 = (u8*)&(*a0).f0.f1.f0.f0;
  v6 = (struct S17_struct_std___Rb_tree_node_base*)&(*a0).f0.f1.f0;
  v7 = ((u8*)v6 == (u8*)a2);
  if (v7) {
    goto L2;
  } else {
    goto L5;
  }
L2: ;
  v8 = (u8*)&(*a0).f0.f1.f0.f1;
  v9 = (struct S41_struct_std___Rb_tree_node_31**)&(*a0).f0.f1.f0.f1;
  v10 = *v9;
  _ZNSt8_Rb_treeISt10shared_ptrIN14OpenVolumeMesh19PropertyStorageBaseEES3_St9_IdentityIS3_ESt4lessIS3_ESaIS3_EE8_M_eraseEPSt13_Rb_tree_nodeIS3_E(a0, v10);
  if (v_exc) {
    goto L3;
  }
  goto L4;
L3: ;
  v11.f0 = v_exc_obj;
  v11.f1 = 0;
  if (v11.f1 == 0) v11.f1 = 9999;
  if (v11.f1 == 0) return;
  v_exc = 0;
  v12 = v11.f0;
  __clang_call_terminate(v12);
  __CPROVER_assume(0);
L4: ;
  v13 = (struct S17_struct_std___Rb_tree_node_base**)&(*a0).f0.f1.f0.f1;
  *v13 = ((struct S17_struct_std___Rb_tree_node_base*)0);
  v14 = (u8**)&(*a0).f0.f1.f0.f2;
  *v14 = v5;
  v15 = (u8*)&(*a0).f0.f1.f0.f3;
  v16 = (u8**)&(*a0).f0.f1.f0.f3;
  *v16 = v5;
  v17 = (u8*)&(*a0).f0.f1.f1;
  v18 = (u64*)&(*a0).f0.f1.f1;
  *v18 = ((u64)0ULL);
  goto L16;
L5: ;
  v19 = ((u8*)a1 == (u8*)a2);
  if (v19) {
    goto L16;
  } else {
    goto L6;
  }
L6: ;
  v20 = (u8*)&(*a0).f0.f1.f0.f0;
  v21 = (struct S17_struct_std___Rb_tree_node_base*)&(*a0).f0.f1.f0;
  v22 = (u8*)&(*a0).f0.f1.f1;
  v23 = (u64*)&(*a0).f0.f1.f1;
  v24 = a1;
  goto L7;
L7: ;
  v25 = _ZSt18_Rb_tree_incrementPKSt18_Rb_tree_node_base(v24);
  v26 = _ZSt28_Rb_tree_rebalance_for_erasePSt18_Rb_tree_node_baseRS_(v24, v21);
  v27 = (struct S17_struct_std___Rb_tree_node_base**)(&(v26)[(s64)((s64)((u64)1ULL))].f1);
  v28 = (struct S20_class_std___Sp_counted_base**)v27;
  v29 = *v28;
  v30 = ((u8*)v29 == (u8*)((struct S20_class_std___Sp_counted_base*)0));
  if (v30) {
    goto L15;
  } else {
    goto L8;
  }
L8: ;
  v31 = (u32*)(&(*v29).f1);
  v32 = (u64*)v31;
  v33 = (((u64)(*v29).f1 << 0) | ((u64)(*v29).f2 << 32));
  v34 = (v33 == ((u64)4294967297ULL));
  if (v34) {
    goto L9;
  } else {
    goto L10;
  }
L9: ;
  *v31 = ((u32)0ULL);
  v35 = (u32*)(&(*v29).f2);
  *v35 = ((u32)0ULL);
  v36 = (fnptr_t**)&(*v29).f0;
  v37 = *v36;
  v38 = (fnptr_t*)(v37 + (s64)((s64)((u64)2ULL)));
  v39 = *v38;
  ((FT1)v39)(v29);
  v40 = *v36;
  v41 = (fnptr_t*)(v40 + (s64)((s64)((u64)3ULL)));
  v42 = *v41;
  ((FT1)v42)(v29);
  goto L15;
L10: ;
  v43 = *(&__libc_single_threaded);
  v44 = (v43 == ((u8)0ULL));
  if (v44) {
    goto L12;
  } else {
    goto L11;
  }
L11: ;
  v45 = *v31;
  v46 = ((u32)(v45 + ((u32)4294967295ULL)));
  *v31 = v46;
  v49 = v45;
  goto L13;
L12: ;
  v47 = *v31;
  v48 = ((u32)(v47 + ((u32)4294967295ULL)));
  *v31 = v48;
  v49 = v47;
  goto L13;
L13: ;
  v50 = (v49 == ((u32)1ULL));
  if (v50) {
    goto L14;
  } else {
    goto L15;
  }
L14: ;
  _ZNSt16_Sp_counted_baseILN9__gnu_cxx12_Lock_policyE2EE24_M_release_last_use_coldEv(v29);
  goto L15;
L15: ;
  v51 = (u8*)v26;
  _ZdlPv(v51);
  v52 = *v23;
  v53 = ((u64)(v52 + ((u64)18446744073709551615ULL)));
  *v23 = v53;
  v54 = ((u8*)v25 == (u8*)a2);
  if (v54) {
    goto L16;
  } else {
    v24 = v25;
    goto L7;
  }
L16: ;
  return;
}

struct S17_struct_std___Rb_tree_node_base* _ZNSt8_Rb_treeINSt7__cxx1112basic_stringIcSt11char_traitsIcESaIcEEESt4pairIKS5_St10shared_ptrIN14OpenVolumeMesh2IO19PropertyEncoderBaseEEESt10_Select1stISD_ESt4lessIS5_ESaISD_EE22_M_emplace_hint_uniqueIJRKSt21piecewise_construct_tSt5tupleIJOS5_EESO_IJEEEEESt17_Rb_tree_iteratorISD_ESt23_Rb_tree_const_iteratorISD_EDpOT_(struct S16_class_std___Rb_tree_5* a0, struct S17_struct_std___Rb_tree_node_base* a1, struct S0_class_std__ios_base__Init* a2, struct S45_class_std__tuple_195* a3, struct S0_class_std__ios_base__Init* a4) {
  struct S47_struct_std___Rb_tree_std____cxx11__basic* v0; struct S47_struct_std___Rb_tree_std____cxx11__basic v0_m;
  u8* v1;
  struct S16_class_std___Rb_tree_5** v2;
  u8* v3;
  struct S18_struct_std___Rb_tree_node_33* v4;
  struct S67_struct___gnu_cxx____aligned_membuf_34* v5;
  u64* v6;
  u64 v7;
  struct S14_class_std____cxx11__basic_string* v8;
  u8* v9;
  u8** v10;
  u8** v11;
  u8* v12;
  struct S64_union_anon* v13;
  u8* v14;
  u1 v15;
  u64* v16;
  u64 v17;
  u64 v18;
  u1 v19;
  u64* v20;
  u64 v21;
  u64* v22;
  struct S18_struct_std___Rb_tree_node_33** v23;
  u64* v24;
  u64 v25;
  u8* v26;
  u64* v27;
  struct S64_union_anon** v28;
  u8* v29;
  u8** v30;
  struct S18_struct_std___Rb_tree_node_33* v31;
  struct S67_struct___gnu_cxx____aligned_membuf_34* v32;
  struct S14_class_std____cxx11__basic_string* v33;
  struct S46 v34;
  struct S17_struct_std___Rb_tree_node_base* v35;
  struct S17_struct_std___Rb_tree_node_base* v36;
  u1 v37;
  struct S16_class_std___Rb_tree_5* v38;
  struct S18_struct_std___Rb_tree_node_33* v39;
  u1 v40;
  u8* v41;
  u8* v42;
  struct S17_struct_std___Rb_tree_node_base* v43;
  u1 v44;
  u1 v45;
  u8* v46;
  u64* v47;
  u64 v48;
  struct S17_struct_std___Rb_tree_node_base** v49;
  u64* v50;
  u64 v51;
  u1 v52;
  u64 v53;
  u1 v54;
  struct S17_struct_std___Rb_tree_node_base* v55;
  struct S67_struct___gnu_cxx____aligned_membuf_34* v56;
  u8** v57;
  u8* v58;
  u8** v59;
  u8* v60;
  u32 v61;
  u32 v62; u32 v62_t;
  u1 v63;
  u64 v64;
  u1 v65;
  u64 v66;
  u1 v67;
  u64 v68;
  u32 v69;
  u32 v70; u32 v70_t;
  u1 v71;
  u1 v72; u1 v72_t;
  struct S17_struct_std___Rb_tree_node_base* v73;
  u8* v74;
  u64* v75;
  u64 v76;
  u64 v77;
  struct S65 v78;
  struct S17_struct_std___Rb_tree_node_base* v79; struct S17_struct_std___Rb_tree_node_base* v79_t;
  struct S18_struct_std___Rb_tree_node_33* v80;
  u1 v81;
  struct S67_struct___gnu_cxx____aligned_membuf_34* v82;
  u8* v83;
  struct S20_class_std___Sp_counted_base** v84;
  struct S20_class_std___Sp_counted_base* v85;
  u1 v86;
  u32* v87;
  u64* v88;
  u64 v89;
  u1 v90;
  u32* v91;
  fnptr_t** v92;
  fnptr_t* v93;
  fnptr_t* v94;
  fnptr_t v95;
  fnptr_t* v96;
  fnptr_t* v97;
  fnptr_t v98;
  u8 v99;
  u1 v100;
  u32 v101;
  u32 v102;
  u32 v103;
  u32 v104;
  u32 v105; u32 v105_t;
  u1 v106;
  u8** v107;
  u8* v108;
  u8* v109;
  u1 v110;
  u8* v111;
L0: ;
  v0 = &v0_m;
  v1 = (u8*)v0;
  v2 = (struct S16_class_std___Rb_tree_5**)(&(*v0).f0);
  *v2 = a0;
  v3 = (u8*)((((u64)80ULL) % sizeof(struct S18_struct_std___Rb_tree_node_33) == 0) ? __CPROVER_allocate(sizeof(struct S18_struct_std___Rb_tree_node_33) * (((u64)80ULL) / sizeof(struct S18_struct_std___Rb_tree_node_33)), 0) : __CPROVER_allocate(((u64)80ULL), 0));
  v_alloc_note((u8*)v3);
  v4 = (struct S18_struct_std___Rb_tree_node_33*)v3;
  v5 = (struct S67_struct___gnu_cxx____aligned_membuf_34*)(&(*v4).f1);
  v6 = (u64*)a3;
  v7 = *v6;
  v8 = (struct S14_class_std____cxx11__basic_string*)(u64)v7;
  v9 = (u8*)(&(*v4).f1.f0.e[(s64)((s64)((u64)16ULL))]);
  v10 = (u8**)v5;
  *v10 = v9;
  v11 = (u8**)(&(*v8).f0.f0);
  v12 = *v11;
  v13 = (struct S64_union_anon*)(&(*v8).f2);
  v14 = (u8*)v13;
  v15 = ((u8*)v12 == (u8*)v14);
  if (v15) {
    goto L1;
  } else {
    goto L3;
  }
L1: ;
  v16 = (u64*)(&(*v8).f1);
  v17 = *v16;
  v18 = ((u64)(v17 + ((u64)1ULL)));
  v19 = (v18 == ((u64)0ULL));
  if (v19) {
    goto L4;
  } else {
    goto L2;
  }
L2: ;
  v_memcpy((u8*)v9, (u8*)v14, (u64)v18);
  goto L4;
L3: ;
  *v10 = v12;
  v20 = (u64*)(&(*v8).f2.f0.e[0]);
  v21 = *v20;
  v22 = (u64*)v9;
  (*v4).f1.f0.e[16] = (u8)(v21 >> 0);
  (*v4).f1.f0.e[17] = (u8)(v21 >> 8);
  (*v4).f1.f0.e[18] = (u8)(v21 >> 16);
  (*v4).f1.f0.e[19] = (u8)(v21 >> 24);
  (*v4).f1.f0.e[20] = (u8)(v21 >> 32);
  (*v4).f1.f0.e[21] = (u8)(v21 >> 40);
  (*v4).f1.f0.e[22] = (u8)(v21 >> 48);
  (*v4).f1.f0.e[23] = (u8)(v21 >> 56);
  goto L4;
L4: ;
  v23 = (struct S18_struct_std___Rb_tree_node_33**)(&(*v0).f1);
  v24 = (u64*)(&(*v8).f1);
  v25 = *v24;
  v26 = (u8*)(&(*v4).f1.f0.e[(s64)((s64)((u64)8ULL))]);
  v27 = (u64*)v26;
  (*v4).f1.f0.e[8] = (u8)(v25 >> 0);
  (*v4).f1.f0.e[9] = (u8)(v25 >> 8);
  (*v4).f1.f0.e[10] = (u8)(v25 >> 16);
  (*v4).f1.f0.e[11] = (u8)(v25 >> 24);
  (*v4).f1.f0.e[12] = (u8)(v25 >> 32);
  (*v4).f1.f0.e[13] = (u8)(v25 >> 40);
  (*v4).f1.f0.e[14] = (u8)(v25 >> 48);
  (*v4).f1.f0.e[15] = (u8)(v25 >> 56);
  v28 = (struct S64_union_anon**)(u64)v7;
  *v28 = v13;
  *v24 = ((u64)0ULL);
  *v14 = ((u8)0ULL);
  v29 = (u8*)(&(*v4).f1.f0.e[(s64)((s64)((u64)32ULL))]);
  (*v4).f1.f0.e[32] = ((u8)0ULL);
  (*v4).f1.f0.e[33] = ((u8)0ULL);
  (*v4).f1.f0.e[34] = ((u8)0ULL);
  (*v4).f1.f0.e[35] = ((u8)0ULL);
  (*v4).f1.f0.e[36] = ((u8)0ULL);
  (*v4).f1.f0.e[37] = ((u8)0ULL);
  (*v4).f1.f0.e[38] = ((u8)0ULL);
  (*v4).f1.f0.e[39] = ((u8)0ULL);
  (*v4).f1.f0.e[40] = ((u8)0ULL);
  (*v4).f1.f0.e[41] = ((u8)0ULL);
  (*v4).f1.f0.e[42] = ((u8)0ULL);
  (*v4).f1.f0.e[43] = ((u8)0ULL);
  (*v4).f1.f0.e[44] = ((u8)0ULL);
  (*v4).f1.f0.e[45] = ((u8)0ULL);
  (*v4).f1.f0.e[46] = ((u8)0ULL);
  (*v4).f1.f0.e[47] = ((u8)0ULL);
  v30 = (u8**)&(*v0).f1;
  *v30 = v3;
  v31 = (struct S18_struct_std___Rb_tree_node_33*)v3;
  v32 = (struct S67_struct___gnu_cxx____aligned_membuf_34*)(&(*v31).f1);
  v33 = (struct S14_class_std____cxx11__basic_string*)v32;
  v34 = _ZNSt8_Rb_treeINSt7__cxx1112basic_stringIcSt11char_traitsIcESaIcEEESt4pairIKS5_St10shared_ptrIN14OpenVolumeMesh2IO19PropertyEncoderBaseEEESt10_Select1stISD_ESt4lessIS5_ESaISD_EE29_M_get_insert_hint_unique_posESt23_Rb_tree_const_iteratorISD_ERS7_(a0, a1, v33);
  if (v_exc) {
    goto L13;
  }
  goto L5;
L5: ;
  v35 = v34.f0;
  v36 = v34.f1;
  v37 = ((u8*)v36 == (u8*)((struct S17_struct_std___Rb_tree_node_base*)0));
  if (v37) {
    v79 = v35;
    goto L14;
  } else {
    goto L6;
  }
L6: ;
  v38 = *v2;
  v39 = *v23;
  v40 = ((u8*)v35 != (u8*)((struct S17_struct_std___Rb_tree_node_base*)0));
  v41 = (u8*)(&(*v38).f0.f0.f0.f0);
  v42 = (u8*)&(*v38).f0.f1.f0.f0;
  v43 = (struct S17_struct_std___Rb_tree_node_base*)&(*v38).f0.f1.f0;
  v44 = ((u8*)v36 == (u8*)v43);
  v45 = (v40 ? ((u1)1ULL) : v44);
  if (v45) {
    v72 = ((u1)1ULL);
    goto L12;
  } else {
    goto L7;
  }
L7: ;
  v46 = (u8*)(&(*v39).f1.f0.e[(s64)((s64)((u64)8ULL))]);
  v47 = (u64*)v46;
  v48 = (((u64)(*v39).f1.f0.e[8] << 0) | ((u64)(*v39).f1.f0.e[9] << 8) | ((u64)(*v39).f1.f0.e[10] << 16) | ((u64)(*v39).f1.f0.e[11] << 24) | ((u64)(*v39).f1.f0.e[12] << 32) | ((u64)(*v39).f1.f0.e[13] << 40) | ((u64)(*v39).f1.f0.e[14] << 48) | ((u64)(*v39).f1.f0.e[15] << 56));
  v49 = (struct S17_struct_std___Rb_tree_node_base**)(&(v36)[(s64)((s64)((u64)1ULL))].f1);
  v50 = (u64*)v49;
  v51 = *v50;
  v52 = (v48 > v51);
  v53 = (v52 ? v51 : v48);
  v54 = (v53 == ((u64)0ULL));
  if (v54) {
    v62 = ((u32)0ULL);
    goto L9;
  } else {
    goto L8;
  }
L8: ;
  v55 = (struct S17_struct_std___Rb_tree_node_base*)(v36 + (s64)((s64)((u64)1ULL)));
  v56 = (struct S67_struct___gnu_cxx____aligned_membuf_34*)(&(*v39).f1);
  v57 = (u8**)v55;
  v58 = *v57;
  v59 = (u8**)v56;
  v60 = *v59;
  v61 = memcmp(v60, v58, v53);
  v62 = v61;
  goto L9;
L9: ;
  v63 = (v62 == ((u32)0ULL));
  if (v63) {
    goto L10;
  } else {
    v70 = v62;
    goto L11;
  }
L10: ;
  v64 = ((u64)(v48 - v51));
  v65 = (((s64)v64) > ((s64)((u64)18446744071562067968ULL)));
  v66 = (v65 ? v64 : ((u64)18446744071562067968ULL));
  v67 = (((s64)v66) < ((s64)((u64)2147483647ULL)));
  v68 = (v67 ? v66 : ((u64)2147483647ULL));
  v69 = ((u32)(v68));
  v70 = v69;
  goto L11;
L11: ;
  v71 = (((s32)v70) < ((s32)((u32)0ULL)));
  v72 = v71;
  goto L12;
L12: ;
  v73 = (struct S17_struct_std___Rb_tree_node_base*)(&(*v39).f0);
  _ZSt29_Rb_tree_insert_and_rebalancebPSt18_Rb_tree_node_baseS0_RS_(v72, v73, v36, v43);
  v74 = (u8*)&(*v38).f0.f1.f1;
  v75 = (u64*)&(*v38).f0.f1.f1;
  v76 = *v75;
  v77 = ((u64)(v76 + ((u64)1ULL)));
  *v75 = v77;
  *v23 = ((struct S18_struct_std___Rb_tree_node_33*)0);
  v79 = v73;
  goto L14;
L13: ;
  v78.f0 = v_exc_obj;
  v78.f1 = 0;
  v_exc = 0;
  _ZNSt8_Rb_treeINSt7__cxx1112basic_stringIcSt11char_traitsIcESaIcEEESt4pairIKS5_St10shared_ptrIN14OpenVolumeMesh2IO19PropertyEncoderBaseEEESt10_Select1stISD_ESt4lessIS5_ESaISD_EE10_Auto_nodeD2Ev(v0);
  v_exc = 1; return (struct S17_struct_std___Rb_tree_node_base*)0;
L14: ;
  v80 = *v23;
  v81 = ((u8*)v80 == (u8*)((struct S18_struct_std___Rb_tree_node_33*)0));
  if (v81) {
    goto L26;
  } else {
    goto L15;
  }
L15: ;
  v82 = (struct S67_struct___gnu_cxx____aligned_membuf_34*)(&(*v80).f1);
  v83 = (u8*)(&(*v80).f1.f0.e[(s64)((s64)((u64)40ULL))]);
  v84 = (struct S20_class_std___Sp_counted_base**)v83;
  v85 = *v84;
  v86 = ((u8*)v85 == (u8*)((struct S20_class_std___Sp_counted_base*)0));
  if (v86) {
    goto L23;
  } else {
    goto L16;
  }
L16: ;
  v87 = (u32*)(&(*v85).f1);
  v88 = (u64*)v87;
  v89 = (((u64)(*v85).f1 << 0) | ((u64)(*v85).f2 << 32));
  v90 = (v89 == ((u64)4294967297ULL));
  if (v90) {
    goto L17;
  } else {
    goto L18;
  }
L17: ;
  *v87 = ((u32)0ULL);
  v91 = (u32*)(&(*v85).f2);
  *v91 = ((u32)0ULL);
  v92 = (fnptr_t**)&(*v85).f0;
  v93 = *v92;
  v94 = (fnptr_t*)(v93 + (s64)((s64)((u64)2ULL)));
  v95 = *v94;
  ((FT1)v95)(v85);
  v96 = *v92;
  v97 = (fnptr_t*)(v96 + (s64)((s64)((u64)3ULL)));
  v98 = *v97;
  ((FT1)v98)(v85);
  goto L23;
L18: ;
  v99 = *(&__libc_single_threaded);
  v100 = (v99 == ((u8)0ULL));
  if (v100) {
    goto L20;
  } else {
    goto L19;
  }
L19: ;
  v101 = *v87;
  v102 = ((u32)(v101 + ((u32)4294967295ULL)));
  *v87 = v102;
  v105 = v101;
  goto L21;
L20: ;
  v103 = *v87;
  v104 = ((u32)(v103 + ((u32)4294967295ULL)));
  *v87 = v104;
  v105 = v103;
  goto L21;
L21: ;
  v106 = (v105 == ((u32)1ULL));
  if (v106) {
    goto L22;
  } else {
    goto L23;
  }
L22: ;
  _ZNSt16_Sp_counted_baseILN9__gnu_cxx12_Lock_policyE2EE24_M_release_last_use_coldEv(v85);
  goto L23;
L23: ;
  v107 = (u8**)v82;
  v108 = *v107;
  v109 = (u8*)(&(*v80).f1.f0.e[(s64)((s64)((u64)16ULL))]);
  v110 = ((u8*)v108 == (u8*)v109);
  if (v110) {
    goto L25;
  } else {
    goto L24;
  }
L24: ;
  _ZdlPv(v108);
  goto L25;
L25: ;
  v111 = (u8*)v80;
  _ZdlPv(v111);
  goto L26;
L26: ;
  return v79;
}

struct S46 _ZNSt8_Rb_treeINSt7__cxx1112basic_stringIcSt11char_traitsIcESaIcEEESt4pairIKS5_St10shared_ptrIN14OpenVolumeMesh2IO19PropertyEncoderBaseEEESt10_Select1stISD_ESt4lessIS5_ESaISD_EE29_M_get_insert_hint_unique_posESt23_Rb_tree_const_iteratorISD_ERS7_(struct S16_class_std___Rb_tree_5* a0, struct S17_struct_std___Rb_tree_node_base* a1, struct S14_class_std____cxx11__basic_string* a2) {
  u8* v0;
  u8* v1;
  struct S17_struct_std___Rb_tree_node_base* v2;
  u1 v3;
  u8* v4;
  u64* v5;
  u64 v6;
  u1 v7;
  u8* v8;
  struct S17_struct_std___Rb_tree_node_base** v9;
  struct S17_struct_std___Rb_tree_node_base* v10;
  struct S17_struct_std___Rb_tree_node_base** v11;
  u64* v12;
  u64 v13;
  u64* v14;
  u64 v15;
  u1 v16;
  u64 v17;
  u1 v18;
  struct S17_struct_std___Rb_tree_node_base* v19;
  u8** v20;
  u8* v21;
  u8** v22;
  u8* v23;
  u32 v24;
  u32 v25; u32 v25_t;
  u1 v26;
  u64 v27;
  u1 v28;
  u64 v29;
  u1 v30;
  u64 v31;
  u32 v32;
  u32 v33; u32 v33_t;
  u1 v34;
  struct S46 v35;
  struct S17_struct_std___Rb_tree_node_base* v36;
  struct S17_struct_std___Rb_tree_node_base* v37;
  struct S17_struct_std___Rb_tree_node_base* v38;
  u64* v39;
  u64 v40;
  struct S17_struct_std___Rb_tree_node_base** v41;
  u64* v42;
  u64 v43;
  u1 v44;
  u64 v45;
  u1 v46;
  u8** v47;
  u8* v48;
  u8** v49;
  u8* v50;
  u32 v51;
  u32 v52; u32 v52_t;
  u1 v53;
  u64 v54;
  u1 v55;
  u64 v56;
  u1 v57;
  u64 v58;
  u32 v59;
  u32 v60; u32 v60_t;
  u1 v61;
  u8* v62;
  struct S17_struct_std___Rb_tree_node_base** v63;
  struct S17_struct_std___Rb_tree_node_base* v64;
  u1 v65;
  struct S17_struct_std___Rb_tree_node_base* v66;
  struct S17_struct_std___Rb_tree_node_base** v67;
  u64* v68;
  u64 v69;
  u1 v70;
  u64 v71;
  u1 v72;
  struct S17_struct_std___Rb_tree_node_base* v73;
  u8** v74;
  u8* v75;
  u8** v76;
  u8* v77;
  u32 v78;
  u32 v79; u32 v79_t;
  u1 v80;
  u64 v81;
  u1 v82;
  u64 v83;
  u1 v84;
  u64 v85;
  u32 v86;
  u32 v87; u32 v87_t;
  u1 v88;
  struct S17_struct_std___Rb_tree_node_base** v89;
  struct S18_struct_std___Rb_tree_node_33** v90;
  struct S18_struct_std___Rb_tree_node_33* v91;
  u1 v92;
  struct S17_struct_std___Rb_tree_node_base* v93;
  struct S17_struct_std___Rb_tree_node_base* v94;
  struct S46 v95;
  struct S17_struct_std___Rb_tree_node_base* v96;
  struct S17_struct_std___Rb_tree_node_base* v97;
  u8** v98;
  u8* v99;
  u8** v100;
  u8* v101;
  u32 v102;
  u32 v103; u32 v103_t;
  u1 v104;
  u64 v105;
  u1 v106;
  u64 v107;
  u1 v108;
  u64 v109;
  u32 v110;
  u32 v111; u32 v111_t;
  u1 v112;
  u8* v113;
  struct S17_struct_std___Rb_tree_node_base** v114;
  struct S17_struct_std___Rb_tree_node_base* v115;
  u1 v116;
  struct S17_struct_std___Rb_tree_node_base* v117;
  struct S17_struct_std___Rb_tree_node_base** v118;
  u64* v119;
  u64 v120;
  u1 v121;
  u64 v122;
  u1 v123;
  struct S17_struct_std___Rb_tree_node_base* v124;
  u8** v125;
  u8* v126;
  u8** v127;
  u8* v128;
  u32 v129;
  u32 v130; u32 v130_t;
  u1 v131;
  u64 v132;
  u1 v133;
  u64 v134;
  u1 v135;
  u64 v136;
  u32 v137;
  u32 v138; u32 v138_t;
  u1 v139;
  struct S17_struct_std___Rb_tree_node_base** v140;
  struct S18_struct_std___Rb_tree_node_33** v141;
  struct S18_struct_std___Rb_tree_node_33* v142;
  u1 v143;
  struct S17_struct_std___Rb_tree_node_base* v144;
  struct S17_struct_std___Rb_tree_node_base* v145;
  struct S46 v146;
  struct S17_struct_std___Rb_tree_node_base* v147;
  struct S17_struct_std___Rb_tree_node_base* v148;
  struct S17_struct_std___Rb_tree_node_base* v149; struct S17_struct_std___Rb_tree_node_base* v149_t;
  struct S17_struct_std___Rb_tree_node_base* v150; struct S17_struct_std___Rb_tree_node_base* v150_t;
  struct S46 v151;
  struct S46 v152;
L0: ;
  v0 = (u8*)(&(*a0).f0.f0.f0.f0);
  v1 = (u8*)&(*a0).f0.f1.f0.f0;
  v2 = (struct S17_struct_std___Rb_tree_node_base*)&(*a0).f0.f1.f0;
  v3 = ((u8*)v2 == (u8*)a1);
  if (v3) {
    goto L1;
  } else {
    goto L8;
  }
L1: ;
  v4 = (u8*)&(*a0).f0.f1.f1;
  v5 = (u64*)&(*a0).f0.f1.f1;
  v6 = *v5;
  v7 = (v6 == ((u64)0ULL));
  if (v7) {
    goto L7;
  } else {
    goto L2;
  }
L2: ;
  v8 = (u8*)&(*a0).f0.f1.f0.f3;
  v9 = (struct S17_struct_std___Rb_tree_node_base**)&(*a0).f0.f1.f0.f3;
  v10 = *v9;
  v11 = (struct S17_struct_std___Rb_tree_node_base**)(&(v10)[(s64)((s64)((u64)1ULL))].f1);
  v12 = (u64*)v11;
  v13 = *v12;
  v14 = (u64*)(&(*a2).f1);
  v15 = *v14;
  v16 = (v13 > v15);
  v17 = (v16 ? v15 : v13);
  v18 = (v17 == ((u64)0ULL));
  if (v18) {
    v25 = ((u32)0ULL);
    goto L4;
  } else {
    goto L3;
  }
L3: ;
  v19 = (struct S17_struct_std___Rb_tree_node_base*)(v10 + (s64)((s64)((u64)1ULL)));
  v20 = (u8**)(&(*a2).f0.f0);
  v21 = *v20;
  v22 = (u8**)v19;
  v23 = *v22;
  v24 = memcmp(v23, v21, v17);
  v25 = v24;
  goto L4;
L4: ;
  v26 = (v25 == ((u32)0ULL));
  if (v26) {
    goto L5;
  } else {
    v33 = v25;
    goto L6;
  }
L5: ;
  v27 = ((u64)(v13 - v15));
  v28 = (((s64)v27) > ((s64)((u64)18446744071562067968ULL)));
  v29 = (v28 ? v27 : ((u64)18446744071562067968ULL));
  v30 = (((s64)v29) < ((s64)((u64)2147483647ULL)));
  v31 = (v30 ? v29 : ((u64)2147483647ULL));
  v32 = ((u32)(v31));
  v33 = v32;
  goto L6;
L6: ;
  v34 = (((s32)v33) < ((s32)((u32)0ULL)));
  if (v34) {
    v149_t = ((struct S17_struct_std___Rb_tree_node_base*)0);
    v150_t = v10;
    v149 = v149_t;
    v150 = v150_t;
    goto L34;
  } else {
    goto L7;
  }
L7: ;
  v35 = _ZNSt8_Rb_treeINSt7__cxx1112basic_stringIcSt11char_traitsIcESaIcEEESt4pairIKS5_St10shared_ptrIN14OpenVolumeMesh2IO19PropertyEncoderBaseEEESt10_Select1stISD_ESt4lessIS5_ESaISD_EE24_M_get_insert_unique_posERS7_(a0, a2);
  if (v_exc) { struct S46 _d = {0}; return _d; }
  v36 = v35.f0;
  v37 = v35.f1;
  v149_t = v36;
  v150_t = v37;
  v149 = v149_t;
  v150 = v150_t;
  goto L34;
L8: ;
  v38 = (struct S17_struct_std___Rb_tree_node_base*)(a1 + (s64)((s64)((u64)1ULL)));
  v39 = (u64*)(&(*a2).f1);
  v40 = *v39;
  v41 = (struct S17_struct_std___Rb_tree_node_base**)(&(a1)[(s64)((s64)((u64)1ULL))].f1);
  v42 = (u64*)v41;
  v43 = *v42;
  v44 = (v40 > v43);
  v45 = (v44 ? v43 : v40);
  v46 = (v45 == ((u64)0ULL));
  if (v46) {
    v52 = ((u32)0ULL);
    goto L10;
  } else {
    goto L9;
  }
L9: ;
  v47 = (u8**)v38;
  v48 = *v47;
  v49 = (u8**)(&(*a2).f0.f0);
  v50 = *v49;
  v51 = memcmp(v50, v48, v45);
  v52 = v51;
  goto L10;
L10: ;
  v53 = (v52 == ((u32)0ULL));
  if (v53) {
    goto L11;
  } else {
    v60 = v52;
    goto L12;
  }
L11: ;
  v54 = ((u64)(v40 - v43));
  v55 = (((s64)v54) > ((s64)((u64)18446744071562067968ULL)));
  v56 = (v55 ? v54 : ((u64)18446744071562067968ULL));
  v57 = (((s64)v56) < ((s64)((u64)2147483647ULL)));
  v58 = (v57 ? v56 : ((u64)2147483647ULL));
  v59 = ((u32)(v58));
  v60 = v59;
  goto L12;
L12: ;
  v61 = (((s32)v60) < ((s32)((u32)0ULL)));
  if (v61) {
    goto L13;
  } else {
    goto L21;
  }
L13: ;
  v62 = (u8*)&(*a0).f0.f1.f0.f2;
  v63 = (struct S17_struct_std___Rb_tree_node_base**)&(*a0).f0.f1.f0.f2;
  v64 = *v63;
  v65 = ((u8*)v64 == (u8*)a1);
  if (v65) {
    v149_t = v64;
    v150_t = v64;
    v149 = v149_t;
    v150 = v150_t;
    goto L34;
  } else {
    goto L14;
  }
L14: ;
  v66 = _ZSt18_Rb_tree_decrementPSt18_Rb_tree_node_base(a1);
  v67 = (struct S17_struct_std___Rb_tree_node_base**)(&(v66)[(s64)((s64)((u64)1ULL))].f1);
  v68 = (u64*)v67;
  v69 = *v68;
  v70 = (v69 > v40);
  v71 = (v70 ? v40 : v69);
  v72 = (v71 == ((u64)0ULL));
  if (v72) {
    v79 = ((u32)0ULL);
    goto L16;
  } else {
    goto L15;
  }
L15: ;
  v73 = (struct S17_struct_std___Rb_tree_node_base*)(v66 + (s64)((s64)((u64)1ULL)));
  v74 = (u8**)(&(*a2).f0.f0);
  v75 = *v74;
  v76 = (u8**)v73;
  v77 = *v76;
  v78 = memcmp(v77, v75, v71);
  v79 = v78;
  goto L16;
L16: ;
  v80 = (v79 == ((u32)0ULL));
  if (v80) {
    goto L17;
  } else {
    v87 = v79;
    goto L18;
  }
L17: ;
  v81 = ((u64)(v69 - v40));
  v82 = (((s64)v81) > ((s64)((u64)18446744071562067968ULL)));
  v83 = (v82 ? v81 : ((u64)18446744071562067968ULL));
  v84 = (((s64)v83) < ((s64)((u64)2147483647ULL)));
  v85 = (v84 ? v83 : ((u64)2147483647ULL));
  v86 = ((u32)(v85));
  v87 = v86;
  goto L18;
L18: ;
  v88 = (((s32)v87) < ((s32)((u32)0ULL)));
  if (v88) {
    goto L19;
  } else {
    goto L20;
  }
L19: ;
  v89 = (struct S17_struct_std___Rb_tree_node_base**)(&(*v66).f3);
  v90 = (struct S18_struct_std___Rb_tree_node_33**)&(*v66).f3;
  v91 = *v90;
  v92 = ((u8*)v91 == (u8*)((struct S18_struct_std___Rb_tree_node_33*)0));
  v93 = (v92 ? ((struct S17_struct_std___Rb_tree_node_base*)0) : a1);
  v94 = (v92 ? v66 : a1);
  v149_t = v93;
  v150_t = v94;
  v149 = v149_t;
  v150 = v150_t;
  goto L34;
L20: ;
  v95 = _ZNSt8_Rb_treeINSt7__cxx1112basic_stringIcSt11char_traitsIcESaIcEEESt4pairIKS5_St10shared_ptrIN14OpenVolumeMesh2IO19PropertyEncoderBaseEEESt10_Select1stISD_ESt4lessIS5_ESaISD_EE24_M_get_insert_unique_posERS7_(a0, a2);
  if (v_exc) { struct S46 _d = {0}; return _d; }
  v96 = v95.f0;
  v97 = v95.f1;
  v149_t = v96;
  v150_t = v97;
  v149 = v149_t;
  v150 = v150_t;
  goto L34;
L21: ;
  if (v46) {
    v103 = ((u32)0ULL);
    goto L23;
  } else {
    goto L22;
  }
L22: ;
  v98 = (u8**)(&(*a2).f0.f0);
  v99 = *v98;
  v100 = (u8**)v38;
  v101 = *v100;
  v102 = memcmp(v101, v99, v45);
  v103 = v102;
  goto L23;
L23: ;
  v104 = (v103 == ((u32)0ULL));
  if (v104) {
    goto L24;
  } else {
    v111 = v103;
    goto L25;
  }
L24: ;
  v105 = ((u64)(v43 - v40));
  v106 = (((s64)v105) > ((s64)((u64)18446744071562067968ULL)));
  v107 = (v106 ? v105 : ((u64)18446744071562067968ULL));
  v108 = (((s64)v107) < ((s64)((u64)2147483647ULL)));
  v109 = (v108 ? v107 : ((u64)2147483647ULL));
  v110 = ((u32)(v109));
  v111 = v110;
  goto L25;
L25: ;
  v112 = (((s32)v111) < ((s32)((u32)0ULL)));
  if (v112) {
    goto L26;
  } else {
    v149_t = a1;
    v150_t = ((struct S17_struct_std___Rb_tree_node_base*)0);
    v149 = v149_t;
    v150 = v150_t;
    goto L34;
  }
L26: ;
  v113 = (u8*)&(*a0).f0.f1.f0.f3;
  v114 = (struct S17_struct_std___Rb_tree_node_base**)&(*a0).f0.f1.f0.f3;
  v115 = *v114;
  v116 = ((u8*)v115 == (u8*)a1);
  if (v116) {
    v149_t = ((struct S17_struct_std___Rb_tree_node_base*)0);
    v150_t = v115;
    v149 = v149_t;
    v150 = v150_t;
    goto L34;
  } else {
    goto L27;
  }
L27: ;
  v117 = _ZSt18_Rb_tree_incrementPSt18_Rb_tree_node_base(a1);
  v118 = (struct S17_struct_std___Rb_tree_node_base**)(&(v117)[(s64)((s64)((u64)1ULL))].f1);
  v119 = (u64*)v118;
  v120 = *v119;
  v121 = (v40 > v120);
  v122 = (v121 ? v120 : v40);
  v123 = (v122 == ((u64)0ULL));
  if (v123) {
    v130 = ((u32)0ULL);
    goto L29;
  } else {
    goto L28;
  }
L28: ;
  v124 = (struct S17_struct_std___Rb_tree_node_base*)(v117 + (s64)((s64)((u64)1ULL)));
  v125 = (u8**)v124;
  v126 = *v125;
  v127 = (u8**)(&(*a2).f0.f0);
  v128 = *v127;
  v129 = memcmp(v128, v126, v122);
  v130 = v129;
  goto L29;
L29: ;
  v131 = (v130 == ((u32)0ULL));
  if (v131) {
    goto L30;
  } else {
    v138 = v130;
    goto L31;
  }
L30: ;
  v132 = ((u64)(v40 - v120));
  v133 = (((s64)v132) > ((s64)((u64)18446744071562067968ULL)));
  v134 = (v133 ? v132 : ((u64)18446744071562067968ULL));
  v135 = (((s64)v134) < ((s64)((u64)2147483647ULL)));
  v136 = (v135 ? v134 : ((u64)2147483647ULL));
  v137 = ((u32)(v136));
  v138 = v137;
  goto L31;
L31: ;
  v139 = (((s32)v138) < ((s32)((u32)0ULL)));
  if (v139) {
    goto L32;
  } else {
    goto L33;
  }
L32: ;
  v140 = (struct S17_struct_std___Rb_tree_node_base**)(&(*a1).f3);
  v141 = (struct S18_struct_std___Rb_tree_node_33**)&(*a1).f3;
  v142 = *v141;
  v143 = ((u8*)v142 == (u8*)((struct S18_struct_std___Rb_tree_node_33*)0));
  v144 = (v143 ? ((struct S17_struct_std___Rb_tree_node_base*)0) : v117);
  v145 = (v143 ? a1 : v117);
  v149_t = v144;
  v150_t = v145;
  v149 = v149_t;
  v150 = v150_t;
  goto L34;
L33: ;
  v146 = _ZNSt8_Rb_treeINSt7__cxx1112basic_stringIcSt11char_traitsIcESaIcEEESt4pairIKS5_St10shared_ptrIN14OpenVolumeMesh2IO19PropertyEncoderBaseEEESt10_Select1stISD_ESt4lessIS5_ESaISD_EE24_M_get_insert_unique_posERS7_(a0, a2);
  if (v_exc) { struct S46 _d = {0}; return _d; }
  v147 = v146.f0;
  v148 = v146.f1;
  v149_t = v147;
  v150_t = v148;
  v149 = v149_t;
  v150 = v150_t;
  goto L34;
L34: ;
  v151.f0 = v149;
  v152 = v151;
  v152.f1 = v150;
  return v152;
}

void _ZNSt8_Rb_treeINSt7__cxx1112basic_stringIcSt11char_traitsIcESaIcEEESt4pairIKS5_St10shared_ptrIN14OpenVolumeMesh2IO19PropertyEncoderBaseEEESt10_Select1stISD_ESt4lessIS5_ESaISD_EE10_Auto_nodeD2Ev(struct S47_struct_std___Rb_tree_std____cxx11__basic* a0) {
  struct S18_struct_std___Rb_tree_node_33** v0;
  struct S18_struct_std___Rb_tree_node_33* v1;
  u1 v2;
  struct S67_struct___gnu_cxx____aligned_membuf_34* v3;
  u8* v4;
  struct S20_class_std___Sp_counted_base** v5;
  struct S20_class_std___Sp_counted_base* v6;
  u1 v7;
  u32* v8;
  u64* v9;
  u64 v10;
  u1 v11;
  u32* v12;
  fnptr_t** v13;
  fnptr_t* v14;
  fnptr_t* v15;
  fnptr_t v16;
  fnptr_t* v17;
  fnptr_t* v18;
  fnptr_t v19;
  u8 v20;
  u1 v21;
  u32 v22;
  u32 v23;
  u32 v24;
  u32 v25;
  u32 v26; u32 v26_t;
  u1 v27;
  u8** v28;
  u8* v29;
  u8* v30;
  u1 v31;
  u8* v32;
L0: ;
  v0 = (struct S18_struct_std___Rb_tree_node_33**)(&(*a0).f1);
  v1 = *v0;
  v2 = ((u8*)v1 == (u8*)((struct S18_struct_std___Rb_tree_node_33*)0));
  if (v2) {
    goto L12;
  } else {
    goto L1;
  }
L1: ;
  v3 = (struct S67_struct___gnu_cxx____aligned_membuf_34*)(&(*v1).f1);
  v4 = (u8*)(&(*v1).f1.f0.e[(s64)((s64)((u64)40ULL))]);
  v5 = (struct S20_class_std___Sp_counted_base**)v4;
  v6 = *v5;
  v7 = ((u8*)v6 == (u8*)((struct S20_class_std___Sp_counted_base*)0));
  if (v7) {
    goto L9;
  } else {
    goto L2;
  }
L2: ;
  v8 = (u32*)(&(*v6).f1);
  v9 = (u64*)v8;
  v10 = (((u64)(*v6).f1 << 0) | ((u64)(*v6).f2 << 32));
  v11 = (v10 == ((u64)4294967297ULL));
  if (v11) {
    goto L3;
  } else {
    goto L4;
  }
L3: ;
  *v8 = ((u32)0ULL);
  v12 = (u32*)(&(*v6).f2);
  *v12 = ((u32)0ULL);
  v13 = (fnptr_t**)&(*v6).f0;
  v14 = *v13;
  v15 = (fnptr_t*)(v14 + (s64)((s64)((u64)2ULL)));
  v16 = *v15;
  ((FT1)v16)(v6);
  v17 = *v13;
  v18 = (fnptr_t*)(v17 + (s64)((s64)((u64)3ULL)));
  v19 = *v18;
  ((FT1)v19)(v6);
  goto L9;
L4: ;
  v20 = *(&__libc_single_threaded);
  v21 = (v20 == ((u8)0ULL));
  if (v21) {
    goto L6;
  } else {
    goto L5;
  }
L5: ;
  v22 = *v8;
  v23 = ((u32)(v22 + ((u32)4294967295ULL)));
  *v8 = v23;
  v26 = v22;
  goto L7;
L6: ;
  v24 = *v8;
  v25 = ((u32)(v24 + ((u32)4294967295ULL)));
  *v8 = v25;
  v26 = v24;
  goto L7;
L7: ;
  v27 = (v26 == ((u32)1ULL));
  if (v27) {
    goto L8;
  } else {
    goto L9;
  }
L8: ;
  _ZNSt16_Sp_counted_baseILN9__gnu_cxx12_Lock_policyE2EE24_M_release_last_use_coldEv(v6);
  goto L9;
L9: ;
  v28 = (u8**)v3;
  v29 = *v28;
  v30 = (u8*)(&(*v1).f1.f0.e[(s64)((s64)((u64)16ULL))]);
  v31 = ((u8*)v29 == (u8*)v30);
  if (v31) {
    goto L11;
  } else {
    goto L10;
  }
L10: ;
  _ZdlPv(v29);
  goto L11;
L11: ;
  v32 = (u8*)v1;
  _ZdlPv(v32);
  goto L12;
L12: ;
  return;
}

struct S46 _ZNSt8_Rb_treeINSt7__cxx1112basic_stringIcSt11char_traitsIcESaIcEEESt4pairIKS5_St10shared_ptrIN14OpenVolumeMesh2IO19PropertyEncoderBaseEEESt10_Select1stISD_ESt4lessIS5_ESaISD_EE24_M_get_insert_unique_posERS7_(struct S16_class_std___Rb_tree_5* a0, struct S14_class_std____cxx11__basic_string* a1) {
  u8* v0;
  u8* v1;
  struct S18_struct_std___Rb_tree_node_33** v2;
  u8* v3;
  struct S17_struct_std___Rb_tree_node_base* v4;
  struct S18_struct_std___Rb_tree_node_33* v5;
  u1 v6;
  u64* v7;
  u64 v8;
  u8** v9;
  u8* v10;
  struct S18_struct_std___Rb_tree_node_33* v11; struct S18_struct_std___Rb_tree_node_33* v11_t;
  u8* v12;
  u64* v13;
  u64 v14;
  u1 v15;
  u64 v16;
  u1 v17;
  struct S67_struct___gnu_cxx____aligned_membuf_34* v18;
  u8** v19;
  u8* v20;
  u32 v21;
  u32 v22; u32 v22_t;
  u1 v23;
  u64 v24;
  u1 v25;
  u64 v26;
  u1 v27;
  u64 v28;
  u32 v29;
  u32 v30; u32 v30_t;
  u1 v31;
  struct S17_struct_std___Rb_tree_node_base** v32;
  struct S17_struct_std___Rb_tree_node_base** v33;
  struct S17_struct_std___Rb_tree_node_base** v34;
  struct S18_struct_std___Rb_tree_node_33** v35;
  struct S18_struct_std___Rb_tree_node_33* v36;
  u1 v37;
  struct S17_struct_std___Rb_tree_node_base* v38;
  struct S17_struct_std___Rb_tree_node_base* v39; struct S17_struct_std___Rb_tree_node_base* v39_t;
  u1 v40; u1 v40_t;
  struct S18_struct_std___Rb_tree_node_33* v41; struct S18_struct_std___Rb_tree_node_33* v41_t;
  u8* v42;
  struct S17_struct_std___Rb_tree_node_base** v43;
  struct S17_struct_std___Rb_tree_node_base* v44;
  u1 v45;
  struct S17_struct_std___Rb_tree_node_base* v46;
  struct S17_struct_std___Rb_tree_node_base* v47;
  struct S17_struct_std___Rb_tree_node_base* v48; struct S17_struct_std___Rb_tree_node_base* v48_t;
  struct S17_struct_std___Rb_tree_node_base** v49;
  u64* v50;
  u64 v51;
  u64* v52;
  u64 v53;
  u1 v54;
  u64 v55;
  u1 v56;
  struct S17_struct_std___Rb_tree_node_base* v57;
  u8** v58;
  u8* v59;
  u8** v60;
  u8* v61;
  u32 v62;
  u32 v63; u32 v63_t;
  u1 v64;
  u64 v65;
  u1 v66;
  u64 v67;
  u1 v68;
  u64 v69;
  u32 v70;
  u32 v71; u32 v71_t;
  u1 v72;
  struct S17_struct_std___Rb_tree_node_base* v73;
  struct S17_struct_std___Rb_tree_node_base* v74;
  struct S17_struct_std___Rb_tree_node_base* v75;
  struct S17_struct_std___Rb_tree_node_base* v76; struct S17_struct_std___Rb_tree_node_base* v76_t;
  struct S17_struct_std___Rb_tree_node_base* v77; struct S17_struct_std___Rb_tree_node_base* v77_t;
  struct S46 v78;
  struct S46 v79;
L0: ;
  v0 = (u8*)(&(*a0).f0.f0.f0.f0);
  v1 = (u8*)&(*a0).f0.f1.f0.f1;
  v2 = (struct S18_struct_std___Rb_tree_node_33**)&(*a0).f0.f1.f0.f1;
  v3 = (u8*)&(*a0).f0.f1.f0.f0;
  v4 = (struct S17_struct_std___Rb_tree_node_base*)&(*a0).f0.f1.f0;
  v5 = *v2;
  v6 = ((u8*)v5 == (u8*)((struct S18_struct_std___Rb_tree_node_33*)0));
  if (v6) {
    v39_t = v4;
    v40_t = ((u1)1ULL);
    v41_t = v5;
    v39 = v39_t;
    v40 = v40_t;
    v41 = v41_t;
    goto L8;
  } else {
    goto L1;
  }
L1: ;
  v7 = (u64*)(&(*a1).f1);
  v8 = *v7;
  v9 = (u8**)(&(*a1).f0.f0);
  v10 = *v9;
  v11 = v5;
  goto L2;
L2: ;
  v12 = (u8*)(&(*v11).f1.f0.e[(s64)((s64)((u64)8ULL))]);
  v13 = (u64*)v12;
  v14 = (((u64)(*v11).f1.f0.e[8] << 0) | ((u64)(*v11).f1.f0.e[9] << 8) | ((u64)(*v11).f1.f0.e[10] << 16) | ((u64)(*v11).f1.f0.e[11] << 24) | ((u64)(*v11).f1.f0.e[12] << 32) | ((u64)(*v11).f1.f0.e[13] << 40) | ((u64)(*v11).f1.f0.e[14] << 48) | ((u64)(*v11).f1.f0.e[15] << 56));
  v15 = (v8 > v14);
  v16 = (v15 ? v14 : v8);
  v17 = (v16 == ((u64)0ULL));
  if (v17) {
    v22 = ((u32)0ULL);
    goto L4;
  } else {
    goto L3;
  }
L3: ;
  v18 = (struct S67_struct___gnu_cxx____aligned_membuf_34*)(&(*v11).f1);
  v19 = (u8**)v18;
  v20 = *v19;
  v21 = memcmp(v10, v20, v16);
  v22 = v21;
  goto L4;
L4: ;
  v23 = (v22 == ((u32)0ULL));
  if (v23) {
    goto L5;
  } else {
    v30 = v22;
    goto L6;
  }
L5: ;
  v24 = ((u64)(v8 - v14));
  v25 = (((s64)v24) > ((s64)((u64)18446744071562067968ULL)));
  v26 = (v25 ? v24 : ((u64)18446744071562067968ULL));
  v27 = (((s64)v26) < ((s64)((u64)2147483647ULL)));
  v28 = (v27 ? v26 : ((u64)2147483647ULL));
  v29 = ((u32)(v28));
  v30 = v29;
  goto L6;
L6: ;
  v31 = (((s32)v30) < ((s32)((u32)0ULL)));
  v32 = (struct S17_struct_std___Rb_tree_node_base**)(&(*v11).f0.f2);
  v33 = (struct S17_struct_std___Rb_tree_node_base**)(&(*v11).f0.f3);
  v34 = (v31 ? v32 : v33);
  v35 = (struct S18_struct_std___Rb_tree_node_33**)v34;
  v36 = *v35;
  v37 = ((u8*)v36 == (u8*)((struct S18_struct_std___Rb_tree_node_33*)0));
  if (v37) {
    goto L7;
  } else {
    v11 = v36;
    goto L2;
  }
L7: ;
  v38 = (struct S17_struct_std___Rb_tree_node_base*)(&(*v11).f0);
  v39_t = v38;
  v40_t = v31;
  v41_t = v36;
  v39 = v39_t;
  v40 = v40_t;
  v41 = v41_t;
  goto L8;
L8: ;
  if (v40) {
    goto L9;
  } else {
    v48 = v39;
    goto L12;
  }
L9: ;
  v42 = (u8*)&(*a0).f0.f1.f0.f2;
  v43 = (struct S17_struct_std___Rb_tree_node_base**)&(*a0).f0.f1.f0.f2;
  v44 = *v43;
  v45 = ((u8*)v39 == (u8*)v44);
  if (v45) {
    goto L10;
  } else {
    goto L11;
  }
L10: ;
  v46 = (struct S17_struct_std___Rb_tree_node_base*)(&(*v41).f0);
  v76_t = v46;
  v77_t = v39;
  v76 = v76_t;
  v77 = v77_t;
  goto L17;
L11: ;
  v47 = _ZSt18_Rb_tree_decrementPSt18_Rb_tree_node_base(v39);
  v48 = v47;
  goto L12;
L12: ;
  v49 = (struct S17_struct_std___Rb_tree_node_base**)(&(v48)[(s64)((s64)((u64)1ULL))].f1);
  v50 = (u64*)v49;
  v51 = *v50;
  v52 = (u64*)(&(*a1).f1);
  v53 = *v52;
  v54 = (v51 > v53);
  v55 = (v54 ? v53 : v51);
  v56 = (v55 == ((u64)0ULL));
  if (v56) {
    v63 = ((u32)0ULL);
    goto L14;
  } else {
    goto L13;
  }
L13: ;
  v57 = (struct S17_struct_std___Rb_tree_node_base*)(v48 + (s64)((s64)((u64)1ULL)));
  v58 = (u8**)(&(*a1).f0.f0);
  v59 = *v58;
  v60 = (u8**)v57;
  v61 = *v60;
  v62 = memcmp(v61, v59, v55);
  v63 = v62;
  goto L14;
L14: ;
  v64 = (v63 == ((u32)0ULL));
  if (v64) {
    goto L15;
  } else {
    v71 = v63;
    goto L16;
  }
L15: ;
  v65 = ((u64)(v51 - v53));
  v66 = (((s64)v65) > ((s64)((u64)18446744071562067968ULL)));
  v67 = (v66 ? v65 : ((u64)18446744071562067968ULL));
  v68 = (((s64)v67) < ((s64)((u64)2147483647ULL)));
  v69 = (v68 ? v67 : ((u64)2147483647ULL));
  v70 = ((u32)(v69));
  v71 = v70;
  goto L16;
L16: ;
  v72 = (((s32)v71) < ((s32)((u32)0ULL)));
  v73 = (struct S17_struct_std___Rb_tree_node_base*)(&(*v41).f0);
  v74 = (v72 ? v73 : v48);
  v75 = (v72 ? v39 : ((struct S17_struct_std___Rb_tree_node_base*)0));
  v76_t = v74;
  v77_t = v75;
  v76 = v76_t;
  v77 = v77_t;
  goto L17;
L17: ;
  v78.f0 = v76;
  v79 = v78;
  v79.f1 = v77;
  return v79;
}

void _ZN14OpenVolumeMesh2IO19PropertyEncoderBaseD2Ev(struct S49_class_OpenVolumeMesh__IO__PropertyEncode* a0) {
  fnptr_t** v0;
  u8** v1;
  u8* v2;
  struct S64_union_anon* v3;
  u8* v4;
  u1 v5;
L0: ;
  v0 = (fnptr_t**)(&(*a0).f0);
  *v0 = ((fnptr_t*)((u8**)(&(*(&_ZTVN14OpenVolumeMesh2IO19PropertyEncoderBaseE)).f0.e[(s64)((s64)((u64)2ULL))])));
  v1 = (u8**)(&(*a0).f1.f0.f0);
  v2 = *v1;
  v3 = (struct S64_union_anon*)(&(*a0).f1.f2);
  v4 = (u8*)v3;
  v5 = ((u8*)v2 == (u8*)v4);
  if (v5) {
    goto L2;
  } else {
    goto L1;
  }
L1: ;
  _ZdlPv(v2);
  goto L2;
L2: ;
  return;
}

void _ZN14OpenVolumeMesh2IO19PropertyEncoderBaseD0Ev(struct S49_class_OpenVolumeMesh__IO__PropertyEncode* a0) {
L0: ;
  __CPROVER_assert(0, "llvm.trap"); __CPROVER_assume(0);
  __CPROVER_assume(0);
}

void _ZN14OpenVolumeMesh2IO14PropertyCodecs14register_codecINS0_6Codecs13BoolPropCodecEEEvRKNSt7__cxx1112basic_stringIcSt11char_traitsIcESaIcEEE(struct S11_class_OpenVolumeMesh__IO__PropertyCodecs* a0, struct S14_class_std____cxx11__basic_string* a1) {
  struct S73_class_std__shared_ptr_3741* v0; struct S73_class_std__shared_ptr_3741 v0_m;
  struct S14_class_std____cxx11__basic_string* v1; struct S14_class_std____cxx11__basic_string v1_m;
  struct S74_class_std__shared_ptr_3745* v2; struct S74_class_std__shared_ptr_3745 v2_m;
  u8* v3;
  struct S61_class_OpenVolumeMesh__IO__PropertyEncode** v4;
  u8* v5;
  struct S50_class_std___Sp_counted_ptr_inplace_3753* v6;
  struct S65 v7; struct S65 v7_t;
  struct S65 v8;
  struct S20_class_std___Sp_counted_base* v9;
  struct S20_class_std___Sp_counted_base** v10;
  struct S75_struct___gnu_cxx____aligned_buffer_3754* v11;
  struct S75_struct___gnu_cxx____aligned_buffer_3754** v12;
  u8* v13;
  struct S43_class_std__map* v14;
  struct S42_class_std__shared_ptr_12* v15;
  struct S49_class_OpenVolumeMesh__IO__PropertyEncode** v16;
  struct S49_class_OpenVolumeMesh__IO__PropertyEncode* v17;
  struct S20_class_std___Sp_counted_base* v18;
  struct S49_class_OpenVolumeMesh__IO__PropertyEncode** v19;
  struct S20_class_std___Sp_counted_base** v20;
  struct S20_class_std___Sp_counted_base* v21;
  u1 v22;
  u32* v23;
  u64* v24;
  u64 v25;
  u1 v26;
  u32* v27;
  fnptr_t** v28;
  fnptr_t* v29;
  fnptr_t* v30;
  fnptr_t v31;
  fnptr_t* v32;
  fnptr_t* v33;
  fnptr_t v34;
  u8 v35;
  u1 v36;
  u32 v37;
  u32 v38;
  u32 v39;
  u32 v40;
  u32 v41; u32 v41_t;
  u1 v42;
  u8** v43;
  u8* v44;
  struct S64_union_anon* v45;
  u8* v46;
  u1 v47;
  struct S20_class_std___Sp_counted_base** v48;
  struct S20_class_std___Sp_counted_base* v49;
  u1 v50;
  u32* v51;
  u64* v52;
  u64 v53;
  u1 v54;
  u32* v55;
  fnptr_t** v56;
  fnptr_t* v57;
  fnptr_t* v58;
  fnptr_t v59;
  fnptr_t* v60;
  fnptr_t* v61;
  fnptr_t v62;
  u8 v63;
  u1 v64;
  u32 v65;
  u32 v66;
  u32 v67;
  u32 v68;
  u32 v69; u32 v69_t;
  u1 v70;
  u8* v71;
  struct S27_class_std__bad_cast** v72;
  u8* v73;
  struct S60_class_std___Sp_counted_ptr_inplace_3767* v74;
  fnptr_t** v75;
  u32* v76;
  u32* v77;
  struct S76_struct___gnu_cxx____aligned_buffer_3768* v78;
  u64* v79;
  fnptr_t** v80;
  struct S20_class_std___Sp_counted_base* v81;
  struct S20_class_std___Sp_counted_base** v82;
  struct S76_struct___gnu_cxx____aligned_buffer_3768** v83;
  struct S43_class_std__map* v84;
  struct S44_class_std__shared_ptr* v85;
  struct S10_class_OpenVolumeMesh__IO__PropertyDecode** v86;
  struct S10_class_OpenVolumeMesh__IO__PropertyDecode* v87;
  struct S20_class_std___Sp_counted_base* v88;
  struct S10_class_OpenVolumeMesh__IO__PropertyDecode** v89;
  struct S20_class_std___Sp_counted_base** v90;
  struct S20_class_std___Sp_counted_base* v91;
  u1 v92;
  u32* v93;
  u64* v94;
  u64 v95;
  u1 v96;
  u32* v97;
  fnptr_t** v98;
  fnptr_t* v99;
  fnptr_t* v100;
  fnptr_t v101;
  fnptr_t* v102;
  fnptr_t* v103;
  fnptr_t v104;
  u8 v105;
  u1 v106;
  u32 v107;
  u32 v108;
  u32 v109;
  u32 v110;
  u32 v111; u32 v111_t;
  u1 v112;
  struct S20_class_std___Sp_counted_base** v113;
  struct S20_class_std___Sp_counted_base* v114;
  u1 v115;
  u32* v116;
  u64* v117;
  u64 v118;
  u1 v119;
  u32* v120;
  fnptr_t** v121;
  fnptr_t* v122;
  fnptr_t* v123;
  fnptr_t v124;
  fnptr_t* v125;
  fnptr_t* v126;
  fnptr_t v127;
  u8 v128;
  u1 v129;
  u32 v130;
  u32 v131;
  u32 v132;
  u32 v133;
  u32 v134; u32 v134_t;
  u1 v135;
  struct S65 v136;
  struct S65 v137;
  u8** v138;
  u8* v139;
  struct S64_union_anon* v140;
  u8* v141;
  u1 v142;
  struct S65 v143; struct S65 v143_t;
  struct S51_class_std____shared_ptr_3742* v144;
  struct S65 v145;
  struct S52_class_std____shared_ptr_3746* v146;
L0: ;
  v0 = &v0_m;
  v1 = &v1_m;
  v2 = &v2_m;
  v3 = (u8*)v0;
  v4 = (struct S61_class_OpenVolumeMesh__IO__PropertyEncode**)(&(*v0).f0.f0);
  *v4 = ((struct S61_class_OpenVolumeMesh__IO__PropertyEncode*)0);
  v5 = (u8*)((((u64)56ULL) % sizeof(struct S50_class_std___Sp_counted_ptr_inplace_3753) == 0) ? __CPROVER_allocate(sizeof(struct S50_class_std___Sp_counted_ptr_inplace_3753) * (((u64)56ULL) / sizeof(struct S50_class_std___Sp_counted_ptr_inplace_3753)), 0) : __CPROVER_allocate(((u64)56ULL), 0));
  v_alloc_note((u8*)v5);
  v6 = (struct S50_class_std___Sp_counted_ptr_inplace_3753*)v5;
  _ZNSt23_Sp_counted_ptr_inplaceIN14OpenVolumeMesh2IO16PropertyEncoderTIbNS1_6Codecs13BoolPropCodecEEESaIvELN9__gnu_cxx12_Lock_policyE2EEC2IJRKNSt7__cxx1112basic_stringIcSt11char_traitsIcESaIcEEEEEES6_DpOT_(v6, a1);
  if (v_exc) {
    goto L2;
  }
  goto L3;
L1: ;
  v_exc = 1; return;
L2: ;
  v8.f0 = v_exc_obj;
  v8.f1 = 0;
  v_exc = 0;
  _ZdlPv(v5);
  v7 = v8;
  goto L1;
L3: ;
  v9 = (struct S20_class_std___Sp_counted_base*)(&(*v6).f0);
  v10 = (struct S20_class_std___Sp_counted_base**)(&(*v0).f0.f1.f0);
  *v10 = v9;
  v11 = (struct S75_struct___gnu_cxx____aligned_buffer_3754*)(&(*v6).f1.f0);
  v12 = (struct S75_struct___gnu_cxx____aligned_buffer_3754**)&(*v0).f0.f0;
  *v12 = v11;
  v13 = (u8*)v1;
  _ZN14OpenVolumeMesh6detail18internal_type_nameB5cxx11ERKSt9type_info(v1, ((struct S39_class_std__type_info*)(&_ZTIb)));
  if (v_exc) {
    goto L41;
  }
  goto L4;
L4: ;
  v14 = (struct S43_class_std__map*)(&(*a0).f1);
  v15 = _ZNSt3mapINSt7__cxx1112basic_stringIcSt11char_traitsIcESaIcEEESt10shared_ptrIN14OpenVolumeMesh2IO19PropertyEncoderBaseEESt4lessIS5_ESaISt4pairIKS5_SA_EEEixEOS5_(v14, v1);
  if (v_exc) {
    goto L42;
  }
  goto L5;
L5: ;
  v16 = (struct S49_class_OpenVolumeMesh__IO__PropertyEncode**)&(*v0).f0.f0;
  v17 = *v16;
  v18 = *v10;
  v19 = (struct S49_class_OpenVolumeMesh__IO__PropertyEncode**)(&(*v15).f0.f0);
  (*v0).f0.f0 = (struct S61_class_OpenVolumeMesh__IO__PropertyEncode*)0;
  (*v0).f0.f1.f0 = (struct S20_class_std___Sp_counted_base*)0;
  *v19 = v17;
  v20 = (struct S20_class_std___Sp_counted_base**)(&(*v15).f0.f1.f0);
  v21 = *v20;
  *v20 = v18;
  v22 = ((u8*)v21 == (u8*)((struct S20_class_std___Sp_counted_base*)0));
  if (v22) {
    goto L13;
  } else {
    goto L6;
  }
L6: ;
  v23 = (u32*)(&(*v21).f1);
  v24 = (u64*)v23;
  v25 = (((u64)(*v21).f1 << 0) | ((u64)(*v21).f2 << 32));
  v26 = (v25 == ((u64)4294967297ULL));
  if (v26) {
    goto L7;
  } else {
    goto L8;
  }
L7: ;
  *v23 = ((u32)0ULL);
  v27 = (u32*)(&(*v21).f2);
  *v27 = ((u32)0ULL);
  v28 = (fnptr_t**)&(*v21).f0;
  v29 = *v28;
  v30 = (fnptr_t*)(v29 + (s64)((s64)((u64)2ULL)));
  v31 = *v30;
  ((FT1)v31)(v21);
  v32 = *v28;
  v33 = (fnptr_t*)(v32 + (s64)((s64)((u64)3ULL)));
  v34 = *v33;
  ((FT1)v34)(v21);
  goto L13;
L8: ;
  v35 = *(&__libc_single_threaded);
  v36 = (v35 == ((u8)0ULL));
  if (v36) {
    goto L10;
  } else {
    goto L9;
  }
L9: ;
  v37 = *v23;
  v38 = ((u32)(v37 + ((u32)4294967295ULL)));
  *v23 = v38;
  v41 = v37;
  goto L11;
L10: ;
  v39 = *v23;
  v40 = ((u32)(v39 + ((u32)4294967295ULL)));
  *v23 = v40;
  v41 = v39;
  goto L11;
L11: ;
  v42 = (v41 == ((u32)1ULL));
  if (v42) {
    goto L12;
  } else {
    goto L13;
  }
L12: ;
  _ZNSt16_Sp_counted_baseILN9__gnu_cxx12_Lock_policyE2EE24_M_release_last_use_coldEv(v21);
  goto L13;
L13: ;
  v43 = (u8**)(&(*v1).f0.f0);
  v44 = *v43;
  v45 = (struct S64_union_anon*)(&(*v1).f2);
  v46 = (u8*)v45;
  v47 = ((u8*)v44 == (u8*)v46);
  if (v47) {
    goto L15;
  } else {
    goto L14;
  }
L14: ;
  _ZdlPv(v44);
  goto L15;
L15: ;
  v48 = (struct S20_class_std___Sp_counted_base**)(&(*v0).f0.f1.f0);
  v49 = *v48;
  v50 = ((u8*)v49 == (u8*)((struct S20_class_std___Sp_counted_base*)0));
  if (v50) {
    goto L23;
  } else {
    goto L16;
  }
L16: ;
  v51 = (u32*)(&(*v49).f1);
  v52 = (u64*)v51;
  v53 = (((u64)(*v49).f1 << 0) | ((u64)(*v49).f2 << 32));
  v54 = (v53 == ((u64)4294967297ULL));
  if (v54) {
    goto L17;
  } else {
    goto L18;
  }
L17: ;
  *v51 = ((u32)0ULL);
  v55 = (u32*)(&(*v49).f2);
  *v55 = ((u32)0ULL);
  v56 = (fnptr_t**)&(*v49).f0;
  v57 = *v56;
  v58 = (fnptr_t*)(v57 + (s64)((s64)((u64)2ULL)));
  v59 = *v58;
  ((FT1)v59)(v49);
  v60 = *v56;
  v61 = (fnptr_t*)(v60 + (s64)((s64)((u64)3ULL)));
  v62 = *v61;
  ((FT1)v62)(v49);
  goto L23;
L18: ;
  v63 = *(&__libc_single_threaded);
  v64 = (v63 == ((u8)0ULL));
  if (v64) {
    goto L20;
  } else {
    goto L19;
  }
L19: ;
  v65 = *v51;
  v66 = ((u32)(v65 + ((u32)4294967295ULL)));
  *v51 = v66;
  v69 = v65;
  goto L21;
L20: ;
  v67 = *v51;
  v68 = ((u32)(v67 + ((u32)4294967295ULL)));
  *v51 = v68;
  v69 = v67;
  goto L21;
L21: ;
  v70 = (v69 == ((u32)1ULL));
  if (v70) {
    goto L22;
  } else {
    goto L23;
  }
L22: ;
  _ZNSt16_Sp_counted_baseILN9__gnu_cxx12_Lock_policyE2EE24_M_release_last_use_coldEv(v49);
  goto L23;
L23: ;
  v71 = (u8*)v2;
  v72 = (struct S27_class_std__bad_cast**)(&(*v2).f0.f0);
  *v72 = ((struct S27_class_std__bad_cast*)0);
  v73 = (u8*)((((u64)24ULL) % sizeof(struct S60_class_std___Sp_counted_ptr_inplace_3767) == 0) ? __CPROVER_allocate(sizeof(struct S60_class_std___Sp_counted_ptr_inplace_3767) * (((u64)24ULL) / sizeof(struct S60_class_std___Sp_counted_ptr_inplace_3767)), 0) : __CPROVER_allocate(((u64)24ULL), 0));
  v_alloc_note((u8*)v73);
  v74 = (struct S60_class_std___Sp_counted_ptr_inplace_3767*)v73;
  v75 = (fnptr_t**)(&(*v74).f0.f0);
  *v75 = ((fnptr_t*)((u8**)(&(*(&_ZTVSt16_Sp_counted_baseILN9__gnu_cxx12_Lock_policyE2EE)).f0.e[(s64)((s64)((u64)2ULL))])));
  v76 = (u32*)(&(*v74).f0.f1);
  *v76 = ((u32)1ULL);
  v77 = (u32*)(&(*v74).f0.f2);
  *v77 = ((u32)1ULL);
  *v75 = ((fnptr_t*)((u8**)(&(*(&_ZTVSt23_Sp_counted_ptr_inplaceIN14OpenVolumeMesh2IO16PropertyDecoderTIbNS1_6Codecs13BoolPropCodecEEESaIvELN9__gnu_cxx12_Lock_policyE2EE)).f0.e[(s64)((s64)((u64)2ULL))])));
  v78 = (struct S76_struct___gnu_cxx____aligned_buffer_3768*)(&(*v74).f1.f0);
  v79 = (u64*)v78;
  *v79 = ((u64)0ULL);
  v80 = (fnptr_t**)v78;
  *v80 = ((fnptr_t*)((u8**)(&(*(&_ZTVN14OpenVolumeMesh2IO16PropertyDecoderTIbNS0_6Codecs13BoolPropCodecEEE)).f0.e[(s64)((s64)((u64)2ULL))])));
  v81 = (struct S20_class_std___Sp_counted_base*)(&(*v74).f0);
  v82 = (struct S20_class_std___Sp_counted_base**)(&(*v2).f0.f1.f0);
  *v82 = v81;
  v83 = (struct S76_struct___gnu_cxx____aligned_buffer_3768**)&(*v2).f0.f0;
  *v83 = v78;
  v84 = (struct S43_class_std__map*)(&(*a0).f0);
  v85 = _ZNSt3mapINSt7__cxx1112basic_stringIcSt11char_traitsIcESaIcEEESt10shared_ptrIN14OpenVolumeMesh2IO19PropertyDecoderBaseEESt4lessIS5_ESaISt4pairIKS5_SA_EEEixERSE_(v84, a1);
  if (v_exc) {
    goto L45;
  }
  goto L24;
L24: ;
  v86 = (struct S10_class_OpenVolumeMesh__IO__PropertyDecode**)&(*v2).f0.f0;
  v87 = *v86;
  v88 = *v82;
  v89 = (struct S10_class_OpenVolumeMesh__IO__PropertyDecode**)(&(*v85).f0.f0);
  (*v2).f0.f0 = (struct S27_class_std__bad_cast*)0;
  (*v2).f0.f1.f0 = (struct S20_class_std___Sp_counted_base*)0;
  *v89 = v87;
  v90 = (struct S20_class_std___Sp_counted_base**)(&(*v85).f0.f1.f0);
  v91 = *v90;
  *v90 = v88;
  v92 = ((u8*)v91 == (u8*)((struct S20_class_std___Sp_counted_base*)0));
  if (v92) {
    goto L32;
  } else {
    goto L25;
  }
L25: ;
  v93 = (u32*)(&(*v91).f1);
  v94 = (u64*)v93;
  v95 = (((u64)(*v91).f1 << 0) | ((u64)(*v91).f2 << 32));
  v96 = (v95 == ((u64)4294967297ULL));
  if (v96) {
    goto L26;
  } else {
    goto L27;
  }
L26: ;
  *v93 = ((u32)0ULL);
  v97 = (u32*)(&(*v91).f2);
  *v97 = ((u32)0ULL);
  v98 = (fnptr_t**)&(*v91).f0;
  v99 = *v98;
  v100 = (fnptr_t*)(v99 + (s64)((s64)((u64)2ULL)));
  v101 = *v100;
  ((FT1)v101)(v91);
  v102 = *v98;
  v103 = (fnptr_t*)(v102 + (s64)((s64)((u64)3ULL)));
  v104 = *v103;
  ((FT1)v104)(v91);
  goto L32;
L27: ;
  v105 = *(&__libc_single_threaded);
  v106 = (v105 == ((u8)0ULL));
  if (v106) {
    goto L29;
  } else {
    goto L28;
  }
L28: ;
  v107 = *v93;
  v108 = ((u32)(v107 + ((u32)4294967295ULL)));
  *v93 = v108;
  v111 = v107;
  goto L30;
L29: ;
  v109 = *v93;
  v110 = ((u32)(v109 + ((u32)4294967295ULL)));
  *v93 = v110;
  v111 = v109;
  goto L30;
L30: ;
  v112 = (v111 == ((u32)1ULL));
  if (v112) {
    goto L31;
  } else {
    goto L32;
  }
L31: ;
  _ZNSt16_Sp_counted_baseILN9__gnu_cxx12_Lock_policyE2EE24_M_release_last_use_coldEv(v91);
  goto L32;
L32: ;
  v113 = (struct S20_class_std___Sp_counted_base**)(&(*v2).f0.f1.f0);
  v114 = *v113;
  v115 = ((u8*)v114 == (u8*)((struct S20_class_std___Sp_counted_base*)0));
  if (v115) {
    goto L40;
  } else {
    goto L33;
  }
L33: ;
  v116 = (u32*)(&(*v114).f1);
  v117 = (u64*)v116;
  v118 = (((u64)(*v114).f1 << 0) | ((u64)(*v114).f2 << 32));
  v119 = (v118 == ((u64)4294967297ULL));
  if (v119) {
    goto L34;
  } else {
    goto L35;
  }
L34: ;
  *v116 = ((u32)0ULL);
  v120 = (u32*)(&(*v114).f2);
  *v120 = ((u32)0ULL);
  v121 = (fnptr_t**)&(*v114).f0;
  v122 = *v121;
  v123 = (fnptr_t*)(v122 + (s64)((s64)((u64)2ULL)));
  v124 = *v123;
  ((FT1)v124)(v114);
  v125 = *v121;
  v126 = (fnptr_t*)(v125 + (s64)((s64)((u64)3ULL)));
  v127 = *v126;
  ((FT1)v127)(v114);
  goto L40;
L35: ;
  v128 = *(&__libc_single_threaded);
  v129 = (v128 == ((u8)0ULL));
  if (v129) {
    goto L37;
  } else {
    goto L36;
  }
L36: ;
  v130 = *v116;
  v131 = ((u32)(v130 + ((u32)4294967295ULL)));
  *v116 = v131;
  v134 = v130;
  goto L38;
L37: ;
  v132 = *v116;
  v133 = ((u32)(v132 + ((u32)4294967295ULL)));
  *v116 = v133;
  v134 = v132;
  goto L38;
L38: ;
  v135 = (v134 == ((u32)1ULL));
  if (v135) {
    goto L39;
  } else {
    goto L40;
  }
L39: ;
  _ZNSt16_Sp_counted_baseILN9__gnu_cxx12_Lock_policyE2EE24_M_release_last_use_coldEv(v114);
  goto L40;
L40: ;
  return;
L41: ;
  v136.f0 = v_exc_obj;
  v136.f1 = 0;
  v_exc = 0;
  v143 = v136;
  goto L44;
L42: ;
  v137.f0 = v_exc_obj;
  v137.f1 = 0;
  v_exc = 0;
  v138 = (u8**)(&(*v1).f0.f0);
  v139 = *v138;
  v140 = (struct S64_union_anon*)(&(*v1).f2);
  v141 = (u8*)v140;
  v142 = ((u8*)v139 == (u8*)v141);
  if (v142) {
    v143 = v137;
    goto L44;
  } else {
    goto L43;
  }
L43: ;
  _ZdlPv(v139);
  v143 = v137;
  goto L44;
L44: ;
  v144 = (struct S51_class_std____shared_ptr_3742*)(&(*v0).f0);
  _ZNSt12__shared_ptrIN14OpenVolumeMesh2IO16PropertyEncoderTIbNS1_6Codecs13BoolPropCodecEEELN9__gnu_cxx12_Lock_policyE2EED2Ev(v144);
  v7 = v143;
  goto L1;
L45: ;
  v145.f0 = v_exc_obj;
  v145.f1 = 0;
  v_exc = 0;
  v146 = (struct S52_class_std____shared_ptr_3746*)(&(*v2).f0);
  _ZNSt12__shared_ptrIN14OpenVolumeMesh2IO16PropertyDecoderTIbNS1_6Codecs13BoolPropCodecEEELN9__gnu_cxx12_Lock_policyE2EED2Ev(v146);
  v7 = v145;
  goto L1;
}

void _ZNSt23_Sp_counted_ptr_inplaceIN14OpenVolumeMesh2IO16PropertyEncoderTIbNS1_6Codecs13BoolPropCodecEEESaIvELN9__gnu_cxx12_Lock_policyE2EEC2IJRKNSt7__cxx1112basic_stringIcSt11char_traitsIcESaIcEEEEEES6_DpOT_(struct S50_class_std___Sp_counted_ptr_inplace_3753* a0, struct S14_class_std____cxx11__basic_string* a1) {
  u64* v0; u64 v0_m;
  struct S14_class_std____cxx11__basic_string* v1; struct S14_class_std____cxx11__basic_string v1_m;
  fnptr_t** v2;
  u32* v3;
  u32* v4;
  fnptr_t** v5;
  struct S75_struct___gnu_cxx____aligned_buffer_3754* v6;
  u8* v7;
  struct S64_union_anon* v8;
  struct S64_union_anon** v9;
  u8** v10;
  u8* v11;
  u64* v12;
  u64 v13;
  u8* v14;
  u1 v15;
  u8* v16;
  u8** v17;
  u64 v18;
  u64* v19;
  u8** v20;
  u8* v21;
  u8 v22;
  u64 v23;
  u64* v24;
  u8* v25;
  u8* v26;
  fnptr_t** v27;
  u8* v28;
  u8* v29;
  u8** v30;
  u8* v31;
  u8* v32;
  u1 v33;
  u64 v34;
  u64 v35;
  u1 v36;
  u8** v37;
  u64* v38;
  u64 v39;
  u8* v40;
  u64* v41;
  u64 v42;
  u8* v43;
  u64* v44;
L0: ;
  v0 = &v0_m;
  v1 = &v1_m;
  v2 = (fnptr_t**)(&(*a0).f0.f0);
  *v2 = ((fnptr_t*)((u8**)(&(*(&_ZTVSt16_Sp_counted_baseILN9__gnu_cxx12_Lock_policyE2EE)).f0.e[(s64)((s64)((u64)2ULL))])));
  v3 = (u32*)(&(*a0).f0.f1);
  *v3 = ((u32)1ULL);
  v4 = (u32*)(&(*a0).f0.f2);
  *v4 = ((u32)1ULL);
  v5 = (fnptr_t**)(&(*a0).f0.f0);
  *v5 = ((fnptr_t*)((u8**)(&(*(&_ZTVSt23_Sp_counted_ptr_inplaceIN14OpenVolumeMesh2IO16PropertyEncoderTIbNS1_6Codecs13BoolPropCodecEEESaIvELN9__gnu_cxx12_Lock_policyE2EE)).f0.e[(s64)((s64)((u64)2ULL))])));
  v6 = (struct S75_struct___gnu_cxx____aligned_buffer_3754*)(&(*a0).f1.f0);
  v7 = (u8*)v1;
  v8 = (struct S64_union_anon*)(&(*v1).f2);
  v9 = (struct S64_union_anon**)&(*v1).f0.f0;
  *v9 = v8;
  v10 = (u8**)(&(*a1).f0.f0);
  v11 = *v10;
  v12 = (u64*)(&(*a1).f1);
  v13 = *v12;
  v14 = (u8*)v0;
  *v0 = v13;
  v15 = (v13 > ((u64)15ULL));
  if (v15) {
    goto L1;
  } else {
    goto L2;
  }
L1: ;
  v16 = _ZNSt7__cxx1112basic_stringIcSt11char_traitsIcESaIcEE9_M_createERmm(v1, v0, ((u64)0ULL));
  if (v_exc) return;
  v17 = (u8**)(&(*v1).f0.f0);
  *v17 = v16;
  v18 = *v0;
  v19 = (u64*)(&(*v1).f2.f0.e[0]);
  *v19 = v18;
  goto L2;
L2: ;
  v20 = (u8**)(&(*v1).f0.f0);
  v21 = *v20;
  switch (v13) {
  case ((u64)1ULL): {
    goto L3;
  }
  case ((u64)0ULL): {
    goto L5;
  }
  default: {
    goto L4;
  }
  }
L3: ;
  v22 = *v11;
  *v21 = v22;
  goto L5;
L4: ;
  v_memcpy((u8*)v21, (u8*)v11, (u64)v13);
  goto L5;
L5: ;
  v23 = *v0;
  v24 = (u64*)(&(*v1).f1);
  *v24 = v23;
  v25 = *v20;
  v26 = (u8*)(v25 + (s64)((s64)v23));
  *v26 = ((u8)0ULL);
  v27 = (fnptr_t**)&(*a0).f1.f0.f0.f0.f0;
  *v27 = ((fnptr_t*)((u8**)(&(*(&_ZTVN14OpenVolumeMesh2IO19PropertyEncoderBaseE)).f0.e[(s64)((s64)((u64)2ULL))])));
  v28 = (u8*)(&(*a0).f1.f0.f0.f0.f1.f0.f0);
  v29 = (u8*)(&(*a0).f1.f0.f0.f0.f1.f2.f0.e[0]);
  v30 = (u8**)&(*a0).f1.f0.f0.f0.f1.f0.f0;
  *v30 = v29;
  v31 = *v20;
  v32 = (u8*)v8;
  v33 = ((u8*)v31 == (u8*)v32);
  if (v33) {
    goto L6;
  } else {
    goto L8;
  }
L6: ;
  v34 = *v24;
  v35 = ((u64)(v34 + ((u64)1ULL)));
  v36 = (v35 == ((u64)0ULL));
  if (v36) {
    goto L9;
  } else {
    goto L7;
  }
L7: ;
  v_memcpy((u8*)v29, (u8*)v32, (u64)v35);
  goto L9;
L8: ;
  v37 = (u8**)&(*a0).f1.f0.f0.f0.f1.f0.f0;
  *v37 = v31;
  v38 = (u64*)(&(*v1).f2.f0.e[0]);
  v39 = *v38;
  v40 = (u8*)(&(*a0).f1.f0.f0.f0.f1.f2.f0.e[0]);
  v41 = (u64*)v40;
  (*a0).f1.f0.f0.f0.f1.f2.f0.e[0] = (u8)(v39 >> 0);
  (*a0).f1.f0.f0.f0.f1.f2.f0.e[1] = (u8)(v39 >> 8);
  (*a0).f1.f0.f0.f0.f1.f2.f0.e[2] = (u8)(v39 >> 16);
  (*a0).f1.f0.f0.f0.f1.f2.f0.e[3] = (u8)(v39 >> 24);
  (*a0).f1.f0.f0.f0.f1.f2.f0.e[4] = (u8)(v39 >> 32);
  (*a0).f1.f0.f0.f0.f1.f2.f0.e[5] = (u8)(v39 >> 40);
  (*a0).f1.f0.f0.f0.f1.f2.f0.e[6] = (u8)(v39 >> 48);
  (*a0).f1.f0.f0.f0.f1.f2.f0.e[7] = (u8)(v39 >> 56);
  goto L9;
L9: ;
  v42 = *v24;
  v43 = (u8*)(&(*a0).f1.f0.f0.f0.f1.f1);
  v44 = (u64*)&(*a0).f1.f0.f0.f0.f1.f1;
  *v44 = v42;
  *v9 = v8;
  *v24 = ((u64)0ULL);
  *v32 = ((u8)0ULL);
  *v27 = ((fnptr_t*)((u8**)(&(*(&_ZTVN14OpenVolumeMesh2IO16PropertyEncoderTIbNS0_6Codecs13BoolPropCodecEEE)).f0.e[(s64)((s64)((u64)2ULL))])));
  return;
}

void _ZNSt12__shared_ptrIN14OpenVolumeMesh2IO16PropertyEncoderTIbNS1_6Codecs13BoolPropCodecEEELN9__gnu_cxx12_Lock_policyE2EED2Ev(struct S51_class_std____shared_ptr_3742* a0) {
  struct S20_class_std___Sp_counted_base** v0;
  struct S20_class_std___Sp_counted_base* v1;
  u1 v2;
  u32* v3;
  u64* v4;
  u64 v5;
  u1 v6;
  u32* v7;
  fnptr_t** v8;
  fnptr_t* v9;
  fnptr_t* v10;
  fnptr_t v11;
  fnptr_t* v12;
  fnptr_t* v13;
  fnptr_t v14;
  u8 v15;
  u1 v16;
  u32 v17;
  u32 v18;
  u32 v19;
  u32 v20;
  u32 v21; u32 v21_t;
  u1 v22;
L0: ;
  v0 = (struct S20_class_std___Sp_counted_base**)(&(*a0).f1.f0);
  v1 = *v0;
  v2 = ((u8*)v1 == (u8*)((struct S20_class_std___Sp_counted_base*)0));
  if (v2) {
    goto L8;
  } else {
    goto L1;
  }
L1: ;
  v3 = (u32*)(&(*v1).f1);
  v4 = (u64*)v3;
  v5 = (((u64)(*v1).f1 << 0) | ((u64)(*v1).f2 << 32));
  v6 = (v5 == ((u64)4294967297ULL));
  if (v6) {
    goto L2;
  } else {
    goto L3;
  }
L2: ;
  *v3 = ((u32)0ULL);
  v7 = (u32*)(&(*v1).f2);
  *v7 = ((u32)0ULL);
  v8 = (fnptr_t**)&(*v1).f0;
  v9 = *v8;
  v10 = (fnptr_t*)(v9 + (s64)((s64)((u64)2ULL)));
  v11 = *v10;
  ((FT1)v11)(v1);
  v12 = *v8;
  v13 = (fnptr_t*)(v12 + (s64)((s64)((u64)3ULL)));
  v14 = *v13;
  ((FT1)v14)(v1);
  goto L8;
L3: ;
  v15 = *(&__libc_single_threaded);
  v16 = (v15 == ((u8)0ULL));
  if (v16) {
    goto L5;
  } else {
    goto L4;
  }
L4: ;
  v17 = *v3;
  v18 = ((u32)(v17 + ((u32)4294967295ULL)));
  *v3 = v18;
  v21 = v17;
  goto L6;
L5: ;
  v19 = *v3;
  v20 = ((u32)(v19 + ((u32)4294967295ULL)));
  *v3 = v20;
  v21 = v19;
  goto L6;
L6: ;
  v22 = (v21 == ((u32)1ULL));
  if (v22) {
    goto L7;
  } else {
    goto L8;
  }
L7: ;
  _ZNSt16_Sp_counted_baseILN9__gnu_cxx12_Lock_policyE2EE24_M_release_last_use_coldEv(v1);
  goto L8;
L8: ;
  return;
}

void _ZNSt12__shared_ptrIN14OpenVolumeMesh2IO16PropertyDecoderTIbNS1_6Codecs13BoolPropCodecEEELN9__gnu_cxx12_Lock_policyE2EED2Ev(struct S52_class_std____shared_ptr_3746* a0) {
  struct S20_class_std___Sp_counted_base** v0;
  struct S20_class_std___Sp_counted_base* v1;
  u1 v2;
  u32* v3;
  u64* v4;
  u64 v5;
  u1 v6;
  u32* v7;
  fnptr_t** v8;
  fnptr_t* v9;
  fnptr_t* v10;
  fnptr_t v11;
  fnptr_t* v12;
  fnptr_t* v13;
  fnptr_t v14;
  u8 v15;
  u1 v16;
  u32 v17;
  u32 v18;
  u32 v19;
  u32 v20;
  u32 v21; u32 v21_t;
  u1 v22;
L0: ;
  v0 = (struct S20_class_std___Sp_counted_base**)(&(*a0).f1.f0);
  v1 = *v0;
  v2 = ((u8*)v1 == (u8*)((struct S20_class_std___Sp_counted_base*)0));
  if (v2) {
    goto L8;
  } else {
    goto L1;
  }
L1: ;
  v3 = (u32*)(&(*v1).f1);
  v4 = (u64*)v3;
  v5 = (((u64)(*v1).f1 << 0) | ((u64)(*v1).f2 << 32));
  v6 = (v5 == ((u64)4294967297ULL));
  if (v6) {
    goto L2;
  } else {
    goto L3;
  }
L2: ;
  *v3 = ((u32)0ULL);
  v7 = (u32*)(&(*v1).f2);
  *v7 = ((u32)0ULL);
  v8 = (fnptr_t**)&(*v1).f0;
  v9 = *v8;
  v10 = (fnptr_t*)(v9 + (s64)((s64)((u64)2ULL)));
  v11 = *v10;
  ((FT1)v11)(v1);
  v12 = *v8;
  v13 = (fnptr_t*)(v12 + (s64)((s64)((u64)3ULL)));
  v14 = *v13;
  ((FT1)v14)(v1);
  goto L8;
L3: ;
  v15 = *(&__libc_single_threaded);
  v16 = (v15 == ((u8)0ULL));
  if (v16) {
    goto L5;
  } else {
    goto L4;
  }
L4: ;
  v17 = *v3;
  v18 = ((u32)(v17 + ((u32)4294967295ULL)));
  *v3 = v18;
  v21 = v17;
  goto L6;
L5: ;
  v19 = *v3;
  v20 = ((u32)(v19 + ((u32)4294967295ULL)));
  *v3 = v20;
  v21 = v19;
  goto L6;
L6: ;
  v22 = (v21 == ((u32)1ULL));
  if (v22) {
    goto L7;
  } else {
    goto L8;
  }
L7: ;
  _ZNSt16_Sp_counted_baseILN9__gnu_cxx12_Lock_policyE2EE24_M_release_last_use_coldEv(v1);
  goto L8;
L8: ;
  return;
}

void _ZN14OpenVolumeMesh2IO16PropertyDecoderTIbNS0_6Codecs13BoolPropCodecEED0Ev(struct S27_class_std__bad_cast* a0) {
  u8* v0;
L0: ;
  v0 = (u8*)a0;
  _ZdlPv(v0);
  return;
}

void _ZNK14OpenVolumeMesh2IO16PropertyDecoderTIbNS0_6Codecs13BoolPropCodecEE16request_propertyERNS_15ResourceManagerENS_10EntityTypeERKNSt7__cxx1112basic_stringIcSt11char_traitsIcESaIcEEERKSt6vectorIhSaIhEE(struct S25_class_std__weak_ptr* a0, struct S27_class_std__bad_cast* a1, struct S53_class_OpenVolumeMesh__ResourceManager* a2, u8 a3, struct S14_class_std____cxx11__basic_string* a4, struct S54_class_std__vector* a5) {
  u8* v0; u8 v0_m;
  struct S55_class_OpenVolumeMesh__IO__detail__Decode* v1; struct S55_class_OpenVolumeMesh__IO__detail__Decode v1_m;
  struct S56_class_std__shared_ptr_65* v2; struct S56_class_std__shared_ptr_65 v2_m;
  struct S57_class_anon_726* v3; struct S57_class_anon_726 v3_m;
  u8* v4;
  u8** v5;
  u8* v6;
  u8** v7;
  u8* v8;
  u64 v9;
  u64 v10;
  u64 v11;
  u1 v12;
  u1 v13;
  u8* v14;
  u8* v15; u8* v15_t;
  u8* v16;
  u8** v17;
  u8** v18;
  u8** v19;
  u8** v20;
  u8** v21;
  u8 v22;
  u1 v23;
  u8* v24;
  struct S29_class_std__runtime_error* v25;
  fnptr_t** v26;
  struct S65 v27;
  u1 v28;
  u8 v29;
  u8* v30;
  struct S53_class_OpenVolumeMesh__ResourceManager** v31;
  struct S14_class_std____cxx11__basic_string** v32;
  u8** v33;
  struct S22_class_OpenVolumeMesh__PropertyStorageBas** v34;
  struct S12_class_OpenVolumeMesh__PropertyStorageT** v35;
  struct S22_class_OpenVolumeMesh__PropertyStorageBas** v36;
  struct S22_class_OpenVolumeMesh__PropertyStorageBas* v37;
  struct S20_class_std___Sp_counted_base** v38;
  struct S20_class_std___Sp_counted_base** v39;
  struct S20_class_std___Sp_counted_base* v40;
  u8* v41;
  u1 v42;
  struct S65 v43;
  struct S65 v44;
  struct S65 v45; struct S65 v45_t;
  u8* v46;
  u1 v47;
L0: ;
  v0 = &v0_m;
  v1 = &v1_m;
  v2 = &v2_m;
  v3 = &v3_m;
  v4 = (u8*)v1;
  v5 = (u8**)(&(*a5).f0.f0.f0.f1);
  v6 = *v5;
  v7 = (u8**)(&(*a5).f0.f0.f0.f0);
  v8 = *v7;
  v9 = ((u64)((u64)v6));
  v10 = ((u64)((u64)v8));
  v11 = v_pdiff((u8*)v6, (u8*)v8);
  v12 = (v11 == ((u64)0ULL));
  if (v12) {
    v15 = ((u8*)0);
    goto L4;
  } else {
    goto L1;
  }
L1: ;
  v13 = (((s64)v11) < ((s64)((u64)0ULL)));
  if (v13) {
    goto L2;
  } else {
    goto L3;
  }
L2: ;
  _ZSt17__throw_bad_allocv();
  if (v_exc) return;
  __CPROVER_assume(0);
L3: ;
  v14 = _Znwm(v11);
  if (v_exc) return;
  v15 = v14;
  goto L4;
L4: ;
  v16 = (u8*)(v15 + (s64)((s64)v11));
  if (v12) {
    goto L6;
  } else {
    goto L5;
  }
L5: ;
  v_memmove((u8*)v15, (u8*)v8, (u64)v11);
  goto L6;
L6: ;
  v17 = (u8**)(&(*v1).f0.f0.f0.f0.f0);
  *v17 = v15;
  v18 = (u8**)(&(*v1).f0.f0.f0.f0.f1);
  *v18 = v16;
  v19 = (u8**)(&(*v1).f0.f0.f0.f0.f2);
  *v19 = v16;
  v20 = (u8**)(&(*v1).f1);
  *v20 = v15;
  v21 = (u8**)(&(*v1).f2);
  *v21 = v16;
  v22 = _ZN14OpenVolumeMesh2IO6detail7Decoder2u8Ev(v1);
  if (v_exc) {
    goto L16;
  }
  goto L7;
L7: ;
  v23 = (v22 < ((u8)2ULL));
  if (v23) {
    goto L12;
  } else {
    goto L8;
  }
L8: ;
  v24 = __cxa_allocate_exception(((u64)16ULL));
  v25 = (struct S29_class_std__runtime_error*)v24;
  _ZNSt13runtime_errorC2EPKc(v25, ((u8*)(&(*(&_str_33)).e[(s64)((s64)((u64)0ULL))])));
  if (v_exc) {
    goto L11;
  }
  goto L9;
L9: ;
  v26 = (fnptr_t**)v24;
  *v26 = ((fnptr_t*)((u8**)(&(*(&_ZTVN14OpenVolumeMesh2IO6detail11parse_errorE)).f0.e[(s64)((s64)((u64)2ULL))])));
  __cxa_throw(v24, ((u8*)(&_ZTIN14OpenVolumeMesh2IO6detail11parse_errorE)), ((u8*)((fnptr_t)_ZNSt13runtime_errorD2Ev)));
  if (v_exc) {
    goto L16;
  }
  goto L10;
L10: ;
  __CPROVER_assume(0);
L11: ;
  v27.f0 = v_exc_obj;
  v27.f1 = 0;
  v_exc = 0;
  __cxa_free_exception(v24);
  v45 = v27;
  goto L18;
L12: ;
  v28 = (v22 != ((u8)0ULL));
  v29 = ((u8)(v28));
  *v0 = v29;
  v30 = (u8*)v2;
  v31 = (struct S53_class_OpenVolumeMesh__ResourceManager**)(&(*v3).f0);
  *v31 = a2;
  v32 = (struct S14_class_std____cxx11__basic_string**)(&(*v3).f1);
  *v32 = a4;
  v33 = (u8**)(&(*v3).f2);
  *v33 = v0;
  _ZN14OpenVolumeMesh18entitytag_dispatchIZNKS_2IO16PropertyDecoderTIbNS1_6Codecs13BoolPropCodecEE16request_propertyERNS_15ResourceManagerENS_10EntityTypeERKNSt7__cxx1112basic_stringIcSt11char_traitsIcESaIcEEERKSt6vectorIhSaIhEEEUlT_E_JEEEDaS8_SM_DpT0_(v2, a3, v3);
  if (v_exc) {
    goto L17;
  }
  goto L13;
L13: ;
  v34 = (struct S22_class_OpenVolumeMesh__PropertyStorageBas**)(&(*a0).f0.f0);
  v35 = (struct S12_class_OpenVolumeMesh__PropertyStorageT**)(&(*v2).f0.f0);
  v36 = (struct S22_class_OpenVolumeMesh__PropertyStorageBas**)&(*v2).f0.f0;
  v37 = *v36;
  *v34 = v37;
  v38 = (struct S20_class_std___Sp_counted_base**)(&(*a0).f0.f1.f0);
  *v38 = ((struct S20_class_std___Sp_counted_base*)0);
  v39 = (struct S20_class_std___Sp_counted_base**)(&(*v2).f0.f1.f0);
  v40 = *v39;
  *v39 = ((struct S20_class_std___Sp_counted_base*)0);
  *v38 = v40;
  *v35 = ((struct S12_class_OpenVolumeMesh__PropertyStorageT*)0);
  v41 = *v17;
  v42 = ((u8*)v41 == (u8*)((u8*)0));
  if (v42) {
    goto L15;
  } else {
    goto L14;
  }
L14: ;
  _ZdlPv(v41);
  goto L15;
L15: ;
  return;
L16: ;
  v43.f0 = v_exc_obj;
  v43.f1 = 0;
  v_exc = 0;
  v45 = v43;
  goto L18;
L17: ;
  v44.f0 = v_exc_obj;
  v44.f1 = 0;
  v_exc = 0;
  v45 = v44;
  goto L18;
L18: ;
  v46 = *v17;
  v47 = ((u8*)v46 == (u8*)((u8*)0));
  if (v47) {
    goto L20;
  } else {
    goto L19;
  }
L19: ;
  _ZdlPv(v46);
  goto L20;
L20: ;
  v_exc = 1; return;
}

void _ZNK14OpenVolumeMesh2IO16PropertyDecoderTIbNS0_6Codecs13BoolPropCodecEE11deserializeEPNS_19PropertyStorageBaseERNS0_6detail7DecoderEmm(struct S27_class_std__bad_cast* a0, struct S22_class_OpenVolumeMesh__PropertyStorageBas* a1, struct S55_class_OpenVolumeMesh__IO__detail__Decode* a2, u64 a3, u64 a4) {
  struct S12_class_OpenVolumeMesh__PropertyStorageT* v0;
  u1 v1;
  u64** v2;
  u64* v3;
  u32* v4;
  u32 v5;
  u64** v6;
  u64* v7;
  u64 v8;
  u64 v9;
  u64 v10;
  u64 v11;
  u64 v12;
  u64 v13;
  u1 v14;
  u8* v15;
  struct S48_class_OpenVolumeMesh__IO__detail__parse_* v16;
  struct S65 v17;
  u64 v18;
  u64 v19;
  u64 v20;
  u1 v21;
  u64** v22;
  u64 v23;
  u64 v24; u64 v24_t;
  u64 v25; u64 v25_t;
  u64 v26;
  u8 v27;
  u64 v28;
  u64* v29;
  u64 v30;
  u1 v31;
  u64 v32;
  u64 v33; u64 v33_t;
  u64 v34;
  u64 v35;
  u1 v36;
  u64 v37;
  u64 v38;
  u64* v39;
  u64 v40;
  u1 v41;
  u64 v42;
  u64 v43;
  u64* v44;
  u64 v45;
  u64 v46;
  u64 v47;
  u64 v48;
  u64 v49;
  u64 v50;
  u64 v51;
  u64 v52;
  u64 v53; u64 v53_t;
  u64 v54;
  u1 v55;
L0: ;
  v0 = _ZN14OpenVolumeMesh19PropertyStorageBase16cast_to_StorageTIbEEPNS_16PropertyStorageTIT_EEv(a1);
  if (v_exc) return;
  v1 = (a4 < a3);
  if (v1) {
    goto L2;
  } else {
    goto L1;
  }
L1: ;
  v2 = (u64**)(&(*v0).f2.f0.f0.f0.f1.f0.f0);
  v3 = *v2;
  v4 = (u32*)(&(*v0).f2.f0.f0.f0.f1.f0.f1);
  v5 = *v4;
  v6 = (u64**)(&(*v0).f2.f0.f0.f0.f0.f0.f0);
  v7 = *v6;
  v8 = ((u64)((u64)v3));
  v9 = ((u64)((u64)v7));
  v10 = v_pdiff((u8*)v3, (u8*)v7);
  v11 = ((u64)(v10 << ((u64)3ULL)));
  v12 = ((u64)(v5));
  v13 = ((u64)(v11 + v12));
  v14 = (v13 < a4);
  if (v14) {
    goto L2;
  } else {
    goto L5;
  }
L2: ;
  v15 = __cxa_allocate_exception(((u64)16ULL));
  v16 = (struct S48_class_OpenVolumeMesh__IO__detail__parse_*)v15;
  _ZN14OpenVolumeMesh2IO6detail11parse_errorCI2St13runtime_errorEPKc(v16, ((u8*)(&(*(&_str_39)).e[(s64)((s64)((u64)0ULL))])));
  if (v_exc) {
    goto L4;
  }
  goto L3;
L3: ;
  __cxa_throw(v15, ((u8*)(&_ZTIN14OpenVolumeMesh2IO6detail11parse_errorE)), ((u8*)((fnptr_t)_ZNSt13runtime_errorD2Ev)));
  if (v_exc) return;
  __CPROVER_assume(0);
L4: ;
  v17.f0 = v_exc_obj;
  v17.f1 = 0;
  v_exc = 0;
  __cxa_free_exception(v15);
  v_exc = 1; return;
L5: ;
  v18 = ((u64)(((u64)7ULL) - a3));
  v19 = ((u64)(v18 + a4));
  v20 = ((u64)(v19 >> ((u64)3ULL)));
  _ZN14OpenVolumeMesh2IO6detail7Decoder4needEm(a2, v20);
  if (v_exc) return;
  v21 = (a4 > a3);
  if (v21) {
    goto L6;
  } else {
    goto L13;
  }
L6: ;
  v22 = (u64**)(&(*v0).f2.f0.f0.f0.f0.f0.f0);
  v23 = ((u64)(a4 - a3));
  v24_t = v23;
  v25_t = a3;
  v24 = v24_t;
  v25 = v25_t;
  goto L7;
L7: ;
  v26 = (v24 < ((u64)8ULL) ? v24 : ((u64)8ULL));
  v27 = _ZN14OpenVolumeMesh2IO6detail7Decoder2u8Ev(a2);
  v28 = ((u64)(v27));
  v29 = *v22;
  v33 = ((u64)0ULL);
  goto L9;
L8: ;
  v30 = ((u64)(v25 + ((u64)8ULL)));
  v31 = (v30 < a4);
  v32 = ((u64)(v24 + ((u64)18446744073709551608ULL)));
  if (v31) {
    v24_t = v32;
    v25_t = v30;
    v24 = v24_t;
    v25 = v25_t;
    goto L7;
  } else {
    goto L13;
  }
L9: ;
  v34 = ((u64)(((u64)1ULL) << v33));
  v35 = ((u64)(v34 & v28));
  v36 = (v35 == ((u64)0ULL));
  v37 = ((u64)(v33 + v25));
  v38 = ((u64)(((s64)v37) / ((s64)((u64)64ULL))));
  v39 = (u64*)(v29 + (s64)((s64)v38));
  v40 = ((u64)(((s64)v37) % ((s64)((u64)64ULL))));
  v41 = (((s64)v40) < ((s64)((u64)0ULL)));
  v42 = ((u64)(v40 + ((u64)64ULL)));
  v43 = ((u64)(((s64)v40) >> ((u64)63ULL)));
  v44 = (u64*)(v39 + (s64)((s64)v43));
  v45 = (v41 ? v42 : v40);
  v46 = ((u64)(v45 & ((u64)4294967295ULL)));
  v47 = ((u64)(((u64)1ULL) << v46));
  if (v36) {
    goto L11;
  } else {
    goto L10;
  }
L10: ;
  v48 = *v44;
  v49 = ((u64)(v48 | v47));
  v53 = v49;
  goto L12;
L11: ;
  v50 = ((u64)(v47 ^ ((u64)18446744073709551615ULL)));
  v51 = *v44;
  v52 = ((u64)(v51 & v50));
  v53 = v52;
  goto L12;
L12: ;
  *v44 = v53;
  v54 = ((u64)(v33 + ((u64)1ULL)));
  v55 = (v54 == v26);
  if (v55) {
    goto L8;
  } else {
    v33 = v54;
    goto L9;
  }
L13: ;
  return;
}

void _ZN14OpenVolumeMesh18entitytag_dispatchIZNKS_2IO16PropertyDecoderTIbNS1_6Codecs13BoolPropCodecEE16request_propertyERNS_15ResourceManagerENS_10EntityTypeERKNSt7__cxx1112basic_stringIcSt11char_traitsIcESaIcEEERKSt6vectorIhSaIhEEEUlT_E_JEEEDaS8_SM_DpT0_(struct S56_class_std__shared_ptr_65* a0, u8 a1, struct S57_class_anon_726* a2) {
  u8* v0;
  struct S29_class_std__runtime_error* v1;
  struct S65 v2;
L0: ;
  switch (a1) {
  case ((u8)0ULL): {
    goto L1;
  }
  case ((u8)1ULL): {
    goto L2;
  }
  case ((u8)2ULL): {
    goto L3;
  }
  case ((u8)3ULL): {
    goto L4;
  }
  case ((u8)4ULL): {
    goto L5;
  }
  case ((u8)5ULL): {
    goto L6;
  }
  case ((u8)6ULL): {
    goto L7;
  }
  default: {
    goto L8;
  }
  }
L1: ;
  _ZZNK14OpenVolumeMesh2IO16PropertyDecoderTIbNS0_6Codecs13BoolPropCodecEE16request_propertyERNS_15ResourceManagerENS_10EntityTypeERKNSt7__cxx1112basic_stringIcSt11char_traitsIcESaIcEEERKSt6vectorIhSaIhEEENKUlT_E_clINS_6Entity6VertexEEEDaSL_(a0, a2);
  if (v_exc) return;
  goto L11;
L2: ;
  _ZZNK14OpenVolumeMesh2IO16PropertyDecoderTIbNS0_6Codecs13BoolPropCodecEE16request_propertyERNS_15ResourceManagerENS_10EntityTypeERKNSt7__cxx1112basic_stringIcSt11char_traitsIcESaIcEEERKSt6vectorIhSaIhEEENKUlT_E_clINS_6Entity4EdgeEEEDaSL_(a0, a2);
  if (v_exc) return;
  goto L11;
L3: ;
  _ZZNK14OpenVolumeMesh2IO16PropertyDecoderTIbNS0_6Codecs13BoolPropCodecEE16request_propertyERNS_15ResourceManagerENS_10EntityTypeERKNSt7__cxx1112basic_stringIcSt11char_traitsIcESaIcEEERKSt6vectorIhSaIhEEENKUlT_E_clINS_6Entity8HalfEdgeEEEDaSL_(a0, a2);
  if (v_exc) return;
  goto L11;
L4: ;
  _ZZNK14OpenVolumeMesh2IO16PropertyDecoderTIbNS0_6Codecs13BoolPropCodecEE16request_propertyERNS_15ResourceManagerENS_10EntityTypeERKNSt7__cxx1112basic_stringIcSt11char_traitsIcESaIcEEERKSt6vectorIhSaIhEEENKUlT_E_clINS_6Entity4FaceEEEDaSL_(a0, a2);
  if (v_exc) return;
  goto L11;
L5: ;
  _ZZNK14OpenVolumeMesh2IO16PropertyDecoderTIbNS0_6Codecs13BoolPropCodecEE16request_propertyERNS_15ResourceManagerENS_10EntityTypeERKNSt7__cxx1112basic_stringIcSt11char_traitsIcESaIcEEERKSt6vectorIhSaIhEEENKUlT_E_clINS_6Entity8HalfFaceEEEDaSL_(a0, a2);
  if (v_exc) return;
  goto L11;
L6: ;
  _ZZNK14OpenVolumeMesh2IO16PropertyDecoderTIbNS0_6Codecs13BoolPropCodecEE16request_propertyERNS_15ResourceManagerENS_10EntityTypeERKNSt7__cxx1112basic_stringIcSt11char_traitsIcESaIcEEERKSt6vectorIhSaIhEEENKUlT_E_clINS_6Entity4CellEEEDaSL_(a0, a2);
  if (v_exc) return;
  goto L11;
L7: ;
  _ZZNK14OpenVolumeMesh2IO16PropertyDecoderTIbNS0_6Codecs13BoolPropCodecEE16request_propertyERNS_15ResourceManagerENS_10EntityTypeERKNSt7__cxx1112basic_stringIcSt11char_traitsIcESaIcEEERKSt6vectorIhSaIhEEENKUlT_E_clINS_6Entity4MeshEEEDaSL_(a0, a2);
  if (v_exc) return;
  goto L11;
L8: ;
  v0 = __cxa_allocate_exception(((u64)16ULL));
  v1 = (struct S29_class_std__runtime_error*)v0;
  _ZNSt13runtime_errorC1EPKc(v1, ((u8*)(&(*(&_str_34)).e[(s64)((s64)((u64)0ULL))])));
  if (v_exc) {
    goto L10;
  }
  goto L9;
L9: ;
  __cxa_throw(v0, ((u8*)(&_ZTISt13runtime_error)), ((u8*)((fnptr_t)_ZNSt13runtime_errorD1Ev)));
  if (v_exc) return;
  __CPROVER_assume(0);
L10: ;
  v2.f0 = v_exc_obj;
  v2.f1 = 0;
  v_exc = 0;
  __cxa_free_exception(v0);
  v_exc = 1; return;
L11: ;
  return;
}

void _ZZNK14OpenVolumeMesh2IO16PropertyDecoderTIbNS0_6Codecs13BoolPropCodecEE16request_propertyERNS_15ResourceManagerENS_10EntityTypeERKNSt7__cxx1112basic_stringIcSt11char_traitsIcESaIcEEERKSt6vectorIhSaIhEEENKUlT_E_clINS_6Entity6VertexEEEDaSL_(struct S56_class_std__shared_ptr_65* a0, struct S57_class_anon_726* a1) {
  struct S31_class_OpenVolumeMesh__PropertyPtr_86* v0; struct S31_class_OpenVolumeMesh__PropertyPtr_86 v0_m;
  u8* v1;
  struct S53_class_OpenVolumeMesh__ResourceManager** v2;
  struct S53_class_OpenVolumeMesh__ResourceManager* v3;
  struct S14_class_std____cxx11__basic_string** v4;
  struct S14_class_std____cxx11__basic_string* v5;
  u8** v6;
  u8* v7;
  struct S53_class_OpenVolumeMesh__ResourceManager* v8;
  struct S12_class_OpenVolumeMesh__PropertyStorageT** v9;
  struct S12_class_OpenVolumeMesh__PropertyStorageT** v10;
  struct S12_class_OpenVolumeMesh__PropertyStorageT* v11;
  struct S20_class_std___Sp_counted_base** v12;
  struct S20_class_std___Sp_counted_base** v13;
  struct S20_class_std___Sp_counted_base* v14;
  u1 v15;
  u32* v16;
  u8 v17;
  u1 v18;
  u32 v19;
  u32 v20;
  u32 v21;
  u32 v22;
  fnptr_t** v23;
  struct S20_class_std___Sp_counted_base** v24;
  struct S20_class_std___Sp_counted_base* v25;
  u1 v26;
  u32* v27;
  u64* v28;
  u64 v29;
  u1 v30;
  u32* v31;
  fnptr_t** v32;
  fnptr_t* v33;
  fnptr_t* v34;
  fnptr_t v35;
  fnptr_t* v36;
  fnptr_t* v37;
  fnptr_t v38;
  u8 v39;
  u1 v40;
  u32 v41;
  u32 v42;
  u32 v43;
  u32 v44;
  u32 v45; u32 v45_t;
  u1 v46;
  struct S65 v47;
L0: ;
  v0 = &v0_m;
  v1 = (u8*)v0;
  v2 = (struct S53_class_OpenVolumeMesh__ResourceManager**)(&(*a1).f0);
  v3 = *v2;
  v4 = (struct S14_class_std____cxx11__basic_string**)(&(*a1).f1);
  v5 = *v4;
  v6 = (u8**)(&(*a1).f2);
  v7 = *v6;
  _ZN14OpenVolumeMesh15ResourceManager16request_propertyIbNS_6Entity6VertexEEENS_11PropertyPtrIT_T0_EERKNSt7__cxx1112basic_stringIcSt11char_traitsIcESaIcEEERKS5_(v0, v3, v5, v7);
  if (v_exc) return;
  v8 = *v2;
  _ZN14OpenVolumeMesh15ResourceManager14set_persistentIbNS_6Entity6VertexEEEvRNS_11PropertyPtrIT_T0_EEb(v8, v0, ((u1)1ULL));
  if (v_exc) {
    goto L14;
  }
  goto L1;
L1: ;
  v9 = (struct S12_class_OpenVolumeMesh__PropertyStorageT**)(&(*a0).f0.f0);
  v10 = (struct S12_class_OpenVolumeMesh__PropertyStorageT**)(&(*v0).f0.f0.f1.f0.f0);
  v11 = *v10;
  *v9 = v11;
  v12 = (struct S20_class_std___Sp_counted_base**)(&(*a0).f0.f1.f0);
  v13 = (struct S20_class_std___Sp_counted_base**)(&(*v0).f0.f0.f1.f0.f1.f0);
  v14 = *v13;
  *v12 = v14;
  v15 = ((u8*)v14 == (u8*)((struct S20_class_std___Sp_counted_base*)0));
  if (v15) {
    goto L5;
  } else {
    goto L2;
  }
L2: ;
  v16 = (u32*)(&(*v14).f1);
  v17 = *(&__libc_single_threaded);
  v18 = (v17 == ((u8)0ULL));
  if (v18) {
    goto L4;
  } else {
    goto L3;
  }
L3: ;
  v19 = *v16;
  v20 = ((u32)(v19 + ((u32)1ULL)));
  *v16 = v20;
  goto L5;
L4: ;
  v21 = *v16;
  v22 = ((u32)(v21 + ((u32)1ULL)));
  *v16 = v22;
  goto L5;
L5: ;
  v23 = (fnptr_t**)(&(*v0).f0.f0.f0);
  *v23 = ((fnptr_t*)((u8**)(&(*(&_ZTVN14OpenVolumeMesh18PropertyStoragePtrIbEE)).f0.e[(s64)((s64)((u64)2ULL))])));
  v24 = (struct S20_class_std___Sp_counted_base**)(&(*v0).f0.f0.f1.f0.f1.f0);
  v25 = *v24;
  v26 = ((u8*)v25 == (u8*)((struct S20_class_std___Sp_counted_base*)0));
  if (v26) {
    goto L13;
  } else {
    goto L6;
  }
L6: ;
  v27 = (u32*)(&(*v25).f1);
  v28 = (u64*)v27;
  v29 = (((u64)(*v25).f1 << 0) | ((u64)(*v25).f2 << 32));
  v30 = (v29 == ((u64)4294967297ULL));
  if (v30) {
    goto L7;
  } else {
    goto L8;
  }
L7: ;
  *v27 = ((u32)0ULL);
  v31 = (u32*)(&(*v25).f2);
  *v31 = ((u32)0ULL);
  v32 = (fnptr_t**)&(*v25).f0;
  v33 = *v32;
  v34 = (fnptr_t*)(v33 + (s64)((s64)((u64)2ULL)));
  v35 = *v34;
  ((FT1)v35)(v25);
  v36 = *v32;
  v37 = (fnptr_t*)(v36 + (s64)((s64)((u64)3ULL)));
  v38 = *v37;
  ((FT1)v38)(v25);
  goto L13;
L8: ;
  v39 = *(&__libc_single_threaded);
  v40 = (v39 == ((u8)0ULL));
  if (v40) {
    goto L10;
  } else {
    goto L9;
  }
L9: ;
  v41 = *v27;
  v42 = ((u32)(v41 + ((u32)4294967295ULL)));
  *v27 = v42;
  v45 = v41;
  goto L11;
L10: ;
  v43 = *v27;
  v44 = ((u32)(v43 + ((u32)4294967295ULL)));
  *v27 = v44;
  v45 = v43;
  goto L11;
L11: ;
  v46 = (v45 == ((u32)1ULL));
  if (v46) {
    goto L12;
  } else {
    goto L13;
  }
L12: ;
  _ZNSt16_Sp_counted_baseILN9__gnu_cxx12_Lock_policyE2EE24_M_release_last_use_coldEv(v25);
  goto L13;
L13: ;
  return;
L14: ;
  v47.f0 = v_exc_obj;
  v47.f1 = 0;
  v_exc = 0;
  _ZN14OpenVolumeMesh11PropertyPtrIbNS_6Entity6VertexEED2Ev(v0);
  v_exc = 1; return;
}

void _ZZNK14OpenVolumeMesh2IO16PropertyDecoderTIbNS0_6Codecs13BoolPropCodecEE16request_propertyERNS_15ResourceManagerENS_10EntityTypeERKNSt7__cxx1112basic_stringIcSt11char_traitsIcESaIcEEERKSt6vectorIhSaIhEEENKUlT_E_clINS_6Entity4EdgeEEEDaSL_(struct S56_class_std__shared_ptr_65* a0, struct S57_class_anon_726* a1) {
  struct S31_class_OpenVolumeMesh__PropertyPtr_86* v0; struct S31_class_OpenVolumeMesh__PropertyPtr_86 v0_m;
  u8* v1;
  struct S53_class_OpenVolumeMesh__ResourceManager** v2;
  struct S53_class_OpenVolumeMesh__ResourceManager* v3;
  struct S14_class_std____cxx11__basic_string** v4;
  struct S14_class_std____cxx11__basic_string* v5;
  u8** v6;
  u8* v7;
  struct S53_class_OpenVolumeMesh__ResourceManager* v8;
  struct S12_class_OpenVolumeMesh__PropertyStorageT** v9;
  struct S12_class_OpenVolumeMesh__PropertyStorageT** v10;
  struct S12_class_OpenVolumeMesh__PropertyStorageT* v11;
  struct S20_class_std___Sp_counted_base** v12;
  struct S20_class_std___Sp_counted_base** v13;
  struct S20_class_std___Sp_counted_base* v14;
  u1 v15;
  u32* v16;
  u8 v17;
  u1 v18;
  u32 v19;
  u32 v20;
  u32 v21;
  u32 v22;
  fnptr_t** v23;
  struct S20_class_std___Sp_counted_base** v24;
  struct S20_class_std___Sp_counted_base* v25;
  u1 v26;
  u32* v27;
  u64* v28;
  u64 v29;
  u1 v30;
  u32* v31;
  fnptr_t** v32;
  fnptr_t* v33;
  fnptr_t* v34;
  fnptr_t v35;
  fnptr_t* v36;
  fnptr_t* v37;
  fnptr_t v38;
  u8 v39;
  u1 v40;
  u32 v41;
  u32 v42;
  u32 v43;
  u32 v44;
  u32 v45; u32 v45_t;
  u1 v46;
  struct S65 v47;
L0: ;
  v0 = &v0_m;
  v1 = (u8*)v0;
  v2 = (struct S53_class_OpenVolumeMesh__ResourceManager**)(&(*a1).f0);
  v3 = *v2;
  v4 = (struct S14_class_std____cxx11__basic_string**)(&(*a1).f1);
  v5 = *v4;
  v6 = (u8**)(&(*a1).f2);
  v7 = *v6;
  _ZN14OpenVolumeMesh15ResourceManager16request_propertyIbNS_6Entity4EdgeEEENS_11PropertyPtrIT_T0_EERKNSt7__cxx1112basic_stringIcSt11char_traitsIcESaIcEEERKS5_(v0, v3, v5, v7);
  if (v_exc) return;
  v8 = *v2;
  _ZN14OpenVolumeMesh15ResourceManager14set_persistentIbNS_6Entity4EdgeEEEvRNS_11PropertyPtrIT_T0_EEb(v8, v0, ((u1)1ULL));
  if (v_exc) {
    goto L14;
  }
  goto L1;
L1: ;
  v9 = (struct S12_class_OpenVolumeMesh__PropertyStorageT**)(&(*a0).f0.f0);
  v10 = (struct S12_class_OpenVolumeMesh__PropertyStorageT**)(&(*v0).f0.f0.f1.f0.f0);
  v11 = *v10;
  *v9 = v11;
  v12 = (struct S20_class_std___Sp_counted_base**)(&(*a0).f0.f1.f0);
  v13 = (struct S20_class_std___Sp_counted_base**)(&(*v0).f0.f0.f1.f0.f1.f0);
  v14 = *v13;
  *v12 = v14;
  v15 = ((u8*)v14 == (u8*)((struct S20_class_std___Sp_counted_base*)0));
  if (v15) {
    goto L5;
  } else {
    goto L2;
  }
L2: ;
  v16 = (u32*)(&(*v14).f1);
  v17 = *(&__libc_single_threaded);
  v18 = (v17 == ((u8)0ULL));
  if (v18) {
    goto L4;
  } else {
    goto L3;
  }
L3: ;
  v19 = *v16;
  v20 = ((u32)(v19 + ((u32)1ULL)));
  *v16 = v20;
  goto L5;
L4: ;
  v21 = *v16;
  v22 = ((u32)(v21 + ((u32)1ULL)));
  *v16 = v22;
  goto L5;
L5: ;
  v23 = (fnptr_t**)(&(*v0).f0.f0.f0);
  *v23 = ((fnptr_t*)((u8**)(&(*(&_ZTVN14OpenVolumeMesh18PropertyStoragePtrIbEE)).f0.e[(s64)((s64)((u64)2ULL))])));
  v24 = (struct S20_class_std___Sp_counted_base**)(&(*v0).f0.f0.f1.f0.f1.f0);
  v25 = *v24;
  v26 = ((u8*)v25 == (u8*)((struct S20_class_std___Sp_counted_base*)0));
  if (v26) {
    goto L13;
  } else {
    goto L6;
  }
L6: ;
  v27 = (u32*)(&(*v25).f1);
  v28 = (u64*)v27;
  v29 = (((u64)(*v25).f1 << 0) | ((u64)(*v25).f2 << 32));
  v30 = (v29 == ((u64)4294967297ULL));
  if (v30) {
    goto L7;
  } else {
    goto L8;
  }
L7: ;
  *v27 = ((u32)0ULL);
  v31 = (u32*)(&(*v25).f2);
  *v31 = ((u32)0ULL);
  v32 = (fnptr_t**)&(*v25).f0;
  v33 = *v32;
  v34 = (fnptr_t*)(v33 + (s64)((s64)((u64)2ULL)));
  v35 = *v34;
  ((FT1)v35)(v25);
  v36 = *v32;
  v37 = (fnptr_t*)(v36 + (s64)((s64)((u64)3ULL)));
  v38 = *v37;
  ((FT1)v38)(v25);
  goto L13;
L8: ;
  v39 = *(&__libc_single_threaded);
  v40 = (v39 == ((u8)0ULL));
  if (v40) {
    goto L10;
  } else {
    goto L9;
  }
L9: ;
  v41 = *v27;
  v42 = ((u32)(v41 + ((u32)4294967295ULL)));
  *v27 = v42;
  v45 = v41;
  goto L11;
L10: ;
  v43 = *v27;
  v44 = ((u32)(v43 + ((u32)4294967295ULL)));
  *v27 = v44;
  v45 = v43;
  goto L11;
L11: ;
  v46 = (v45 == ((u32)1ULL));
  if (v46) {
    goto L12;
  } else {
    goto L13;
  }
L12: ;
  _ZNSt16_Sp_counted_baseILN9__gnu_cxx12_Lock_policyE2EE24_M_release_last_use_coldEv(v25);
  goto L13;
L13: ;
  return;
L14: ;
  v47.f0 = v_exc_obj;
  v47.f1 = 0;
  v_exc = 0;
  _ZN14OpenVolumeMesh11PropertyPtrIbNS_6Entity4EdgeEED2Ev(v0);
  v_exc = 1; return;
}

void _ZZNK14OpenVolumeMesh2IO16PropertyDecoderTIbNS0_6Codecs13BoolPropCodecEE16request_propertyERNS_15ResourceManagerENS_10EntityTypeERKNSt7__cxx1112basic_stringIcSt11char_traitsIcESaIcEEERKSt6vectorIhSaIhEEENKUlT_E_clINS_6Entity8HalfEdgeEEEDaSL_(struct S56_class_std__shared_ptr_65* a0, struct S57_class_anon_726* a1) {
  struct S31_class_OpenVolumeMesh__PropertyPtr_86* v0; struct S31_class_OpenVolumeMesh__PropertyPtr_86 v0_m;
  u8* v1;
  struct S53_class_OpenVolumeMesh__ResourceManager** v2;
  struct S53_class_OpenVolumeMesh__ResourceManager* v3;
  struct S14_class_std____cxx11__basic_string** v4;
  struct S14_class_std____cxx11__basic_string* v5;
  u8** v6;
  u8* v7;
  struct S53_class_OpenVolumeMesh__ResourceManager* v8;
  struct S12_class_OpenVolumeMesh__PropertyStorageT** v9;
  struct S12_class_OpenVolumeMesh__PropertyStorageT** v10;
  struct S12_class_OpenVolumeMesh__PropertyStorageT* v11;
  struct S20_class_std___Sp_counted_base** v12;
  struct S20_class_std___Sp_counted_base** v13;
  struct S20_class_std___Sp_counted_base* v14;
  u1 v15;
  u32* v16;
  u8 v17;
  u1 v18;
  u32 v19;
  u32 v20;
  u32 v21;
  u32 v22;
  fnptr_t** v23;
  struct S20_class_std___Sp_counted_base** v24;
  struct S20_class_std___Sp_counted_base* v25;
  u1 v26;
  u32* v27;
  u64* v28;
  u64 v29;
  u1 v30;
  u32* v31;
  fnptr_t** v32;
  fnptr_t* v33;
  fnptr_t* v34;
  fnptr_t v35;
  fnptr_t* v36;
  fnptr_t* v37;
  fnptr_t v38;
  u8 v39;
  u1 v40;
  u32 v41;
  u32 v42;
  u32 v43;
  u32 v44;
  u32 v45; u32 v45_t;
  u1 v46;
  struct S65 v47;
L0: ;
  v0 = &v0_m;
  v1 = (u8*)v0;
  v2 = (struct S53_class_OpenVolumeMesh__ResourceManager**)(&(*a1).f0);
  v3 = *v2;
  v4 = (struct S14_class_std____cxx11__basic_string**)(&(*a1).f1);
  v5 = *v4;
  v6 = (u8**)(&(*a1).f2);
  v7 = *v6;
  _ZN14OpenVolumeMesh15ResourceManager16request_propertyIbNS_6Entity8HalfEdgeEEENS_11PropertyPtrIT_T0_EERKNSt7__cxx1112basic_stringIcSt11char_traitsIcESaIcEEERKS5_(v0, v3, v5, v7);
  if (v_exc) return;
  v8 = *v2;
  _ZN14OpenVolumeMesh15ResourceManager14set_persistentIbNS_6Entity8HalfEdgeEEEvRNS_11PropertyPtrIT_T0_EEb(v8, v0, ((u1)1ULL));
  if (v_exc) {
    goto L14;
  }
  goto L1;
L1: ;
  v9 = (struct S12_class_OpenVolumeMesh__PropertyStorageT**)(&(*a0).f0.f0);
  v10 = (struct S12_class_OpenVolumeMesh__PropertyStorageT**)(&(*v0).f0.f0.f1.f0.f0);
  v11 = *v10;
  *v9 = v11;
  v12 = (struct S20_class_std___Sp_counted_base**)(&(*a0).f0.f1.f0);
  v13 = (struct S20_class_std___Sp_counted_base**)(&(*v0).f0.f0.f1.f0.f1.f0);
  v14 = *v13;
  *v12 = v14;
  v15 = ((u8*)v14 == (u8*)((struct S20_class_std___Sp_counted_base*)0));
  if (v15) {
    goto L5;
  } else {
    goto L2;
  }
L2: ;
  v16 = (u32*)(&(*v14).f1);
  v17 = *(&__libc_single_threaded);
  v18 = (v17 == ((u8)0ULL));
  if (v18) {
    goto L4;
  } else {
    goto L3;
  }
L3: ;
  v19 = *v16;
  v20 = ((u32)(v19 + ((u32)1ULL)));
  *v16 = v20;
  goto L5;
L4: ;
  v21 = *v16;
  v22 = ((u32)(v21 + ((u32)1ULL)));
  *v16 = v22;
  goto L5;
L5: ;
  v23 = (fnptr_t**)(&(*v0).f0.f0.f0);
  *v23 = ((fnptr_t*)((u8**)(&(*(&_ZTVN14OpenVolumeMesh18PropertyStoragePtrIbEE)).f0.e[(s64)((s64)((u64)2ULL))])));
  v24 = (struct S20_class_std___Sp_counted_base**)(&(*v0).f0.f0.f1.f0.f1.f0);
  v25 = *v24;
  v26 = ((u8*)v25 == (u8*)((struct S20_class_std___Sp_counted_base*)0));
  if (v26) {
    goto L13;
  } else {
    goto L6;
  }
L6: ;
  v27 = (u32*)(&(*v25).f1);
  v28 = (u64*)v27;
  v29 = (((u64)(*v25).f1 << 0) | ((u64)(*v25).f2 << 32));
  v30 = (v29 == ((u64)4294967297ULL));
  if (v30) {
    goto L7;
  } else {
    goto L8;
  }
L7: ;
  *v27 = ((u32)0ULL);
  v31 = (u32*)(&(*v25).f2);
  *v31 = ((u32)0ULL);
  v32 = (fnptr_t**)&(*v25).f0;
  v33 = *v32;
  v34 = (fnptr_t*)(v33 + (s64)((s64)((u64)2ULL)));
  v35 = *v34;
  ((FT1)v35)(v25);
  v36 = *v32;
  v37 = (fnptr_t*)(v36 + (s64)((s64)((u64)3ULL)));
  v38 = *v37;
  ((FT1)v38)(v25);
  goto L13;
L8: ;
  v39 = *(&__libc_single_threaded);
  v40 = (v39 == ((u8)0ULL));
  if (v40) {
    goto L10;
  } else {
    goto L9;
  }
L9: ;
  v41 = *v27;
  v42 = ((u32)(v41 + ((u32)4294967295ULL)));
  *v27 = v42;
  v45 = v41;
  goto L11;
L10: ;
  v43 = *v27;
  v44 = ((u32)(v43 + ((u32)4294967295ULL)));
  *v27 = v44;
  v45 = v43;
  goto L11;
L11: ;
  v46 = (v45 == ((u32)1ULL));
  if (v46) {
    goto L12;
  } else {
    goto L13;
  }
L12: ;
  _ZNSt16_Sp_counted_baseILN9__gnu_cxx12_Lock_policyE2EE24_M_release_last_use_coldEv(v25);
  goto L13;
L13: ;
  return;
L14: ;
  v47.f0 = v_exc_obj;
  v47.f1 = 0;
  v_exc = 0;
  _ZN14OpenVolumeMesh11PropertyPtrIbNS_6Entity8HalfEdgeEED2Ev(v0);
  v_exc = 1; return;
}

void _ZZNK14OpenVolumeMesh2IO16PropertyDecoderTIbNS0_6Codecs13BoolPropCodecEE16request_propertyERNS_15ResourceManagerENS_10EntityTypeERKNSt7__cxx1112basic_stringIcSt11char_traitsIcESaIcEEERKSt6vectorIhSaIhEEENKUlT_E_clINS_6Entity4FaceEEEDaSL_(struct S56_class_std__shared_ptr_65* a0, struct S57_class_anon_726* a1) {
  struct S31_class_OpenVolumeMesh__PropertyPtr_86* v0; struct S31_class_OpenVolumeMesh__PropertyPtr_86 v0_m;
  u8* v1;
  struct S53_class_OpenVolumeMesh__ResourceManager** v2;
  struct S53_class_OpenVolumeMesh__ResourceManager* v3;
  struct S14_class_std____cxx11__basic_string** v4;
  struct S14_class_std____cxx11__basic_string* v5;
  u8** v6;
  u8* v7;
  struct S53_class_OpenVolumeMesh__ResourceManager* v8;
  struct S12_class_OpenVolumeMesh__PropertyStorageT** v9;
  struct S12_class_OpenVolumeMesh__PropertyStorageT** v10;
  struct S12_class_OpenVolumeMesh__PropertyStorageT* v11;
  struct S20_class_std___Sp_counted_base** v12;
  struct S20_class_std___Sp_counted_base** v13;
  struct S20_class_std___Sp_counted_base* v14;
  u1 v15;
  u32* v16;
  u8 v17;
  u1 v18;
  u32 v19;
  u32 v20;
  u32 v21;
  u32 v22;
  fnptr_t** v23;
  struct S20_class_std___Sp_counted_base** v24;
  struct S20_class_std___Sp_counted_base* v25;
  u1 v26;
  u32* v27;
  u64* v28;
  u64 v29;
  u1 v30;
  u32* v31;
  fnptr_t** v32;
  fnptr_t* v33;
  fnptr_t* v34;
  fnptr_t v35;
  fnptr_t* v36;
  fnptr_t* v37;
  fnptr_t v38;
  u8 v39;
  u1 v40;
  u32 v41;
  u32 v42;
  u32 v43;
  u32 v44;
  u32 v45; u32 v45_t;
  u1 v46;
  struct S65 v47;
L0: ;
  v0 = &v0_m;
  v1 = (u8*)v0;
  v2 = (struct S53_class_OpenVolumeMesh__ResourceManager**)(&(*a1).f0);
  v3 = *v2;
  v4 = (struct S14_class_std____cxx11__basic_string**)(&(*a1).f1);
  v5 = *v4;
  v6 = (u8**)(&(*a1).f2);
  v7 = *v6;
  _ZN14OpenVolumeMesh15ResourceManager16request_propertyIbNS_6Entity4FaceEEENS_11PropertyPtrIT_T0_EERKNSt7__cxx1112basic_stringIcSt11char_traitsIcESaIcEEERKS5_(v0, v3, v5, v7);
  if (v_exc) return;
  v8 = *v2;
  _ZN14OpenVolumeMesh15ResourceManager14set_persistentIbNS_6Entity4FaceEEEvRNS_11PropertyPtrIT_T0_EEb(v8, v0, ((u1)1ULL));
  if (v_exc) {
    goto L14;
  }
  goto L1;
L1: ;
  v9 = (struct S12_class_OpenVolumeMesh__PropertyStorageT**)(&(*a0).f0.f0);
  v10 = (struct S12_class_OpenVolumeMesh__PropertyStorageT**)(&(*v0).f0.f0.f1.f0.f0);
  v11 = *v10;
  *v9 = v11;
  v12 = (struct S20_class_std___Sp_counted_base**)(&(*a0).f0.f1.f0);
  v13 = (struct S20_class_std___Sp_counted_base**)(&(*v0).f0.f0.f1.f0.f1.f0);
  v14 = *v13;
  *v12 = v14;
  v15 = ((u8*)v14 == (u8*)((struct S20_class_std___Sp_counted_base*)0));
  if (v15) {
    goto L5;
  } else {
    goto L2;
  }
L2: ;
  v16 = (u32*)(&(*v14).f1);
  v17 = *(&__libc_single_threaded);
  v18 = (v17 == ((u8)0ULL));
  if (v18) {
    goto L4;
  } else {
    goto L3;
  }
L3: ;
  v19 = *v16;
  v20 = ((u32)(v19 + ((u32)1ULL)));
  *v16 = v20;
  goto L5;
L4: ;
  v21 = *v16;
  v22 = ((u32)(v21 + ((u32)1ULL)));
  *v16 = v22;
  goto L5;
L5: ;
  v23 = (fnptr_t**)(&(*v0).f0.f0.f0);
  *v23 = ((fnptr_t*)((u8**)(&(*(&_ZTVN14OpenVolumeMesh18PropertyStoragePtrIbEE)).f0.e[(s64)((s64)((u64)2ULL))])));
  v24 = (struct S20_class_std___Sp_counted_base**)(&(*v0).f0.f0.f1.f0.f1.f0);
  v25 = *v24;
  v26 = ((u8*)v25 == (u8*)((struct S20_class_std___Sp_counted_base*)0));
  if (v26) {
    goto L13;
  } else {
    goto L6;
  }
L6: ;
  v27 = (u32*)(&(*v25).f1);
  v28 = (u64*)v27;
  v29 = (((u64)(*v25).f1 << 0) | ((u64)(*v25).f2 << 32));
  v30 = (v29 == ((u64)4294967297ULL));
  if (v30) {
    goto L7;
  } else {
    goto L8;
  }
L7: ;
  *v27 = ((u32)0ULL);
  v31 = (u32*)(&(*v25).f2);
  *v31 = ((u32)0ULL);
  v32 = (fnptr_t**)&(*v25).f0;
  v33 = *v32;
  v34 = (fnptr_t*)(v33 + (s64)((s64)((u64)2ULL)));
  v35 = *v34;
  ((FT1)v35)(v25);
  v36 = *v32;
  v37 = (fnptr_t*)(v36 + (s64)((s64)((u64)3ULL)));
  v38 = *v37;
  ((FT1)v38)(v25);
  goto L13;
L8: ;
  v39 = *(&__libc_single_threaded);
  v40 = (v39 == ((u8)0ULL));
  if (v40) {
    goto L10;
  } else {
    goto L9;
  }
L9: ;
  v41 = *v27;
  v42 = ((u32)(v41 + ((u32)4294967295ULL)));
  *v27 = v42;
  v45 = v41;
  goto L11;
L10: ;
  v43 = *v27;
  v44 = ((u32)(v43 + ((u32)4294967295ULL)));
  *v27 = v44;
  v45 = v43;
  goto L11;
L11: ;
  v46 = (v45 == ((u32)1ULL));
  if (v46) {
    goto L12;
  } else {
    goto L13;
  }
L12: ;
  _ZNSt16_Sp_counted_baseILN9__gnu_cxx12_Lock_policyE2EE24_M_release_last_use_coldEv(v25);
  goto L13;
L13: ;
  return;
L14: ;
  v47.f0 = v_exc_obj;
  v47.f1 = 0;
  v_exc = 0;
  _ZN14OpenVolumeMesh11PropertyPtrIbNS_6Entity4FaceEED2Ev(v0);
  v_exc = 1; return;
}

void _ZZNK14OpenVolumeMesh2IO16PropertyDecoderTIbNS0_6Codecs13BoolPropCodecEE16request_propertyERNS_15ResourceManagerENS_10EntityTypeERKNSt7__cxx1112basic_stringIcSt11char_traitsIcESaIcEEERKSt6vectorIhSaIhEEENKUlT_E_clINS_6Entity8HalfFaceEEEDaSL_(struct S56_class_std__shared_ptr_65* a0, struct S57_class_anon_726* a1) {
  struct S31_class_OpenVolumeMesh__PropertyPtr_86* v0; struct S31_class_OpenVolumeMesh__PropertyPtr_86 v0_m;
  u8* v1;
  struct S53_class_OpenVolumeMesh__ResourceManager** v2;
  struct S53_class_OpenVolumeMesh__ResourceManager* v3;
  struct S14_class_std____cxx11__basic_string** v4;
  struct S14_class_std____cxx11__basic_string* v5;
  u8** v6;
  u8* v7;
  struct S53_class_OpenVolumeMesh__ResourceManager* v8;
  struct S12_class_OpenVolumeMesh__PropertyStorageT** v9;
  struct S12_class_OpenVolumeMesh__PropertyStorageT** v10;
  struct S12_class_OpenVolumeMesh__PropertyStorageT* v11;
  struct S20_class_std___Sp_counted_base** v12;
  struct S20_class_std___Sp_counted_base** v13;
  struct S20_class_std___Sp_counted_base* v14;
  u1 v15;
  u32* v16;
  u8 v17;
  u1 v18;
  u32 v19;
  u32 v20;
  u32 v21;
  u32 v22;
  fnptr_t** v23;
  struct S20_class_std___Sp_counted_base** v24;
  struct S20_class_std___Sp_counted_base* v25;
  u1 v26;
  u32* v27;
  u64* v28;
  u64 v29;
  u1 v30;
  u32* v31;
  fnptr_t** v32;
  fnptr_t* v33;
  fnptr_t* v34;
  fnptr_t v35;
  fnptr_t* v36;
  fnptr_t* v37;
  fnptr_t v38;
  u8 v39;
  u1 v40;
  u32 v41;
  u32 v42;
  u32 v43;
  u32 v44;
  u32 v45; u32 v45_t;
  u1 v46;
  struct S65 v47;
L0: ;
  v0 = &v0_m;
  v1 = (u8*)v0;
  v2 = (struct S53_class_OpenVolumeMesh__ResourceManager**)(&(*a1).f0);
  v3 = *v2;
  v4 = (struct S14_class_std____cxx11__basic_string**)(&(*a1).f1);
  v5 = *v4;
  v6 = (u8**)(&(*a1).f2);
  v7 = *v6;
  _ZN14OpenVolumeMesh15ResourceManager16request_propertyIbNS_6Entity8HalfFaceEEENS_11PropertyPtrIT_T0_EERKNSt7__cxx1112basic_stringIcSt11char_traitsIcESaIcEEERKS5_(v0, v3, v5, v7);
  if (v_exc) return;
  v8 = *v2;
  _ZN14OpenVolumeMesh15ResourceManager14set_persistentIbNS_6Entity8HalfFaceEEEvRNS_11PropertyPtrIT_T0_EEb(v8, v0, ((u1)1ULL));
  if (v_exc) {
    goto L14;
  }
  goto L1;
L1: ;
  v9 = (struct S12_class_OpenVolumeMesh__PropertyStorageT**)(&(*a0).f0.f0);
  v10 = (struct S12_class_OpenVolumeMesh__PropertyStorageT**)(&(*v0).f0.f0.f1.f0.f0);
  v11 = *v10;
  *v9 = v11;
  v12 = (struct S20_class_std___Sp_counted_base**)(&(*a0).f0.f1.f0);
  v13 = (struct S20_class_std___Sp_counted_base**)(&(*v0).f0.f0.f1.f0.f1.f0);
  v14 = *v13;
  *v12 = v14;
  v15 = ((u8*)v14 == (u8*)((struct S20_class_std___Sp_counted_base*)0));
  if (v15) {
    goto L5;
  } else {
    goto L2;
  }
L2: ;
  v16 = (u32*)(&(*v14).f1);
  v17 = *(&__libc_single_threaded);
  v18 = (v17 == ((u8)0ULL));
  if (v18) {
    goto L4;
  } else {
    goto L3;
  }
L3: ;
  v19 = *v16;
  v20 = ((u32)(v19 + ((u32)1ULL)));
  *v16 = v20;
  goto L5;
L4: ;
  v21 = *v16;
  v22 = ((u32)(v21 + ((u32)1ULL)));
  *v16 = v22;
  goto L5;
L5: ;
  v23 = (fnptr_t**)(&(*v0).f0.f0.f0);
  *v23 = ((fnptr_t*)((u8**)(&(*(&_ZTVN14OpenVolumeMesh18PropertyStoragePtrIbEE)).f0.e[(s64)((s64)((u64)2ULL))])));
  v24 = (struct S20_class_std___Sp_counted_base**)(&(*v0).f0.f0.f1.f0.f1.f0);
  v25 = *v24;
  v26 = ((u8*)v25 == (u8*)((struct S20_class_std___Sp_counted_base*)0));
  if (v26) {
    goto L13;
  } else {
    goto L6;
  }
L6: ;
  v27 = (u32*)(&(*v25).f1);
  v28 = (u64*)v27;
  v29 = (((u64)(*v25).f1 << 0) | ((u64)(*v25).f2 << 32));
  v30 = (v29 == ((u64)4294967297ULL));
  if (v30) {
    goto L7;
  } else {
    goto L8;
  }
L7: ;
  *v27 = ((u32)0ULL);
  v31 = (u32*)(&(*v25).f2);
  *v31 = ((u32)0ULL);
  v32 = (fnptr_t**)&(*v25).f0;
  v33 = *v32;
  v34 = (fnptr_t*)(v33 + (s64)((s64)((u64)2ULL)));
  v35 = *v34;
  ((FT1)v35)(v25);
  v36 = *v32;
  v37 = (fnptr_t*)(v36 + (s64)((s64)((u64)3ULL)));
  v38 = *v37;
  ((FT1)v38)(v25);
  goto L13;
L8: ;
  v39 = *(&__libc_single_threaded);
  v40 = (v39 == ((u8)0ULL));
  if (v40) {
    goto L10;
  } else {
    goto L9;
  }
L9: ;
  v41 = *v27;
  v42 = ((u32)(v41 + ((u32)4294967295ULL)));
  *v27 = v42;
  v45 = v41;
  goto L11;
L10: ;
  v43 = *v27;
  v44 = ((u32)(v43 + ((u32)4294967295ULL)));
  *v27 = v44;
  v45 = v43;
  goto L11;
L11: ;
  v46 = (v45 == ((u32)1ULL));
  if (v46) {
    goto L12;
  } else {
    goto L13;
  }
L12: ;
  _ZNSt16_Sp_counted_baseILN9__gnu_cxx12_Lock_policyE2EE24_M_release_last_use_coldEv(v25);
  goto L13;
L13: ;
  return;
L14: ;
  v47.f0 = v_exc_obj;
  v47.f1 = 0;
  v_exc = 0;
  _ZN14OpenVolumeMesh11PropertyPtrIbNS_6Entity8HalfFaceEED2Ev(v0);
  v_exc = 1; return;
}

void _ZZNK14OpenVolumeMesh2IO16PropertyDecoderTIbNS0_6Codecs13BoolPropCodecEE16request_propertyERNS_15ResourceManagerENS_10EntityTypeERKNSt7__cxx1112basic_stringIcSt11char_traitsIcESaIcEEERKSt6vectorIhSaIhEEENKUlT_E_clINS_6Entity4CellEEEDaSL_(struct S56_class_std__shared_ptr_65* a0, struct S57_class_anon_726* a1) {
  struct S31_class_OpenVolumeMesh__PropertyPtr_86* v0; struct S31_class_OpenVolumeMesh__PropertyPtr_86 v0_m;
  u8* v1;
  struct S53_class_OpenVolumeMesh__ResourceManager** v2;
  struct S53_class_OpenVolumeMesh__ResourceManager* v3;
  struct S14_class_std____cxx11__basic_string** v4;
  struct S14_class_std____cxx11__basic_string* v5;
  u8** v6;
  u8* v7;
  struct S53_class_OpenVolumeMesh__ResourceManager* v8;
  struct S12_class_OpenVolumeMesh__PropertyStorageT** v9;
  struct S12_class_OpenVolumeMesh__PropertyStorageT** v10;
  struct S12_class_OpenVolumeMesh__PropertyStorageT* v11;
  struct S20_class_std___Sp_counted_base** v12;
  struct S20_class_std___Sp_counted_base** v13;
  struct S20_class_std___Sp_counted_base* v14;
  u1 v15;
  u32* v16;
  u8 v17;
  u1 v18;
  u32 v19;
  u32 v20;
  u32 v21;
  u32 v22;
  fnptr_t** v23;
  struct S20_class_std___Sp_counted_base** v24;
  struct S20_class_std___Sp_counted_base* v25;
  u1 v26;
  u32* v27;
  u64* v28;
  u64 v29;
  u1 v30;
  u32* v31;
  fnptr_t** v32;
  fnptr_t* v33;
  fnptr_t* v34;
  fnptr_t v35;
  fnptr_t* v36;
  fnptr_t* v37;
  fnptr_t v38;
  u8 v39;
  u1 v40;
  u32 v41;
  u32 v42;
  u32 v43;
  u32 v44;
  u32 v45; u32 v45_t;
  u1 v46;
  struct S65 v47;
L0: ;
  v0 = &v0_m;
  v1 = (u8*)v0;
  v2 = (struct S53_class_OpenVolumeMesh__ResourceManager**)(&(*a1).f0);
  v3 = *v2;
  v4 = (struct S14_class_std____cxx11__basic_string**)(&(*a1).f1);
  v5 = *v4;
  v6 = (u8**)(&(*a1).f2);
  v7 = *v6;
  _ZN14OpenVolumeMesh15ResourceManager16request_propertyIbNS_6Entity4CellEEENS_11PropertyPtrIT_T0_EERKNSt7__cxx1112basic_stringIcSt11char_traitsIcESaIcEEERKS5_(v0, v3, v5, v7);
  if (v_exc) return;
  v8 = *v2;
  _ZN14OpenVolumeMesh15ResourceManager14set_persistentIbNS_6Entity4CellEEEvRNS_11PropertyPtrIT_T0_EEb(v8, v0, ((u1)1ULL));
  if (v_exc) {
    goto L14;
  }
  goto L1;
L1: ;
  v9 = (struct S12_class_OpenVolumeMesh__PropertyStorageT**)(&(*a0).f0.f0);
  v10 = (struct S12_class_OpenVolumeMesh__PropertyStorageT**)(&(*v0).f0.f0.f1.f0.f0);
  v11 = *v10;
  *v9 = v11;
  v12 = (struct S20_class_std___Sp_counted_base**)(&(*a0).f0.f1.f0);
  v13 = (struct S20_class_std___Sp_counted_base**)(&(*v0).f0.f0.f1.f0.f1.f0);
  v14 = *v13;
  *v12 = v14;
  v15 = ((u8*)v14 == (u8*)((struct S20_class_std___Sp_counted_base*)0));
  if (v15) {
    goto L5;
  } else {
    goto L2;
  }
L2: ;
  v16 = (u32*)(&(*v14).f1);
  v17 = *(&__libc_single_threaded);
  v18 = (v17 == ((u8)0ULL));
  if (v18) {
    goto L4;
  } else {
    goto L3;
  }
L3: ;
  v19 = *v16;
  v20 = ((u32)(v19 + ((u32)1ULL)));
  *v16 = v20;
  goto L5;
L4: ;
  v21 = *v16;
  v22 = ((u32)(v21 + ((u32)1ULL)));
  *v16 = v22;
  goto L5;
L5: ;
  v23 = (fnptr_t**)(&(*v0).f0.f0.f0);
  *v23 = ((fnptr_t*)((u8**)(&(*(&_ZTVN14OpenVolumeMesh18PropertyStoragePtrIbEE)).f0.e[(s64)((s64)((u64)2ULL))])));
  v24 = (struct S20_class_std___Sp_counted_base**)(&(*v0).f0.f0.f1.f0.f1.f0);
  v25 = *v24;
  v26 = ((u8*)v25 == (u8*)((struct S20_class_std___Sp_counted_base*)0));
  if (v26) {
    goto L13;
  } else {
    goto L6;
  }
L6: ;
  v27 = (u32*)(&(*v25).f1);
  v28 = (u64*)v27;
  v29 = (((u64)(*v25).f1 << 0) | ((u64)(*v25).f2 << 32));
  v30 = (v29 == ((u64)4294967297ULL));
  if (v30) {
    goto L7;
  } else {
    goto L8;
  }
L7: ;
  *v27 = ((u32)0ULL);
  v31 = (u32*)(&(*v25).f2);
  *v31 = ((u32)0ULL);
  v32 = (fnptr_t**)&(*v25).f0;
  v33 = *v32;
  v34 = (fnptr_t*)(v33 + (s64)((s64)((u64)2ULL)));
  v35 = *v34;
  ((FT1)v35)(v25);
  v36 = *v32;
  v37 = (fnptr_t*)(v36 + (s64)((s64)((u64)3ULL)));
  v38 = *v37;
  ((FT1)v38)(v25);
  goto L13;
L8: ;
  v39 = *(&__libc_single_threaded);
  v40 = (v39 == ((u8)0ULL));
  if (v40) {
    goto L10;
  } else {
    goto L9;
  }
L9: ;
  v41 = *v27;
  v42 = ((u32)(v41 + ((u32)4294967295ULL)));
  *v27 = v42;
  v45 = v41;
  goto L11;
L10: ;
  v43 = *v27;
  v44 = ((u32)(v43 + ((u32)4294967295ULL)));
  *v27 = v44;
  v45 = v43;
  goto L11;
L11: ;
  v46 = (v45 == ((u32)1ULL));
  if (v46) {
    goto L12;
  } else {
    goto L13;
  }
L12: ;
  _ZNSt16_Sp_counted_baseILN9__gnu_cxx12_Lock_policyE2EE24_M_release_last_use_coldEv(v25);
  goto L13;
L13: ;
  return;
L14: ;
  v47.f0 = v_exc_obj;
  v47.f1 = 0;
  v_exc = 0;
  _ZN14OpenVolumeMesh11PropertyPtrIbNS_6Entity4CellEED2Ev(v0);
  v_exc = 1; return;
}

void _ZZNK14OpenVolumeMesh2IO16PropertyDecoderTIbNS0_6Codecs13BoolPropCodecEE16request_propertyERNS_15ResourceManagerENS_10EntityTypeERKNSt7__cxx1112basic_stringIcSt11char_traitsIcESaIcEEERKSt6vectorIhSaIhEEENKUlT_E_clINS_6Entity4MeshEEEDaSL_(struct S56_class_std__shared_ptr_65* a0, struct S57_class_anon_726* a1) {
  struct S31_class_OpenVolumeMesh__PropertyPtr_86* v0; struct S31_class_OpenVolumeMesh__PropertyPtr_86 v0_m;
  u8* v1;
  struct S53_class_OpenVolumeMesh__ResourceManager** v2;
  struct S53_class_OpenVolumeMesh__ResourceManager* v3;
  struct S14_class_std____cxx11__basic_string** v4;
  struct S14_class_std____cxx11__basic_string* v5;
  u8** v6;
  u8* v7;
  struct S53_class_OpenVolumeMesh__ResourceManager* v8;
  struct S12_class_OpenVolumeMesh__PropertyStorageT** v9;
  struct S12_class_OpenVolumeMesh__PropertyStorageT** v10;
  struct S12_class_OpenVolumeMesh__PropertyStorageT* v11;
  struct S20_class_std___Sp_counted_base** v12;
  struct S20_class_std___Sp_counted_base** v13;
  struct S20_class_std___Sp_counted_base* v14;
  u1 v15;
  u32* v16;
  u8 v17;
  u1 v18;
  u32 v19;
  u32 v20;
  u32 v21;
  u32 v22;
  fnptr_t** v23;
  struct S20_class_std___Sp_counted_base** v24;
  struct S20_class_std___Sp_counted_base* v25;
  u1 v26;
  u32* v27;
  u64* v28;
  u64 v29;
  u1 v30;
  u32* v31;
  fnptr_t** v32;
  fnptr_t* v33;
  fnptr_t* v34;
  fnptr_t v35;
  fnptr_t* v36;
  fnptr_t* v37;
  fnptr_t v38;
  u8 v39;
  u1 v40;
  u32 v41;
  u32 v42;
  u32 v43;
  u32 v44;
  u32 v45; u32 v45_t;
  u1 v46;
  struct S65 v47;
L0: ;
  v0 = &v0_m;
  v1 = (u8*)v0;
  v2 = (struct S53_class_OpenVolumeMesh__ResourceManager**)(&(*a1).f0);
  v3 = *v2;
  v4 = (struct S14_class_std____cxx11__basic_string**)(&(*a1).f1);
  v5 = *v4;
  v6 = (u8**)(&(*a1).f2);
  v7 = *v6;
  _ZN14OpenVolumeMesh15ResourceManager16request_propertyIbNS_6Entity4MeshEEENS_11PropertyPtrIT_T0_EERKNSt7__cxx1112basic_stringIcSt11char_traitsIcESaIcEEERKS5_(v0, v3, v5, v7);
  if (v_exc) return;
  v8 = *v2;
  _ZN14OpenVolumeMesh15ResourceManager14set_persistentIbNS_6Entity4MeshEEEvRNS_11PropertyPtrIT_T0_EEb(v8, v0, ((u1)1ULL));
  if (v_exc) {
    goto L14;
  }
  goto L1;
L1: ;
  v9 = (struct S12_class_OpenVolumeMesh__PropertyStorageT**)(&(*a0).f0.f0);
  v10 = (struct S12_class_OpenVolumeMesh__PropertyStorageT**)(&(*v0).f0.f0.f1.f0.f0);
  v11 = *v10;
  *v9 = v11;
  v12 = (struct S20_class_std___Sp_counted_base**)(&(*a0).f0.f1.f0);
  v13 = (struct S20_class_std___Sp_counted_base**)(&(*v0).f0.f0.f1.f0.f1.f0);
  v14 = *v13;
  *v12 = v14;
  v15 = ((u8*)v14 == (u8*)((struct S20_class_std___Sp_counted_base*)0));
  if (v15) {
    goto L5;
  } else {
    goto L2;
  }
L2: ;
  v16 = (u32*)(&(*v14).f1);
  v17 = *(&__libc_single_threaded);
  v18 = (v17 == ((u8)0ULL));
  if (v18) {
    goto L4;
  } else {
    goto L3;
  }
L3: ;
  v19 = *v16;
  v20 = ((u32)(v19 + ((u32)1ULL)));
  *v16 = v20;
  goto L5;
L4: ;
  v21 = *v16;
  v22 = ((u32)(v21 + ((u32)1ULL)));
  *v16 = v22;
  goto L5;
L5: ;
  v23 = (fnptr_t**)(&(*v0).f0.f0.f0);
  *v23 = ((fnptr_t*)((u8**)(&(*(&_ZTVN14OpenVolumeMesh18PropertyStoragePtrIbEE)).f0.e[(s64)((s64)((u64)2ULL))])));
  v24 = (struct S20_class_std___Sp_counted_base**)(&(*v0).f0.f0.f1.f0.f1.f0);
  v25 = *v24;
  v26 = ((u8*)v25 == (u8*)((struct S20_class_std___Sp_counted_base*)0));
  if (v26) {
    goto L13;
  } else {
    goto L6;
  }
L6: ;
  v27 = (u32*)(&(*v25).f1);
  v28 = (u64*)v27;
  v29 = (((u64)(*v25).f1 << 0) | ((u64)(*v25).f2 << 32));
  v30 = (v29 == ((u64)4294967297ULL));
  if (v30) {
    goto L7;
  } else {
    goto L8;
  }
L7: ;
  *v27 = ((u32)0ULL);
  v31 = (u32*)(&(*v25).f2);
  *v31 = ((u32)0ULL);
  v32 = (fnptr_t**)&(*v25).f0;
  v33 = *v32;
  v34 = (fnptr_t*)(v33 + (s64)((s64)((u64)2ULL)));
  v35 = *v34;
  ((FT1)v35)(v25);
  v36 = *v32;
  v37 = (fnptr_t*)(v36 + (s64)((s64)((u64)3ULL)));
  v38 = *v37;
  ((FT1)v38)(v25);
  goto L13;
L8: ;
  v39 = *(&__libc_single_threaded);
  v40 = (v39 == ((u8)0ULL));
  if (v40) {
    goto L10;
  } else {
    goto L9;
  }
L9: ;
  v41 = *v27;
  v42 = ((u32)(v41 + ((u32)4294967295ULL)));
  *v27 = v42;
  v45 = v41;
  goto L11;
L10: ;
  v43 = *v27;
  v44 = ((u32)(v43 + ((u32)4294967295ULL)));
  *v27 = v44;
  v45 = v43;
  goto L11;
L11: ;
  v46 = (v45 == ((u32)1ULL));
  if (v46) {
    goto L12;
  } else {
    goto L13;
  }
L12: ;
  _ZNSt16_Sp_counted_baseILN9__gnu_cxx12_Lock_policyE2EE24_M_release_last_use_coldEv(v25);
  goto L13;
L13: ;
  return;
L14: ;
  v47.f0 = v_exc_obj;
  v47.f1 = 0;
  v_exc = 0;
  _ZN14OpenVolumeMesh11PropertyPtrIbNS_6Entity4MeshEED2Ev(v0);
  v_exc = 1; return;
}

void _ZN14OpenVolumeMesh15ResourceManager16request_propertyIbNS_6Entity4MeshEEENS_11PropertyPtrIT_T0_EERKNSt7__cxx1112basic_stringIcSt11char_traitsIcESaIcEEERKS5_(struct S31_class_OpenVolumeMesh__PropertyPtr_86* a0, struct S53_class_OpenVolumeMesh__ResourceManager* a1, struct S14_class_std____cxx11__basic_string* a2, u8* a3) {
  u64* v0; u64 v0_m;
  struct S58_class_std__optional_184* v1; struct S58_class_std__optional_184 v1_m;
  struct S14_class_std____cxx11__basic_string* v2; struct S14_class_std____cxx11__basic_string v2_m;
  u8* v3;
  u8* v4;
  u8 v5;
  u1 v6;
  fnptr_t** v7;
  struct S12_class_OpenVolumeMesh__PropertyStorageT** v8;
  struct S12_class_OpenVolumeMesh__PropertyStorageT** v9;
  struct S12_class_OpenVolumeMesh__PropertyStorageT* v10;
  struct S20_class_std___Sp_counted_base** v11;
  struct S20_class_std___Sp_counted_base** v12;
  struct S20_class_std___Sp_counted_base* v13;
  u1 v14;
  u32* v15;
  u8 v16;
  u1 v17;
  u32 v18;
  u32 v19;
  u32 v20;
  u32 v21;
  fnptr_t** v22;
  u64* v23;
  u64 v24;
  u1 v25;
  struct S64_union_anon* v26;
  struct S64_union_anon** v27;
  u8** v28;
  u8* v29;
  u8* v30;
  u1 v31;
  u8* v32;
  u8** v33;
  u64 v34;
  u64* v35;
  u8** v36;
  u8* v37;
  u8 v38;
  u64 v39;
  u64* v40;
  u8* v41;
  u8* v42;
  u8* v43;
  u8* v44;
  u1 v45;
  struct S65 v46;
  struct S65 v47;
  u8* v48;
  u8* v49;
  u1 v50;
  struct S65 v51; struct S65 v51_t;
  struct S59_struct_std___Optional_base_185* v52;
  u8* v53;
  u8 v54;
  u1 v55;
  fnptr_t** v56;
  struct S20_class_std___Sp_counted_base** v57;
  struct S20_class_std___Sp_counted_base* v58;
  u1 v59;
  u32* v60;
  u64* v61;
  u64 v62;
  u1 v63;
  u32* v64;
  fnptr_t** v65;
  fnptr_t* v66;
  fnptr_t* v67;
  fnptr_t v68;
  fnptr_t* v69;
  fnptr_t* v70;
  fnptr_t v71;
  u8 v72;
  u1 v73;
  u32 v74;
  u32 v75;
  u32 v76;
  u32 v77;
  u32 v78; u32 v78_t;
  u1 v79;
L0: ;
  v0 = &v0_m;
  v1 = &v1_m;
  v2 = &v2_m;
  v3 = (u8*)v1;
  _ZNK14OpenVolumeMesh15ResourceManager22internal_find_propertyIbNS_6Entity4MeshEEESt8optionalINS_11PropertyPtrIT_T0_EEERKNSt7__cxx1112basic_stringIcSt11char_traitsIcESaIcEEE(v1, a1, a2);
  if (v_exc) return;
  v4 = (u8*)(&(*v1).f0.f0.f0.f0.f1);
  v5 = *v4;
  v6 = (v5 == ((u8)0ULL));
  if (v6) {
    goto L6;
  } else {
    goto L1;
  }
L1: ;
  v7 = (fnptr_t**)(&(*a0).f0.f0.f0);
  *v7 = ((fnptr_t*)((u8**)(&(*(&_ZTVN14OpenVolumeMesh18PropertyStoragePtrIbEE)).f0.e[(s64)((s64)((u64)2ULL))])));
  v8 = (struct S12_class_OpenVolumeMesh__PropertyStorageT**)(&(*a0).f0.f0.f1.f0.f0);
  v9 = (struct S12_class_OpenVolumeMesh__PropertyStorageT**)(&(*v1).f0.f0.f0.f0.f0.f0.f0.f0.f1.f0.f0);
  v10 = *v9;
  *v8 = v10;
  v11 = (struct S20_class_std___Sp_counted_base**)(&(*a0).f0.f0.f1.f0.f1.f0);
  v12 = (struct S20_class_std___Sp_counted_base**)(&(*v1).f0.f0.f0.f0.f0.f0.f0.f0.f1.f0.f1.f0);
  v13 = *v12;
  *v11 = v13;
  v14 = ((u8*)v13 == (u8*)((struct S20_class_std___Sp_counted_base*)0));
  if (v14) {
    goto L5;
  } else {
    goto L2;
  }
L2: ;
  v15 = (u32*)(&(*v13).f1);
  v16 = *(&__libc_single_threaded);
  v17 = (v16 == ((u8)0ULL));
  if (v17) {
    goto L4;
  } else {
    goto L3;
  }
L3: ;
  v18 = *v15;
  v19 = ((u32)(v18 + ((u32)1ULL)));
  *v15 = v19;
  goto L5;
L4: ;
  v20 = *v15;
  v21 = ((u32)(v20 + ((u32)1ULL)));
  *v15 = v21;
  goto L5;
L5: ;
  *v7 = ((fnptr_t*)((u8**)(&(*(&_ZTVN14OpenVolumeMesh14HandleIndexingINS_6Entity4MeshENS_18PropertyStoragePtrIbEEEE)).f0.e[(s64)((s64)((u64)2ULL))])));
  v22 = (fnptr_t**)(&(*a0).f1.f0);
  *v22 = ((fnptr_t*)((u8**)(&(*(&_ZTVN14OpenVolumeMesh15BasePropertyPtrE)).f0.e[(s64)((s64)((u64)2ULL))])));
  *v7 = ((fnptr_t*)((u8**)(&(*(&_ZTVN14OpenVolumeMesh11PropertyPtrIbNS_6Entity4MeshEEE)).f0.e[(s64)((s64)((u64)2ULL))])));
  *v22 = ((fnptr_t*)((u8**)(&(*(&_ZTVN14OpenVolumeMesh11PropertyPtrIbNS_6Entity4MeshEEE)).f1.e[(s64)((s64)((u64)2ULL))])));
  goto L19;
L6: ;
  v23 = (u64*)(&(*a2).f1);
  v24 = *v23;
  v25 = (v24 != ((u64)0ULL));
  v26 = (struct S64_union_anon*)(&(*v2).f2);
  v27 = (struct S64_union_anon**)&(*v2).f0.f0;
  *v27 = v26;
  v28 = (u8**)(&(*a2).f0.f0);
  v29 = *v28;
  v30 = (u8*)v0;
  *v0 = v24;
  v31 = (v24 > ((u64)15ULL));
  if (v31) {
    goto L7;
  } else {
    goto L9;
  }
L7: ;
  v32 = _ZNSt7__cxx1112basic_stringIcSt11char_traitsIcESaIcEE9_M_createERmm(v2, v0, ((u64)0ULL));
  if (v_exc) {
    goto L15;
  }
  goto L8;
L8: ;
  v33 = (u8**)(&(*v2).f0.f0);
  *v33 = v32;
  v34 = *v0;
  v35 = (u64*)(&(*v2).f2.f0.e[0]);
  *v35 = v34;
  goto L9;
L9: ;
  v36 = (u8**)(&(*v2).f0.f0);
  v37 = *v36;
  switch (v24) {
  case ((u64)1ULL): {
    goto L10;
  }
  case ((u64)0ULL): {
    goto L12;
  }
  default: {
    goto L11;
  }
  }
L10: ;
  v38 = *v29;
  *v37 = v38;
  goto L12;
L11: ;
  v_memcpy((u8*)v37, (u8*)v29, (u64)v24);
  goto L12;
L12: ;
  v39 = *v0;
  v40 = (u64*)(&(*v2).f1);
  *v40 = v39;
  v41 = *v36;
  v42 = (u8*)(v41 + (s64)((s64)v39));
  *v42 = ((u8)0ULL);
  _ZNK14OpenVolumeMesh15ResourceManager24internal_create_propertyIbNS_6Entity4MeshEEENS_11PropertyPtrIT_T0_EENSt7__cxx1112basic_stringIcSt11char_traitsIcESaIcEEERKS5_b(a0, a1, v2, a3, v25);
  if (v_exc) {
    goto L16;
  }
  goto L13;
L13: ;
  v43 = *v36;
  v44 = (u8*)v26;
  v45 = ((u8*)v43 == (u8*)v44);
  if (v45) {
    goto L19;
  } else {
    goto L14;
  }
L14: ;
  _ZdlPv(v43);
  goto L19;
L15: ;
  v46.f0 = v_exc_obj;
  v46.f1 = 0;
  v_exc = 0;
  v51 = v46;
  goto L18;
L16: ;
  v47.f0 = v_exc_obj;
  v47.f1 = 0;
  v_exc = 0;
  v48 = *v36;
  v49 = (u8*)v26;
  v50 = ((u8*)v48 == (u8*)v49);
  if (v50) {
    v51 = v47;
    goto L18;
  } else {
    goto L17;
  }
L17: ;
  _ZdlPv(v48);
  v51 = v47;
  goto L18;
L18: ;
  v52 = (struct S59_struct_std___Optional_base_185*)(&(*v1).f0);
  _ZNSt14_Optional_baseIN14OpenVolumeMesh11PropertyPtrIbNS0_6Entity4MeshEEELb0ELb0EED2Ev(v52);
  v_exc = 1; return;
L19: ;
  v53 = (u8*)(&(*v1).f0.f0.f0.f0.f1);
  v54 = *v53;
  v55 = (v54 == ((u8)0ULL));
  if (v55) {
    goto L28;
  } else {
    goto L20;
  }
L20: ;
  *v53 = ((u8)0ULL);
  v56 = (fnptr_t**)(&(*v1).f0.f0.f0.f0.f0.f0.f0.f0.f0);
  *v56 = ((fnptr_t*)((u8**)(&(*(&_ZTVN14OpenVolumeMesh18PropertyStoragePtrIbEE)).f0.e[(s64)((s64)((u64)2ULL))])));
  v57 = (struct S20_class_std___Sp_counted_base**)(&(*v1).f0.f0.f0.f0.f0.f0.f0.f0.f1.f0.f1.f0);
  v58 = *v57;
  v59 = ((u8*)v58 == (u8*)((struct S20_class_std___Sp_counted_base*)0));
  if (v59) {
    goto L28;
  } else {
    goto L21;
  }
L21: ;
  v60 = (u32*)(&(*v58).f1);
  v61 = (u64*)v60;
  v62 = (((u64)(*v58).f1 << 0) | ((u64)(*v58).f2 << 32));
  v63 = (v62 == ((u64)4294967297ULL));
  if (v63) {
    goto L22;
  } else {
    goto L23;
  }
L22: ;
  *v60 = ((u32)0ULL);
  v64 = (u32*)(&(*v58).f2);
  *v64 = ((u32)0ULL);
  v65 = (fnptr_t**)&(*v58).f0;
  v66 = *v65;
  v67 = (fnptr_t*)(v66 + (s64)((s64)((u64)2ULL)));
  v68 = *v67;
  ((FT1)v68)(v58);
  v69 = *v65;
  v70 = (fnptr_t*)(v69 + (s64)((s64)((u64)3ULL)));
  v71 = *v70;
  ((FT1)v71)(v58);
  goto L28;
L23: ;
  v72 = *(&__libc_single_threaded);
  v73 = (v72 == ((u8)0ULL));
  if (v73) {
    goto L25;
  } else {
    goto L24;
  }
L24: ;
  v74 = *v60;
  v75 = ((u32)(v74 + ((u32)4294967295ULL)));
  *v60 = v75;
  v78 = v74;
  goto L26;
L25: ;
  v76 = *v60;
  v77 = ((u32)(v76 + ((u32)4294967295ULL)));
  *v60 = v77;
  v78 = v76;
  goto L26;
L26: ;
  v79 = (v78 == ((u32)1ULL));
  if (v79) {
    goto L27;
  } else {
    goto L28;
  }
L27: ;
  _ZNSt16_Sp_counted_baseILN9__gnu_cxx12_Lock_policyE2EE24_M_release_last_use_coldEv(v58);
  goto L28;
L28: ;
  return;
}

void _ZN14OpenVolumeMesh15ResourceManager14set_persistentIbNS_6Entity4MeshEEEvRNS_11PropertyPtrIT_T0_EEb(struct S53_class_OpenVolumeMesh__ResourceManager* a0, struct S31_class_OpenVolumeMesh__PropertyPtr_86* a1, u1 a2) {
  struct S25_class_std__weak_ptr* v0; struct S25_class_std__weak_ptr v0_m;
  struct S12_class_OpenVolumeMesh__PropertyStorageT** v1;
  struct S22_class_OpenVolumeMesh__PropertyStorageBas** v2;
  struct S22_class_OpenVolumeMesh__PropertyStorageBas* v3;
  u8* v4;
  u8 v5;
  u1 v6;
  u1 v7;
  u8* v8;
  struct S56_class_std__shared_ptr_65* v9;
  struct S22_class_OpenVolumeMesh__PropertyStorageBas** v10;
  struct S22_class_OpenVolumeMesh__PropertyStorageBas* v11;
  struct S22_class_OpenVolumeMesh__PropertyStorageBas** v12;
  struct S20_class_std___Sp_counted_base** v13;
  struct S20_class_std___Sp_counted_base** v14;
  struct S20_class_std___Sp_counted_base* v15;
  u1 v16;
  u32* v17;
  u8 v18;
  u1 v19;
  u32 v20;
  u32 v21;
  u32 v22;
  u32 v23;
  struct S22_class_OpenVolumeMesh__PropertyStorageBas* v24;
  u8* v25;
  u8 v26;
  u1 v27;
  u8* v28;
  struct S29_class_std__runtime_error* v29;
  struct S65 v30;
  struct S65 v31;
  struct S16_class_std___Rb_tree_5* v32;
  struct S36 v33;
  struct S43_class_std__map* v34;
  u8* v35;
  u8* v36;
  struct S41_struct_std___Rb_tree_node_31** v37;
  u8* v38;
  struct S17_struct_std___Rb_tree_node_base* v39;
  struct S41_struct_std___Rb_tree_node_31* v40;
  u1 v41;
  struct S22_class_OpenVolumeMesh__PropertyStorageBas* v42;
  struct S41_struct_std___Rb_tree_node_31* v43; struct S41_struct_std___Rb_tree_node_31* v43_t;
  struct S17_struct_std___Rb_tree_node_base* v44; struct S17_struct_std___Rb_tree_node_base* v44_t;
  struct S72_struct___gnu_cxx____aligned_membuf_32* v45;
  struct S22_class_OpenVolumeMesh__PropertyStorageBas** v46;
  struct S22_class_OpenVolumeMesh__PropertyStorageBas* v47;
  u1 v48;
  struct S17_struct_std___Rb_tree_node_base** v49;
  u1 v50;
  struct S17_struct_std___Rb_tree_node_base* v51;
  struct S17_struct_std___Rb_tree_node_base** v52;
  struct S41_struct_std___Rb_tree_node_31** v53;
  struct S41_struct_std___Rb_tree_node_31* v54;
  struct S17_struct_std___Rb_tree_node_base** v55;
  struct S41_struct_std___Rb_tree_node_31** v56;
  struct S41_struct_std___Rb_tree_node_31* v57;
  u1 v58;
  struct S41_struct_std___Rb_tree_node_31* v59; struct S41_struct_std___Rb_tree_node_31* v59_t;
  struct S17_struct_std___Rb_tree_node_base* v60; struct S17_struct_std___Rb_tree_node_base* v60_t;
  struct S72_struct___gnu_cxx____aligned_membuf_32* v61;
  struct S22_class_OpenVolumeMesh__PropertyStorageBas** v62;
  struct S22_class_OpenVolumeMesh__PropertyStorageBas* v63;
  u1 v64;
  struct S17_struct_std___Rb_tree_node_base** v65;
  struct S17_struct_std___Rb_tree_node_base* v66;
  struct S17_struct_std___Rb_tree_node_base** v67;
  struct S17_struct_std___Rb_tree_node_base* v68;
  struct S17_struct_std___Rb_tree_node_base** v69;
  struct S41_struct_std___Rb_tree_node_31** v70;
  struct S41_struct_std___Rb_tree_node_31* v71;
  u1 v72;
  struct S17_struct_std___Rb_tree_node_base* v73; struct S17_struct_std___Rb_tree_node_base* v73_t;
  u1 v74;
  struct S41_struct_std___Rb_tree_node_31* v75; struct S41_struct_std___Rb_tree_node_31* v75_t;
  struct S17_struct_std___Rb_tree_node_base* v76; struct S17_struct_std___Rb_tree_node_base* v76_t;
  struct S72_struct___gnu_cxx____aligned_membuf_32* v77;
  struct S22_class_OpenVolumeMesh__PropertyStorageBas** v78;
  struct S22_class_OpenVolumeMesh__PropertyStorageBas* v79;
  u1 v80;
  struct S17_struct_std___Rb_tree_node_base* v81;
  struct S17_struct_std___Rb_tree_node_base** v82;
  struct S17_struct_std___Rb_tree_node_base** v83;
  struct S17_struct_std___Rb_tree_node_base* v84;
  struct S17_struct_std___Rb_tree_node_base** v85;
  struct S41_struct_std___Rb_tree_node_31** v86;
  struct S41_struct_std___Rb_tree_node_31* v87;
  u1 v88;
  struct S17_struct_std___Rb_tree_node_base* v89; struct S17_struct_std___Rb_tree_node_base* v89_t;
  struct S17_struct_std___Rb_tree_node_base** v90; struct S17_struct_std___Rb_tree_node_base** v90_t;
  struct S41_struct_std___Rb_tree_node_31** v91;
  struct S41_struct_std___Rb_tree_node_31* v92;
  u1 v93;
  struct S17_struct_std___Rb_tree_node_base* v94; struct S17_struct_std___Rb_tree_node_base* v94_t;
  struct S17_struct_std___Rb_tree_node_base* v95; struct S17_struct_std___Rb_tree_node_base* v95_t;
  struct S16_class_std___Rb_tree_5* v96;
  struct S22_class_OpenVolumeMesh__PropertyStorageBas** v97;
  struct S22_class_OpenVolumeMesh__PropertyStorageBas* v98;
  u8 v99;
  u8* v100;
  struct S20_class_std___Sp_counted_base** v101;
  struct S20_class_std___Sp_counted_base* v102;
  u1 v103;
  u32* v104;
  u64* v105;
  u64 v106;
  u1 v107;
  u32* v108;
  fnptr_t** v109;
  fnptr_t* v110;
  fnptr_t* v111;
  fnptr_t v112;
  fnptr_t* v113;
  fnptr_t* v114;
  fnptr_t v115;
  u8 v116;
  u1 v117;
  u32 v118;
  u32 v119;
  u32 v120;
  u32 v121;
  u32 v122; u32 v122_t;
  u1 v123;
  struct S65 v124; struct S65 v124_t;
  struct S40_class_std____weak_ptr* v125;
L0: ;
  v0 = &v0_m;
  v1 = (struct S12_class_OpenVolumeMesh__PropertyStorageT**)(&(*a1).f0.f0.f1.f0.f0);
  v2 = (struct S22_class_OpenVolumeMesh__PropertyStorageBas**)&(*a1).f0.f0.f1.f0.f0;
  v3 = *v2;
  v4 = (u8*)(&(*v3).f5);
  v5 = *v4;
  v6 = (v5 != ((u8)0ULL));
  v7 = ((u1)((v6 ^ a2)&1));
  if (v7) {
    goto L1;
  } else {
    goto L32;
  }
L1: ;
  v8 = (u8*)v0;
  v9 = (struct S56_class_std__shared_ptr_65*)(&(*a1).f0.f0.f1);
  v10 = (struct S22_class_OpenVolumeMesh__PropertyStorageBas**)&(*a1).f0.f0.f1.f0.f0;
  v11 = *v10;
  v12 = (struct S22_class_OpenVolumeMesh__PropertyStorageBas**)(&(*v0).f0.f0);
  *v12 = v11;
  v13 = (struct S20_class_std___Sp_counted_base**)(&(*v0).f0.f1.f0);
  v14 = (struct S20_class_std___Sp_counted_base**)(&(*a1).f0.f0.f1.f0.f1.f0);
  v15 = *v14;
  *v13 = v15;
  v16 = ((u8*)v15 == (u8*)((struct S20_class_std___Sp_counted_base*)0));
  if (v16) {
    goto L5;
  } else {
    goto L2;
  }
L2: ;
  v17 = (u32*)(&(*v15).f1);
  v18 = *(&__libc_single_threaded);
  v19 = (v18 == ((u8)0ULL));
  if (v19) {
    goto L4;
  } else {
    goto L3;
  }
L3: ;
  v20 = *v17;
  v21 = ((u32)(v20 + ((u32)1ULL)));
  *v17 = v21;
  goto L5;
L4: ;
  v22 = *v17;
  v23 = ((u32)(v22 + ((u32)1ULL)));
  *v17 = v23;
  goto L5;
L5: ;
  if (a2) {
    goto L6;
  } else {
    goto L12;
  }
L6: ;
  v24 = *v2;
  v25 = (u8*)(&(*v24).f6);
  v26 = *v25;
  v27 = (v26 == ((u8)0ULL));
  if (v27) {
    goto L7;
  } else {
    goto L11;
  }
L7: ;
  v28 = __cxa_allocate_exception(((u64)16ULL));
  v29 = (struct S29_class_std__runtime_error*)v28;
  _ZNSt13runtime_errorC1EPKc(v29, ((u8*)(&(*(&_str_38)).e[(s64)((s64)((u64)0ULL))])));
  if (v_exc) {
    goto L9;
  }
  goto L8;
L8: ;
  __cxa_throw(v28, ((u8*)(&_ZTISt13runtime_error)), ((u8*)((fnptr_t)_ZNSt13runtime_errorD1Ev)));
  if (v_exc) {
    goto L10;
  }
  goto L34;
L9: ;
  v30.f0 = v_exc_obj;
  v30.f1 = 0;
  v_exc = 0;
  __cxa_free_exception(v28);
  v124 = v30;
  goto L33;
L10: ;
  v31.f0 = v_exc_obj;
  v31.f1 = 0;
  v_exc = 0;
  v124 = v31;
  goto L33;
L11: ;
  v32 = (struct S16_class_std___Rb_tree_5*)(&(*a0).f1.f0.f0.e[(s64)((s64)((u64)6ULL))].f0);
  v33 = _ZNSt8_Rb_treeISt10shared_ptrIN14OpenVolumeMesh19PropertyStorageBaseEES3_St9_IdentityIS3_ESt4lessIS3_ESaIS3_EE16_M_insert_uniqueIRKS3_EESt4pairISt17_Rb_tree_iteratorIS3_EbEOT_(v32, v0);
  if (v_exc) {
    goto L10;
  }
  goto L23;
L12: ;
  v34 = (struct S43_class_std__map*)(&(*a0).f1.f0.f0.e[(s64)((s64)((u64)6ULL))]);
  v35 = (u8*)(&(*v34).f0.f0.f0.f0.f0);
  v36 = (u8*)&(*a0).f1.f0.f0.e[6].f0.f0.f1.f0.f1;
  v37 = (struct S41_struct_std___Rb_tree_node_31**)&(*a0).f1.f0.f0.e[6].f0.f0.f1.f0.f1;
  v38 = (u8*)&(*a0).f1.f0.f0.e[6].f0.f0.f1.f0.f0;
  v39 = (struct S17_struct_std___Rb_tree_node_base*)&(*a0).f1.f0.f0.e[6].f0.f0.f1.f0;
  v40 = *v37;
  v41 = ((u8*)v40 == (u8*)((struct S41_struct_std___Rb_tree_node_31*)0));
  if (v41) {
    v94_t = v39;
    v95_t = v39;
    v94 = v94_t;
    v95 = v95_t;
    goto L22;
  } else {
    goto L13;
  }
L13: ;
  v42 = *v12;
  v43_t = v40;
  v44_t = v39;
  v43 = v43_t;
  v44 = v44_t;
  goto L14;
L14: ;
  v45 = (struct S72_struct___gnu_cxx____aligned_membuf_32*)(&(*v43).f1);
  v46 = (struct S22_class_OpenVolumeMesh__PropertyStorageBas**)v45;
  v47 = *v46;
  v48 = v_plt((u8*)v47, (u8*)v42);
  if (v48) {
    goto L15;
  } else {
    goto L16;
  }
L15: ;
  v49 = (struct S17_struct_std___Rb_tree_node_base**)(&(*v43).f0.f3);
  v89_t = v44;
  v90_t = v49;
  v89 = v89_t;
  v90 = v90_t;
  goto L21;
L16: ;
  v50 = v_plt((u8*)v42, (u8*)v47);
  v51 = (struct S17_struct_std___Rb_tree_node_base*)(&(*v43).f0);
  v52 = (struct S17_struct_std___Rb_tree_node_base**)(&(*v43).f0.f2);
  if (v50) {
    v89_t = v51;
    v90_t = v52;
    v89 = v89_t;
    v90 = v90_t;
    goto L21;
  } else {
    goto L17;
  }
L17: ;
  v53 = (struct S41_struct_std___Rb_tree_node_31**)&(*v43).f0.f2;
  v54 = *v53;
  v55 = (struct S17_struct_std___Rb_tree_node_base**)(&(*v43).f0.f3);
  v56 = (struct S41_struct_std___Rb_tree_node_31**)&(*v43).f0.f3;
  v57 = *v56;
  v58 = ((u8*)v54 == (u8*)((struct S41_struct_std___Rb_tree_node_31*)0));
  if (v58) {
    v73 = v51;
    goto L19;
  } else {
    v59_t = v54;
    v60_t = v51;
    v59 = v59_t;
    v60 = v60_t;
    goto L18;
  }
L18: ;
  v61 = (struct S72_struct___gnu_cxx____aligned_membuf_32*)(&(*v59).f1);
  v62 = (struct S22_class_OpenVolumeMesh__PropertyStorageBas**)v61;
  v63 = *v62;
  v64 = v_plt((u8*)v63, (u8*)v42);
  v65 = (struct S17_struct_std___Rb_tree_node_base**)(&(*v59).f0.f3);
  v66 = (struct S17_struct_std___Rb_tree_node_base*)(&(*v59).f0);
  v67 = (struct S17_struct_std___Rb_tree_node_base**)(&(*v59).f0.f2);
  v68 = (v64 ? v60 : v66);
  v69 = (v64 ? v65 : v67);
  v70 = (struct S41_struct_std___Rb_tree_node_31**)v69;
  v71 = *v70;
  v72 = ((u8*)v71 == (u8*)((struct S41_struct_std___Rb_tree_node_31*)0));
  if (v72) {
    v73 = v68;
    goto L19;
  } else {
    v59_t = v71;
    v60_t = v68;
    v59 = v59_t;
    v60 = v60_t;
    goto L18;
  }
L19: ;
  v74 = ((u8*)v57 == (u8*)((struct S41_struct_std___Rb_tree_node_31*)0));
  if (v74) {
    v94_t = v73;
    v95_t = v44;
    v94 = v94_t;
    v95 = v95_t;
    goto L22;
  } else {
    v75_t = v57;
    v76_t = v44;
    v75 = v75_t;
    v76 = v76_t;
    goto L20;
  }
L20: ;
  v77 = (struct S72_struct___gnu_cxx____aligned_membuf_32*)(&(*v75).f1);
  v78 = (struct S22_class_OpenVolumeMesh__PropertyStorageBas**)v77;
  v79 = *v78;
  v80 = v_plt((u8*)v42, (u8*)v79);
  v81 = (struct S17_struct_std___Rb_tree_node_base*)(&(*v75).f0);
  v82 = (struct S17_struct_std___Rb_tree_node_base**)(&(*v75).f0.f2);
  v83 = (struct S17_struct_std___Rb_tree_node_base**)(&(*v75).f0.f3);
  v84 = (v80 ? v81 : v76);
  v85 = (v80 ? v82 : v83);
  v86 = (struct S41_struct_std___Rb_tree_node_31**)v85;
  v87 = *v86;
  v88 = ((u8*)v87 == (u8*)((struct S41_struct_std___Rb_tree_node_31*)0));
  if (v88) {
    v94_t = v73;
    v95_t = v84;
    v94 = v94_t;
    v95 = v95_t;
    goto L22;
  } else {
    v75_t = v87;
    v76_t = v84;
    v75 = v75_t;
    v76 = v76_t;
    goto L20;
  }
L21: ;
  v91 = (struct S41_struct_std___Rb_tree_node_31**)v90;
  v92 = *v91;
  v93 = ((u8*)v92 == (u8*)((struct S41_struct_std___Rb_tree_node_31*)0));
  if (v93) {
    v94_t = v89;
    v95_t = v89;
    v94 = v94_t;
    v95 = v95_t;
    goto L22;
  } else {
    v43_t = v92;
    v44_t = v89;
    v43 = v43_t;
    v44 = v44_t;
    goto L14;
  }
L22: ;
  v96 = (struct S16_class_std___Rb_tree_5*)(&(*v34).f0);
  _ZNSt8_Rb_treeISt10shared_ptrIN14OpenVolumeMesh19PropertyStorageBaseEES3_St9_IdentityIS3_ESt4lessIS3_ESaIS3_EE12_M_erase_auxESt23_Rb_tree_const_iteratorIS3_ESB_(v96, v94, v95);
  if (v_exc) {
    goto L10;
  }
  goto L23;
L23: ;
  v97 = (struct S22_class_OpenVolumeMesh__PropertyStorageBas**)(&(*v0).f0.f0);
  v98 = *v97;
  v99 = ((u8)(a2));
  v100 = (u8*)(&(*v98).f5);
  *v100 = v99;
  v101 = (struct S20_class_std___Sp_counted_base**)(&(*v0).f0.f1.f0);
  v102 = *v101;
  v103 = ((u8*)v102 == (u8*)((struct S20_class_std___Sp_counted_base*)0));
  if (v103) {
    goto L31;
  } else {
    goto L24;
  }
L24: ;
  v104 = (u32*)(&(*v102).f1);
  v105 = (u64*)v104;
  v106 = (((u64)(*v102).f1 << 0) | ((u64)(*v102).f2 << 32));
  v107 = (v106 == ((u64)4294967297ULL));
  if (v107) {
    goto L25;
  } else {
    goto L26;
  }
L25: ;
  *v104 = ((u32)0ULL);
  v108 = (u32*)(&(*v102).f2);
  *v108 = ((u32)0ULL);
  v109 = (fnptr_t**)&(*v102).f0;
  v110 = *v109;
  v111 = (fnptr_t*)(v110 + (s64)((s64)((u64)2ULL)));
  v112 = *v111;
  ((FT1)v112)(v102);
  v113 = *v109;
  v114 = (fnptr_t*)(v113 + (s64)((s64)((u64)3ULL)));
  v115 = *v114;
  ((FT1)v115)(v102);
  goto L31;
L26: ;
  v116 = *(&__libc_single_threaded);
  v117 = (v116 == ((u8)0ULL));
  if (v117) {
    goto L28;
  } else {
    goto L27;
  }
L27: ;
  v118 = *v104;
  v119 = ((u32)(v118 + ((u32)4294967295ULL)));
  *v104 = v119;
  v122 = v118;
  goto L29;
L28: ;
  v120 = *v104;
  v121 = ((u32)(v120 + ((u32)4294967295ULL)));
  *v104 = v121;
  v122 = v120;
  goto L29;
L29: ;
  v123 = (v122 == ((u32)1ULL));
  if (v123) {
    goto L30;
  } else {
    goto L31;
  }
L30: ;
  _ZNSt16_Sp_counted_baseILN9__gnu_cxx12_Lock_policyE2EE24_M_release_last_use_coldEv(v102);
  goto L31;
L31: ;
  goto L32;
L32: ;
  return;
L33: ;
  v125 = (struct S40_class_std____weak_ptr*)(&(*v0).f0);
  _ZNSt12__shared_ptrIN14OpenVolumeMesh19PropertyStorageBaseELN9__gnu_cxx12_Lock_policyE2EED2Ev(v125);
  v_exc = 1; return;
L34: ;
  __CPROVER_assume(0);
}

void _ZNK14OpenVolumeMesh15ResourceManager22internal_find_propertyIbNS_6Entity4MeshEEESt8optionalINS_11PropertyPtrIT_T0_EEERKNSt7__cxx1112basic_stringIcSt11char_traitsIcESaIcEEE(struct S58_class_std__optional_184* a0, struct S53_class_OpenVolumeMesh__ResourceManager* a1, struct S14_class_std____cxx11__basic_string* a2) {
  struct S14_class_std____cxx11__basic_string* v0; struct S14_class_std____cxx11__basic_string v0_m;
  struct S31_class_OpenVolumeMesh__PropertyPtr_86* v1; struct S31_class_OpenVolumeMesh__PropertyPtr_86 v1_m;
  u64* v2;
  u64 v3;
  u1 v4;
  u8* v5;
  u8* v6;
  u8* v7;
  u8* v8;
  struct S17_struct_std___Rb_tree_node_base** v9;
  struct S17_struct_std___Rb_tree_node_base* v10;
  u8* v11;
  struct S17_struct_std___Rb_tree_node_base* v12;
  u1 v13;
  u64 v14;
  u8** v15;
  u8* v16;
  u64* v17;
  u64 v18;
  u8** v19;
  u8* v20;
  struct S17_struct_std___Rb_tree_node_base* v21; struct S17_struct_std___Rb_tree_node_base* v21_t;
  struct S17_struct_std___Rb_tree_node_base* v22;
  struct S22_class_OpenVolumeMesh__PropertyStorageBas** v23;
  struct S22_class_OpenVolumeMesh__PropertyStorageBas* v24;
  u8* v25;
  u8 v26;
  u1 v27;
  u64* v28;
  u64 v29;
  u1 v30;
  u1 v31;
  u8** v32;
  u8* v33;
  u32 v34;
  u1 v35;
  u64* v36;
  u64 v37;
  u1 v38;
  u1 v39;
  u8** v40;
  u8* v41;
  u32 v42;
  u1 v43;
  u8* v44;
  fnptr_t** v45;
  struct S12_class_OpenVolumeMesh__PropertyStorageT** v46;
  struct S12_class_OpenVolumeMesh__PropertyStorageT** v47;
  struct S12_class_OpenVolumeMesh__PropertyStorageT* v48;
  struct S20_class_std___Sp_counted_base** v49;
  struct S20_class_std___Sp_counted_base** v50;
  struct S20_class_std___Sp_counted_base* v51;
  u1 v52;
  u32* v53;
  u8 v54;
  u1 v55;
  u32 v56;
  u32 v57;
  u32 v58;
  u32 v59;
  fnptr_t** v60;
  u8* v61;
  fnptr_t** v62;
  struct S20_class_std___Sp_counted_base* v63;
  u1 v64;
  u32* v65;
  u64* v66;
  u64 v67;
  u1 v68;
  u32* v69;
  fnptr_t** v70;
  fnptr_t* v71;
  fnptr_t* v72;
  fnptr_t v73;
  fnptr_t* v74;
  fnptr_t* v75;
  fnptr_t v76;
  u8 v77;
  u1 v78;
  u32 v79;
  u32 v80;
  u32 v81;
  u32 v82;
  u32 v83; u32 v83_t;
  u1 v84;
  struct S65 v85;
  u8** v86;
  u8* v87;
  struct S64_union_anon* v88;
  u8* v89;
  u1 v90;
  struct S17_struct_std___Rb_tree_node_base* v91;
  u1 v92;
  u8* v93;
  u8** v94;
  u8* v95;
  struct S64_union_anon* v96;
  u8* v97;
  u1 v98;
L0: ;
  v0 = &v0_m;
  v1 = &v1_m;
  v2 = (u64*)(&(*a2).f1);
  v3 = *v2;
  v4 = (v3 == ((u64)0ULL));
  if (v4) {
    goto L1;
  } else {
    goto L2;
  }
L1: ;
  v5 = (u8*)(&(*a0).f0.f0.f0.f0.f1);
  *v5 = ((u8)0ULL);
  goto L33;
L2: ;
  v6 = (u8*)v0;
  _ZN14OpenVolumeMesh6detail18internal_type_nameB5cxx11ERKSt9type_info(v0, ((struct S39_class_std__type_info*)(&_ZTIb)));
  if (v_exc) return;
  v7 = (u8*)(&(*a1).f2.f0.f0.e[(s64)((s64)((u64)6ULL))].f1.f0.f0.f0.f0.f0);
  v8 = (u8*)&(*a1).f2.f0.f0.e[6].f1.f0.f0.f1.f0.f2;
  v9 = (struct S17_struct_std___Rb_tree_node_base**)&(*a1).f2.f0.f0.e[6].f1.f0.f0.f1.f0.f2;
  v10 = *v9;
  v11 = (u8*)&(*a1).f2.f0.f0.e[6].f1.f0.f0.f1.f0.f0;
  v12 = (struct S17_struct_std___Rb_tree_node_base*)&(*a1).f2.f0.f0.e[6].f1.f0.f0.f1.f0;
  v13 = ((u8*)v10 == (u8*)v12);
  if (v13) {
    goto L29;
  } else {
    goto L3;
  }
L3: ;
  v14 = *v2;
  v15 = (u8**)(&(*a2).f0.f0);
  v16 = *v15;
  v17 = (u64*)(&(*v0).f1);
  v18 = *v17;
  v19 = (u8**)(&(*v0).f0.f0);
  v20 = *v19;
  v21 = v10;
  goto L4;
L4: ;
  v22 = (struct S17_struct_std___Rb_tree_node_base*)(v21 + (s64)((s64)((u64)1ULL)));
  v23 = (struct S22_class_OpenVolumeMesh__PropertyStorageBas**)v22;
  v24 = *v23;
  v25 = (u8*)(&(*v24).f6);
  v26 = *v25;
  v27 = (v26 == ((u8)0ULL));
  if (v27) {
    goto L26;
  } else {
    goto L5;
  }
L5: ;
  v28 = (u64*)(&(*v24).f2.f1);
  v29 = *v28;
  v30 = (v29 == v14);
  if (v30) {
    goto L6;
  } else {
    goto L26;
  }
L6: ;
  v31 = (v29 == ((u64)0ULL));
  if (v31) {
    goto L8;
  } else {
    goto L7;
  }
L7: ;
  v32 = (u8**)(&(*v24).f2.f0.f0);
  v33 = *v32;
  v34 = bcmp(v33, v16, v29);
  v35 = (v34 == ((u32)0ULL));
  if (v35) {
    goto L8;
  } else {
    goto L26;
  }
L8: ;
  v36 = (u64*)(&(*v24).f3.f1);
  v37 = *v36;
  v38 = (v37 == v18);
  if (v38) {
    goto L9;
  } else {
    goto L26;
  }
L9: ;
  v39 = (v37 == ((u64)0ULL));
  if (v39) {
    goto L11;
  } else {
    goto L10;
  }
L10: ;
  v40 = (u8**)(&(*v24).f3.f0.f0);
  v41 = *v40;
  v42 = bcmp(v41, v20, v37);
  v43 = (v42 == ((u32)0ULL));
  if (v43) {
    goto L11;
  } else {
    goto L26;
  }
L11: ;
  v44 = (u8*)v1;
  _ZN14OpenVolumeMesh15ResourceManager21prop_ptr_from_storageIbNS_6Entity4MeshEEENS_11PropertyPtrIT_T0_EEPNS_19PropertyStorageBaseE(v1, v24);
  if (v_exc) {
    goto L25;
  }
  goto L12;
L12: ;
  v45 = (fnptr_t**)(&(*a0).f0.f0.f0.f0.f0.f0.f0.f0.f0);
  *v45 = ((fnptr_t*)((u8**)(&(*(&_ZTVN14OpenVolumeMesh18PropertyStoragePtrIbEE)).f0.e[(s64)((s64)((u64)2ULL))])));
  v46 = (struct S12_class_OpenVolumeMesh__PropertyStorageT**)(&(*a0).f0.f0.f0.f0.f0.f0.f0.f0.f1.f0.f0);
  v47 = (struct S12_class_OpenVolumeMesh__PropertyStorageT**)(&(*v1).f0.f0.f1.f0.f0);
  v48 = *v47;
  *v46 = v48;
  v49 = (struct S20_class_std___Sp_counted_base**)(&(*a0).f0.f0.f0.f0.f0.f0.f0.f0.f1.f0.f1.f0);
  v50 = (struct S20_class_std___Sp_counted_base**)(&(*v1).f0.f0.f1.f0.f1.f0);
  v51 = *v50;
  *v49 = v51;
  v52 = ((u8*)v51 == (u8*)((struct S20_class_std___Sp_counted_base*)0));
  if (v52) {
    goto L16;
  } else {
    goto L13;
  }
L13: ;
  v53 = (u32*)(&(*v51).f1);
  v54 = *(&__libc_single_threaded);
  v55 = (v54 == ((u8)0ULL));
  if (v55) {
    goto L15;
  } else {
    goto L14;
  }
L14: ;
  v56 = *v53;
  v57 = ((u32)(v56 + ((u32)1ULL)));
  *v53 = v57;
  goto L16;
L15: ;
  v58 = *v53;
  v59 = ((u32)(v58 + ((u32)1ULL)));
  *v53 = v59;
  goto L16;
L16: ;
  *v45 = ((fnptr_t*)((u8**)(&(*(&_ZTVN14OpenVolumeMesh14HandleIndexingINS_6Entity4MeshENS_18PropertyStoragePtrIbEEEE)).f0.e[(s64)((s64)((u64)2ULL))])));
  v60 = (fnptr_t**)(&(*a0).f0.f0.f0.f0.f0.f0.f1.f0);
  *v60 = ((fnptr_t*)((u8**)(&(*(&_ZTVN14OpenVolumeMesh15BasePropertyPtrE)).f0.e[(s64)((s64)((u64)2ULL))])));
  *v45 = ((fnptr_t*)((u8**)(&(*(&_ZTVN14OpenVolumeMesh11PropertyPtrIbNS_6Entity4MeshEEE)).f0.e[(s64)((s64)((u64)2ULL))])));
  *v60 = ((fnptr_t*)((u8**)(&(*(&_ZTVN14OpenVolumeMesh11PropertyPtrIbNS_6Entity4MeshEEE)).f1.e[(s64)((s64)((u64)2ULL))])));
  v61 = (u8*)(&(*a0).f0.f0.f0.f0.f1);
  *v61 = ((u8)1ULL);
  v62 = (fnptr_t**)(&(*v1).f0.f0.f0);
  *v62 = ((fnptr_t*)((u8**)(&(*(&_ZTVN14OpenVolumeMesh18PropertyStoragePtrIbEE)).f0.e[(s64)((s64)((u64)2ULL))])));
  v63 = *v50;
  v64 = ((u8*)v63 == (u8*)((struct S20_class_std___Sp_counted_base*)0));
  if (v64) {
    goto L24;
  } else {
    goto L17;
  }
L17: ;
  v65 = (u32*)(&(*v63).f1);
  v66 = (u64*)v65;
  v67 = (((u64)(*v63).f1 << 0) | ((u64)(*v63).f2 << 32));
  v68 = (v67 == ((u64)4294967297ULL));
  if (v68) {
    goto L18;
  } else {
    goto L19;
  }
L18: ;
  *v65 = ((u32)0ULL);
  v69 = (u32*)(&(*v63).f2);
  *v69 = ((u32)0ULL);
  v70 = (fnptr_t**)&(*v63).f0;
  v71 = *v70;
  v72 = (fnptr_t*)(v71 + (s64)((s64)((u64)2ULL)));
  v73 = *v72;
  ((FT1)v73)(v63);
  v74 = *v70;
  v75 = (fnptr_t*)(v74 + (s64)((s64)((u64)3ULL)));
  v76 = *v75;
  ((FT1)v76)(v63);
  goto L24;
L19: ;
  v77 = *(&__libc_single_threaded);
  v78 = (v77 == ((u8)0ULL));
  if (v78) {
    goto L21;
  } else {
    goto L20;
  }
L20: ;
  v79 = *v65;
  v80 = ((u32)(v79 + ((u32)4294967295ULL)));
  *v65 = v80;
  v83 = v79;
  goto L22;
L21: ;
  v81 = *v65;
  v82 = ((u32)(v81 + ((u32)4294967295ULL)));
  *v65 = v82;
  v83 = v81;
  goto L22;
L22: ;
  v84 = (v83 == ((u32)1ULL));
  if (v84) {
    goto L23;
  } else {
    goto L24;
  }
L23: ;
  _ZNSt16_Sp_counted_baseILN9__gnu_cxx12_Lock_policyE2EE24_M_release_last_use_coldEv(v63);
  goto L24;
L24: ;
  goto L30;
L25: ;
  v85.f0 = v_exc_obj;
  v85.f1 = 0;
  v_exc = 0;
  v86 = (u8**)(&(*v0).f0.f0);
  v87 = *v86;
  v88 = (struct S64_union_anon*)(&(*v0).f2);
  v89 = (u8*)v88;
  v90 = ((u8*)v87 == (u8*)v89);
  if (v90) {
    goto L28;
  } else {
    goto L27;
  }
L26: ;
  v91 = _ZSt18_Rb_tree_incrementPKSt18_Rb_tree_node_base(v21);
  v92 = ((u8*)v91 == (u8*)v12);
  if (v92) {
    goto L29;
  } else {
    v21 = v91;
    goto L4;
  }
L27: ;
  _ZdlPv(v87);
  goto L28;
L28: ;
  v_exc = 1; return;
L29: ;
  v93 = (u8*)(&(*a0).f0.f0.f0.f0.f1);
  *v93 = ((u8)0ULL);
  goto L30;
L30: ;
  v94 = (u8**)(&(*v0).f0.f0);
  v95 = *v94;
  v96 = (struct S64_union_anon*)(&(*v0).f2);
  v97 = (u8*)v96;
  v98 = ((u8*)v95 == (u8*)v97);
  if (v98) {
    goto L32;
  } else {
    goto L31;
  }
L31: ;
  _ZdlPv(v95);
  goto L32;
L32: ;
  goto L33;
L33: ;
  return;
}

void _ZNK14OpenVolumeMesh15ResourceManager24internal_create_propertyIbNS_6Entity4MeshEEENS_11PropertyPtrIT_T0_EENSt7__cxx1112basic_stringIcSt11char_traitsIcESaIcEEERKS5_b(struct S31_class_OpenVolumeMesh__PropertyPtr_86* a0, struct S53_class_OpenVolumeMesh__ResourceManager* a1, struct S14_class_std____cxx11__basic_string* a2, u8* a3, u1 a4) {
  struct S0_class_std__ios_base__Init* v0; struct S0_class_std__ios_base__Init v0_m;
  u8* v1; u8 v1_m;
  struct S56_class_std__shared_ptr_65* v2; struct S56_class_std__shared_ptr_65 v2_m;
  struct S13_class_OpenVolumeMesh__detail__Tracker** v3; struct S13_class_OpenVolumeMesh__detail__Tracker* v3_m;
  u8* v4; u8 v4_m;
  u8 v5;
  u8* v6;
  u8* v7;
  struct S13_class_OpenVolumeMesh__detail__Tracker* v8;
  u8* v9;
  struct S30_class_std____shared_ptr_66* v10;
  struct S12_class_OpenVolumeMesh__PropertyStorageT** v11;
  struct S12_class_OpenVolumeMesh__PropertyStorageT* v12;
  u64 v13;
  struct S15_class_std__vector_46* v14;
  u64** v15;
  u64* v16;
  u32* v17;
  u32 v18;
  u64** v19;
  u64* v20;
  u64 v21;
  u64 v22;
  u64 v23;
  u64 v24;
  u64 v25;
  u64 v26;
  u1 v27;
  u64 v28;
  u64* v29;
  u64 v30;
  u1 v31;
  u64 v32;
  u64 v33;
  u64* v34;
  u64 v35;
  u32 v36;
  u8* v37;
  u8 v38;
  u1 v39;
  u64 v40;
  struct S12_class_OpenVolumeMesh__PropertyStorageT** v41;
  struct S12_class_OpenVolumeMesh__PropertyStorageT* v42;
  struct S20_class_std___Sp_counted_base** v43;
  struct S20_class_std___Sp_counted_base* v44;
  fnptr_t** v45;
  u8* v46;
  struct S12_class_OpenVolumeMesh__PropertyStorageT** v47;
  struct S20_class_std___Sp_counted_base** v48;
  fnptr_t** v49;
  struct S20_class_std___Sp_counted_base** v50;
  struct S20_class_std___Sp_counted_base* v51;
  u1 v52;
  u32* v53;
  u64* v54;
  u64 v55;
  u1 v56;
  u32* v57;
  fnptr_t** v58;
  fnptr_t* v59;
  fnptr_t* v60;
  fnptr_t v61;
  fnptr_t* v62;
  fnptr_t* v63;
  fnptr_t v64;
  u8 v65;
  u1 v66;
  u32 v67;
  u32 v68;
  u32 v69;
  u32 v70;
  u32 v71; u32 v71_t;
  u1 v72;
  struct S65 v73;
L0: ;
  v0 = &v0_m;
  v1 = &v1_m;
  v2 = &v2_m;
  v3 = &v3_m;
  v4 = &v4_m;
  v5 = ((u8)(a4));
  *v1 = v5;
  v6 = (u8*)v2;
  v7 = (u8*)v3;
  v8 = (struct S13_class_OpenVolumeMesh__detail__Tracker*)(&(*a1).f2.f0.f0.e[(s64)((s64)((u64)6ULL))]);
  *v3 = v8;
  *v4 = ((u8)6ULL);
  v9 = (u8*)(&(*v0).f0);
  v10 = (struct S30_class_std____shared_ptr_66*)(&(*v2).f0);
  _ZNSt12__shared_ptrIN14OpenVolumeMesh16PropertyStorageTIbEELN9__gnu_cxx12_Lock_policyE2EEC2ISaIvEJPNS0_6detail7TrackerINS0_19PropertyStorageBaseEEENSt7__cxx1112basic_stringIcSt11char_traitsIcESaIcEEENS0_10EntityTypeERKbRbEEESt20_Sp_alloc_shared_tagIT_EDpOT0_(v10, v0, v3, a2, v4, a3, v1);
  if (v_exc) return;
  v11 = (struct S12_class_OpenVolumeMesh__PropertyStorageT**)(&(*v2).f0.f0);
  v12 = *v11;
  v13 = _ZNK14OpenVolumeMesh15ResourceManager1nINS_6Entity4MeshEEEmv(a1);
  if (v_exc) {
    goto L13;
  }
  goto L1;
L1: ;
  v14 = (struct S15_class_std__vector_46*)(&(*v12).f2);
  v15 = (u64**)(&(*v12).f2.f0.f0.f0.f1.f0.f0);
  v16 = *v15;
  v17 = (u32*)(&(*v12).f2.f0.f0.f0.f1.f0.f1);
  v18 = *v17;
  v19 = (u64**)(&(*v14).f0.f0.f0.f0.f0.f0);
  v20 = *v19;
  v21 = ((u64)((u64)v16));
  v22 = ((u64)((u64)v20));
  v23 = v_pdiff((u8*)v16, (u8*)v20);
  v24 = ((u64)(v23 << ((u64)3ULL)));
  v25 = ((u64)(v18));
  v26 = ((u64)(v24 + v25));
  v27 = (v13 < v26);
  if (v27) {
    goto L2;
  } else {
    goto L3;
  }
L2: ;
  v28 = ((u64)(((s64)v13) / ((s64)((u64)64ULL))));
  v29 = (u64*)(v20 + (s64)((s64)v28));
  v30 = ((u64)(((s64)v13) % ((s64)((u64)64ULL))));
  v31 = (((s64)v30) < ((s64)((u64)0ULL)));
  v32 = ((u64)(v30 + ((u64)64ULL)));
  v33 = ((u64)(((s64)v30) >> ((u64)63ULL)));
  v34 = (u64*)(v29 + (s64)((s64)v33));
  v35 = (v31 ? v32 : v30);
  v36 = ((u32)(v35));
  *v15 = v34;
  *v17 = v36;
  goto L4;
L3: ;
  v37 = (u8*)(&(*v12).f3);
  v38 = *v37;
  v39 = (v38 != ((u8)0ULL));
  v40 = ((u64)(v13 - v26));
  _ZNSt6vectorIbSaIbEE14_M_fill_insertESt13_Bit_iteratormb(v14, v16, v18, v40, v39);
  if (v_exc) {
    goto L13;
  }
  goto L4;
L4: ;
  v41 = (struct S12_class_OpenVolumeMesh__PropertyStorageT**)(&(*v2).f0.f0);
  v42 = *v41;
  v43 = (struct S20_class_std___Sp_counted_base**)(&(*v2).f0.f1.f0);
  v44 = *v43;
  v45 = (fnptr_t**)(&(*a0).f0.f0.f0);
  v46 = (u8*)v2;
  (*v2).f0.f0 = (struct S12_class_OpenVolumeMesh__PropertyStorageT*)0;
  (*v2).f0.f1.f0 = (struct S20_class_std___Sp_counted_base*)0;
  *v45 = ((fnptr_t*)((u8**)(&(*(&_ZTVN14OpenVolumeMesh18PropertyStoragePtrIbEE)).f0.e[(s64)((s64)((u64)2ULL))])));
  v47 = (struct S12_class_OpenVolumeMesh__PropertyStorageT**)(&(*a0).f0.f0.f1.f0.f0);
  *v47 = v42;
  v48 = (struct S20_class_std___Sp_counted_base**)(&(*a0).f0.f0.f1.f0.f1.f0);
  *v48 = v44;
  *v45 = ((fnptr_t*)((u8**)(&(*(&_ZTVN14OpenVolumeMesh14HandleIndexingINS_6Entity4MeshENS_18PropertyStoragePtrIbEEEE)).f0.e[(s64)((s64)((u64)2ULL))])));
  v49 = (fnptr_t**)(&(*a0).f1.f0);
  *v49 = ((fnptr_t*)((u8**)(&(*(&_ZTVN14OpenVolumeMesh15BasePropertyPtrE)).f0.e[(s64)((s64)((u64)2ULL))])));
  *v45 = ((fnptr_t*)((u8**)(&(*(&_ZTVN14OpenVolumeMesh11PropertyPtrIbNS_6Entity4MeshEEE)).f0.e[(s64)((s64)((u64)2ULL))])));
  *v49 = ((fnptr_t*)((u8**)(&(*(&_ZTVN14OpenVolumeMesh11PropertyPtrIbNS_6Entity4MeshEEE)).f1.e[(s64)((s64)((u64)2ULL))])));
  v50 = (struct S20_class_std___Sp_counted_base**)(&(*v2).f0.f1.f0);
  v51 = *v50;
  v52 = ((u8*)v51 == (u8*)((struct S20_class_std___Sp_counted_base*)0));
  if (v52) {
    goto L12;
  } else {
    goto L5;
  }
L5: ;
  v53 = (u32*)(&(*v51).f1);
  v54 = (u64*)v53;
  v55 = (((u64)(*v51).f1 << 0) | ((u64)(*v51).f2 << 32));
  v56 = (v55 == ((u64)4294967297ULL));
  if (v56) {
    goto L6;
  } else {
    goto L7;
  }
L6: ;
  *v53 = ((u32)0ULL);
  v57 = (u32*)(&(*v51).f2);
  *v57 = ((u32)0ULL);
  v58 = (fnptr_t**)&(*v51).f0;
  v59 = *v58;
  v60 = (fnptr_t*)(v59 + (s64)((s64)((u64)2ULL)));
  v61 = *v60;
  ((FT1)v61)(v51);
  v62 = *v58;
  v63 = (fnptr_t*)(v62 + (s64)((s64)((u64)3ULL)));
  v64 = *v63;
  ((FT1)v64)(v51);
  goto L12;
L7: ;
  v65 = *(&__libc_single_threaded);
  v66 = (v65 == ((u8)0ULL));
  if (v66) {
    goto L9;
  } else {
    goto L8;
  }
L8: ;
  v67 = *v53;
  v68 = ((u32)(v67 + ((u32)4294967295ULL)));
  *v53 = v68;
  v71 = v67;
  goto L10;
L9: ;
  v69 = *v53;
  v70 = ((u32)(v69 + ((u32)4294967295ULL)));
  *v53 = v70;
  v71 = v69;
  goto L10;
L10: ;
  v72 = (v71 == ((u32)1ULL));
  if (v72) {
    goto L11;
  } else {
    goto L12;
  }
L11: ;
  _ZNSt16_Sp_counted_baseILN9__gnu_cxx12_Lock_policyE2EE24_M_release_last_use_coldEv(v51);
  goto L12;
L12: ;
  return;
L13: ;
  v73.f0 = v_exc_obj;
  v73.f1 = 0;
  v_exc = 0;
  _ZNSt12__shared_ptrIN14OpenVolumeMesh16PropertyStorageTIbEELN9__gnu_cxx12_Lock_policyE2EED2Ev(v10);
  v_exc = 1; return;
}

void _ZNSt14_Optional_baseIN14OpenVolumeMesh11PropertyPtrIbNS0_6Entity4MeshEEELb0ELb0EED2Ev(struct S59_struct_std___Optional_base_185* a0) {
  u8* v0;
  u8 v1;
  u1 v2;
  fnptr_t** v3;
  struct S20_class_std___Sp_counted_base** v4;
  struct S20_class_std___Sp_counted_base* v5;
  u1 v6;
  u32* v7;
  u64* v8;
  u64 v9;
  u1 v10;
  u32* v11;
  fnptr_t** v12;
  fnptr_t* v13;
  fnptr_t* v14;
  fnptr_t v15;
  fnptr_t* v16;
  fnptr_t* v17;
  fnptr_t v18;
  u8 v19;
  u1 v20;
  u32 v21;
  u32 v22;
  u32 v23;
  u32 v24;
  u32 v25; u32 v25_t;
  u1 v26;
L0: ;
  v0 = (u8*)(&(*a0).f0.f0.f0.f1);
  v1 = *v0;
  v2 = (v1 == ((u8)0ULL));
  if (v2) {
    goto L9;
  } else {
    goto L1;
  }
L1: ;
  *v0 = ((u8)0ULL);
  v3 = (fnptr_t**)(&(*a0).f0.f0.f0.f0.f0.f0.f0.f0);
  *v3 = ((fnptr_t*)((u8**)(&(*(&_ZTVN14OpenVolumeMesh18PropertyStoragePtrIbEE)).f0.e[(s64)((s64)((u64)2ULL))])));
  v4 = (struct S20_class_std___Sp_counted_base**)(&(*a0).f0.f0.f0.f0.f0.f0.f0.f1.f0.f1.f0);
  v5 = *v4;
  v6 = ((u8*)v5 == (u8*)((struct S20_class_std___Sp_counted_base*)0));
  if (v6) {
    goto L9;
  } else {
    goto L2;
  }
L2: ;
  v7 = (u32*)(&(*v5).f1);
  v8 = (u64*)v7;
  v9 = (((u64)(*v5).f1 << 0) | ((u64)(*v5).f2 << 32));
  v10 = (v9 == ((u64)4294967297ULL));
  if (v10) {
    goto L3;
  } else {
    goto L4;
  }
L3: ;
  *v7 = ((u32)0ULL);
  v11 = (u32*)(&(*v5).f2);
  *v11 = ((u32)0ULL);
  v12 = (fnptr_t**)&(*v5).f0;
  v13 = *v12;
  v14 = (fnptr_t*)(v13 + (s64)((s64)((u64)2ULL)));
  v15 = *v14;
  ((FT1)v15)(v5);
  v16 = *v12;
  v17 = (fnptr_t*)(v16 + (s64)((s64)((u64)3ULL)));
  v18 = *v17;
  ((FT1)v18)(v5);
  goto L9;
L4: ;
  v19 = *(&__libc_single_threaded);
  v20 = (v19 == ((u8)0ULL));
  if (v20) {
    goto L6;
  } else {
    goto L5;
  }
L5: ;
  v21 = *v7;
  v22 = ((u32)(v21 + ((u32)4294967295ULL)));
  *v7 = v22;
  v25 = v21;
  goto L7;
L6: ;
  v23 = *v7;
  v24 = ((u32)(v23 + ((u32)4294967295ULL)));
  *v7 = v24;
  v25 = v23;
  goto L7;
L7: ;
  v26 = (v25 == ((u32)1ULL));
  if (v26) {
    goto L8;
  } else {
    goto L9;
  }
L8: ;
  _ZNSt16_Sp_counted_baseILN9__gnu_cxx12_Lock_policyE2EE24_M_release_last_use_coldEv(v5);
  goto L9;
L9: ;
  return;
}

void _ZNSt12__shared_ptrIN14OpenVolumeMesh16PropertyStorageTIbEELN9__gnu_cxx12_Lock_policyE2EEC2ISaIvEJPNS0_6detail7TrackerINS0_19PropertyStorageBaseEEENSt7__cxx1112basic_stringIcSt11char_traitsIcESaIcEEENS0_10EntityTypeERKbRbEEESt20_Sp_alloc_shared_tagIT_EDpOT0_(struct S30_class_std____shared_ptr_66* a0, struct S0_class_std__ios_base__Init* a1, struct S13_class_OpenVolumeMesh__detail__Tracker** a2, struct S14_class_std____cxx11__basic_string* a3, u8* a4, u8* a5, u8* a6) {
  struct S0_class_std__ios_base__Init* v0; struct S0_class_std__ios_base__Init v0_m;
  struct S12_class_OpenVolumeMesh__PropertyStorageT** v1;
  u8* v2;
  struct S38_class_std___Sp_counted_ptr_inplace* v3;
  u8* v4;
  fnptr_t** v5;
  u32* v6;
  u32* v7;
  struct S71_struct___gnu_cxx____aligned_buffer* v8;
  struct S12_class_OpenVolumeMesh__PropertyStorageT* v9;
  struct S65 v10;
  struct S20_class_std___Sp_counted_base* v11;
  struct S20_class_std___Sp_counted_base** v12;
  struct S71_struct___gnu_cxx____aligned_buffer** v13;
  u8* v14;
  u8* v15;
  struct S20_class_std___Sp_counted_base** v16;
  struct S20_class_std___Sp_counted_base* v17;
  u1 v18;
  u32* v19;
  u32 v20;
  u1 v21;
  struct S71_struct___gnu_cxx____aligned_buffer** v22;
  struct S20_class_std___Sp_counted_base** v23;
  struct S20_class_std___Sp_counted_base* v24;
  u1 v25;
  u32* v26;
  u8 v27;
  u1 v28;
  u32 v29;
  u32 v30;
  u32 v31;
  u32 v32;
  struct S20_class_std___Sp_counted_base* v33;
  u1 v34;
  u32* v35;
  u8 v36;
  u1 v37;
  u32 v38;
  u32 v39;
  u32 v40;
  u32 v41;
  u32 v42; u32 v42_t;
  u1 v43;
  fnptr_t** v44;
  fnptr_t* v45;
  fnptr_t* v46;
  fnptr_t v47;
L0: ;
  v0 = &v0_m;
  v1 = (struct S12_class_OpenVolumeMesh__PropertyStorageT**)(&(*a0).f0);
  *v1 = ((struct S12_class_OpenVolumeMesh__PropertyStorageT*)0);
  v2 = (u8*)((((u64)168ULL) % sizeof(struct S38_class_std___Sp_counted_ptr_inplace) == 0) ? __CPROVER_allocate(sizeof(struct S38_class_std___Sp_counted_ptr_inplace) * (((u64)168ULL) / sizeof(struct S38_class_std___Sp_counted_ptr_inplace)), 0) : __CPROVER_allocate(((u64)168ULL), 0));
  v_alloc_note((u8*)v2);
  v3 = (struct S38_class_std___Sp_counted_ptr_inplace*)v2;
  v4 = (u8*)(&(*v0).f0);
  v5 = (fnptr_t**)(&(*v3).f0.f0);
  *v5 = ((fnptr_t*)((u8**)(&(*(&_ZTVSt16_Sp_counted_baseILN9__gnu_cxx12_Lock_policyE2EE)).f0.e[(s64)((s64)((u64)2ULL))])));
  v6 = (u32*)(&(*v3).f0.f1);
  *v6 = ((u32)1ULL);
  v7 = (u32*)(&(*v3).f0.f2);
  *v7 = ((u32)1ULL);
  *v5 = ((fnptr_t*)((u8**)(&(*(&_ZTVSt23_Sp_counted_ptr_inplaceIN14OpenVolumeMesh16PropertyStorageTIbEESaIvELN9__gnu_cxx12_Lock_policyE2EE)).f0.e[(s64)((s64)((u64)2ULL))])));
  v8 = (struct S71_struct___gnu_cxx____aligned_buffer*)(&(*v3).f1.f0);
  v9 = (struct S12_class_OpenVolumeMesh__PropertyStorageT*)v8;
  _ZNSt16allocator_traitsISaIvEE9constructIN14OpenVolumeMesh16PropertyStorageTIbEEJPNS3_6detail7TrackerINS3_19PropertyStorageBaseEEENSt7__cxx1112basic_stringIcSt11char_traitsIcESaIcEEENS3_10EntityTypeERKbRbEEEvRS0_PT_DpOT0_(v0, v9, a2, a3, a4, a5, a6);
  if (v_exc) {
    goto L1;
  }
  goto L2;
L1: ;
  v10.f0 = v_exc_obj;
  v10.f1 = 0;
  v_exc = 0;
  _ZdlPv(v2);
  v_exc = 1; return;
L2: ;
  v11 = (struct S20_class_std___Sp_counted_base*)(&(*v3).f0);
  v12 = (struct S20_class_std___Sp_counted_base**)(&(*a0).f1.f0);
  *v12 = v11;
  v13 = (struct S71_struct___gnu_cxx____aligned_buffer**)&(*a0).f0;
  *v13 = v8;
  v14 = (u8*)(&(*v3).f1.f0.f0.f0.f1.f0.f0.f0);
  v15 = (u8*)(&(*v3).f1.f0.f0.f0.f1.f0.f0.f1.f0);
  v16 = (struct S20_class_std___Sp_counted_base**)v15;
  v17 = *v16;
  v18 = ((u8*)v17 == (u8*)((struct S20_class_std___Sp_counted_base*)0));
  if (v18) {
    goto L4;
  } else {
    goto L3;
  }
L3: ;
  v19 = (u32*)(&(*v17).f1);
  v20 = *v19;
  v21 = (v20 == ((u32)0ULL));
  if (v21) {
    goto L4;
  } else {
    goto L15;
  }
L4: ;
  v22 = (struct S71_struct___gnu_cxx____aligned_buffer**)v14;
  *v22 = v8;
  v23 = (struct S20_class_std___Sp_counted_base**)(&(*a0).f1.f0);
  v24 = *v23;
  v25 = ((u8*)v24 == (u8*)((struct S20_class_std___Sp_counted_base*)0));
  if (v25) {
    goto L8;
  } else {
    goto L5;
  }
L5: ;
  v26 = (u32*)(&(*v24).f2);
  v27 = *(&__libc_single_threaded);
  v28 = (v27 == ((u8)0ULL));
  if (v28) {
    goto L7;
  } else {
    goto L6;
  }
L6: ;
  v29 = *v26;
  v30 = ((u32)(v29 + ((u32)1ULL)));
  *v26 = v30;
  goto L8;
L7: ;
  v31 = *v26;
  v32 = ((u32)(v31 + ((u32)1ULL)));
  *v26 = v32;
  goto L8;
L8: ;
  v33 = *v16;
  v34 = ((u8*)v33 == (u8*)((struct S20_class_std___Sp_counted_base*)0));
  if (v34) {
    goto L14;
  } else {
    goto L9;
  }
L9: ;
  v35 = (u32*)(&(*v33).f2);
  v36 = *(&__libc_single_threaded);
  v37 = (v36 == ((u8)0ULL));
  if (v37) {
    goto L11;
  } else {
    goto L10;
  }
L10: ;
  v38 = *v35;
  v39 = ((u32)(v38 + ((u32)4294967295ULL)));
  *v35 = v39;
  v42 = v38;
  goto L12;
L11: ;
  v40 = *v35;
  v41 = ((u32)(v40 + ((u32)4294967295ULL)));
  *v35 = v41;
  v42 = v40;
  goto L12;
L12: ;
  v43 = (v42 == ((u32)1ULL));
  if (v43) {
    goto L13;
  } else {
    goto L14;
  }
L13: ;
  v44 = (fnptr_t**)&(*v33).f0;
  v45 = *v44;
  v46 = (fnptr_t*)(v45 + (s64)((s64)((u64)3ULL)));
  v47 = *v46;
  ((FT1)v47)(v33);
  goto L14;
L14: ;
  *v16 = v24;
  goto L15;
L15: ;
  return;
}

void _ZNSt16allocator_traitsISaIvEE9constructIN14OpenVolumeMesh16PropertyStorageTIbEEJPNS3_6detail7TrackerINS3_19PropertyStorageBaseEEENSt7__cxx1112basic_stringIcSt11char_traitsIcESaIcEEENS3_10EntityTypeERKbRbEEEvRS0_PT_DpOT0_(struct S0_class_std__ios_base__Init* a0, struct S12_class_OpenVolumeMesh__PropertyStorageT* a1, struct S13_class_OpenVolumeMesh__detail__Tracker** a2, struct S14_class_std____cxx11__basic_string* a3, u8* a4, u8* a5, u8* a6) {
  struct S14_class_std____cxx11__basic_string* v0; struct S14_class_std____cxx11__basic_string v0_m;
  u8* v1;
  struct S13_class_OpenVolumeMesh__detail__Tracker* v2;
  struct S64_union_anon* v3;
  u8* v4;
  struct S64_union_anon** v5;
  u8** v6;
  u8* v7;
  struct S64_union_anon* v8;
  u8* v9;
  u1 v10;
  u64* v11;
  u64 v12;
  u64 v13;
  u1 v14;
  u8** v15;
  u64* v16;
  u64 v17;
  u64* v18;
  u64* v19;
  u64 v20;
  u64* v21;
  struct S64_union_anon** v22;
  u8 v23;
  u8 v24;
  u1 v25;
  u8 v26;
  u1 v27;
  u8** v28;
  u8* v29;
  u1 v30;
  struct S65 v31;
  u8** v32;
  u8* v33;
  u1 v34;
L0: ;
  v0 = &v0_m;
  v1 = (u8*)v0;
  v2 = *a2;
  v3 = (struct S64_union_anon*)(&(*v0).f2);
  v4 = (u8*)v3;
  v5 = (struct S64_union_anon**)&(*v0).f0.f0;
  *v5 = v3;
  v6 = (u8**)(&(*a3).f0.f0);
  v7 = *v6;
  v8 = (struct S64_union_anon*)(&(*a3).f2);
  v9 = (u8*)v8;
  v10 = ((u8*)v7 == (u8*)v9);
  if (v10) {
    goto L1;
  } else {
    goto L3;
  }
L1: ;
  v11 = (u64*)(&(*a3).f1);
  v12 = *v11;
  v13 = ((u64)(v12 + ((u64)1ULL)));
  v14 = (v13 == ((u64)0ULL));
  if (v14) {
    goto L4;
  } else {
    goto L2;
  }
L2: ;
  { struct S64_union_anon* _d = v3; struct S64_union_anon* _s = v8; u64 _len = (u64)v13; u64 _n = _len / 16;
    if (_len % 16 == 0) { if (_n) { if (__CPROVER_same_object(_d, _s) && __CPROVER_POINTER_OFFSET(_d) > __CPROVER_POINTER_OFFSET(_s)) { for (u64 _i = _n; _i > 0; --_i) _d[_i-1] = _s[_i-1]; } else { for (u64 _i = 0; _i < _n; ++_i) _d[_i] = _s[_i]; } } }
    else { u8* _bd = (u8*)_d; u8* _bs = (u8*)_s; if (__CPROVER_same_object(_bd, _bs) && __CPROVER_POINTER_OFFSET(_bd) > __CPROVER_POINTER_OFFSET(_bs)) { for (u64 _i = _len; _i > 0; --_i) _bd[_i-1] = _bs[_i-1]; } else { for (u64 _i = 0; _i < _len; ++_i) _bd[_i] = _bs[_i]; } } }
  goto L4;
L3: ;
  v15 = (u8**)(&(*v0).f0.f0);
  *v15 = v7;
  v16 = (u64*)(&(*a3).f2.f0.e[0]);
  v17 = *v16;
  v18 = (u64*)(&(*v0).f2.f0.e[0]);
  *v18 = v17;
  goto L4;
L4: ;
  v19 = (u64*)(&(*a3).f1);
  v20 = *v19;
  v21 = (u64*)(&(*v0).f1);
  *v21 = v20;
  v22 = (struct S64_union_anon**)&(*a3).f0.f0;
  *v22 = v8;
  *v19 = ((u64)0ULL);
  *v9 = ((u8)0ULL);
  v23 = *a4;
  v24 = *a5;
  v25 = (v24 != ((u8)0ULL));
  v26 = *a6;
  v27 = (v26 != ((u8)0ULL));
  _ZN14OpenVolumeMesh16PropertyStorageTIbEC2EPNS_6detail7TrackerINS_19PropertyStorageBaseEEENSt7__cxx1112basic_stringIcSt11char_traitsIcESaIcEEENS_10EntityTypeEbb(a1, v2, v0, v23, v25, v27);
  if (v_exc) {
    goto L7;
  }
  goto L5;
L5: ;
  v28 = (u8**)(&(*v0).f0.f0);
  v29 = *v28;
  v30 = ((u8*)v29 == (u8*)v4);
  if (v30) {
    goto L10;
  } else {
    goto L6;
  }
L6: ;
  _ZdlPv(v29);
  goto L10;
L7: ;
  v31.f0 = v_exc_obj;
  v31.f1 = 0;
  v_exc = 0;
  v32 = (u8**)(&(*v0).f0.f0);
  v33 = *v32;
  v34 = ((u8*)v33 == (u8*)v4);
  if (v34) {
    goto L9;
  } else {
    goto L8;
  }
L8: ;
  _ZdlPv(v33);
  goto L9;
L9: ;
  v_exc = 1; return;
L10: ;
  return;
}

void _ZN14OpenVolumeMesh15ResourceManager21prop_ptr_from_storageIbNS_6Entity4MeshEEENS_11PropertyPtrIT_T0_EEPNS_19PropertyStorageBaseE(struct S31_class_OpenVolumeMesh__PropertyPtr_86* a0, struct S22_class_OpenVolumeMesh__PropertyStorageBas* a1) {
  struct S20_class_std___Sp_counted_base** v0;
  struct S20_class_std___Sp_counted_base* v1;
  u1 v2;
  u32* v3;
  u32 v4;
  u32 v5; u32 v5_t;
  u1 v6;
  u32 v7;
  u32 v8;
  u1 v9;
  u32 v10;
  struct S69 v11;
  struct S69 v12;
  u1 v13;
  u32 v14;
  u8* v15;
  u64* v16;
  fnptr_t** v17;
  struct S22_class_OpenVolumeMesh__PropertyStorageBas** v18;
  struct S12_class_OpenVolumeMesh__PropertyStorageT** v19;
  struct S12_class_OpenVolumeMesh__PropertyStorageT* v20;
  u8 v21;
  u1 v22;
  u32 v23;
  u32 v24;
  u32 v25;
  u32 v26;
  u64* v27;
  u64 v28;
  u1 v29;
  u32* v30;
  fnptr_t** v31;
  fnptr_t* v32;
  fnptr_t* v33;
  fnptr_t v34;
  fnptr_t* v35;
  fnptr_t* v36;
  fnptr_t v37;
  u8 v38;
  u1 v39;
  u32 v40;
  u32 v41;
  u32 v42;
  u32 v43;
  u32 v44; u32 v44_t;
  u1 v45;
  fnptr_t** v46;
  struct S12_class_OpenVolumeMesh__PropertyStorageT** v47;
  struct S20_class_std___Sp_counted_base** v48;
  fnptr_t** v49;
L0: ;
  v0 = (struct S20_class_std___Sp_counted_base**)(&(*a1).f1.f0.f0.f1.f0);
  v1 = *v0;
  v2 = ((u8*)v1 == (u8*)((struct S20_class_std___Sp_counted_base*)0));
  if (v2) {
    goto L4;
  } else {
    goto L1;
  }
L1: ;
  v3 = (u32*)(&(*v1).f1);
  v4 = *v3;
  v5 = v4;
  goto L2;
L2: ;
  v6 = (v5 == ((u32)0ULL));
  if (v6) {
    goto L4;
  } else {
    goto L3;
  }
L3: ;
  v7 = ((u32)(v5 + ((u32)1ULL)));
  v8 = *v3;
  v9 = (v8 == v5);
  v10 = (v9 ? v7 : v8);
  *v3 = v10;
  v11.f0 = v8;
  v12 = v11;
  v12.f1 = v9;
  v13 = v12.f1;
  v14 = v12.f0;
  if (v13) {
    goto L5;
  } else {
    v5 = v14;
    goto L2;
  }
L4: ;
  v15 = __cxa_allocate_exception(((u64)8ULL));
  v16 = (u64*)v15;
  *v16 = ((u64)0ULL);
  v17 = (fnptr_t**)v15;
  *v17 = ((fnptr_t*)((u8**)(&(*(&_ZTVSt12bad_weak_ptr)).f0.e[(s64)((s64)((u64)2ULL))])));
  __cxa_throw(v15, ((u8*)(&_ZTISt12bad_weak_ptr)), ((u8*)((fnptr_t)_ZNSt12bad_weak_ptrD1Ev)));
  if (v_exc) return;
  __CPROVER_assume(0);
L5: ;
  v18 = (struct S22_class_OpenVolumeMesh__PropertyStorageBas**)(&(*a1).f1.f0.f0.f0);
  v19 = (struct S12_class_OpenVolumeMesh__PropertyStorageT**)&(*a1).f1.f0.f0.f0;
  v20 = *v19;
  v21 = *(&__libc_single_threaded);
  v22 = (v21 == ((u8)0ULL));
  if (v22) {
    goto L7;
  } else {
    goto L6;
  }
L6: ;
  v23 = *v3;
  v24 = ((u32)(v23 + ((u32)1ULL)));
  *v3 = v24;
  goto L8;
L7: ;
  v25 = *v3;
  v26 = ((u32)(v25 + ((u32)1ULL)));
  *v3 = v26;
  goto L8;
L8: ;
  v27 = (u64*)v3;
  v28 = (((u64)(*v1).f1 << 0) | ((u64)(*v1).f2 << 32));
  v29 = (v28 == ((u64)4294967297ULL));
  if (v29) {
    goto L9;
  } else {
    goto L10;
  }
L9: ;
  *v3 = ((u32)0ULL);
  v30 = (u32*)(&(*v1).f2);
  *v30 = ((u32)0ULL);
  v31 = (fnptr_t**)&(*v1).f0;
  v32 = *v31;
  v33 = (fnptr_t*)(v32 + (s64)((s64)((u64)2ULL)));
  v34 = *v33;
  ((FT1)v34)(v1);
  v35 = *v31;
  v36 = (fnptr_t*)(v35 + (s64)((s64)((u64)3ULL)));
  v37 = *v36;
  ((FT1)v37)(v1);
  goto L15;
L10: ;
  v38 = *(&__libc_single_threaded);
  v39 = (v38 == ((u8)0ULL));
  if (v39) {
    goto L12;
  } else {
    goto L11;
  }
L11: ;
  v40 = *v3;
  v41 = ((u32)(v40 + ((u32)4294967295ULL)));
  *v3 = v41;
  v44 = v40;
  goto L13;
L12: ;
  v42 = *v3;
  v43 = ((u32)(v42 + ((u32)4294967295ULL)));
  *v3 = v43;
  v44 = v42;
  goto L13;
L13: ;
  v45 = (v44 == ((u32)1ULL));
  if (v45) {
    goto L14;
  } else {
    goto L15;
  }
L14: ;
  _ZNSt16_Sp_counted_baseILN9__gnu_cxx12_Lock_policyE2EE24_M_release_last_use_coldEv(v1);
  goto L15;
L15: ;
  v46 = (fnptr_t**)(&(*a0).f0.f0.f0);
  *v46 = ((fnptr_t*)((u8**)(&(*(&_ZTVN14OpenVolumeMesh18PropertyStoragePtrIbEE)).f0.e[(s64)((s64)((u64)2ULL))])));
  v47 = (struct S12_class_OpenVolumeMesh__PropertyStorageT**)(&(*a0).f0.f0.f1.f0.f0);
  *v47 = v20;
  v48 = (struct S20_class_std___Sp_counted_base**)(&(*a0).f0.f0.f1.f0.f1.f0);
  *v48 = v1;
  *v46 = ((fnptr_t*)((u8**)(&(*(&_ZTVN14OpenVolumeMesh14HandleIndexingINS_6Entity4MeshENS_18PropertyStoragePtrIbEEEE)).f0.e[(s64)((s64)((u64)2ULL))])));
  v49 = (fnptr_t**)(&(*a0).f1.f0);
  *v49 = ((fnptr_t*)((u8**)(&(*(&_ZTVN14OpenVolumeMesh15BasePropertyPtrE)).f0.e[(s64)((s64)((u64)2ULL))])));
  *v46 = ((fnptr_t*)((u8**)(&(*(&_ZTVN14OpenVolumeMesh11PropertyPtrIbNS_6Entity4MeshEEE)).f0.e[(s64)((s64)((u64)2ULL))])));
  *v49 = ((fnptr_t*)((u8**)(&(*(&_ZTVN14OpenVolumeMesh11PropertyPtrIbNS_6Entity4MeshEEE)).f1.e[(s64)((s64)((u64)2ULL))])));
  return;
}

void _ZN14OpenVolumeMesh15ResourceManager16request_propertyIbNS_6Entity4CellEEENS_11PropertyPtrIT_T0_EERKNSt7__cxx1112basic_stringIcSt11char_traitsIcESaIcEEERKS5_(struct S31_class_OpenVolumeMesh__PropertyPtr_86* a0, struct S53_class_OpenVolumeMesh__ResourceManager* a1, struct S14_class_std____cxx11__basic_string* a2, u8* a3) {
  u64* v0; u64 v0_m;
  struct S58_class_std__optional_184* v1; struct S58_class_std__optional_184 v1_m;
  struct S14_class_std____cxx11__basic_string* v2; struct S14_class_std____cxx11__basic_string v2_m;
  u8* v3;
  u8* v4;
  u8 v5;
  u1 v6;
  fnptr_t** v7;
  struct S12_class_OpenVolumeMesh__PropertyStorageT** v8;
  struct S12_class_OpenVolumeMesh__PropertyStorageT** v9;
  struct S12_class_OpenVolumeMesh__PropertyStorageT* v10;
  struct S20_class_std___Sp_counted_base** v11;
  struct S20_class_std___Sp_counted_base** v12;
  struct S20_class_std___Sp_counted_base* v13;
  u1 v14;
  u32* v15;
  u8 v16;
  u1 v17;
  u32 v18;
  u32 v19;
  u32 v20;
  u32 v21;
  fnptr_t** v22;
  u64* v23;
  u64 v24;
  u1 v25;
  struct S64_union_anon* v26;
  struct S64_union_anon** v27;
  u8** v28;
  u8* v29;
  u8* v30;
  u1 v31;
  u8* v32;
  u8** v33;
  u64 v34;
  u64* v35;
  u8** v36;
  u8* v37;
  u8 v38;
  u64 v39;
  u64* v40;
  u8* v41;
  u8* v42;
  u8* v43;
  u8* v44;
  u1 v45;
  struct S65 v46;
  struct S65 v47;
  u8* v48;
  u8* v49;
  u1 v50;
  struct S65 v51; struct S65 v51_t;
  struct S59_struct_std___Optional_base_185* v52;
  u8* v53;
  u8 v54;
  u1 v55;
  fnptr_t** v56;
  struct S20_class_std___Sp_counted_base** v57;
  struct S20_class_std___Sp_counted_base* v58;
  u1 v59;
  u32* v60;
  u64* v61;
  u64 v62;
  u1 v63;
  u32* v64;
  fnptr_t** v65;
  fnptr_t* v66;
  fnptr_t* v67;
  fnptr_t v68;
  fnptr_t* v69;
  fnptr_t* v70;
  fnptr_t v71;
  u8 v72;
  u1 v73;
  u32 v74;
  u32 v75;
  u32 v76;
  u32 v77;
  u32 v78; u32 v78_t;
  u1 v79;
L0: ;
  v0 = &v0_m;
  v1 = &v1_m;
  v2 = &v2_m;
  v3 = (u8*)v1;
  _ZNK14OpenVolumeMesh15ResourceManager22internal_find_propertyIbNS_6Entity4CellEEESt8optionalINS_11PropertyPtrIT_T0_EEERKNSt7__cxx1112basic_stringIcSt11char_traitsIcESaIcEEE(v1, a1, a2);
  if (v_exc) return;
  v4 = (u8*)(&(*v1).f0.f0.f0.f0.f1);
  v5 = *v4;
  v6 = (v5 == ((u8)0ULL));
  if (v6) {
    goto L6;
  } else {
    goto L1;
  }
L1: ;
  v7 = (fnptr_t**)(&(*a0).f0.f0.f0);
  *v7 = ((fnptr_t*)((u8**)(&(*(&_ZTVN14OpenVolumeMesh18PropertyStoragePtrIbEE)).f0.e[(s64)((s64)((u64)2ULL))])));
  v8 = (struct S12_class_OpenVolumeMesh__PropertyStorageT**)(&(*a0).f0.f0.f1.f0.f0);
  v9 = (struct S12_class_OpenVolumeMesh__PropertyStorageT**)(&(*v1).f0.f0.f0.f0.f0.f0.f0.f0.f1.f0.f0);
  v10 = *v9;
  *v8 = v10;
  v11 = (struct S20_class_std___Sp_counted_base**)(&(*a0).f0.f0.f1.f0.f1.f0);
  v12 = (struct S20_class_std___Sp_counted_base**)(&(*v1).f0.f0.f0.f0.f0.f0.f0.f0.f1.f0.f1.f0);
  v13 = *v12;
  *v11 = v13;
  v14 = ((u8*)v13 == (u8*)((struct S20_class_std___Sp_counted_base*)0));
  if (v14) {
    goto L5;
  } else {
    goto L2;
  }
L2: ;
  v15 = (u32*)(&(*v13).f1);
  v16 = *(&__libc_single_threaded);
  v17 = (v16 == ((u8)0ULL));
  if (v17) {
    goto L4;
  } else {
    goto L3;
  }
L3: ;
  v18 = *v15;
  v19 = ((u32)(v18 + ((u32)1ULL)));
  *v15 = v19;
  goto L5;
L4: ;
  v20 = *v15;
  v21 = ((u32)(v20 + ((u32)1ULL)));
  *v15 = v21;
  goto L5;
L5: ;
  *v7 = ((fnptr_t*)((u8**)(&(*(&_ZTVN14OpenVolumeMesh14HandleIndexingINS_6Entity4CellENS_18PropertyStoragePtrIbEEEE)).f0.e[(s64)((s64)((u64)2ULL))])));
  v22 = (fnptr_t**)(&(*a0).f1.f0);
  *v22 = ((fnptr_t*)((u8**)(&(*(&_ZTVN14OpenVolumeMesh15BasePropertyPtrE)).f0.e[(s64)((s64)((u64)2ULL))])));
  *v7 = ((fnptr_t*)((u8**)(&(*(&_ZTVN14OpenVolumeMesh11PropertyPtrIbNS_6Entity4CellEEE)).f0.e[(s64)((s64)((u64)2ULL))])));
  *v22 = ((fnptr_t*)((u8**)(&(*(&_ZTVN14OpenVolumeMesh11PropertyPtrIbNS_6Entity4CellEEE)).f1.e[(s64)((s64)((u64)2ULL))])));
  goto L19;
L6: ;
  v23 = (u64*)(&(*a2).f1);
  v24 = *v23;
  v25 = (v24 != ((u64)0ULL));
  v26 = (struct S64_union_anon*)(&(*v2).f2);
  v27 = (struct S64_union_anon**)&(*v2).f0.f0;
  *v27 = v26;
  v28 = (u8**)(&(*a2).f0.f0);
  v29 = *v28;
  v30 = (u8*)v0;
  *v0 = v24;
  v31 = (v24 > ((u64)15ULL));
  if (v31) {
    goto L7;
  } else {
    goto L9;
  }
L7: ;
  v32 = _ZNSt7__cxx1112basic_stringIcSt11char_traitsIcESaIcEE9_M_createERmm(v2, v0, ((u64)0ULL));
  if (v_exc) {
    goto L15;
  }
  goto L8;
L8: ;
  v33 = (u8**)(&(*v2).f0.f0);
  *v33 = v32;
  v34 = *v0;
  v35 = (u64*)(&(*v2).f2.f0.e[0]);
  *v35 = v34;
  goto L9;
L9: ;
  v36 = (u8**)(&(*v2).f0.f0);
  v37 = *v36;
  switch (v24) {
  case ((u64)1ULL): {
    goto L10;
  }
  case ((u64)0ULL): {
    goto L12;
  }
  default: {
    goto L11;
  }
  }
L10: ;
  v38 = *v29;
  *v37 = v38;
  goto L12;
L11: ;
  v_memcpy((u8*)v37, (u8*)v29, (u64)v24);
  goto L12;
L12: ;
  v39 = *v0;
  v40 = (u64*)(&(*v2).f1);
  *v40 = v39;
  v41 = *v36;
  v42 = (u8*)(v41 + (s64)((s64)v39));
  *v42 = ((u8)0ULL);
  _ZNK14OpenVolumeMesh15ResourceManager24internal_create_propertyIbNS_6Entity4CellEEENS_11PropertyPtrIT_T0_EENSt7__cxx1112basic_stringIcSt11char_traitsIcESaIcEEERKS5_b(a0, a1, v2, a3, v25);
  if (v_exc) {
    goto L16;
  }
  goto L13;
L13: ;
  v43 = *v36;
  v44 = (u8*)v26;
  v45 = ((u8*)v43 == (u8*)v44);
  if (v45) {
    goto L19;
  } else {
    goto L14;
  }
L14: ;
  _ZdlPv(v43);
  goto L19;
L15: ;
  v46.f0 = v_exc_obj;
  v46.f1 = 0;
  v_exc = 0;
  v51 = v46;
  goto L18;
L16: ;
  v47.f0 = v_exc_obj;
  v47.f1 = 0;
  v_exc = 0;
  v48 = *v36;
  v49 = (u8*)v26;
  v50 = ((u8*)v48 == (u8*)v49);
  if (v50) {
    v51 = v47;
    goto L18;
  } else {
    goto L17;
  }
L17: ;
  _ZdlPv(v48);
  v51 = v47;
  goto L18;
L18: ;
  v52 = (struct S59_struct_std___Optional_base_185*)(&(*v1).f0);
  _ZNSt14_Optional_baseIN14OpenVolumeMesh11PropertyPtrIbNS0_6Entity4CellEEELb0ELb0EED2Ev(v52);
  v_exc = 1; return;
L19: ;
  v53 = (u8*)(&(*v1).f0.f0.f0.f0.f1);
  v54 = *v53;
  v55 = (v54 == ((u8)0ULL));
  if (v55) {
    goto L28;
  } else {
    goto L20;
  }
L20: ;
  *v53 = ((u8)0ULL);
  v56 = (fnptr_t**)(&(*v1).f0.f0.f0.f0.f0.f0.f0.f0.f0);
  *v56 = ((fnptr_t*)((u8**)(&(*(&_ZTVN14OpenVolumeMesh18PropertyStoragePtrIbEE)).f0.e[(s64)((s64)((u64)2ULL))])));
  v57 = (struct S20_class_std___Sp_counted_base**)(&(*v1).f0.f0.f0.f0.f0.f0.f0.f0.f1.f0.f1.f0);
  v58 = *v57;
  v59 = ((u8*)v58 == (u8*)((struct S20_class_std___Sp_counted_base*)0));
  if (v59) {
    goto L28;
  } else {
    goto L21;
  }
L21: ;
  v60 = (u32*)(&(*v58).f1);
  v61 = (u64*)v60;
  v62 = (((u64)(*v58).f1 << 0) | ((u64)(*v58).f2 << 32));
  v63 = (v62 == ((u64)4294967297ULL));
  if (v63) {
    goto L22;
  } else {
    goto L23;
  }
L22: ;
  *v60 = ((u32)0ULL);
  v64 = (u32*)(&(*v58).f2);
  *v64 = ((u32)0ULL);
  v65 = (fnptr_t**)&(*v58).f0;
  v66 = *v65;
  v67 = (fnptr_t*)(v66 + (s64)((s64)((u64)2ULL)));
  v68 = *v67;
  ((FT1)v68)(v58);
  v69 = *v65;
  v70 = (fnptr_t*)(v69 + (s64)((s64)((u64)3ULL)));
  v71 = *v70;
  ((FT1)v71)(v58);
  goto L28;
L23: ;
  v72 = *(&__libc_single_threaded);
  v73 = (v72 == ((u8)0ULL));
  if (v73) {
    goto L25;
  } else {
    goto L24;
  }
L24: ;
  v74 = *v60;
  v75 = ((u32)(v74 + ((u32)4294967295ULL)));
  *v60 = v75;
  v78 = v74;
  goto L26;
L25: ;
  v76 = *v60;
  v77 = ((u32)(v76 + ((u32)4294967295ULL)));
  *v60 = v77;
  v78 = v76;
  goto L26;
L26: ;
  v79 = (v78 == ((u32)1ULL));
  if (v79) {
    goto L27;
  } else {
    goto L28;
  }
L27: ;
  _ZNSt16_Sp_counted_baseILN9__gnu_cxx12_Lock_policyE2EE24_M_release_last_use_coldEv(v58);
  goto L28;
L28: ;
  return;
}

void _ZN14OpenVolumeMesh15ResourceManager14set_persistentIbNS_6Entity4CellEEEvRNS_11PropertyPtrIT_T0_EEb(struct S53_class_OpenVolumeMesh__ResourceManager* a0, struct S31_class_OpenVolumeMesh__PropertyPtr_86* a1, u1 a2) {
  struct S25_class_std__weak_ptr* v0; struct S25_class_std__weak_ptr v0_m;
  struct S12_class_OpenVolumeMesh__PropertyStorageT** v1;
  struct S22_class_OpenVolumeMesh__PropertyStorageBas** v2;
  struct S22_class_OpenVolumeMesh__PropertyStorageBas* v3;
  u8* v4;
  u8 v5;
  u1 v6;
  u1 v7;
  u8* v8;
  struct S56_class_std__shared_ptr_65* v9;
  struct S22_class_OpenVolumeMesh__PropertyStorageBas** v10;
  struct S22_class_OpenVolumeMesh__PropertyStorageBas* v11;
  struct S22_class_OpenVolumeMesh__PropertyStorageBas** v12;
  struct S20_class_std___Sp_counted_base** v13;
  struct S20_class_std___Sp_counted_base** v14;
  struct S20_class_std___Sp_counted_base* v15;
  u1 v16;
  u32* v17;
  u8 v18;
  u1 v19;
  u32 v20;
  u32 v21;
  u32 v22;
  u32 v23;
  struct S22_class_OpenVolumeMesh__PropertyStorageBas* v24;
  u8* v25;
  u8 v26;
  u1 v27;
  u8* v28;
  struct S29_class_std__runtime_error* v29;
  struct S65 v30;
  struct S65 v31;
  struct S16_class_std___Rb_tree_5* v32;
  struct S36 v33;
  struct S43_class_std__map* v34;
  u8* v35;
  u8* v36;
  struct S41_struct_std___Rb_tree_node_31** v37;
  u8* v38;
  struct S17_struct_std___Rb_tree_node_base* v39;
  struct S41_struct_std___Rb_tree_node_31* v40;
  u1 v41;
  struct S22_class_OpenVolumeMesh__PropertyStorageBas* v42;
  struct S41_struct_std___Rb_tree_node_31* v43; struct S41_struct_std___Rb_tree_node_31* v43_t;
  struct S17_struct_std___Rb_tree_node_base* v44; struct S17_struct_std___Rb_tree_node_base* v44_t;
  struct S72_struct___gnu_cxx____aligned_membuf_32* v45;
  struct S22_class_OpenVolumeMesh__PropertyStorageBas** v46;
  struct S22_class_OpenVolumeMesh__PropertyStorageBas* v47;
  u1 v48;
  struct S17_struct_std___Rb_tree_node_base** v49;
  u1 v50;
  struct S17_struct_std___Rb_tree_node_base* v51;
  struct S17_struct_std___Rb_tree_node_base** v52;
  struct S41_struct_std___Rb_tree_node_31** v53;
  struct S41_struct_std___Rb_tree_node_31* v54;
  struct S17_struct_std___Rb_tree_node_base** v55;
  struct S41_struct_std___Rb_tree_node_31** v56;
  struct S41_struct_std___Rb_tree_node_31* v57;
  u1 v58;
  struct S41_struct_std___Rb_tree_node_31* v59; struct S41_struct_std___Rb_tree_node_31* v59_t;
  struct S17_struct_std___Rb_tree_node_base* v60; struct S17_struct_std___Rb_tree_node_base* v60_t;
  struct S72_struct___gnu_cxx____aligned_membuf_32* v61;
  struct S22_class_OpenVolumeMesh__PropertyStorageBas** v62;
  struct S22_class_OpenVolumeMesh__PropertyStorageBas* v63;
  u1 v64;
  struct S17_struct_std___Rb_tree_node_base** v65;
  struct S17_struct_std___Rb_tree_node_base* v66;
  struct S17_struct_std___Rb_tree_node_base** v67;
  struct S17_struct_std___Rb_tree_node_base* v68;
  struct S17_struct_std___Rb_tree_node_base** v69;
  struct S41_struct_std___Rb_tree_node_31** v70;
  struct S41_struct_std___Rb_tree_node_31* v71;
  u1 v72;
  struct S17_struct_std___Rb_tree_node_base* v73; struct S17_struct_std___Rb_tree_node_base* v73_t;
  u1 v74;
  struct S41_struct_std___Rb_tree_node_31* v75; struct S41_struct_std___Rb_tree_node_31* v75_t;
  struct S17_struct_std___Rb_tree_node_base* v76; struct S17_struct_std___Rb_tree_node_base* v76_t;
  struct S72_struct___gnu_cxx____aligned_membuf_32* v77;
  struct S22_class_OpenVolumeMesh__PropertyStorageBas** v78;
  struct S22_class_OpenVolumeMesh__PropertyStorageBas* v79;
  u1 v80;
  struct S17_struct_std___Rb_tree_node_base* v81;
  struct S17_struct_std___Rb_tree_node_base** v82;
  struct S17_struct_std___Rb_tree_node_base** v83;
  struct S17_struct_std___Rb_tree_node_base* v84;
  struct S17_struct_std___Rb_tree_node_base** v85;
  struct S41_struct_std___Rb_tree_node_31** v86;
  struct S41_struct_std___Rb_tree_node_31* v87;
  u1 v88;
  struct S17_struct_std___Rb_tree_node_base* v89; struct S17_struct_std___Rb_tree_node_base* v89_t;
  struct S17_struct_std___Rb_tree_node_base** v90; struct S17_struct_std___Rb_tree_node_base** v90_t;
  struct S41_struct_std___Rb_tree_node_31** v91;
  struct S41_struct_std___Rb_tree_node_31* v92;
  u1 v93;
  struct S17_struct_std___Rb_tree_node_base* v94; struct S17_struct_std___Rb_tree_node_base* v94_t;
  struct S17_struct_std___Rb_tree_node_base* v95; struct S17_struct_std___Rb_tree_node_base* v95_t;
  struct S16_class_std___Rb_tree_5* v96;
  struct S22_class_OpenVolumeMesh__PropertyStorageBas** v97;
  struct S22_class_OpenVolumeMesh__PropertyStorageBas* v98;
  u8 v99;
  u8* v100;
  struct S20_class_std___Sp_counted_base** v101;
  struct S20_class_std___Sp_counted_base* v102;
  u1 v103;
  u32* v104;
  u64* v105;
  u64 v106;
  u1 v107;
  u32* v108;
  fnptr_t** v109;
  fnptr_t* v110;
  fnptr_t* v111;
  fnptr_t v112;
  fnptr_t* v113;
  fnptr_t* v114;
  fnptr_t v115;
  u8 v116;
  u1 v117;
  u32 v118;
  u32 v119;
  u32 v120;
  u32 v121;
  u32 v122; u32 v122_t;
  u1 v123;
  struct S65 v124; struct S65 v124_t;
  struct S40_class_std____weak_ptr* v125;
L0: ;
  v0 = &v0_m;
  v1 = (struct S12_class_OpenVolumeMesh__PropertyStorageT**)(&(*a1).f0.f0.f1.f0.f0);
  v2 = (struct S22_class_OpenVolumeMesh__PropertyStorageBas**)&(*a1).f0.f0.f1.f0.f0;
  v3 = *v2;
  v4 = (u8*)(&(*v3).f5);
  v5 = *v4;
  v6 = (v5 != ((u8)0ULL));
  v7 = ((u1)((v6 ^ a2)&1));
  if (v7) {
    goto L1;
  } else {
    goto L32;
  }
L1: ;
  v8 = (u8*)v0;
  v9 = (struct S56_class_std__shared_ptr_65*)(&(*a1).f0.f0.f1);
  v10 = (struct S22_class_OpenVolumeMesh__PropertyStorageBas**)&(*a1).f0.f0.f1.f0.f0;
  v11 = *v10;
  v12 = (struct S22_class_OpenVolumeMesh__PropertyStorageBas**)(&(*v0).f0.f0);
  *v12 = v11;
  v13 = (struct S20_class_std___Sp_counted_base**)(&(*v0).f0.f1.f0);
  v14 = (struct S20_class_std___Sp_counted_base**)(&(*a1).f0.f0.f1.f0.f1.f0);
  v15 = *v14;
  *v13 = v15;
  v16 = ((u8*)v15 == (u8*)((struct S20_class_std___Sp_counted_base*)0));
  if (v16) {
    goto L5;
  } else {
    goto L2;
  }
L2: ;
  v17 = (u32*)(&(*v15).f1);
  v18 = *(&__libc_single_threaded);
  v19 = (v18 == ((u8)0ULL));
  if (v19) {
    goto L4;
  } else {
    goto L3;
  }
L3: ;
  v20 = *v17;
  v21 = ((u32)(v20 + ((u32)1ULL)));
  *v17 = v21;
  goto L5;
L4: ;
  v22 = *v17;
  v23 = ((u32)(v22 + ((u32)1ULL)));
  *v17 = v23;
  goto L5;
L5: ;
  if (a2) {
    goto L6;
  } else {
    goto L12;
  }
L6: ;
  v24 = *v2;
  v25 = (u8*)(&(*v24).f6);
  v26 = *v25;
  v27 = (v26 == ((u8)0ULL));
  if (v27) {
    goto L7;
  } else {
    goto L11;
  }
L7: ;
  v28 = __cxa_allocate_exception(((u64)16ULL));
  v29 = (struct S29_class_std__runtime_error*)v28;
  _ZNSt13runtime_errorC1EPKc(v29, ((u8*)(&(*(&_str_38)).e[(s64)((s64)((u64)0ULL))])));
  if (v_exc) {
    goto L9;
  }
  goto L8;
L8: ;
  __cxa_throw(v28, ((u8*)(&_ZTISt13runtime_error)), ((u8*)((fnptr_t)_ZNSt13runtime_errorD1Ev)));
  if (v_exc) {
    goto L10;
  }
  goto L34;
L9: ;
  v30.f0 = v_exc_obj;
  v30.f1 = 0;
  v_exc = 0;
  __cxa_free_exception(v28);
  v124 = v30;
  goto L33;
L10: ;
  v31.f0 = v_exc_obj;
  v31.f1 = 0;
  v_exc = 0;
  v124 = v31;
  goto L33;
L11: ;
  v32 = (struct S16_class_std___Rb_tree_5*)(&(*a0).f1.f0.f0.e[(s64)((s64)((u64)5ULL))].f0);
  v33 = _ZNSt8_Rb_treeISt10shared_ptrIN14OpenVolumeMesh19PropertyStorageBaseEES3_St9_IdentityIS3_ESt4lessIS3_ESaIS3_EE16_M_insert_uniqueIRKS3_EESt4pairISt17_Rb_tree_iteratorIS3_EbEOT_(v32, v0);
  if (v_exc) {
    goto L10;
  }
  goto L23;
L12: ;
  v34 = (struct S43_class_std__map*)(&(*a0).f1.f0.f0.e[(s64)((s64)((u64)5ULL))]);
  v35 = (u8*)(&(*v34).f0.f0.f0.f0.f0);
  v36 = (u8*)&(*a0).f1.f0.f0.e[5].f0.f0.f1.f0.f1;
  v37 = (struct S41_struct_std___Rb_tree_node_31**)&(*a0).f1.f0.f0.e[5].f0.f0.f1.f0.f1;
  v38 = (u8*)&(*a0).f1.f0.f0.e[5].f0.f0.f1.f0.f0;
  v39 = (struct S17_struct_std___Rb_tree_node_base*)&(*a0).f1.f0.f0.e[5].f0.f0.f1.f0;
  v40 = *v37;
  v41 = ((u8*)v40 == (u8*)((struct S41_struct_std___Rb_tree_node_31*)0));
  if (v41) {
    v94_t = v39;
    v95_t = v39;
    v94 = v94_t;
    v95 = v95_t;
    goto L22;
  } else {
    goto L13;
  }
L13: ;
  v42 = *v12;
  v43_t = v40;
  v44_t = v39;
  v43 = v43_t;
  v44 = v44_t;
  goto L14;
L14: ;
  v45 = (struct S72_struct___gnu_cxx____aligned_membuf_32*)(&(*v43).f1);
  v46 = (struct S22_class_OpenVolumeMesh__PropertyStorageBas**)v45;
  v47 = *v46;
  v48 = v_plt((u8*)v47, (u8*)v42);
  if (v48) {
    goto L15;
  } else {
    goto L16;
  }
L15: ;
  v49 = (struct S17_struct_std___Rb_tree_node_base**)(&(*v43).f0.f3);
  v89_t = v44;
  v90_t = v49;
  v89 = v89_t;
  v90 = v90_t;
  goto L21;
L16: ;
  v50 = v_plt((u8*)v42, (u8*)v47);
  v51 = (struct S17_struct_std___Rb_tree_node_base*)(&(*v43).f0);
  v52 = (struct S17_struct_std___Rb_tree_node_base**)(&(*v43).f0.f2);
  if (v50) {
    v89_t = v51;
    v90_t = v52;
    v89 = v89_t;
    v90 = v90_t;
    goto L21;
  } else {
    goto L17;
  }
L17: ;
  v53 = (struct S41_struct_std___Rb_tree_node_31**)&(*v43).f0.f2;
  v54 = *v53;
  v55 = (struct S17_struct_std___Rb_tree_node_base**)(&(*v43).f0.f3);
  v56 = (struct S41_struct_std___Rb_tree_node_31**)&(*v43).f0.f3;
  v57 = *v56;
  v58 = ((u8*)v54 == (u8*)((struct S41_struct_std___Rb_tree_node_31*)0));
  if (v58) {
    v73 = v51;
    goto L19;
  } else {
    v59_t = v54;
    v60_t = v51;
    v59 = v59_t;
    v60 = v60_t;
    goto L18;
  }
L18: ;
  v61 = (struct S72_struct___gnu_cxx____aligned_membuf_32*)(&(*v59).f1);
  v62 = (struct S22_class_OpenVolumeMesh__PropertyStorageBas**)v61;
  v63 = *v62;
  v64 = v_plt((u8*)v63, (u8*)v42);
  v65 = (struct S17_struct_std___Rb_tree_node_base**)(&(*v59).f0.f3);
  v66 = (struct S17_struct_std___Rb_tree_node_base*)(&(*v59).f0);
  v67 = (struct S17_struct_std___Rb_tree_node_base**)(&(*v59).f0.f2);
  v68 = (v64 ? v60 : v66);
  v69 = (v64 ? v65 : v67);
  v70 = (struct S41_struct_std___Rb_tree_node_31**)v69;
  v71 = *v70;
  v72 = ((u8*)v71 == (u8*)((struct S41_struct_std___Rb_tree_node_31*)0));
  if (v72) {
    v73 = v68;
    goto L19;
  } else {
    v59_t = v71;
    v60_t = v68;
    v59 = v59_t;
    v60 = v60_t;
    goto L18;
  }
L19: ;
  v74 = ((u8*)v57 == (u8*)((struct S41_struct_std___Rb_tree_node_31*)0));
  if (v74) {
    v94_t = v73;
    v95_t = v44;
    v94 = v94_t;
    v95 = v95_t;
    goto L22;
  } else {
    v75_t = v57;
    v76_t = v44;
    v75 = v75_t;
    v76 = v76_t;
    goto L20;
  }
L20: ;
  v77 = (struct S72_struct___gnu_cxx____aligned_membuf_32*)(&(*v75).f1);
  v78 = (struct S22_class_OpenVolumeMesh__PropertyStorageBas**)v77;
  v79 = *v78;
  v80 = v_plt((u8*)v42, (u8*)v79);
  v81 = (struct S17_struct_std___Rb_tree_node_base*)(&(*v75).f0);
  v82 = (struct S17_struct_std___Rb_tree_node_base**)(&(*v75).f0.f2);
  v83 = (struct S17_struct_std___Rb_tree_node_base**)(&(*v75).f0.f3);
  v84 = (v80 ? v81 : v76);
  v85 = (v80 ? v82 : v83);
  v86 = (struct S41_struct_std___Rb_tree_node_31**)v85;
  v87 = *v86;
  v88 = ((u8*)v87 == (u8*)((struct S41_struct_std___Rb_tree_node_31*)0));
  if (v88) {
    v94_t = v73;
    v95_t = v84;
    v94 = v94_t;
    v95 = v95_t;
    goto L22;
  } else {
    v75_t = v87;
    v76_t = v84;
    v75 = v75_t;
    v76 = v76_t;
    goto L20;
  }
L21: ;
  v91 = (struct S41_struct_std___Rb_tree_node_31**)v90;
  v92 = *v91;
  v93 = ((u8*)v92 == (u8*)((struct S41_struct_std___Rb_tree_node_31*)0));
  if (v93) {
    v94_t = v89;
    v95_t = v89;
    v94 = v94_t;
    v95 = v95_t;
    goto L22;
  } else {
    v43_t = v92;
    v44_t = v89;
    v43 = v43_t;
    v44 = v44_t;
    goto L14;
  }
L22: ;
  v96 = (struct S16_class_std___Rb_tree_5*)(&(*v34).f0);
  _ZNSt8_Rb_treeISt10shared_ptrIN14OpenVolumeMesh19PropertyStorageBaseEES3_St9_IdentityIS3_ESt4lessIS3_ESaIS3_EE12_M_erase_auxESt23_Rb_tree_const_iteratorIS3_ESB_(v96, v94, v95);
  if (v_exc) {
    goto L10;
  }
  goto L23;
L23: ;
  v97 = (struct S22_class_OpenVolumeMesh__PropertyStorageBas**)(&(*v0).f0.f0);
  v98 = *v97;
  v99 = ((u8)(a2));
  v100 = (u8*)(&(*v98).f5);
  *v100 = v99;
  v101 = (struct S20_class_std___Sp_counted_base**)(&(*v0).f0.f1.f0);
  v102 = *v101;
  v103 = ((u8*)v102 == (u8*)((struct S20_class_std___Sp_counted_base*)0));
  if (v103) {
    goto L31;
  } else {
    goto L24;
  }
L24: ;
  v104 = (u32*)(&(*v102).f1);
  v105 = (u64*)v104;
  v106 = (((u64)(*v102).f1 << 0) | ((u64)(*v102).f2 << 32));
  v107 = (v106 == ((u64)4294967297ULL));
  if (v107) {
    goto L25;
  } else {
    goto L26;
  }
L25: ;
  *v104 = ((u32)0ULL);
  v108 = (u32*)(&(*v102).f2);
  *v108 = ((u32)0ULL);
  v109 = (fnptr_t**)&(*v102).f0;
  v110 = *v109;
  v111 = (fnptr_t*)(v110 + (s64)((s64)((u64)2ULL)));
  v112 = *v111;
  ((FT1)v112)(v102);
  v113 = *v109;
  v114 = (fnptr_t*)(v113 + (s64)((s64)((u64)3ULL)));
  v115 = *v114;
  ((FT1)v115)(v102);
  goto L31;
L26: ;
  v116 = *(&__libc_single_threaded);
  v117 = (v116 == ((u8)0ULL));
  if (v117) {
    goto L28;
  } else {
    goto L27;
  }
L27: ;
  v118 = *v104;
  v119 = ((u32)(v118 + ((u32)4294967295ULL)));
  *v104 = v119;
  v122 = v118;
  goto L29;
L28: ;
  v120 = *v104;
  v121 = ((u32)(v120 + ((u32)4294967295ULL)));
  *v104 = v121;
  v122 = v120;
  goto L29;
L29: ;
  v123 = (v122 == ((u32)1ULL));
  if (v123) {
    goto L30;
  } else {
    goto L31;
  }
L30: ;
  _ZNSt16_Sp_counted_baseILN9__gnu_cxx12_Lock_policyE2EE24_M_release_last_use_coldEv(v102);
  goto L31;
L31: ;
  goto L32;
L32: ;
  return;
L33: ;
  v125 = (struct S40_class_std____weak_ptr*)(&(*v0).f0);
  _ZNSt12__shared_ptrIN14OpenVolumeMesh19PropertyStorageBaseELN9__gnu_cxx12_Lock_policyE2EED2Ev(v125);
  v_exc = 1; return;
L34: ;
  __CPROVER_assume(0);
}

void _ZNK14OpenVolumeMesh15ResourceManager22internal_find_propertyIbNS_6Entity4CellEEESt8optionalINS_11PropertyPtrIT_T0_EEERKNSt7__cxx1112basic_stringIcSt11char_traitsIcESaIcEEE(struct S58_class_std__optional_184* a0, struct S53_class_OpenVolumeMesh__ResourceManager* a1, struct S14_class_std____cxx11__basic_string* a2) {
  struct S14_class_std____cxx11__basic_string* v0; struct S14_class_std____cxx11__basic_string v0_m;
  struct S31_class_OpenVolumeMesh__PropertyPtr_86* v1; struct S31_class_OpenVolumeMesh__PropertyPtr_86 v1_m;
  u64* v2;
  u64 v3;
  u1 v4;
  u8* v5;
  u8* v6;
  u8* v7;
  u8* v8;
  struct S17_struct_std___Rb_tree_node_base** v9;
  struct S17_struct_std___Rb_tree_node_base* v10;
  u8* v11;
  struct S17_struct_std___Rb_tree_node_base* v12;
  u1 v13;
  u64 v14;
  u8** v15;
  u8* v16;
  u64* v17;
  u64 v18;
  u8** v19;
  u8* v20;
  struct S17_struct_std___Rb_tree_node_base* v21; struct S17_struct_std___Rb_tree_node_base* v21_t;
  struct S17_struct_std___Rb_tree_node_base* v22;
  struct S22_class_OpenVolumeMesh__PropertyStorageBas** v23;
  struct S22_class_OpenVolumeMesh__PropertyStorageBas* v24;
  u8* v25;
  u8 v26;
  u1 v27;
  u64* v28;
  u64 v29;
  u1 v30;
  u1 v31;
  u8** v32;
  u8* v33;
  u32 v34;
  u1 v35;
  u64* v36;
  u64 v37;
  u1 v38;
  u1 v39;
  u8** v40;
  u8* v41;
  u32 v42;
  u1 v43;
  u8* v44;
  fnptr_t** v45;
  struct S12_class_OpenVolumeMesh__PropertyStorageT** v46;
  struct S12_class_OpenVolumeMesh__PropertyStorageT** v47;
  struct S12_class_OpenVolumeMesh__PropertyStorageT* v48;
  struct S20_class_std___Sp_counted_base** v49;
  struct S20_class_std___Sp_counted_base** v50;
  struct S20_class_std___Sp_counted_base* v51;
  u1 v52;
  u32* v53;
  u8 v54;
  u1 v55;
  u32 v56;
  u32 v57;
  u32 v58;
  u32 v59;
  fnptr_t** v60;
  u8* v61;
  fnptr_t** v62;
  struct S20_class_std___Sp_counted_base* v63;
  u1 v64;
  u32* v65;
  u64* v66;
  u64 v67;
  u1 v68;
  u32* v69;
  fnptr_t** v70;
  fnptr_t* v71;
  fnptr_t* v72;
  fnptr_t v73;
  fnptr_t* v74;
  fnptr_t* v75;
  fnptr_t v76;
  u8 v77;
  u1 v78;
  u32 v79;
  u32 v80;
  u32 v81;
  u32 v82;
  u32 v83; u32 v83_t;
  u1 v84;
  struct S65 v85;
  u8** v86;
  u8* v87;
  struct S64_union_anon* v88;
  u8* v89;
  u1 v90;
  struct S17_struct_std___Rb_tree_node_base* v91;
  u1 v92;
  u8* v93;
  u8** v94;
  u8* v95;
  struct S64_union_anon* v96;
  u8* v97;
  u1 v98;
L0: ;
  v0 = &v0_m;
  v1 = &v1_m;
  v2 = (u64*)(&(*a2).f1);
  v3 = *v2;
  v4 = (v3 == ((u64)0ULL));
  if (v4) {
    goto L1;
  } else {
    goto L2;
  }
L1: ;
  v5 = (u8*)(&(*a0).f0.f0.f0.f0.f1);
  *v5 = ((u8)0ULL);
  goto L33;
L2: ;
  v6 = (u8*)v0;
  _ZN14OpenVolumeMesh6detail18internal_type_nameB5cxx11ERKSt9type_info(v0, ((struct S39_class_std__type_info*)(&_ZTIb)));
  if (v_exc) return;
  v7 = (u8*)(&(*a1).f2.f0.f0.e[(s64)((s64)((u64)5ULL))].f1.f0.f0.f0.f0.f0);
  v8 = (u8*)&(*a1).f2.f0.f0.e[5].f1.f0.f0.f1.f0.f2;
  v9 = (struct S17_struct_std___Rb_tree_node_base**)&(*a1).f2.f0.f0.e[5].f1.f0.f0.f1.f0.f2;
  v10 = *v9;
  v11 = (u8*)&(*a1).f2.f0.f0.e[5].f1.f0.f0.f1.f0.f0;
  v12 = (struct S17_struct_std___Rb_tree_node_base*)&(*a1).f2.f0.f0.e[5].f1.f0.f0.f1.f0;
  v13 = ((u8*)v10 == (u8*)v12);
  if (v13) {
    goto L29;
  } else {
    goto L3;
  }
L3: ;
  v14 = *v2;
  v15 = (u8**)(&(*a2).f0.f0);
  v16 = *v15;
  v17 = (u64*)(&(*v0).f1);
  v18 = *v17;
  v19 = (u8**)(&(*v0).f0.f0);
  v20 = *v19;
  v21 = v10;
  goto L4;
L4: ;
  v22 = (struct S17_struct_std___Rb_tree_node_base*)(v21 + (s64)((s64)((u64)1ULL)));
  v23 = (struct S22_class_OpenVolumeMesh__PropertyStorageBas**)v22;
  v24 = *v23;
  v25 = (u8*)(&(*v24).f6);
  v26 = *v25;
  v27 = (v26 == ((u8)0ULL));
  if (v27) {
    goto L26;
  } else {
    goto L5;
  }
L5: ;
  v28 = (u64*)(&(*v24).f2.f1);
  v29 = *v28;
  v30 = (v29 == v14);
  if (v30) {
    goto L6;
  } else {
    goto L26;
  }
L6: ;
  v31 = (v29 == ((u64)0ULL));
  if (v31) {
    goto L8;
  } else {
    goto L7;
  }
L7: ;
  v32 = (u8**)(&(*v24).f2.f0.f0);
  v33 = *v32;
  v34 = bcmp(v33, v16, v29);
  v35 = (v34 == ((u32)0ULL));
  if (v35) {
    goto L8;
  } else {
    goto L26;
  }
L8: ;
  v36 = (u64*)(&(*v24).f3.f1);
  v37 = *v36;
  v38 = (v37 == v18);
  if (v38) {
    goto L9;
  } else {
    goto L26;
  }
L9: ;
  v39 = (v37 == ((u64)0ULL));
  if (v39) {
    goto L11;
  } else {
    goto L10;
  }
L10: ;
  v40 = (u8**)(&(*v24).f3.f0.f0);
  v41 = *v40;
  v42 = bcmp(v41, v20, v37);
  v43 = (v42 == ((u32)0ULL));
  if (v43) {
    goto L11;
  } else {
    goto L26;
  }
L11: ;
  v44 = (u8*)v1;
  _ZN14OpenVolumeMesh15ResourceManager21prop_ptr_from_storageIbNS_6Entity4CellEEENS_11PropertyPtrIT_T0_EEPNS_19PropertyStorageBaseE(v1, v24);
  if (v_exc) {
    goto L25;
  }
  goto L12;
L12: ;
  v45 = (fnptr_t**)(&(*a0).f0.f0.f0.f0.f0.f0.f0.f0.f0);
  *v45 = ((fnptr_t*)((u8**)(&(*(&_ZTVN14OpenVolumeMesh18PropertyStoragePtrIbEE)).f0.e[(s64)((s64)((u64)2ULL))])));
  v46 = (struct S12_class_OpenVolumeMesh__PropertyStorageT**)(&(*a0).f0.f0.f0.f0.f0.f0.f0.f0.f1.f0.f0);
  v47 = (struct S12_class_OpenVolumeMesh__PropertyStorageT**)(&(*v1).f0.f0.f1.f0.f0);
  v48 = *v47;
  *v46 = v48;
  v49 = (struct S20_class_std___Sp_counted_base**)(&(*a0).f0.f0.f0.f0.f0.f0.f0.f0.f1.f0.f1.f0);
  v50 = (struct S20_class_std___Sp_counted_base**)(&(*v1).f0.f0.f1.f0.f1.f0);
  v51 = *v50;
  *v49 = v51;
  v52 = ((u8*)v51 == (u8*)((struct S20_class_std___Sp_counted_base*)0));
  if (v52) {
    goto L16;
  } else {
    goto L13;
  }
L13: ;
  v53 = (u32*)(&(*v51).f1);
  v54 = *(&__libc_single_threaded);
  v55 = (v54 == ((u8)0ULL));
  if (v55) {
    goto L15;
  } else {
    goto L14;
  }
L14: ;
  v56 = *v53;
  v57 = ((u32)(v56 + ((u32)1ULL)));
  *v53 = v57;
  goto L16;
L15: ;
  v58 = *v53;
  v59 = ((u32)(v58 + ((u32)1ULL)));
  *v53 = v59;
  goto L16;
L16: ;
  *v45 = ((fnptr_t*)((u8**)(&(*(&_ZTVN14OpenVolumeMesh14HandleIndexingINS_6Entity4CellENS_18PropertyStoragePtrIbEEEE)).f0.e[(s64)((s64)((u64)2ULL))])));
  v60 = (fnptr_t**)(&(*a0).f0.f0.f0.f0.f0.f0.f1.f0);
  *v60 = ((fnptr_t*)((u8**)(&(*(&_ZTVN14OpenVolumeMesh15BasePropertyPtrE)).f0.e[(s64)((s64)((u64)2ULL))])));
  *v45 = ((fnptr_t*)((u8**)(&(*(&_ZTVN14OpenVolumeMesh11PropertyPtrIbNS_6Entity4CellEEE)).f0.e[(s64)((s64)((u64)2ULL))])));
  *v60 = ((fnptr_t*)((u8**)(&(*(&_ZTVN14OpenVolumeMesh11PropertyPtrIbNS_6Entity4CellEEE)).f1.e[(s64)((s64)((u64)2ULL))])));
  v61 = (u8*)(&(*a0).f0.f0.f0.f0.f1);
  *v61 = ((u8)1ULL);
  v62 = (fnptr_t**)(&(*v1).f0.f0.f0);
  *v62 = ((fnptr_t*)((u8**)(&(*(&_ZTVN14OpenVolumeMesh18PropertyStoragePtrIbEE)).f0.e[(s64)((s64)((u64)2ULL))])));
  v63 = *v50;
  v64 = ((u8*)v63 == (u8*)((struct S20_class_std___Sp_counted_base*)0));
  if (v64) {
    goto L24;
  } else {
    goto L17;
  }
L17: ;
  v65 = (u32*)(&(*v63).f1);
  v66 = (u64*)v65;
  v67 = (((u64)(*v63).f1 << 0) | ((u64)(*v63).f2 << 32));
  v68 = (v67 == ((u64)4294967297ULL));
  if (v68) {
    goto L18;
  } else {
    goto L19;
  }
L18: ;
  *v65 = ((u32)0ULL);
  v69 = (u32*)(&(*v63).f2);
  *v69 = ((u32)0ULL);
  v70 = (fnptr_t**)&(*v63).f0;
  v71 = *v70;
  v72 = (fnptr_t*)(v71 + (s64)((s64)((u64)2ULL)));
  v73 = *v72;
  ((FT1)v73)(v63);
  v74 = *v70;
  v75 = (fnptr_t*)(v74 + (s64)((s64)((u64)3ULL)));
  v76 = *v75;
  ((FT1)v76)(v63);
  goto L24;
L19: ;
  v77 = *(&__libc_single_threaded);
  v78 = (v77 == ((u8)0ULL));
  if (v78) {
    goto L21;
  } else {
    goto L20;
  }
L20: ;
  v79 = *v65;
  v80 = ((u32)(v79 + ((u32)4294967295ULL)));
  *v65 = v80;
  v83 = v79;
  goto L22;
L21: ;
  v81 = *v65;
  v82 = ((u32)(v81 + ((u32)4294967295ULL)));
  *v65 = v82;
  v83 = v81;
  goto L22;
L22: ;
  v84 = (v83 == ((u32)1ULL));
  if (v84) {
    goto L23;
  } else {
    goto L24;
  }
L23: ;
  _ZNSt16_Sp_counted_baseILN9__gnu_cxx12_Lock_policyE2EE24_M_release_last_use_coldEv(v63);
  goto L24;
L24: ;
  goto L30;
L25: ;
  v85.f0 = v_exc_obj;
  v85.f1 = 0;
  v_exc = 0;
  v86 = (u8**)(&(*v0).f0.f0);
  v87 = *v86;
  v88 = (struct S64_union_anon*)(&(*v0).f2);
  v89 = (u8*)v88;
  v90 = ((u8*)v87 == (u8*)v89);
  if (v90) {
    goto L28;
  } else {
    goto L27;
  }
L26: ;
  v91 = _ZSt18_Rb_tree_incrementPKSt18_Rb_tree_node_base(v21);
  v92 = ((u8*)v91 == (u8*)v12);
  if (v92) {
    goto L29;
  } else {
    v21 = v91;
    goto L4;
  }
L27: ;
  _ZdlPv(v87);
  goto L28;
L28: ;
  v_exc = 1; return;
L29: ;
  v93 = (u8*)(&(*a0).f0.f0.f0.f0.f1);
  *v93 = ((u8)0ULL);
  goto L30;
L30: ;
  v94 = (u8**)(&(*v0).f0.f0);
  v95 = *v94;
  v96 = (struct S64_union_anon*)(&(*v0).f2);
  v97 = (u8*)v96;
  v98 = ((u8*)v95 == (u8*)v97);
  if (v98) {
    goto L32;
  } else {
    goto L31;
  }
L31: ;
  _ZdlPv(v95);
  goto L32;
L32: ;
  goto L33;
L33: ;
  return;
}

void _ZNK14OpenVolumeMesh15ResourceManager24internal_create_propertyIbNS_6Entity4CellEEENS_11PropertyPtrIT_T0_EENSt7__cxx1112basic_stringIcSt11char_traitsIcESaIcEEERKS5_b(struct S31_class_OpenVolumeMesh__PropertyPtr_86* a0, struct S53_class_OpenVolumeMesh__ResourceManager* a1, struct S14_class_std____cxx11__basic_string* a2, u8* a3, u1 a4) {
  struct S0_class_std__ios_base__Init* v0; struct S0_class_std__ios_base__Init v0_m;
  u8* v1; u8 v1_m;
  struct S56_class_std__shared_ptr_65* v2; struct S56_class_std__shared_ptr_65 v2_m;
  struct S13_class_OpenVolumeMesh__detail__Tracker** v3; struct S13_class_OpenVolumeMesh__detail__Tracker* v3_m;
  u8* v4; u8 v4_m;
  u8 v5;
  u8* v6;
  u8* v7;
  struct S13_class_OpenVolumeMesh__detail__Tracker* v8;
  u8* v9;
  struct S30_class_std____shared_ptr_66* v10;
  struct S12_class_OpenVolumeMesh__PropertyStorageT** v11;
  struct S12_class_OpenVolumeMesh__PropertyStorageT* v12;
  u64 v13;
  struct S15_class_std__vector_46* v14;
  u64** v15;
  u64* v16;
  u32* v17;
  u32 v18;
  u64** v19;
  u64* v20;
  u64 v21;
  u64 v22;
  u64 v23;
  u64 v24;
  u64 v25;
  u64 v26;
  u1 v27;
  u64 v28;
  u64* v29;
  u64 v30;
  u1 v31;
  u64 v32;
  u64 v33;
  u64* v34;
  u64 v35;
  u32 v36;
  u8* v37;
  u8 v38;
  u1 v39;
  u64 v40;
  struct S12_class_OpenVolumeMesh__PropertyStorageT** v41;
  struct S12_class_OpenVolumeMesh__PropertyStorageT* v42;
  struct S20_class_std___Sp_counted_base** v43;
  struct S20_class_std___Sp_counted_base* v44;
  fnptr_t** v45;
  u8* v46;
  struct S12_class_OpenVolumeMesh__PropertyStorageT** v47;
  struct S20_class_std___Sp_counted_base** v48;
  fnptr_t** v49;
  struct S20_class_std___Sp_counted_base** v50;
  struct S20_class_std___Sp_counted_base* v51;
  u1 v52;
  u32* v53;
  u64* v54;
  u64 v55;
  u1 v56;
  u32* v57;
  fnptr_t** v58;
  fnptr_t* v59;
  fnptr_t* v60;
  fnptr_t v61;
  fnptr_t* v62;
  fnptr_t* v63;
  fnptr_t v64;
  u8 v65;
  u1 v66;
  u32 v67;
  u32 v68;
  u32 v69;
  u32 v70;
  u32 v71; u32 v71_t;
  u1 v72;
  struct S65 v73;
L0: ;
  v0 = &v0_m;
  v1 = &v1_m;
  v2 = &v2_m;
  v3 = &v3_m;
  v4 = &v4_m;
  v5 = ((u8)(a4));
  *v1 = v5;
  v6 = (u8*)v2;
  v7 = (u8*)v3;
  v8 = (struct S13_class_OpenVolumeMesh__detail__Tracker*)(&(*a1).f2.f0.f0.e[(s64)((s64)((u64)5ULL))]);
  *v3 = v8;
  *v4 = ((u8)5ULL);
  v9 = (u8*)(&(*v0).f0);
  v10 = (struct S30_class_std____shared_ptr_66*)(&(*v2).f0);
  _ZNSt12__shared_ptrIN14OpenVolumeMesh16PropertyStorageTIbEELN9__gnu_cxx12_Lock_policyE2EEC2ISaIvEJPNS0_6detail7TrackerINS0_19PropertyStorageBaseEEENSt7__cxx1112basic_stringIcSt11char_traitsIcESaIcEEENS0_10EntityTypeERKbRbEEESt20_Sp_alloc_shared_tagIT_EDpOT0_(v10, v0, v3, a2, v4, a3, v1);
  if (v_exc) return;
  v11 = (struct S12_class_OpenVolumeMesh__PropertyStorageT**)(&(*v2).f0.f0);
  v12 = *v11;
  v13 = _ZNK14OpenVolumeMesh15ResourceManager1nINS_6Entity4CellEEEmv(a1);
  if (v_exc) {
    goto L13;
  }
  goto L1;
L1: ;
  v14 = (struct S15_class_std__vector_46*)(&(*v12).f2);
  v15 = (u64**)(&(*v12).f2.f0.f0.f0.f1.f0.f0);
  v16 = *v15;
  v17 = (u32*)(&(*v12).f2.f0.f0.f0.f1.f0.f1);
  v18 = *v17;
  v19 = (u64**)(&(*v14).f0.f0.f0.f0.f0.f0);
  v20 = *v19;
  v21 = ((u64)((u64)v16));
  v22 = ((u64)((u64)v20));
  v23 = v_pdiff((u8*)v16, (u8*)v20);
  v24 = ((u64)(v23 << ((u64)3ULL)));
  v25 = ((u64)(v18));
  v26 = ((u64)(v24 + v25));
  v27 = (v13 < v26);
  if (v27) {
    goto L2;
  } else {
    goto L3;
  }
L2: ;
  v28 = ((u64)(((s64)v13) / ((s64)((u64)64ULL))));
  v29 = (u64*)(v20 + (s64)((s64)v28));
  v30 = ((u64)(((s64)v13) % ((s64)((u64)64ULL))));
  v31 = (((s64)v30) < ((s64)((u64)0ULL)));
  v32 = ((u64)(v30 + ((u64)64ULL)));
  v33 = ((u64)(((s64)v30) >> ((u64)63ULL)));
  v34 = (u64*)(v29 + (s64)((s64)v33));
  v35 = (v31 ? v32 : v30);
  v36 = ((u32)(v35));
  *v15 = v34;
  *v17 = v36;
  goto L4;
L3: ;
  v37 = (u8*)(&(*v12).f3);
  v38 = *v37;
  v39 = (v38 != ((u8)0ULL));
  v40 = ((u64)(v13 - v26));
  _ZNSt6vectorIbSaIbEE14_M_fill_insertESt13_Bit_iteratormb(v14, v16, v18, v40, v39);
  if (v_exc) {
    goto L13;
  }
  goto L4;
L4: ;
  v41 = (struct S12_class_OpenVolumeMesh__PropertyStorageT**)(&(*v2).f0.f0);
  v42 = *v41;
  v43 = (struct S20_class_std___Sp_counted_base**)(&(*v2).f0.f1.f0);
  v44 = *v43;
  v45 = (fnptr_t**)(&(*a0).f0.f0.f0);
  v46 = (u8*)v2;
  (*v2).f0.f0 = (struct S12_class_OpenVolumeMesh__PropertyStorageT*)0;
  (*v2).f0.f1.f0 = (struct S20_class_std___Sp_counted_base*)0;
  *v45 = ((fnptr_t*)((u8**)(&(*(&_ZTVN14OpenVolumeMesh18PropertyStoragePtrIbEE)).f0.e[(s64)((s64)((u64)2ULL))])));
  v47 = (struct S12_class_OpenVolumeMesh__PropertyStorageT**)(&(*a0).f0.f0.f1.f0.f0);
  *v47 = v42;
  v48 = (struct S20_class_std___Sp_counted_base**)(&(*a0).f0.f0.f1.f0.f1.f0);
  *v48 = v44;
  *v45 = ((fnptr_t*)((u8**)(&(*(&_ZTVN14OpenVolumeMesh14HandleIndexingINS_6Entity4CellENS_18PropertyStoragePtrIbEEEE)).f0.e[(s64)((s64)((u64)2ULL))])));
  v49 = (fnptr_t**)(&(*a0).f1.f0);
  *v49 = ((fnptr_t*)((u8**)(&(*(&_ZTVN14OpenVolumeMesh15BasePropertyPtrE)).f0.e[(s64)((s64)((u64)2ULL))])));
  *v45 = ((fnptr_t*)((u8**)(&(*(&_ZTVN14OpenVolumeMesh11PropertyPtrIbNS_6Entity4CellEEE)).f0.e[(s64)((s64)((u64)2ULL))])));
  *v49 = ((fnptr_t*)((u8**)(&(*(&_ZTVN14OpenVolumeMesh11PropertyPtrIbNS_6Entity4CellEEE)).f1.e[(s64)((s64)((u64)2ULL))])));
  v50 = (struct S20_class_std___Sp_counted_base**)(&(*v2).f0.f1.f0);
  v51 = *v50;
  v52 = ((u8*)v51 == (u8*)((struct S20_class_std___Sp_counted_base*)0));
  if (v52) {
    goto L12;
  } else {
    goto L5;
  }
L5: ;
  v53 = (u32*)(&(*v51).f1);
  v54 = (u64*)v53;
  v55 = (((u64)(*v51).f1 << 0) | ((u64)(*v51).f2 << 32));
  v56 = (v55 == ((u64)4294967297ULL));
  if (v56) {
    goto L6;
  } else {
    goto L7;
  }
L6: ;
  *v53 = ((u32)0ULL);
  v57 = (u32*)(&(*v51).f2);
  *v57 = ((u32)0ULL);
  v58 = (fnptr_t**)&(*v51).f0;
  v59 = *v58;
  v60 = (fnptr_t*)(v59 + (s64)((s64)((u64)2ULL)));
  v61 = *v60;
  ((FT1)v61)(v51);
  v62 = *v58;
  v63 = (fnptr_t*)(v62 + (s64)((s64)((u64)3ULL)));
  v64 = *v63;
  ((FT1)v64)(v51);
  goto L12;
L7: ;
  v65 = *(&__libc_single_threaded);
  v66 = (v65 == ((u8)0ULL));
  if (v66) {
    goto L9;
  } else {
    goto L8;
  }
L8: ;
  v67 = *v53;
  v68 = ((u32)(v67 + ((u32)4294967295ULL)));
  *v53 = v68;
  v71 = v67;
  goto L10;
L9: ;
  v69 = *v53;
  v70 = ((u32)(v69 + ((u32)4294967295ULL)));
  *v53 = v70;
  v71 = v69;
  goto L10;
L10: ;
  v72 = (v71 == ((u32)1ULL));
  if (v72) {
    goto L11;
  } else {
    goto L12;
  }
L11: ;
  _ZNSt16_Sp_counted_baseILN9__gnu_cxx12_Lock_policyE2EE24_M_release_last_use_coldEv(v51);
  goto L12;
L12: ;
  return;
L13: ;
  v73.f0 = v_exc_obj;
  v73.f1 = 0;
  v_exc = 0;
  _ZNSt12__shared_ptrIN14OpenVolumeMesh16PropertyStorageTIbEELN9__gnu_cxx12_Lock_policyE2EED2Ev(v10);
  v_exc = 1; return;
}

void _ZNSt14_Optional_baseIN14OpenVolumeMesh11PropertyPtrIbNS0_6Entity4CellEEELb0ELb0EED2Ev(struct S59_struct_std___Optional_base_185* a0) {
  u8* v0;
  u8 v1;
  u1 v2;
  fnptr_t** v3;
  struct S20_class_std___Sp_counted_base** v4;
  struct S20_class_std___Sp_counted_base* v5;
  u1 v6;
  u32* v7;
  u64* v8;
  u64 v9;
  u1 v10;
  u32* v11;
  fnptr_t** v12;
  fnptr_t* v13;
  fnptr_t* v14;
  fnptr_t v15;
  fnptr_t* v16;
  fnptr_t* v17;
  fnptr_t v18;
  u8 v19;
  u1 v20;
  u32 v21;
  u32 v22;
  u32 v23;
  u32 v24;
  u32 v25; u32 v25_t;
  u1 v26;
L0: ;
  v0 = (u8*)(&(*a0).f0.f0.f0.f1);
  v1 = *v0;
  v2 = (v1 == ((u8)0ULL));
  if (v2) {
    goto L9;
  } else {
    goto L1;
  }
L1: ;
  *v0 = ((u8)0ULL);
  v3 = (fnptr_t**)(&(*a0).f0.f0.f0.f0.f0.f0.f0.f0);
  *v3 = ((fnptr_t*)((u8**)(&(*(&_ZTVN14OpenVolumeMesh18PropertyStoragePtrIbEE)).f0.e[(s64)((s64)((u64)2ULL))])));
  v4 = (struct S20_class_std___Sp_counted_base**)(&(*a0).f0.f0.f0.f0.f0.f0.f0.f1.f0.f1.f0);
  v5 = *v4;
  v6 = ((u8*)v5 == (u8*)((struct S20_class_std___Sp_counted_base*)0));
  if (v6) {
    goto L9;
  } else {
    goto L2;
  }
L2: ;
  v7 = (u32*)(&(*v5).f1);
  v8 = (u64*)v7;
  v9 = (((u64)(*v5).f1 << 0) | ((u64)(*v5).f2 << 32));
  v10 = (v9 == ((u64)4294967297ULL));
  if (v10) {
    goto L3;
  } else {
    goto L4;
  }
L3: ;
  *v7 = ((u32)0ULL);
  v11 = (u32*)(&(*v5).f2);
  *v11 = ((u32)0ULL);
  v12 = (fnptr_t**)&(*v5).f0;
  v13 = *v12;
  v14 = (fnptr_t*)(v13 + (s64)((s64)((u64)2ULL)));
  v15 = *v14;
  ((FT1)v15)(v5);
  v16 = *v12;
  v17 = (fnptr_t*)(v16 + (s64)((s64)((u64)3ULL)));
  v18 = *v17;
  ((FT1)v18)(v5);
  goto L9;
L4: ;
  v19 = *(&__libc_single_threaded);
  v20 = (v19 == ((u8)0ULL));
  if (v20) {
    goto L6;
  } else {
    goto L5;
  }
L5: ;
  v21 = *v7;
  v22 = ((u32)(v21 + ((u32)4294967295ULL)));
  *v7 = v22;
  v25 = v21;
  goto L7;
L6: ;
  v23 = *v7;
  v24 = ((u32)(v23 + ((u32)4294967295ULL)));
  *v7 = v24;
  v25 = v23;
  goto L7;
L7: ;
  v26 = (v25 == ((u32)1ULL));
  if (v26) {
    goto L8;
  } else {
    goto L9;
  }
L8: ;
  _ZNSt16_Sp_counted_baseILN9__gnu_cxx12_Lock_policyE2EE24_M_release_last_use_coldEv(v5);
  goto L9;
L9: ;
  return;
}

void _ZN14OpenVolumeMesh15ResourceManager21prop_ptr_from_storageIbNS_6Entity4CellEEENS_11PropertyPtrIT_T0_EEPNS_19PropertyStorageBaseE(struct S31_class_OpenVolumeMesh__PropertyPtr_86* a0, struct S22_class_OpenVolumeMesh__PropertyStorageBas* a1) {
  struct S20_class_std___Sp_counted_base** v0;
  struct S20_class_std___Sp_counted_base* v1;
  u1 v2;
  u32* v3;
  u32 v4;
  u32 v5; u32 v5_t;
  u1 v6;
  u32 v7;
  u32 v8;
  u1 v9;
  u32 v10;
  struct S69 v11;
  struct S69 v12;
  u1 v13;
  u32 v14;
  u8* v15;
  u64* v16;
  fnptr_t** v17;
  struct S22_class_OpenVolumeMesh__PropertyStorageBas** v18;
  struct S12_class_OpenVolumeMesh__PropertyStorageT** v19;
  struct S12_class_OpenVolumeMesh__PropertyStorageT* v20;
  u8 v21;
  u1 v22;
  u32 v23;
  u32 v24;
  u32 v25;
  u32 v26;
  u64* v27;
  u64 v28;
  u1 v29;
  u32* v30;
  fnptr_t** v31;
  fnptr_t* v32;
  fnptr_t* v33;
  fnptr_t v34;
  fnptr_t* v35;
  fnptr_t* v36;
  fnptr_t v37;
  u8 v38;
  u1 v39;
  u32 v40;
  u32 v41;
  u32 v42;
  u32 v43;
  u32 v44; u32 v44_t;
  u1 v45;
  fnptr_t** v46;
  struct S12_class_OpenVolumeMesh__PropertyStorageT** v47;
  struct S20_class_std___Sp_counted_base** v48;
  fnptr_t** v49;
L0: ;
  v0 = (struct S20_class_std___Sp_counted_base**)(&(*a1).f1.f0.f0.f1.f0);
  v1 = *v0;
  v2 = ((u8*)v1 == (u8*)((struct S20_class_std___Sp_counted_base*)0));
  if (v2) {
    goto L4;
  } else {
    goto L1;
  }
L1: ;
  v3 = (u32*)(&(*v1).f1);
  v4 = *v3;
  v5 = v4;
  goto L2;
L2: ;
  v6 = (v5 == ((u32)0ULL));
  if (v6) {
    goto L4;
  } else {
    goto L3;
  }
L3: ;
  v7 = ((u32)(v5 + ((u32)1ULL)));
  v8 = *v3;
  v9 = (v8 == v5);
  v10 = (v9 ? v7 : v8);
  *v3 = v10;
  v11.f0 = v8;
  v12 = v11;
  v12.f1 = v9;
  v13 = v12.f1;
  v14 = v12.f0;
  if (v13) {
    goto L5;
  } else {
    v5 = v14;
    goto L2;
  }
L4: ;
  v15 = __cxa_allocate_exception(((u64)8ULL));
  v16 = (u64*)v15;
  *v16 = ((u64)0ULL);
  v17 = (fnptr_t**)v15;
  *v17 = ((fnptr_t*)((u8**)(&(*(&_ZTVSt12bad_weak_ptr)).f0.e[(s64)((s64)((u64)2ULL))])));
  __cxa_throw(v15, ((u8*)(&_ZTISt12bad_weak_ptr)), ((u8*)((fnptr_t)_ZNSt12bad_weak_ptrD1Ev)));
  if (v_exc) return;
  __CPROVER_assume(0);
L5: ;
  v18 = (struct S22_class_OpenVolumeMesh__PropertyStorageBas**)(&(*a1).f1.f0.f0.f0);
  v19 = (struct S12_class_OpenVolumeMesh__PropertyStorageT**)&(*a1).f1.f0.f0.f0;
  v20 = *v19;
  v21 = *(&__libc_single_threaded);
  v22 = (v21 == ((u8)0ULL));
  if (v22) {
    goto L7;
  } else {
    goto L6;
  }
L6: ;
  v23 = *v3;
  v24 = ((u32)(v23 + ((u32)1ULL)));
  *v3 = v24;
  goto L8;
L7: ;
  v25 = *v3;
  v26 = ((u32)(v25 + ((u32)1ULL)));
  *v3 = v26;
  goto L8;
L8: ;
  v27 = (u64*)v3;
  v28 = (((u64)(*v1).f1 << 0) | ((u64)(*v1).f2 << 32));
  v29 = (v28 == ((u64)4294967297ULL));
  if (v29) {
    goto L9;
  } else {
    goto L10;
  }
L9: ;
  *v3 = ((u32)0ULL);
  v30 = (u32*)(&(*v1).f2);
  *v30 = ((u32)0ULL);
  v31 = (fnptr_t**)&(*v1).f0;
  v32 = *v31;
  v33 = (fnptr_t*)(v32 + (s64)((s64)((u64)2ULL)));
  v34 = *v33;
  ((FT1)v34)(v1);
  v35 = *v31;
  v36 = (fnptr_t*)(v35 + (s64)((s64)((u64)3ULL)));
  v37 = *v36;
  ((FT1)v37)(v1);
  goto L15;
L10: ;
  v38 = *(&__libc_single_threaded);
  v39 = (v38 == ((u8)0ULL));
  if (v39) {
    goto L12;
  } else {
    goto L11;
  }
L11: ;
  v40 = *v3;
  v41 = ((u32)(v40 + ((u32)4294967295ULL)));
  *v3 = v41;
  v44 = v40;
  goto L13;
L12: ;
  v42 = *v3;
  v43 = ((u32)(v42 + ((u32)4294967295ULL)));
  *v3 = v43;
  v44 = v42;
  goto L13;
L13: ;
  v45 = (v44 == ((u32)1ULL));
  if (v45) {
    goto L14;
  } else {
    goto L15;
  }
L14: ;
  _ZNSt16_Sp_counted_baseILN9__gnu_cxx12_Lock_policyE2EE24_M_release_last_use_coldEv(v1);
  goto L15;
L15: ;
  v46 = (fnptr_t**)(&(*a0).f0.f0.f0);
  *v46 = ((fnptr_t*)((u8**)(&(*(&_ZTVN14OpenVolumeMesh18PropertyStoragePtrIbEE)).f0.e[(s64)((s64)((u64)2ULL))])));
  v47 = (struct S12_class_OpenVolumeMesh__PropertyStorageT**)(&(*a0).f0.f0.f1.f0.f0);
  *v47 = v20;
  v48 = (struct S20_class_std___Sp_counted_base**)(&(*a0).f0.f0.f1.f0.f1.f0);
  *v48 = v1;
  *v46 = ((fnptr_t*)((u8**)(&(*(&_ZTVN14OpenVolumeMesh14HandleIndexingINS_6Entity4CellENS_18PropertyStoragePtrIbEEEE)).f0.e[(s64)((s64)((u64)2ULL))])));
  v49 = (fnptr_t**)(&(*a0).f1.f0);
  *v49 = ((fnptr_t*)((u8**)(&(*(&_ZTVN14OpenVolumeMesh15BasePropertyPtrE)).f0.e[(s64)((s64)((u64)2ULL))])));
  *v46 = ((fnptr_t*)((u8**)(&(*(&_ZTVN14OpenVolumeMesh11PropertyPtrIbNS_6Entity4CellEEE)).f0.e[(s64)((s64)((u64)2ULL))])));
  *v49 = ((fnptr_t*)((u8**)(&(*(&_ZTVN14OpenVolumeMesh11PropertyPtrIbNS_6Entity4CellEEE)).f1.e[(s64)((s64)((u64)2ULL))])));
  return;
}

void _ZN14OpenVolumeMesh15ResourceManager16request_propertyIbNS_6Entity8HalfFaceEEENS_11PropertyPtrIT_T0_EERKNSt7__cxx1112basic_stringIcSt11char_traitsIcESaIcEEERKS5_(struct S31_class_OpenVolumeMesh__PropertyPtr_86* a0, struct S53_class_OpenVolumeMesh__ResourceManager* a1, struct S14_class_std____cxx11__basic_string* a2, u8* a3) {
  u64* v0; u64 v0_m;
  struct S58_class_std__optional_184* v1; struct S58_class_std__optional_184 v1_m;
  struct S14_class_std____cxx11__basic_string* v2; struct S14_class_std____cxx11__basic_string v2_m;
  u8* v3;
  u8* v4;
  u8 v5;
  u1 v6;
  fnptr_t** v7;
  struct S12_class_OpenVolumeMesh__PropertyStorageT** v8;
  struct S12_class_OpenVolumeMesh__PropertyStorageT** v9;
  struct S12_class_OpenVolumeMesh__PropertyStorageT* v10;
  struct S20_class_std___Sp_counted_base** v11;
  struct S20_class_std___Sp_counted_base** v12;
  struct S20_class_std___Sp_counted_base* v13;
  u1 v14;
  u32* v15;
  u8 v16;
  u1 v17;
  u32 v18;
  u32 v19;
  u32 v20;
  u32 v21;
  fnptr_t** v22;
  u64* v23;
  u64 v24;
  u1 v25;
  struct S64_union_anon* v26;
  struct S64_union_anon** v27;
  u8** v28;
  u8* v29;
  u8* v30;
  u1 v31;
  u8* v32;
  u8** v33;
  u64 v34;
  u64* v35;
  u8** v36;
  u8* v37;
  u8 v38;
  u64 v39;
  u64* v40;
  u8* v41;
  u8* v42;
  u8* v43;
  u8* v44;
  u1 v45;
  struct S65 v46;
  struct S65 v47;
  u8* v48;
  u8* v49;
  u1 v50;
  struct S65 v51; struct S65 v51_t;
  struct S59_struct_std___Optional_base_185* v52;
  u8* v53;
  u8 v54;
  u1 v55;
  fnptr_t** v56;
  struct S20_class_std___Sp_counted_base** v57;
  struct S20_class_std___Sp_counted_base* v58;
  u1 v59;
  u32* v60;
  u64* v61;
  u64 v62;
  u1 v63;
  u32* v64;
  fnptr_t** v65;
  fnptr_t* v66;
  fnptr_t* v67;
  fnptr_t v68;
  fnptr_t* v69;
  fnptr_t* v70;
  fnptr_t v71;
  u8 v72;
  u1 v73;
  u32 v74;
  u32 v75;
  u32 v76;
  u32 v77;
  u32 v78; u32 v78_t;
  u1 v79;
L0: ;
  v0 = &v0_m;
  v1 = &v1_m;
  v2 = &v2_m;
  v3 = (u8*)v1;
  _ZNK14OpenVolumeMesh15ResourceManager22internal_find_propertyIbNS_6Entity8HalfFaceEEESt8optionalINS_11PropertyPtrIT_T0_EEERKNSt7__cxx1112basic_stringIcSt11char_traitsIcESaIcEEE(v1, a1, a2);
  if (v_exc) return;
  v4 = (u8*)(&(*v1).f0.f0.f0.f0.f1);
  v5 = *v4;
  v6 = (v5 == ((u8)0ULL));
  if (v6) {
    goto L6;
  } else {
    goto L1;
  }
L1: ;
  v7 = (fnptr_t**)(&(*a0).f0.f0.f0);
  *v7 = ((fnptr_t*)((u8**)(&(*(&_ZTVN14OpenVolumeMesh18PropertyStoragePtrIbEE)).f0.e[(s64)((s64)((u64)2ULL))])));
  v8 = (struct S12_class_OpenVolumeMesh__PropertyStorageT**)(&(*a0).f0.f0.f1.f0.f0);
  v9 = (struct S12_class_OpenVolumeMesh__PropertyStorageT**)(&(*v1).f0.f0.f0.f0.f0.f0.f0.f0.f1.f0.f0);
  v10 = *v9;
  *v8 = v10;
  v11 = (struct S20_class_std___Sp_counted_base**)(&(*a0).f0.f0.f1.f0.f1.f0);
  v12 = (struct S20_class_std___Sp_counted_base**)(&(*v1).f0.f0.f0.f0.f0.f0.f0.f0.f1.f0.f1.f0);
  v13 = *v12;
  *v11 = v13;
  v14 = ((u8*)v13 == (u8*)((struct S20_class_std___Sp_counted_base*)0));
  if (v14) {
    goto L5;
  } else {
    goto L2;
  }
L2: ;
  v15 = (u32*)(&(*v13).f1);
  v16 = *(&__libc_single_threaded);
  v17 = (v16 == ((u8)0ULL));
  if (v17) {
    goto L4;
  } else {
    goto L3;
  }
L3: ;
  v18 = *v15;
  v19 = ((u32)(v18 + ((u32)1ULL)));
  *v15 = v19;
  goto L5;
L4: ;
  v20 = *v15;
  v21 = ((u32)(v20 + ((u32)1ULL)));
  *v15 = v21;
  goto L5;
L5: ;
  *v7 = ((fnptr_t*)((u8**)(&(*(&_ZTVN14OpenVolumeMesh14HandleIndexingINS_6Entity8HalfFaceENS_18PropertyStoragePtrIbEEEE)).f0.e[(s64)((s64)((u64)2ULL))])));
  v22 = (fnptr_t**)(&(*a0).f1.f0);
  *v22 = ((fnptr_t*)((u8**)(&(*(&_ZTVN14OpenVolumeMesh15BasePropertyPtrE)).f0.e[(s64)((s64)((u64)2ULL))])));
  *v7 = ((fnptr_t*)((u8**)(&(*(&_ZTVN14OpenVolumeMesh11PropertyPtrIbNS_6Entity8HalfFaceEEE)).f0.e[(s64)((s64)((u64)2ULL))])));
  *v22 = ((fnptr_t*)((u8**)(&(*(&_ZTVN14OpenVolumeMesh11PropertyPtrIbNS_6Entity8HalfFaceEEE)).f1.e[(s64)((s64)((u64)2ULL))])));
  goto L19;
L6: ;
  v23 = (u64*)(&(*a2).f1);
  v24 = *v23;
  v25 = (v24 != ((u64)0ULL));
  v26 = (struct S64_union_anon*)(&(*v2).f2);
  v27 = (struct S64_union_anon**)&(*v2).f0.f0;
  *v27 = v26;
  v28 = (u8**)(&(*a2).f0.f0);
  v29 = *v28;
  v30 = (u8*)v0;
  *v0 = v24;
  v31 = (v24 > ((u64)15ULL));
  if (v31) {
    goto L7;
  } else {
    goto L9;
  }
L7: ;
  v32 = _ZNSt7__cxx1112basic_stringIcSt11char_traitsIcESaIcEE9_M_createERmm(v2, v0, ((u64)0ULL));
  if (v_exc) {
    goto L15;
  }
  goto L8;
L8: ;
  v33 = (u8**)(&(*v2).f0.f0);
  *v33 = v32;
  v34 = *v0;
  v35 = (u64*)(&(*v2).f2.f0.e[0]);
  *v35 = v34;
  goto L9;
L9: ;
  v36 = (u8**)(&(*v2).f0.f0);
  v37 = *v36;
  switch (v24) {
  case ((u64)1ULL): {
    goto L10;
  }
  case ((u64)0ULL): {
    goto L12;
  }
  default: {
    goto L11;
  }
  }
L10: ;
  v38 = *v29;
  *v37 = v38;
  goto L12;
L11: ;
  v_memcpy((u8*)v37, (u8*)v29, (u64)v24);
  goto L12;
L12: ;
  v39 = *v0;
  v40 = (u64*)(&(*v2).f1);
  *v40 = v39;
  v41 = *v36;
  v42 = (u8*)(v41 + (s64)((s64)v39));
  *v42 = ((u8)0ULL);
  _ZNK14OpenVolumeMesh15ResourceManager24internal_create_propertyIbNS_6Entity8HalfFaceEEENS_11PropertyPtrIT_T0_EENSt7__cxx1112basic_stringIcSt11char_traitsIcESaIcEEERKS5_b(a0, a1, v2, a3, v25);
  if (v_exc) {
    goto L16;
  }
  goto L13;
L13: ;
  v43 = *v36;
  v44 = (u8*)v26;
  v45 = ((u8*)v43 == (u8*)v44);
  if (v45) {
    goto L19;
  } else {
    goto L14;
  }
L14: ;
  _ZdlPv(v43);
  goto L19;
L15: ;
  v46.f0 = v_exc_obj;
  v46.f1 = 0;
  v_exc = 0;
  v51 = v46;
  goto L18;
L16: ;
  v47.f0 = v_exc_obj;
  v47.f1 = 0;
  v_exc = 0;
  v48 = *v36;
  v49 = (u8*)v26;
  v50 = ((u8*)v48 == (u8*)v49);
  if (v50) {
    v51 = v47;
    goto L18;
  } else {
    goto L17;
  }
L17: ;
  _ZdlPv(v48);
  v51 = v47;
  goto L18;
L18: ;
  v52 = (struct S59_struct_std___Optional_base_185*)(&(*v1).f0);
  _ZNSt14_Optional_baseIN14OpenVolumeMesh11PropertyPtrIbNS0_6Entity8HalfFaceEEELb0ELb0EED2Ev(v52);
  v_exc = 1; return;
L19: ;
  v53 = (u8*)(&(*v1).f0.f0.f0.f0.f1);
  v54 = *v53;
  v55 = (v54 == ((u8)0ULL));
  if (v55) {
    goto L28;
  } else {
    goto L20;
  }
L20: ;
  *v53 = ((u8)0ULL);
  v56 = (fnptr_t**)(&(*v1).f0.f0.f0.f0.f0.f0.f0.f0.f0);
  *v56 = ((fnptr_t*)((u8**)(&(*(&_ZTVN14OpenVolumeMesh18PropertyStoragePtrIbEE)).f0.e[(s64)((s64)((u64)2ULL))])));
  v57 = (struct S20_class_std___Sp_counted_base**)(&(*v1).f0.f0.f0.f0.f0.f0.f0.f0.f1.f0.f1.f0);
  v58 = *v57;
  v59 = ((u8*)v58 == (u8*)((struct S20_class_std___Sp_counted_base*)0));
  if (v59) {
    goto L28;
  } else {
    goto L21;
  }
L21: ;
  v60 = (u32*)(&(*v58).f1);
  v61 = (u64*)v60;
  v62 = (((u64)(*v58).f1 << 0) | ((u64)(*v58).f2 << 32));
  v63 = (v62 == ((u64)4294967297ULL));
  if (v63) {
    goto L22;
  } else {
    goto L23;
  }
L22: ;
  *v60 = ((u32)0ULL);
  v64 = (u32*)(&(*v58).f2);
  *v64 = ((u32)0ULL);
  v65 = (fnptr_t**)&(*v58).f0;
  v66 = *v65;
  v67 = (fnptr_t*)(v66 + (s64)((s64)((u64)2ULL)));
  v68 = *v67;
  ((FT1)v68)(v58);
  v69 = *v65;
  v70 = (fnptr_t*)(v69 + (s64)((s64)((u64)3ULL)));
  v71 = *v70;
  ((FT1)v71)(v58);
  goto L28;
L23: ;
  v72 = *(&__libc_single_threaded);
  v73 = (v72 == ((u8)0ULL));
  if (v73) {
    goto L25;
  } else {
    goto L24;
  }
L24: ;
  v74 = *v60;
  v75 = ((u32)(v74 + ((u32)4294967295ULL)));
  *v60 = v75;
  v78 = v74;
  goto L26;
L25: ;
  v76 = *v60;
  v77 = ((u32)(v76 + ((u32)4294967295ULL)));
  *v60 = v77;
  v78 = v76;
  goto L26;
L26: ;
  v79 = (v78 == ((u32)1ULL));
  if (v79) {
    goto L27;
  } else {
    goto L28;
  }
L27: ;
  _ZNSt16_Sp_counted_baseILN9__gnu_cxx12_Lock_policyE2EE24_M_release_last_use_coldEv(v58);
  goto L28;
L28: ;
  return;
}

void _ZN14OpenVolumeMesh15ResourceManager14set_persistentIbNS_6Entity8HalfFaceEEEvRNS_11PropertyPtrIT_T0_EEb(struct S53_class_OpenVolumeMesh__ResourceManager* a0, struct S31_class_OpenVolumeMesh__PropertyPtr_86* a1, u1 a2) {
  struct S25_class_std__weak_ptr* v0; struct S25_class_std__weak_ptr v0_m;
  struct S12_class_OpenVolumeMesh__PropertyStorageT** v1;
  struct S22_class_OpenVolumeMesh__PropertyStorageBas** v2;
  struct S22_class_OpenVolumeMesh__PropertyStorageBas* v3;
  u8* v4;
  u8 v5;
  u1 v6;
  u1 v7;
  u8* v8;
  struct S56_class_std__shared_ptr_65* v9;
  struct S22_class_OpenVolumeMesh__PropertyStorageBas** v10;
  struct S22_class_OpenVolumeMesh__PropertyStorageBas* v11;
  struct S22_class_OpenVolumeMesh__PropertyStorageBas** v12;
  struct S20_class_std___Sp_counted_base** v13;
  struct S20_class_std___Sp_counted_base** v14;
  struct S20_class_std___Sp_counted_base* v15;
  u1 v16;
  u32* v17;
  u8 v18;
  u1 v19;
  u32 v20;
  u32 v21;
  u32 v22;
  u32 v23;
  struct S22_class_OpenVolumeMesh__PropertyStorageBas* v24;
  u8* v25;
  u8 v26;
  u1 v27;
  u8* v28;
  struct S29_class_std__runtime_error* v29;
  struct S65 v30;
  struct S65 v31;
  struct S16_class_std___Rb_tree_5* v32;
  struct S36 v33;
  struct S43_class_std__map* v34;
  u8* v35;
  u8* v36;
  struct S41_struct_std___Rb_tree_node_31** v37;
  u8* v38;
  struct S17_struct_std___Rb_tree_node_base* v39;
  struct S41_struct_std___Rb_tree_node_31* v40;
  u1 v41;
  struct S22_class_OpenVolumeMesh__PropertyStorageBas* v42;
  struct S41_struct_std___Rb_tree_node_31* v43; struct S41_struct_std___Rb_tree_node_31* v43_t;
  struct S17_struct_std___Rb_tree_node_base* v44; struct S17_struct_std___Rb_tree_node_base* v44_t;
  struct S72_struct___gnu_cxx____aligned_membuf_32* v45;
  struct S22_class_OpenVolumeMesh__PropertyStorageBas** v46;
  struct S22_class_OpenVolumeMesh__PropertyStorageBas* v47;
  u1 v48;
  struct S17_struct_std___Rb_tree_node_base** v49;
  u1 v50;
  struct S17_struct_std___Rb_tree_node_base* v51;
  struct S17_struct_std___Rb_tree_node_base** v52;
  struct S41_struct_std___Rb_tree_node_31** v53;
  struct S41_struct_std___Rb_tree_node_31* v54;
  struct S17_struct_std___Rb_tree_node_base** v55;
  struct S41_struct_std___Rb_tree_node_31** v56;
  struct S41_struct_std___Rb_tree_node_31* v57;
  u1 v58;
  struct S41_struct_std___Rb_tree_node_31* v59; struct S41_struct_std___Rb_tree_node_31* v59_t;
  struct S17_struct_std___Rb_tree_node_base* v60; struct S17_struct_std___Rb_tree_node_base* v60_t;
  struct S72_struct___gnu_cxx____aligned_membuf_32* v61;
  struct S22_class_OpenVolumeMesh__PropertyStorageBas** v62;
  struct S22_class_OpenVolumeMesh__PropertyStorageBas* v63;
  u1 v64;
  struct S17_struct_std___Rb_tree_node_base** v65;
  struct S17_struct_std___Rb_tree_node_base* v66;
  struct S17_struct_std___Rb_tree_node_base** v67;
  struct S17_struct_std___Rb_tree_node_base* v68;
  struct S17_struct_std___Rb_tree_node_base** v69;
  struct S41_struct_std___Rb_tree_node_31** v70;
  struct S41_struct_std___Rb_tree_node_31* v71;
  u1 v72;
  struct S17_struct_std___Rb_tree_node_base* v73; struct S17_struct_std___Rb_tree_node_base* v73_t;
  u1 v74;
  struct S41_struct_std___Rb_tree_node_31* v75; struct S41_struct_std___Rb_tree_node_31* v75_t;
  struct S17_struct_std___Rb_tree_node_base* v76; struct S17_struct_std___Rb_tree_node_base* v76_t;
  struct S72_struct___gnu_cxx____aligned_membuf_32* v77;
  struct S22_class_OpenVolumeMesh__PropertyStorageBas** v78;
  struct S22_class_OpenVolumeMesh__PropertyStorageBas* v79;
  u1 v80;
  struct S17_struct_std___Rb_tree_node_base* v81;
  struct S17_struct_std___Rb_tree_node_base** v82;
  struct S17_struct_std___Rb_tree_node_base** v83;
  struct S17_struct_std___Rb_tree_node_base* v84;
  struct S17_struct_std___Rb_tree_node_base** v85;
  struct S41_struct_std___Rb_tree_node_31** v86;
  struct S41_struct_std___Rb_tree_node_31* v87;
  u1 v88;
  struct S17_struct_std___Rb_tree_node_base* v89; struct S17_struct_std___Rb_tree_node_base* v89_t;
  struct S17_struct_std___Rb_tree_node_base** v90; struct S17_struct_std___Rb_tree_node_base** v90_t;
  struct S41_struct_std___Rb_tree_node_31** v91;
  struct S41_struct_std___Rb_tree_node_31* v92;
  u1 v93;
  struct S17_struct_std___Rb_tree_node_base* v94; struct S17_struct_std___Rb_tree_node_base* v94_t;
  struct S17_struct_std___Rb_tree_node_base* v95; struct S17_struct_std___Rb_tree_node_base* v95_t;
  struct S16_class_std___Rb_tree_5* v96;
  struct S22_class_OpenVolumeMesh__PropertyStorageBas** v97;
  struct S22_class_OpenVolumeMesh__PropertyStorageBas* v98;
  u8 v99;
  u8* v100;
  struct S20_class_std___Sp_counted_base** v101;
  struct S20_class_std___Sp_counted_base* v102;
  u1 v103;
  u32* v104;
  u64* v105;
  u64 v106;
  u1 v107;
  u32* v108;
  fnptr_t** v109;
  fnptr_t* v110;
  fnptr_t* v111;
  fnptr_t v112;
  fnptr_t* v113;
  fnptr_t* v114;
  fnptr_t v115;
  u8 v116;
  u1 v117;
  u32 v118;
  u32 v119;
  u32 v120;
  u32 v121;
  u32 v122; u32 v122_t;
  u1 v123;
  struct S65 v124; struct S65 v124_t;
  struct S40_class_std____weak_ptr* v125;
L0: ;
  v0 = &v0_m;
  v1 = (struct S12_class_OpenVolumeMesh__PropertyStorageT**)(&(*a1).f0.f0.f1.f0.f0);
  v2 = (struct S22_class_OpenVolumeMesh__PropertyStorageBas**)&(*a1).f0.f0.f1.f0.f0;
  v3 = *v2;
  v4 = (u8*)(&(*v3).f5);
  v5 = *v4;
  v6 = (v5 != ((u8)0ULL));
  v7 = ((u1)((v6 ^ a2)&1));
  if (v7) {
    goto L1;
  } else {
    goto L32;
  }
L1: ;
  v8 = (u8*)v0;
  v9 = (struct S56_class_std__shared_ptr_65*)(&(*a1).f0.f0.f1);
  v10 = (struct S22_class_OpenVolumeMesh__PropertyStorageBas**)&(*a1).f0.f0.f1.f0.f0;
  v11 = *v10;
  v12 = (struct S22_class_OpenVolumeMesh__PropertyStorageBas**)(&(*v0).f0.f0);
  *v12 = v11;
  v13 = (struct S20_class_std___Sp_counted_base**)(&(*v0).f0.f1.f0);
  v14 = (struct S20_class_std___Sp_counted_base**)(&(*a1).f0.f0.f1.f0.f1.f0);
  v15 = *v14;
  *v13 = v15;
  v16 = ((u8*)v15 == (u8*)((struct S20_class_std___Sp_counted_base*)0));
  if (v16) {
    goto L5;
  } else {
    goto L2;
  }
L2: ;
  v17 = (u32*)(&(*v15).f1);
  v18 = *(&__libc_single_threaded);
  v19 = (v18 == ((u8)0ULL));
  if (v19) {
    goto L4;
  } else {
    goto L3;
  }
L3: ;
  v20 = *v17;
  v21 = ((u32)(v20 + ((u32)1ULL)));
  *v17 = v21;
  goto L5;
L4: ;
  v22 = *v17;
  v23 = ((u32)(v22 + ((u32)1ULL)));
  *v17 = v23;
  goto L5;
L5: ;
  if (a2) {
    goto L6;
  } else {
    goto L12;
  }
L6: ;
  v24 = *v2;
  v25 = (u8*)(&(*v24).f6);
  v26 = *v25;
  v27 = (v26 == ((u8)0ULL));
  if (v27) {
    goto L7;
  } else {
    goto L11;
  }
L7: ;
  v28 = __cxa_allocate_exception(((u64)16ULL));
  v29 = (struct S29_class_std__runtime_error*)v28;
  _ZNSt13runtime_errorC1EPKc(v29, ((u8*)(&(*(&_str_38)).e[(s64)((s64)((u64)0ULL))])));
  if (v_exc) {
    goto L9;
  }
  goto L8;
L8: ;
  __cxa_throw(v28, ((u8*)(&_ZTISt13runtime_error)), ((u8*)((fnptr_t)_ZNSt13runtime_errorD1Ev)));
  if (v_exc) {
    goto L10;
  }
  goto L34;
L9: ;
  v30.f0 = v_exc_obj;
  v30.f1 = 0;
  v_exc = 0;
  __cxa_free_exception(v28);
  v124 = v30;
  goto L33;
L10: ;
  v31.f0 = v_exc_obj;
  v31.f1 = 0;
  v_exc = 0;
  v124 = v31;
  goto L33;
L11: ;
  v32 = (struct S16_class_std___Rb_tree_5*)(&(*a0).f1.f0.f0.e[(s64)((s64)((u64)4ULL))].f0);
  v33 = _ZNSt8_Rb_treeISt10shared_ptrIN14OpenVolumeMesh19PropertyStorageBaseEES3_St9_IdentityIS3_ESt4lessIS3_ESaIS3_EE16_M_insert_uniqueIRKS3_EESt4pairISt17_Rb_tree_iteratorIS3_EbEOT_(v32, v0);
  if (v_exc) {
    goto L10;
  }
  goto L23;
L12: ;
  v34 = (struct S43_class_std__map*)(&(*a0).f1.f0.f0.e[(s64)((s64)((u64)4ULL))]);
  v35 = (u8*)(&(*v34).f0.f0.f0.f0.f0);
  v36 = (u8*)&(*a0).f1.f0.f0.e[4].f0.f0.f1.f0.f1;
  v37 = (struct S41_struct_std___Rb_tree_node_31**)&(*a0).f1.f0.f0.e[4].f0.f0.f1.f0.f1;
  v38 = (u8*)&(*a0).f1.f0.f0.e[4].f0.f0.f1.f0.f0;
  v39 = (struct S17_struct_std___Rb_tree_node_base*)&(*a0).f1.f0.f0.e[4].f0.f0.f1.f0;
  v40 = *v37;
  v41 = ((u8*)v40 == (u8*)((struct S41_struct_std___Rb_tree_node_31*)0));
  if (v41) {
    v94_t = v39;
    v95_t = v39;
    v94 = v94_t;
    v95 = v95_t;
    goto L22;
  } else {
    goto L13;
  }
L13: ;
  v42 = *v12;
  v43_t = v40;
  v44_t = v39;
  v43 = v43_t;
  v44 = v44_t;
  goto L14;
L14: ;
  v45 = (struct S72_struct___gnu_cxx____aligned_membuf_32*)(&(*v43).f1);
  v46 = (struct S22_class_OpenVolumeMesh__PropertyStorageBas**)v45;
  v47 = *v46;
  v48 = v_plt((u8*)v47, (u8*)v42);
  if (v48) {
    goto L15;
  } else {
    goto L16;
  }
L15: ;
  v49 = (struct S17_struct_std___Rb_tree_node_base**)(&(*v43).f0.f3);
  v89_t = v44;
  v90_t = v49;
  v89 = v89_t;
  v90 = v90_t;
  goto L21;
L16: ;
  v50 = v_plt((u8*)v42, (u8*)v47);
  v51 = (struct S17_struct_std___Rb_tree_node_base*)(&(*v43).f0);
  v52 = (struct S17_struct_std___Rb_tree_node_base**)(&(*v43).f0.f2);
  if (v50) {
    v89_t = v51;
    v90_t = v52;
    v89 = v89_t;
    v90 = v90_t;
    goto L21;
  } else {
    goto L17;
  }
L17: ;
  v53 = (struct S41_struct_std___Rb_tree_node_31**)&(*v43).f0.f2;
  v54 = *v53;
  v55 = (struct S17_struct_std___Rb_tree_node_base**)(&(*v43).f0.f3);
  v56 = (struct S41_struct_std___Rb_tree_node_31**)&(*v43).f0.f3;
  v57 = *v56;
  v58 = ((u8*)v54 == (u8*)((struct S41_struct_std___Rb_tree_node_31*)0));
  if (v58) {
    v73 = v51;
    goto L19;
  } else {
    v59_t = v54;
    v60_t = v51;
    v59 = v59_t;
    v60 = v60_t;
    goto L18;
  }
L18: ;
  v61 = (struct S72_struct___gnu_cxx____aligned_membuf_32*)(&(*v59).f1);
  v62 = (struct S22_class_OpenVolumeMesh__PropertyStorageBas**)v61;
  v63 = *v62;
  v64 = v_plt((u8*)v63, (u8*)v42);
  v65 = (struct S17_struct_std___Rb_tree_node_base**)(&(*v59).f0.f3);
  v66 = (struct S17_struct_std___Rb_tree_node_base*)(&(*v59).f0);
  v67 = (struct S17_struct_std___Rb_tree_node_base**)(&(*v59).f0.f2);
  v68 = (v64 ? v60 : v66);
  v69 = (v64 ? v65 : v67);
  v70 = (struct S41_struct_std___Rb_tree_node_31**)v69;
  v71 = *v70;
  v72 = ((u8*)v71 == (u8*)((struct S41_struct_std___Rb_tree_node_31*)0));
  if (v72) {
    v73 = v68;
    goto L19;
  } else {
    v59_t = v71;
    v60_t = v68;
    v59 = v59_t;
    v60 = v60_t;
    goto L18;
  }
L19: ;
  v74 = ((u8*)v57 == (u8*)((struct S41_struct_std___Rb_tree_node_31*)0));
  if (v74) {
    v94_t = v73;
    v95_t = v44;
    v94 = v94_t;
    v95 = v95_t;
    goto L22;
  } else {
    v75_t = v57;
    v76_t = v44;
    v75 = v75_t;
    v76 = v76_t;
    goto L20;
  }
L20: ;
  v77 = (struct S72_struct___gnu_cxx____aligned_membuf_32*)(&(*v75).f1);
  v78 = (struct S22_class_OpenVolumeMesh__PropertyStorageBas**)v77;
  v79 = *v78;
  v80 = v_plt((u8*)v42, (u8*)v79);
  v81 = (struct S17_struct_std___Rb_tree_node_base*)(&(*v75).f0);
  v82 = (struct S17_struct_std___Rb_tree_node_base**)(&(*v75).f0.f2);
  v83 = (struct S17_struct_std___Rb_tree_node_base**)(&(*v75).f0.f3);
  v84 = (v80 ? v81 : v76);
  v85 = (v80 ? v82 : v83);
  v86 = (struct S41_struct_std___Rb_tree_node_31**)v85;
  v87 = *v86;
  v88 = ((u8*)v87 == (u8*)((struct S41_struct_std___Rb_tree_node_31*)0));
  if (v88) {
    v94_t = v73;
    v95_t = v84;
    v94 = v94_t;
    v95 = v95_t;
    goto L22;
  } else {
    v75_t = v87;
    v76_t = v84;
    v75 = v75_t;
    v76 = v76_t;
    goto L20;
  }
L21: ;
  v91 = (struct S41_struct_std___Rb_tree_node_31**)v90;
  v92 = *v91;
  v93 = ((u8*)v92 == (u8*)((struct S41_struct_std___Rb_tree_node_31*)0));
  if (v93) {
    v94_t = v89;
    v95_t = v89;
    v94 = v94_t;
    v95 = v95_t;
    goto L22;
  } else {
    v43_t = v92;
    v44_t = v89;
    v43 = v43_t;
    v44 = v44_t;
    goto L14;
  }
L22: ;
  v96 = (struct S16_class_std___Rb_tree_5*)(&(*v34).f0);
  _ZNSt8_Rb_treeISt10shared_ptrIN14OpenVolumeMesh19PropertyStorageBaseEES3_St9_IdentityIS3_ESt4lessIS3_ESaIS3_EE12_M_erase_auxESt23_Rb_tree_const_iteratorIS3_ESB_(v96, v94, v95);
  if (v_exc) {
    goto L10;
  }
  goto L23;
L23: ;
  v97 = (struct S22_class_OpenVolumeMesh__PropertyStorageBas**)(&(*v0).f0.f0);
  v98 = *v97;
  v99 = ((u8)(a2));
  v100 = (u8*)(&(*v98).f5);
  *v100 = v99;
  v101 = (struct S20_class_std___Sp_counted_base**)(&(*v0).f0.f1.f0);
  v102 = *v101;
  v103 = ((u8*)v102 == (u8*)((struct S20_class_std___Sp_counted_base*)0));
  if (v103) {
    goto L31;
  } else {
    goto L24;
  }
L24: ;
  v104 = (u32*)(&(*v102).f1);
  v105 = (u64*)v104;
  v106 = (((u64)(*v102).f1 << 0) | ((u64)(*v102).f2 << 32));
  v107 = (v106 == ((u64)4294967297ULL));
  if (v107) {
    goto L25;
  } else {
    goto L26;
  }
L25: ;
  *v104 = ((u32)0ULL);
  v108 = (u32*)(&(*v102).f2);
  *v108 = ((u32)0ULL);
  v109 = (fnptr_t**)&(*v102).f0;
  v110 = *v109;
  v111 = (fnptr_t*)(v110 + (s64)((s64)((u64)2ULL)));
  v112 = *v111;
  ((FT1)v112)(v102);
  v113 = *v109;
  v114 = (fnptr_t*)(v113 + (s64)((s64)((u64)3ULL)));
  v115 = *v114;
  ((FT1)v115)(v102);
  goto L31;
L26: ;
  v116 = *(&__libc_single_threaded);
  v117 = (v116 == ((u8)0ULL));
  if (v117) {
    goto L28;
  } else {
    goto L27;
  }
L27: ;
  v118 = *v104;
  v119 = ((u32)(v118 + ((u32)4294967295ULL)));
  *v104 = v119;
  v122 = v118;
  goto L29;
L28: ;
  v120 = *v104;
  v121 = ((u32)(v120 + ((u32)4294967295ULL)));
  *v104 = v121;
  v122 = v120;
  goto L29;
L29: ;
  v123 = (v122 == ((u32)1ULL));
  if (v123) {
    goto L30;
  } else {
    goto L31;
  }
L30: ;
  _ZNSt16_Sp_counted_baseILN9__gnu_cxx12_Lock_policyE2EE24_M_release_last_use_coldEv(v102);
  goto L31;
L31: ;
  goto L32;
L32: ;
  return;
L33: ;
  v125 = (struct S40_class_std____weak_ptr*)(&(*v0).f0);
  _ZNSt12__shared_ptrIN14OpenVolumeMesh19PropertyStorageBaseELN9__gnu_cxx12_Lock_policyE2EED2Ev(v125);
  v_exc = 1; return;
L34: ;
  __CPROVER_assume(0);
}

void _ZNK14OpenVolumeMesh15ResourceManager22internal_find_propertyIbNS_6Entity8HalfFaceEEESt8optionalINS_11PropertyPtrIT_T0_EEERKNSt7__cxx1112basic_stringIcSt11char_traitsIcESaIcEEE(struct S58_class_std__optional_184* a0, struct S53_class_OpenVolumeMesh__ResourceManager* a1, struct S14_class_std____cxx11__basic_string* a2) {
  struct S14_class_std____cxx11__basic_string* v0; struct S14_class_std____cxx11__basic_string v0_m;
  struct S31_class_OpenVolumeMesh__PropertyPtr_86* v1; struct S31_class_OpenVolumeMesh__PropertyPtr_86 v1_m;
  u64* v2;
  u64 v3;
  u1 v4;
  u8* v5;
  u8* v6;
  u8* v7;
  u8* v8;
  struct S17_struct_std___Rb_tree_node_base** v9;
  struct S17_struct_std___Rb_tree_node_base* v10;
  u8* v11;
  struct S17_struct_std___Rb_tree_node_base* v12;
  u1 v13;
  u64 v14;
  u8** v15;
  u8* v16;
  u64* v17;
  u64 v18;
  u8** v19;
  u8* v20;
  struct S17_struct_std___Rb_tree_node_base* v21; struct S17_struct_std___Rb_tree_node_base* v21_t;
  struct S17_struct_std___Rb_tree_node_base* v22;
  struct S22_class_OpenVolumeMesh__PropertyStorageBas** v23;
  struct S22_class_OpenVolumeMesh__PropertyStorageBas* v24;
  u8* v25;
  u8 v26;
  u1 v27;
  u64* v28;
  u64 v29;
  u1 v30;
  u1 v31;
  u8** v32;
  u8* v33;
  u32 v34;
  u1 v35;
  u64* v36;
  u64 v37;
  u1 v38;
  u1 v39;
  u8** v40;
  u8* v41;
  u32 v42;
  u1 v43;
  u8* v44;
  fnptr_t** v45;
  struct S12_class_OpenVolumeMesh__PropertyStorageT** v46;
  struct S12_class_OpenVolumeMesh__PropertyStorageT** v47;
  struct S12_class_OpenVolumeMesh__PropertyStorageT* v48;
  struct S20_class_std___Sp_counted_base** v49;
  struct S20_class_std___Sp_counted_base** v50;
  struct S20_class_std___Sp_counted_base* v51;
  u1 v52;
  u32* v53;
  u8 v54;
  u1 v55;
  u32 v56;
  u32 v57;
  u32 v58;
  u32 v59;
  fnptr_t** v60;
  u8* v61;
  fnptr_t** v62;
  struct S20_class_std___Sp_counted_base* v63;
  u1 v64;
  u32* v65;
  u64* v66;
  u64 v67;
  u1 v68;
  u32* v69;
  fnptr_t** v70;
  fnptr_t* v71;
  fnptr_t* v72;
  fnptr_t v73;
  fnptr_t* v74;
  fnptr_t* v75;
  fnptr_t v76;
  u8 v77;
  u1 v78;
  u32 v79;
  u32 v80;
  u32 v81;
  u32 v82;
  u32 v83; u32 v83_t;
  u1 v84;
  struct S65 v85;
  u8** v86;
  u8* v87;
  struct S64_union_anon* v88;
  u8* v89;
  u1 v90;
  struct S17_struct_std___Rb_tree_node_base* v91;
  u1 v92;
  u8* v93;
  u8** v94;
  u8* v95;
  struct S64_union_anon* v96;
  u8* v97;
  u1 v98;
L0: ;
  v0 = &v0_m;
  v1 = &v1_m;
  v2 = (u64*)(&(*a2).f1);
  v3 = *v2;
  v4 = (v3 == ((u64)0ULL));
  if (v4) {
    goto L1;
  } else {
    goto L2;
  }
L1: ;
  v5 = (u8*)(&(*a0).f0.f0.f0.f0.f1);
  *v5 = ((u8)0ULL);
  goto L33;
L2: ;
  v6 = (u8*)v0;
  _ZN14OpenVolumeMesh6detail18internal_type_nameB5cxx11ERKSt9type_info(v0, ((struct S39_class_std__type_info*)(&_ZTIb)));
  if (v_exc) return;
  v7 = (u8*)(&(*a1).f2.f0.f0.e[(s64)((s64)((u64)4ULL))].f1.f0.f0.f0.f0.f0);
  v8 = (u8*)&(*a1).f2.f0.f0.e[4].f1.f0.f0.f1.f0.f2;
  v9 = (struct S17_struct_std___Rb_tree_node_base**)&(*a1).f2.f0.f0.e[4].f1.f0.f0.f1.f0.f2;
  v10 = *v9;
  v11 = (u8*)&(*a1).f2.f0.f0.e[4].f1.f0.f0.f1.f0.f0;
  v12 = (struct S17_struct_std___Rb_tree_node_base*)&(*a1).f2.f0.f0.e[4].f1.f0.f0.f1.f0;
  v13 = ((u8*)v10 == (u8*)v12);
  if (v13) {
    goto L29;
  } else {
    goto L3;
  }
L3: ;
  v14 = *v2;
  v15 = (u8**)(&(*a2).f0.f0);
  v16 = *v15;
  v17 = (u64*)(&(*v0).f1);
  v18 = *v17;
  v19 = (u8**)(&(*v0).f0.f0);
  v20 = *v19;
  v21 = v10;
  goto L4;
L4: ;
  v22 = (struct S17_struct_std___Rb_tree_node_base*)(v21 + (s64)((s64)((u64)1ULL)));
  v23 = (struct S22_class_OpenVolumeMesh__PropertyStorageBas**)v22;
  v24 = *v23;
  v25 = (u8*)(&(*v24).f6);
  v26 = *v25;
  v27 = (v26 == ((u8)0ULL));
  if (v27) {
    goto L26;
  } else {
    goto L5;
  }
L5: ;
  v28 = (u64*)(&(*v24).f2.f1);
  v29 = *v28;
  v30 = (v29 == v14);
  if (v30) {
    goto L6;
  } else {
    goto L26;
  }
L6: ;
  v31 = (v29 == ((u64)0ULL));
  if (v31) {
    goto L8;
  } else {
    goto L7;
  }
L7: ;
  v32 = (u8**)(&(*v24).f2.f0.f0);
  v33 = *v32;
  v34 = bcmp(v33, v16, v29);
  v35 = (v34 == ((u32)0ULL));
  if (v35) {
    goto L8;
  } else {
    goto L26;
  }
L8: ;
  v36 = (u64*)(&(*v24).f3.f1);
  v37 = *v36;
  v38 = (v37 == v18);
  if (v38) {
    goto L9;
  } else {
    goto L26;
  }
L9: ;
  v39 = (v37 == ((u64)0ULL));
  if (v39) {
    goto L11;
  } else {
    goto L10;
  }
L10: ;
  v40 = (u8**)(&(*v24).f3.f0.f0);
  v41 = *v40;
  v42 = bcmp(v41, v20, v37);
  v43 = (v42 == ((u32)0ULL));
  if (v43) {
    goto L11;
  } else {
    goto L26;
  }
L11: ;
  v44 = (u8*)v1;
  _ZN14OpenVolumeMesh15ResourceManager21prop_ptr_from_storageIbNS_6Entity8HalfFaceEEENS_11PropertyPtrIT_T0_EEPNS_19PropertyStorageBaseE(v1, v24);
  if (v_exc) {
    goto L25;
  }
  goto L12;
L12: ;
  v45 = (fnptr_t**)(&(*a0).f0.f0.f0.f0.f0.f0.f0.f0.f0);
  *v45 = ((fnptr_t*)((u8**)(&(*(&_ZTVN14OpenVolumeMesh18PropertyStoragePtrIbEE)).f0.e[(s64)((s64)((u64)2ULL))])));
  v46 = (struct S12_class_OpenVolumeMesh__PropertyStorageT**)(&(*a0).f0.f0.f0.f0.f0.f0.f0.f0.f1.f0.f0);
  v47 = (struct S12_class_OpenVolumeMesh__PropertyStorageT**)(&(*v1).f0.f0.f1.f0.f0);
  v48 = *v47;
  *v46 = v48;
  v49 = (struct S20_class_std___Sp_counted_base**)(&(*a0).f0.f0.f0.f0.f0.f0.f0.f0.f1.f0.f1.f0);
  v50 = (struct S20_class_std___Sp_counted_base**)(&(*v1).f0.f0.f1.f0.f1.f0);
  v51 = *v50;
  *v49 = v51;
  v52 = ((u8*)v51 == (u8*)((struct S20_class_std___Sp_counted_base*)0));
  if (v52) {
    goto L16;
  } else {
    goto L13;
  }
L13: ;
  v53 = (u32*)(&(*v51).f1);
  v54 = *(&__libc_single_threaded);
  v55 = (v54 == ((u8)0ULL));
  if (v55) {
    goto L15;
  } else {
    goto L14;
  }
L14: ;
  v56 = *v53;
  v57 = ((u32)(v56 + ((u32)1ULL)));
  *v53 = v57;
  goto L16;
L15: ;
  v58 = *v53;
  v59 = ((u32)(v58 + ((u32)1ULL)));
  *v53 = v59;
  goto L16;
L16: ;
  *v45 = ((fnptr_t*)((u8**)(&(*(&_ZTVN14OpenVolumeMesh14HandleIndexingINS_6Entity8HalfFaceENS_18PropertyStoragePtrIbEEEE)).f0.e[(s64)((s64)((u64)2ULL))])));
  v60 = (fnptr_t**)(&(*a0).f0.f0.f0.f0.f0.f0.f1.f0);
  *v60 = ((fnptr_t*)((u8**)(&(*(&_ZTVN14OpenVolumeMesh15BasePropertyPtrE)).f0.e[(s64)((s64)((u64)2ULL))])));
  *v45 = ((fnptr_t*)((u8**)(&(*(&_ZTVN14OpenVolumeMesh11PropertyPtrIbNS_6Entity8HalfFaceEEE)).f0.e[(s64)((s64)((u64)2ULL))])));
  *v60 = ((fnptr_t*)((u8**)(&(*(&_ZTVN14OpenVolumeMesh11PropertyPtrIbNS_6Entity8HalfFaceEEE)).f1.e[(s64)((s64)((u64)2ULL))])));
  v61 = (u8*)(&(*a0).f0.f0.f0.f0.f1);
  *v61 = ((u8)1ULL);
  v62 = (fnptr_t**)(&(*v1).f0.f0.f0);
  *v62 = ((fnptr_t*)((u8**)(&(*(&_ZTVN14OpenVolumeMesh18PropertyStoragePtrIbEE)).f0.e[(s64)((s64)((u64)2ULL))])));
  v63 = *v50;
  v64 = ((u8*)v63 == (u8*)((struct S20_class_std___Sp_counted_base*)0));
  if (v64) {
    goto L24;
  } else {
    goto L17;
  }
L17: ;
  v65 = (u32*)(&(*v63).f1);
  v66 = (u64*)v65;
  v67 = (((u64)(*v63).f1 << 0) | ((u64)(*v63).f2 << 32));
  v68 = (v67 == ((u64)4294967297ULL));
  if (v68) {
    goto L18;
  } else {
    goto L19;
  }
L18: ;
  *v65 = ((u32)0ULL);
  v69 = (u32*)(&(*v63).f2);
  *v69 = ((u32)0ULL);
  v70 = (fnptr_t**)&(*v63).f0;
  v71 = *v70;
  v72 = (fnptr_t*)(v71 + (s64)((s64)((u64)2ULL)));
  v73 = *v72;
  ((FT1)v73)(v63);
  v74 = *v70;
  v75 = (fnptr_t*)(v74 + (s64)((s64)((u64)3ULL)));
  v76 = *v75;
  ((FT1)v76)(v63);
  goto L24;
L19: ;
  v77 = *(&__libc_single_threaded);
  v78 = (v77 == ((u8)0ULL));
  if (v78) {
    goto L21;
  } else {
    goto L20;
  }
L20: ;
  v79 = *v65;
  v80 = ((u32)(v79 + ((u32)4294967295ULL)));
  *v65 = v80;
  v83 = v79;
  goto L22;
L21: ;
  v81 = *v65;
  v82 = ((u32)(v81 + ((u32)4294967295ULL)));
  *v65 = v82;
  v83 = v81;
  goto L22;
L22: ;
  v84 = (v83 == ((u32)1ULL));
  if (v84) {
    goto L23;
  } else {
    goto L24;
  }
L23: ;
  _ZNSt16_Sp_counted_baseILN9__gnu_cxx12_Lock_policyE2EE24_M_release_last_use_coldEv(v63);
  goto L24;
L24: ;
  goto L30;
L25: ;
  v85.f0 = v_exc_obj;
  v85.f1 = 0;
  v_exc = 0;
  v86 = (u8**)(&(*v0).f0.f0);
  v87 = *v86;
  v88 = (struct S64_union_anon*)(&(*v0).f2);
  v89 = (u8*)v88;
  v90 = ((u8*)v87 == (u8*)v89);
  if (v90) {
    goto L28;
  } else {
    goto L27;
  }
L26: ;
  v91 = _ZSt18_Rb_tree_incrementPKSt18_Rb_tree_node_base(v21);
  v92 = ((u8*)v91 == (u8*)v12);
  if (v92) {
    goto L29;
  } else {
    v21 = v91;
    goto L4;
  }
L27: ;
  _ZdlPv(v87);
  goto L28;
L28: ;
  v_exc = 1; return;
L29: ;
  v93 = (u8*)(&(*a0).f0.f0.f0.f0.f1);
  *v93 = ((u8)0ULL);
  goto L30;
L30: ;
  v94 = (u8**)(&(*v0).f0.f0);
  v95 = *v94;
  v96 = (struct S64_union_anon*)(&(*v0).f2);
  v97 = (u8*)v96;
  v98 = ((u8*)v95 == (u8*)v97);
  if (v98) {
    goto L32;
  } else {
    goto L31;
  }
L31: ;
  _ZdlPv(v95);
  goto L32;
L32: ;
  goto L33;
L33: ;
  return;
}

void _ZNK14OpenVolumeMesh15ResourceManager24internal_create_propertyIbNS_6Entity8HalfFaceEEENS_11PropertyPtrIT_T0_EENSt7__cxx1112basic_stringIcSt11char_traitsIcESaIcEEERKS5_b(struct S31_class_OpenVolumeMesh__PropertyPtr_86* a0, struct S53_class_OpenVolumeMesh__ResourceManager* a1, struct S14_class_std____cxx11__basic_string* a2, u8* a3, u1 a4) {
  struct S0_class_std__ios_base__Init* v0; struct S0_class_std__ios_base__Init v0_m;
  u8* v1; u8 v1_m;
  struct S56_class_std__shared_ptr_65* v2; struct S56_class_std__shared_ptr_65 v2_m;
  struct S13_class_OpenVolumeMesh__detail__Tracker** v3; struct S13_class_OpenVolumeMesh__detail__Tracker* v3_m;
  u8* v4; u8 v4_m;
  u8 v5;
  u8* v6;
  u8* v7;
  struct S13_class_OpenVolumeMesh__detail__Tracker* v8;
  u8* v9;
  struct S30_class_std____shared_ptr_66* v10;
  struct S12_class_OpenVolumeMesh__PropertyStorageT** v11;
  struct S12_class_OpenVolumeMesh__PropertyStorageT* v12;
  u64 v13;
  struct S15_class_std__vector_46* v14;
  u64** v15;
  u64* v16;
  u32* v17;
  u32 v18;
  u64** v19;
  u64* v20;
  u64 v21;
  u64 v22;
  u64 v23;
  u64 v24;
  u64 v25;
  u64 v26;
  u1 v27;
  u64 v28;
  u64* v29;
  u64 v30;
  u1 v31;
  u64 v32;
  u64 v33;
  u64* v34;
  u64 v35;
  u32 v36;
  u8* v37;
  u8 v38;
  u1 v39;
  u64 v40;
  struct S12_class_OpenVolumeMesh__PropertyStorageT** v41;
  struct S12_class_OpenVolumeMesh__PropertyStorageT* v42;
  struct S20_class_std___Sp_counted_base** v43;
  struct S20_class_std___Sp_counted_base* v44;
  fnptr_t** v45;
  u8* v46;
  struct S12_class_OpenVolumeMesh__PropertyStorageT** v47;
  struct S20_class_std___Sp_counted_base** v48;
  fnptr_t** v49;
  struct S20_class_std___Sp_counted_base** v50;
  struct S20_class_std___Sp_counted_base* v51;
  u1 v52;
  u32* v53;
  u64* v54;
  u64 v55;
  u1 v56;
  u32* v57;
  fnptr_t** v58;
  fnptr_t* v59;
  fnptr_t* v60;
  fnptr_t v61;
  fnptr_t* v62;
  fnptr_t* v63;
  fnptr_t v64;
  u8 v65;
  u1 v66;
  u32 v67;
  u32 v68;
  u32 v69;
  u32 v70;
  u32 v71; u32 v71_t;
  u1 v72;
  struct S65 v73;
L0: ;
  v0 = &v0_m;
  v1 = &v1_m;
  v2 = &v2_m;
  v3 = &v3_m;
  v4 = &v4_m;
  v5 = ((u8)(a4));
  *v1 = v5;
  v6 = (u8*)v2;
  v7 = (u8*)v3;
  v8 = (struct S13_class_OpenVolumeMesh__detail__Tracker*)(&(*a1).f2.f0.f0.e[(s64)((s64)((u64)4ULL))]);
  *v3 = v8;
  *v4 = ((u8)4ULL);
  v9 = (u8*)(&(*v0).f0);
  v10 = (struct S30_class_std____shared_ptr_66*)(&(*v2).f0);
  _ZNSt12__shared_ptrIN14OpenVolumeMesh16PropertyStorageTIbEELN9__gnu_cxx12_Lock_policyE2EEC2ISaIvEJPNS0_6detail7TrackerINS0_19PropertyStorageBaseEEENSt7__cxx1112basic_stringIcSt11char_traitsIcESaIcEEENS0_10EntityTypeERKbRbEEESt20_Sp_alloc_shared_tagIT_EDpOT0_(v10, v0, v3, a2, v4, a3, v1);
  if (v_exc) return;
  v11 = (struct S12_class_OpenVolumeMesh__PropertyStorageT**)(&(*v2).f0.f0);
  v12 = *v11;
  v13 = _ZNK14OpenVolumeMesh15ResourceManager1nINS_6Entity8HalfFaceEEEmv(a1);
  if (v_exc) {
    goto L13;
  }
  goto L1;
L1: ;
  v14 = (struct S15_class_std__vector_46*)(&(*v12).f2);
  v15 = (u64**)(&(*v12).f2.f0.f0.f0.f1.f0.f0);
  v16 = *v15;
  v17 = (u32*)(&(*v12).f2.f0.f0.f0.f1.f0.f1);
  v18 = *v17;
  v19 = (u64**)(&(*v14).f0.f0.f0.f0.f0.f0);
  v20 = *v19;
  v21 = ((u64)((u64)v16));
  v22 = ((u64)((u64)v20));
  v23 = v_pdiff((u8*)v16, (u8*)v20);
  v24 = ((u64)(v23 << ((u64)3ULL)));
  v25 = ((u64)(v18));
  v26 = ((u64)(v24 + v25));
  v27 = (v13 < v26);
  if (v27) {
    goto L2;
  } else {
    goto L3;
  }
L2: ;
  v28 = ((u64)(((s64)v13) / ((s64)((u64)64ULL))));
  v29 = (u64*)(v20 + (s64)((s64)v28));
  v30 = ((u64)(((s64)v13) % ((s64)((u64)64ULL))));
  v31 = (((s64)v30) < ((s64)((u64)0ULL)));
  v32 = ((u64)(v30 + ((u64)64ULL)));
  v33 = ((u64)(((s64)v30) >> ((u64)63ULL)));
  v34 = (u64*)(v29 + (s64)((s64)v33));
  v35 = (v31 ? v32 : v30);
  v36 = ((u32)(v35));
  *v15 = v34;
  *v17 = v36;
  goto L4;
L3: ;
  v37 = (u8*)(&(*v12).f3);
  v38 = *v37;
  v39 = (v38 != ((u8)0ULL));
  v40 = ((u64)(v13 - v26));
  _ZNSt6vectorIbSaIbEE14_M_fill_insertESt13_Bit_iteratormb(v14, v16, v18, v40, v39);
  if (v_exc) {
    goto L13;
  }
  goto L4;
L4: ;
  v41 = (struct S12_class_OpenVolumeMesh__PropertyStorageT**)(&(*v2).f0.f0);
  v42 = *v41;
  v43 = (struct S20_class_std___Sp_counted_base**)(&(*v2).f0.f1.f0);
  v44 = *v43;
  v45 = (fnptr_t**)(&(*a0).f0.f0.f0);
  v46 = (u8*)v2;
  (*v2).f0.f0 = (struct S12_class_OpenVolumeMesh__PropertyStorageT*)0;
  (*v2).f0.f1.f0 = (struct S20_class_std___Sp_counted_base*)0;
  *v45 = ((fnptr_t*)((u8**)(&(*(&_ZTVN14OpenVolumeMesh18PropertyStoragePtrIbEE)).f0.e[(s64)((s64)((u64)2ULL))])));
  v47 = (struct S12_class_OpenVolumeMesh__PropertyStorageT**)(&(*a0).f0.f0.f1.f0.f0);
  *v47 = v42;
  v48 = (struct S20_class_std___Sp_counted_base**)(&(*a0).f0.f0.f1.f0.f1.f0);
  *v48 = v44;
  *v45 = ((fnptr_t*)((u8**)(&(*(&_ZTVN14OpenVolumeMesh14HandleIndexingINS_6Entity8HalfFaceENS_18PropertyStoragePtrIbEEEE)).f0.e[(s64)((s64)((u64)2ULL))])));
  v49 = (fnptr_t**)(&(*a0).f1.f0);
  *v49 = ((fnptr_t*)((u8**)(&(*(&_ZTVN14OpenVolumeMesh15BasePropertyPtrE)).f0.e[(s64)((s64)((u64)2ULL))])));
  *v45 = ((fnptr_t*)((u8**)(&(*(&_ZTVN14OpenVolumeMesh11PropertyPtrIbNS_6Entity8HalfFaceEEE)).f0.e[(s64)((s64)((u64)2ULL))])));
  *v49 = ((fnptr_t*)((u8**)(&(*(&_ZTVN14OpenVolumeMesh11PropertyPtrIbNS_6Entity8HalfFaceEEE)).f1.e[(s64)((s64)((u64)2ULL))])));
  v50 = (struct S20_class_std___Sp_counted_base**)(&(*v2).f0.f1.f0);
  v51 = *v50;
  v52 = ((u8*)v51 == (u8*)((struct S20_class_std___Sp_counted_base*)0));
  if (v52) {
    goto L12;
  } else {
    goto L5;
  }
L5: ;
  v53 = (u32*)(&(*v51).f1);
  v54 = (u64*)v53;
  v55 = (((u64)(*v51).f1 << 0) | ((u64)(*v51).f2 << 32));
  v56 = (v55 == ((u64)4294967297ULL));
  if (v56) {
    goto L6;
  } else {
    goto L7;
  }
L6: ;
  *v53 = ((u32)0ULL);
  v57 = (u32*)(&(*v51).f2);
  *v57 = ((u32)0ULL);
  v58 = (fnptr_t**)&(*v51).f0;
  v59 = *v58;
  v60 = (fnptr_t*)(v59 + (s64)((s64)((u64)2ULL)));
  v61 = *v60;
  ((FT1)v61)(v51);
  v62 = *v58;
  v63 = (fnptr_t*)(v62 + (s64)((s64)((u64)3ULL)));
  v64 = *v63;
  ((FT1)v64)(v51);
  goto L12;
L7: ;
  v65 = *(&__libc_single_threaded);
  v66 = (v65 == ((u8)0ULL));
  if (v66) {
    goto L9;
  } else {
    goto L8;
  }
L8: ;
  v67 = *v53;
  v68 = ((u32)(v67 + ((u32)4294967295ULL)));
  *v53 = v68;
  v71 = v67;
  goto L10;
L9: ;
  v69 = *v53;
  v70 = ((u32)(v69 + ((u32)4294967295ULL)));
  *v53 = v70;
  v71 = v69;
  goto L10;
L10: ;
  v72 = (v71 == ((u32)1ULL));
  if (v72) {
    goto L11;
  } else {
    goto L12;
  }
L11: ;
  _ZNSt16_Sp_counted_baseILN9__gnu_cxx12_Lock_policyE2EE24_M_release_last_use_coldEv(v51);
  goto L12;
L12: ;
  return;
L13: ;
  v73.f0 = v_exc_obj;
  v73.f1 = 0;
  v_exc = 0;
  _ZNSt12__shared_ptrIN14OpenVolumeMesh16PropertyStorageTIbEELN9__gnu_cxx12_Lock_policyE2EED2Ev(v10);
  v_exc = 1; return;
}

void _ZNSt14_Optional_baseIN14OpenVolumeMesh11PropertyPtrIbNS0_6Entity8HalfFaceEEELb0ELb0EED2Ev(struct S59_struct_std___Optional_base_185* a0) {
  u8* v0;
  u8 v1;
  u1 v2;
  fnptr_t** v3;
  struct S20_class_std___Sp_counted_base** v4;
  struct S20_class_std___Sp_counted_base* v5;
  u1 v6;
  u32* v7;
  u64* v8;
  u64 v9;
  u1 v10;
  u32* v11;
  fnptr_t** v12;
  fnptr_t* v13;
  fnptr_t* v14;
  fnptr_t v15;
  fnptr_t* v16;
  fnptr_t* v17;
  fnptr_t v18;
  u8 v19;
  u1 v20;
  u32 v21;
  u32 v22;
  u32 v23;
  u32 v24;
  u32 v25; u32 v25_t;
  u1 v26;
L0: ;
  v0 = (u8*)(&(*a0).f0.f0.f0.f1);
  v1 = *v0;
  v2 = (v1 == ((u8)0ULL));
  if (v2) {
    goto L9;
  } else {
    goto L1;
  }
L1: ;
  *v0 = ((u8)0ULL);
  v3 = (fnptr_t**)(&(*a0).f0.f0.f0.f0.f0.f0.f0.f0);
  *v3 = ((fnptr_t*)((u8**)(&(*(&_ZTVN14OpenVolumeMesh18PropertyStoragePtrIbEE)).f0.e[(s64)((s64)((u64)2ULL))])));
  v4 = (struct S20_class_std___Sp_counted_base**)(&(*a0).f0.f0.f0.f0.f0.f0.f0.f1.f0.f1.f0);
  v5 = *v4;
  v6 = ((u8*)v5 == (u8*)((struct S20_class_std___Sp_counted_base*)0));
  if (v6) {
    goto L9;
  } else {
    goto L2;
  }
L2: ;
  v7 = (u32*)(&(*v5).f1);
  v8 = (u64*)v7;
  v9 = (((u64)(*v5).f1 << 0) | ((u64)(*v5).f2 << 32));
  v10 = (v9 == ((u64)4294967297ULL));
  if (v10) {
    goto L3;
  } else {
    goto L4;
  }
L3: ;
  *v7 = ((u32)0ULL);
  v11 = (u32*)(&(*v5).f2);
  *v11 = ((u32)0ULL);
  v12 = (fnptr_t**)&(*v5).f0;
  v13 = *v12;
  v14 = (fnptr_t*)(v13 + (s64)((s64)((u64)2ULL)));
  v15 = *v14;
  ((FT1)v15)(v5);
  v16 = *v12;
  v17 = (fnptr_t*)(v16 + (s64)((s64)((u64)3ULL)));
  v18 = *v17;
  ((FT1)v18)(v5);
  goto L9;
L4: ;
  v19 = *(&__libc_single_threaded);
  v20 = (v19 == ((u8)0ULL));
  if (v20) {
    goto L6;
  } else {
    goto L5;
  }
L5: ;
  v21 = *v7;
  v22 = ((u32)(v21 + ((u32)4294967295ULL)));
  *v7 = v22;
  v25 = v21;
  goto L7;
L6: ;
  v23 = *v7;
  v24 = ((u32)(v23 + ((u32)4294967295ULL)));
  *v7 = v24;
  v25 = v23;
  goto L7;
L7: ;
  v26 = (v25 == ((u32)1ULL));
  if (v26) {
    goto L8;
  } else {
    goto L9;
  }
L8: ;
  _ZNSt16_Sp_counted_baseILN9__gnu_cxx12_Lock_policyE2EE24_M_release_last_use_coldEv(v5);
  goto L9;
L9: ;
  return;
}

void _ZN14OpenVolumeMesh15ResourceManager21prop_ptr_from_storageIbNS_6Entity8HalfFaceEEENS_11PropertyPtrIT_T0_EEPNS_19PropertyStorageBaseE(struct S31_class_OpenVolumeMesh__PropertyPtr_86* a0, struct S22_class_OpenVolumeMesh__PropertyStorageBas* a1) {
  struct S20_class_std___Sp_counted_base** v0;
  struct S20_class_std___Sp_counted_base* v1;
  u1 v2;
  u32* v3;
  u32 v4;
  u32 v5; u32 v5_t;
  u1 v6;
  u32 v7;
  u32 v8;
  u1 v9;
  u32 v10;
  struct S69 v11;
  struct S69 v12;
  u1 v13;
  u32 v14;
  u8* v15;
  u64* v16;
  fnptr_t** v17;
  struct S22_class_OpenVolumeMesh__PropertyStorageBas** v18;
  struct S12_class_OpenVolumeMesh__PropertyStorageT** v19;
  struct S12_class_OpenVolumeMesh__PropertyStorageT* v20;
  u8 v21;
  u1 v22;
  u32 v23;
  u32 v24;
  u32 v25;
  u32 v26;
  u64* v27;
  u64 v28;
  u1 v29;
  u32* v30;
  fnptr_t** v31;
  fnptr_t* v32;
  fnptr_t* v33;
  fnptr_t v34;
  fnptr_t* v35;
  fnptr_t* v36;
  fnptr_t v37;
  u8 v38;
  u1 v39;
  u32 v40;
  u32 v41;
  u32 v42;
  u32 v43;
  u32 v44; u32 v44_t;
  u1 v45;
  fnptr_t** v46;
  struct S12_class_OpenVolumeMesh__PropertyStorageT** v47;
  struct S20_class_std___Sp_counted_base** v48;
  fnptr_t** v49;
L0: ;
  v0 = (struct S20_class_std___Sp_counted_base**)(&(*a1).f1.f0.f0.f1.f0);
  v1 = *v0;
  v2 = ((u8*)v1 == (u8*)((struct S20_class_std___Sp_counted_base*)0));
  if (v2) {
    goto L4;
  } else {
    goto L1;
  }
L1: ;
  v3 = (u32*)(&(*v1).f1);
  v4 = *v3;
  v5 = v4;
  goto L2;
L2: ;
  v6 = (v5 == ((u32)0ULL));
  if (v6) {
    goto L4;
  } else {
    goto L3;
  }
L3: ;
  v7 = ((u32)(v5 + ((u32)1ULL)));
  v8 = *v3;
  v9 = (v8 == v5);
  v10 = (v9 ? v7 : v8);
  *v3 = v10;
  v11.f0 = v8;
  v12 = v11;
  v12.f1 = v9;
  v13 = v12.f1;
  v14 = v12.f0;
  if (v13) {
    goto L5;
  } else {
    v5 = v14;
    goto L2;
  }
L4: ;
  v15 = __cxa_allocate_exception(((u64)8ULL));
  v16 = (u64*)v15;
  *v16 = ((u64)0ULL);
  v17 = (fnptr_t**)v15;
  *v17 = ((fnptr_t*)((u8**)(&(*(&_ZTVSt12bad_weak_ptr)).f0.e[(s64)((s64)((u64)2ULL))])));
  __cxa_throw(v15, ((u8*)(&_ZTISt12bad_weak_ptr)), ((u8*)((fnptr_t)_ZNSt12bad_weak_ptrD1Ev)));
  if (v_exc) return;
  __CPROVER_assume(0);
L5: ;
  v18 = (struct S22_class_OpenVolumeMesh__PropertyStorageBas**)(&(*a1).f1.f0.f0.f0);
  v19 = (struct S12_class_OpenVolumeMesh__PropertyStorageT**)&(*a1).f1.f0.f0.f0;
  v20 = *v19;
  v21 = *(&__libc_single_threaded);
  v22 = (v21 == ((u8)0ULL));
  if (v22) {
    goto L7;
  } else {
    goto L6;
  }
L6: ;
  v23 = *v3;
  v24 = ((u32)(v23 + ((u32)1ULL)));
  *v3 = v24;
  goto L8;
L7: ;
  v25 = *v3;
  v26 = ((u32)(v25 + ((u32)1ULL)));
  *v3 = v26;
  goto L8;
L8: ;
  v27 = (u64*)v3;
  v28 = (((u64)(*v1).f1 << 0) | ((u64)(*v1).f2 << 32));
  v29 = (v28 == ((u64)4294967297ULL));
  if (v29) {
    goto L9;
  } else {
    goto L10;
  }
L9: ;
  *v3 = ((u32)0ULL);
  v30 = (u32*)(&(*v1).f2);
  *v30 = ((u32)0ULL);
  v31 = (fnptr_t**)&(*v1).f0;
  v32 = *v31;
  v33 = (fnptr_t*)(v32 + (s64)((s64)((u64)2ULL)));
  v34 = *v33;
  ((FT1)v34)(v1);
  v35 = *v31;
  v36 = (fnptr_t*)(v35 + (s64)((s64)((u64)3ULL)));
  v37 = *v36;
  ((FT1)v37)(v1);
  goto L15;
L10: ;
  v38 = *(&__libc_single_threaded);
  v39 = (v38 == ((u8)0ULL));
  if (v39) {
    goto L12;
  } else {
    goto L11;
  }
L11: ;
  v40 = *v3;
  v41 = ((u32)(v40 + ((u32)4294967295ULL)));
  *v3 = v41;
  v44 = v40;
  goto L13;
L12: ;
  v42 = *v3;
  v43 = ((u32)(v42 + ((u32)4294967295ULL)));
  *v3 = v43;
  v44 = v42;
  goto L13;
L13: ;
  v45 = (v44 == ((u32)1ULL));
  if (v45) {
    goto L14;
  } else {
    goto L15;
  }
L14: ;
  _ZNSt16_Sp_counted_baseILN9__gnu_cxx12_Lock_policyE2EE24_M_release_last_use_coldEv(v1);
  goto L15;
L15: ;
  v46 = (fnptr_t**)(&(*a0).f0.f0.f0);
  *v46 = ((fnptr_t*)((u8**)(&(*(&_ZTVN14OpenVolumeMesh18PropertyStoragePtrIbEE)).f0.e[(s64)((s64)((u64)2ULL))])));
  v47 = (struct S12_class_OpenVolumeMesh__PropertyStorageT**)(&(*a0).f0.f0.f1.f0.f0);
  *v47 = v20;
  v48 = (struct S20_class_std___Sp_counted_base**)(&(*a0).f0.f0.f1.f0.f1.f0);
  *v48 = v1;
  *v46 = ((fnptr_t*)((u8**)(&(*(&_ZTVN14OpenVolumeMesh14HandleIndexingINS_6Entity8HalfFaceENS_18PropertyStoragePtrIbEEEE)).f0.e[(s64)((s64)((u64)2ULL))])));
  v49 = (fnptr_t**)(&(*a0).f1.f0);
  *v49 = ((fnptr_t*)((u8**)(&(*(&_ZTVN14OpenVolumeMesh15BasePropertyPtrE)).f0.e[(s64)((s64)((u64)2ULL))])));
  *v46 = ((fnptr_t*)((u8**)(&(*(&_ZTVN14OpenVolumeMesh11PropertyPtrIbNS_6Entity8HalfFaceEEE)).f0.e[(s64)((s64)((u64)2ULL))])));
  *v49 = ((fnptr_t*)((u8**)(&(*(&_ZTVN14OpenVolumeMesh11PropertyPtrIbNS_6Entity8HalfFaceEEE)).f1.e[(s64)((s64)((u64)2ULL))])));
  return;
}

void _ZN14OpenVolumeMesh15ResourceManager16request_propertyIbNS_6Entity4FaceEEENS_11PropertyPtrIT_T0_EERKNSt7__cxx1112basic_stringIcSt11char_traitsIcESaIcEEERKS5_(struct S31_class_OpenVolumeMesh__PropertyPtr_86* a0, struct S53_class_OpenVolumeMesh__ResourceManager* a1, struct S14_class_std____cxx11__basic_string* a2, u8* a3) {
  u64* v0; u64 v0_m;
  struct S58_class_std__optional_184* v1; struct S58_class_std__optional_184 v1_m;
  struct S14_class_std____cxx11__basic_string* v2; struct S14_class_std____cxx11__basic_string v2_m;
  u8* v3;
  u8* v4;
  u8 v5;
  u1 v6;
  fnptr_t** v7;
  struct S12_class_OpenVolumeMesh__PropertyStorageT** v8;
  struct S12_class_OpenVolumeMesh__PropertyStorageT** v9;
  struct S12_class_OpenVolumeMesh__PropertyStorageT* v10;
  struct S20_class_std___Sp_counted_base** v11;
  struct S20_class_std___Sp_counted_base** v12;
  struct S20_class_std___Sp_counted_base* v13;
  u1 v14;
  u32* v15;
  u8 v16;
  u1 v17;
  u32 v18;
  u32 v19;
  u32 v20;
  u32 v21;
  fnptr_t** v22;
  u64* v23;
  u64 v24;
  u1 v25;
  struct S64_union_anon* v26;
  struct S64_union_anon** v27;
  u8** v28;
  u8* v29;
  u8* v30;
  u1 v31;
  u8* v32;
  u8** v33;
  u64 v34;
  u64* v35;
  u8** v36;
  u8* v37;
  u8 v38;
  u64 v39;
  u64* v40;
  u8* v41;
  u8* v42;
  u8* v43;
  u8* v44;
  u1 v45;
  struct S65 v46;
  struct S65 v47;
  u8* v48;
  u8* v49;
  u1 v50;
  struct S65 v51; struct S65 v51_t;
  struct S59_struct_std___Optional_base_185* v52;
  u8* v53;
  u8 v54;
  u1 v55;
  fnptr_t** v56;
  struct S20_class_std___Sp_counted_base** v57;
  struct S20_class_std___Sp_counted_base* v58;
  u1 v59;
  u32* v60;
  u64* v61;
  u64 v62;
  u1 v63;
  u32* v64;
  fnptr_t** v65;
  fnptr_t* v66;
  fnptr_t* v67;
  fnptr_t v68;
  fnptr_t* v69;
  fnptr_t* v70;
  fnptr_t v71;
  u8 v72;
  u1 v73;
  u32 v74;
  u32 v75;
  u32 v76;
  u32 v77;
  u32 v78; u32 v78_t;
  u1 v79;
L0: ;
  v0 = &v0_m;
  v1 = &v1_m;
  v2 = &v2_m;
  v3 = (u8*)v1;
  _ZNK14OpenVolumeMesh15ResourceManager22internal_find_propertyIbNS_6Entity4FaceEEESt8optionalINS_11PropertyPtrIT_T0_EEERKNSt7__cxx1112basic_stringIcSt11char_traitsIcESaIcEEE(v1, a1, a2);
  if (v_exc) return;
  v4 = (u8*)(&(*v1).f0.f0.f0.f0.f1);
  v5 = *v4;
  v6 = (v5 == ((u8)0ULL));
  if (v6) {
    goto L6;
  } else {
    goto L1;
  }
L1: ;
  v7 = (fnptr_t**)(&(*a0).f0.f0.f0);
  *v7 = ((fnptr_t*)((u8**)(&(*(&_ZTVN14OpenVolumeMesh18PropertyStoragePtrIbEE)).f0.e[(s64)((s64)((u64)2ULL))])));
  v8 = (struct S12_class_OpenVolumeMesh__PropertyStorageT**)(&(*a0).f0.f0.f1.f0.f0);
  v9 = (struct S12_class_OpenVolumeMesh__PropertyStorageT**)(&(*v1).f0.f0.f0.f0.f0.f0.f0.f0.f1.f0.f0);
  v10 = *v9;
  *v8 = v10;
  v11 = (struct S20_class_std___Sp_counted_base**)(&(*a0).f0.f0.f1.f0.f1.f0);
  v12 = (struct S20_class_std___Sp_counted_base**)(&(*v1).f0.f0.f0.f0.f0.f0.f0.f0.f1.f0.f1.f0);
  v13 = *v12;
  *v11 = v13;
  v14 = ((u8*)v13 == (u8*)((struct S20_class_std___Sp_counted_base*)0));
  if (v14) {
    goto L5;
  } else {
    goto L2;
  }
L2: ;
  v15 = (u32*)(&(*v13).f1);
  v16 = *(&__libc_single_threaded);
  v17 = (v16 == ((u8)0ULL));
  if (v17) {
    goto L4;
  } else {
    goto L3;
  }
L3: ;
  v18 = *v15;
  v19 = ((u32)(v18 + ((u32)1ULL)));
  *v15 = v19;
  goto L5;
L4: ;
  v20 = *v15;
  v21 = ((u32)(v20 + ((u32)1ULL)));
  *v15 = v21;
  goto L5;
L5: ;
  *v7 = ((fnptr_t*)((u8**)(&(*(&_ZTVN14OpenVolumeMesh14HandleIndexingINS_6Entity4FaceENS_18PropertyStoragePtrIbEEEE)).f0.e[(s64)((s64)((u64)2ULL))])));
  v22 = (fnptr_t**)(&(*a0).f1.f0);
  *v22 = ((fnptr_t*)((u8**)(&(*(&_ZTVN14OpenVolumeMesh15BasePropertyPtrE)).f0.e[(s64)((s64)((u64)2ULL))])));
  *v7 = ((fnptr_t*)((u8**)(&(*(&_ZTVN14OpenVolumeMesh11PropertyPtrIbNS_6Entity4FaceEEE)).f0.e[(s64)((s64)((u64)2ULL))])));
  *v22 = ((fnptr_t*)((u8**)(&(*(&_ZTVN14OpenVolumeMesh11PropertyPtrIbNS_6Entity4FaceEEE)).f1.e[(s64)((s64)((u64)2ULL))])));
  goto L19;
L6: ;
  v23 = (u64*)(&(*a2).f1);
  v24 = *v23;
  v25 = (v24 != ((u64)0ULL));
  v26 = (struct S64_union_anon*)(&(*v2).f2);
  v27 = (struct S64_union_anon**)&(*v2).f0.f0;
  *v27 = v26;
  v28 = (u8**)(&(*a2).f0.f0);
  v29 = *v28;
  v30 = (u8*)v0;
  *v0 = v24;
  v31 = (v24 > ((u64)15ULL));
  if (v31) {
    goto L7;
  } else {
    goto L9;
  }
L7: ;
  v32 = _ZNSt7__cxx1112basic_stringIcSt11char_traitsIcESaIcEE9_M_createERmm(v2, v0, ((u64)0ULL));
  if (v_exc) {
    goto L15;
  }
  goto L8;
L8: ;
  v33 = (u8**)(&(*v2).f0.f0);
  *v33 = v32;
  v34 = *v0;
  v35 = (u64*)(&(*v2).f2.f0.e[0]);
  *v35 = v34;
  goto L9;
L9: ;
  v36 = (u8**)(&(*v2).f0.f0);
  v37 = *v36;
  switch (v24) {
  case ((u64)1ULL): {
    goto L10;
  }
  case ((u64)0ULL): {
    goto L12;
  }
  default: {
    goto L11;
  }
  }
L10: ;
  v38 = *v29;
  *v37 = v38;
  goto L12;
L11: ;
  v_memcpy((u8*)v37, (u8*)v29, (u64)v24);
  goto L12;
L12: ;
  v39 = *v0;
  v40 = (u64*)(&(*v2).f1);
  *v40 = v39;
  v41 = *v36;
  v42 = (u8*)(v41 + (s64)((s64)v39));
  *v42 = ((u8)0ULL);
  _ZNK14OpenVolumeMesh15ResourceManager24internal_create_propertyIbNS_6Entity4FaceEEENS_11PropertyPtrIT_T0_EENSt7__cxx1112basic_stringIcSt11char_traitsIcESaIcEEERKS5_b(a0, a1, v2, a3, v25);
  if (v_exc) {
    goto L16;
  }
  goto L13;
L13: ;
  v43 = *v36;
  v44 = (u8*)v26;
  v45 = ((u8*)v43 == (u8*)v44);
  if (v45) {
    goto L19;
  } else {
    goto L14;
  }
L14: ;
  _ZdlPv(v43);
  goto L19;
L15: ;
  v46.f0 = v_exc_obj;
  v46.f1 = 0;
  v_exc = 0;
  v51 = v46;
  goto L18;
L16: ;
  v47.f0 = v_exc_obj;
  v47.f1 = 0;
  v_exc = 0;
  v48 = *v36;
  v49 = (u8*)v26;
  v50 = ((u8*)v48 == (u8*)v49);
  if (v50) {
    v51 = v47;
    goto L18;
  } else {
    goto L17;
  }
L17: ;
  _ZdlPv(v48);
  v51 = v47;
  goto L18;
L18: ;
  v52 = (struct S59_struct_std___Optional_base_185*)(&(*v1).f0);
  _ZNSt14_Optional_baseIN14OpenVolumeMesh11PropertyPtrIbNS0_6Entity4FaceEEELb0ELb0EED2Ev(v52);
  v_exc = 1; return;
L19: ;
  v53 = (u8*)(&(*v1).f0.f0.f0.f0.f1);
  v54 = *v53;
  v55 = (v54 == ((u8)0ULL));
  if (v55) {
    goto L28;
  } else {
    goto L20;
  }
L20: ;
  *v53 = ((u8)0ULL);
  v56 = (fnptr_t**)(&(*v1).f0.f0.f0.f0.f0.f0.f0.f0.f0);
  *v56 = ((fnptr_t*)((u8**)(&(*(&_ZTVN14OpenVolumeMesh18PropertyStoragePtrIbEE)).f0.e[(s64)((s64)((u64)2ULL))])));
  v57 = (struct S20_class_std___Sp_counted_base**)(&(*v1).f0.f0.f0.f0.f0.f0.f0.f0.f1.f0.f1.f0);
  v58 = *v57;
  v59 = ((u8*)v58 == (u8*)((struct S20_class_std___Sp_counted_base*)0));
  if (v59) {
    goto L28;
  } else {
    goto L21;
  }
L21: ;
  v60 = (u32*)(&(*v58).f1);
  v61 = (u64*)v60;
  v62 = (((u64)(*v58).f1 << 0) | ((u64)(*v58).f2 << 32));
  v63 = (v62 == ((u64)4294967297ULL));
  if (v63) {
    goto L22;
  } else {
    goto L23;
  }
L22: ;
  *v60 = ((u32)0ULL);
  v64 = (u32*)(&(*v58).f2);
  *v64 = ((u32)0ULL);
  v65 = (fnptr_t**)&(*v58).f0;
  v66 = *v65;
  v67 = (fnptr_t*)(v66 + (s64)((s64)((u64)2ULL)));
  v68 = *v67;
  ((FT1)v68)(v58);
  v69 = *v65;
  v70 = (fnptr_t*)(v69 + (s64)((s64)((u64)3ULL)));
  v71 = *v70;
  ((FT1)v71)(v58);
  goto L28;
L23: ;
  v72 = *(&__libc_single_threaded);
  v73 = (v72 == ((u8)0ULL));
  if (v73) {
    goto L25;
  } else {
    goto L24;
  }
L24: ;
  v74 = *v60;
  v75 = ((u32)(v74 + ((u32)4294967295ULL)));
  *v60 = v75;
  v78 = v74;
  goto L26;
L25: ;
  v76 = *v60;
  v77 = ((u32)(v76 + ((u32)4294967295ULL)));
  *v60 = v77;
  v78 = v76;
  goto L26;
L26: ;
  v79 = (v78 == ((u32)1ULL));
  if (v79) {
    goto L27;
  } else {
    goto L28;
  }
L27: ;
  _ZNSt16_Sp_counted_baseILN9__gnu_cxx12_Lock_policyE2EE24_M_release_last_use_coldEv(v58);
  goto L28;
L28: ;
  return;
}

void _ZN14OpenVolumeMesh15ResourceManager14set_persistentIbNS_6Entity4FaceEEEvRNS_11PropertyPtrIT_T0_EEb(struct S53_class_OpenVolumeMesh__ResourceManager* a0, struct S31_class_OpenVolumeMesh__PropertyPtr_86* a1, u1 a2) {
  struct S25_class_std__weak_ptr* v0; struct S25_class_std__weak_ptr v0_m;
  struct S12_class_OpenVolumeMesh__PropertyStorageT** v1;
  struct S22_class_OpenVolumeMesh__PropertyStorageBas** v2;
  struct S22_class_OpenVolumeMesh__PropertyStorageBas* v3;
  u8* v4;
  u8 v5;
  u1 v6;
  u1 v7;
  u8* v8;
  struct S56_class_std__shared_ptr_65* v9;
  struct S22_class_OpenVolumeMesh__PropertyStorageBas** v10;
  struct S22_class_OpenVolumeMesh__PropertyStorageBas* v11;
  struct S22_class_OpenVolumeMesh__PropertyStorageBas** v12;
  struct S20_class_std___Sp_counted_base** v13;
  struct S20_class_std___Sp_counted_base** v14;
  struct S20_class_std___Sp_counted_base* v15;
  u1 v16;
  u32* v17;
  u8 v18;
  u1 v19;
  u32 v20;
  u32 v21;
  u32 v22;
  u32 v23;
  struct S22_class_OpenVolumeMesh__PropertyStorageBas* v24;
  u8* v25;
  u8 v26;
  u1 v27;
  u8* v28;
  struct S29_class_std__runtime_error* v29;
  struct S65 v30;
  struct S65 v31;
  struct S16_class_std___Rb_tree_5* v32;
  struct S36 v33;
  struct S43_class_std__map* v34;
  u8* v35;
  u8* v36;
  struct S41_struct_std___Rb_tree_node_31** v37;
  u8* v38;
  struct S17_struct_std___Rb_tree_node_base* v39;
  struct S41_struct_std___Rb_tree_node_31* v40;
  u1 v41;
  struct S22_class_OpenVolumeMesh__PropertyStorageBas* v42;
  struct S41_struct_std___Rb_tree_node_31* v43; struct S41_struct_std___Rb_tree_node_31* v43_t;
  struct S17_struct_std___Rb_tree_node_base* v44; struct S17_struct_std___Rb_tree_node_base* v44_t;
  struct S72_struct___gnu_cxx____aligned_membuf_32* v45;
  struct S22_class_OpenVolumeMesh__PropertyStorageBas** v46;
  struct S22_class_OpenVolumeMesh__PropertyStorageBas* v47;
  u1 v48;
  struct S17_struct_std___Rb_tree_node_base** v49;
  u1 v50;
  struct S17_struct_std___Rb_tree_node_base* v51;
  struct S17_struct_std___Rb_tree_node_base** v52;
  struct S41_struct_std___Rb_tree_node_31** v53;
  struct S41_struct_std___Rb_tree_node_31* v54;
  struct S17_struct_std___Rb_tree_node_base** v55;
  struct S41_struct_std___Rb_tree_node_31** v56;
  struct S41_struct_std___Rb_tree_node_31* v57;
  u1 v58;
  struct S41_struct_std___Rb_tree_node_31* v59; struct S41_struct_std___Rb_tree_node_31* v59_t;
  struct S17_struct_std___Rb_tree_node_base* v60; struct S17_struct_std___Rb_tree_node_base* v60_t;
  struct S72_struct___gnu_cxx____aligned_membuf_32* v61;
  struct S22_class_OpenVolumeMesh__PropertyStorageBas** v62;
  struct S22_class_OpenVolumeMesh__PropertyStorageBas* v63;
  u1 v64;
  struct S17_struct_std___Rb_tree_node_base** v65;
  struct S17_struct_std___Rb_tree_node_base* v66;
  struct S17_struct_std___Rb_tree_node_base** v67;
  struct S17_struct_std___Rb_tree_node_base* v68;
  struct S17_struct_std___Rb_tree_node_base** v69;
  struct S41_struct_std___Rb_tree_node_31** v70;
  struct S41_struct_std___Rb_tree_node_31* v71;
  u1 v72;
  struct S17_struct_std___Rb_tree_node_base* v73; struct S17_struct_std___Rb_tree_node_base* v73_t;
  u1 v74;
  struct S41_struct_std___Rb_tree_node_31* v75; struct S41_struct_std___Rb_tree_node_31* v75_t;
  struct S17_struct_std___Rb_tree_node_base* v76; struct S17_struct_std___Rb_tree_node_base* v76_t;
  struct S72_struct___gnu_cxx____aligned_membuf_32* v77;
  struct S22_class_OpenVolumeMesh__PropertyStorageBas** v78;
  struct S22_class_OpenVolumeMesh__PropertyStorageBas* v79;
  u1 v80;
  struct S17_struct_std___Rb_tree_node_base* v81;
  struct S17_struct_std___Rb_tree_node_base** v82;
  struct S17_struct_std___Rb_tree_node_base** v83;
  struct S17_struct_std___Rb_tree_node_base* v84;
  struct S17_struct_std___Rb_tree_node_base** v85;
  struct S41_struct_std___Rb_tree_node_31** v86;
  struct S41_struct_std___Rb_tree_node_31* v87;
  u1 v88;
  struct S17_struct_std___Rb_tree_node_base* v89; struct S17_struct_std___Rb_tree_node_base* v89_t;
  struct S17_struct_std___Rb_tree_node_base** v90; struct S17_struct_std___Rb_tree_node_base** v90_t;
  struct S41_struct_std___Rb_tree_node_31** v91;
  struct S41_struct_std___Rb_tree_node_31* v92;
  u1 v93;
  struct S17_struct_std___Rb_tree_node_base* v94; struct S17_struct_std___Rb_tree_node_base* v94_t;
  struct S17_struct_std___Rb_tree_node_base* v95; struct S17_struct_std___Rb_tree_node_base* v95_t;
  struct S16_class_std___Rb_tree_5* v96;
  struct S22_class_OpenVolumeMesh__PropertyStorageBas** v97;
  struct S22_class_OpenVolumeMesh__PropertyStorageBas* v98;
  u8 v99;
  u8* v100;
  struct S20_class_std___Sp_counted_base** v101;
  struct S20_class_std___Sp_counted_base* v102;
  u1 v103;
  u32* v104;
  u64* v105;
  u64 v106;
  u1 v107;
  u32* v108;
  fnptr_t** v109;
  fnptr_t* v110;
  fnptr_t* v111;
  fnptr_t v112;
  fnptr_t* v113;
  fnptr_t* v114;
  fnptr_t v115;
  u8 v116;
  u1 v117;
  u32 v118;
  u32 v119;
  u32 v120;
  u32 v121;
  u32 v122; u32 v122_t;
  u1 v123;
  struct S65 v124; struct S65 v124_t;
  struct S40_class_std____weak_ptr* v125;
L0: ;
  v0 = &v0_m;
  v1 = (struct S12_class_OpenVolumeMesh__PropertyStorageT**)(&(*a1).f0.f0.f1.f0.f0);
  v2 = (struct S22_class_OpenVolumeMesh__PropertyStorageBas**)&(*a1).f0.f0.f1.f0.f0;
  v3 = *v2;
  v4 = (u8*)(&(*v3).f5);
  v5 = *v4;
  v6 = (v5 != ((u8)0ULL));
  v7 = ((u1)((v6 ^ a2)&1));
  if (v7) {
    goto L1;
  } else {
    goto L32;
  }
L1: ;
  v8 = (u8*)v0;
  v9 = (struct S56_class_std__shared_ptr_65*)(&(*a1).f0.f0.f1);
  v10 = (struct S22_class_OpenVolumeMesh__PropertyStorageBas**)&(*a1).f0.f0.f1.f0.f0;
  v11 = *v10;
  v12 = (struct S22_class_OpenVolumeMesh__PropertyStorageBas**)(&(*v0).f0.f0);
  *v12 = v11;
  v13 = (struct S20_class_std___Sp_counted_base**)(&(*v0).f0.f1.f0);
  v14 = (struct S20_class_std___Sp_counted_base**)(&(*a1).f0.f0.f1.f0.f1.f0);
  v15 = *v14;
  *v13 = v15;
  v16 = ((u8*)v15 == (u8*)((struct S20_class_std___Sp_counted_base*)0));
  if (v16) {
    goto L5;
  } else {
    goto L2;
  }
L2: ;
  v17 = (u32*)(&(*v15).f1);
  v18 = *(&__libc_single_threaded);
  v19 = (v18 == ((u8)0ULL));
  if (v19) {
    goto L4;
  } else {
    goto L3;
  }
L3: ;
  v20 = *v17;
  v21 = ((u32)(v20 + ((u32)1ULL)));
  *v17 = v21;
  goto L5;
L4: ;
  v22 = *v17;
  v23 = ((u32)(v22 + ((u32)1ULL)));
  *v17 = v23;
  goto L5;
L5: ;
  if (a2) {
    goto L6;
  } else {
    goto L12;
  }
L6: ;
  v24 = *v2;
  v25 = (u8*)(&(*v24).f6);
  v26 = *v25;
  v27 = (v26 == ((u8)0ULL));
  if (v27) {
    goto L7;
  } else {
    goto L11;
  }
L7: ;
  v28 = __cxa_allocate_exception(((u64)16ULL));
  v29 = (struct S29_class_std__runtime_error*)v28;
  _ZNSt13runtime_errorC1EPKc(v29, ((u8*)(&(*(&_str_38)).e[(s64)((s64)((u64)0ULL))])));
  if (v_exc) {
    goto L9;
  }
  goto L8;
L8: ;
  __cxa_throw(v28, ((u8*)(&_ZTISt13runtime_error)), ((u8*)((fnptr_t)_ZNSt13runtime_errorD1Ev)));
  if (v_exc) {
    goto L10;
  }
  goto L34;
L9: ;
  v30.f0 = v_exc_obj;
  v30.f1 = 0;
  v_exc = 0;
  __cxa_free_exception(v28);
  v124 = v30;
  goto L33;
L10: ;
  v31.f0 = v_exc_obj;
  v31.f1 = 0;
  v_exc = 0;
  v124 = v31;
  goto L33;
L11: ;
  v32 = (struct S16_class_std___Rb_tree_5*)(&(*a0).f1.f0.f0.e[(s64)((s64)((u64)3ULL))].f0);
  v33 = _ZNSt8_Rb_treeISt10shared_ptrIN14OpenVolumeMesh19PropertyStorageBaseEES3_St9_IdentityIS3_ESt4lessIS3_ESaIS3_EE16_M_insert_uniqueIRKS3_EESt4pairISt17_Rb_tree_iteratorIS3_EbEOT_(v32, v0);
  if (v_exc) {
    goto L10;
  }
  goto L23;
L12: ;
  v34 = (struct S43_class_std__map*)(&(*a0).f1.f0.f0.e[(s64)((s64)((u64)3ULL))]);
  v35 = (u8*)(&(*v34).f0.f0.f0.f0.f0);
  v36 = (u8*)&(*a0).f1.f0.f0.e[3].f0.f0.f1.f0.f1;
  v37 = (struct S41_struct_std___Rb_tree_node_31**)&(*a0).f1.f0.f0.e[3].f0.f0.f1.f0.f1;
  v38 = (u8*)&(*a0).f1.f0.f0.e[3].f0.f0.f1.f0.f0;
  v39 = (struct S17_struct_std___Rb_tree_node_base*)&(*a0).f1.f0.f0.e[3].f0.f0.f1.f0;
  v40 = *v37;
  v41 = ((u8*)v40 == (u8*)((struct S41_struct_std___Rb_tree_node_31*)0));
  if (v41) {
    v94_t = v39;
    v95_t = v39;
    v94 = v94_t;
    v95 = v95_t;
    goto L22;
  } else {
    goto L13;
  }
L13: ;
  v42 = *v12;
  v43_t = v40;
  v44_t = v39;
  v43 = v43_t;
  v44 = v44_t;
  goto L14;
L14: ;
  v45 = (struct S72_struct___gnu_cxx____aligned_membuf_32*)(&(*v43).f1);
  v46 = (struct S22_class_OpenVolumeMesh__PropertyStorageBas**)v45;
  v47 = *v46;
  v48 = v_plt((u8*)v47, (u8*)v42);
  if (v48) {
    goto L15;
  } else {
    goto L16;
  }
L15: ;
  v49 = (struct S17_struct_std___Rb_tree_node_base**)(&(*v43).f0.f3);
  v89_t = v44;
  v90_t = v49;
  v89 = v89_t;
  v90 = v90_t;
  goto L21;
L16: ;
  v50 = v_plt((u8*)v42, (u8*)v47);
  v51 = (struct S17_struct_std___Rb_tree_node_base*)(&(*v43).f0);
  v52 = (struct S17_struct_std___Rb_tree_node_base**)(&(*v43).f0.f2);
  if (v50) {
    v89_t = v51;
    v90_t = v52;
    v89 = v89_t;
    v90 = v90_t;
    goto L21;
  } else {
    goto L17;
  }
L17: ;
  v53 = (struct S41_struct_std___Rb_tree_node_31**)&(*v43).f0.f2;
  v54 = *v53;
  v55 = (struct S17_struct_std___Rb_tree_node_base**)(&(*v43).f0.f3);
  v56 = (struct S41_struct_std___Rb_tree_node_31**)&(*v43).f0.f3;
  v57 = *v56;
  v58 = ((u8*)v54 == (u8*)((struct S41_struct_std___Rb_tree_node_31*)0));
  if (v58) {
    v73 = v51;
    goto L19;
  } else {
    v59_t = v54;
    v60_t = v51;
    v59 = v59_t;
    v60 = v60_t;
    goto L18;
  }
L18: ;
  v61 = (struct S72_struct___gnu_cxx____aligned_membuf_32*)(&(*v59).f1);
  v62 = (struct S22_class_OpenVolumeMesh__PropertyStorageBas**)v61;
  v63 = *v62;
  v64 = v_plt((u8*)v63, (u8*)v42);
  v65 = (struct S17_struct_std___Rb_tree_node_base**)(&(*v59).f0.f3);
  v66 = (struct S17_struct_std___Rb_tree_node_base*)(&(*v59).f0);
  v67 = (struct S17_struct_std___Rb_tree_node_base**)(&(*v59).f0.f2);
  v68 = (v64 ? v60 : v66);
  v69 = (v64 ? v65 : v67);
  v70 = (struct S41_struct_std___Rb_tree_node_31**)v69;
  v71 = *v70;
  v72 = ((u8*)v71 == (u8*)((struct S41_struct_std___Rb_tree_node_31*)0));
  if (v72) {
    v73 = v68;
    goto L19;
  } else {
    v59_t = v71;
    v60_t = v68;
    v59 = v59_t;
    v60 = v60_t;
    goto L18;
  }
L19: ;
  v74 = ((u8*)v57 == (u8*)((struct S41_struct_std___Rb_tree_node_31*)0));
  if (v74) {
    v94_t = v73;
    v95_t = v44;
    v94 = v94_t;
    v95 = v95_t;
    goto L22;
  } else {
    v75_t = v57;
    v76_t = v44;
    v75 = v75_t;
    v76 = v76_t;
    goto L20;
  }
L20: ;
  v77 = (struct S72_struct___gnu_cxx____aligned_membuf_32*)(&(*v75).f1);
  v78 = (struct S22_class_OpenVolumeMesh__PropertyStorageBas**)v77;
  v79 = *v78;
  v80 = v_plt((u8*)v42, (u8*)v79);
  v81 = (struct S17_struct_std___Rb_tree_node_base*)(&(*v75).f0);
  v82 = (struct S17_struct_std___Rb_tree_node_base**)(&(*v75).f0.f2);
  v83 = (struct S17_struct_std___Rb_tree_node_base**)(&(*v75).f0.f3);
  v84 = (v80 ? v81 : v76);
  v85 = (v80 ? v82 : v83);
  v86 = (struct S41_struct_std___Rb_tree_node_31**)v85;
  v87 = *v86;
  v88 = ((u8*)v87 == (u8*)((struct S41_struct_std___Rb_tree_node_31*)0));
  if (v88) {
    v94_t = v73;
    v95_t = v84;
    v94 = v94_t;
    v95 = v95_t;
    goto L22;
  } else {
    v75_t = v87;
    v76_t = v84;
    v75 = v75_t;
    v76 = v76_t;
    goto L20;
  }
L21: ;
  v91 = (struct S41_struct_std___Rb_tree_node_31**)v90;
  v92 = *v91;
  v93 = ((u8*)v92 == (u8*)((struct S41_struct_std___Rb_tree_node_31*)0));
  if (v93) {
    v94_t = v89;
    v95_t = v89;
    v94 = v94_t;
    v95 = v95_t;
    goto L22;
  } else {
    v43_t = v92;
    v44_t = v89;
    v43 = v43_t;
    v44 = v44_t;
    goto L14;
  }
L22: ;
  v96 = (struct S16_class_std___Rb_tree_5*)(&(*v34).f0);
  _ZNSt8_Rb_treeISt10shared_ptrIN14OpenVolumeMesh19PropertyStorageBaseEES3_St9_IdentityIS3_ESt4lessIS3_ESaIS3_EE12_M_erase_auxESt23_Rb_tree_const_iteratorIS3_ESB_(v96, v94, v95);
  if (v_exc) {
    goto L10;
  }
  goto L23;
L23: ;
  v97 = (struct S22_class_OpenVolumeMesh__PropertyStorageBas**)(&(*v0).f0.f0);
  v98 = *v97;
  v99 = ((u8)(a2));
  v100 = (u8*)(&(*v98).f5);
  *v100 = v99;
  v101 = (struct S20_class_std___Sp_counted_base**)(&(*v0).f0.f1.f0);
  v102 = *v101;
  v103 = ((u8*)v102 == (u8*)((struct S20_class_std___Sp_counted_base*)0));
  if (v103) {
    goto L31;
  } else {
    goto L24;
  }
L24: ;
  v104 = (u32*)(&(*v102).f1);
  v105 = (u64*)v104;
  v106 = (((u64)(*v102).f1 << 0) | ((u64)(*v102).f2 << 32));
  v107 = (v106 == ((u64)4294967297ULL));
  if (v107) {
    goto L25;
  } else {
    goto L26;
  }
L25: ;
  *v104 = ((u32)0ULL);
  v108 = (u32*)(&(*v102).f2);
  *v108 = ((u32)0ULL);
  v109 = (fnptr_t**)&(*v102).f0;
  v110 = *v109;
  v111 = (fnptr_t*)(v110 + (s64)((s64)((u64)2ULL)));
  v112 = *v111;
  ((FT1)v112)(v102);
  v113 = *v109;
  v114 = (fnptr_t*)(v113 + (s64)((s64)((u64)3ULL)));
  v115 = *v114;
  ((FT1)v115)(v102);
  goto L31;
L26: ;
  v116 = *(&__libc_single_threaded);
  v117 = (v116 == ((u8)0ULL));
  if (v117) {
    goto L28;
  } else {
    goto L27;
  }
L27: ;
  v118 = *v104;
  v119 = ((u32)(v118 + ((u32)4294967295ULL)));
  *v104 = v119;
  v122 = v118;
  goto L29;
L28: ;
  v120 = *v104;
  v121 = ((u32)(v120 + ((u32)4294967295ULL)));
  *v104 = v121;
  v122 = v120;
  goto L29;
L29: ;
  v123 = (v122 == ((u32)1ULL));
  if (v123) {
    goto L30;
  } else {
    goto L31;
  }
L30: ;
  _ZNSt16_Sp_counted_baseILN9__gnu_cxx12_Lock_policyE2EE24_M_release_last_use_coldEv(v102);
  goto L31;
L31: ;
  goto L32;
L32: ;
  return;
L33: ;
  v125 = (struct S40_class_std____weak_ptr*)(&(*v0).f0);
  _ZNSt12__shared_ptrIN14OpenVolumeMesh19PropertyStorageBaseELN9__gnu_cxx12_Lock_policyE2EED2Ev(v125);
  v_exc = 1; return;
L34: ;
  __CPROVER_assume(0);
}

void _ZNK14OpenVolumeMesh15ResourceManager22internal_find_propertyIbNS_6Entity4FaceEEESt8optionalINS_11PropertyPtrIT_T0_EEERKNSt7__cxx1112basic_stringIcSt11char_traitsIcESaIcEEE(struct S58_class_std__optional_184* a0, struct S53_class_OpenVolumeMesh__ResourceManager* a1, struct S14_class_std____cxx11__basic_string* a2) {
  struct S14_class_std____cxx11__basic_string* v0; struct S14_class_std____cxx11__basic_string v0_m;
  struct S31_class_OpenVolumeMesh__PropertyPtr_86* v1; struct S31_class_OpenVolumeMesh__PropertyPtr_86 v1_m;
  u64* v2;
  u64 v3;
  u1 v4;
  u8* v5;
  u8* v6;
  u8* v7;
  u8* v8;
  struct S17_struct_std___Rb_tree_node_base** v9;
  struct S17_struct_std___Rb_tree_node_base* v10;
  u8* v11;
  struct S17_struct_std___Rb_tree_node_base* v12;
  u1 v13;
  u64 v14;
  u8** v15;
  u8* v16;
  u64* v17;
  u64 v18;
  u8** v19;
  u8* v20;
  struct S17_struct_std___Rb_tree_node_base* v21; struct S17_struct_std___Rb_tree_node_base* v21_t;
  struct S17_struct_std___Rb_tree_node_base* v22;
  struct S22_class_OpenVolumeMesh__PropertyStorageBas** v23;
  struct S22_class_OpenVolumeMesh__PropertyStorageBas* v24;
  u8* v25;
  u8 v26;
  u1 v27;
  u64* v28;
  u64 v29;
  u1 v30;
  u1 v31;
  u8** v32;
  u8* v33;
  u32 v34;
  u1 v35;
  u64* v36;
  u64 v37;
  u1 v38;
  u1 v39;
  u8** v40;
  u8* v41;
  u32 v42;
  u1 v43;
  u8* v44;
  fnptr_t** v45;
  struct S12_class_OpenVolumeMesh__PropertyStorageT** v46;
  struct S12_class_OpenVolumeMesh__PropertyStorageT** v47;
  struct S12_class_OpenVolumeMesh__PropertyStorageT* v48;
  struct S20_class_std___Sp_counted_base** v49;
  struct S20_class_std___Sp_counted_base** v50;
  struct S20_class_std___Sp_counted_base* v51;
  u1 v52;
  u32* v53;
  u8 v54;
  u1 v55;
  u32 v56;
  u32 v57;
  u32 v58;
  u32 v59;
  fnptr_t** v60;
  u8* v61;
  fnptr_t** v62;
  struct S20_class_std___Sp_counted_base* v63;
  u1 v64;
  u32* v65;
  u64* v66;
  u64 v67;
  u1 v68;
  u32* v69;
  fnptr_t** v70;
  fnptr_t* v71;
  fnptr_t* v72;
  fnptr_t v73;
  fnptr_t* v74;
  fnptr_t* v75;
  fnptr_t v76;
  u8 v77;
  u1 v78;
  u32 v79;
  u32 v80;
  u32 v81;
  u32 v82;
  u32 v83; u32 v83_t;
  u1 v84;
  struct S65 v85;
  u8** v86;
  u8* v87;
  struct S64_union_anon* v88;
  u8* v89;
  u1 v90;
  struct S17_struct_std___Rb_tree_node_base* v91;
  u1 v92;
  u8* v93;
  u8** v94;
  u8* v95;
  struct S64_union_anon* v96;
  u8* v97;
  u1 v98;
L0: ;
  v0 = &v0_m;
  v1 = &v1_m;
  v2 = (u64*)(&(*a2).f1);
  v3 = *v2;
  v4 = (v3 == ((u64)0ULL));
  if (v4) {
    goto L1;
  } else {
    goto L2;
  }
L1: ;
  v5 = (u8*)(&(*a0).f0.f0.f0.f0.f1);
  *v5 = ((u8)0ULL);
  goto L33;
L2: ;
  v6 = (u8*)v0;
  _ZN14OpenVolumeMesh6detail18internal_type_nameB5cxx11ERKSt9type_info(v0, ((struct S39_class_std__type_info*)(&_ZTIb)));
  if (v_exc) return;
  v7 = (u8*)(&(*a1).f2.f0.f0.e[(s64)((s64)((u64)3ULL))].f1.f0.f0.f0.f0.f0);
  v8 = (u8*)&(*a1).f2.f0.f0.e[3].f1.f0.f0.f1.f0.f2;
  v9 = (struct S17_struct_std___Rb_tree_node_base**)&(*a1).f2.f0.f0.e[3].f1.f0.f0.f1.f0.f2;
  v10 = *v9;
  v11 = (u8*)&(*a1).f2.f0.f0.e[3].f1.f0.f0.f1.f0.f0;
  v12 = (struct S17_struct_std___Rb_tree_node_base*)&(*a1).f2.f0.f0.e[3].f1.f0.f0.f1.f0;
  v13 = ((u8*)v10 == (u8*)v12);
  if (v13) {
    goto L29;
  } else {
    goto L3;
  }
L3: ;
  v14 = *v2;
  v15 = (u8**)(&(*a2).f0.f0);
  v16 = *v15;
  v17 = (u64*)(&(*v0).f1);
  v18 = *v17;
  v19 = (u8**)(&(*v0).f0.f0);
  v20 = *v19;
  v21 = v10;
  goto L4;
L4: ;
  v22 = (struct S17_struct_std___Rb_tree_node_base*)(v21 + (s64)((s64)((u64)1ULL)));
  v23 = (struct S22_class_OpenVolumeMesh__PropertyStorageBas**)v22;
  v24 = *v23;
  v25 = (u8*)(&(*v24).f6);
  v26 = *v25;
  v27 = (v26 == ((u8)0ULL));
  if (v27) {
    goto L26;
  } else {
    goto L5;
  }
L5: ;
  v28 = (u64*)(&(*v24).f2.f1);
  v29 = *v28;
  v30 = (v29 == v14);
  if (v30) {
    goto L6;
  } else {
    goto L26;
  }
L6: ;
  v31 = (v29 == ((u64)0ULL));
  if (v31) {
    goto L8;
  } else {
    goto L7;
  }
L7: ;
  v32 = (u8**)(&(*v24).f2.f0.f0);
  v33 = *v32;
  v34 = bcmp(v33, v16, v29);
  v35 = (v34 == ((u32)0ULL));
  if (v35) {
    goto L8;
  } else {
    goto L26;
  }
L8: ;
  v36 = (u64*)(&(*v24).f3.f1);
  v37 = *v36;
  v38 = (v37 == v18);
  if (v38) {
    goto L9;
  } else {
    goto L26;
  }
L9: ;
  v39 = (v37 == ((u64)0ULL));
  if (v39) {
    goto L11;
  } else {
    goto L10;
  }
L10: ;
  v40 = (u8**)(&(*v24).f3.f0.f0);
  v41 = *v40;
  v42 = bcmp(v41, v20, v37);
  v43 = (v42 == ((u32)0ULL));
  if (v43) {
    goto L11;
  } else {
    goto L26;
  }
L11: ;
  v44 = (u8*)v1;
  _ZN14OpenVolumeMesh15ResourceManager21prop_ptr_from_storageIbNS_6Entity4FaceEEENS_11PropertyPtrIT_T0_EEPNS_19PropertyStorageBaseE(v1, v24);
  if (v_exc) {
    goto L25;
  }
  goto L12;
L12: ;
  v45 = (fnptr_t**)(&(*a0).f0.f0.f0.f0.f0.f0.f0.f0.f0);
  *v45 = ((fnptr_t*)((u8**)(&(*(&_ZTVN14OpenVolumeMesh18PropertyStoragePtrIbEE)).f0.e[(s64)((s64)((u64)2ULL))])));
  v46 = (struct S12_class_OpenVolumeMesh__PropertyStorageT**)(&(*a0).f0.f0.f0.f0.f0.f0.f0.f0.f1.f0.f0);
  v47 = (struct S12_class_OpenVolumeMesh__PropertyStorageT**)(&(*v1).f0.f0.f1.f0.f0);
  v48 = *v47;
  *v46 = v48;
  v49 = (struct S20_class_std___Sp_counted_base**)(&(*a0).f0.f0.f0.f0.f0.f0.f0.f0.f1.f0.f1.f0);
  v50 = (struct S20_class_std___Sp_counted_base**)(&(*v1).f0.f0.f1.f0.f1.f0);
  v51 = *v50;
  *v49 = v51;
  v52 = ((u8*)v51 == (u8*)((struct S20_class_std___Sp_counted_base*)0));
  if (v52) {
    goto L16;
  } else {
    goto L13;
  }
L13: ;
  v53 = (u32*)(&(*v51).f1);
  v54 = *(&__libc_single_threaded);
  v55 = (v54 == ((u8)0ULL));
  if (v55) {
    goto L15;
  } else {
    goto L14;
  }
L14: ;
  v56 = *v53;
  v57 = ((u32)(v56 + ((u32)1ULL)));
  *v53 = v57;
  goto L16;
L15: ;
  v58 = *v53;
  v59 = ((u32)(v58 + ((u32)1ULL)));
  *v53 = v59;
  goto L16;
L16: ;
  *v45 = ((fnptr_t*)((u8**)(&(*(&_ZTVN14OpenVolumeMesh14HandleIndexingINS_6Entity4FaceENS_18PropertyStoragePtrIbEEEE)).f0.e[(s64)((s64)((u64)2ULL))])));
  v60 = (fnptr_t**)(&(*a0).f0.f0.f0.f0.f0.f0.f1.f0);
  *v60 = ((fnptr_t*)((u8**)(&(*(&_ZTVN14OpenVolumeMesh15BasePropertyPtrE)).f0.e[(s64)((s64)((u64)2ULL))])));
  *v45 = ((fnptr_t*)((u8**)(&(*(&_ZTVN14OpenVolumeMesh11PropertyPtrIbNS_6Entity4FaceEEE)).f0.e[(s64)((s64)((u64)2ULL))])));
  *v60 = ((fnptr_t*)((u8**)(&(*(&_ZTVN14OpenVolumeMesh11PropertyPtrIbNS_6Entity4FaceEEE)).f1.e[(s64)((s64)((u64)2ULL))])));
  v61 = (u8*)(&(*a0).f0.f0.f0.f0.f1);
  *v61 = ((u8)1ULL);
  v62 = (fnptr_t**)(&(*v1).f0.f0.f0);
  *v62 = ((fnptr_t*)((u8**)(&(*(&_ZTVN14OpenVolumeMesh18PropertyStoragePtrIbEE)).f0.e[(s64)((s64)((u64)2ULL))])));
  v63 = *v50;
  v64 = ((u8*)v63 == (u8*)((struct S20_class_std___Sp_counted_base*)0));
  if (v64) {
    goto L24;
  } else {
    goto L17;
  }
L17: ;
  v65 = (u32*)(&(*v63).f1);
  v66 = (u64*)v65;
  v67 = (((u64)(*v63).f1 << 0) | ((u64)(*v63).f2 << 32));
  v68 = (v67 == ((u64)4294967297ULL));
  if (v68) {
    goto L18;
  } else {
    goto L19;
  }
L18: ;
  *v65 = ((u32)0ULL);
  v69 = (u32*)(&(*v63).f2);
  *v69 = ((u32)0ULL);
  v70 = (fnptr_t**)&(*v63).f0;
  v71 = *v70;
  v72 = (fnptr_t*)(v71 + (s64)((s64)((u64)2ULL)));
  v73 = *v72;
  ((FT1)v73)(v63);
  v74 = *v70;
  v75 = (fnptr_t*)(v74 + (s64)((s64)((u64)3ULL)));
  v76 = *v75;
  ((FT1)v76)(v63);
  goto L24;
L19: ;
  v77 = *(&__libc_single_threaded);
  v78 = (v77 == ((u8)0ULL));
  if (v78) {
    goto L21;
  } else {
    goto L20;
  }
L20: ;
  v79 = *v65;
  v80 = ((u32)(v79 + ((u32)4294967295ULL)));
  *v65 = v80;
  v83 = v79;
  goto L22;
L21: ;
  v81 = *v65;
  v82 = ((u32)(v81 + ((u32)4294967295ULL)));
  *v65 = v82;
  v83 = v81;
  goto L22;
L22: ;
  v84 = (v83 == ((u32)1ULL));
  if (v84) {
    goto L23;
  } else {
    goto L24;
  }
L23: ;
  _ZNSt16_Sp_counted_baseILN9__gnu_cxx12_Lock_policyE2EE24_M_release_last_use_coldEv(v63);
  goto L24;
L24: ;
  goto L30;
L25: ;
  v85.f0 = v_exc_obj;
  v85.f1 = 0;
  v_exc = 0;
  v86 = (u8**)(&(*v0).f0.f0);
  v87 = *v86;
  v88 = (struct S64_union_anon*)(&(*v0).f2);
  v89 = (u8*)v88;
  v90 = ((u8*)v87 == (u8*)v89);
  if (v90) {
    goto L28;
  } else {
    goto L27;
  }
L26: ;
  v91 = _ZSt18_Rb_tree_incrementPKSt18_Rb_tree_node_base(v21);
  v92 = ((u8*)v91 == (u8*)v12);
  if (v92) {
    goto L29;
  } else {
    v21 = v91;
    goto L4;
  }
L27: ;
  _ZdlPv(v87);
  goto L28;
L28: ;
  v_exc = 1; return;
L29: ;
  v93 = (u8*)(&(*a0).f0.f0.f0.f0.f1);
  *v93 = ((u8)0ULL);
  goto L30;
L30: ;
  v94 = (u8**)(&(*v0).f0.f0);
  v95 = *v94;
  v96 = (struct S64_union_anon*)(&(*v0).f2);
  v97 = (u8*)v96;
  v98 = ((u8*)v95 == (u8*)v97);
  if (v98) {
    goto L32;
  } else {
    goto L31;
  }
L31: ;
  _ZdlPv(v95);
  goto L32;
L32: ;
  goto L33;
L33: ;
  return;
}

void _ZNK14OpenVolumeMesh15ResourceManager24internal_create_propertyIbNS_6Entity4FaceEEENS_11PropertyPtrIT_T0_EENSt7__cxx1112basic_stringIcSt11char_traitsIcESaIcEEERKS5_b(struct S31_class_OpenVolumeMesh__PropertyPtr_86* a0, struct S53_class_OpenVolumeMesh__ResourceManager* a1, struct S14_class_std____cxx11__basic_string* a2, u8* a3, u1 a4) {
  struct S0_class_std__ios_base__Init* v0; struct S0_class_std__ios_base__Init v0_m;
  u8* v1; u8 v1_m;
  struct S56_class_std__shared_ptr_65* v2; struct S56_class_std__shared_ptr_65 v2_m;
  struct S13_class_OpenVolumeMesh__detail__Tracker** v3; struct S13_class_OpenVolumeMesh__detail__Tracker* v3_m;
  u8* v4; u8 v4_m;
  u8 v5;
  u8* v6;
  u8* v7;
  struct S13_class_OpenVolumeMesh__detail__Tracker* v8;
  u8* v9;
  struct S30_class_std____shared_ptr_66* v10;
  struct S12_class_OpenVolumeMesh__PropertyStorageT** v11;
  struct S12_class_OpenVolumeMesh__PropertyStorageT* v12;
  u64 v13;
  struct S15_class_std__vector_46* v14;
  u64** v15;
  u64* v16;
  u32* v17;
  u32 v18;
  u64** v19;
  u64* v20;
  u64 v21;
  u64 v22;
  u64 v23;
  u64 v24;
  u64 v25;
  u64 v26;
  u1 v27;
  u64 v28;
  u64* v29;
  u64 v30;
  u1 v31;
  u64 v32;
  u64 v33;
  u64* v34;
  u64 v35;
  u32 v36;
  u8* v37;
  u8 v38;
  u1 v39;
  u64 v40;
  struct S12_class_OpenVolumeMesh__PropertyStorageT** v41;
  struct S12_class_OpenVolumeMesh__PropertyStorageT* v42;
  struct S20_class_std___Sp_counted_base** v43;
  struct S20_class_std___Sp_counted_base* v44;
  fnptr_t** v45;
  u8* v46;
  struct S12_class_OpenVolumeMesh__PropertyStorageT** v47;
  struct S20_class_std___Sp_counted_base** v48;
  fnptr_t** v49;
  struct S20_class_std___Sp_counted_base** v50;
  struct S20_class_std___Sp_counted_base* v51;
  u1 v52;
  u32* v53;
  u64* v54;
  u64 v55;
  u1 v56;
  u32* v57;
  fnptr_t** v58;
  fnptr_t* v59;
  fnptr_t* v60;
  fnptr_t v61;
  fnptr_t* v62;
  fnptr_t* v63;
  fnptr_t v64;
  u8 v65;
  u1 v66;
  u32 v67;
  u32 v68;
  u32 v69;
  u32 v70;
  u32 v71; u32 v71_t;
  u1 v72;
  struct S65 v73;
L0: ;
  v0 = &v0_m;
  v1 = &v1_m;
  v2 = &v2_m;
  v3 = &v3_m;
  v4 = &v4_m;
  v5 = ((u8)(a4));
  *v1 = v5;
  v6 = (u8*)v2;
  v7 = (u8*)v3;
  v8 = (struct S13_class_OpenVolumeMesh__detail__Tracker*)(&(*a1).f2.f0.f0.e[(s64)((s64)((u64)3ULL))]);
  *v3 = v8;
  *v4 = ((u8)3ULL);
  v9 = (u8*)(&(*v0).f0);
  v10 = (struct S30_class_std____shared_ptr_66*)(&(*v2).f0);
  _ZNSt12__shared_ptrIN14OpenVolumeMesh16PropertyStorageTIbEELN9__gnu_cxx12_Lock_policyE2EEC2ISaIvEJPNS0_6detail7TrackerINS0_19PropertyStorageBaseEEENSt7__cxx1112basic_stringIcSt11char_traitsIcESaIcEEENS0_10EntityTypeERKbRbEEESt20_Sp_alloc_shared_tagIT_EDpOT0_(v10, v0, v3, a2, v4, a3, v1);
  if (v_exc) return;
  v11 = (struct S12_class_OpenVolumeMesh__PropertyStorageT**)(&(*v2).f0.f0);
  v12 = *v11;
  v13 = _ZNK14OpenVolumeMesh15ResourceManager1nINS_6Entity4FaceEEEmv(a1);
  if (v_exc) {
    goto L13;
  }
  goto L1;
L1: ;
  v14 = (struct S15_class_std__vector_46*)(&(*v12).f2);
  v15 = (u64**)(&(*v12).f2.f0.f0.f0.f1.f0.f0);
  v16 = *v15;
  v17 = (u32*)(&(*v12).f2.f0.f0.f0.f1.f0.f1);
  v18 = *v17;
  v19 = (u64**)(&(*v14).f0.f0.f0.f0.f0.f0);
  v20 = *v19;
  v21 = ((u64)((u64)v16));
  v22 = ((u64)((u64)v20));
  v23 = v_pdiff((u8*)v16, (u8*)v20);
  v24 = ((u64)(v23 << ((u64)3ULL)));
  v25 = ((u64)(v18));
  v26 = ((u64)(v24 + v25));
  v27 = (v13 < v26);
  if (v27) {
    goto L2;
  } else {
    goto L3;
  }
L2: ;
  v28 = ((u64)(((s64)v13) / ((s64)((u64)64ULL))));
  v29 = (u64*)(v20 + (s64)((s64)v28));
  v30 = ((u64)(((s64)v13) % ((s64)((u64)64ULL))));
  v31 = (((s64)v30) < ((s64)((u64)0ULL)));
  v32 = ((u64)(v30 + ((u64)64ULL)));
  v33 = ((u64)(((s64)v30) >> ((u64)63ULL)));
  v34 = (u64*)(v29 + (s64)((s64)v33));
  v35 = (v31 ? v32 : v30);
  v36 = ((u32)(v35));
  *v15 = v34;
  *v17 = v36;
  goto L4;
L3: ;
  v37 = (u8*)(&(*v12).f3);
  v38 = *v37;
  v39 = (v38 != ((u8)0ULL));
  v40 = ((u64)(v13 - v26));
  _ZNSt6vectorIbSaIbEE14_M_fill_insertESt13_Bit_iteratormb(v14, v16, v18, v40, v39);
  if (v_exc) {
    goto L13;
  }
  goto L4;
L4: ;
  v41 = (struct S12_class_OpenVolumeMesh__PropertyStorageT**)(&(*v2).f0.f0);
  v42 = *v41;
  v43 = (struct S20_class_std___Sp_counted_base**)(&(*v2).f0.f1.f0);
  v44 = *v43;
  v45 = (fnptr_t**)(&(*a0).f0.f0.f0);
  v46 = (u8*)v2;
  (*v2).f0.f0 = (struct S12_class_OpenVolumeMesh__PropertyStorageT*)0;
  (*v2).f0.f1.f0 = (struct S20_class_std___Sp_counted_base*)0;
  *v45 = ((fnptr_t*)((u8**)(&(*(&_ZTVN14OpenVolumeMesh18PropertyStoragePtrIbEE)).f0.e[(s64)((s64)((u64)2ULL))])));
  v47 = (struct S12_class_OpenVolumeMesh__PropertyStorageT**)(&(*a0).f0.f0.f1.f0.f0);
  *v47 = v42;
  v48 = (struct S20_class_std___Sp_counted_base**)(&(*a0).f0.f0.f1.f0.f1.f0);
  *v48 = v44;
  *v45 = ((fnptr_t*)((u8**)(&(*(&_ZTVN14OpenVolumeMesh14HandleIndexingINS_6Entity4FaceENS_18PropertyStoragePtrIbEEEE)).f0.e[(s64)((s64)((u64)2ULL))])));
  v49 = (fnptr_t**)(&(*a0).f1.f0);
  *v49 = ((fnptr_t*)((u8**)(&(*(&_ZTVN14OpenVolumeMesh15BasePropertyPtrE)).f0.e[(s64)((s64)((u64)2ULL))])));
  *v45 = ((fnptr_t*)((u8**)(&(*(&_ZTVN14OpenVolumeMesh11PropertyPtrIbNS_6Entity4FaceEEE)).f0.e[(s64)((s64)((u64)2ULL))])));
  *v49 = ((fnptr_t*)((u8**)(&(*(&_ZTVN14OpenVolumeMesh11PropertyPtrIbNS_6Entity4FaceEEE)).f1.e[(s64)((s64)((u64)2ULL))])));
  v50 = (struct S20_class_std___Sp_counted_base**)(&(*v2).f0.f1.f0);
  v51 = *v50;
  v52 = ((u8*)v51 == (u8*)((struct S20_class_std___Sp_counted_base*)0));
  if (v52) {
    goto L12;
  } else {
    goto L5;
  }
L5: ;
  v53 = (u32*)(&(*v51).f1);
  v54 = (u64*)v53;
  v55 = (((u64)(*v51).f1 << 0) | ((u64)(*v51).f2 << 32));
  v56 = (v55 == ((u64)4294967297ULL));
  if (v56) {
    goto L6;
  } else {
    goto L7;
  }
L6: ;
  *v53 = ((u32)0ULL);
  v57 = (u32*)(&(*v51).f2);
  *v57 = ((u32)0ULL);
  v58 = (fnptr_t**)&(*v51).f0;
  v59 = *v58;
  v60 = (fnptr_t*)(v59 + (s64)((s64)((u64)2ULL)));
  v61 = *v60;
  ((FT1)v61)(v51);
  v62 = *v58;
  v63 = (fnptr_t*)(v62 + (s64)((s64)((u64)3ULL)));
  v64 = *v63;
  ((FT1)v64)(v51);
  goto L12;
L7: ;
  v65 = *(&__libc_single_threaded);
  v66 = (v65 == ((u8)0ULL));
  if (v66) {
    goto L9;
  } else {
    goto L8;
  }
L8: ;
  v67 = *v53;
  v68 = ((u32)(v67 + ((u32)4294967295ULL)));
  *v53 = v68;
  v71 = v67;
  goto L10;
L9: ;
  v69 = *v53;
  v70 = ((u32)(v69 + ((u32)4294967295ULL)));
  *v53 = v70;
  v71 = v69;
  goto L10;
L10: ;
  v72 = (v71 == ((u32)1ULL));
  if (v72) {
    goto L11;
  } else {
    goto L12;
  }
L11: ;
  _ZNSt16_Sp_counted_baseILN9__gnu_cxx12_Lock_policyE2EE24_M_release_last_use_coldEv(v51);
  goto L12;
L12: ;
  return;
L13: ;
  v73.f0 = v_exc_obj;
  v73.f1 = 0;
  v_exc = 0;
  _ZNSt12__shared_ptrIN14OpenVolumeMesh16PropertyStorageTIbEELN9__gnu_cxx12_Lock_policyE2EED2Ev(v10);
  v_exc = 1; return;
}

void _ZNSt14_Optional_baseIN14OpenVolumeMesh11PropertyPtrIbNS0_6Entity4FaceEEELb0ELb0EED2Ev(struct S59_struct_std___Optional_base_185* a0) {
  u8* v0;
  u8 v1;
  u1 v2;
  fnptr_t** v3;
  struct S20_class_std___Sp_counted_base** v4;
  struct S20_class_std___Sp_counted_base* v5;
  u1 v6;
  u32* v7;
  u64* v8;
  u64 v9;
  u1 v10;
  u32* v11;
  fnptr_t** v12;
  fnptr_t* v13;
  fnptr_t* v14;
  fnptr_t v15;
  fnptr_t* v16;
  fnptr_t* v17;
  fnptr_t v18;
  u8 v19;
  u1 v20;
  u32 v21;
  u32 v22;
  u32 v23;
  u32 v24;
  u32 v25; u32 v25_t;
  u1 v26;
L0: ;
  v0 = (u8*)(&(*a0).f0.f0.f0.f1);
  v1 = *v0;
  v2 = (v1 == ((u8)0ULL));
  if (v2) {
    goto L9;
  } else {
    goto L1;
  }
L1: ;
  *v0 = ((u8)0ULL);
  v3 = (fnptr_t**)(&(*a0).f0.f0.f0.f0.f0.f0.f0.f0);
  *v3 = ((fnptr_t*)((u8**)(&(*(&_ZTVN14OpenVolumeMesh18PropertyStoragePtrIbEE)).f0.e[(s64)((s64)((u64)2ULL))])));
  v4 = (struct S20_class_std___Sp_counted_base**)(&(*a0).f0.f0.f0.f0.f0.f0.f0.f1.f0.f1.f0);
  v5 = *v4;
  v6 = ((u8*)v5 == (u8*)((struct S20_class_std___Sp_counted_base*)0));
  if (v6) {
    goto L9;
  } else {
    goto L2;
  }
L2: ;
  v7 = (u32*)(&(*v5).f1);
  v8 = (u64*)v7;
  v9 = (((u64)(*v5).f1 << 0) | ((u64)(*v5).f2 << 32));
  v10 = (v9 == ((u64)4294967297ULL));
  if (v10) {
    goto L3;
  } else {
    goto L4;
  }
L3: ;
  *v7 = ((u32)0ULL);
  v11 = (u32*)(&(*v5).f2);
  *v11 = ((u32)0ULL);
  v12 = (fnptr_t**)&(*v5).f0;
  v13 = *v12;
  v14 = (fnptr_t*)(v13 + (s64)((s64)((u64)2ULL)));
  v15 = *v14;
  ((FT1)v15)(v5);
  v16 = *v12;
  v17 = (fnptr_t*)(v16 + (s64)((s64)((u64)3ULL)));
  v18 = *v17;
  ((FT1)v18)(v5);
  goto L9;
L4: ;
  v19 = *(&__libc_single_threaded);
  v20 = (v19 == ((u8)0ULL));
  if (v20) {
    goto L6;
  } else {
    goto L5;
  }
L5: ;
  v21 = *v7;
  v22 = ((u32)(v21 + ((u32)4294967295ULL)));
  *v7 = v22;
  v25 = v21;
  goto L7;
L6: ;
  v23 = *v7;
  v24 = ((u32)(v23 + ((u32)4294967295ULL)));
  *v7 = v24;
  v25 = v23;
  goto L7;
L7: ;
  v26 = (v25 == ((u32)1ULL));
  if (v26) {
    goto L8;
  } else {
    goto L9;
  }
L8: ;
  _ZNSt16_Sp_counted_baseILN9__gnu_cxx12_Lock_policyE2EE24_M_release_last_use_coldEv(v5);
  goto L9;
L9: ;
  return;
}

void _ZN14OpenVolumeMesh15ResourceManager21prop_ptr_from_storageIbNS_6Entity4FaceEEENS_11PropertyPtrIT_T0_EEPNS_19PropertyStorageBaseE(struct S31_class_OpenVolumeMesh__PropertyPtr_86* a0, struct S22_class_OpenVolumeMesh__PropertyStorageBas* a1) {
  struct S20_class_std___Sp_counted_base** v0;
  struct S20_class_std___Sp_counted_base* v1;
  u1 v2;
  u32* v3;
  u32 v4;
  u32 v5; u32 v5_t;
  u1 v6;
  u32 v7;
  u32 v8;
  u1 v9;
  u32 v10;
  struct S69 v11;
  struct S69 v12;
  u1 v13;
  u32 v14;
  u8* v15;
  u64* v16;
  fnptr_t** v17;
  struct S22_class_OpenVolumeMesh__PropertyStorageBas** v18;
  struct S12_class_OpenVolumeMesh__PropertyStorageT** v19;
  struct S12_class_OpenVolumeMesh__PropertyStorageT* v20;
  u8 v21;
  u1 v22;
  u32 v23;
  u32 v24;
  u32 v25;
  u32 v26;
  u64* v27;
  u64 v28;
  u1 v29;
  u32* v30;
  fnptr_t** v31;
  fnptr_t* v32;
  fnptr_t* v33;
  fnptr_t v34;
  fnptr_t* v35;
  fnptr_t* v36;
  fnptr_t v37;
  u8 v38;
  u1 v39;
  u32 v40;
  u32 v41;
  u32 v42;
  u32 v43;
  u32 v44; u32 v44_t;
  u1 v45;
  fnptr_t** v46;
  struct S12_class_OpenVolumeMesh__PropertyStorageT** v47;
  struct S20_class_std___Sp_counted_base** v48;
  fnptr_t** v49;
L0: ;
  v0 = (struct S20_class_std___Sp_counted_base**)(&(*a1).f1.f0.f0.f1.f0);
  v1 = *v0;
  v2 = ((u8*)v1 == (u8*)((struct S20_class_std___Sp_counted_base*)0));
  if (v2) {
    goto L4;
  } else {
    goto L1;
  }
L1: ;
  v3 = (u32*)(&(*v1).f1);
  v4 = *v3;
  v5 = v4;
  goto L2;
L2: ;
  v6 = (v5 == ((u32)0ULL));
  if (v6) {
    goto L4;
  } else {
    goto L3;
  }
L3: ;
  v7 = ((u32)(v5 + ((u32)1ULL)));
  v8 = *v3;
  v9 = (v8 == v5);
  v10 = (v9 ? v7 : v8);
  *v3 = v10;
  v11.f0 = v8;
  v12 = v11;
  v12.f1 = v9;
  v13 = v12.f1;
  v14 = v12.f0;
  if (v13) {
    goto L5;
  } else {
    v5 = v14;
    goto L2;
  }
L4: ;
  v15 = __cxa_allocate_exception(((u64)8ULL));
  v16 = (u64*)v15;
  *v16 = ((u64)0ULL);
  v17 = (fnptr_t**)v15;
  *v17 = ((fnptr_t*)((u8**)(&(*(&_ZTVSt12bad_weak_ptr)).f0.e[(s64)((s64)((u64)2ULL))])));
  __cxa_throw(v15, ((u8*)(&_ZTISt12bad_weak_ptr)), ((u8*)((fnptr_t)_ZNSt12bad_weak_ptrD1Ev)));
  if (v_exc) return;
  __CPROVER_assume(0);
L5: ;
  v18 = (struct S22_class_OpenVolumeMesh__PropertyStorageBas**)(&(*a1).f1.f0.f0.f0);
  v19 = (struct S12_class_OpenVolumeMesh__PropertyStorageT**)&(*a1).f1.f0.f0.f0;
  v20 = *v19;
  v21 = *(&__libc_single_threaded);
  v22 = (v21 == ((u8)0ULL));
  if (v22) {
    goto L7;
  } else {
    goto L6;
  }
L6: ;
  v23 = *v3;
  v24 = ((u32)(v23 + ((u32)1ULL)));
  *v3 = v24;
  goto L8;
L7: ;
  v25 = *v3;
  v26 = ((u32)(v25 + ((u32)1ULL)));
  *v3 = v26;
  goto L8;
L8: ;
  v27 = (u64*)v3;
  v28 = (((u64)(*v1).f1 << 0) | ((u64)(*v1).f2 << 32));
  v29 = (v28 == ((u64)4294967297ULL));
  if (v29) {
    goto L9;
  } else {
    goto L10;
  }
L9: ;
  *v3 = ((u32)0ULL);
  v30 = (u32*)(&(*v1).f2);
  *v30 = ((u32)0ULL);
  v31 = (fnptr_t**)&(*v1).f0;
  v32 = *v31;
  v33 = (fnptr_t*)(v32 + (s64)((s64)((u64)2ULL)));
  v34 = *v33;
  ((FT1)v34)(v1);
  v35 = *v31;
  v36 = (fnptr_t*)(v35 + (s64)((s64)((u64)3ULL)));
  v37 = *v36;
  ((FT1)v37)(v1);
  goto L15;
L10: ;
  v38 = *(&__libc_single_threaded);
  v39 = (v38 == ((u8)0ULL));
  if (v39) {
    goto L12;
  } else {
    goto L11;
  }
L11: ;
  v40 = *v3;
  v41 = ((u32)(v40 + ((u32)4294967295ULL)));
  *v3 = v41;
  v44 = v40;
  goto L13;
L12: ;
  v42 = *v3;
  v43 = ((u32)(v42 + ((u32)4294967295ULL)));
  *v3 = v43;
  v44 = v42;
  goto L13;
L13: ;
  v45 = (v44 == ((u32)1ULL));
  if (v45) {
    goto L14;
  } else {
    goto L15;
  }
L14: ;
  _ZNSt16_Sp_counted_baseILN9__gnu_cxx12_Lock_policyE2EE24_M_release_last_use_coldEv(v1);
  goto L15;
L15: ;
  v46 = (fnptr_t**)(&(*a0).f0.f0.f0);
  *v46 = ((fnptr_t*)((u8**)(&(*(&_ZTVN14OpenVolumeMesh18PropertyStoragePtrIbEE)).f0.e[(s64)((s64)((u64)2ULL))])));
  v47 = (struct S12_class_OpenVolumeMesh__PropertyStorageT**)(&(*a0).f0.f0.f1.f0.f0);
  *v47 = v20;
  v48 = (struct S20_class_std___Sp_counted_base**)(&(*a0).f0.f0.f1.f0.f1.f0);
  *v48 = v1;
  *v46 = ((fnptr_t*)((u8**)(&(*(&_ZTVN14OpenVolumeMesh14HandleIndexingINS_6Entity4FaceENS_18PropertyStoragePtrIbEEEE)).f0.e[(s64)((s64)((u64)2ULL))])));
  v49 = (fnptr_t**)(&(*a0).f1.f0);
  *v49 = ((fnptr_t*)((u8**)(&(*(&_ZTVN14OpenVolumeMesh15BasePropertyPtrE)).f0.e[(s64)((s64)((u64)2ULL))])));
  *v46 = ((fnptr_t*)((u8**)(&(*(&_ZTVN14OpenVolumeMesh11PropertyPtrIbNS_6Entity4FaceEEE)).f0.e[(s64)((s64)((u64)2ULL))])));
  *v49 = ((fnptr_t*)((u8**)(&(*(&_ZTVN14OpenVolumeMesh11PropertyPtrIbNS_6Entity4FaceEEE)).f1.e[(s64)((s64)((u64)2ULL))])));
  return;
}

void _ZN14OpenVolumeMesh15ResourceManager16request_propertyIbNS_6Entity8HalfEdgeEEENS_11PropertyPtrIT_T0_EERKNSt7__cxx1112basic_stringIcSt11char_traitsIcESaIcEEERKS5_(struct S31_class_OpenVolumeMesh__PropertyPtr_86* a0, struct S53_class_OpenVolumeMesh__ResourceManager* a1, struct S14_class_std____cxx11__basic_string* a2, u8* a3) {
  u64* v0; u64 v0_m;
  struct S58_class_std__optional_184* v1; struct S58_class_std__optional_184 v1_m;
  struct S14_class_std____cxx11__basic_string* v2; struct S14_class_std____cxx11__basic_string v2_m;
  u8* v3;
  u8* v4;
  u8 v5;
  u1 v6;
  fnptr_t** v7;
  struct S12_class_OpenVolumeMesh__PropertyStorageT** v8;
  struct S12_class_OpenVolumeMesh__PropertyStorageT** v9;
  struct S12_class_OpenVolumeMesh__PropertyStorageT* v10;
  struct S20_class_std___Sp_counted_base** v11;
  struct S20_class_std___Sp_counted_base** v12;
  struct S20_class_std___Sp_counted_base* v13;
  u1 v14;
  u32* v15;
  u8 v16;
  u1 v17;
  u32 v18;
  u32 v19;
  u32 v20;
  u32 v21;
  fnptr_t** v22;
  u64* v23;
  u64 v24;
  u1 v25;
  struct S64_union_anon* v26;
  struct S64_union_anon** v27;
  u8** v28;
  u8* v29;
  u8* v30;
  u1 v31;
  u8* v32;
  u8** v33;
  u64 v34;
  u64* v35;
  u8** v36;
  u8* v37;
  u8 v38;
  u64 v39;
  u64* v40;
  u8* v41;
  u8* v42;
  u8* v43;
  u8* v44;
  u1 v45;
  struct S65 v46;
  struct S65 v47;
  u8* v48;
  u8* v49;
  u1 v50;
  struct S65 v51; struct S65 v51_t;
  struct S59_struct_std___Optional_base_185* v52;
  u8* v53;
  u8 v54;
  u1 v55;
  fnptr_t** v56;
  struct S20_class_std___Sp_counted_base** v57;
  struct S20_class_std___Sp_counted_base* v58;
  u1 v59;
  u32* v60;
  u64* v61;
  u64 v62;
  u1 v63;
  u32* v64;
  fnptr_t** v65;
  fnptr_t* v66;
  fnptr_t* v67;
  fnptr_t v68;
  fnptr_t* v69;
  fnptr_t* v70;
  fnptr_t v71;
  u8 v72;
  u1 v73;
  u32 v74;
  u32 v75;
  u32 v76;
  u32 v77;
  u32 v78; u32 v78_t;
  u1 v79;
L0: ;
  v0 = &v0_m;
  v1 = &v1_m;
  v2 = &v2_m;
  v3 = (u8*)v1;
  _ZNK14OpenVolumeMesh15ResourceManager22internal_find_propertyIbNS_6Entity8HalfEdgeEEESt8optionalINS_11PropertyPtrIT_T0_EEERKNSt7__cxx1112basic_stringIcSt11char_traitsIcESaIcEEE(v1, a1, a2);
  if (v_exc) return;
  v4 = (u8*)(&(*v1).f0.f0.f0.f0.f1);
  v5 = *v4;
  v6 = (v5 == ((u8)0ULL));
  if (v6) {
    goto L6;
  } else {
    goto L1;
  }
L1: ;
  v7 = (fnptr_t**)(&(*a0).f0.f0.f0);
  *v7 = ((fnptr_t*)((u8**)(&(*(&_ZTVN14OpenVolumeMesh18PropertyStoragePtrIbEE)).f0.e[(s64)((s64)((u64)2ULL))])));
  v8 = (struct S12_class_OpenVolumeMesh__PropertyStorageT**)(&(*a0).f0.f0.f1.f0.f0);
  v9 = (struct S12_class_OpenVolumeMesh__PropertyStorageT**)(&(*v1).f0.f0.f0.f0.f0.f0.f0.f0.f1.f0.f0);
  v10 = *v9;
  *v8 = v10;
  v11 = (struct S20_class_std___Sp_counted_base**)(&(*a0).f0.f0.f1.f0.f1.f0);
  v12 = (struct S20_class_std___Sp_counted_base**)(&(*v1).f0.f0.f0.f0.f0.f0.f0.f0.f1.f0.f1.f0);
  v13 = *v12;
  *v11 = v13;
  v14 = ((u8*)v13 == (u8*)((struct S20_class_std___Sp_counted_base*)0));
  if (v14) {
    goto L5;
  } else {
    goto L2;
  }
L2: ;
  v15 = (u32*)(&(*v13).f1);
  v16 = *(&__libc_single_threaded);
  v17 = (v16 == ((u8)0ULL));
  if (v17) {
    goto L4;
  } else {
    goto L3;
  }
L3: ;
  v18 = *v15;
  v19 = ((u32)(v18 + ((u32)1ULL)));
  *v15 = v19;
  goto L5;
L4: ;
  v20 = *v15;
  v21 = ((u32)(v20 + ((u32)1ULL)));
  *v15 = v21;
  goto L5;
L5: ;
  *v7 = ((fnptr_t*)((u8**)(&(*(&_ZTVN14OpenVolumeMesh14HandleIndexingINS_6Entity8HalfEdgeENS_18PropertyStoragePtrIbEEEE)).f0.e[(s64)((s64)((u64)2ULL))])));
  v22 = (fnptr_t**)(&(*a0).f1.f0);
  *v22 = ((fnptr_t*)((u8**)(&(*(&_ZTVN14OpenVolumeMesh15BasePropertyPtrE)).f0.e[(s64)((s64)((u64)2ULL))])));
  *v7 = ((fnptr_t*)((u8**)(&(*(&_ZTVN14OpenVolumeMesh11PropertyPtrIbNS_6Entity8HalfEdgeEEE)).f0.e[(s64)((s64)((u64)2ULL))])));
  *v22 = ((fnptr_t*)((u8**)(&(*(&_ZTVN14OpenVolumeMesh11PropertyPtrIbNS_6Entity8HalfEdgeEEE)).f1.e[(s64)((s64)((u64)2ULL))])));
  goto L19;
L6: ;
  v23 = (u64*)(&(*a2).f1);
  v24 = *v23;
  v25 = (v24 != ((u64)0ULL));
  v26 = (struct S64_union_anon*)(&(*v2).f2);
  v27 = (struct S64_union_anon**)&(*v2).f0.f0;
  *v27 = v26;
  v28 = (u8**)(&(*a2).f0.f0);
  v29 = *v28;
  v30 = (u8*)v0;
  *v0 = v24;
  v31 = (v24 > ((u64)15ULL));
  if (v31) {
    goto L7;
  } else {
    goto L9;
  }
L7: ;
  v32 = _ZNSt7__cxx1112basic_stringIcSt11char_traitsIcESaIcEE9_M_createERmm(v2, v0, ((u64)0ULL));
  if (v_exc) {
    goto L15;
  }
  goto L8;
L8: ;
  v33 = (u8**)(&(*v2).f0.f0);
  *v33 = v32;
  v34 = *v0;
  v35 = (u64*)(&(*v2).f2.f0.e[0]);
  *v35 = v34;
  goto L9;
L9: ;
  v36 = (u8**)(&(*v2).f0.f0);
  v37 = *v36;
  switch (v24) {
  case ((u64)1ULL): {
    goto L10;
  }
  case ((u64)0ULL): {
    goto L12;
  }
  default: {
    goto L11;
  }
  }
L10: ;
  v38 = *v29;
  *v37 = v38;
  goto L12;
L11: ;
  v_memcpy((u8*)v37, (u8*)v29, (u64)v24);
  goto L12;
L12: ;
  v39 = *v0;
  v40 = (u64*)(&(*v2).f1);
  *v40 = v39;
  v41 = *v36;
  v42 = (u8*)(v41 + (s64)((s64)v39));
  *v42 = ((u8)0ULL);
  _ZNK14OpenVolumeMesh15ResourceManager24internal_create_propertyIbNS_6Entity8HalfEdgeEEENS_11PropertyPtrIT_T0_EENSt7__cxx1112basic_stringIcSt11char_traitsIcESaIcEEERKS5_b(a0, a1, v2, a3, v25);
  if (v_exc) {
    goto L16;
  }
  goto L13;
L13: ;
  v43 = *v36;
  v44 = (u8*)v26;
  v45 = ((u8*)v43 == (u8*)v44);
  if (v45) {
    goto L19;
  } else {
    goto L14;
  }
L14: ;
  _ZdlPv(v43);
  goto L19;
L15: ;
  v46.f0 = v_exc_obj;
  v46.f1 = 0;
  v_exc = 0;
  v51 = v46;
  goto L18;
L16: ;
  v47.f0 = v_exc_obj;
  v47.f1 = 0;
  v_exc = 0;
  v48 = *v36;
  v49 = (u8*)v26;
  v50 = ((u8*)v48 == (u8*)v49);
  if (v50) {
    v51 = v47;
    goto L18;
  } else {
    goto L17;
  }
L17: ;
  _ZdlPv(v48);
  v51 = v47;
  goto L18;
L18: ;
  v52 = (struct S59_struct_std___Optional_base_185*)(&(*v1).f0);
  _ZNSt14_Optional_baseIN14OpenVolumeMesh11PropertyPtrIbNS0_6Entity8HalfEdgeEEELb0ELb0EED2Ev(v52);
  v_exc = 1; return;
L19: ;
  v53 = (u8*)(&(*v1).f0.f0.f0.f0.f1);
  v54 = *v53;
  v55 = (v54 == ((u8)0ULL));
  if (v55) {
    goto L28;
  } else {
    goto L20;
  }
L20: ;
  *v53 = ((u8)0ULL);
  v56 = (fnptr_t**)(&(*v1).f0.f0.f0.f0.f0.f0.f0.f0.f0);
  *v56 = ((fnptr_t*)((u8**)(&(*(&_ZTVN14OpenVolumeMesh18PropertyStoragePtrIbEE)).f0.e[(s64)((s64)((u64)2ULL))])));
  v57 = (struct S20_class_std___Sp_counted_base**)(&(*v1).f0.f0.f0.f0.f0.f0.f0.f0.f1.f0.f1.f0);
  v58 = *v57;
  v59 = ((u8*)v58 == (u8*)((struct S20_class_std___Sp_counted_base*)0));
  if (v59) {
    goto L28;
  } else {
    goto L21;
  }
L21: ;
  v60 = (u32*)(&(*v58).f1);
  v61 = (u64*)v60;
  v62 = (((u64)(*v58).f1 << 0) | ((u64)(*v58).f2 << 32));
  v63 = (v62 == ((u64)4294967297ULL));
  if (v63) {
    goto L22;
  } else {
    goto L23;
  }
L22: ;
  *v60 = ((u32)0ULL);
  v64 = (u32*)(&(*v58).f2);
  *v64 = ((u32)0ULL);
  v65 = (fnptr_t**)&(*v58).f0;
  v66 = *v65;
  v67 = (fnptr_t*)(v66 + (s64)((s64)((u64)2ULL)));
  v68 = *v67;
  ((FT1)v68)(v58);
  v69 = *v65;
  v70 = (fnptr_t*)(v69 + (s64)((s64)((u64)3ULL)));
  v71 = *v70;
  ((FT1)v71)(v58);
  goto L28;
L23: ;
  v72 = *(&__libc_single_threaded);
  v73 = (v72 == ((u8)0ULL));
  if (v73) {
    goto L25;
  } else {
    goto L24;
  }
L24: ;
  v74 = *v60;
  v75 = ((u32)(v74 + ((u32)4294967295ULL)));
  *v60 = v75;
  v78 = v74;
  goto L26;
L25: ;
  v76 = *v60;
  v77 = ((u32)(v76 + ((u32)4294967295ULL)));
  *v60 = v77;
  v78 = v76;
  goto L26;
L26: ;
  v79 = (v78 == ((u32)1ULL));
  if (v79) {
    goto L27;
  } else {
    goto L28;
  }
L27: ;
  _ZNSt16_Sp_counted_baseILN9__gnu_cxx12_Lock_policyE2EE24_M_release_last_use_coldEv(v58);
  goto L28;
L28: ;
  return;
}

void _ZN14OpenVolumeMesh15ResourceManager14set_persistentIbNS_6Entity8HalfEdgeEEEvRNS_11PropertyPtrIT_T0_EEb(struct S53_class_OpenVolumeMesh__ResourceManager* a0, struct S31_class_OpenVolumeMesh__PropertyPtr_86* a1, u1 a2) {
  struct S25_class_std__weak_ptr* v0; struct S25_class_std__weak_ptr v0_m;
  struct S12_class_OpenVolumeMesh__PropertyStorageT** v1;
  struct S22_class_OpenVolumeMesh__PropertyStorageBas** v2;
  struct S22_class_OpenVolumeMesh__PropertyStorageBas* v3;
  u8* v4;
  u8 v5;
  u1 v6;
  u1 v7;
  u8* v8;
  struct S56_class_std__shared_ptr_65* v9;
  struct S22_class_OpenVolumeMesh__PropertyStorageBas** v10;
  struct S22_class_OpenVolumeMesh__PropertyStorageBas* v11;
  struct S22_class_OpenVolumeMesh__PropertyStorageBas** v12;
  struct S20_class_std___Sp_counted_base** v13;
  struct S20_class_std___Sp_counted_base** v14;
  struct S20_class_std___Sp_counted_base* v15;
  u1 v16;
  u32* v17;
  u8 v18;
  u1 v19;
  u32 v20;
  u32 v21;
  u32 v22;
  u32 v23;
  struct S22_class_OpenVolumeMesh__PropertyStorageBas* v24;
  u8* v25;
  u8 v26;
  u1 v27;
  u8* v28;
  struct S29_class_std__runtime_error* v29;
  struct S65 v30;
  struct S65 v31;
  struct S16_class_std___Rb_tree_5* v32;
  struct S36 v33;
  struct S43_class_std__map* v34;
  u8* v35;
  u8* v36;
  struct S41_struct_std___Rb_tree_node_31** v37;
  u8* v38;
  struct S17_struct_std___Rb_tree_node_base* v39;
  struct S41_struct_std___Rb_tree_node_31* v40;
  u1 v41;
  struct S22_class_OpenVolumeMesh__PropertyStorageBas* v42;
  struct S41_struct_std___Rb_tree_node_31* v43; struct S41_struct_std___Rb_tree_node_31* v43_t;
  struct S17_struct_std___Rb_tree_node_base* v44; struct S17_struct_std___Rb_tree_node_base* v44_t;
  struct S72_struct___gnu_cxx____aligned_membuf_32* v45;
  struct S22_class_OpenVolumeMesh__PropertyStorageBas** v46;
  struct S22_class_OpenVolumeMesh__PropertyStorageBas* v47;
  u1 v48;
  struct S17_struct_std___Rb_tree_node_base** v49;
  u1 v50;
  struct S17_struct_std___Rb_tree_node_base* v51;
  struct S17_struct_std___Rb_tree_node_base** v52;
  struct S41_struct_std___Rb_tree_node_31** v53;
  struct S41_struct_std___Rb_tree_node_31* v54;
  struct S17_struct_std___Rb_tree_node_base** v55;
  struct S41_struct_std___Rb_tree_node_31** v56;
  struct S41_struct_std___Rb_tree_node_31* v57;
  u1 v58;
  struct S41_struct_std___Rb_tree_node_31* v59; struct S41_struct_std___Rb_tree_node_31* v59_t;
  struct S17_struct_std___Rb_tree_node_base* v60; struct S17_struct_std___Rb_tree_node_base* v60_t;
  struct S72_struct___gnu_cxx____aligned_membuf_32* v61;
  struct S22_class_OpenVolumeMesh__PropertyStorageBas** v62;
  struct S22_class_OpenVolumeMesh__PropertyStorageBas* v63;
  u1 v64;
  struct S17_struct_std___Rb_tree_node_base** v65;
  struct S17_struct_std___Rb_tree_node_base* v66;
  struct S17_struct_std___Rb_tree_node_base** v67;
  struct S17_struct_std___Rb_tree_node_base* v68;
  struct S17_struct_std___Rb_tree_node_base** v69;
  struct S41_struct_std___Rb_tree_node_31** v70;
  struct S41_struct_std___Rb_tree_node_31* v71;
  u1 v72;
  struct S17_struct_std___Rb_tree_node_base* v73; struct S17_struct_std___Rb_tree_node_base* v73_t;
  u1 v74;
  struct S41_struct_std___Rb_tree_node_31* v75; struct S41_struct_std___Rb_tree_node_31* v75_t;
  struct S17_struct_std___Rb_tree_node_base* v76; struct S17_struct_std___Rb_tree_node_base* v76_t;
  struct S72_struct___gnu_cxx____aligned_membuf_32* v77;
  struct S22_class_OpenVolumeMesh__PropertyStorageBas** v78;
  struct S22_class_OpenVolumeMesh__PropertyStorageBas* v79;
  u1 v80;
  struct S17_struct_std___Rb_tree_node_base* v81;
  struct S17_struct_std___Rb_tree_node_base** v82;
  struct S17_struct_std___Rb_tree_node_base** v83;
  struct S17_struct_std___Rb_tree_node_base* v84;
  struct S17_struct_std___Rb_tree_node_base** v85;
  struct S41_struct_std___Rb_tree_node_31** v86;
  struct S41_struct_std___Rb_tree_node_31* v87;
  u1 v88;
  struct S17_struct_std___Rb_tree_node_base* v89; struct S17_struct_std___Rb_tree_node_base* v89_t;
  struct S17_struct_std___Rb_tree_node_base** v90; struct S17_struct_std___Rb_tree_node_base** v90_t;
  struct S41_struct_std___Rb_tree_node_31** v91;
  struct S41_struct_std___Rb_tree_node_31* v92;
  u1 v93;
  struct S17_struct_std___Rb_tree_node_base* v94; struct S17_struct_std___Rb_tree_node_base* v94_t;
  struct S17_struct_std___Rb_tree_node_base* v95; struct S17_struct_std___Rb_tree_node_base* v95_t;
  struct S16_class_std___Rb_tree_5* v96;
  struct S22_class_OpenVolumeMesh__PropertyStorageBas** v97;
  struct S22_class_OpenVolumeMesh__PropertyStorageBas* v98;
  u8 v99;
  u8* v100;
  struct S20_class_std___Sp_counted_base** v101;
  struct S20_class_std___Sp_counted_base* v102;
  u1 v103;
  u32* v104;
  u64* v105;
  u64 v106;
  u1 v107;
  u32* v108;
  fnptr_t** v109;
  fnptr_t* v110;
  fnptr_t* v111;
  fnptr_t v112;
  fnptr_t* v113;
  fnptr_t* v114;
  fnptr_t v115;
  u8 v116;
  u1 v117;
  u32 v118;
  u32 v119;
  u32 v120;
  u32 v121;
  u32 v122; u32 v122_t;
  u1 v123;
  struct S65 v124; struct S65 v124_t;
  struct S40_class_std____weak_ptr* v125;
L0: ;
  v0 = &v0_m;
  v1 = (struct S12_class_OpenVolumeMesh__PropertyStorageT**)(&(*a1).f0.f0.f1.f0.f0);
  v2 = (struct S22_class_OpenVolumeMesh__PropertyStorageBas**)&(*a1).f0.f0.f1.f0.f0;
  v3 = *v2;
  v4 = (u8*)(&(*v3).f5);
  v5 = *v4;
  v6 = (v5 != ((u8)0ULL));
  v7 = ((u1)((v6 ^ a2)&1));
  if (v7) {
    goto L1;
  } else {
    goto L32;
  }
L1: ;
  v8 = (u8*)v0;
  v9 = (struct S56_class_std__shared_ptr_65*)(&(*a1).f0.f0.f1);
  v10 = (struct S22_class_OpenVolumeMesh__PropertyStorageBas**)&(*a1).f0.f0.f1.f0.f0;
  v11 = *v10;
  v12 = (struct S22_class_OpenVolumeMesh__PropertyStorageBas**)(&(*v0).f0.f0);
  *v12 = v11;
  v13 = (struct S20_class_std___Sp_counted_base**)(&(*v0).f0.f1.f0);
  v14 = (struct S20_class_std___Sp_counted_base**)(&(*a1).f0.f0.f1.f0.f1.f0);
  v15 = *v14;
  *v13 = v15;
  v16 = ((u8*)v15 == (u8*)((struct S20_class_std___Sp_counted_base*)0));
  if (v16) {
    goto L5;
  } else {
    goto L2;
  }
L2: ;
  v17 = (u32*)(&(*v15).f1);
  v18 = *(&__libc_single_threaded);
  v19 = (v18 == ((u8)0ULL));
  if (v19) {
    goto L4;
  } else {
    goto L3;
  }
L3: ;
  v20 = *v17;
  v21 = ((u32)(v20 + ((u32)1ULL)));
  *v17 = v21;
  goto L5;
L4: ;
  v22 = *v17;
  v23 = ((u32)(v22 + ((u32)1ULL)));
  *v17 = v23;
  goto L5;
L5: ;
  if (a2) {
    goto L6;
  } else {
    goto L12;
  }
L6: ;
  v24 = *v2;
  v25 = (u8*)(&(*v24).f6);
  v26 = *v25;
  v27 = (v26 == ((u8)0ULL));
  if (v27) {
    goto L7;
  } else {
    goto L11;
  }
L7: ;
  v28 = __cxa_allocate_exception(((u64)16ULL));
  v29 = (struct S29_class_std__runtime_error*)v28;
  _ZNSt13runtime_errorC1EPKc(v29, ((u8*)(&(*(&_str_38)).e[(s64)((s64)((u64)0ULL))])));
  if (v_exc) {
    goto L9;
  }
  goto L8;
L8: ;
  __cxa_throw(v28, ((u8*)(&_ZTISt13runtime_error)), ((u8*)((fnptr_t)_ZNSt13runtime_errorD1Ev)));
  if (v_exc) {
    goto L10;
  }
  goto L34;
L9: ;
  v30.f0 = v_exc_obj;
  v30.f1 = 0;
  v_exc = 0;
  __cxa_free_exception(v28);
  v124 = v30;
  goto L33;
L10: ;
  v31.f0 = v_exc_obj;
  v31.f1 = 0;
  v_exc = 0;
  v124 = v31;
  goto L33;
L11: ;
  v32 = (struct S16_class_std___Rb_tree_5*)(&(*a0).f1.f0.f0.e[(s64)((s64)((u64)2ULL))].f0);
  v33 = _ZNSt8_Rb_treeISt10shared_ptrIN14OpenVolumeMesh19PropertyStorageBaseEES3_St9_IdentityIS3_ESt4lessIS3_ESaIS3_EE16_M_insert_uniqueIRKS3_EESt4pairISt17_Rb_tree_iteratorIS3_EbEOT_(v32, v0);
  if (v_exc) {
    goto L10;
  }
  goto L23;
L12: ;
  v34 = (struct S43_class_std__map*)(&(*a0).f1.f0.f0.e[(s64)((s64)((u64)2ULL))]);
  v35 = (u8*)(&(*v34).f0.f0.f0.f0.f0);
  v36 = (u8*)&(*a0).f1.f0.f0.e[2].f0.f0.f1.f0.f1;
  v37 = (struct S41_struct_std___Rb_tree_node_31**)&(*a0).f1.f0.f0.e[2].f0.f0.f1.f0.f1;
  v38 = (u8*)&(*a0).f1.f0.f0.e[2].f0.f0.f1.f0.f0;
  v39 = (struct S17_struct_std___Rb_tree_node_base*)&(*a0).f1.f0.f0.e[2].f0.f0.f1.f0;
  v40 = *v37;
  v41 = ((u8*)v40 == (u8*)((struct S41_struct_std___Rb_tree_node_31*)0));
  if (v41) {
    v94_t = v39;
    v95_t = v39;
    v94 = v94_t;
    v95 = v95_t;
    goto L22;
  } else {
    goto L13;
  }
L13: ;
  v42 = *v12;
  v43_t = v40;
  v44_t = v39;
  v43 = v43_t;
  v44 = v44_t;
  goto L14;
L14: ;
  v45 = (struct S72_struct___gnu_cxx____aligned_membuf_32*)(&(*v43).f1);
  v46 = (struct S22_class_OpenVolumeMesh__PropertyStorageBas**)v45;
  v47 = *v46;
  v48 = v_plt((u8*)v47, (u8*)v42);
  if (v48) {
    goto L15;
  } else {
    goto L16;
  }
L15: ;
  v49 = (struct S17_struct_std___Rb_tree_node_base**)(&(*v43).f0.f3);
  v89_t = v44;
  v90_t = v49;
  v89 = v89_t;
  v90 = v90_t;
  goto L21;
L16: ;
  v50 = v_plt((u8*)v42, (u8*)v47);
  v51 = (struct S17_struct_std___Rb_tree_node_base*)(&(*v43).f0);
  v52 = (struct S17_struct_std___Rb_tree_node_base**)(&(*v43).f0.f2);
  if (v50) {
    v89_t = v51;
    v90_t = v52;
    v89 = v89_t;
    v90 = v90_t;
    goto L21;
  } else {
    goto L17;
  }
L17: ;
  v53 = (struct S41_struct_std___Rb_tree_node_31**)&(*v43).f0.f2;
  v54 = *v53;
  v55 = (struct S17_struct_std___Rb_tree_node_base**)(&(*v43).f0.f3);
  v56 = (struct S41_struct_std___Rb_tree_node_31**)&(*v43).f0.f3;
  v57 = *v56;
  v58 = ((u8*)v54 == (u8*)((struct S41_struct_std___Rb_tree_node_31*)0));
  if (v58) {
    v73 = v51;
    goto L19;
  } else {
    v59_t = v54;
    v60_t = v51;
    v59 = v59_t;
    v60 = v60_t;
    goto L18;
  }
L18: ;
  v61 = (struct S72_struct___gnu_cxx____aligned_membuf_32*)(&(*v59).f1);
  v62 = (struct S22_class_OpenVolumeMesh__PropertyStorageBas**)v61;
  v63 = *v62;
  v64 = v_plt((u8*)v63, (u8*)v42);
  v65 = (struct S17_struct_std___Rb_tree_node_base**)(&(*v59).f0.f3);
  v66 = (struct S17_struct_std___Rb_tree_node_base*)(&(*v59).f0);
  v67 = (struct S17_struct_std___Rb_tree_node_base**)(&(*v59).f0.f2);
  v68 = (v64 ? v60 : v66);
  v69 = (v64 ? v65 : v67);
  v70 = (struct S41_struct_std___Rb_tree_node_31**)v69;
  v71 = *v70;
  v72 = ((u8*)v71 == (u8*)((struct S41_struct_std___Rb_tree_node_31*)0));
  if (v72) {
    v73 = v68;
    goto L19;
  } else {
    v59_t = v71;
    v60_t = v68;
    v59 = v59_t;
    v60 = v60_t;
    goto L18;
  }
L19: ;
  v74 = ((u8*)v57 == (u8*)((struct S41_struct_std___Rb_tree_node_31*)0));
  if (v74) {
    v94_t = v73;
    v95_t = v44;
    v94 = v94_t;
    v95 = v95_t;
    goto L22;
  } else {
    v75_t = v57;
    v76_t = v44;
    v75 = v75_t;
    v76 = v76_t;
    goto L20;
  }
L20: ;
  v77 = (struct S72_struct___gnu_cxx____aligned_membuf_32*)(&(*v75).f1);
  v78 = (struct S22_class_OpenVolumeMesh__PropertyStorageBas**)v77;
  v79 = *v78;
  v80 = v_plt((u8*)v42, (u8*)v79);
  v81 = (struct S17_struct_std___Rb_tree_node_base*)(&(*v75).f0);
  v82 = (struct S17_struct_std___Rb_tree_node_base**)(&(*v75).f0.f2);
  v83 = (struct S17_struct_std___Rb_tree_node_base**)(&(*v75).f0.f3);
  v84 = (v80 ? v81 : v76);
  v85 = (v80 ? v82 : v83);
  v86 = (struct S41_struct_std___Rb_tree_node_31**)v85;
  v87 = *v86;
  v88 = ((u8*)v87 == (u8*)((struct S41_struct_std___Rb_tree_node_31*)0));
  if (v88) {
    v94_t = v73;
    v95_t = v84;
    v94 = v94_t;
    v95 = v95_t;
    goto L22;
  } else {
    v75_t = v87;
    v76_t = v84;
    v75 = v75_t;
    v76 = v76_t;
    goto L20;
  }
L21: ;
  v91 = (struct S41_struct_std___Rb_tree_node_31**)v90;
  v92 = *v91;
  v93 = ((u8*)v92 == (u8*)((struct S41_struct_std___Rb_tree_node_31*)0));
  if (v93) {
    v94_t = v89;
    v95_t = v89;
    v94 = v94_t;
    v95 = v95_t;
    goto L22;
  } else {
    v43_t = v92;
    v44_t = v89;
    v43 = v43_t;
    v44 = v44_t;
    goto L14;
  }
L22: ;
  v96 = (struct S16_class_std___Rb_tree_5*)(&(*v34).f0);
  _ZNSt8_Rb_treeISt10shared_ptrIN14OpenVolumeMesh19PropertyStorageBaseEES3_St9_IdentityIS3_ESt4lessIS3_ESaIS3_EE12_M_erase_auxESt23_Rb_tree_const_iteratorIS3_ESB_(v96, v94, v95);
  if (v_exc) {
    goto L10;
  }
  goto L23;
L23: ;
  v97 = (struct S22_class_OpenVolumeMesh__PropertyStorageBas**)(&(*v0).f0.f0);
  v98 = *v97;
  v99 = ((u8)(a2));
  v100 = (u8*)(&(*v98).f5);
  *v100 = v99;
  v101 = (struct S20_class_std___Sp_counted_base**)(&(*v0).f0.f1.f0);
  v102 = *v101;
  v103 = ((u8*)v102 == (u8*)((struct S20_class_std___Sp_counted_base*)0));
  if (v103) {
    goto L31;
  } else {
    goto L24;
  }
L24: ;
  v104 = (u32*)(&(*v102).f1);
  v105 = (u64*)v104;
  v106 = (((u64)(*v102).f1 << 0) | ((u64)(*v102).f2 << 32));
  v107 = (v106 == ((u64)4294967297ULL));
  if (v107) {
    goto L25;
  } else {
    goto L26;
  }
L25: ;
  *v104 = ((u32)0ULL);
  v108 = (u32*)(&(*v102).f2);
  *v108 = ((u32)0ULL);
  v109 = (fnptr_t**)&(*v102).f0;
  v110 = *v109;
  v111 = (fnptr_t*)(v110 + (s64)((s64)((u64)2ULL)));
  v112 = *v111;
  ((FT1)v112)(v102);
  v113 = *v109;
  v114 = (fnptr_t*)(v113 + (s64)((s64)((u64)3ULL)));
  v115 = *v114;
  ((FT1)v115)(v102);
  goto L31;
L26: ;
  v116 = *(&__libc_single_threaded);
  v117 = (v116 == ((u8)0ULL));
  if (v117) {
    goto L28;
  } else {
    goto L27;
  }
L27: ;
  v118 = *v104;
  v119 = ((u32)(v118 + ((u32)4294967295ULL)));
  *v104 = v119;
  v122 = v118;
  goto L29;
L28: ;
  v120 = *v104;
  v121 = ((u32)(v120 + ((u32)4294967295ULL)));
  *v104 = v121;
  v122 = v120;
  goto L29;
L29: ;
  v123 = (v122 == ((u32)1ULL));
  if (v123) {
    goto L30;
  } else {
    goto L31;
  }
L30: ;
  _ZNSt16_Sp_counted_baseILN9__gnu_cxx12_Lock_policyE2EE24_M_release_last_use_coldEv(v102);
  goto L31;
L31: ;
  goto L32;
L32: ;
  return;
L33: ;
  v125 = (struct S40_class_std____weak_ptr*)(&(*v0).f0);
  _ZNSt12__shared_ptrIN14OpenVolumeMesh19PropertyStorageBaseELN9__gnu_cxx12_Lock_policyE2EED2Ev(v125);
  v_exc = 1; return;
L34: ;
  __CPROVER_assume(0);
}

void _ZNK14OpenVolumeMesh15ResourceManager22internal_find_propertyIbNS_6Entity8HalfEdgeEEESt8optionalINS_11PropertyPtrIT_T0_EEERKNSt7__cxx1112basic_stringIcSt11char_traitsIcESaIcEEE(struct S58_class_std__optional_184* a0, struct S53_class_OpenVolumeMesh__ResourceManager* a1, struct S14_class_std____cxx11__basic_string* a2) {
  struct S14_class_std____cxx11__basic_string* v0; struct S14_class_std____cxx11__basic_string v0_m;
  struct S31_class_OpenVolumeMesh__PropertyPtr_86* v1; struct S31_class_OpenVolumeMesh__PropertyPtr_86 v1_m;
  u64* v2;
  u64 v3;
  u1 v4;
  u8* v5;
  u8* v6;
  u8* v7;
  u8* v8;
  struct S17_struct_std___Rb_tree_node_base** v9;
  struct S17_struct_std___Rb_tree_node_base* v10;
  u8* v11;
  struct S17_struct_std___Rb_tree_node_base* v12;
  u1 v13;
  u64 v14;
  u8** v15;
  u8* v16;
  u64* v17;
  u64 v18;
  u8** v19;
  u8* v20;
  struct S17_struct_std___Rb_tree_node_base* v21; struct S17_struct_std___Rb_tree_node_base* v21_t;
  struct S17_struct_std___Rb_tree_node_base* v22;
  struct S22_class_OpenVolumeMesh__PropertyStorageBas** v23;
  struct S22_class_OpenVolumeMesh__PropertyStorageBas* v24;
  u8* v25;
  u8 v26;
  u1 v27;
  u64* v28;
  u64 v29;
  u1 v30;
  u1 v31;
  u8** v32;
  u8* v33;
  u32 v34;
  u1 v35;
  u64* v36;
  u64 v37;
  u1 v38;
  u1 v39;
  u8** v40;
  u8* v41;
  u32 v42;
  u1 v43;
  u8* v44;
  fnptr_t** v45;
  struct S12_class_OpenVolumeMesh__PropertyStorageT** v46;
  struct S12_class_OpenVolumeMesh__PropertyStorageT** v47;
  struct S12_class_OpenVolumeMesh__PropertyStorageT* v48;
  struct S20_class_std___Sp_counted_base** v49;
  struct S20_class_std___Sp_counted_base** v50;
  struct S20_class_std___Sp_counted_base* v51;
  u1 v52;
  u32* v53;
  u8 v54;
  u1 v55;
  u32 v56;
  u32 v57;
  u32 v58;
  u32 v59;
  fnptr_t** v60;
  u8* v61;
  fnptr_t** v62;
  struct S20_class_std___Sp_counted_base* v63;
  u1 v64;
  u32* v65;
  u64* v66;
  u64 v67;
  u1 v68;
  u32* v69;
  fnptr_t** v70;
  fnptr_t* v71;
  fnptr_t* v72;
  fnptr_t v73;
  fnptr_t* v74;
  fnptr_t* v75;
  fnptr_t v76;
  u8 v77;
  u1 v78;
  u32 v79;
  u32 v80;
  u32 v81;
  u32 v82;
  u32 v83; u32 v83_t;
  u1 v84;
  struct S65 v85;
  u8** v86;
  u8* v87;
  struct S64_union_anon* v88;
  u8* v89;
  u1 v90;
  struct S17_struct_std___Rb_tree_node_base* v91;
  u1 v92;
  u8* v93;
  u8** v94;
  u8* v95;
  struct S64_union_anon* v96;
  u8* v97;
  u1 v98;
L0: ;
  v0 = &v0_m;
  v1 = &v1_m;
  v2 = (u64*)(&(*a2).f1);
  v3 = *v2;
  v4 = (v3 == ((u64)0ULL));
  if (v4) {
    goto L1;
  } else {
    goto L2;
  }
L1: ;
  v5 = (u8*)(&(*a0).f0.f0.f0.f0.f1);
  *v5 = ((u8)0ULL);
  goto L33;
L2: ;
  v6 = (u8*)v0;
  _ZN14OpenVolumeMesh6detail18internal_type_nameB5cxx11ERKSt9type_info(v0, ((struct S39_class_std__type_info*)(&_ZTIb)));
  if (v_exc) return;
  v7 = (u8*)(&(*a1).f2.f0.f0.e[(s64)((s64)((u64)2ULL))].f1.f0.f0.f0.f0.f0);
  v8 = (u8*)&(*a1).f2.f0.f0.e[2].f1.f0.f0.f1.f0.f2;
  v9 = (struct S17_struct_std___Rb_tree_node_base**)&(*a1).f2.f0.f0.e[2].f1.f0.f0.f1.f0.f2;
  v10 = *v9;
  v11 = (u8*)&(*a1).f2.f0.f0.e[2].f1.f0.f0.f1.f0.f0;
  v12 = (struct S17_struct_std___Rb_tree_node_base*)&(*a1).f2.f0.f0.e[2].f1.f0.f0.f1.f0;
  v13 = ((u8*)v10 == (u8*)v12);
  if (v13) {
    goto L29;
  } else {
    goto L3;
  }
L3: ;
  v14 = *v2;
  v15 = (u8**)(&(*a2).f0.f0);
  v16 = *v15;
  v17 = (u64*)(&(*v0).f1);
  v18 = *v17;
  v19 = (u8**)(&(*v0).f0.f0);
  v20 = *v19;
  v21 = v10;
  goto L4;
L4: ;
  v22 = (struct S17_struct_std___Rb_tree_node_base*)(v21 + (s64)((s64)((u64)1ULL)));
  v23 = (struct S22_class_OpenVolumeMesh__PropertyStorageBas**)v22;
  v24 = *v23;
  v25 = (u8*)(&(*v24).f6);
  v26 = *v25;
  v27 = (v26 == ((u8)0ULL));
  if (v27) {
    goto L26;
  } else {
    goto L5;
  }
L5: ;
  v28 = (u64*)(&(*v24).f2.f1);
  v29 = *v28;
  v30 = (v29 == v14);
  if (v30) {
    goto L6;
  } else {
    goto L26;
  }
L6: ;
  v31 = (v29 == ((u64)0ULL));
  if (v31) {
    goto L8;
  } else {
    goto L7;
  }
L7: ;
  v32 = (u8**)(&(*v24).f2.f0.f0);
  v33 = *v32;
  v34 = bcmp(v33, v16, v29);
  v35 = (v34 == ((u32)0ULL));
  if (v35) {
    goto L8;
  } else {
    goto L26;
  }
L8: ;
  v36 = (u64*)(&(*v24).f3.f1);
  v37 = *v36;
  v38 = (v37 == v18);
  if (v38) {
    goto L9;
  } else {
    goto L26;
  }
L9: ;
  v39 = (v37 == ((u64)0ULL));
  if (v39) {
    goto L11;
  } else {
    goto L10;
  }
L10: ;
  v40 = (u8**)(&(*v24).f3.f0.f0);
  v41 = *v40;
  v42 = bcmp(v41, v20, v37);
  v43 = (v42 == ((u32)0ULL));
  if (v43) {
    goto L11;
  } else {
    goto L26;
  }
L11: ;
  v44 = (u8*)v1;
  _ZN14OpenVolumeMesh15ResourceManager21prop_ptr_from_storageIbNS_6Entity8HalfEdgeEEENS_11PropertyPtrIT_T0_EEPNS_19PropertyStorageBaseE(v1, v24);
  if (v_exc) {
    goto L25;
  }
  goto L12;
L12: ;
  v45 = (fnptr_t**)(&(*a0).f0.f0.f0.f0.f0.f0.f0.f0.f0);
  *v45 = ((fnptr_t*)((u8**)(&(*(&_ZTVN14OpenVolumeMesh18PropertyStoragePtrIbEE)).f0.e[(s64)((s64)((u64)2ULL))])));
  v46 = (struct S12_class_OpenVolumeMesh__PropertyStorageT**)(&(*a0).f0.f0.f0.f0.f0.f0.f0.f0.f1.f0.f0);
  v47 = (struct S12_class_OpenVolumeMesh__PropertyStorageT**)(&(*v1).f0.f0.f1.f0.f0);
  v48 = *v47;
  *v46 = v48;
  v49 = (struct S20_class_std___Sp_counted_base**)(&(*a0).f0.f0.f0.f0.f0.f0.f0.f0.f1.f0.f1.f0);
  v50 = (struct S20_class_std___Sp_counted_base**)(&(*v1).f0.f0.f1.f0.f1.f0);
  v51 = *v50;
  *v49 = v51;
  v52 = ((u8*)v51 == (u8*)((struct S20_class_std___Sp_counted_base*)0));
  if (v52) {
    goto L16;
  } else {
    goto L13;
  }
L13: ;
  v53 = (u32*)(&(*v51).f1);
  v54 = *(&__libc_single_threaded);
  v55 = (v54 == ((u8)0ULL));
  if (v55) {
    goto L15;
  } else {
    goto L14;
  }
L14: ;
  v56 = *v53;
  v57 = ((u32)(v56 + ((u32)1ULL)));
  *v53 = v57;
  goto L16;
L15: ;
  v58 = *v53;
  v59 = ((u32)(v58 + ((u32)1ULL)));
  *v53 = v59;
  goto L16;
L16: ;
  *v45 = ((fnptr_t*)((u8**)(&(*(&_ZTVN14OpenVolumeMesh14HandleIndexingINS_6Entity8HalfEdgeENS_18PropertyStoragePtrIbEEEE)).f0.e[(s64)((s64)((u64)2ULL))])));
  v60 = (fnptr_t**)(&(*a0).f0.f0.f0.f0.f0.f0.f1.f0);
  *v60 = ((fnptr_t*)((u8**)(&(*(&_ZTVN14OpenVolumeMesh15BasePropertyPtrE)).f0.e[(s64)((s64)((u64)2ULL))])));
  *v45 = ((fnptr_t*)((u8**)(&(*(&_ZTVN14OpenVolumeMesh11PropertyPtrIbNS_6Entity8HalfEdgeEEE)).f0.e[(s64)((s64)((u64)2ULL))])));
  *v60 = ((fnptr_t*)((u8**)(&(*(&_ZTVN14OpenVolumeMesh11PropertyPtrIbNS_6Entity8HalfEdgeEEE)).f1.e[(s64)((s64)((u64)2ULL))])));
  v61 = (u8*)(&(*a0).f0.f0.f0.f0.f1);
  *v61 = ((u8)1ULL);
  v62 = (fnptr_t**)(&(*v1).f0.f0.f0);
  *v62 = ((fnptr_t*)((u8**)(&(*(&_ZTVN14OpenVolumeMesh18PropertyStoragePtrIbEE)).f0.e[(s64)((s64)((u64)2ULL))])));
  v63 = *v50;
  v64 = ((u8*)v63 == (u8*)((struct S20_class_std___Sp_counted_base*)0));
  if (v64) {
    goto L24;
  } else {
    goto L17;
  }
L17: ;
  v65 = (u32*)(&(*v63).f1);
  v66 = (u64*)v65;
  v67 = (((u64)(*v63).f1 << 0) | ((u64)(*v63).f2 << 32));
  v68 = (v67 == ((u64)4294967297ULL));
  if (v68) {
    goto L18;
  } else {
    goto L19;
  }
L18: ;
  *v65 = ((u32)0ULL);
  v69 = (u32*)(&(*v63).f2);
  *v69 = ((u32)0ULL);
  v70 = (fnptr_t**)&(*v63).f0;
  v71 = *v70;
  v72 = (fnptr_t*)(v71 + (s64)((s64)((u64)2ULL)));
  v73 = *v72;
  ((FT1)v73)(v63);
  v74 = *v70;
  v75 = (fnptr_t*)(v74 + (s64)((s64)((u64)3ULL)));
  v76 = *v75;
  ((FT1)v76)(v63);
  goto L24;
L19: ;
  v77 = *(&__libc_single_threaded);
  v78 = (v77 == ((u8)0ULL));
  if (v78) {
    goto L21;
  } else {
    goto L20;
  }
L20: ;
  v79 = *v65;
  v80 = ((u32)(v79 + ((u32)4294967295ULL)));
  *v65 = v80;
  v83 = v79;
  goto L22;
L21: ;
  v81 = *v65;
  v82 = ((u32)(v81 + ((u32)4294967295ULL)));
  *v65 = v82;
  v83 = v81;
  goto L22;
L22: ;
  v84 = (v83 == ((u32)1ULL));
  if (v84) {
    goto L23;
  } else {
    goto L24;
  }
L23: ;
  _ZNSt16_Sp_counted_baseILN9__gnu_cxx12_Lock_policyE2EE24_M_release_last_use_coldEv(v63);
  goto L24;
L24: ;
  goto L30;
L25: ;
  v85.f0 = v_exc_obj;
  v85.f1 = 0;
  v_exc = 0;
  v86 = (u8**)(&(*v0).f0.f0);
  v87 = *v86;
  v88 = (struct S64_union_anon*)(&(*v0).f2);
  v89 = (u8*)v88;
  v90 = ((u8*)v87 == (u8*)v89);
  if (v90) {
    goto L28;
  } else {
    goto L27;
  }
L26: ;
  v91 = _ZSt18_Rb_tree_incrementPKSt18_Rb_tree_node_base(v21);
  v92 = ((u8*)v91 == (u8*)v12);
  if (v92) {
    goto L29;
  } else {
    v21 = v91;
    goto L4;
  }
L27: ;
  _ZdlPv(v87);
  goto L28;
L28: ;
  v_exc = 1; return;
L29: ;
  v93 = (u8*)(&(*a0).f0.f0.f0.f0.f1);
  *v93 = ((u8)0ULL);
  goto L30;
L30: ;
  v94 = (u8**)(&(*v0).f0.f0);
  v95 = *v94;
  v96 = (struct S64_union_anon*)(&(*v0).f2);
  v97 = (u8*)v96;
  v98 = ((u8*)v95 == (u8*)v97);
  if (v98) {
    goto L32;
  } else {
    goto L31;
  }
L31: ;
  _ZdlPv(v95);
  goto L32;
L32: ;
  goto L33;
L33: ;
  return;
}

void _ZNK14OpenVolumeMesh15ResourceManager24internal_create_propertyIbNS_6Entity8HalfEdgeEEENS_11PropertyPtrIT_T0_EENSt7__cxx1112basic_stringIcSt11char_traitsIcESaIcEEERKS5_b(struct S31_class_OpenVolumeMesh__PropertyPtr_86* a0, struct S53_class_OpenVolumeMesh__ResourceManager* a1, struct S14_class_std____cxx11__basic_string* a2, u8* a3, u1 a4) {
  struct S0_class_std__ios_base__Init* v0; struct S0_class_std__ios_base__Init v0_m;
  u8* v1; u8 v1_m;
  struct S56_class_std__shared_ptr_65* v2; struct S56_class_std__shared_ptr_65 v2_m;
  struct S13_class_OpenVolumeMesh__detail__Tracker** v3; struct S13_class_OpenVolumeMesh__detail__Tracker* v3_m;
  u8* v4; u8 v4_m;
  u8 v5;
  u8* v6;
  u8* v7;
  struct S13_class_OpenVolumeMesh__detail__Tracker* v8;
  u8* v9;
  struct S30_class_std____shared_ptr_66* v10;
  struct S12_class_OpenVolumeMesh__PropertyStorageT** v11;
  struct S12_class_OpenVolumeMesh__PropertyStorageT* v12;
  u64 v13;
  struct S15_class_std__vector_46* v14;
  u64** v15;
  u64* v16;
  u32* v17;
  u32 v18;
  u64** v19;
  u64* v20;
  u64 v21;
  u64 v22;
  u64 v23;
  u64 v24;
  u64 v25;
  u64 v26;
  u1 v27;
  u64 v28;
  u64* v29;
  u64 v30;
  u1 v31;
  u64 v32;
  u64 v33;
  u64* v34;
  u64 v35;
  u32 v36;
  u8* v37;
  u8 v38;
  u1 v39;
  u64 v40;
  struct S12_class_OpenVolumeMesh__PropertyStorageT** v41;
  struct S12_class_OpenVolumeMesh__PropertyStorageT* v42;
  struct S20_class_std___Sp_counted_base** v43;
  struct S20_class_std___Sp_counted_base* v44;
  fnptr_t** v45;
  u8* v46;
  struct S12_class_OpenVolumeMesh__PropertyStorageT** v47;
  struct S20_class_std___Sp_counted_base** v48;
  fnptr_t** v49;
  struct S20_class_std___Sp_counted_base** v50;
  struct S20_class_std___Sp_counted_base* v51;
  u1 v52;
  u32* v53;
  u64* v54;
  u64 v55;
  u1 v56;
  u32* v57;
  fnptr_t** v58;
  fnptr_t* v59;
  fnptr_t* v60;
  fnptr_t v61;
  fnptr_t* v62;
  fnptr_t* v63;
  fnptr_t v64;
  u8 v65;
  u1 v66;
  u32 v67;
  u32 v68;
  u32 v69;
  u32 v70;
  u32 v71; u32 v71_t;
  u1 v72;
  struct S65 v73;
L0: ;
  v0 = &v0_m;
  v1 = &v1_m;
  v2 = &v2_m;
  v3 = &v3_m;
  v4 = &v4_m;
  v5 = ((u8)(a4));
  *v1 = v5;
  v6 = (u8*)v2;
  v7 = (u8*)v3;
  v8 = (struct S13_class_OpenVolumeMesh__detail__Tracker*)(&(*a1).f2.f0.f0.e[(s64)((s64)((u64)2ULL))]);
  *v3 = v8;
  *v4 = ((u8)2ULL);
  v9 = (u8*)(&(*v0).f0);
  v10 = (struct S30_class_std____shared_ptr_66*)(&(*v2).f0);
  _ZNSt12__shared_ptrIN14OpenVolumeMesh16PropertyStorageTIbEELN9__gnu_cxx12_Lock_policyE2EEC2ISaIvEJPNS0_6detail7TrackerINS0_19PropertyStorageBaseEEENSt7__cxx1112basic_stringIcSt11char_traitsIcESaIcEEENS0_10EntityTypeERKbRbEEESt20_Sp_alloc_shared_tagIT_EDpOT0_(v10, v0, v3, a2, v4, a3, v1);
  if (v_exc) return;
  v11 = (struct S12_class_OpenVolumeMesh__PropertyStorageT**)(&(*v2).f0.f0);
  v12 = *v11;
  v13 = _ZNK14OpenVolumeMesh15ResourceManager1nINS_6Entity8HalfEdgeEEEmv(a1);
  if (v_exc) {
    goto L13;
  }
  goto L1;
L1: ;
  v14 = (struct S15_class_std__vector_46*)(&(*v12).f2);
  v15 = (u64**)(&(*v12).f2.f0.f0.f0.f1.f0.f0);
  v16 = *v15;
  v17 = (u32*)(&(*v12).f2.f0.f0.f0.f1.f0.f1);
  v18 = *v17;
  v19 = (u64**)(&(*v14).f0.f0.f0.f0.f0.f0);
  v20 = *v19;
  v21 = ((u64)((u64)v16));
  v22 = ((u64)((u64)v20));
  v23 = v_pdiff((u8*)v16, (u8*)v20);
  v24 = ((u64)(v23 << ((u64)3ULL)));
  v25 = ((u64)(v18));
  v26 = ((u64)(v24 + v25));
  v27 = (v13 < v26);
  if (v27) {
    goto L2;
  } else {
    goto L3;
  }
L2: ;
  v28 = ((u64)(((s64)v13) / ((s64)((u64)64ULL))));
  v29 = (u64*)(v20 + (s64)((s64)v28));
  v30 = ((u64)(((s64)v13) % ((s64)((u64)64ULL))));
  v31 = (((s64)v30) < ((s64)((u64)0ULL)));
  v32 = ((u64)(v30 + ((u64)64ULL)));
  v33 = ((u64)(((s64)v30) >> ((u64)63ULL)));
  v34 = (u64*)(v29 + (s64)((s64)v33));
  v35 = (v31 ? v32 : v30);
  v36 = ((u32)(v35));
  *v15 = v34;
  *v17 = v36;
  goto L4;
L3: ;
  v37 = (u8*)(&(*v12).f3);
  v38 = *v37;
  v39 = (v38 != ((u8)0ULL));
  v40 = ((u64)(v13 - v26));
  _ZNSt6vectorIbSaIbEE14_M_fill_insertESt13_Bit_iteratormb(v14, v16, v18, v40, v39);
  if (v_exc) {
    goto L13;
  }
  goto L4;
L4: ;
  v41 = (struct S12_class_OpenVolumeMesh__PropertyStorageT**)(&(*v2).f0.f0);
  v42 = *v41;
  v43 = (struct S20_class_std___Sp_counted_base**)(&(*v2).f0.f1.f0);
  v44 = *v43;
  v45 = (fnptr_t**)(&(*a0).f0.f0.f0);
  v46 = (u8*)v2;
  (*v2).f0.f0 = (struct S12_class_OpenVolumeMesh__PropertyStorageT*)0;
  (*v2).f0.f1.f0 = (struct S20_class_std___Sp_counted_base*)0;
  *v45 = ((fnptr_t*)((u8**)(&(*(&_ZTVN14OpenVolumeMesh18PropertyStoragePtrIbEE)).f0.e[(s64)((s64)((u64)2ULL))])));
  v47 = (struct S12_class_OpenVolumeMesh__PropertyStorageT**)(&(*a0).f0.f0.f1.f0.f0);
  *v47 = v42;
  v48 = (struct S20_class_std___Sp_counted_base**)(&(*a0).f0.f0.f1.f0.f1.f0);
  *v48 = v44;
  *v45 = ((fnptr_t*)((u8**)(&(*(&_ZTVN14OpenVolumeMesh14HandleIndexingINS_6Entity8HalfEdgeENS_18PropertyStoragePtrIbEEEE)).f0.e[(s64)((s64)((u64)2ULL))])));
  v49 = (fnptr_t**)(&(*a0).f1.f0);
  *v49 = ((fnptr_t*)((u8**)(&(*(&_ZTVN14OpenVolumeMesh15BasePropertyPtrE)).f0.e[(s64)((s64)((u64)2ULL))])));
  *v45 = ((fnptr_t*)((u8**)(&(*(&_ZTVN14OpenVolumeMesh11PropertyPtrIbNS_6Entity8HalfEdgeEEE)).f0.e[(s64)((s64)((u64)2ULL))])));
  *v49 = ((fnptr_t*)((u8**)(&(*(&_ZTVN14OpenVolumeMesh11PropertyPtrIbNS_6Entity8HalfEdgeEEE)).f1.e[(s64)((s64)((u64)2ULL))])));
  v50 = (struct S20_class_std___Sp_counted_base**)(&(*v2).f0.f1.f0);
  v51 = *v50;
  v52 = ((u8*)v51 == (u8*)((struct S20_class_std___Sp_counted_base*)0));
  if (v52) {
    goto L12;
  } else {
    goto L5;
  }
L5: ;
  v53 = (u32*)(&(*v51).f1);
  v54 = (u64*)v53;
  v55 = (((u64)(*v51).f1 << 0) | ((u64)(*v51).f2 << 32));
  v56 = (v55 == ((u64)4294967297ULL));
  if (v56) {
    goto L6;
  } else {
    goto L7;
  }
L6: ;
  *v53 = ((u32)0ULL);
  v57 = (u32*)(&(*v51).f2);
  *v57 = ((u32)0ULL);
  v58 = (fnptr_t**)&(*v51).f0;
  v59 = *v58;
  v60 = (fnptr_t*)(v59 + (s64)((s64)((u64)2ULL)));
  v61 = *v60;
  ((FT1)v61)(v51);
  v62 = *v58;
  v63 = (fnptr_t*)(v62 + (s64)((s64)((u64)3ULL)));
  v64 = *v63;
  ((FT1)v64)(v51);
  goto L12;
L7: ;
  v65 = *(&__libc_single_threaded);
  v66 = (v65 == ((u8)0ULL));
  if (v66) {
    goto L9;
  } else {
    goto L8;
  }
L8: ;
  v67 = *v53;
  v68 = ((u32)(v67 + ((u32)4294967295ULL)));
  *v53 = v68;
  v71 = v67;
  goto L10;
L9: ;
  v69 = *v53;
  v70 = ((u32)(v69 + ((u32)4294967295ULL)));
  *v53 = v70;
  v71 = v69;
  goto L10;
L10: ;
  v72 = (v71 == ((u32)1ULL));
  if (v72) {
    goto L11;
  } else {
    goto L12;
  }
L11: ;
  _ZNSt16_Sp_counted_baseILN9__gnu_cxx12_Lock_policyE2EE24_M_release_last_use_coldEv(v51);
  goto L12;
L12: ;
  return;
L13: ;
  v73.f0 = v_exc_obj;
  v73.f1 = 0;
  v_exc = 0;
  _ZNSt12__shared_ptrIN14OpenVolumeMesh16PropertyStorageTIbEELN9__gnu_cxx12_Lock_policyE2EED2Ev(v10);
  v_exc = 1; return;
}

void _ZNSt14_Optional_baseIN14OpenVolumeMesh11PropertyPtrIbNS0_6Entity8HalfEdgeEEELb0ELb0EED2Ev(struct S59_struct_std___Optional_base_185* a0) {
  u8* v0;
  u8 v1;
  u1 v2;
  fnptr_t** v3;
  struct S20_class_std___Sp_counted_base** v4;
  struct S20_class_std___Sp_counted_base* v5;
  u1 v6;
  u32* v7;
  u64* v8;
  u64 v9;
  u1 v10;
  u32* v11;
  fnptr_t** v12;
  fnptr_t* v13;
  fnptr_t* v14;
  fnptr_t v15;
  fnptr_t* v16;
  fnptr_t* v17;
  fnptr_t v18;
  u8 v19;
  u1 v20;
  u32 v21;
  u32 v22;
  u32 v23;
  u32 v24;
  u32 v25; u32 v25_t;
  u1 v26;
L0: ;
  v0 = (u8*)(&(*a0).f0.f0.f0.f1);
  v1 = *v0;
  v2 = (v1 == ((u8)0ULL));
  if (v2) {
    goto L9;
  } else {
    goto L1;
  }
L1: ;
  *v0 = ((u8)0ULL);
  v3 = (fnptr_t**)(&(*a0).f0.f0.f0.f0.f0.f0.f0.f0);
  *v3 = ((fnptr_t*)((u8**)(&(*(&_ZTVN14OpenVolumeMesh18PropertyStoragePtrIbEE)).f0.e[(s64)((s64)((u64)2ULL))])));
  v4 = (struct S20_class_std___Sp_counted_base**)(&(*a0).f0.f0.f0.f0.f0.f0.f0.f1.f0.f1.f0);
  v5 = *v4;
  v6 = ((u8*)v5 == (u8*)((struct S20_class_std___Sp_counted_base*)0));
  if (v6) {
    goto L9;
  } else {
    goto L2;
  }
L2: ;
  v7 = (u32*)(&(*v5).f1);
  v8 = (u64*)v7;
  v9 = (((u64)(*v5).f1 << 0) | ((u64)(*v5).f2 << 32));
  v10 = (v9 == ((u64)4294967297ULL));
  if (v10) {
    goto L3;
  } else {
    goto L4;
  }
L3: ;
  *v7 = ((u32)0ULL);
  v11 = (u32*)(&(*v5).f2);
  *v11 = ((u32)0ULL);
  v12 = (fnptr_t**)&(*v5).f0;
  v13 = *v12;
  v14 = (fnptr_t*)(v13 + (s64)((s64)((u64)2ULL)));
  v15 = *v14;
  ((FT1)v15)(v5);
  v16 = *v12;
  v17 = (fnptr_t*)(v16 + (s64)((s64)((u64)3ULL)));
  v18 = *v17;
  ((FT1)v18)(v5);
  goto L9;
L4: ;
  v19 = *(&__libc_single_threaded);
  v20 = (v19 == ((u8)0ULL));
  if (v20) {
    goto L6;
  } else {
    goto L5;
  }
L5: ;
  v21 = *v7;
  v22 = ((u32)(v21 + ((u32)4294967295ULL)));
  *v7 = v22;
  v25 = v21;
  goto L7;
L6: ;
  v23 = *v7;
  v24 = ((u32)(v23 + ((u32)4294967295ULL)));
  *v7 = v24;
  v25 = v23;
  goto L7;
L7: ;
  v26 = (v25 == ((u32)1ULL));
  if (v26) {
    goto L8;
  } else {
    goto L9;
  }
L8: ;
  _ZNSt16_Sp_counted_baseILN9__gnu_cxx12_Lock_policyE2EE24_M_release_last_use_coldEv(v5);
  goto L9;
L9: ;
  return;
}

void _ZN14OpenVolumeMesh15ResourceManager21prop_ptr_from_storageIbNS_6Entity8HalfEdgeEEENS_11PropertyPtrIT_T0_EEPNS_19PropertyStorageBaseE(struct S31_class_OpenVolumeMesh__PropertyPtr_86* a0, struct S22_class_OpenVolumeMesh__PropertyStorageBas* a1) {
  struct S20_class_std___Sp_counted_base** v0;
  struct S20_class_std___Sp_counted_base* v1;
  u1 v2;
  u32* v3;
  u32 v4;
  u32 v5; u32 v5_t;
  u1 v6;
  u32 v7;
  u32 v8;
  u1 v9;
  u32 v10;
  struct S69 v11;
  struct S69 v12;
  u1 v13;
  u32 v14;
  u8* v15;
  u64* v16;
  fnptr_t** v17;
  struct S22_class_OpenVolumeMesh__PropertyStorageBas** v18;
  struct S12_class_OpenVolumeMesh__PropertyStorageT** v19;
  struct S12_class_OpenVolumeMesh__PropertyStorageT* v20;
  u8 v21;
  u1 v22;
  u32 v23;
  u32 v24;
  u32 v25;
  u32 v26;
  u64* v27;
  u64 v28;
  u1 v29;
  u32* v30;
  fnptr_t** v31;
  fnptr_t* v32;
  fnptr_t* v33;
  fnptr_t v34;
  fnptr_t* v35;
  fnptr_t* v36;
  fnptr_t v37;
  u8 v38;
  u1 v39;
  u32 v40;
  u32 v41;
  u32 v42;
  u32 v43;
  u32 v44; u32 v44_t;
  u1 v45;
  fnptr_t** v46;
  struct S12_class_OpenVolumeMesh__PropertyStorageT** v47;
  struct S20_class_std___Sp_counted_base** v48;
  fnptr_t** v49;
L0: ;
  v0 = (struct S20_class_std___Sp_counted_base**)(&(*a1).f1.f0.f0.f1.f0);
  v1 = *v0;
  v2 = ((u8*)v1 == (u8*)((struct S20_class_std___Sp_counted_base*)0));
  if (v2) {
    goto L4;
  } else {
    goto L1;
  }
L1: ;
  v3 = (u32*)(&(*v1).f1);
  v4 = *v3;
  v5 = v4;
  goto L2;
L2: ;
  v6 = (v5 == ((u32)0ULL));
  if (v6) {
    goto L4;
  } else {
    goto L3;
  }
L3: ;
  v7 = ((u32)(v5 + ((u32)1ULL)));
  v8 = *v3;
  v9 = (v8 == v5);
  v10 = (v9 ? v7 : v8);
  *v3 = v10;
  v11.f0 = v8;
  v12 = v11;
  v12.f1 = v9;
  v13 = v12.f1;
  v14 = v12.f0;
  if (v13) {
    goto L5;
  } else {
    v5 = v14;
    goto L2;
  }
L4: ;
  v15 = __cxa_allocate_exception(((u64)8ULL));
  v16 = (u64*)v15;
  *v16 = ((u64)0ULL);
  v17 = (fnptr_t**)v15;
  *v17 = ((fnptr_t*)((u8**)(&(*(&_ZTVSt12bad_weak_ptr)).f0.e[(s64)((s64)((u64)2ULL))])));
  __cxa_throw(v15, ((u8*)(&_ZTISt12bad_weak_ptr)), ((u8*)((fnptr_t)_ZNSt12bad_weak_ptrD1Ev)));
  if (v_exc) return;
  __CPROVER_assume(0);
L5: ;
  v18 = (struct S22_class_OpenVolumeMesh__PropertyStorageBas**)(&(*a1).f1.f0.f0.f0);
  v19 = (struct S12_class_OpenVolumeMesh__PropertyStorageT**)&(*a1).f1.f0.f0.f0;
  v20 = *v19;
  v21 = *(&__libc_single_threaded);
  v22 = (v21 == ((u8)0ULL));
  if (v22) {
    goto L7;
  } else {
    goto L6;
  }
L6: ;
  v23 = *v3;
  v24 = ((u32)(v23 + ((u32)1ULL)));
  *v3 = v24;
  goto L8;
L7: ;
  v25 = *v3;
  v26 = ((u32)(v25 + ((u32)1ULL)));
  *v3 = v26;
  goto L8;
L8: ;
  v27 = (u64*)v3;
  v28 = (((u64)(*v1).f1 << 0) | ((u64)(*v1).f2 << 32));
  v29 = (v28 == ((u64)4294967297ULL));
  if (v29) {
    goto L9;
  } else {
    goto L10;
  }
L9: ;
  *v3 = ((u32)0ULL);
  v30 = (u32*)(&(*v1).f2);
  *v30 = ((u32)0ULL);
  v31 = (fnptr_t**)&(*v1).f0;
  v32 = *v31;
  v33 = (fnptr_t*)(v32 + (s64)((s64)((u64)2ULL)));
  v34 = *v33;
  ((FT1)v34)(v1);
  v35 = *v31;
  v36 = (fnptr_t*)(v35 + (s64)((s64)((u64)3ULL)));
  v37 = *v36;
  ((FT1)v37)(v1);
  goto L15;
L10: ;
  v38 = *(&__libc_single_threaded);
  v39 = (v38 == ((u8)0ULL));
  if (v39) {
    goto L12;
  } else {
    goto L11;
  }
L11: ;
  v40 = *v3;
  v41 = ((u32)(v40 + ((u32)4294967295ULL)));
  *v3 = v41;
  v44 = v40;
  goto L13;
L12: ;
  v42 = *v3;
  v43 = ((u32)(v42 + ((u32)4294967295ULL)));
  *v3 = v43;
  v44 = v42;
  goto L13;
L13: ;
  v45 = (v44 == ((u32)1ULL));
  if (v45) {
    goto L14;
  } else {
    goto L15;
  }
L14: ;
  _ZNSt16_Sp_counted_baseILN9__gnu_cxx12_Lock_policyE2EE24_M_release_last_use_coldEv(v1);
  goto L15;
L15: ;
  v46 = (fnptr_t**)(&(*a0).f0.f0.f0);
  *v46 = ((fnptr_t*)((u8**)(&(*(&_ZTVN14OpenVolumeMesh18PropertyStoragePtrIbEE)).f0.e[(s64)((s64)((u64)2ULL))])));
  v47 = (struct S12_class_OpenVolumeMesh__PropertyStorageT**)(&(*a0).f0.f0.f1.f0.f0);
  *v47 = v20;
  v48 = (struct S20_class_std___Sp_counted_base**)(&(*a0).f0.f0.f1.f0.f1.f0);
  *v48 = v1;
  *v46 = ((fnptr_t*)((u8**)(&(*(&_ZTVN14OpenVolumeMesh14HandleIndexingINS_6Entity8HalfEdgeENS_18PropertyStoragePtrIbEEEE)).f0.e[(s64)((s64)((u64)2ULL))])));
  v49 = (fnptr_t**)(&(*a0).f1.f0);
  *v49 = ((fnptr_t*)((u8**)(&(*(&_ZTVN14OpenVolumeMesh15BasePropertyPtrE)).f0.e[(s64)((s64)((u64)2ULL))])));
  *v46 = ((fnptr_t*)((u8**)(&(*(&_ZTVN14OpenVolumeMesh11PropertyPtrIbNS_6Entity8HalfEdgeEEE)).f0.e[(s64)((s64)((u64)2ULL))])));
  *v49 = ((fnptr_t*)((u8**)(&(*(&_ZTVN14OpenVolumeMesh11PropertyPtrIbNS_6Entity8HalfEdgeEEE)).f1.e[(s64)((s64)((u64)2ULL))])));
  return;
}

void _ZN14OpenVolumeMesh15ResourceManager16request_propertyIbNS_6Entity4EdgeEEENS_11PropertyPtrIT_T0_EERKNSt7__cxx1112basic_stringIcSt11char_traitsIcESaIcEEERKS5_(struct S31_class_OpenVolumeMesh__PropertyPtr_86* a0, struct S53_class_OpenVolumeMesh__ResourceManager* a1, struct S14_class_std____cxx11__basic_string* a2, u8* a3) {
  u64* v0; u64 v0_m;
  struct S58_class_std__optional_184* v1; struct S58_class_std__optional_184 v1_m;
  struct S14_class_std____cxx11__basic_string* v2; struct S14_class_std____cxx11__basic_string v2_m;
  u8* v3;
  u8* v4;
  u8 v5;
  u1 v6;
  fnptr_t** v7;
  struct S12_class_OpenVolumeMesh__PropertyStorageT** v8;
  struct S12_class_OpenVolumeMesh__PropertyStorageT** v9;
  struct S12_class_OpenVolumeMesh__PropertyStorageT* v10;
  struct S20_class_std___Sp_counted_base** v11;
  struct S20_class_std___Sp_counted_base** v12;
  struct S20_class_std___Sp_counted_base* v13;
  u1 v14;
  u32* v15;
  u8 v16;
  u1 v17;
  u32 v18;
  u32 v19;
  u32 v20;
  u32 v21;
  fnptr_t** v22;
  u64* v23;
  u64 v24;
  u1 v25;
  struct S64_union_anon* v26;
  struct S64_union_anon** v27;
  u8** v28;
  u8* v29;
  u8* v30;
  u1 v31;
  u8* v32;
  u8** v33;
  u64 v34;
  u64* v35;
  u8** v36;
  u8* v37;
  u8 v38;
  u64 v39;
  u64* v40;
  u8* v41;
  u8* v42;
  u8* v43;
  u8* v44;
  u1 v45;
  struct S65 v46;
  struct S65 v47;
  u8* v48;
  u8* v49;
  u1 v50;
  struct S65 v51; struct S65 v51_t;
  struct S59_struct_std___Optional_base_185* v52;
  u8* v53;
  u8 v54;
  u1 v55;
  fnptr_t** v56;
  struct S20_class_std___Sp_counted_base** v57;
  struct S20_class_std___Sp_counted_base* v58;
  u1 v59;
  u32* v60;
  u64* v61;
  u64 v62;
  u1 v63;
  u32* v64;
  fnptr_t** v65;
  fnptr_t* v66;
  fnptr_t* v67;
  fnptr_t v68;
  fnptr_t* v69;
  fnptr_t* v70;
  fnptr_t v71;
  u8 v72;
  u1 v73;
  u32 v74;
  u32 v75;
  u32 v76;
  u32 v77;
  u32 v78; u32 v78_t;
  u1 v79;
L0: ;
  v0 = &v0_m;
  v1 = &v1_m;
  v2 = &v2_m;
  v3 = (u8*)v1;
  _ZNK14OpenVolumeMesh15ResourceManager22internal_find_propertyIbNS_6Entity4EdgeEEESt8optionalINS_11PropertyPtrIT_T0_EEERKNSt7__cxx1112basic_stringIcSt11char_traitsIcESaIcEEE(v1, a1, a2);
  if (v_exc) return;
  v4 = (u8*)(&(*v1).f0.f0.f0.f0.f1);
  v5 = *v4;
  v6 = (v5 == ((u8)0ULL));
  if (v6) {
    goto L6;
  } else {
    goto L1;
  }
L1: ;
  v7 = (fnptr_t**)(&(*a0).f0.f0.f0);
  *v7 = ((fnptr_t*)((u8**)(&(*(&_ZTVN14OpenVolumeMesh18PropertyStoragePtrIbEE)).f0.e[(s64)((s64)((u64)2ULL))])));
  v8 = (struct S12_class_OpenVolumeMesh__PropertyStorageT**)(&(*a0).f0.f0.f1.f0.f0);
  v9 = (struct S12_class_OpenVolumeMesh__PropertyStorageT**)(&(*v1).f0.f0.f0.f0.f0.f0.f0.f0.f1.f0.f0);
  v10 = *v9;
  *v8 = v10;
  v11 = (struct S20_class_std___Sp_counted_base**)(&(*a0).f0.f0.f1.f0.f1.f0);
  v12 = (struct S20_class_std___Sp_counted_base**)(&(*v1).f0.f0.f0.f0.f0.f0.f0.f0.f1.f0.f1.f0);
  v13 = *v12;
  *v11 = v13;
  v14 = ((u8*)v13 == (u8*)((struct S20_class_std___Sp_counted_base*)0));
  if (v14) {
    goto L5;
  } else {
    goto L2;
  }
L2: ;
  v15 = (u32*)(&(*v13).f1);
  v16 = *(&__libc_single_threaded);
  v17 = (v16 == ((u8)0ULL));
  if (v17) {
    goto L4;
  } else {
    goto L3;
  }
L3: ;
  v18 = *v15;
  v19 = ((u32)(v18 + ((u32)1ULL)));
  *v15 = v19;
  goto L5;
L4: ;
  v20 = *v15;
  v21 = ((u32)(v20 + ((u32)1ULL)));
  *v15 = v21;
  goto L5;
L5: ;
  *v7 = ((fnptr_t*)((u8**)(&(*(&_ZTVN14OpenVolumeMesh14HandleIndexingINS_6Entity4EdgeENS_18PropertyStoragePtrIbEEEE)).f0.e[(s64)((s64)((u64)2ULL))])));
  v22 = (fnptr_t**)(&(*a0).f1.f0);
  *v22 = ((fnptr_t*)((u8**)(&(*(&_ZTVN14OpenVolumeMesh15BasePropertyPtrE)).f0.e[(s64)((s64)((u64)2ULL))])));
  *v7 = ((fnptr_t*)((u8**)(&(*(&_ZTVN14OpenVolumeMesh11PropertyPtrIbNS_6Entity4EdgeEEE)).f0.e[(s64)((s64)((u64)2ULL))])));
  *v22 = ((fnptr_t*)((u8**)(&(*(&_ZTVN14OpenVolumeMesh11PropertyPtrIbNS_6Entity4EdgeEEE)).f1.e[(s64)((s64)((u64)2ULL))])));
  goto L19;
L6: ;
  v23 = (u64*)(&(*a2).f1);
  v24 = *v23;
  v25 = (v24 != ((u64)0ULL));
  v26 = (struct S64_union_anon*)(&(*v2).f2);
  v27 = (struct S64_union_anon**)&(*v2).f0.f0;
  *v27 = v26;
  v28 = (u8**)(&(*a2).f0.f0);
  v29 = *v28;
  v30 = (u8*)v0;
  *v0 = v24;
  v31 = (v24 > ((u64)15ULL));
  if (v31) {
    goto L7;
  } else {
    goto L9;
  }
L7: ;
  v32 = _ZNSt7__cxx1112basic_stringIcSt11char_traitsIcESaIcEE9_M_createERmm(v2, v0, ((u64)0ULL));
  if (v_exc) {
    goto L15;
  }
  goto L8;
L8: ;
  v33 = (u8**)(&(*v2).f0.f0);
  *v33 = v32;
  v34 = *v0;
  v35 = (u64*)(&(*v2).f2.f0.e[0]);
  *v35 = v34;
  goto L9;
L9: ;
  v36 = (u8**)(&(*v2).f0.f0);
  v37 = *v36;
  switch (v24) {
  case ((u64)1ULL): {
    goto L10;
  }
  case ((u64)0ULL): {
    goto L12;
  }
  default: {
    goto L11;
  }
  }
L10: ;
  v38 = *v29;
  *v37 = v38;
  goto L12;
L11: ;
  v_memcpy((u8*)v37, (u8*)v29, (u64)v24);
  goto L12;
L12: ;
  v39 = *v0;
  v40 = (u64*)(&(*v2).f1);
  *v40 = v39;
  v41 = *v36;
  v42 = (u8*)(v41 + (s64)((s64)v39));
  *v42 = ((u8)0ULL);
  _ZNK14OpenVolumeMesh15ResourceManager24internal_create_propertyIbNS_6Entity4EdgeEEENS_11PropertyPtrIT_T0_EENSt7__cxx1112basic_stringIcSt11char_traitsIcESaIcEEERKS5_b(a0, a1, v2, a3, v25);
  if (v_exc) {
    goto L16;
  }
  goto L13;
L13: ;
  v43 = *v36;
  v44 = (u8*)v26;
  v45 = ((u8*)v43 == (u8*)v44);
  if (v45) {
    goto L19;
  } else {
    goto L14;
  }
L14: ;
  _ZdlPv(v43);
  goto L19;
L15: ;
  v46.f0 = v_exc_obj;
  v46.f1 = 0;
  v_exc = 0;
  v51 = v46;
  goto L18;
L16: ;
  v47.f0 = v_exc_obj;
  v47.f1 = 0;
  v_exc = 0;
  v48 = *v36;
  v49 = (u8*)v26;
  v50 = ((u8*)v48 == (u8*)v49);
  if (v50) {
    v51 = v47;
    goto L18;
  } else {
    goto L17;
  }
L17: ;
  _ZdlPv(v48);
  v51 = v47;
  goto L18;
L18: ;
  v52 = (struct S59_struct_std___Optional_base_185*)(&(*v1).f0);
  _ZNSt14_Optional_baseIN14OpenVolumeMesh11PropertyPtrIbNS0_6Entity4EdgeEEELb0ELb0EED2Ev(v52);
  v_exc = 1; return;
L19: ;
  v53 = (u8*)(&(*v1).f0.f0.f0.f0.f1);
  v54 = *v53;
  v55 = (v54 == ((u8)0ULL));
  if (v55) {
    goto L28;
  } else {
    goto L20;
  }
L20: ;
  *v53 = ((u8)0ULL);
  v56 = (fnptr_t**)(&(*v1).f0.f0.f0.f0.f0.f0.f0.f0.f0);
  *v56 = ((fnptr_t*)((u8**)(&(*(&_ZTVN14OpenVolumeMesh18PropertyStoragePtrIbEE)).f0.e[(s64)((s64)((u64)2ULL))])));
  v57 = (struct S20_class_std___Sp_counted_base**)(&(*v1).f0.f0.f0.f0.f0.f0.f0.f0.f1.f0.f1.f0);
  v58 = *v57;
  v59 = ((u8*)v58 == (u8*)((struct S20_class_std___Sp_counted_base*)0));
  if (v59) {
    goto L28;
  } else {
    goto L21;
  }
L21: ;
  v60 = (u32*)(&(*v58).f1);
  v61 = (u64*)v60;
  v62 = (((u64)(*v58).f1 << 0) | ((u64)(*v58).f2 << 32));
  v63 = (v62 == ((u64)4294967297ULL));
  if (v63) {
    goto L22;
  } else {
    goto L23;
  }
L22: ;
  *v60 = ((u32)0ULL);
  v64 = (u32*)(&(*v58).f2);
  *v64 = ((u32)0ULL);
  v65 = (fnptr_t**)&(*v58).f0;
  v66 = *v65;
  v67 = (fnptr_t*)(v66 + (s64)((s64)((u64)2ULL)));
  v68 = *v67;
  ((FT1)v68)(v58);
  v69 = *v65;
  v70 = (fnptr_t*)(v69 + (s64)((s64)((u64)3ULL)));
  v71 = *v70;
  ((FT1)v71)(v58);
  goto L28;
L23: ;
  v72 = *(&__libc_single_threaded);
  v73 = (v72 == ((u8)0ULL));
  if (v73) {
    goto L25;
  } else {
    goto L24;
  }
L24: ;
  v74 = *v60;
  v75 = ((u32)(v74 + ((u32)4294967295ULL)));
  *v60 = v75;
  v78 = v74;
  goto L26;
L25: ;
  v76 = *v60;
  v77 = ((u32)(v76 + ((u32)4294967295ULL)));
  *v60 = v77;
  v78 = v76;
  goto L26;
L26: ;
  v79 = (v78 == ((u32)1ULL));
  if (v79) {
    goto L27;
  } else {
    goto L28;
  }
L27: ;
  _ZNSt16_Sp_counted_baseILN9__gnu_cxx12_Lock_policyE2EE24_M_release_last_use_coldEv(v58);
  goto L28;
L28: ;
  return;
}

void _ZN14OpenVolumeMesh15ResourceManager14set_persistentIbNS_6Entity4EdgeEEEvRNS_11PropertyPtrIT_T0_EEb(struct S53_class_OpenVolumeMesh__ResourceManager* a0, struct S31_class_OpenVolumeMesh__PropertyPtr_86* a1, u1 a2) {
  struct S25_class_std__weak_ptr* v0; struct S25_class_std__weak_ptr v0_m;
  struct S12_class_OpenVolumeMesh__PropertyStorageT** v1;
  struct S22_class_OpenVolumeMesh__PropertyStorageBas** v2;
  struct S22_class_OpenVolumeMesh__PropertyStorageBas* v3;
  u8* v4;
  u8 v5;
  u1 v6;
  u1 v7;
  u8* v8;
  struct S56_class_std__shared_ptr_65* v9;
  struct S22_class_OpenVolumeMesh__PropertyStorageBas** v10;
  struct S22_class_OpenVolumeMesh__PropertyStorageBas* v11;
  struct S22_class_OpenVolumeMesh__PropertyStorageBas** v12;
  struct S20_class_std___Sp_counted_base** v13;
  struct S20_class_std___Sp_counted_base** v14;
  struct S20_class_std___Sp_counted_base* v15;
  u1 v16;
  u32* v17;
  u8 v18;
  u1 v19;
  u32 v20;
  u32 v21;
  u32 v22;
  u32 v23;
  struct S22_class_OpenVolumeMesh__PropertyStorageBas* v24;
  u8* v25;
  u8 v26;
  u1 v27;
  u8* v28;
  struct S29_class_std__runtime_error* v29;
  struct S65 v30;
  struct S65 v31;
  struct S16_class_std___Rb_tree_5* v32;
  struct S36 v33;
  struct S43_class_std__map* v34;
  u8* v35;
  u8* v36;
  struct S41_struct_std___Rb_tree_node_31** v37;
  u8* v38;
  struct S17_struct_std___Rb_tree_node_base* v39;
  struct S41_struct_std___Rb_tree_node_31* v40;
  u1 v41;
  struct S22_class_OpenVolumeMesh__PropertyStorageBas* v42;
  struct S41_struct_std___Rb_tree_node_31* v43; struct S41_struct_std___Rb_tree_node_31* v43_t;
  struct S17_struct_std___Rb_tree_node_base* v44; struct S17_struct_std___Rb_tree_node_base* v44_t;
  struct S72_struct___gnu_cxx____aligned_membuf_32* v45;
  struct S22_class_OpenVolumeMesh__PropertyStorageBas** v46;
  struct S22_class_OpenVolumeMesh__PropertyStorageBas* v47;
  u1 v48;
  struct S17_struct_std___Rb_tree_node_base** v49;
  u1 v50;
  struct S17_struct_std___Rb_tree_node_base* v51;
  struct S17_struct_std___Rb_tree_node_base** v52;
  struct S41_struct_std___Rb_tree_node_31** v53;
  struct S41_struct_std___Rb_tree_node_31* v54;
  struct S17_struct_std___Rb_tree_node_base** v55;
  struct S41_struct_std___Rb_tree_node_31** v56;
  struct S41_struct_std___Rb_tree_node_31* v57;
  u1 v58;
  struct S41_struct_std___Rb_tree_node_31* v59; struct S41_struct_std___Rb_tree_node_31* v59_t;
  struct S17_struct_std___Rb_tree_node_base* v60; struct S17_struct_std___Rb_tree_node_base* v60_t;
  struct S72_struct___gnu_cxx____aligned_membuf_32* v61;
  struct S22_class_OpenVolumeMesh__PropertyStorageBas** v62;
  struct S22_class_OpenVolumeMesh__PropertyStorageBas* v63;
  u1 v64;
  struct S17_struct_std___Rb_tree_node_base** v65;
  struct S17_struct_std___Rb_tree_node_base* v66;
  struct S17_struct_std___Rb_tree_node_base** v67;
  struct S17_struct_std___Rb_tree_node_base* v68;
  struct S17_struct_std___Rb_tree_node_base** v69;
  struct S41_struct_std___Rb_tree_node_31** v70;
  struct S41_struct_std___Rb_tree_node_31* v71;
  u1 v72;
  struct S17_struct_std___Rb_tree_node_base* v73; struct S17_struct_std___Rb_tree_node_base* v73_t;
  u1 v74;
  struct S41_struct_std___Rb_tree_node_31* v75; struct S41_struct_std___Rb_tree_node_31* v75_t;
  struct S17_struct_std___Rb_tree_node_base* v76; struct S17_struct_std___Rb_tree_node_base* v76_t;
  struct S72_struct___gnu_cxx____aligned_membuf_32* v77;
  struct S22_class_OpenVolumeMesh__PropertyStorageBas** v78;
  struct S22_class_OpenVolumeMesh__PropertyStorageBas* v79;
  u1 v80;
  struct S17_struct_std___Rb_tree_node_base* v81;
  struct S17_struct_std___Rb_tree_node_base** v82;
  struct S17_struct_std___Rb_tree_node_base** v83;
  struct S17_struct_std___Rb_tree_node_base* v84;
  struct S17_struct_std___Rb_tree_node_base** v85;
  struct S41_struct_std___Rb_tree_node_31** v86;
  struct S41_struct_std___Rb_tree_node_31* v87;
  u1 v88;
  struct S17_struct_std___Rb_tree_node_base* v89; struct S17_struct_std___Rb_tree_node_base* v89_t;
  struct S17_struct_std___Rb_tree_node_base** v90; struct S17_struct_std___Rb_tree_node_base** v90_t;
  struct S41_struct_std___Rb_tree_node_31** v91;
  struct S41_struct_std___Rb_tree_node_31* v92;
  u1 v93;
  struct S17_struct_std___Rb_tree_node_base* v94; struct S17_struct_std___Rb_tree_node_base* v94_t;
  struct S17_struct_std___Rb_tree_node_base* v95; struct S17_struct_std___Rb_tree_node_base* v95_t;
  struct S16_class_std___Rb_tree_5* v96;
  struct S22_class_OpenVolumeMesh__PropertyStorageBas** v97;
  struct S22_class_OpenVolumeMesh__PropertyStorageBas* v98;
  u8 v99;
  u8* v100;
  struct S20_class_std___Sp_counted_base** v101;
  struct S20_class_std___Sp_counted_base* v102;
  u1 v103;
  u32* v104;
  u64* v105;
  u64 v106;
  u1 v107;
  u32* v108;
  fnptr_t** v109;
  fnptr_t* v110;
  fnptr_t* v111;
  fnptr_t v112;
  fnptr_t* v113;
  fnptr_t* v114;
  fnptr_t v115;
  u8 v116;
  u1 v117;
  u32 v118;
  u32 v119;
  u32 v120;
  u32 v121;
  u32 v122; u32 v122_t;
  u1 v123;
  struct S65 v124; struct S65 v124_t;
  struct S40_class_std____weak_ptr* v125;
L0: ;
  v0 = &v0_m;
  v1 = (struct S12_class_OpenVolumeMesh__PropertyStorageT**)(&(*a1).f0.f0.f1.f0.f0);
  v2 = (struct S22_class_OpenVolumeMesh__PropertyStorageBas**)&(*a1).f0.f0.f1.f0.f0;
  v3 = *v2;
  v4 = (u8*)(&(*v3).f5);
  v5 = *v4;
  v6 = (v5 != ((u8)0ULL));
  v7 = ((u1)((v6 ^ a2)&1));
  if (v7) {
    goto L1;
  } else {
    goto L32;
  }
L1: ;
  v8 = (u8*)v0;
  v9 = (struct S56_class_std__shared_ptr_65*)(&(*a1).f0.f0.f1);
  v10 = (struct S22_class_OpenVolumeMesh__PropertyStorageBas**)&(*a1).f0.f0.f1.f0.f0;
  v11 = *v10;
  v12 = (struct S22_class_OpenVolumeMesh__PropertyStorageBas**)(&(*v0).f0.f0);
  *v12 = v11;
  v13 = (struct S20_class_std___Sp_counted_base**)(&(*v0).f0.f1.f0);
  v14 = (struct S20_class_std___Sp_counted_base**)(&(*a1).f0.f0.f1.f0.f1.f0);
  v15 = *v14;
  *v13 = v15;
  v16 = ((u8*)v15 == (u8*)((struct S20_class_std___Sp_counted_base*)0));
  if (v16) {
    goto L5;
  } else {
    goto L2;
  }
L2: ;
  v17 = (u32*)(&(*v15).f1);
  v18 = *(&__libc_single_threaded);
  v19 = (v18 == ((u8)0ULL));
  if (v19) {
    goto L4;
  } else {
    goto L3;
  }
L3: ;
  v20 = *v17;
  v21 = ((u32)(v20 + ((u32)1ULL)));
  *v17 = v21;
  goto L5;
L4: ;
  v22 = *v17;
  v23 = ((u32)(v22 + ((u32)1ULL)));
  *v17 = v23;
  goto L5;
L5: ;
  if (a2) {
    goto L6;
  } else {
    goto L12;
  }
L6: ;
  v24 = *v2;
  v25 = (u8*)(&(*v24).f6);
  v26 = *v25;
  v27 = (v26 == ((u8)0ULL));
  if (v27) {
    goto L7;
  } else {
    goto L11;
  }
L7: ;
  v28 = __cxa_allocate_exception(((u64)16ULL));
  v29 = (struct S29_class_std__runtime_error*)v28;
  _ZNSt13runtime_errorC1EPKc(v29, ((u8*)(&(*(&_str_38)).e[(s64)((s64)((u64)0ULL))])));
  if (v_exc) {
    goto L9;
  }
  goto L8;
L8: ;
  __cxa_throw(v28, ((u8*)(&_ZTISt13runtime_error)), ((u8*)((fnptr_t)_ZNSt13runtime_errorD1Ev)));
  if (v_exc) {
    goto L10;
  }
  goto L34;
L9: ;
  v30.f0 = v_exc_obj;
  v30.f1 = 0;
  v_exc = 0;
  __cxa_free_exception(v28);
  v124 = v30;
  goto L33;
L10: ;
  v31.f0 = v_exc_obj;
  v31.f1 = 0;
  v_exc = 0;
  v124 = v31;
  goto L33;
L11: ;
  v32 = (struct S16_class_std___Rb_tree_5*)(&(*a0).f1.f0.f0.e[(s64)((s64)((u64)1ULL))].f0);
  v33 = _ZNSt8_Rb_treeISt10shared_ptrIN14OpenVolumeMesh19PropertyStorageBaseEES3_St9_IdentityIS3_ESt4lessIS3_ESaIS3_EE16_M_insert_uniqueIRKS3_EESt4pairISt17_Rb_tree_iteratorIS3_EbEOT_(v32, v0);
  if (v_exc) {
    goto L10;
  }
  goto L23;
L12: ;
  v34 = (struct S43_class_std__map*)(&(*a0).f1.f0.f0.e[(s64)((s64)((u64)1ULL))]);
  v35 = (u8*)(&(*v34).f0.f0.f0.f0.f0);
  v36 = (u8*)&(*a0).f1.f0.f0.e[1].f0.f0.f1.f0.f1;
  v37 = (struct S41_struct_std___Rb_tree_node_31**)&(*a0).f1.f0.f0.e[1].f0.f0.f1.f0.f1;
  v38 = (u8*)&(*a0).f1.f0.f0.e[1].f0.f0.f1.f0.f0;
  v39 = (struct S17_struct_std___Rb_tree_node_base*)&(*a0).f1.f0.f0.e[1].f0.f0.f1.f0;
  v40 = *v37;
  v41 = ((u8*)v40 == (u8*)((struct S41_struct_std___Rb_tree_node_31*)0));
  if (v41) {
    v94_t = v39;
    v95_t = v39;
    v94 = v94_t;
    v95 = v95_t;
    goto L22;
  } else {
    goto L13;
  }
L13: ;
  v42 = *v12;
  v43_t = v40;
  v44_t = v39;
  v43 = v43_t;
  v44 = v44_t;
  goto L14;
L14: ;
  v45 = (struct S72_struct___gnu_cxx____aligned_membuf_32*)(&(*v43).f1);
  v46 = (struct S22_class_OpenVolumeMesh__PropertyStorageBas**)v45;
  v47 = *v46;
  v48 = v_plt((u8*)v47, (u8*)v42);
  if (v48) {
    goto L15;
  } else {
    goto L16;
  }
L15: ;
  v49 = (struct S17_struct_std___Rb_tree_node_base**)(&(*v43).f0.f3);
  v89_t = v44;
  v90_t = v49;
  v89 = v89_t;
  v90 = v90_t;
  goto L21;
L16: ;
  v50 = v_plt((u8*)v42, (u8*)v47);
  v51 = (struct S17_struct_std___Rb_tree_node_base*)(&(*v43).f0);
  v52 = (struct S17_struct_std___Rb_tree_node_base**)(&(*v43).f0.f2);
  if (v50) {
    v89_t = v51;
    v90_t = v52;
    v89 = v89_t;
    v90 = v90_t;
    goto L21;
  } else {
    goto L17;
  }
L17: ;
  v53 = (struct S41_struct_std___Rb_tree_node_31**)&(*v43).f0.f2;
  v54 = *v53;
  v55 = (struct S17_struct_std___Rb_tree_node_base**)(&(*v43).f0.f3);
  v56 = (struct S41_struct_std___Rb_tree_node_31**)&(*v43).f0.f3;
  v57 = *v56;
  v58 = ((u8*)v54 == (u8*)((struct S41_struct_std___Rb_tree_node_31*)0));
  if (v58) {
    v73 = v51;
    goto L19;
  } else {
    v59_t = v54;
    v60_t = v51;
    v59 = v59_t;
    v60 = v60_t;
    goto L18;
  }
L18: ;
  v61 = (struct S72_struct___gnu_cxx____aligned_membuf_32*)(&(*v59).f1);
  v62 = (struct S22_class_OpenVolumeMesh__PropertyStorageBas**)v61;
  v63 = *v62;
  v64 = v_plt((u8*)v63, (u8*)v42);
  v65 = (struct S17_struct_std___Rb_tree_node_base**)(&(*v59).f0.f3);
  v66 = (struct S17_struct_std___Rb_tree_node_base*)(&(*v59).f0);
  v67 = (struct S17_struct_std___Rb_tree_node_base**)(&(*v59).f0.f2);
  v68 = (v64 ? v60 : v66);
  v69 = (v64 ? v65 : v67);
  v70 = (struct S41_struct_std___Rb_tree_node_31**)v69;
  v71 = *v70;
  v72 = ((u8*)v71 == (u8*)((struct S41_struct_std___Rb_tree_node_31*)0));
  if (v72) {
    v73 = v68;
    goto L19;
  } else {
    v59_t = v71;
    v60_t = v68;
    v59 = v59_t;
    v60 = v60_t;
    goto L18;
  }
L19: ;
  v74 = ((u8*)v57 == (u8*)((struct S41_struct_std___Rb_tree_node_31*)0));
  if (v74) {
    v94_t = v73;
    v95_t = v44;
    v94 = v94_t;
    v95 = v95_t;
    goto L22;
  } else {
    v75_t = v57;
    v76_t = v44;
    v75 = v75_t;
    v76 = v76_t;
    goto L20;
  }
L20: ;
  v77 = (struct S72_struct___gnu_cxx____aligned_membuf_32*)(&(*v75).f1);
  v78 = (struct S22_class_OpenVolumeMesh__PropertyStorageBas**)v77;
  v79 = *v78;
  v80 = v_plt((u8*)v42, (u8*)v79);
  v81 = (struct S17_struct_std___Rb_tree_node_base*)(&(*v75).f0);
  v82 = (struct S17_struct_std___Rb_tree_node_base**)(&(*v75).f0.f2);
  v83 = (struct S17_struct_std___Rb_tree_node_base**)(&(*v75).f0.f3);
  v84 = (v80 ? v81 : v76);
  v85 = (v80 ? v82 : v83);
  v86 = (struct S41_struct_std___Rb_tree_node_31**)v85;
  v87 = *v86;
  v88 = ((u8*)v87 == (u8*)((struct S41_struct_std___Rb_tree_node_31*)0));
  if (v88) {
    v94_t = v73;
    v95_t = v84;
    v94 = v94_t;
    v95 = v95_t;
    goto L22;
  } else {
    v75_t = v87;
    v76_t = v84;
    v75 = v75_t;
    v76 = v76_t;
    goto L20;
  }
L21: ;
  v91 = (struct S41_struct_std___Rb_tree_node_31**)v90;
  v92 = *v91;
  v93 = ((u8*)v92 == (u8*)((struct S41_struct_std___Rb_tree_node_31*)0));
  if (v93) {
    v94_t = v89;
    v95_t = v89;
    v94 = v94_t;
    v95 = v95_t;
    goto L22;
  } else {
    v43_t = v92;
    v44_t = v89;
    v43 = v43_t;
    v44 = v44_t;
    goto L14;
  }
L22: ;
  v96 = (struct S16_class_std___Rb_tree_5*)(&(*v34).f0);
  _ZNSt8_Rb_treeISt10shared_ptrIN14OpenVolumeMesh19PropertyStorageBaseEES3_St9_IdentityIS3_ESt4lessIS3_ESaIS3_EE12_M_erase_auxESt23_Rb_tree_const_iteratorIS3_ESB_(v96, v94, v95);
  if (v_exc) {
    goto L10;
  }
  goto L23;
L23: ;
  v97 = (struct S22_class_OpenVolumeMesh__PropertyStorageBas**)(&(*v0).f0.f0);
  v98 = *v97;
  v99 = ((u8)(a2));
  v100 = (u8*)(&(*v98).f5);
  *v100 = v99;
  v101 = (struct S20_class_std___Sp_counted_base**)(&(*v0).f0.f1.f0);
  v102 = *v101;
  v103 = ((u8*)v102 == (u8*)((struct S20_class_std___Sp_counted_base*)0));
  if (v103) {
    goto L31;
  } else {
    goto L24;
  }
L24: ;
  v104 = (u32*)(&(*v102).f1);
  v105 = (u64*)v104;
  v106 = (((u64)(*v102).f1 << 0) | ((u64)(*v102).f2 << 32));
  v107 = (v106 == ((u64)4294967297ULL));
  if (v107) {
    goto L25;
  } else {
    goto L26;
  }
L25: ;
  *v104 = ((u32)0ULL);
  v108 = (u32*)(&(*v102).f2);
  *v108 = ((u32)0ULL);
  v109 = (fnptr_t**)&(*v102).f0;
  v110 = *v109;
  v111 = (fnptr_t*)(v110 + (s64)((s64)((u64)2ULL)));
  v112 = *v111;
  ((FT1)v112)(v102);
  v113 = *v109;
  v114 = (fnptr_t*)(v113 + (s64)((s64)((u64)3ULL)));
  v115 = *v114;
  ((FT1)v115)(v102);
  goto L31;
L26: ;
  v116 = *(&__libc_single_threaded);
  v117 = (v116 == ((u8)0ULL));
  if (v117) {
    goto L28;
  } else {
    goto L27;
  }
L27: ;
  v118 = *v104;
  v119 = ((u32)(v118 + ((u32)4294967295ULL)));
  *v104 = v119;
  v122 = v118;
  goto L29;
L28: ;
  v120 = *v104;
  v121 = ((u32)(v120 + ((u32)4294967295ULL)));
  *v104 = v121;
  v122 = v120;
  goto L29;
L29: ;
  v123 = (v122 == ((u32)1ULL));
  if (v123) {
    goto L30;
  } else {
    goto L31;
  }
L30: ;
  _ZNSt16_Sp_counted_baseILN9__gnu_cxx12_Lock_policyE2EE24_M_release_last_use_coldEv(v102);
  goto L31;
L31: ;
  goto L32;
L32: ;
  return;
L33: ;
  v125 = (struct S40_class_std____weak_ptr*)(&(*v0).f0);
  _ZNSt12__shared_ptrIN14OpenVolumeMesh19PropertyStorageBaseELN9__gnu_cxx12_Lock_policyE2EED2Ev(v125);
  v_exc = 1; return;
L34: ;
  __CPROVER_assume(0);
}

void _ZNK14OpenVolumeMesh15ResourceManager22internal_find_propertyIbNS_6Entity4EdgeEEESt8optionalINS_11PropertyPtrIT_T0_EEERKNSt7__cxx1112basic_stringIcSt11char_traitsIcESaIcEEE(struct S58_class_std__optional_184* a0, struct S53_class_OpenVolumeMesh__ResourceManager* a1, struct S14_class_std____cxx11__basic_string* a2) {
  struct S14_class_std____cxx11__basic_string* v0; struct S14_class_std____cxx11__basic_string v0_m;
  struct S31_class_OpenVolumeMesh__PropertyPtr_86* v1; struct S31_class_OpenVolumeMesh__PropertyPtr_86 v1_m;
  u64* v2;
  u64 v3;
  u1 v4;
  u8* v5;
  u8* v6;
  u8* v7;
  u8* v8;
  struct S17_struct_std___Rb_tree_node_base** v9;
  struct S17_struct_std___Rb_tree_node_base* v10;
  u8* v11;
  struct S17_struct_std___Rb_tree_node_base* v12;
  u1 v13;
  u64 v14;
  u8** v15;
  u8* v16;
  u64* v17;
  u64 v18;
  u8** v19;
  u8* v20;
  struct S17_struct_std___Rb_tree_node_base* v21; struct S17_struct_std___Rb_tree_node_base* v21_t;
  struct S17_struct_std___Rb_tree_node_base* v22;
  struct S22_class_OpenVolumeMesh__PropertyStorageBas** v23;
  struct S22_class_OpenVolumeMesh__PropertyStorageBas* v24;
  u8* v25;
  u8 v26;
  u1 v27;
  u64* v28;
  u64 v29;
  u1 v30;
  u1 v31;
  u8** v32;
  u8* v33;
  u32 v34;
  u1 v35;
  u64* v36;
  u64 v37;
  u1 v38;
  u1 v39;
  u8** v40;
  u8* v41;
  u32 v42;
  u1 v43;
  u8* v44;
  fnptr_t** v45;
  struct S12_class_OpenVolumeMesh__PropertyStorageT** v46;
  struct S12_class_OpenVolumeMesh__PropertyStorageT** v47;
  struct S12_class_OpenVolumeMesh__PropertyStorageT* v48;
  struct S20_class_std___Sp_counted_base** v49;
  struct S20_class_std___Sp_counted_base** v50;
  struct S20_class_std___Sp_counted_base* v51;
  u1 v52;
  u32* v53;
  u8 v54;
  u1 v55;
  u32 v56;
  u32 v57;
  u32 v58;
  u32 v59;
  fnptr_t** v60;
  u8* v61;
  fnptr_t** v62;
  struct S20_class_std___Sp_counted_base* v63;
  u1 v64;
  u32* v65;
  u64* v66;
  u64 v67;
  u1 v68;
  u32* v69;
  fnptr_t** v70;
  fnptr_t* v71;
  fnptr_t* v72;
  fnptr_t v73;
  fnptr_t* v74;
  fnptr_t* v75;
  fnptr_t v76;
  u8 v77;
  u1 v78;
  u32 v79;
  u32 v80;
  u32 v81;
  u32 v82;
  u32 v83; u32 v83_t;
  u1 v84;
  struct S65 v85;
  u8** v86;
  u8* v87;
  struct S64_union_anon* v88;
  u8* v89;
  u1 v90;
  struct S17_struct_std___Rb_tree_node_base* v91;
  u1 v92;
  u8* v93;
  u8** v94;
  u8* v95;
  struct S64_union_anon* v96;
  u8* v97;
  u1 v98;
L0: ;
  v0 = &v0_m;
  v1 = &v1_m;
  v2 = (u64*)(&(*a2).f1);
  v3 = *v2;
  v4 = (v3 == ((u64)0ULL));
  if (v4) {
    goto L1;
  } else {
    goto L2;
  }
L1: ;
  v5 = (u8*)(&(*a0).f0.f0.f0.f0.f1);
  *v5 = ((u8)0ULL);
  goto L33;
L2: ;
  v6 = (u8*)v0;
  _ZN14OpenVolumeMesh6detail18internal_type_nameB5cxx11ERKSt9type_info(v0, ((struct S39_class_std__type_info*)(&_ZTIb)));
  if (v_exc) return;
  v7 = (u8*)(&(*a1).f2.f0.f0.e[(s64)((s64)((u64)1ULL))].f1.f0.f0.f0.f0.f0);
  v8 = (u8*)&(*a1).f2.f0.f0.e[1].f1.f0.f0.f1.f0.f2;
  v9 = (struct S17_struct_std___Rb_tree_node_base**)&(*a1).f2.f0.f0.e[1].f1.f0.f0.f1.f0.f2;
  v10 = *v9;
  v11 = (u8*)&(*a1).f2.f0.f0.e[1].f1.f0.f0.f1.f0.f0;
  v12 = (struct S17_struct_std___Rb_tree_node_base*)&(*a1).f2.f0.f0.e[1].f1.f0.f0.f1.f0;
  v13 = ((u8*)v10 == (u8*)v12);
  if (v13) {
    goto L29;
  } else {
    goto L3;
  }
L3: ;
  v14 = *v2;
  v15 = (u8**)(&(*a2).f0.f0);
  v16 = *v15;
  v17 = (u64*)(&(*v0).f1);
  v18 = *v17;
  v19 = (u8**)(&(*v0).f0.f0);
  v20 = *v19;
  v21 = v10;
  goto L4;
L4: ;
  v22 = (struct S17_struct_std___Rb_tree_node_base*)(v21 + (s64)((s64)((u64)1ULL)));
  v23 = (struct S22_class_OpenVolumeMesh__PropertyStorageBas**)v22;
  v24 = *v23;
  v25 = (u8*)(&(*v24).f6);
  v26 = *v25;
  v27 = (v26 == ((u8)0ULL));
  if (v27) {
    goto L26;
  } else {
    goto L5;
  }
L5: ;
  v28 = (u64*)(&(*v24).f2.f1);
  v29 = *v28;
  v30 = (v29 == v14);
  if (v30) {
    goto L6;
  } else {
    goto L26;
  }
L6: ;
  v31 = (v29 == ((u64)0ULL));
  if (v31) {
    goto L8;
  } else {
    goto L7;
  }
L7: ;
  v32 = (u8**)(&(*v24).f2.f0.f0);
  v33 = *v32;
  v34 = bcmp(v33, v16, v29);
  v35 = (v34 == ((u32)0ULL));
  if (v35) {
    goto L8;
  } else {
    goto L26;
  }
L8: ;
  v36 = (u64*)(&(*v24).f3.f1);
  v37 = *v36;
  v38 = (v37 == v18);
  if (v38) {
    goto L9;
  } else {
    goto L26;
  }
L9: ;
  v39 = (v37 == ((u64)0ULL));
  if (v39) {
    goto L11;
  } else {
    goto L10;
  }
L10: ;
  v40 = (u8**)(&(*v24).f3.f0.f0);
  v41 = *v40;
  v42 = bcmp(v41, v20, v37);
  v43 = (v42 == ((u32)0ULL));
  if (v43) {
    goto L11;
  } else {
    goto L26;
  }
L11: ;
  v44 = (u8*)v1;
  _ZN14OpenVolumeMesh15ResourceManager21prop_ptr_from_storageIbNS_6Entity4EdgeEEENS_11PropertyPtrIT_T0_EEPNS_19PropertyStorageBaseE(v1, v24);
  if (v_exc) {
    goto L25;
  }
  goto L12;
L12: ;
  v45 = (fnptr_t**)(&(*a0).f0.f0.f0.f0.f0.f0.f0.f0.f0);
  *v45 = ((fnptr_t*)((u8**)(&(*(&_ZTVN14OpenVolumeMesh18PropertyStoragePtrIbEE)).f0.e[(s64)((s64)((u64)2ULL))])));
  v46 = (struct S12_class_OpenVolumeMesh__PropertyStorageT**)(&(*a0).f0.f0.f0.f0.f0.f0.f0.f0.f1.f0.f0);
  v47 = (struct S12_class_OpenVolumeMesh__PropertyStorageT**)(&(*v1).f0.f0.f1.f0.f0);
  v48 = *v47;
  *v46 = v48;
  v49 = (struct S20_class_std___Sp_counted_base**)(&(*a0).f0.f0.f0.f0.f0.f0.f0.f0.f1.f0.f1.f0);
  v50 = (struct S20_class_std___Sp_counted_base**)(&(*v1).f0.f0.f1.f0.f1.f0);
  v51 = *v50;
  *v49 = v51;
  v52 = ((u8*)v51 == (u8*)((struct S20_class_std___Sp_counted_base*)0));
  if (v52) {
    goto L16;
  } else {
    goto L13;
  }
L13: ;
  v53 = (u32*)(&(*v51).f1);
  v54 = *(&__libc_single_threaded);
  v55 = (v54 == ((u8)0ULL));
  if (v55) {
    goto L15;
  } else {
    goto L14;
  }
L14: ;
  v56 = *v53;
  v57 = ((u32)(v56 + ((u32)1ULL)));
  *v53 = v57;
  goto L16;
L15: ;
  v58 = *v53;
  v59 = ((u32)(v58 + ((u32)1ULL)));
  *v53 = v59;
  goto L16;
L16: ;
  *v45 = ((fnptr_t*)((u8**)(&(*(&_ZTVN14OpenVolumeMesh14HandleIndexingINS_6Entity4EdgeENS_18PropertyStoragePtrIbEEEE)).f0.e[(s64)((s64)((u64)2ULL))])));
  v60 = (fnptr_t**)(&(*a0).f0.f0.f0.f0.f0.f0.f1.f0);
  *v60 = ((fnptr_t*)((u8**)(&(*(&_ZTVN14OpenVolumeMesh15BasePropertyPtrE)).f0.e[(s64)((s64)((u64)2ULL))])));
  *v45 = ((fnptr_t*)((u8**)(&(*(&_ZTVN14OpenVolumeMesh11PropertyPtrIbNS_6Entity4EdgeEEE)).f0.e[(s64)((s64)((u64)2ULL))])));
  *v60 = ((fnptr_t*)((u8**)(&(*(&_ZTVN14OpenVolumeMesh11PropertyPtrIbNS_6Entity4EdgeEEE)).f1.e[(s64)((s64)((u64)2ULL))])));
  v61 = (u8*)(&(*a0).f0.f0.f0.f0.f1);
  *v61 = ((u8)1ULL);
  v62 = (fnptr_t**)(&(*v1).f0.f0.f0);
  *v62 = ((fnptr_t*)((u8**)(&(*(&_ZTVN14OpenVolumeMesh18PropertyStoragePtrIbEE)).f0.e[(s64)((s64)((u64)2ULL))])));
  v63 = *v50;
  v64 = ((u8*)v63 == (u8*)((struct S20_class_std___Sp_counted_base*)0));
  if (v64) {
    goto L24;
  } else {
    goto L17;
  }
L17: ;
  v65 = (u32*)(&(*v63).f1);
  v66 = (u64*)v65;
  v67 = (((u64)(*v63).f1 << 0) | ((u64)(*v63).f2 << 32));
  v68 = (v67 == ((u64)4294967297ULL));
  if (v68) {
    goto L18;
  } else {
    goto L19;
  }
L18: ;
  *v65 = ((u32)0ULL);
  v69 = (u32*)(&(*v63).f2);
  *v69 = ((u32)0ULL);
  v70 = (fnptr_t**)&(*v63).f0;
  v71 = *v70;
  v72 = (fnptr_t*)(v71 + (s64)((s64)((u64)2ULL)));
  v73 = *v72;
  ((FT1)v73)(v63);
  v74 = *v70;
  v75 = (fnptr_t*)(v74 + (s64)((s64)((u64)3ULL)));
  v76 = *v75;
  ((FT1)v76)(v63);
  goto L24;
L19: ;
  v77 = *(&__libc_single_threaded);
  v78 = (v77 == ((u8)0ULL));
  if (v78) {
    goto L21;
  } else {
    goto L20;
  }
L20: ;
  v79 = *v65;
  v80 = ((u32)(v79 + ((u32)4294967295ULL)));
  *v65 = v80;
  v83 = v79;
  goto L22;
L21: ;
  v81 = *v65;
  v82 = ((u32)(v81 + ((u32)4294967295ULL)));
  *v65 = v82;
  v83 = v81;
  goto L22;
L22: ;
  v84 = (v83 == ((u32)1ULL));
  if (v84) {
    goto L23;
  } else {
    goto L24;
  }
L23: ;
  _ZNSt16_Sp_counted_baseILN9__gnu_cxx12_Lock_policyE2EE24_M_release_last_use_coldEv(v63);
  goto L24;
L24: ;
  goto L30;
L25: ;
  v85.f0 = v_exc_obj;
  v85.f1 = 0;
  v_exc = 0;
  v86 = (u8**)(&(*v0).f0.f0);
  v87 = *v86;
  v88 = (struct S64_union_anon*)(&(*v0).f2);
  v89 = (u8*)v88;
  v90 = ((u8*)v87 == (u8*)v89);
  if (v90) {
    goto L28;
  } else {
    goto L27;
  }
L26: ;
  v91 = _ZSt18_Rb_tree_incrementPKSt18_Rb_tree_node_base(v21);
  v92 = ((u8*)v91 == (u8*)v12);
  if (v92) {
    goto L29;
  } else {
    v21 = v91;
    goto L4;
  }
L27: ;
  _ZdlPv(v87);
  goto L28;
L28: ;
  v_exc = 1; return;
L29: ;
  v93 = (u8*)(&(*a0).f0.f0.f0.f0.f1);
  *v93 = ((u8)0ULL);
  goto L30;
L30: ;
  v94 = (u8**)(&(*v0).f0.f0);
  v95 = *v94;
  v96 = (struct S64_union_anon*)(&(*v0).f2);
  v97 = (u8*)v96;
  v98 = ((u8*)v95 == (u8*)v97);
  if (v98) {
    goto L32;
  } else {
    goto L31;
  }
L31: ;
  _ZdlPv(v95);
  goto L32;
L32: ;
  goto L33;
L33: ;
  return;
}

void _ZNK14OpenVolumeMesh15ResourceManager24internal_create_propertyIbNS_6Entity4EdgeEEENS_11PropertyPtrIT_T0_EENSt7__cxx1112basic_stringIcSt11char_traitsIcESaIcEEERKS5_b(struct S31_class_OpenVolumeMesh__PropertyPtr_86* a0, struct S53_class_OpenVolumeMesh__ResourceManager* a1, struct S14_class_std____cxx11__basic_string* a2, u8* a3, u1 a4) {
  struct S0_class_std__ios_base__Init* v0; struct S0_class_std__ios_base__Init v0_m;
  u8* v1; u8 v1_m;
  struct S56_class_std__shared_ptr_65* v2; struct S56_class_std__shared_ptr_65 v2_m;
  struct S13_class_OpenVolumeMesh__detail__Tracker** v3; struct S13_class_OpenVolumeMesh__detail__Tracker* v3_m;
  u8* v4; u8 v4_m;
  u8 v5;
  u8* v6;
  u8* v7;
  struct S13_class_OpenVolumeMesh__detail__Tracker* v8;
  u8* v9;
  struct S30_class_std____shared_ptr_66* v10;
  struct S12_class_OpenVolumeMesh__PropertyStorageT** v11;
  struct S12_class_OpenVolumeMesh__PropertyStorageT* v12;
  u64 v13;
  struct S15_class_std__vector_46* v14;
  u64** v15;
  u64* v16;
  u32* v17;
  u32 v18;
  u64** v19;
  u64* v20;
  u64 v21;
  u64 v22;
  u64 v23;
  u64 v24;
  u64 v25;
  u64 v26;
  u1 v27;
  u64 v28;
  u64* v29;
  u64 v30;
  u1 v31;
  u64 v32;
  u64 v33;
  u64* v34;
  u64 v35;
  u32 v36;
  u8* v37;
  u8 v38;
  u1 v39;
  u64 v40;
  struct S12_class_OpenVolumeMesh__PropertyStorageT** v41;
  struct S12_class_OpenVolumeMesh__PropertyStorageT* v42;
  struct S20_class_std___Sp_counted_base** v43;
  struct S20_class_std___Sp_counted_base* v44;
  fnptr_t** v45;
  u8* v46;
  struct S12_class_OpenVolumeMesh__PropertyStorageT** v47;
  struct S20_class_std___Sp_counted_base** v48;
  fnptr_t** v49;
  struct S20_class_std___Sp_counted_base** v50;
  struct S20_class_std___Sp_counted_base* v51;
  u1 v52;
  u32* v53;
  u64* v54;
  u64 v55;
  u1 v56;
  u32* v57;
  fnptr_t** v58;
  fnptr_t* v59;
  fnptr_t* v60;
  fnptr_t v61;
  fnptr_t* v62;
  fnptr_t* v63;
  fnptr_t v64;
  u8 v65;
  u1 v66;
  u32 v67;
  u32 v68;
  u32 v69;
  u32 v70;
  u32 v71; u32 v71_t;
  u1 v72;
  struct S65 v73;
L0: ;
  v0 = &v0_m;
  v1 = &v1_m;
  v2 = &v2_m;
  v3 = &v3_m;
  v4 = &v4_m;
  v5 = ((u8)(a4));
  *v1 = v5;
  v6 = (u8*)v2;
  v7 = (u8*)v3;
  v8 = (struct S13_class_OpenVolumeMesh__detail__Tracker*)(&(*a1).f2.f0.f0.e[(s64)((s64)((u64)1ULL))]);
  *v3 = v8;
  *v4 = ((u8)1ULL);
  v9 = (u8*)(&(*v0).f0);
  v10 = (struct S30_class_std____shared_ptr_66*)(&(*v2).f0);
  _ZNSt12__shared_ptrIN14OpenVolumeMesh16PropertyStorageTIbEELN9__gnu_cxx12_Lock_policyE2EEC2ISaIvEJPNS0_6detail7TrackerINS0_19PropertyStorageBaseEEENSt7__cxx1112basic_stringIcSt11char_traitsIcESaIcEEENS0_10EntityTypeERKbRbEEESt20_Sp_alloc_shared_tagIT_EDpOT0_(v10, v0, v3, a2, v4, a3, v1);
  if (v_exc) return;
  v11 = (struct S12_class_OpenVolumeMesh__PropertyStorageT**)(&(*v2).f0.f0);
  v12 = *v11;
  v13 = _ZNK14OpenVolumeMesh15ResourceManager1nINS_6Entity4EdgeEEEmv(a1);
  if (v_exc) {
    goto L13;
  }
  goto L1;
L1: ;
  v14 = (struct S15_class_std__vector_46*)(&(*v12).f2);
  v15 = (u64**)(&(*v12).f2.f0.f0.f0.f1.f0.f0);
  v16 = *v15;
  v17 = (u32*)(&(*v12).f2.f0.f0.f0.f1.f0.f1);
  v18 = *v17;
  v19 = (u64**)(&(*v14).f0.f0.f0.f0.f0.f0);
  v20 = *v19;
  v21 = ((u64)((u64)v16));
  v22 = ((u64)((u64)v20));
  v23 = v_pdiff((u8*)v16, (u8*)v20);
  v24 = ((u64)(v23 << ((u64)3ULL)));
  v25 = ((u64)(v18));
  v26 = ((u64)(v24 + v25));
  v27 = (v13 < v26);
  if (v27) {
    goto L2;
  } else {
    goto L3;
  }
L2: ;
  v28 = ((u64)(((s64)v13) / ((s64)((u64)64ULL))));
  v29 = (u64*)(v20 + (s64)((s64)v28));
  v30 = ((u64)(((s64)v13) % ((s64)((u64)64ULL))));
  v31 = (((s64)v30) < ((s64)((u64)0ULL)));
  v32 = ((u64)(v30 + ((u64)64ULL)));
  v33 = ((u64)(((s64)v30) >> ((u64)63ULL)));
  v34 = (u64*)(v29 + (s64)((s64)v33));
  v35 = (v31 ? v32 : v30);
  v36 = ((u32)(v35));
  *v15 = v34;
  *v17 = v36;
  goto L4;
L3: ;
  v37 = (u8*)(&(*v12).f3);
  v38 = *v37;
  v39 = (v38 != ((u8)0ULL));
  v40 = ((u64)(v13 - v26));
  _ZNSt6vectorIbSaIbEE14_M_fill_insertESt13_Bit_iteratormb(v14, v16, v18, v40, v39);
  if (v_exc) {
    goto L13;
  }
  goto L4;
L4: ;
  v41 = (struct S12_class_OpenVolumeMesh__PropertyStorageT**)(&(*v2).f0.f0);
  v42 = *v41;
  v43 = (struct S20_class_std___Sp_counted_base**)(&(*v2).f0.f1.f0);
  v44 = *v43;
  v45 = (fnptr_t**)(&(*a0).f0.f0.f0);
  v46 = (u8*)v2;
  (*v2).f0.f0 = (struct S12_class_OpenVolumeMesh__PropertyStorageT*)0;
  (*v2).f0.f1.f0 = (struct S20_class_std___Sp_counted_base*)0;
  *v45 = ((fnptr_t*)((u8**)(&(*(&_ZTVN14OpenVolumeMesh18PropertyStoragePtrIbEE)).f0.e[(s64)((s64)((u64)2ULL))])));
  v47 = (struct S12_class_OpenVolumeMesh__PropertyStorageT**)(&(*a0).f0.f0.f1.f0.f0);
  *v47 = v42;
  v48 = (struct S20_class_std___Sp_counted_base**)(&(*a0).f0.f0.f1.f0.f1.f0);
  *v48 = v44;
  *v45 = ((fnptr_t*)((u8**)(&(*(&_ZTVN14OpenVolumeMesh14HandleIndexingINS_6Entity4EdgeENS_18PropertyStoragePtrIbEEEE)).f0.e[(s64)((s64)((u64)2ULL))])));
  v49 = (fnptr_t**)(&(*a0).f1.f0);
  *v49 = ((fnptr_t*)((u8**)(&(*(&_ZTVN14OpenVolumeMesh15BasePropertyPtrE)).f0.e[(s64)((s64)((u64)2ULL))])));
  *v45 = ((fnptr_t*)((u8**)(&(*(&_ZTVN14OpenVolumeMesh11PropertyPtrIbNS_6Entity4EdgeEEE)).f0.e[(s64)((s64)((u64)2ULL))])));
  *v49 = ((fnptr_t*)((u8**)(&(*(&_ZTVN14OpenVolumeMesh11PropertyPtrIbNS_6Entity4EdgeEEE)).f1.e[(s64)((s64)((u64)2ULL))])));
  v50 = (struct S20_class_std___Sp_counted_base**)(&(*v2).f0.f1.f0);
  v51 = *v50;
  v52 = ((u8*)v51 == (u8*)((struct S20_class_std___Sp_counted_base*)0));
  if (v52) {
    goto L12;
  } else {
    goto L5;
  }
L5: ;
  v53 = (u32*)(&(*v51).f1);
  v54 = (u64*)v53;
  v55 = (((u64)(*v51).f1 << 0) | ((u64)(*v51).f2 << 32));
  v56 = (v55 == ((u64)4294967297ULL));
  if (v56) {
    goto L6;
  } else {
    goto L7;
  }
L6: ;
  *v53 = ((u32)0ULL);
  v57 = (u32*)(&(*v51).f2);
  *v57 = ((u32)0ULL);
  v58 = (fnptr_t**)&(*v51).f0;
  v59 = *v58;
  v60 = (fnptr_t*)(v59 + (s64)((s64)((u64)2ULL)));
  v61 = *v60;
  ((FT1)v61)(v51);
  v62 = *v58;
  v63 = (fnptr_t*)(v62 + (s64)((s64)((u64)3ULL)));
  v64 = *v63;
  ((FT1)v64)(v51);
  goto L12;
L7: ;
  v65 = *(&__libc_single_threaded);
  v66 = (v65 == ((u8)0ULL));
  if (v66) {
    goto L9;
  } else {
    goto L8;
  }
L8: ;
  v67 = *v53;
  v68 = ((u32)(v67 + ((u32)4294967295ULL)));
  *v53 = v68;
  v71 = v67;
  goto L10;
L9: ;
  v69 = *v53;
  v70 = ((u32)(v69 + ((u32)4294967295ULL)));
  *v53 = v70;
  v71 = v69;
  goto L10;
L10: ;
  v72 = (v71 == ((u32)1ULL));
  if (v72) {
    goto L11;
  } else {
    goto L12;
  }
L11: ;
  _ZNSt16_Sp_counted_baseILN9__gnu_cxx12_Lock_policyE2EE24_M_release_last_use_coldEv(v51);
  goto L12;
L12: ;
  return;
L13: ;
  v73.f0 = v_exc_obj;
  v73.f1 = 0;
  v_exc = 0;
  _ZNSt12__shared_ptrIN14OpenVolumeMesh16PropertyStorageTIbEELN9__gnu_cxx12_Lock_policyE2EED2Ev(v10);
  v_exc = 1; return;
}

void _ZNSt14_Optional_baseIN14OpenVolumeMesh11PropertyPtrIbNS0_6Entity4EdgeEEELb0ELb0EED2Ev(struct S59_struct_std___Optional_base_185* a0) {
  u8* v0;
  u8 v1;
  u1 v2;
  fnptr_t** v3;
  struct S20_class_std___Sp_counted_base** v4;
  struct S20_class_std___Sp_counted_base* v5;
  u1 v6;
  u32* v7;
  u64* v8;
  u64 v9;
  u1 v10;
  u32* v11;
  fnptr_t** v12;
  fnptr_t* v13;
  fnptr_t* v14;
  fnptr_t v15;
  fnptr_t* v16;
  fnptr_t* v17;
  fnptr_t v18;
  u8 v19;
  u1 v20;
  u32 v21;
  u32 v22;
  u32 v23;
  u32 v24;
  u32 v25; u32 v25_t;
  u1 v26;
L0: ;
  v0 = (u8*)(&(*a0).f0.f0.f0.f1);
  v1 = *v0;
  v2 = (v1 == ((u8)0ULL));
  if (v2) {
    goto L9;
  } else {
    goto L1;
  }
L1: ;
  *v0 = ((u8)0ULL);
  v3 = (fnptr_t**)(&(*a0).f0.f0.f0.f0.f0.f0.f0.f0);
  *v3 = ((fnptr_t*)((u8**)(&(*(&_ZTVN14OpenVolumeMesh18PropertyStoragePtrIbEE)).f0.e[(s64)((s64)((u64)2ULL))])));
  v4 = (struct S20_class_std___Sp_counted_base**)(&(*a0).f0.f0.f0.f0.f0.f0.f0.f1.f0.f1.f0);
  v5 = *v4;
  v6 = ((u8*)v5 == (u8*)((struct S20_class_std___Sp_counted_base*)0));
  if (v6) {
    goto L9;
  } else {
    goto L2;
  }
L2: ;
  v7 = (u32*)(&(*v5).f1);
  v8 = (u64*)v7;
  v9 = (((u64)(*v5).f1 << 0) | ((u64)(*v5).f2 << 32));
  v10 = (v9 == ((u64)4294967297ULL));
  if (v10) {
    goto L3;
  } else {
    goto L4;
  }
L3: ;
  *v7 = ((u32)0ULL);
  v11 = (u32*)(&(*v5).f2);
  *v11 = ((u32)0ULL);
  v12 = (fnptr_t**)&(*v5).f0;
  v13 = *v12;
  v14 = (fnptr_t*)(v13 + (s64)((s64)((u64)2ULL)));
  v15 = *v14;
  ((FT1)v15)(v5);
  v16 = *v12;
  v17 = (fnptr_t*)(v16 + (s64)((s64)((u64)3ULL)));
  v18 = *v17;
  ((FT1)v18)(v5);
  goto L9;
L4: ;
  v19 = *(&__libc_single_threaded);
  v20 = (v19 == ((u8)0ULL));
  if (v20) {
    goto L6;
  } else {
    goto L5;
  }
L5: ;
  v21 = *v7;
  v22 = ((u32)(v21 + ((u32)4294967295ULL)));
  *v7 = v22;
  v25 = v21;
  goto L7;
L6: ;
  v23 = *v7;
  v24 = ((u32)(v23 + ((u32)4294967295ULL)));
  *v7 = v24;
  v25 = v23;
  goto L7;
L7: ;
  v26 = (v25 == ((u32)1ULL));
  if (v26) {
    goto L8;
  } else {
    goto L9;
  }
L8: ;
  _ZNSt16_Sp_counted_baseILN9__gnu_cxx12_Lock_policyE2EE24_M_release_last_use_coldEv(v5);
  goto L9;
L9: ;
  return;
}

void _ZN14OpenVolumeMesh15ResourceManager21prop_ptr_from_storageIbNS_6Entity4EdgeEEENS_11PropertyPtrIT_T0_EEPNS_19PropertyStorageBaseE(struct S31_class_OpenVolumeMesh__PropertyPtr_86* a0, struct S22_class_OpenVolumeMesh__PropertyStorageBas* a1) {
  struct S20_class_std___Sp_counted_base** v0;
  struct S20_class_std___Sp_counted_base* v1;
  u1 v2;
  u32* v3;
  u32 v4;
  u32 v5; u32 v5_t;
  u1 v6;
  u32 v7;
  u32 v8;
  u1 v9;
  u32 v10;
  struct S69 v11;
  struct S69 v12;
  u1 v13;
  u32 v14;
  u8* v15;
  u64* v16;
  fnptr_t** v17;
  struct S22_class_OpenVolumeMesh__PropertyStorageBas** v18;
  struct S12_class_OpenVolumeMesh__PropertyStorageT** v19;
  struct S12_class_OpenVolumeMesh__PropertyStorageT* v20;
  u8 v21;
  u1 v22;
  u32 v23;
  u32 v24;
  u32 v25;
  u32 v26;
  u64* v27;
  u64 v28;
  u1 v29;
  u32* v30;
  fnptr_t** v31;
  fnptr_t* v32;
  fnptr_t* v33;
  fnptr_t v34;
  fnptr_t* v35;
  fnptr_t* v36;
  fnptr_t v37;
  u8 v38;
  u1 v39;
  u32 v40;
  u32 v41;
  u32 v42;
  u32 v43;
  u32 v44; u32 v44_t;
  u1 v45;
  fnptr_t** v46;
  struct S12_class_OpenVolumeMesh__PropertyStorageT** v47;
  struct S20_class_std___Sp_counted_base** v48;
  fnptr_t** v49;
L0: ;
  v0 = (struct S20_class_std___Sp_counted_base**)(&(*a1).f1.f0.f0.f1.f0);
  v1 = *v0;
  v2 = ((u8*)v1 == (u8*)((struct S20_class_std___Sp_counted_base*)0));
  if (v2) {
    goto L4;
  } else {
    goto L1;
  }
L1: ;
  v3 = (u32*)(&(*v1).f1);
  v4 = *v3;
  v5 = v4;
  goto L2;
L2: ;
  v6 = (v5 == ((u32)0ULL));
  if (v6) {
    goto L4;
  } else {
    goto L3;
  }
L3: ;
  v7 = ((u32)(v5 + ((u32)1ULL)));
  v8 = *v3;
  v9 = (v8 == v5);
  v10 = (v9 ? v7 : v8);
  *v3 = v10;
  v11.f0 = v8;
  v12 = v11;
  v12.f1 = v9;
  v13 = v12.f1;
  v14 = v12.f0;
  if (v13) {
    goto L5;
  } else {
    v5 = v14;
    goto L2;
  }
L4: ;
  v15 = __cxa_allocate_exception(((u64)8ULL));
  v16 = (u64*)v15;
  *v16 = ((u64)0ULL);
  v17 = (fnptr_t**)v15;
  *v17 = ((fnptr_t*)((u8**)(&(*(&_ZTVSt12bad_weak_ptr)).f0.e[(s64)((s64)((u64)2ULL))])));
  __cxa_throw(v15, ((u8*)(&_ZTISt12bad_weak_ptr)), ((u8*)((fnptr_t)_ZNSt12bad_weak_ptrD1Ev)));
  if (v_exc) return;
  __CPROVER_assume(0);
L5: ;
  v18 = (struct S22_class_OpenVolumeMesh__PropertyStorageBas**)(&(*a1).f1.f0.f0.f0);
  v19 = (struct S12_class_OpenVolumeMesh__PropertyStorageT**)&(*a1).f1.f0.f0.f0;
  v20 = *v19;
  v21 = *(&__libc_single_threaded);
  v22 = (v21 == ((u8)0ULL));
  if (v22) {
    goto L7;
  } else {
    goto L6;
  }
L6: ;
  v23 = *v3;
  v24 = ((u32)(v23 + ((u32)1ULL)));
  *v3 = v24;
  goto L8;
L7: ;
  v25 = *v3;
  v26 = ((u32)(v25 + ((u32)1ULL)));
  *v3 = v26;
  goto L8;
L8: ;
  v27 = (u64*)v3;
  v28 = (((u64)(*v1).f1 << 0) | ((u64)(*v1).f2 << 32));
  v29 = (v28 == ((u64)4294967297ULL));
  if (v29) {
    goto L9;
  } else {
    goto L10;
  }
L9: ;
  *v3 = ((u32)0ULL);
  v30 = (u32*)(&(*v1).f2);
  *v30 = ((u32)0ULL);
  v31 = (fnptr_t**)&(*v1).f0;
  v32 = *v31;
  v33 = (fnptr_t*)(v32 + (s64)((s64)((u64)2ULL)));
  v34 = *v33;
  ((FT1)v34)(v1);
  v35 = *v31;
  v36 = (fnptr_t*)(v35 + (s64)((s64)((u64)3ULL)));
  v37 = *v36;
  ((FT1)v37)(v1);
  goto L15;
L10: ;
  v38 = *(&__libc_single_threaded);
  v39 = (v38 == ((u8)0ULL));
  if (v39) {
    goto L12;
  } else {
    goto L11;
  }
L11: ;
  v40 = *v3;
  v41 = ((u32)(v40 + ((u32)4294967295ULL)));
  *v3 = v41;
  v44 = v40;
  goto L13;
L12: ;
  v42 = *v3;
  v43 = ((u32)(v42 + ((u32)4294967295ULL)));
  *v3 = v43;
  v44 = v42;
  goto L13;
L13: ;
  v45 = (v44 == ((u32)1ULL));
  if (v45) {
    goto L14;
  } else {
    goto L15;
  }
L14: ;
  _ZNSt16_Sp_counted_baseILN9__gnu_cxx12_Lock_policyE2EE24_M_release_last_use_coldEv(v1);
  goto L15;
L15: ;
  v46 = (fnptr_t**)(&(*a0).f0.f0.f0);
  *v46 = ((fnptr_t*)((u8**)(&(*(&_ZTVN14OpenVolumeMesh18PropertyStoragePtrIbEE)).f0.e[(s64)((s64)((u64)2ULL))])));
  v47 = (struct S12_class_OpenVolumeMesh__PropertyStorageT**)(&(*a0).f0.f0.f1.f0.f0);
  *v47 = v20;
  v48 = (struct S20_class_std___Sp_counted_base**)(&(*a0).f0.f0.f1.f0.f1.f0);
  *v48 = v1;
  *v46 = ((fnptr_t*)((u8**)(&(*(&_ZTVN14OpenVolumeMesh14HandleIndexingINS_6Entity4EdgeENS_18PropertyStoragePtrIbEEEE)).f0.e[(s64)((s64)((u64)2ULL))])));
  v49 = (fnptr_t**)(&(*a0).f1.f0);
  *v49 = ((fnptr_t*)((u8**)(&(*(&_ZTVN14OpenVolumeMesh15BasePropertyPtrE)).f0.e[(s64)((s64)((u64)2ULL))])));
  *v46 = ((fnptr_t*)((u8**)(&(*(&_ZTVN14OpenVolumeMesh11PropertyPtrIbNS_6Entity4EdgeEEE)).f0.e[(s64)((s64)((u64)2ULL))])));
  *v49 = ((fnptr_t*)((u8**)(&(*(&_ZTVN14OpenVolumeMesh11PropertyPtrIbNS_6Entity4EdgeEEE)).f1.e[(s64)((s64)((u64)2ULL))])));
  return;
}

void _ZN14OpenVolumeMesh15ResourceManager16request_propertyIbNS_6Entity6VertexEEENS_11PropertyPtrIT_T0_EERKNSt7__cxx1112basic_stringIcSt11char_traitsIcESaIcEEERKS5_(struct S31_class_OpenVolumeMesh__PropertyPtr_86* a0, struct S53_class_OpenVolumeMesh__ResourceManager* a1, struct S14_class_std____cxx11__basic_string* a2, u8* a3) {
  u64* v0; u64 v0_m;
  struct S58_class_std__optional_184* v1; struct S58_class_std__optional_184 v1_m;
  struct S14_class_std____cxx11__basic_string* v2; struct S14_class_std____cxx11__basic_string v2_m;
  u8* v3;
  u8* v4;
  u8 v5;
  u1 v6;
  fnptr_t** v7;
  struct S12_class_OpenVolumeMesh__PropertyStorageT** v8;
  struct S12_class_OpenVolumeMesh__PropertyStorageT** v9;
  struct S12_class_OpenVolumeMesh__PropertyStorageT* v10;
  struct S20_class_std___Sp_counted_base** v11;
  struct S20_class_std___Sp_counted_base** v12;
  struct S20_class_std___Sp_counted_base* v13;
  u1 v14;
  u32* v15;
  u8 v16;
  u1 v17;
  u32 v18;
  u32 v19;
  u32 v20;
  u32 v21;
  fnptr_t** v22;
  u64* v23;
  u64 v24;
  u1 v25;
  struct S64_union_anon* v26;
  struct S64_union_anon** v27;
  u8** v28;
  u8* v29;
  u8* v30;
  u1 v31;
  u8* v32;
  u8** v33;
  u64 v34;
  u64* v35;
  u8** v36;
  u8* v37;
  u8 v38;
  u64 v39;
  u64* v40;
  u8* v41;
  u8* v42;
  u8* v43;
  u8* v44;
  u1 v45;
  struct S65 v46;
  struct S65 v47;
  u8* v48;
  u8* v49;
  u1 v50;
  struct S65 v51; struct S65 v51_t;
  struct S59_struct_std___Optional_base_185* v52;
  u8* v53;
  u8 v54;
  u1 v55;
  fnptr_t** v56;
  struct S20_class_std___Sp_counted_base** v57;
  struct S20_class_std___Sp_counted_base* v58;
  u1 v59;
  u32* v60;
  u64* v61;
  u64 v62;
  u1 v63;
  u32* v64;
  fnptr_t** v65;
  fnptr_t* v66;
  fnptr_t* v67;
  fnptr_t v68;
  fnptr_t* v69;
  fnptr_t* v70;
  fnptr_t v71;
  u8 v72;
  u1 v73;
  u32 v74;
  u32 v75;
  u32 v76;
  u32 v77;
  u32 v78; u32 v78_t;
  u1 v79;
L0: ;
  v0 = &v0_m;
  v1 = &v1_m;
  v2 = &v2_m;
  v3 = (u8*)v1;
  _ZNK14OpenVolumeMesh15ResourceManager22internal_find_propertyIbNS_6Entity6VertexEEESt8optionalINS_11PropertyPtrIT_T0_EEERKNSt7__cxx1112basic_stringIcSt11char_traitsIcESaIcEEE(v1, a1, a2);
  if (v_exc) return;
  v4 = (u8*)(&(*v1).f0.f0.f0.f0.f1);
  v5 = *v4;
  v6 = (v5 == ((u8)0ULL));
  if (v6) {
    goto L6;
  } else {
    goto L1;
  }
L1: ;
  v7 = (fnptr_t**)(&(*a0).f0.f0.f0);
  *v7 = ((fnptr_t*)((u8**)(&(*(&_ZTVN14OpenVolumeMesh18PropertyStoragePtrIbEE)).f0.e[(s64)((s64)((u64)2ULL))])));
  v8 = (struct S12_class_OpenVolumeMesh__PropertyStorageT**)(&(*a0).f0.f0.f1.f0.f0);
  v9 = (struct S12_class_OpenVolumeMesh__PropertyStorageT**)(&(*v1).f0.f0.f0.f0.f0.f0.f0.f0.f1.f0.f0);
  v10 = *v9;
  *v8 = v10;
  v11 = (struct S20_class_std___Sp_counted_base**)(&(*a0).f0.f0.f1.f0.f1.f0);
  v12 = (struct S20_class_std___Sp_counted_base**)(&(*v1).f0.f0.f0.f0.f0.f0.f0.f0.f1.f0.f1.f0);
  v13 = *v12;
  *v11 = v13;
  v14 = ((u8*)v13 == (u8*)((struct S20_class_std___Sp_counted_base*)0));
  if (v14) {
    goto L5;
  } else {
    goto L2;
  }
L2: ;
  v15 = (u32*)(&(*v13).f1);
  v16 = *(&__libc_single_threaded);
  v17 = (v16 == ((u8)0ULL));
  if (v17) {
    goto L4;
  } else {
    goto L3;
  }
L3: ;
  v18 = *v15;
  v19 = ((u32)(v18 + ((u32)1ULL)));
  *v15 = v19;
  goto L5;
L4: ;
  v20 = *v15;
  v21 = ((u32)(v20 + ((u32)1ULL)));
  *v15 = v21;
  goto L5;
L5: ;
  *v7 = ((fnptr_t*)((u8**)(&(*(&_ZTVN14OpenVolumeMesh14HandleIndexingINS_6Entity6VertexENS_18PropertyStoragePtrIbEEEE)).f0.e[(s64)((s64)((u64)2ULL))])));
  v22 = (fnptr_t**)(&(*a0).f1.f0);
  *v22 = ((fnptr_t*)((u8**)(&(*(&_ZTVN14OpenVolumeMesh15BasePropertyPtrE)).f0.e[(s64)((s64)((u64)2ULL))])));
  *v7 = ((fnptr_t*)((u8**)(&(*(&_ZTVN14OpenVolumeMesh11PropertyPtrIbNS_6Entity6VertexEEE)).f0.e[(s64)((s64)((u64)2ULL))])));
  *v22 = ((fnptr_t*)((u8**)(&(*(&_ZTVN14OpenVolumeMesh11PropertyPtrIbNS_6Entity6VertexEEE)).f1.e[(s64)((s64)((u64)2ULL))])));
  goto L19;
L6: ;
  v23 = (u64*)(&(*a2).f1);
  v24 = *v23;
  v25 = (v24 != ((u64)0ULL));
  v26 = (struct S64_union_anon*)(&(*v2).f2);
  v27 = (struct S64_union_anon**)&(*v2).f0.f0;
  *v27 = v26;
  v28 = (u8**)(&(*a2).f0.f0);
  v29 = *v28;
  v30 = (u8*)v0;
  *v0 = v24;
  v31 = (v24 > ((u64)15ULL));
  if (v31) {
    goto L7;
  } else {
    goto L9;
  }
L7: ;
  v32 = _ZNSt7__cxx1112basic_stringIcSt11char_traitsIcESaIcEE9_M_createERmm(v2, v0, ((u64)0ULL));
  if (v_exc) {
    goto L15;
  }
  goto L8;
L8: ;
  v33 = (u8**)(&(*v2).f0.f0);
  *v33 = v32;
  v34 = *v0;
  v35 = (u64*)(&(*v2).f2.f0.e[0]);
  *v35 = v34;
  goto L9;
L9: ;
  v36 = (u8**)(&(*v2).f0.f0);
  v37 = *v36;
  switch (v24) {
  case ((u64)1ULL): {
    goto L10;
  }
  case ((u64)0ULL): {
    goto L12;
  }
  default: {
    goto L11;
  }
  }
L10: ;
  v38 = *v29;
  *v37 = v38;
  goto L12;
L11: ;
  v_memcpy((u8*)v37, (u8*)v29, (u64)v24);
  goto L12;
L12: ;
  v39 = *v0;
  v40 = (u64*)(&(*v2).f1);
  *v40 = v39;
  v41 = *v36;
  v42 = (u8*)(v41 + (s64)((s64)v39));
  *v42 = ((u8)0ULL);
  _ZNK14OpenVolumeMesh15ResourceManager24internal_create_propertyIbNS_6Entity6VertexEEENS_11PropertyPtrIT_T0_EENSt7__cxx1112basic_stringIcSt11char_traitsIcESaIcEEERKS5_b(a0, a1, v2, a3, v25);
  if (v_exc) {
    goto L16;
  }
  goto L13;
L13: ;
  v43 = *v36;
  v44 = (u8*)v26;
  v45 = ((u8*)v43 == (u8*)v44);
  if (v45) {
    goto L19;
  } else {
    goto L14;
  }
L14: ;
  _ZdlPv(v43);
  goto L19;
L15: ;
  v46.f0 = v_exc_obj;
  v46.f1 = 0;
  v_exc = 0;
  v51 = v46;
  goto L18;
L16: ;
  v47.f0 = v_exc_obj;
  v47.f1 = 0;
  v_exc = 0;
  v48 = *v36;
  v49 = (u8*)v26;
  v50 = ((u8*)v48 == (u8*)v49);
  if (v50) {
    v51 = v47;
    goto L18;
  } else {
    goto L17;
  }
L17: ;
  _ZdlPv(v48);
  v51 = v47;
  goto L18;
L18: ;
  v52 = (struct S59_struct_std___Optional_base_185*)(&(*v1).f0);
  _ZNSt14_Optional_baseIN14OpenVolumeMesh11PropertyPtrIbNS0_6Entity6VertexEEELb0ELb0EED2Ev(v52);
  v_exc = 1; return;
L19: ;
  v53 = (u8*)(&(*v1).f0.f0.f0.f0.f1);
  v54 = *v53;
  v55 = (v54 == ((u8)0ULL));
  if (v55) {
    goto L28;
  } else {
    goto L20;
  }
L20: ;
  *v53 = ((u8)0ULL);
  v56 = (fnptr_t**)(&(*v1).f0.f0.f0.f0.f0.f0.f0.f0.f0);
  *v56 = ((fnptr_t*)((u8**)(&(*(&_ZTVN14OpenVolumeMesh18PropertyStoragePtrIbEE)).f0.e[(s64)((s64)((u64)2ULL))])));
  v57 = (struct S20_class_std___Sp_counted_base**)(&(*v1).f0.f0.f0.f0.f0.f0.f0.f0.f1.f0.f1.f0);
  v58 = *v57;
  v59 = ((u8*)v58 == (u8*)((struct S20_class_std___Sp_counted_base*)0));
  if (v59) {
    goto L28;
  } else {
    goto L21;
  }
L21: ;
  v60 = (u32*)(&(*v58).f1);
  v61 = (u64*)v60;
  v62 = (((u64)(*v58).f1 << 0) | ((u64)(*v58).f2 << 32));
  v63 = (v62 == ((u64)4294967297ULL));
  if (v63) {
    goto L22;
  } else {
    goto L23;
  }
L22: ;
  *v60 = ((u32)0ULL);
  v64 = (u32*)(&(*v58).f2);
  *v64 = ((u32)0ULL);
  v65 = (fnptr_t**)&(*v58).f0;
  v66 = *v65;
  v67 = (fnptr_t*)(v66 + (s64)((s64)((u64)2ULL)));
  v68 = *v67;
  ((FT1)v68)(v58);
  v69 = *v65;
  v70 = (fnptr_t*)(v69 + (s64)((s64)((u64)3ULL)));
  v71 = *v70;
  ((FT1)v71)(v58);
  goto L28;
L23: ;
  v72 = *(&__libc_single_threaded);
  v73 = (v72 == ((u8)0ULL));
  if (v73) {
    goto L25;
  } else {
    goto L24;
  }
L24: ;
  v74 = *v60;
  v75 = ((u32)(v74 + ((u32)4294967295ULL)));
  *v60 = v75;
  v78 = v74;
  goto L26;
L25: ;
  v76 = *v60;
  v77 = ((u32)(v76 + ((u32)4294967295ULL)));
  *v60 = v77;
  v78 = v76;
  goto L26;
L26: ;
  v79 = (v78 == ((u32)1ULL));
  if (v79) {
    goto L27;
  } else {
    goto L28;
  }
L27: ;
  _ZNSt16_Sp_counted_baseILN9__gnu_cxx12_Lock_policyE2EE24_M_release_last_use_coldEv(v58);
  goto L28;
L28: ;
  return;
}

void _ZN14OpenVolumeMesh15ResourceManager14set_persistentIbNS_6Entity6VertexEEEvRNS_11PropertyPtrIT_T0_EEb(struct S53_class_OpenVolumeMesh__ResourceManager* a0, struct S31_class_OpenVolumeMesh__PropertyPtr_86* a1, u1 a2) {
  struct S25_class_std__weak_ptr* v0; struct S25_class_std__weak_ptr v0_m;
  struct S12_class_OpenVolumeMesh__PropertyStorageT** v1;
  struct S22_class_OpenVolumeMesh__PropertyStorageBas** v2;
  struct S22_class_OpenVolumeMesh__PropertyStorageBas* v3;
  u8* v4;
  u8 v5;
  u1 v6;
  u1 v7;
  u8* v8;
  struct S56_class_std__shared_ptr_65* v9;
  struct S22_class_OpenVolumeMesh__PropertyStorageBas** v10;
  struct S22_class_OpenVolumeMesh__PropertyStorageBas* v11;
  struct S22_class_OpenVolumeMesh__PropertyStorageBas** v12;
  struct S20_class_std___Sp_counted_base** v13;
  struct S20_class_std___Sp_counted_base** v14;
  struct S20_class_std___Sp_counted_base* v15;
  u1 v16;
  u32* v17;
  u8 v18;
  u1 v19;
  u32 v20;
  u32 v21;
  u32 v22;
  u32 v23;
  struct S22_class_OpenVolumeMesh__PropertyStorageBas* v24;
  u8* v25;
  u8 v26;
  u1 v27;
  u8* v28;
  struct S29_class_std__runtime_error* v29;
  struct S65 v30;
  struct S65 v31;
  struct S16_class_std___Rb_tree_5* v32;
  struct S36 v33;
  struct S43_class_std__map* v34;
  u8* v35;
  u8* v36;
  struct S41_struct_std___Rb_tree_node_31** v37;
  u8* v38;
  struct S17_struct_std___Rb_tree_node_base* v39;
  struct S41_struct_std___Rb_tree_node_31* v40;
  u1 v41;
  struct S22_class_OpenVolumeMesh__PropertyStorageBas* v42;
  struct S41_struct_std___Rb_tree_node_31* v43; struct S41_struct_std___Rb_tree_node_31* v43_t;
  struct S17_struct_std___Rb_tree_node_base* v44; struct S17_struct_std___Rb_tree_node_base* v44_t;
  struct S72_struct___gnu_cxx____aligned_membuf_32* v45;
  struct S22_class_OpenVolumeMesh__PropertyStorageBas** v46;
  struct S22_class_OpenVolumeMesh__PropertyStorageBas* v47;
  u1 v48;
  struct S17_struct_std___Rb_tree_node_base** v49;
  u1 v50;
  struct S17_struct_std___Rb_tree_node_base* v51;
  struct S17_struct_std___Rb_tree_node_base** v52;
  struct S41_struct_std___Rb_tree_node_31** v53;
  struct S41_struct_std___Rb_tree_node_31* v54;
  struct S17_struct_std___Rb_tree_node_base** v55;
  struct S41_struct_std___Rb_tree_node_31** v56;
  struct S41_struct_std___Rb_tree_node_31* v57;
  u1 v58;
  struct S41_struct_std___Rb_tree_node_31* v59; struct S41_struct_std___Rb_tree_node_31* v59_t;
  struct S17_struct_std___Rb_tree_node_base* v60; struct S17_struct_std___Rb_tree_node_base* v60_t;
  struct S72_struct___gnu_cxx____aligned_membuf_32* v61;
  struct S22_class_OpenVolumeMesh__PropertyStorageBas** v62;
  struct S22_class_OpenVolumeMesh__PropertyStorageBas* v63;
  u1 v64;
  struct S17_struct_std___Rb_tree_node_base** v65;
  struct S17_struct_std___Rb_tree_node_base* v66;
  struct S17_struct_std___Rb_tree_node_base** v67;
  struct S17_struct_std___Rb_tree_node_base* v68;
  struct S17_struct_std___Rb_tree_node_base** v69;
  struct S41_struct_std___Rb_tree_node_31** v70;
  struct S41_struct_std___Rb_tree_node_31* v71;
  u1 v72;
  struct S17_struct_std___Rb_tree_node_base* v73; struct S17_struct_std___Rb_tree_node_base* v73_t;
  u1 v74;
  struct S41_struct_std___Rb_tree_node_31* v75; struct S41_struct_std___Rb_tree_node_31* v75_t;
  struct S17_struct_std___Rb_tree_node_base* v76; struct S17_struct_std___Rb_tree_node_base* v76_t;
  struct S72_struct___gnu_cxx____aligned_membuf_32* v77;
  struct S22_class_OpenVolumeMesh__PropertyStorageBas** v78;
  struct S22_class_OpenVolumeMesh__PropertyStorageBas* v79;
  u1 v80;
  struct S17_struct_std___Rb_tree_node_base* v81;
  struct S17_struct_std___Rb_tree_node_base** v82;
  struct S17_struct_std___Rb_tree_node_base** v83;
  struct S17_struct_std___Rb_tree_node_base* v84;
  struct S17_struct_std___Rb_tree_node_base** v85;
  struct S41_struct_std___Rb_tree_node_31** v86;
  struct S41_struct_std___Rb_tree_node_31* v87;
  u1 v88;
  struct S17_struct_std___Rb_tree_node_base* v89; struct S17_struct_std___Rb_tree_node_base* v89_t;
  struct S17_struct_std___Rb_tree_node_base** v90; struct S17_struct_std___Rb_tree_node_base** v90_t;
  struct S41_struct_std___Rb_tree_node_31** v91;
  struct S41_struct_std___Rb_tree_node_31* v92;
  u1 v93;
  struct S17_struct_std___Rb_tree_node_base* v94; struct S17_struct_std___Rb_tree_node_base* v94_t;
  struct S17_struct_std___Rb_tree_node_base* v95; struct S17_struct_std___Rb_tree_node_base* v95_t;
  struct S16_class_std___Rb_tree_5* v96;
  struct S22_class_OpenVolumeMesh__PropertyStorageBas** v97;
  struct S22_class_OpenVolumeMesh__PropertyStorageBas* v98;
  u8 v99;
  u8* v100;
  struct S20_class_std___Sp_counted_base** v101;
  struct S20_class_std___Sp_counted_base* v102;
  u1 v103;
  u32* v104;
  u64* v105;
  u64 v106;
  u1 v107;
  u32* v108;
  fnptr_t** v109;
  fnptr_t* v110;
  fnptr_t* v111;
  fnptr_t v112;
  fnptr_t* v113;
  fnptr_t* v114;
  fnptr_t v115;
  u8 v116;
  u1 v117;
  u32 v118;
  u32 v119;
  u32 v120;
  u32 v121;
  u32 v122; u32 v122_t;
  u1 v123;
  struct S65 v124; struct S65 v124_t;
  struct S40_class_std____weak_ptr* v125;
L0: ;
  v0 = &v0_m;
  v1 = (struct S12_class_OpenVolumeMesh__PropertyStorageT**)(&(*a1).f0.f0.f1.f0.f0);
  v2 = (struct S22_class_OpenVolumeMesh__PropertyStorageBas**)&(*a1).f0.f0.f1.f0.f0;
  v3 = *v2;
  v4 = (u8*)(&(*v3).f5);
  v5 = *v4;
  v6 = (v5 != ((u8)0ULL));
  v7 = ((u1)((v6 ^ a2)&1));
  if (v7) {
    goto L1;
  } else {
    goto L32;
  }
L1: ;
  v8 = (u8*)v0;
  v9 = (struct S56_class_std__shared_ptr_65*)(&(*a1).f0.f0.f1);
  v10 = (struct S22_class_OpenVolumeMesh__PropertyStorageBas**)&(*a1).f0.f0.f1.f0.f0;
  v11 = *v10;
  v12 = (struct S22_class_OpenVolumeMesh__PropertyStorageBas**)(&(*v0).f0.f0);
  *v12 = v11;
  v13 = (struct S20_class_std___Sp_counted_base**)(&(*v0).f0.f1.f0);
  v14 = (struct S20_class_std___Sp_counted_base**)(&(*a1).f0.f0.f1.f0.f1.f0);
  v15 = *v14;
  *v13 = v15;
  v16 = ((u8*)v15 == (u8*)((struct S20_class_std___Sp_counted_base*)0));
  if (v16) {
    goto L5;
  } else {
    goto L2;
  }
L2: ;
  v17 = (u32*)(&(*v15).f1);
  v18 = *(&__libc_single_threaded);
  v19 = (v18 == ((u8)0ULL));
  if (v19) {
    goto L4;
  } else {
    goto L3;
  }
L3: ;
  v20 = *v17;
  v21 = ((u32)(v20 + ((u32)1ULL)));
  *v17 = v21;
  goto L5;
L4: ;
  v22 = *v17;
  v23 = ((u32)(v22 + ((u32)1ULL)));
  *v17 = v23;
  goto L5;
L5: ;
  if (a2) {
    goto L6;
  } else {
    goto L12;
  }
L6: ;
  v24 = *v2;
  v25 = (u8*)(&(*v24).f6);
  v26 = *v25;
  v27 = (v26 == ((u8)0ULL));
  if (v27) {
    goto L7;
  } else {
    goto L11;
  }
L7: ;
  v28 = __cxa_allocate_exception(((u64)16ULL));
  v29 = (struct S29_class_std__runtime_error*)v28;
  _ZNSt13runtime_errorC1EPKc(v29, ((u8*)(&(*(&_str_38)).e[(s64)((s64)((u64)0ULL))])));
  if (v_exc) {
    goto L10;
  }
  goto L8;
L8: ;
  __cxa_throw(v28, ((u8*)(&_ZTISt13runtime_error)), ((u8*)((fnptr_t)_ZNSt13runtime_errorD1Ev)));
  if (v_exc) {
    goto L9;
  }
  goto L34;
L9: ;
  v30.f0 = v_exc_obj;
  v30.f1 = 0;
  v_exc = 0;
  v124 = v30;
  goto L33;
L10: ;
  v31.f0 = v_exc_obj;
  v31.f1 = 0;
  v_exc = 0;
  __cxa_free_exception(v28);
  v124 = v31;
  goto L33;
L11: ;
  v32 = (struct S16_class_std___Rb_tree_5*)(&(*a0).f1.f0.f0.e[(s64)((s64)((u64)0ULL))].f0);
  v33 = _ZNSt8_Rb_treeISt10shared_ptrIN14OpenVolumeMesh19PropertyStorageBaseEES3_St9_IdentityIS3_ESt4lessIS3_ESaIS3_EE16_M_insert_uniqueIRKS3_EESt4pairISt17_Rb_tree_iteratorIS3_EbEOT_(v32, v0);
  if (v_exc) {
    goto L9;
  }
  goto L23;
L12: ;
  v34 = (struct S43_class_std__map*)(&(*a0).f1.f0.f0.e[(s64)((s64)((u64)0ULL))]);
  v35 = (u8*)(&(*v34).f0.f0.f0.f0.f0);
  v36 = (u8*)&(*a0).f1.f0.f0.e[0].f0.f0.f1.f0.f1;
  v37 = (struct S41_struct_std___Rb_tree_node_31**)&(*a0).f1.f0.f0.e[0].f0.f0.f1.f0.f1;
  v38 = (u8*)&(*a0).f1.f0.f0.e[0].f0.f0.f1.f0.f0;
  v39 = (struct S17_struct_std___Rb_tree_node_base*)&(*a0).f1.f0.f0.e[0].f0.f0.f1.f0;
  v40 = *v37;
  v41 = ((u8*)v40 == (u8*)((struct S41_struct_std___Rb_tree_node_31*)0));
  if (v41) {
    v94_t = v39;
    v95_t = v39;
    v94 = v94_t;
    v95 = v95_t;
    goto L22;
  } else {
    goto L13;
  }
L13: ;
  v42 = *v12;
  v43_t = v40;
  v44_t = v39;
  v43 = v43_t;
  v44 = v44_t;
  goto L14;
L14: ;
  v45 = (struct S72_struct___gnu_cxx____aligned_membuf_32*)(&(*v43).f1);
  v46 = (struct S22_class_OpenVolumeMesh__PropertyStorageBas**)v45;
  v47 = *v46;
  v48 = v_plt((u8*)v47, (u8*)v42);
  if (v48) {
    goto L15;
  } else {
    goto L16;
  }
L15: ;
  v49 = (struct S17_struct_std___Rb_tree_node_base**)(&(*v43).f0.f3);
  v89_t = v44;
  v90_t = v49;
  v89 = v89_t;
  v90 = v90_t;
  goto L21;
L16: ;
  v50 = v_plt((u8*)v42, (u8*)v47);
  v51 = (struct S17_struct_std___Rb_tree_node_base*)(&(*v43).f0);
  v52 = (struct S17_struct_std___Rb_tree_node_base**)(&(*v43).f0.f2);
  if (v50) {
    v89_t = v51;
    v90_t = v52;
    v89 = v89_t;
    v90 = v90_t;
    goto L21;
  } else {
    goto L17;
  }
L17: ;
  v53 = (struct S41_struct_std___Rb_tree_node_31**)&(*v43).f0.f2;
  v54 = *v53;
  v55 = (struct S17_struct_std___Rb_tree_node_base**)(&(*v43).f0.f3);
  v56 = (struct S41_struct_std___Rb_tree_node_31**)&(*v43).f0.f3;
  v57 = *v56;
  v58 = ((u8*)v54 == (u8*)((struct S41_struct_std___Rb_tree_node_31*)0));
  if (v58) {
    v73 = v51;
    goto L19;
  } else {
    v59_t = v54;
    v60_t = v51;
    v59 = v59_t;
    v60 = v60_t;
    goto L18;
  }
L18: ;
  v61 = (struct S72_struct___gnu_cxx____aligned_membuf_32*)(&(*v59).f1);
  v62 = (struct S22_class_OpenVolumeMesh__PropertyStorageBas**)v61;
  v63 = *v62;
  v64 = v_plt((u8*)v63, (u8*)v42);
  v65 = (struct S17_struct_std___Rb_tree_node_base**)(&(*v59).f0.f3);
  v66 = (struct S17_struct_std___Rb_tree_node_base*)(&(*v59).f0);
  v67 = (struct S17_struct_std___Rb_tree_node_base**)(&(*v59).f0.f2);
  v68 = (v64 ? v60 : v66);
  v69 = (v64 ? v65 : v67);
  v70 = (struct S41_struct_std___Rb_tree_node_31**)v69;
  v71 = *v70;
  v72 = ((u8*)v71 == (u8*)((struct S41_struct_std___Rb_tree_node_31*)0));
  if (v72) {
    v73 = v68;
    goto L19;
  } else {
    v59_t = v71;
    v60_t = v68;
    v59 = v59_t;
    v60 = v60_t;
    goto L18;
  }
L19: ;
  v74 = ((u8*)v57 == (u8*)((struct S41_struct_std___Rb_tree_node_31*)0));
  if (v74) {
    v94_t = v73;
    v95_t = v44;
    v94 = v94_t;
    v95 = v95_t;
    goto L22;
  } else {
    v75_t = v57;
    v76_t = v44;
    v75 = v75_t;
    v76 = v76_t;
    goto L20;
  }
L20: ;
  v77 = (struct S72_struct___gnu_cxx____aligned_membuf_32*)(&(*v75).f1);
  v78 = (struct S22_class_OpenVolumeMesh__PropertyStorageBas**)v77;
  v79 = *v78;
  v80 = v_plt((u8*)v42, (u8*)v79);
  v81 = (struct S17_struct_std___Rb_tree_node_base*)(&(*v75).f0);
  v82 = (struct S17_struct_std___Rb_tree_node_base**)(&(*v75).f0.f2);
  v83 = (struct S17_struct_std___Rb_tree_node_base**)(&(*v75).f0.f3);
  v84 = (v80 ? v81 : v76);
  v85 = (v80 ? v82 : v83);
  v86 = (struct S41_struct_std___Rb_tree_node_31**)v85;
  v87 = *v86;
  v88 = ((u8*)v87 == (u8*)((struct S41_struct_std___Rb_tree_node_31*)0));
  if (v88) {
    v94_t = v73;
    v95_t = v84;
    v94 = v94_t;
    v95 = v95_t;
    goto L22;
  } else {
    v75_t = v87;
    v76_t = v84;
    v75 = v75_t;
    v76 = v76_t;
    goto L20;
  }
L21: ;
  v91 = (struct S41_struct_std___Rb_tree_node_31**)v90;
  v92 = *v91;
  v93 = ((u8*)v92 == (u8*)((struct S41_struct_std___Rb_tree_node_31*)0));
  if (v93) {
    v94_t = v89;
    v95_t = v89;
    v94 = v94_t;
    v95 = v95_t;
    goto L22;
  } else {
    v43_t = v92;
    v44_t = v89;
    v43 = v43_t;
    v44 = v44_t;
    goto L14;
  }
L22: ;
  v96 = (struct S16_class_std___Rb_tree_5*)(&(*v34).f0);
  _ZNSt8_Rb_treeISt10shared_ptrIN14OpenVolumeMesh19PropertyStorageBaseEES3_St9_IdentityIS3_ESt4lessIS3_ESaIS3_EE12_M_erase_auxESt23_Rb_tree_const_iteratorIS3_ESB_(v96, v94, v95);
  if (v_exc) {
    goto L9;
  }
  goto L23;
L23: ;
  v97 = (struct S22_class_OpenVolumeMesh__PropertyStorageBas**)(&(*v0).f0.f0);
  v98 = *v97;
  v99 = ((u8)(a2));
  v100 = (u8*)(&(*v98).f5);
  *v100 = v99;
  v101 = (struct S20_class_std___Sp_counted_base**)(&(*v0).f0.f1.f0);
  v102 = *v101;
  v103 = ((u8*)v102 == (u8*)((struct S20_class_std___Sp_counted_base*)0));
  if (v103) {
    goto L31;
  } else {
    goto L24;
  }
L24: ;
  v104 = (u32*)(&(*v102).f1);
  v105 = (u64*)v104;
  v106 = (((u64)(*v102).f1 << 0) | ((u64)(*v102).f2 << 32));
  v107 = (v106 == ((u64)4294967297ULL));
  if (v107) {
    goto L25;
  } else {
    goto L26;
  }
L25: ;
  *v104 = ((u32)0ULL);
  v108 = (u32*)(&(*v102).f2);
  *v108 = ((u32)0ULL);
  v109 = (fnptr_t**)&(*v102).f0;
  v110 = *v109;
  v111 = (fnptr_t*)(v110 + (s64)((s64)((u64)2ULL)));
  v112 = *v111;
  ((FT1)v112)(v102);
  v113 = *v109;
  v114 = (fnptr_t*)(v113 + (s64)((s64)((u64)3ULL)));
  v115 = *v114;
  ((FT1)v115)(v102);
  goto L31;
L26: ;
  v116 = *(&__libc_single_threaded);
  v117 = (v116 == ((u8)0ULL));
  if (v117) {
    goto L28;
  } else {
    goto L27;
  }
L27: ;
  v118 = *v104;
  v119 = ((u32)(v118 + ((u32)4294967295ULL)));
  *v104 = v119;
  v122 = v118;
  goto L29;
L28: ;
  v120 = *v104;
  v121 = ((u32)(v120 + ((u32)4294967295ULL)));
  *v104 = v121;
  v122 = v120;
  goto L29;
L29: ;
  v123 = (v122 == ((u32)1ULL));
  if (v123) {
    goto L30;
  } else {
    goto L31;
  }
L30: ;
  _ZNSt16_Sp_counted_baseILN9__gnu_cxx12_Lock_policyE2EE24_M_release_last_use_coldEv(v102);
  goto L31;
L31: ;
  goto L32;
L32: ;
  return;
L33: ;
  v125 = (struct S40_class_std____weak_ptr*)(&(*v0).f0);
  _ZNSt12__shared_ptrIN14OpenVolumeMesh19PropertyStorageBaseELN9__gnu_cxx12_Lock_policyE2EED2Ev(v125);
  v_exc = 1; return;
L34: ;
  __CPROVER_assume(0);
}

void _ZNK14OpenVolumeMesh15ResourceManager22internal_find_propertyIbNS_6Entity6VertexEEESt8optionalINS_11PropertyPtrIT_T0_EEERKNSt7__cxx1112basic_stringIcSt11char_traitsIcESaIcEEE(struct S58_class_std__optional_184* a0, struct S53_class_OpenVolumeMesh__ResourceManager* a1, struct S14_class_std____cxx11__basic_string* a2) {
  struct S14_class_std____cxx11__basic_string* v0; struct S14_class_std____cxx11__basic_string v0_m;
  struct S31_class_OpenVolumeMesh__PropertyPtr_86* v1; struct S31_class_OpenVolumeMesh__PropertyPtr_86 v1_m;
  u64* v2;
  u64 v3;
  u1 v4;
  u8* v5;
  u8* v6;
  u8* v7;
  u8* v8;
  struct S17_struct_std___Rb_tree_node_base** v9;
  struct S17_struct_std___Rb_tree_node_base* v10;
  u8* v11;
  struct S17_struct_std___Rb_tree_node_base* v12;
  u1 v13;
  u64 v14;
  u8** v15;
  u8* v16;
  u64* v17;
  u64 v18;
  u8** v19;
  u8* v20;
  struct S17_struct_std___Rb_tree_node_base* v21; struct S17_struct_std___Rb_tree_node_base* v21_t;
  struct S17_struct_std___Rb_tree_node_base* v22;
  struct S22_class_OpenVolumeMesh__PropertyStorageBas** v23;
  struct S22_class_OpenVolumeMesh__PropertyStorageBas* v24;
  u8* v25;
  u8 v26;
  u1 v27;
  u64* v28;
  u64 v29;
  u1 v30;
  u1 v31;
  u8** v32;
  u8* v33;
  u32 v34;
  u1 v35;
  u64* v36;
  u64 v37;
  u1 v38;
  u1 v39;
  u8** v40;
  u8* v41;
  u32 v42;
  u1 v43;
  u8* v44;
  fnptr_t** v45;
  struct S12_class_OpenVolumeMesh__PropertyStorageT** v46;
  struct S12_class_OpenVolumeMesh__PropertyStorageT** v47;
  struct S12_class_OpenVolumeMesh__PropertyStorageT* v48;
  struct S20_class_std___Sp_counted_base** v49;
  struct S20_class_std___Sp_counted_base** v50;
  struct S20_class_std___Sp_counted_base* v51;
  u1 v52;
  u32* v53;
  u8 v54;
  u1 v55;
  u32 v56;
  u32 v57;
  u32 v58;
  u32 v59;
  fnptr_t** v60;
  u8* v61;
  fnptr_t** v62;
  struct S20_class_std___Sp_counted_base* v63;
  u1 v64;
  u32* v65;
  u64* v66;
  u64 v67;
  u1 v68;
  u32* v69;
  fnptr_t** v70;
  fnptr_t* v71;
  fnptr_t* v72;
  fnptr_t v73;
  fnptr_t* v74;
  fnptr_t* v75;
  fnptr_t v76;
  u8 v77;
  u1 v78;
  u32 v79;
  u32 v80;
  u32 v81;
  u32 v82;
  u32 v83; u32 v83_t;
  u1 v84;
  struct S65 v85;
  u8** v86;
  u8* v87;
  struct S64_union_anon* v88;
  u8* v89;
  u1 v90;
  struct S17_struct_std___Rb_tree_node_base* v91;
  u1 v92;
  u8* v93;
  u8** v94;
  u8* v95;
  struct S64_union_anon* v96;
  u8* v97;
  u1 v98;
L0: ;
  v0 = &v0_m;
  v1 = &v1_m;
  v2 = (u64*)(&(*a2).f1);
  v3 = *v2;
  v4 = (v3 == ((u64)0ULL));
  if (v4) {
    goto L1;
  } else {
    goto L2;
  }
L1: ;
  v5 = (u8*)(&(*a0).f0.f0.f0.f0.f1);
  *v5 = ((u8)0ULL);
  goto L33;
L2: ;
  v6 = (u8*)v0;
  _ZN14OpenVolumeMesh6detail18internal_type_nameB5cxx11ERKSt9type_info(v0, ((struct S39_class_std__type_info*)(&_ZTIb)));
  if (v_exc) return;
  v7 = (u8*)(&(*a1).f2.f0.f0.e[(s64)((s64)((u64)0ULL))].f1.f0.f0.f0.f0.f0);
  v8 = (u8*)&(*a1).f2.f0.f0.e[0].f1.f0.f0.f1.f0.f2;
  v9 = (struct S17_struct_std___Rb_tree_node_base**)&(*a1).f2.f0.f0.e[0].f1.f0.f0.f1.f0.f2;
  v10 = *v9;
  v11 = (u8*)&(*a1).f2.f0.f0.e[0].f1.f0.f0.f1.f0.f0;
  v12 = (struct S17_struct_std___Rb_tree_node_base*)&(*a1).f2.f0.f0.e[0].f1.f0.f0.f1.f0;
  v13 = ((u8*)v10 == (u8*)v12);
  if (v13) {
    goto L29;
  } else {
    goto L3;
  }
L3: ;
  v14 = *v2;
  v15 = (u8**)(&(*a2).f0.f0);
  v16 = *v15;
  v17 = (u64*)(&(*v0).f1);
  v18 = *v17;
  v19 = (u8**)(&(*v0).f0.f0);
  v20 = *v19;
  v21 = v10;
  goto L4;
L4: ;
  v22 = (struct S17_struct_std___Rb_tree_node_base*)(v21 + (s64)((s64)((u64)1ULL)));
  v23 = (struct S22_class_OpenVolumeMesh__PropertyStorageBas**)v22;
  v24 = *v23;
  v25 = (u8*)(&(*v24).f6);
  v26 = *v25;
  v27 = (v26 == ((u8)0ULL));
  if (v27) {
    goto L26;
  } else {
    goto L5;
  }
L5: ;
  v28 = (u64*)(&(*v24).f2.f1);
  v29 = *v28;
  v30 = (v29 == v14);
  if (v30) {
    goto L6;
  } else {
    goto L26;
  }
L6: ;
  v31 = (v29 == ((u64)0ULL));
  if (v31) {
    goto L8;
  } else {
    goto L7;
  }
L7: ;
  v32 = (u8**)(&(*v24).f2.f0.f0);
  v33 = *v32;
  v34 = bcmp(v33, v16, v29);
  v35 = (v34 == ((u32)0ULL));
  if (v35) {
    goto L8;
  } else {
    goto L26;
  }
L8: ;
  v36 = (u64*)(&(*v24).f3.f1);
  v37 = *v36;
  v38 = (v37 == v18);
  if (v38) {
    goto L9;
  } else {
    goto L26;
  }
L9: ;
  v39 = (v37 == ((u64)0ULL));
  if (v39) {
    goto L11;
  } else {
    goto L10;
  }
L10: ;
  v40 = (u8**)(&(*v24).f3.f0.f0);
  v41 = *v40;
  v42 = bcmp(v41, v20, v37);
  v43 = (v42 == ((u32)0ULL));
  if (v43) {
    goto L11;
  } else {
    goto L26;
  }
L11: ;
  v44 = (u8*)v1;
  _ZN14OpenVolumeMesh15ResourceManager21prop_ptr_from_storageIbNS_6Entity6VertexEEENS_11PropertyPtrIT_T0_EEPNS_19PropertyStorageBaseE(v1, v24);
  if (v_exc) {
    goto L25;
  }
  goto L12;
L12: ;
  v45 = (fnptr_t**)(&(*a0).f0.f0.f0.f0.f0.f0.f0.f0.f0);
  *v45 = ((fnptr_t*)((u8**)(&(*(&_ZTVN14OpenVolumeMesh18PropertyStoragePtrIbEE)).f0.e[(s64)((s64)((u64)2ULL))])));
  v46 = (struct S12_class_OpenVolumeMesh__PropertyStorageT**)(&(*a0).f0.f0.f0.f0.f0.f0.f0.f0.f1.f0.f0);
  v47 = (struct S12_class_OpenVolumeMesh__PropertyStorageT**)(&(*v1).f0.f0.f1.f0.f0);
  v48 = *v47;
  *v46 = v48;
  v49 = (struct S20_class_std___Sp_counted_base**)(&(*a0).f0.f0.f0.f0.f0.f0.f0.f0.f1.f0.f1.f0);
  v50 = (struct S20_class_std___Sp_counted_base**)(&(*v1).f0.f0.f1.f0.f1.f0);
  v51 = *v50;
  *v49 = v51;
  v52 = ((u8*)v51 == (u8*)((struct S20_class_std___Sp_counted_base*)0));
  if (v52) {
    goto L16;
  } else {
    goto L13;
  }
L13: ;
  v53 = (u32*)(&(*v51).f1);
  v54 = *(&__libc_single_threaded);
  v55 = (v54 == ((u8)0ULL));
  if (v55) {
    goto L15;
  } else {
    goto L14;
  }
L14: ;
  v56 = *v53;
  v57 = ((u32)(v56 + ((u32)1ULL)));
  *v53 = v57;
  goto L16;
L15: ;
  v58 = *v53;
  v59 = ((u32)(v58 + ((u32)1ULL)));
  *v53 = v59;
  goto L16;
L16: ;
  *v45 = ((fnptr_t*)((u8**)(&(*(&_ZTVN14OpenVolumeMesh14HandleIndexingINS_6Entity6VertexENS_18PropertyStoragePtrIbEEEE)).f0.e[(s64)((s64)((u64)2ULL))])));
  v60 = (fnptr_t**)(&(*a0).f0.f0.f0.f0.f0.f0.f1.f0);
  *v60 = ((fnptr_t*)((u8**)(&(*(&_ZTVN14OpenVolumeMesh15BasePropertyPtrE)).f0.e[(s64)((s64)((u64)2ULL))])));
  *v45 = ((fnptr_t*)((u8**)(&(*(&_ZTVN14OpenVolumeMesh11PropertyPtrIbNS_6Entity6VertexEEE)).f0.e[(s64)((s64)((u64)2ULL))])));
  *v60 = ((fnptr_t*)((u8**)(&(*(&_ZTVN14OpenVolumeMesh11PropertyPtrIbNS_6Entity6VertexEEE)).f1.e[(s64)((s64)((u64)2ULL))])));
  v61 = (u8*)(&(*a0).f0.f0.f0.f0.f1);
  *v61 = ((u8)1ULL);
  v62 = (fnptr_t**)(&(*v1).f0.f0.f0);
  *v62 = ((fnptr_t*)((u8**)(&(*(&_ZTVN14OpenVolumeMesh18PropertyStoragePtrIbEE)).f0.e[(s64)((s64)((u64)2ULL))])));
  v63 = *v50;
  v64 = ((u8*)v63 == (u8*)((struct S20_class_std___Sp_counted_base*)0));
  if (v64) {
    goto L24;
  } else {
    goto L17;
  }
L17: ;
  v65 = (u32*)(&(*v63).f1);
  v66 = (u64*)v65;
  v67 = (((u64)(*v63).f1 << 0) | ((u64)(*v63).f2 << 32));
  v68 = (v67 == ((u64)4294967297ULL));
  if (v68) {
    goto L18;
  } else {
    goto L19;
  }
L18: ;
  *v65 = ((u32)0ULL);
  v69 = (u32*)(&(*v63).f2);
  *v69 = ((u32)0ULL);
  v70 = (fnptr_t**)&(*v63).f0;
  v71 = *v70;
  v72 = (fnptr_t*)(v71 + (s64)((s64)((u64)2ULL)));
  v73 = *v72;
  ((FT1)v73)(v63);
  v74 = *v70;
  v75 = (fnptr_t*)(v74 + (s64)((s64)((u64)3ULL)));
  v76 = *v75;
  ((FT1)v76)(v63);
  goto L24;
L19: ;
  v77 = *(&__libc_single_threaded);
  v78 = (v77 == ((u8)0ULL));
  if (v78) {
    goto L21;
  } else {
    goto L20;
  }
L20: ;
  v79 = *v65;
  v80 = ((u32)(v79 + ((u32)4294967295ULL)));
  *v65 = v80;
  v83 = v79;
  goto L22;
L21: ;
  v81 = *v65;
  v82 = ((u32)(v81 + ((u32)4294967295ULL)));
  *v65 = v82;
  v83 = v81;
  goto L22;
L22: ;
  v84 = (v83 == ((u32)1ULL));
  if (v84) {
    goto L23;
  } else {
    goto L24;
  }
L23: ;
  _ZNSt16_Sp_counted_baseILN9__gnu_cxx12_Lock_policyE2EE24_M_release_last_use_coldEv(v63);
  goto L24;
L24: ;
  goto L30;
L25: ;
  v85.f0 = v_exc_obj;
  v85.f1 = 0;
  v_exc = 0;
  v86 = (u8**)(&(*v0).f0.f0);
  v87 = *v86;
  v88 = (struct S64_union_anon*)(&(*v0).f2);
  v89 = (u8*)v88;
  v90 = ((u8*)v87 == (u8*)v89);
  if (v90) {
    goto L28;
  } else {
    goto L27;
  }
L26: ;
  v91 = _ZSt18_Rb_tree_incrementPKSt18_Rb_tree_node_base(v21);
  v92 = ((u8*)v91 == (u8*)v12);
  if (v92) {
    goto L29;
  } else {
    v21 = v91;
    goto L4;
  }
L27: ;
  _ZdlPv(v87);
  goto L28;
L28: ;
  v_exc = 1; return;
L29: ;
  v93 = (u8*)(&(*a0).f0.f0.f0.f0.f1);
  *v93 = ((u8)0ULL);
  goto L30;
L30: ;
  v94 = (u8**)(&(*v0).f0.f0);
  v95 = *v94;
  v96 = (struct S64_union_anon*)(&(*v0).f2);
  v97 = (u8*)v96;
  v98 = ((u8*)v95 == (u8*)v97);
  if (v98) {
    goto L32;
  } else {
    goto L31;
  }
L31: ;
  _ZdlPv(v95);
  goto L32;
L32: ;
  goto L33;
L33: ;
  return;
}

void _ZNK14OpenVolumeMesh15ResourceManager24internal_create_propertyIbNS_6Entity6VertexEEENS_11PropertyPtrIT_T0_EENSt7__cxx1112basic_stringIcSt11char_traitsIcESaIcEEERKS5_b(struct S31_class_OpenVolumeMesh__PropertyPtr_86* a0, struct S53_class_OpenVolumeMesh__ResourceManager* a1, struct S14_class_std____cxx11__basic_string* a2, u8* a3, u1 a4) {
  struct S0_class_std__ios_base__Init* v0; struct S0_class_std__ios_base__Init v0_m;
  u8* v1; u8 v1_m;
  struct S56_class_std__shared_ptr_65* v2; struct S56_class_std__shared_ptr_65 v2_m;
  struct S13_class_OpenVolumeMesh__detail__Tracker** v3; struct S13_class_OpenVolumeMesh__detail__Tracker* v3_m;
  u8* v4; u8 v4_m;
  u8 v5;
  u8* v6;
  u8* v7;
  struct S13_class_OpenVolumeMesh__detail__Tracker* v8;
  u8* v9;
  struct S30_class_std____shared_ptr_66* v10;
  struct S12_class_OpenVolumeMesh__PropertyStorageT** v11;
  struct S12_class_OpenVolumeMesh__PropertyStorageT* v12;
  u64 v13;
  struct S15_class_std__vector_46* v14;
  u64** v15;
  u64* v16;
  u32* v17;
  u32 v18;
  u64** v19;
  u64* v20;
  u64 v21;
  u64 v22;
  u64 v23;
  u64 v24;
  u64 v25;
  u64 v26;
  u1 v27;
  u64 v28;
  u64* v29;
  u64 v30;
  u1 v31;
  u64 v32;
  u64 v33;
  u64* v34;
  u64 v35;
  u32 v36;
  u8* v37;
  u8 v38;
  u1 v39;
  u64 v40;
  struct S12_class_OpenVolumeMesh__PropertyStorageT** v41;
  struct S12_class_OpenVolumeMesh__PropertyStorageT* v42;
  struct S20_class_std___Sp_counted_base** v43;
  struct S20_class_std___Sp_counted_base* v44;
  fnptr_t** v45;
  u8* v46;
  struct S12_class_OpenVolumeMesh__PropertyStorageT** v47;
  struct S20_class_std___Sp_counted_base** v48;
  fnptr_t** v49;
  struct S20_class_std___Sp_counted_base** v50;
  struct S20_class_std___Sp_counted_base* v51;
  u1 v52;
  u32* v53;
  u64* v54;
  u64 v55;
  u1 v56;
  u32* v57;
  fnptr_t** v58;
  fnptr_t* v59;
  fnptr_t* v60;
  fnptr_t v61;
  fnptr_t* v62;
  fnptr_t* v63;
  fnptr_t v64;
  u8 v65;
  u1 v66;
  u32 v67;
  u32 v68;
  u32 v69;
  u32 v70;
  u32 v71; u32 v71_t;
  u1 v72;
  struct S65 v73;
L0: ;
  v0 = &v0_m;
  v1 = &v1_m;
  v2 = &v2_m;
  v3 = &v3_m;
  v4 = &v4_m;
  v5 = ((u8)(a4));
  *v1 = v5;
  v6 = (u8*)v2;
  v7 = (u8*)v3;
  v8 = (struct S13_class_OpenVolumeMesh__detail__Tracker*)(&(*a1).f2.f0.f0.e[(s64)((s64)((u64)0ULL))]);
  *v3 = v8;
  *v4 = ((u8)0ULL);
  v9 = (u8*)(&(*v0).f0);
  v10 = (struct S30_class_std____shared_ptr_66*)(&(*v2).f0);
  _ZNSt12__shared_ptrIN14OpenVolumeMesh16PropertyStorageTIbEELN9__gnu_cxx12_Lock_policyE2EEC2ISaIvEJPNS0_6detail7TrackerINS0_19PropertyStorageBaseEEENSt7__cxx1112basic_stringIcSt11char_traitsIcESaIcEEENS0_10EntityTypeERKbRbEEESt20_Sp_alloc_shared_tagIT_EDpOT0_(v10, v0, v3, a2, v4, a3, v1);
  if (v_exc) return;
  v11 = (struct S12_class_OpenVolumeMesh__PropertyStorageT**)(&(*v2).f0.f0);
  v12 = *v11;
  v13 = _ZNK14OpenVolumeMesh15ResourceManager1nINS_6Entity6VertexEEEmv(a1);
  if (v_exc) {
    goto L13;
  }
  goto L1;
L1: ;
  v14 = (struct S15_class_std__vector_46*)(&(*v12).f2);
  v15 = (u64**)(&(*v12).f2.f0.f0.f0.f1.f0.f0);
  v16 = *v15;
  v17 = (u32*)(&(*v12).f2.f0.f0.f0.f1.f0.f1);
  v18 = *v17;
  v19 = (u64**)(&(*v14).f0.f0.f0.f0.f0.f0);
  v20 = *v19;
  v21 = ((u64)((u64)v16));
  v22 = ((u64)((u64)v20));
  v23 = v_pdiff((u8*)v16, (u8*)v20);
  v24 = ((u64)(v23 << ((u64)3ULL)));
  v25 = ((u64)(v18));
  v26 = ((u64)(v24 + v25));
  v27 = (v13 < v26);
  if (v27) {
    goto L2;
  } else {
    goto L3;
  }
L2: ;
  v28 = ((u64)(((s64)v13) / ((s64)((u64)64ULL))));
  v29 = (u64*)(v20 + (s64)((s64)v28));
  v30 = ((u64)(((s64)v13) % ((s64)((u64)64ULL))));
  v31 = (((s64)v30) < ((s64)((u64)0ULL)));
  v32 = ((u64)(v30 + ((u64)64ULL)));
  v33 = ((u64)(((s64)v30) >> ((u64)63ULL)));
  v34 = (u64*)(v29 + (s64)((s64)v33));
  v35 = (v31 ? v32 : v30);
  v36 = ((u32)(v35));
  *v15 = v34;
  *v17 = v36;
  goto L4;
L3: ;
  v37 = (u8*)(&(*v12).f3);
  v38 = *v37;
  v39 = (v38 != ((u8)0ULL));
  v40 = ((u64)(v13 - v26));
  _ZNSt6vectorIbSaIbEE14_M_fill_insertESt13_Bit_iteratormb(v14, v16, v18, v40, v39);
  if (v_exc) {
    goto L13;
  }
  goto L4;
L4: ;
  v41 = (struct S12_class_OpenVolumeMesh__PropertyStorageT**)(&(*v2).f0.f0);
  v42 = *v41;
  v43 = (struct S20_class_std___Sp_counted_base**)(&(*v2).f0.f1.f0);
  v44 = *v43;
  v45 = (fnptr_t**)(&(*a0).f0.f0.f0);
  v46 = (u8*)v2;
  (*v2).f0.f0 = (struct S12_class_OpenVolumeMesh__PropertyStorageT*)0;
  (*v2).f0.f1.f0 = (struct S20_class_std___Sp_counted_base*)0;
  *v45 = ((fnptr_t*)((u8**)(&(*(&_ZTVN14OpenVolumeMesh18PropertyStoragePtrIbEE)).f0.e[(s64)((s64)((u64)2ULL))])));
  v47 = (struct S12_class_OpenVolumeMesh__PropertyStorageT**)(&(*a0).f0.f0.f1.f0.f0);
  *v47 = v42;
  v48 = (struct S20_class_std___Sp_counted_base**)(&(*a0).f0.f0.f1.f0.f1.f0);
  *v48 = v44;
  *v45 = ((fnptr_t*)((u8**)(&(*(&_ZTVN14OpenVolumeMesh14HandleIndexingINS_6Entity6VertexENS_18PropertyStoragePtrIbEEEE)).f0.e[(s64)((s64)((u64)2ULL))])));
  v49 = (fnptr_t**)(&(*a0).f1.f0);
  *v49 = ((fnptr_t*)((u8**)(&(*(&_ZTVN14OpenVolumeMesh15BasePropertyPtrE)).f0.e[(s64)((s64)((u64)2ULL))])));
  *v45 = ((fnptr_t*)((u8**)(&(*(&_ZTVN14OpenVolumeMesh11PropertyPtrIbNS_6Entity6VertexEEE)).f0.e[(s64)((s64)((u64)2ULL))])));
  *v49 = ((fnptr_t*)((u8**)(&(*(&_ZTVN14OpenVolumeMesh11PropertyPtrIbNS_6Entity6VertexEEE)).f1.e[(s64)((s64)((u64)2ULL))])));
  v50 = (struct S20_class_std___Sp_counted_base**)(&(*v2).f0.f1.f0);
  v51 = *v50;
  v52 = ((u8*)v51 == (u8*)((struct S20_class_std___Sp_counted_base*)0));
  if (v52) {
    goto L12;
  } else {
    goto L5;
  }
L5: ;
  v53 = (u32*)(&(*v51).f1);
  v54 = (u64*)v53;
  v55 = (((u64)(*v51).f1 << 0) | ((u64)(*v51).f2 << 32));
  v56 = (v55 == ((u64)4294967297ULL));
  if (v56) {
    goto L6;
  } else {
    goto L7;
  }
L6: ;
  *v53 = ((u32)0ULL);
  v57 = (u32*)(&(*v51).f2);
  *v57 = ((u32)0ULL);
  v58 = (fnptr_t**)&(*v51).f0;
  v59 = *v58;
  v60 = (fnptr_t*)(v59 + (s64)((s64)((u64)2ULL)));
  v61 = *v60;
  ((FT1)v61)(v51);
  v62 = *v58;
  v63 = (fnptr_t*)(v62 + (s64)((s64)((u64)3ULL)));
  v64 = *v63;
  ((FT1)v64)(v51);
  goto L12;
L7: ;
  v65 = *(&__libc_single_threaded);
  v66 = (v65 == ((u8)0ULL));
  if (v66) {
    goto L9;
  } else {
    goto L8;
  }
L8: ;
  v67 = *v53;
  v68 = ((u32)(v67 + ((u32)4294967295ULL)));
  *v53 = v68;
  v71 = v67;
  goto L10;
L9: ;
  v69 = *v53;
  v70 = ((u32)(v69 + ((u32)4294967295ULL)));
  *v53 = v70;
  v71 = v69;
  goto L10;
L10: ;
  v72 = (v71 == ((u32)1ULL));
  if (v72) {
    goto L11;
  } else {
    goto L12;
  }
L11: ;
  _ZNSt16_Sp_counted_baseILN9__gnu_cxx12_Lock_policyE2EE24_M_release_last_use_coldEv(v51);
  goto L12;
L12: ;
  return;
L13: ;
  v73.f0 = v_exc_obj;
  v73.f1 = 0;
  v_exc = 0;
  _ZNSt12__shared_ptrIN14OpenVolumeMesh16PropertyStorageTIbEELN9__gnu_cxx12_Lock_policyE2EED2Ev(v10);
  v_exc = 1; return;
}

void _ZNSt14_Optional_baseIN14OpenVolumeMesh11PropertyPtrIbNS0_6Entity6VertexEEELb0ELb0EED2Ev(struct S59_struct_std___Optional_base_185* a0) {
  u8* v0;
  u8 v1;
  u1 v2;
  fnptr_t** v3;
  struct S20_class_std___Sp_counted_base** v4;
  struct S20_class_std___Sp_counted_base* v5;
  u1 v6;
  u32* v7;
  u64* v8;
  u64 v9;
  u1 v10;
  u32* v11;
  fnptr_t** v12;
  fnptr_t* v13;
  fnptr_t* v14;
  fnptr_t v15;
  fnptr_t* v16;
  fnptr_t* v17;
  fnptr_t v18;
  u8 v19;
  u1 v20;
  u32 v21;
  u32 v22;
  u32 v23;
  u32 v24;
  u32 v25; u32 v25_t;
  u1 v26;
L0: ;
  v0 = (u8*)(&(*a0).f0.f0.f0.f1);
  v1 = *v0;
  v2 = (v1 == ((u8)0ULL));
  if (v2) {
    goto L9;
  } else {
    goto L1;
  }
L1: ;
  *v0 = ((u8)0ULL);
  v3 = (fnptr_t**)(&(*a0).f0.f0.f0.f0.f0.f0.f0.f0);
  *v3 = ((fnptr_t*)((u8**)(&(*(&_ZTVN14OpenVolumeMesh18PropertyStoragePtrIbEE)).f0.e[(s64)((s64)((u64)2ULL))])));
  v4 = (struct S20_class_std___Sp_counted_base**)(&(*a0).f0.f0.f0.f0.f0.f0.f0.f1.f0.f1.f0);
  v5 = *v4;
  v6 = ((u8*)v5 == (u8*)((struct S20_class_std___Sp_counted_base*)0));
  if (v6) {
    goto L9;
  } else {
    goto L2;
  }
L2: ;
  v7 = (u32*)(&(*v5).f1);
  v8 = (u64*)v7;
  v9 = (((u64)(*v5).f1 << 0) | ((u64)(*v5).f2 << 32));
  v10 = (v9 == ((u64)4294967297ULL));
  if (v10) {
    goto L3;
  } else {
    goto L4;
  }
L3: ;
  *v7 = ((u32)0ULL);
  v11 = (u32*)(&(*v5).f2);
  *v11 = ((u32)0ULL);
  v12 = (fnptr_t**)&(*v5).f0;
  v13 = *v12;
  v14 = (fnptr_t*)(v13 + (s64)((s64)((u64)2ULL)));
  v15 = *v14;
  ((FT1)v15)(v5);
  v16 = *v12;
  v17 = (fnptr_t*)(v16 + (s64)((s64)((u64)3ULL)));
  v18 = *v17;
  ((FT1)v18)(v5);
  goto L9;
L4: ;
  v19 = *(&__libc_single_threaded);
  v20 = (v19 == ((u8)0ULL));
  if (v20) {
    goto L6;
  } else {
    goto L5;
  }
L5: ;
  v21 = *v7;
  v22 = ((u32)(v21 + ((u32)4294967295ULL)));
  *v7 = v22;
  v25 = v21;
  goto L7;
L6: ;
  v23 = *v7;
  v24 = ((u32)(v23 + ((u32)4294967295ULL)));
  *v7 = v24;
  v25 = v23;
  goto L7;
L7: ;
  v26 = (v25 == ((u32)1ULL));
  if (v26) {
    goto L8;
  } else {
    goto L9;
  }
L8: ;
  _ZNSt16_Sp_counted_baseILN9__gnu_cxx12_Lock_policyE2EE24_M_release_last_use_coldEv(v5);
  goto L9;
L9: ;
  return;
}

void _ZN14OpenVolumeMesh15ResourceManager21prop_ptr_from_storageIbNS_6Entity6VertexEEENS_11PropertyPtrIT_T0_EEPNS_19PropertyStorageBaseE(struct S31_class_OpenVolumeMesh__PropertyPtr_86* a0, struct S22_class_OpenVolumeMesh__PropertyStorageBas* a1) {
  struct S20_class_std___Sp_counted_base** v0;
  struct S20_class_std___Sp_counted_base* v1;
  u1 v2;
  u32* v3;
  u32 v4;
  u32 v5; u32 v5_t;
  u1 v6;
  u32 v7;
  u32 v8;
  u1 v9;
  u32 v10;
  struct S69 v11;
  struct S69 v12;
  u1 v13;
  u32 v14;
  u8* v15;
  u64* v16;
  fnptr_t** v17;
  struct S22_class_OpenVolumeMesh__PropertyStorageBas** v18;
  struct S12_class_OpenVolumeMesh__PropertyStorageT** v19;
  struct S12_class_OpenVolumeMesh__PropertyStorageT* v20;
  u8 v21;
  u1 v22;
  u32 v23;
  u32 v24;
  u32 v25;
  u32 v26;
  u64* v27;
  u64 v28;
  u1 v29;
  u32* v30;
  fnptr_t** v31;
  fnptr_t* v32;
  fnptr_t* v33;
  fnptr_t v34;
  fnptr_t* v35;
  fnptr_t* v36;
  fnptr_t v37;
  u8 v38;
  u1 v39;
  u32 v40;
  u32 v41;
  u32 v42;
  u32 v43;
  u32 v44; u32 v44_t;
  u1 v45;
  fnptr_t** v46;
  struct S12_class_OpenVolumeMesh__PropertyStorageT** v47;
  struct S20_class_std___Sp_counted_base** v48;
  fnptr_t** v49;
L0: ;
  v0 = (struct S20_class_std___Sp_counted_base**)(&(*a1).f1.f0.f0.f1.f0);
  v1 = *v0;
  v2 = ((u8*)v1 == (u8*)((struct S20_class_std___Sp_counted_base*)0));
  if (v2) {
    goto L4;
  } else {
    goto L1;
  }
L1: ;
  v3 = (u32*)(&(*v1).f1);
  v4 = *v3;
  v5 = v4;
  goto L2;
L2: ;
  v6 = (v5 == ((u32)0ULL));
  if (v6) {
    goto L4;
  } else {
    goto L3;
  }
L3: ;
  v7 = ((u32)(v5 + ((u32)1ULL)));
  v8 = *v3;
  v9 = (v8 == v5);
  v10 = (v9 ? v7 : v8);
  *v3 = v10;
  v11.f0 = v8;
  v12 = v11;
  v12.f1 = v9;
  v13 = v12.f1;
  v14 = v12.f0;
  if (v13) {
    goto L5;
  } else {
    v5 = v14;
    goto L2;
  }
L4: ;
  v15 = __cxa_allocate_exception(((u64)8ULL));
  v16 = (u64*)v15;
  *v16 = ((u64)0ULL);
  v17 = (fnptr_t**)v15;
  *v17 = ((fnptr_t*)((u8**)(&(*(&_ZTVSt12bad_weak_ptr)).f0.e[(s64)((s64)((u64)2ULL))])));
  __cxa_throw(v15, ((u8*)(&_ZTISt12bad_weak_ptr)), ((u8*)((fnptr_t)_ZNSt12bad_weak_ptrD1Ev)));
  if (v_exc) return;
  __CPROVER_assume(0);
L5: ;
  v18 = (struct S22_class_OpenVolumeMesh__PropertyStorageBas**)(&(*a1).f1.f0.f0.f0);
  v19 = (struct S12_class_OpenVolumeMesh__PropertyStorageT**)&(*a1).f1.f0.f0.f0;
  v20 = *v19;
  v21 = *(&__libc_single_threaded);
  v22 = (v21 == ((u8)0ULL));
  if (v22) {
    goto L7;
  } else {
    goto L6;
  }
L6: ;
  v23 = *v3;
  v24 = ((u32)(v23 + ((u32)1ULL)));
  *v3 = v24;
  goto L8;
L7: ;
  v25 = *v3;
  v26 = ((u32)(v25 + ((u32)1ULL)));
  *v3 = v26;
  goto L8;
L8: ;
  v27 = (u64*)v3;
  v28 = (((u64)(*v1).f1 << 0) | ((u64)(*v1).f2 << 32));
  v29 = (v28 == ((u64)4294967297ULL));
  if (v29) {
    goto L9;
  } else {
    goto L10;
  }
L9: ;
  *v3 = ((u32)0ULL);
  v30 = (u32*)(&(*v1).f2);
  *v30 = ((u32)0ULL);
  v31 = (fnptr_t**)&(*v1).f0;
  v32 = *v31;
  v33 = (fnptr_t*)(v32 + (s64)((s64)((u64)2ULL)));
  v34 = *v33;
  ((FT1)v34)(v1);
  v35 = *v31;
  v36 = (fnptr_t*)(v35 + (s64)((s64)((u64)3ULL)));
  v37 = *v36;
  ((FT1)v37)(v1);
  goto L15;
L10: ;
  v38 = *(&__libc_single_threaded);
  v39 = (v38 == ((u8)0ULL));
  if (v39) {
    goto L12;
  } else {
    goto L11;
  }
L11: ;
  v40 = *v3;
  v41 = ((u32)(v40 + ((u32)4294967295ULL)));
  *v3 = v41;
  v44 = v40;
  goto L13;
L12: ;
  v42 = *v3;
  v43 = ((u32)(v42 + ((u32)4294967295ULL)));
  *v3 = v43;
  v44 = v42;
  goto L13;
L13: ;
  v45 = (v44 == ((u32)1ULL));
  if (v45) {
    goto L14;
  } else {
    goto L15;
  }
L14: ;
  _ZNSt16_Sp_counted_baseILN9__gnu_cxx12_Lock_policyE2EE24_M_release_last_use_coldEv(v1);
  goto L15;
L15: ;
  v46 = (fnptr_t**)(&(*a0).f0.f0.f0);
  *v46 = ((fnptr_t*)((u8**)(&(*(&_ZTVN14OpenVolumeMesh18PropertyStoragePtrIbEE)).f0.e[(s64)((s64)((u64)2ULL))])));
  v47 = (struct S12_class_OpenVolumeMesh__PropertyStorageT**)(&(*a0).f0.f0.f1.f0.f0);
  *v47 = v20;
  v48 = (struct S20_class_std___Sp_counted_base**)(&(*a0).f0.f0.f1.f0.f1.f0);
  *v48 = v1;
  *v46 = ((fnptr_t*)((u8**)(&(*(&_ZTVN14OpenVolumeMesh14HandleIndexingINS_6Entity6VertexENS_18PropertyStoragePtrIbEEEE)).f0.e[(s64)((s64)((u64)2ULL))])));
  v49 = (fnptr_t**)(&(*a0).f1.f0);
  *v49 = ((fnptr_t*)((u8**)(&(*(&_ZTVN14OpenVolumeMesh15BasePropertyPtrE)).f0.e[(s64)((s64)((u64)2ULL))])));
  *v46 = ((fnptr_t*)((u8**)(&(*(&_ZTVN14OpenVolumeMesh11PropertyPtrIbNS_6Entity6VertexEEE)).f0.e[(s64)((s64)((u64)2ULL))])));
  *v49 = ((fnptr_t*)((u8**)(&(*(&_ZTVN14OpenVolumeMesh11PropertyPtrIbNS_6Entity6VertexEEE)).f1.e[(s64)((s64)((u64)2ULL))])));
  return;
}

void _ZNSt23_Sp_counted_ptr_inplaceIN14OpenVolumeMesh2IO16PropertyDecoderTIbNS1_6Codecs13BoolPropCodecEEESaIvELN9__gnu_cxx12_Lock_policyE2EED0Ev(struct S60_class_std___Sp_counted_ptr_inplace_3767* a0) {
  u8* v0;
L0: ;
  v0 = (u8*)a0;
  _ZdlPv(v0);
  return;
}

void _ZNSt23_Sp_counted_ptr_inplaceIN14OpenVolumeMesh2IO16PropertyDecoderTIbNS1_6Codecs13BoolPropCodecEEESaIvELN9__gnu_cxx12_Lock_policyE2EE10_M_disposeEv(struct S60_class_std___Sp_counted_ptr_inplace_3767* a0) {
  struct S76_struct___gnu_cxx____aligned_buffer_3768* v0;
  struct S27_class_std__bad_cast* v1;
  fnptr_t** v2;
  fnptr_t* v3;
  fnptr_t v4;
L0: ;
  v0 = (struct S76_struct___gnu_cxx____aligned_buffer_3768*)(&(*a0).f1.f0);
  v1 = (struct S27_class_std__bad_cast*)&(*a0).f1.f0.f0;
  v2 = (fnptr_t**)&(*a0).f1.f0.f0.f0.f0;
  v3 = *v2;
  v4 = *v3;
  ((FT4)v4)(v1);
  return;
}

void _ZNSt23_Sp_counted_ptr_inplaceIN14OpenVolumeMesh2IO16PropertyDecoderTIbNS1_6Codecs13BoolPropCodecEEESaIvELN9__gnu_cxx12_Lock_policyE2EE10_M_destroyEv(struct S60_class_std___Sp_counted_ptr_inplace_3767* a0) {
  u8* v0;
L0: ;
  v0 = (u8*)a0;
  _ZdlPv(v0);
  return;
}

u8* _ZNSt23_Sp_counted_ptr_inplaceIN14OpenVolumeMesh2IO16PropertyDecoderTIbNS1_6Codecs13BoolPropCodecEEESaIvELN9__gnu_cxx12_Lock_policyE2EE14_M_get_deleterERKSt9type_info(struct S60_class_std___Sp_counted_ptr_inplace_3767* a0, struct S39_class_std__type_info* a1) {
  u1 v0;
  u8** v1;
  u8* v2;
  u1 v3;
  u8 v4;
  u1 v5;
  u32 v6;
  u1 v7;
  u8* v8;
  u8* v9; u8* v9_t;
L0: ;
  v0 = ((u8*)a1 == (u8*)((struct S39_class_std__type_info*)(&_ZZNSt19_Sp_make_shared_tag5_S_tiEvE5__tag)));
  if (v0) {
    goto L4;
  } else {
    goto L1;
  }
L1: ;
  v1 = (u8**)(&(*a1).f1);
  v2 = *v1;
  v3 = ((u8*)v2 == (u8*)((u8*)(&(*(&_ZTSSt19_Sp_make_shared_tag)).e[(s64)((s64)((u64)0ULL))])));
  if (v3) {
    goto L4;
  } else {
    goto L2;
  }
L2: ;
  v4 = *v2;
  v5 = (v4 == ((u8)42ULL));
  if (v5) {
    v9 = ((u8*)0);
    goto L5;
  } else {
    goto L3;
  }
L3: ;
  v6 = strcmp(v2, ((u8*)(&(*(&_ZTSSt19_Sp_make_shared_tag)).e[(s64)((s64)((u64)0ULL))])));
  v7 = (v6 == ((u32)0ULL));
  if (v7) {
    goto L4;
  } else {
    v9 = ((u8*)0);
    goto L5;
  }
L4: ;
  v8 = (u8*)(&(*a0).f1.f0.f0.f0.f0);
  v9 = v8;
  goto L5;
L5: ;
  return v9;
}

void _ZN14OpenVolumeMesh2IO16PropertyEncoderTIbNS0_6Codecs13BoolPropCodecEED0Ev(struct S61_class_OpenVolumeMesh__IO__PropertyEncode* a0) {
  fnptr_t** v0;
  u8** v1;
  u8* v2;
  struct S64_union_anon* v3;
  u8* v4;
  u1 v5;
  u8* v6;
L0: ;
  v0 = (fnptr_t**)(&(*a0).f0.f0);
  *v0 = ((fnptr_t*)((u8**)(&(*(&_ZTVN14OpenVolumeMesh2IO19PropertyEncoderBaseE)).f0.e[(s64)((s64)((u64)2ULL))])));
  v1 = (u8**)(&(*a0).f0.f1.f0.f0);
  v2 = *v1;
  v3 = (struct S64_union_anon*)(&(*a0).f0.f1.f2);
  v4 = (u8*)v3;
  v5 = ((u8*)v2 == (u8*)v4);
  if (v5) {
    goto L2;
  } else {
    goto L1;
  }
L1: ;
  _ZdlPv(v2);
  goto L2;
L2: ;
  v6 = (u8*)a0;
  _ZdlPv(v6);
  return;
}

void _ZNK14OpenVolumeMesh2IO16PropertyEncoderTIbNS0_6Codecs13BoolPropCodecEE17serialize_defaultEPKNS_19PropertyStorageBaseERNS0_6detail11WriteBufferE(struct S61_class_OpenVolumeMesh__IO__PropertyEncode* a0, struct S22_class_OpenVolumeMesh__PropertyStorageBas* a1, struct S62_class_OpenVolumeMesh__IO__detail__WriteB* a2) {
  struct S63_class_OpenVolumeMesh__IO__detail__Encode* v0; struct S63_class_OpenVolumeMesh__IO__detail__Encode v0_m;
  u8* v1;
  struct S62_class_OpenVolumeMesh__IO__detail__WriteB** v2;
  struct S12_class_OpenVolumeMesh__PropertyStorageT* v3;
  u8* v4;
  u8 v5;
L0: ;
  v0 = &v0_m;
  v1 = (u8*)v0;
  v2 = (struct S62_class_OpenVolumeMesh__IO__detail__WriteB**)(&(*v0).f0);
  *v2 = a2;
  v3 = _ZNK14OpenVolumeMesh19PropertyStorageBase16cast_to_StorageTIbEEPKNS_16PropertyStorageTIT_EEv(a1);
  if (v_exc) return;
  v4 = (u8*)(&(*v3).f3);
  v5 = *v4;
  _ZN14OpenVolumeMesh2IO6detail7Encoder2u8Eh(v0, v5);
  if (v_exc) return;
  return;
}

void _ZNK14OpenVolumeMesh2IO16PropertyEncoderTIbNS0_6Codecs13BoolPropCodecEE9serializeEPKNS_19PropertyStorageBaseERNS0_6detail11WriteBufferEmm(struct S61_class_OpenVolumeMesh__IO__PropertyEncode* a0, struct S22_class_OpenVolumeMesh__PropertyStorageBas* a1, struct S62_class_OpenVolumeMesh__IO__detail__WriteB* a2, u64 a3, u64 a4) {
  struct S63_class_OpenVolumeMesh__IO__detail__Encode* v0; struct S63_class_OpenVolumeMesh__IO__detail__Encode v0_m;
  struct S12_class_OpenVolumeMesh__PropertyStorageT* v1;
  u8* v2;
  struct S62_class_OpenVolumeMesh__IO__detail__WriteB** v3;
  u1 v4;
  u64** v5;
  u64 v6;
  u64 v7; u64 v7_t;
  u64 v8; u64 v8_t;
  u64 v9;
  u64* v10;
  u8 v11;
  u64 v12;
  u1 v13;
  u64 v14;
  u64 v15; u64 v15_t;
  u64 v16; u64 v16_t;
  u64 v17;
  u64 v18;
  u64 v19;
  u64* v20;
  u64 v21;
  u64* v22;
  u64 v23;
  u1 v24;
  u64 v25;
  u64 v26;
  u64 v27;
  u64 v28;
  u64 v29;
  u1 v30;
  u64 v31;
  u64 v32;
  u64 v33;
  u64 v34;
  u64 v35;
  u64 v36;
  u1 v37;
L0: ;
  v0 = &v0_m;
  v1 = _ZNK14OpenVolumeMesh19PropertyStorageBase16cast_to_StorageTIbEEPKNS_16PropertyStorageTIT_EEv(a1);
  if (v_exc) return;
  v2 = (u8*)v0;
  v3 = (struct S62_class_OpenVolumeMesh__IO__detail__WriteB**)(&(*v0).f0);
  *v3 = a2;
  v4 = (a4 > a3);
  if (v4) {
    goto L1;
  } else {
    goto L5;
  }
L1: ;
  v5 = (u64**)(&(*v1).f2.f0.f0.f0.f0.f0.f0);
  v6 = ((u64)(a4 - a3));
  v7_t = v6;
  v8_t = a3;
  v7 = v7_t;
  v8 = v8_t;
  goto L2;
L2: ;
  v9 = (v7 < ((u64)8ULL) ? v7 : ((u64)8ULL));
  v10 = *v5;
  v15_t = ((u64)0ULL);
  v16_t = ((u64)0ULL);
  v15 = v15_t;
  v16 = v16_t;
  goto L4;
L3: ;
  v11 = ((u8)(v35));
  _ZN14OpenVolumeMesh2IO6detail7Encoder2u8Eh(v0, v11);
  if (v_exc) return;
  v12 = ((u64)(v8 + ((u64)8ULL)));
  v13 = (v12 < a4);
  v14 = ((u64)(v7 + ((u64)18446744073709551608ULL)));
  if (v13) {
    v7_t = v14;
    v8_t = v12;
    v7 = v7_t;
    v8 = v8_t;
    goto L2;
  } else {
    goto L5;
  }
L4: ;
  v17 = ((u64)(v15 + v8));
  v18 = ((u64)(((s64)v17) % ((s64)((u64)64ULL))));
  v19 = ((u64)(((s64)v17) / ((s64)((u64)64ULL))));
  v20 = (u64*)(v10 + (s64)((s64)v19));
  v21 = ((u64)(((s64)v18) >> ((u64)63ULL)));
  v22 = (u64*)(v20 + (s64)((s64)v21));
  v23 = *v22;
  v24 = (((s64)v18) < ((s64)((u64)0ULL)));
  v25 = ((u64)(v18 + ((u64)64ULL)));
  v26 = (v24 ? v25 : v18);
  v27 = ((u64)(v26 & ((u64)4294967295ULL)));
  v28 = ((u64)(((u64)1ULL) << v27));
  v29 = ((u64)(v28 & v23));
  v30 = (v29 == ((u64)0ULL));
  v31 = ((u64)(((u64)1ULL) << v15));
  v32 = ((u64)(v31 | v16));
  v33 = ((u64)(v31 ^ ((u64)18446744073709551615ULL)));
  v34 = ((u64)(v16 & v33));
  v35 = (v30 ? v34 : v32);
  v36 = ((u64)(v15 + ((u64)1ULL)));
  v37 = (v36 == v9);
  if (v37) {
    goto L3;
  } else {
    v15_t = v36;
    v16_t = v35;
    v15 = v15_t;
    v16 = v16_t;
    goto L4;
  }
L5: ;
  return;
}

void _ZNSt23_Sp_counted_ptr_inplaceIN14OpenVolumeMesh2IO16PropertyEncoderTIbNS1_6Codecs13BoolPropCodecEEESaIvELN9__gnu_cxx12_Lock_policyE2EED0Ev(struct S50_class_std___Sp_counted_ptr_inplace_3753* a0) {
  u8* v0;
L0: ;
  v0 = (u8*)a0;
  _ZdlPv(v0);
  return;
}

void _ZNSt23_Sp_counted_ptr_inplaceIN14OpenVolumeMesh2IO16PropertyEncoderTIbNS1_6Codecs13BoolPropCodecEEESaIvELN9__gnu_cxx12_Lock_policyE2EE10_M_disposeEv(struct S50_class_std___Sp_counted_ptr_inplace_3753* a0) {
  struct S75_struct___gnu_cxx____aligned_buffer_3754* v0;
  struct S61_class_OpenVolumeMesh__IO__PropertyEncode* v1;
  fnptr_t** v2;
  fnptr_t* v3;
  fnptr_t v4;
L0: ;
  v0 = (struct S75_struct___gnu_cxx____aligned_buffer_3754*)(&(*a0).f1.f0);
  v1 = (struct S61_class_OpenVolumeMesh__IO__PropertyEncode*)&(*a0).f1.f0.f0;
  v2 = (fnptr_t**)&(*a0).f1.f0.f0.f0.f0;
  v3 = *v2;
  v4 = *v3;
  ((FT5)v4)(v1);
  return;
}

void _ZNSt23_Sp_counted_ptr_inplaceIN14OpenVolumeMesh2IO16PropertyEncoderTIbNS1_6Codecs13BoolPropCodecEEESaIvELN9__gnu_cxx12_Lock_policyE2EE10_M_destroyEv(struct S50_class_std___Sp_counted_ptr_inplace_3753* a0) {
  u8* v0;
L0: ;
  v0 = (u8*)a0;
  _ZdlPv(v0);
  return;
}

u8* _ZNSt23_Sp_counted_ptr_inplaceIN14OpenVolumeMesh2IO16PropertyEncoderTIbNS1_6Codecs13BoolPropCodecEEESaIvELN9__gnu_cxx12_Lock_policyE2EE14_M_get_deleterERKSt9type_info(struct S50_class_std___Sp_counted_ptr_inplace_3753* a0, struct S39_class_std__type_info* a1) {
  u1 v0;
  u8** v1;
  u8* v2;
  u1 v3;
  u8 v4;
  u1 v5;
  u32 v6;
  u1 v7;
  u8* v8;
  u8* v9; u8* v9_t;
L0: ;
  v0 = ((u8*)a1 == (u8*)((struct S39_class_std__type_info*)(&_ZZNSt19_Sp_make_shared_tag5_S_tiEvE5__tag)));
  if (v0) {
    goto L4;
  } else {
    goto L1;
  }
L1: ;
  v1 = (u8**)(&(*a1).f1);
  v2 = *v1;
  v3 = ((u8*)v2 == (u8*)((u8*)(&(*(&_ZTSSt19_Sp_make_shared_tag)).e[(s64)((s64)((u64)0ULL))])));
  if (v3) {
    goto L4;
  } else {
    goto L2;
  }
L2: ;
  v4 = *v2;
  v5 = (v4 == ((u8)42ULL));
  if (v5) {
    v9 = ((u8*)0);
    goto L5;
  } else {
    goto L3;
  }
L3: ;
  v6 = strcmp(v2, ((u8*)(&(*(&_ZTSSt19_Sp_make_shared_tag)).e[(s64)((s64)((u64)0ULL))])));
  v7 = (v6 == ((u32)0ULL));
  if (v7) {
    goto L4;
  } else {
    v9 = ((u8*)0);
    goto L5;
  }
L4: ;
  v8 = (u8*)(&(*a0).f1.f0.f0.f0.f0);
  v9 = v8;
  goto L5;
L5: ;
  return v9;
}

struct S10_class_OpenVolumeMesh__IO__PropertyDecode* _ZNK14OpenVolumeMesh2IO14PropertyCodecs11get_decoderERKNSt7__cxx1112basic_stringIcSt11char_traitsIcESaIcEEE(struct S11_class_OpenVolumeMesh__IO__PropertyCodecs* a0, struct S14_class_std____cxx11__basic_string* a1) {
  struct S16_class_std___Rb_tree_5* v0;
  struct S17_struct_std___Rb_tree_node_base* v1;
  u8* v2;
  u8* v3;
  struct S17_struct_std___Rb_tree_node_base* v4;
  u1 v5;
  struct S17_struct_std___Rb_tree_node_base* v6;
  struct S10_class_OpenVolumeMesh__IO__PropertyDecode** v7;
  struct S10_class_OpenVolumeMesh__IO__PropertyDecode* v8;
  struct S10_class_OpenVolumeMesh__IO__PropertyDecode* v9; struct S10_class_OpenVolumeMesh__IO__PropertyDecode* v9_t;
L0: ;
  v0 = (struct S16_class_std___Rb_tree_5*)(&(*a0).f0.f0);
  v1 = _ZNKSt8_Rb_treeINSt7__cxx1112basic_stringIcSt11char_traitsIcESaIcEEESt4pairIKS5_St10shared_ptrIN14OpenVolumeMesh2IO19PropertyDecoderBaseEEESt10_Select1stISD_ESt4lessIS5_ESaISD_EE4findERS7_(v0, a1);
  if (v_exc) return (struct S10_class_OpenVolumeMesh__IO__PropertyDecode*)0;
  v2 = (u8*)(&(*a0).f0.f0.f0.f0.f0.f0);
  v3 = (u8*)&(*a0).f0.f0.f0.f1.f0.f0;
  v4 = (struct S17_struct_std___Rb_tree_node_base*)&(*a0).f0.f0.f0.f1.f0;
  v5 = ((u8*)v1 == (u8*)v4);
  if (v5) {
    v9 = ((struct S10_class_OpenVolumeMesh__IO__PropertyDecode*)0);
    goto L2;
  } else {
    goto L1;
  }
L1: ;
  v6 = (struct S17_struct_std___Rb_tree_node_base*)(v1 + (s64)((s64)((u64)2ULL)));
  v7 = (struct S10_class_OpenVolumeMesh__IO__PropertyDecode**)v6;
  v8 = *v7;
  v9 = v8;
  goto L2;
L2: ;
  return v9;
}

struct S17_struct_std___Rb_tree_node_base* _ZNKSt8_Rb_treeINSt7__cxx1112basic_stringIcSt11char_traitsIcESaIcEEESt4pairIKS5_St10shared_ptrIN14OpenVolumeMesh2IO19PropertyDecoderBaseEEESt10_Select1stISD_ESt4lessIS5_ESaISD_EE4findERS7_(struct S16_class_std___Rb_tree_5* a0, struct S14_class_std____cxx11__basic_string* a1) {
  u8* v0;
  u8* v1;
  struct S18_struct_std___Rb_tree_node_33** v2;
  struct S18_struct_std___Rb_tree_node_33* v3;
  u8* v4;
  struct S17_struct_std___Rb_tree_node_base* v5;
  u1 v6;
  u64* v7;
  u64 v8;
  u8** v9;
  u8* v10;
  struct S18_struct_std___Rb_tree_node_33* v11; struct S18_struct_std___Rb_tree_node_33* v11_t;
  struct S17_struct_std___Rb_tree_node_base* v12; struct S17_struct_std___Rb_tree_node_base* v12_t;
  u8* v13;
  u64* v14;
  u64 v15;
  u1 v16;
  u64 v17;
  u1 v18;
  struct S67_struct___gnu_cxx____aligned_membuf_34* v19;
  u8** v20;
  u8* v21;
  u32 v22;
  u32 v23; u32 v23_t;
  u1 v24;
  u64 v25;
  u1 v26;
  u64 v27;
  u1 v28;
  u64 v29;
  u32 v30;
  u32 v31; u32 v31_t;
  u1 v32;
  struct S17_struct_std___Rb_tree_node_base** v33;
  struct S17_struct_std___Rb_tree_node_base* v34;
  struct S17_struct_std___Rb_tree_node_base** v35;
  struct S17_struct_std___Rb_tree_node_base* v36;
  struct S17_struct_std___Rb_tree_node_base** v37;
  struct S18_struct_std___Rb_tree_node_33** v38;
  struct S18_struct_std___Rb_tree_node_33* v39;
  u1 v40;
  struct S17_struct_std___Rb_tree_node_base* v41; struct S17_struct_std___Rb_tree_node_base* v41_t;
  u1 v42;
  u64* v43;
  u64 v44;
  struct S17_struct_std___Rb_tree_node_base** v45;
  u64* v46;
  u64 v47;
  u1 v48;
  u64 v49;
  u1 v50;
  struct S17_struct_std___Rb_tree_node_base* v51;
  u8** v52;
  u8* v53;
  u8** v54;
  u8* v55;
  u32 v56;
  u32 v57; u32 v57_t;
  u1 v58;
  u64 v59;
  u1 v60;
  u64 v61;
  u1 v62;
  u64 v63;
  u32 v64;
  u32 v65; u32 v65_t;
  u1 v66;
  struct S17_struct_std___Rb_tree_node_base* v67;
  struct S17_struct_std___Rb_tree_node_base* v68; struct S17_struct_std___Rb_tree_node_base* v68_t;
L0: ;
  v0 = (u8*)(&(*a0).f0.f0.f0.f0);
  v1 = (u8*)&(*a0).f0.f1.f0.f1;
  v2 = (struct S18_struct_std___Rb_tree_node_33**)&(*a0).f0.f1.f0.f1;
  v3 = *v2;
  v4 = (u8*)&(*a0).f0.f1.f0.f0;
  v5 = (struct S17_struct_std___Rb_tree_node_base*)&(*a0).f0.f1.f0;
  v6 = ((u8*)v3 == (u8*)((struct S18_struct_std___Rb_tree_node_33*)0));
  if (v6) {
    v41 = v5;
    goto L7;
  } else {
    goto L1;
  }
L1: ;
  v7 = (u64*)(&(*a1).f1);
  v8 = *v7;
  v9 = (u8**)(&(*a1).f0.f0);
  v10 = *v9;
  v11_t = v3;
  v12_t = v5;
  v11 = v11_t;
  v12 = v12_t;
  goto L2;
L2: ;
  v13 = (u8*)(&(*v11).f1.f0.e[(s64)((s64)((u64)8ULL))]);
  v14 = (u64*)v13;
  v15 = (((u64)(*v11).f1.f0.e[8] << 0) | ((u64)(*v11).f1.f0.e[9] << 8) | ((u64)(*v11).f1.f0.e[10] << 16) | ((u64)(*v11).f1.f0.e[11] << 24) | ((u64)(*v11).f1.f0.e[12] << 32) | ((u64)(*v11).f1.f0.e[13] << 40) | ((u64)(*v11).f1.f0.e[14] << 48) | ((u64)(*v11).f1.f0.e[15] << 56));
  v16 = (v15 > v8);
  v17 = (v16 ? v8 : v15);
  v18 = (v17 == ((u64)0ULL));
  if (v18) {
    v23 = ((u32)0ULL);
    goto L4;
  } else {
    goto L3;
  }
L3: ;
  v19 = (struct S67_struct___gnu_cxx____aligned_membuf_34*)(&(*v11).f1);
  v20 = (u8**)v19;
  v21 = *v20;
  v22 = memcmp(v21, v10, v17);
  v23 = v22;
  goto L4;
L4: ;
  v24 = (v23 == ((u32)0ULL));
  if (v24) {
    goto L5;
  } else {
    v31 = v23;
    goto L6;
  }
L5: ;
  v25 = ((u64)(v15 - v8));
  v26 = (((s64)v25) > ((s64)((u64)18446744071562067968ULL)));
  v27 = (v26 ? v25 : ((u64)18446744071562067968ULL));
  v28 = (((s64)v27) < ((s64)((u64)2147483647ULL)));
  v29 = (v28 ? v27 : ((u64)2147483647ULL));
  v30 = ((u32)(v29));
  v31 = v30;
  goto L6;
L6: ;
  v32 = (((s32)v31) < ((s32)((u32)0ULL)));
  v33 = (struct S17_struct_std___Rb_tree_node_base**)(&(*v11).f0.f3);
  v34 = (struct S17_struct_std___Rb_tree_node_base*)(&(*v11).f0);
  v35 = (struct S17_struct_std___Rb_tree_node_base**)(&(*v11).f0.f2);
  v36 = (v32 ? v12 : v34);
  v37 = (v32 ? v33 : v35);
  v38 = (struct S18_struct_std___Rb_tree_node_33**)v37;
  v39 = *v38;
  v40 = ((u8*)v39 == (u8*)((struct S18_struct_std___Rb_tree_node_33*)0));
  if (v40) {
    v41 = v36;
    goto L7;
  } else {
    v11_t = v39;
    v12_t = v36;
    v11 = v11_t;
    v12 = v12_t;
    goto L2;
  }
L7: ;
  v42 = ((u8*)v41 == (u8*)v5);
  if (v42) {
    v68 = v5;
    goto L13;
  } else {
    goto L8;
  }
L8: ;
  v43 = (u64*)(&(*a1).f1);
  v44 = *v43;
  v45 = (struct S17_struct_std___Rb_tree_node_base**)(&(v41)[(s64)((s64)((u64)1ULL))].f1);
  v46 = (u64*)v45;
  v47 = *v46;
  v48 = (v44 > v47);
  v49 = (v48 ? v47 : v44);
  v50 = (v49 == ((u64)0ULL));
  if (v50) {
    v57 = ((u32)0ULL);
    goto L10;
  } else {
    goto L9;
  }
L9: ;
  v51 = (struct S17_struct_std___Rb_tree_node_base*)(v41 + (s64)((s64)((u64)1ULL)));
  v52 = (u8**)v51;
  v53 = *v52;
  v54 = (u8**)(&(*a1).f0.f0);
  v55 = *v54;
  v56 = memcmp(v55, v53, v49);
  v57 = v56;
  goto L10;
L10: ;
  v58 = (v57 == ((u32)0ULL));
  if (v58) {
    goto L11;
  } else {
    v65 = v57;
    goto L12;
  }
L11: ;
  v59 = ((u64)(v44 - v47));
  v60 = (((s64)v59) > ((s64)((u64)18446744071562067968ULL)));
  v61 = (v60 ? v59 : ((u64)18446744071562067968ULL));
  v62 = (((s64)v61) < ((s64)((u64)2147483647ULL)));
  v63 = (v62 ? v61 : ((u64)2147483647ULL));
  v64 = ((u32)(v63));
  v65 = v64;
  goto L12;
L12: ;
  v66 = (((s32)v65) < ((s32)((u32)0ULL)));
  v67 = (v66 ? v5 : v41);
  v68 = v67;
  goto L13;
L13: ;
  return v68;
}

void _GLOBAL__sub_I_Decoder_cc(void) {
  u32 v0;
L0: ;
  _ZNSt8ios_base4InitC1Ev((&_ZStL8__ioinit_15));
  if (v_exc) return;
  v0 = __cxa_atexit(((fnptr_t)((fnptr_t)_ZNSt8ios_base4InitD1Ev)), ((u8*)(&(*(&_ZStL8__ioinit_15)).f0)), (&__dso_handle));
  return;
}

u8 _ZN14OpenVolumeMesh2IO6detail7Decoder2u8Ev(struct S55_class_OpenVolumeMesh__IO__detail__Decode* a0) {
  u8** v0;
  u8* v1;
  u8* v2;
  u8 v3;
L0: ;
  v0 = (u8**)(&(*a0).f1);
  v1 = *v0;
  v2 = (u8*)(v1 + (s64)((s64)((u64)1ULL)));
  *v0 = v2;
  v3 = *v1;
  return v3;
}

void _ZN14OpenVolumeMesh2IO6detail7Decoder4needEm(struct S55_class_OpenVolumeMesh__IO__detail__Decode* a0, u64 a1) {
  u8** v0;
  u8* v1;
  u8** v2;
  u8* v3;
  u64 v4;
  u64 v5;
  u64 v6;
  u1 v7;
  u8* v8;
  struct S48_class_OpenVolumeMesh__IO__detail__parse_* v9;
  struct S65 v10;
L0: ;
  v0 = (u8**)(&(*a0).f2);
  v1 = *v0;
  v2 = (u8**)(&(*a0).f1);
  v3 = *v2;
  v4 = ((u64)((u64)v1));
  v5 = ((u64)((u64)v3));
  v6 = v_pdiff((u8*)v1, (u8*)v3);
  v7 = (v6 < a1);
  if (v7) {
    goto L1;
  } else {
    goto L4;
  }
L1: ;
  v8 = __cxa_allocate_exception(((u64)16ULL));
  v9 = (struct S48_class_OpenVolumeMesh__IO__detail__parse_*)v8;
  _ZN14OpenVolumeMesh2IO6detail11parse_errorCI2St13runtime_errorEPKc(v9, ((u8*)(&(*(&_str)).e[(s64)((s64)((u64)0ULL))])));
  if (v_exc) {
    goto L3;
  }
  goto L2;
L2: ;
  __cxa_throw(v8, ((u8*)(&_ZTIN14OpenVolumeMesh2IO6detail11parse_errorE)), ((u8*)((fnptr_t)_ZNSt13runtime_errorD2Ev)));
  if (v_exc) return;
  __CPROVER_assume(0);
L3: ;
  v10.f0 = v_exc_obj;
  v10.f1 = 0;
  v_exc = 0;
  __cxa_free_exception(v8);
  v_exc = 1; return;
L4: ;
  return;
}

void _GLOBAL__sub_I_Encoder_cc(void) {
  u32 v0;
L0: ;
  _ZNSt8ios_base4InitC1Ev((&_ZStL8__ioinit_34));
  if (v_exc) return;
  v0 = __cxa_atexit(((fnptr_t)((fnptr_t)_ZNSt8ios_base4InitD1Ev)), ((u8*)(&(*(&_ZStL8__ioinit_34)).f0)), (&__dso_handle));
  return;
}

void _ZN14OpenVolumeMesh2IO6detail7Encoder2u8Eh(struct S63_class_OpenVolumeMesh__IO__detail__Encode* a0, u8 a1) {
  struct S62_class_OpenVolumeMesh__IO__detail__WriteB** v0;
  struct S62_class_OpenVolumeMesh__IO__detail__WriteB* v1;
  u8* v2;
L0: ;
  v0 = (struct S62_class_OpenVolumeMesh__IO__detail__WriteB**)(&(*a0).f0);
  v1 = *v0;
  v2 = _ZN14OpenVolumeMesh2IO6detail11WriteBuffer14bytes_to_writeEm(v1, ((u64)1ULL));
  if (v_exc) return;
  *v2 = a1;
  return;
}

void _GLOBAL__sub_I_WriteBuffer_cc(void) {
  u32 v0;
L0: ;
  _ZNSt8ios_base4InitC1Ev((&_ZStL8__ioinit_51));
  if (v_exc) return;
  v0 = __cxa_atexit(((fnptr_t)((fnptr_t)_ZNSt8ios_base4InitD1Ev)), ((u8*)(&(*(&_ZStL8__ioinit_51)).f0)), (&__dso_handle));
  return;
}

void _ZNSt6vectorIhSaIhEE17_M_default_appendEm(struct S54_class_std__vector* a0, u64 a1) {
  u1 v0;
  u8** v1;
  u8* v2;
  u8** v3;
  u8* v4;
  u64 v5;
  u64 v6;
  u64 v7;
  u8** v8;
  u8* v9;
  u64 v10;
  u64 v11;
  u1 v12;
  u64 v13;
  u1 v14;
  u1 v15;
  u8* v16;
  u64 v17;
  u1 v18;
  u8* v19;
  u8* v20; u8* v20_t;
  u1 v21;
  u1 v22;
  u64 v23;
  u64 v24;
  u1 v25;
  u1 v26;
  u1 v27;
  u64 v28;
  u1 v29;
  u1 v30;
  u8* v31;
  u8* v32; u8* v32_t;
  u8* v33;
  u64 v34;
  u1 v35;
  u8* v36;
  u1 v37;
  u1 v38;
  u8* v39;
  u8* v40;
L0: ;
  v0 = (a1 == ((u64)0ULL));
  if (v0) {
    goto L18;
  } else {
    goto L1;
  }
L1: ;
  v1 = (u8**)(&(*a0).f0.f0.f0.f1);
  v2 = *v1;
  v3 = (u8**)(&(*a0).f0.f0.f0.f0);
  v4 = *v3;
  v5 = ((u64)((u64)v2));
  v6 = ((u64)((u64)v4));
  v7 = v_pdiff((u8*)v2, (u8*)v4);
  v8 = (u8**)(&(*a0).f0.f0.f0.f2);
  v9 = *v8;
  v10 = ((u64)((u64)v9));
  v11 = v_pdiff((u8*)v9, (u8*)v2);
  v12 = (((s64)v7) > ((s64)((u64)18446744073709551615ULL)));
  v13 = ((u64)(v7 ^ ((u64)9223372036854775807ULL)));
  v14 = (v11 <= v13);
  v15 = (v11 < a1);
  if (v15) {
    goto L5;
  } else {
    goto L2;
  }
L2: ;
  *v2 = ((u8)0ULL);
  v16 = (u8*)(v2 + (s64)((s64)((u64)1ULL)));
  v17 = ((u64)(a1 + ((u64)18446744073709551615ULL)));
  v18 = (v17 == ((u64)0ULL));
  if (v18) {
    v20 = v16;
    goto L4;
  } else {
    goto L3;
  }
L3: ;
  v19 = (u8*)(v2 + (s64)((s64)a1));
  v_memset((u8*)v16, ((u8)0ULL), (u64)v17);
  v20 = v19;
  goto L4;
L4: ;
  *v1 = v20;
  goto L18;
L5: ;
  v21 = (v13 < a1);
  if (v21) {
    goto L6;
  } else {
    goto L7;
  }
L6: ;
  _ZSt20__throw_length_errorPKc(((u8*)(&(*(&_str_52)).e[(s64)((s64)((u64)0ULL))])));
  if (v_exc) return;
  __CPROVER_assume(0);
L7: ;
  v22 = (v7 < a1);
  v23 = (v22 ? a1 : v7);
  v24 = ((u64)(v23 + v7));
  v25 = (v24 < v7);
  v26 = (((s64)v24) < ((s64)((u64)0ULL)));
  v27 = ((u1)((v25 | v26)&1));
  v28 = (v27 ? ((u64)9223372036854775807ULL) : v24);
  v29 = (v28 == ((u64)0ULL));
  if (v29) {
    v32 = ((u8*)0);
    goto L11;
  } else {
    goto L8;
  }
L8: ;
  v30 = (((s64)v28) < ((s64)((u64)0ULL)));
  if (v30) {
    goto L9;
  } else {
    goto L10;
  }
L9: ;
  _ZSt17__throw_bad_allocv();
  if (v_exc) return;
  __CPROVER_assume(0);
L10: ;
  v31 = _Znwm(v28);
  if (v_exc) return;
  v32 = v31;
  goto L11;
L11: ;
  v33 = (u8*)(v32 + (s64)((s64)v7));
  *v33 = ((u8)0ULL);
  v34 = ((u64)(a1 + ((u64)18446744073709551615ULL)));
  v35 = (v34 == ((u64)0ULL));
  if (v35) {
    goto L13;
  } else {
    goto L12;
  }
L12: ;
  v36 = (u8*)(v33 + (s64)((s64)((u64)1ULL)));
  v_memset((u8*)v36, ((u8)0ULL), (u64)v34);
  goto L13;
L13: ;
  v37 = (((s64)v7) > ((s64)((u64)0ULL)));
  if (v37) {
    goto L14;
  } else {
    goto L15;
  }
L14: ;
  v_memmove((u8*)v32, (u8*)v4, (u64)v7);
  goto L15;
L15: ;
  v38 = ((u8*)v4 == (u8*)((u8*)0));
  if (v38) {
    goto L17;
  } else {
    goto L16;
  }
L16: ;
  _ZdlPv(v4);
  goto L17;
L17: ;
  *v3 = v32;
  v39 = (u8*)(v33 + (s64)((s64)a1));
  *v1 = v39;
  v40 = (u8*)(v32 + (s64)((s64)v28));
  *v8 = v40;
  goto L18;
L18: ;
  return;
}

u8* _ZN14OpenVolumeMesh2IO6detail11WriteBuffer14bytes_to_writeEm(struct S62_class_OpenVolumeMesh__IO__detail__WriteB* a0, u64 a1) {
  struct S54_class_std__vector* v0;
  u8** v1;
  u8* v2;
  u8** v3;
  u8* v4;
  u64 v5;
  u64 v6;
  u64 v7;
  u64* v8;
  u64 v9;
  u64 v10;
  u1 v11;
  u64 v12;
  u1 v13;
  u64 v14;
  u1 v15;
  u8* v16;
  u1 v17;
  u64 v18;
  u8** v19;
  u8* v20;
  u8* v21;
  u64 v22;
L0: ;
  v0 = (struct S54_class_std__vector*)(&(*a0).f0);
  v1 = (u8**)(&(*a0).f0.f0.f0.f0.f1);
  v2 = *v1;
  v3 = (u8**)(&(*a0).f0.f0.f0.f0.f0);
  v4 = *v3;
  v5 = ((u64)((u64)v2));
  v6 = ((u64)((u64)v4));
  v7 = v_pdiff((u8*)v2, (u8*)v4);
  v8 = (u64*)(&(*a0).f1);
  v9 = *v8;
  v10 = ((u64)(v7 - v9));
  v11 = (v10 < a1);
  if (v11) {
    goto L1;
  } else {
    goto L6;
  }
L1: ;
  v12 = ((u64)(v9 + a1));
  v13 = (v12 > v7);
  if (v13) {
    goto L2;
  } else {
    goto L3;
  }
L2: ;
  v14 = ((u64)(v12 - v7));
  _ZNSt6vectorIhSaIhEE17_M_default_appendEm(v0, v14);
  if (v_exc) return (u8*)0;
  goto L6;
L3: ;
  v15 = (v12 < v7);
  if (v15) {
    goto L4;
  } else {
    goto L6;
  }
L4: ;
  v16 = (u8*)(v4 + (s64)((s64)v12));
  v17 = ((u8*)v2 == (u8*)v16);
  if (v17) {
    goto L6;
  } else {
    goto L5;
  }
L5: ;
  *v1 = v16;
  goto L6;
L6: ;
  v18 = *v8;
  v19 = (u8**)(&(*a0).f0.f0.f0.f0.f0);
  v20 = *v19;
  v21 = (u8*)(v20 + (s64)((s64)v18));
  v22 = ((u64)(v18 + a1));
  *v8 = v22;
  return v21;
}

void _GLOBAL__sub_I_ResourceManager_cc(void) {
  u32 v0;
L0: ;
  _ZNSt8ios_base4InitC1Ev((&_ZStL8__ioinit_59));
  if (v_exc) return;
  v0 = __cxa_atexit(((fnptr_t)((fnptr_t)_ZNSt8ios_base4InitD1Ev)), ((u8*)(&(*(&_ZStL8__ioinit_59)).f0)), (&__dso_handle));
  return;
}

u64 _ZNK14OpenVolumeMesh15ResourceManager1nINS_6Entity6VertexEEEmv(struct S53_class_OpenVolumeMesh__ResourceManager* a0) {
  fnptr_t** v0;
  fnptr_t* v1;
  fnptr_t* v2;
  fnptr_t v3;
  u64 v4;
L0: ;
  v0 = (fnptr_t**)&(*a0).f0;
  v1 = *v0;
  v2 = (fnptr_t*)(v1 + (s64)((s64)((u64)2ULL)));
  v3 = *v2;
  v4 = ((FT6)v3)(a0);
  if (v_exc) return (u64)0;
  return v4;
}

u64 _ZNK14OpenVolumeMesh15ResourceManager1nINS_6Entity4EdgeEEEmv(struct S53_class_OpenVolumeMesh__ResourceManager* a0) {
  fnptr_t** v0;
  fnptr_t* v1;
  fnptr_t* v2;
  fnptr_t v3;
  u64 v4;
L0: ;
  v0 = (fnptr_t**)&(*a0).f0;
  v1 = *v0;
  v2 = (fnptr_t*)(v1 + (s64)((s64)((u64)3ULL)));
  v3 = *v2;
  v4 = ((FT6)v3)(a0);
  if (v_exc) return (u64)0;
  return v4;
}

u64 _ZNK14OpenVolumeMesh15ResourceManager1nINS_6Entity8HalfEdgeEEEmv(struct S53_class_OpenVolumeMesh__ResourceManager* a0) {
  fnptr_t** v0;
  fnptr_t* v1;
  fnptr_t* v2;
  fnptr_t v3;
  u64 v4;
L0: ;
  v0 = (fnptr_t**)&(*a0).f0;
  v1 = *v0;
  v2 = (fnptr_t*)(v1 + (s64)((s64)((u64)4ULL)));
  v3 = *v2;
  v4 = ((FT6)v3)(a0);
  if (v_exc) return (u64)0;
  return v4;
}

u64 _ZNK14OpenVolumeMesh15ResourceManager1nINS_6Entity4FaceEEEmv(struct S53_class_OpenVolumeMesh__ResourceManager* a0) {
  fnptr_t** v0;
  fnptr_t* v1;
  fnptr_t* v2;
  fnptr_t v3;
  u64 v4;
L0: ;
  v0 = (fnptr_t**)&(*a0).f0;
  v1 = *v0;
  v2 = (fnptr_t*)(v1 + (s64)((s64)((u64)5ULL)));
  v3 = *v2;
  v4 = ((FT6)v3)(a0);
  if (v_exc) return (u64)0;
  return v4;
}

u64 _ZNK14OpenVolumeMesh15ResourceManager1nINS_6Entity8HalfFaceEEEmv(struct S53_class_OpenVolumeMesh__ResourceManager* a0) {
  fnptr_t** v0;
  fnptr_t* v1;
  fnptr_t* v2;
  fnptr_t v3;
  u64 v4;
L0: ;
  v0 = (fnptr_t**)&(*a0).f0;
  v1 = *v0;
  v2 = (fnptr_t*)(v1 + (s64)((s64)((u64)6ULL)));
  v3 = *v2;
  v4 = ((FT6)v3)(a0);
  if (v_exc) return (u64)0;
  return v4;
}

u64 _ZNK14OpenVolumeMesh15ResourceManager1nINS_6Entity4CellEEEmv(struct S53_class_OpenVolumeMesh__ResourceManager* a0) {
  fnptr_t** v0;
  fnptr_t* v1;
  fnptr_t* v2;
  fnptr_t v3;
  u64 v4;
L0: ;
  v0 = (fnptr_t**)&(*a0).f0;
  v1 = *v0;
  v2 = (fnptr_t*)(v1 + (s64)((s64)((u64)7ULL)));
  v3 = *v2;
  v4 = ((FT6)v3)(a0);
  if (v_exc) return (u64)0;
  return v4;
}

u64 _ZNK14OpenVolumeMesh15ResourceManager1nINS_6Entity4MeshEEEmv(struct S53_class_OpenVolumeMesh__ResourceManager* a0) {
L0: ;
  return ((u64)1ULL);
}

void _GLOBAL__sub_I_PropertyStorageBase_cc(void) {
  u32 v0;
L0: ;
  _ZNSt8ios_base4InitC1Ev((&_ZStL8__ioinit_75));
  if (v_exc) return;
  v0 = __cxa_atexit(((fnptr_t)((fnptr_t)_ZNSt8ios_base4InitD1Ev)), ((u8*)(&(*(&_ZStL8__ioinit_75)).f0)), (&__dso_handle));
  return;
}

void _ZN14OpenVolumeMesh6detail18internal_type_nameB5cxx11ERKSt9type_info(struct S14_class_std____cxx11__basic_string* a0, struct S39_class_std__type_info* a1) {
  u64* v0; u64 v0_m;
  u8** v1;
  u8* v2;
  u8 v3;
  u1 v4;
  u64 v5;
  u8* v6;
  struct S64_union_anon* v7;
  struct S64_union_anon** v8;
  u1 v9;
  u64 v10;
  u8* v11;
  u1 v12;
  u8* v13;
  u8** v14;
  u64 v15;
  u64* v16;
  u8** v17;
  u8* v18;
  u8 v19;
  u64 v20;
  u64* v21;
  u8* v22;
  u8* v23;
L0: ;
  v0 = &v0_m;
  v1 = (u8**)(&(*a1).f1);
  v2 = *v1;
  v3 = *v2;
  v4 = (v3 == ((u8)42ULL));
  v5 = ((u64)(v4));
  v6 = (u8*)(v2 + (s64)((s64)v5));
  v7 = (struct S64_union_anon*)(&(*a0).f2);
  v8 = (struct S64_union_anon**)&(*a0).f0.f0;
  *v8 = v7;
  v9 = ((u8*)v6 == (u8*)((u8*)0));
  if (v9) {
    goto L1;
  } else {
    goto L2;
  }
L1: ;
  _ZSt19__throw_logic_errorPKc(((u8*)(&(*(&_str_78)).e[(s64)((s64)((u64)0ULL))])));
  if (v_exc) return;
  __CPROVER_assume(0);
L2: ;
  v10 = strlen(v6);
  v11 = (u8*)v0;
  *v0 = v10;
  v12 = (v10 > ((u64)15ULL));
  if (v12) {
    goto L3;
  } else {
    goto L4;
  }
L3: ;
  v13 = _ZNSt7__cxx1112basic_stringIcSt11char_traitsIcESaIcEE9_M_createERmm(a0, v0, ((u64)0ULL));
  if (v_exc) return;
  v14 = (u8**)(&(*a0).f0.f0);
  *v14 = v13;
  v15 = *v0;
  v16 = (u64*)(&(*a0).f2.f0.e[0]);
  *v16 = v15;
  goto L4;
L4: ;
  v17 = (u8**)(&(*a0).f0.f0);
  v18 = *v17;
  switch (v10) {
  case ((u64)1ULL): {
    goto L5;
  }
  case ((u64)0ULL): {
    goto L7;
  }
  default: {
    goto L6;
  }
  }
L5: ;
  v19 = *v6;
  *v18 = v19;
  goto L7;
L6: ;
  v_memcpy((u8*)v18, (u8*)v6, (u64)v10);
  goto L7;
L7: ;
  v20 = *v0;
  v21 = (u64*)(&(*a0).f1);
  *v21 = v20;
  v22 = *v17;
  v23 = (u8*)(v22 + (s64)((s64)v20));
  *v23 = ((u8)0ULL);
  return;
}

struct S17_struct_std___Rb_tree_node_base* _ZSt18_Rb_tree_incrementPSt18_Rb_tree_node_base(struct S17_struct_std___Rb_tree_node_base* a0) {
  struct S17_struct_std___Rb_tree_node_base** v0;
  struct S17_struct_std___Rb_tree_node_base* v1;
  u1 v2;
  struct S17_struct_std___Rb_tree_node_base* v3; struct S17_struct_std___Rb_tree_node_base* v3_t;
  struct S17_struct_std___Rb_tree_node_base** v4;
  struct S17_struct_std___Rb_tree_node_base* v5;
  u1 v6;
  struct S17_struct_std___Rb_tree_node_base* v7; struct S17_struct_std___Rb_tree_node_base* v7_t;
  struct S17_struct_std___Rb_tree_node_base** v8;
  struct S17_struct_std___Rb_tree_node_base* v9;
  struct S17_struct_std___Rb_tree_node_base** v10;
  struct S17_struct_std___Rb_tree_node_base* v11;
  u1 v12;
  struct S17_struct_std___Rb_tree_node_base** v13;
  struct S17_struct_std___Rb_tree_node_base* v14;
  u1 v15;
  struct S17_struct_std___Rb_tree_node_base* v16;
  struct S17_struct_std___Rb_tree_node_base* v17; struct S17_struct_std___Rb_tree_node_base* v17_t;
L0: ;
  v0 = (struct S17_struct_std___Rb_tree_node_base**)(&(*a0).f3);
  v1 = *v0;
  v2 = ((u8*)v1 == (u8*)((struct S17_struct_std___Rb_tree_node_base*)0));
  if (v2) {
    v7 = a0;
    goto L2;
  } else {
    v3 = v1;
    goto L1;
  }
L1: ;
  v4 = (struct S17_struct_std___Rb_tree_node_base**)(&(*v3).f2);
  v5 = *v4;
  v6 = ((u8*)v5 == (u8*)((struct S17_struct_std___Rb_tree_node_base*)0));
  if (v6) {
    v17 = v3;
    goto L4;
  } else {
    v3 = v5;
    goto L1;
  }
L2: ;
  v8 = (struct S17_struct_std___Rb_tree_node_base**)(&(*v7).f1);
  v9 = *v8;
  v10 = (struct S17_struct_std___Rb_tree_node_base**)(&(*v9).f3);
  v11 = *v10;
  v12 = ((u8*)v7 == (u8*)v11);
  if (v12) {
    v7 = v9;
    goto L2;
  } else {
    goto L3;
  }
L3: ;
  v13 = (struct S17_struct_std___Rb_tree_node_base**)(&(*v7).f3);
  v14 = *v13;
  v15 = ((u8*)v14 == (u8*)v9);
  v16 = (v15 ? v7 : v9);
  v17 = v16;
  goto L4;
L4: ;
  return v17;
}

struct S17_struct_std___Rb_tree_node_base* _ZSt18_Rb_tree_incrementPKSt18_Rb_tree_node_base(struct S17_struct_std___Rb_tree_node_base* a0) {
  struct S17_struct_std___Rb_tree_node_base** v0;
  struct S17_struct_std___Rb_tree_node_base* v1;
  u1 v2;
  struct S17_struct_std___Rb_tree_node_base* v3; struct S17_struct_std___Rb_tree_node_base* v3_t;
  struct S17_struct_std___Rb_tree_node_base** v4;
  struct S17_struct_std___Rb_tree_node_base* v5;
  u1 v6;
  struct S17_struct_std___Rb_tree_node_base* v7; struct S17_struct_std___Rb_tree_node_base* v7_t;
  struct S17_struct_std___Rb_tree_node_base** v8;
  struct S17_struct_std___Rb_tree_node_base* v9;
  struct S17_struct_std___Rb_tree_node_base** v10;
  struct S17_struct_std___Rb_tree_node_base* v11;
  u1 v12;
  struct S17_struct_std___Rb_tree_node_base** v13;
  struct S17_struct_std___Rb_tree_node_base* v14;
  u1 v15;
  struct S17_struct_std___Rb_tree_node_base* v16;
  struct S17_struct_std___Rb_tree_node_base* v17; struct S17_struct_std___Rb_tree_node_base* v17_t;
L0: ;
  v0 = (struct S17_struct_std___Rb_tree_node_base**)(&(*a0).f3);
  v1 = *v0;
  v2 = ((u8*)v1 == (u8*)((struct S17_struct_std___Rb_tree_node_base*)0));
  if (v2) {
    v7 = a0;
    goto L2;
  } else {
    v3 = v1;
    goto L1;
  }
L1: ;
  v4 = (struct S17_struct_std___Rb_tree_node_base**)(&(*v3).f2);
  v5 = *v4;
  v6 = ((u8*)v5 == (u8*)((struct S17_struct_std___Rb_tree_node_base*)0));
  if (v6) {
    v17 = v3;
    goto L4;
  } else {
    v3 = v5;
    goto L1;
  }
L2: ;
  v8 = (struct S17_struct_std___Rb_tree_node_base**)(&(*v7).f1);
  v9 = *v8;
  v10 = (struct S17_struct_std___Rb_tree_node_base**)(&(*v9).f3);
  v11 = *v10;
  v12 = ((u8*)v7 == (u8*)v11);
  if (v12) {
    v7 = v9;
    goto L2;
  } else {
    goto L3;
  }
L3: ;
  v13 = (struct S17_struct_std___Rb_tree_node_base**)(&(*v7).f3);
  v14 = *v13;
  v15 = ((u8*)v14 == (u8*)v9);
  v16 = (v15 ? v7 : v9);
  v17 = v16;
  goto L4;
L4: ;
  return v17;
}

struct S17_struct_std___Rb_tree_node_base* _ZSt18_Rb_tree_decrementPSt18_Rb_tree_node_base(struct S17_struct_std___Rb_tree_node_base* a0) {
  u32* v0;
  u32 v1;
  u1 v2;
  struct S17_struct_std___Rb_tree_node_base** v3;
  struct S17_struct_std___Rb_tree_node_base* v4;
  struct S17_struct_std___Rb_tree_node_base** v5;
  struct S17_struct_std___Rb_tree_node_base* v6;
  u1 v7;
  struct S17_struct_std___Rb_tree_node_base** v8;
  struct S17_struct_std___Rb_tree_node_base* v9;
  struct S17_struct_std___Rb_tree_node_base** v10;
  struct S17_struct_std___Rb_tree_node_base* v11;
  u1 v12;
  struct S17_struct_std___Rb_tree_node_base* v13; struct S17_struct_std___Rb_tree_node_base* v13_t;
  struct S17_struct_std___Rb_tree_node_base** v14;
  struct S17_struct_std___Rb_tree_node_base* v15;
  u1 v16;
  struct S17_struct_std___Rb_tree_node_base* v17; struct S17_struct_std___Rb_tree_node_base* v17_t;
  struct S17_struct_std___Rb_tree_node_base** v18;
  struct S17_struct_std___Rb_tree_node_base* v19;
  struct S17_struct_std___Rb_tree_node_base** v20;
  struct S17_struct_std___Rb_tree_node_base* v21;
  u1 v22;
  struct S17_struct_std___Rb_tree_node_base* v23; struct S17_struct_std___Rb_tree_node_base* v23_t;
L0: ;
  v0 = (u32*)(&(*a0).f0);
  v1 = *v0;
  v2 = (v1 == ((u32)0ULL));
  if (v2) {
    goto L1;
  } else {
    goto L3;
  }
L1: ;
  v3 = (struct S17_struct_std___Rb_tree_node_base**)(&(*a0).f1);
  v4 = *v3;
  v5 = (struct S17_struct_std___Rb_tree_node_base**)(&(*v4).f1);
  v6 = *v5;
  v7 = ((u8*)v6 == (u8*)a0);
  if (v7) {
    goto L2;
  } else {
    goto L3;
  }
L2: ;
  v8 = (struct S17_struct_std___Rb_tree_node_base**)(&(*a0).f3);
  v9 = *v8;
  v23 = v9;
  goto L6;
L3: ;
  v10 = (struct S17_struct_std___Rb_tree_node_base**)(&(*a0).f2);
  v11 = *v10;
  v12 = ((u8*)v11 == (u8*)((struct S17_struct_std___Rb_tree_node_base*)0));
  if (v12) {
    v17 = a0;
    goto L5;
  } else {
    v13 = v11;
    goto L4;
  }
L4: ;
  v14 = (struct S17_struct_std___Rb_tree_node_base**)(&(*v13).f3);
  v15 = *v14;
  v16 = ((u8*)v15 == (u8*)((struct S17_struct_std___Rb_tree_node_base*)0));
  if (v16) {
    v23 = v13;
    goto L6;
  } else {
    v13 = v15;
    goto L4;
  }
L5: ;
  v18 = (struct S17_struct_std___Rb_tree_node_base**)(&(*v17).f1);
  v19 = *v18;
  v20 = (struct S17_struct_std___Rb_tree_node_base**)(&(*v19).f2);
  v21 = *v20;
  v22 = ((u8*)v17 == (u8*)v21);
  if (v22) {
    v17 = v19;
    goto L5;
  } else {
    v23 = v19;
    goto L6;
  }
L6: ;
  return v23;
}

void _ZSt29_Rb_tree_insert_and_rebalancebPSt18_Rb_tree_node_baseS0_RS_(u1 a0, struct S17_struct_std___Rb_tree_node_base* a1, struct S17_struct_std___Rb_tree_node_base* a2, struct S17_struct_std___Rb_tree_node_base* a3) {
  struct S17_struct_std___Rb_tree_node_base** v0;
  struct S17_struct_std___Rb_tree_node_base** v1;
  u32* v2;
  u8* v3;
  struct S17_struct_std___Rb_tree_node_base** v4;
  u1 v5;
  struct S17_struct_std___Rb_tree_node_base** v6;
  struct S17_struct_std___Rb_tree_node_base** v7;
  struct S17_struct_std___Rb_tree_node_base** v8;
  struct S17_struct_std___Rb_tree_node_base* v9;
  u1 v10;
  struct S17_struct_std___Rb_tree_node_base** v11;
  struct S17_struct_std___Rb_tree_node_base** v12;
  struct S17_struct_std___Rb_tree_node_base* v13;
  u1 v14;
  struct S17_struct_std___Rb_tree_node_base** v15; struct S17_struct_std___Rb_tree_node_base** v15_t;
L0: ;
  v0 = (struct S17_struct_std___Rb_tree_node_base**)(&(*a1).f1);
  *v0 = a2;
  v1 = (struct S17_struct_std___Rb_tree_node_base**)(&(*a1).f2);
  v2 = (u32*)(&(*a1).f0);
  v3 = (u8*)v1;
  (*a1).f2 = (struct S17_struct_std___Rb_tree_node_base*)0;
  (*a1).f3 = (struct S17_struct_std___Rb_tree_node_base*)0;
  *v2 = ((u32)1ULL);
  if (a0) {
    goto L1;
  } else {
    goto L4;
  }
L1: ;
  v4 = (struct S17_struct_std___Rb_tree_node_base**)(&(*a2).f2);
  *v4 = a1;
  v5 = ((u8*)a2 == (u8*)a3);
  if (v5) {
    goto L2;
  } else {
    goto L3;
  }
L2: ;
  v6 = (struct S17_struct_std___Rb_tree_node_base**)(&(*a3).f1);
  *v6 = a1;
  v7 = (struct S17_struct_std___Rb_tree_node_base**)(&(*a3).f3);
  v15 = v7;
  goto L5;
L3: ;
  v8 = (struct S17_struct_std___Rb_tree_node_base**)(&(*a3).f2);
  v9 = *v8;
  v10 = ((u8*)v9 == (u8*)a2);
  if (v10) {
    v15 = v8;
    goto L5;
  } else {
    goto L6;
  }
L4: ;
  v11 = (struct S17_struct_std___Rb_tree_node_base**)(&(*a2).f3);
  *v11 = a1;
  v12 = (struct S17_struct_std___Rb_tree_node_base**)(&(*a3).f3);
  v13 = *v12;
  v14 = ((u8*)v13 == (u8*)a2);
  if (v14) {
    v15 = v12;
    goto L5;
  } else {
    goto L6;
  }
L5: ;
  *v15 = a1;
  goto L6;
L6: ;
  return;
}

struct S17_struct_std___Rb_tree_node_base* _ZSt28_Rb_tree_rebalance_for_erasePSt18_Rb_tree_node_baseRS_(struct S17_struct_std___Rb_tree_node_base* a0, struct S17_struct_std___Rb_tree_node_base* a1) {
  struct S17_struct_std___Rb_tree_node_base** v0;
  struct S17_struct_std___Rb_tree_node_base** v1;
  struct S17_struct_std___Rb_tree_node_base** v2;
  struct S17_struct_std___Rb_tree_node_base** v3;
  struct S17_struct_std___Rb_tree_node_base* v4;
  u1 v5;
  struct S17_struct_std___Rb_tree_node_base** v6;
  struct S17_struct_std___Rb_tree_node_base* v7;
  u1 v8;
  struct S17_struct_std___Rb_tree_node_base* v9; struct S17_struct_std___Rb_tree_node_base* v9_t;
  struct S17_struct_std___Rb_tree_node_base** v10;
  struct S17_struct_std___Rb_tree_node_base* v11;
  u1 v12;
  struct S17_struct_std___Rb_tree_node_base** v13;
  struct S17_struct_std___Rb_tree_node_base* v14;
  struct S17_struct_std___Rb_tree_node_base* v15; struct S17_struct_std___Rb_tree_node_base* v15_t;
  struct S17_struct_std___Rb_tree_node_base* v16; struct S17_struct_std___Rb_tree_node_base* v16_t;
  u1 v17;
  struct S17_struct_std___Rb_tree_node_base** v18;
  struct S17_struct_std___Rb_tree_node_base** v19;
  struct S17_struct_std___Rb_tree_node_base** v20;
  struct S17_struct_std___Rb_tree_node_base* v21;
  u1 v22;
  u1 v23;
  struct S17_struct_std___Rb_tree_node_base** v24;
  struct S17_struct_std___Rb_tree_node_base* v25;
  struct S17_struct_std___Rb_tree_node_base** v26;
  struct S17_struct_std___Rb_tree_node_base** v27;
  struct S17_struct_std___Rb_tree_node_base* v28;
  struct S17_struct_std___Rb_tree_node_base** v29;
  struct S17_struct_std___Rb_tree_node_base** v30;
  struct S17_struct_std___Rb_tree_node_base* v31;
  struct S17_struct_std___Rb_tree_node_base** v32;
  struct S17_struct_std___Rb_tree_node_base* v33;
  u1 v34;
  struct S17_struct_std___Rb_tree_node_base** v35;
  struct S17_struct_std___Rb_tree_node_base* v36;
  struct S17_struct_std___Rb_tree_node_base** v37;
  struct S17_struct_std___Rb_tree_node_base* v38;
  u1 v39;
  struct S17_struct_std___Rb_tree_node_base** v40;
  struct S17_struct_std___Rb_tree_node_base** v41;
  struct S17_struct_std___Rb_tree_node_base** v42; struct S17_struct_std___Rb_tree_node_base** v42_t;
  struct S17_struct_std___Rb_tree_node_base** v43;
  struct S17_struct_std___Rb_tree_node_base* v44;
  struct S17_struct_std___Rb_tree_node_base** v45;
  u1 v46;
  struct S17_struct_std___Rb_tree_node_base** v47;
  struct S17_struct_std___Rb_tree_node_base* v48;
  struct S17_struct_std___Rb_tree_node_base** v49;
  struct S17_struct_std___Rb_tree_node_base* v50;
  u1 v51;
  struct S17_struct_std___Rb_tree_node_base** v52;
  struct S17_struct_std___Rb_tree_node_base* v53;
  struct S17_struct_std___Rb_tree_node_base** v54;
  struct S17_struct_std___Rb_tree_node_base* v55;
  u1 v56;
  struct S17_struct_std___Rb_tree_node_base** v57;
  struct S17_struct_std___Rb_tree_node_base** v58;
  struct S17_struct_std___Rb_tree_node_base** v59; struct S17_struct_std___Rb_tree_node_base** v59_t;
  struct S17_struct_std___Rb_tree_node_base* v60;
  u1 v61;
  struct S17_struct_std___Rb_tree_node_base** v62;
  struct S17_struct_std___Rb_tree_node_base* v63;
  u1 v64;
  struct S17_struct_std___Rb_tree_node_base** v65;
  struct S17_struct_std___Rb_tree_node_base* v66;
  struct S17_struct_std___Rb_tree_node_base* v67; struct S17_struct_std___Rb_tree_node_base* v67_t;
  struct S17_struct_std___Rb_tree_node_base** v68;
  struct S17_struct_std___Rb_tree_node_base* v69;
  u1 v70;
  struct S17_struct_std___Rb_tree_node_base* v71; struct S17_struct_std___Rb_tree_node_base* v71_t;
  struct S17_struct_std___Rb_tree_node_base* v72;
  u1 v73;
  struct S17_struct_std___Rb_tree_node_base* v74;
  u1 v75;
  struct S17_struct_std___Rb_tree_node_base** v76;
  struct S17_struct_std___Rb_tree_node_base* v77;
  struct S17_struct_std___Rb_tree_node_base* v78; struct S17_struct_std___Rb_tree_node_base* v78_t;
  struct S17_struct_std___Rb_tree_node_base** v79;
  struct S17_struct_std___Rb_tree_node_base* v80;
  u1 v81;
  struct S17_struct_std___Rb_tree_node_base* v82; struct S17_struct_std___Rb_tree_node_base* v82_t;
L0: ;
  v0 = (struct S17_struct_std___Rb_tree_node_base**)(&(*a1).f1);
  v1 = (struct S17_struct_std___Rb_tree_node_base**)(&(*a1).f2);
  v2 = (struct S17_struct_std___Rb_tree_node_base**)(&(*a1).f3);
  v3 = (struct S17_struct_std___Rb_tree_node_base**)(&(*a0).f2);
  v4 = *v3;
  v5 = ((u8*)v4 == (u8*)((struct S17_struct_std___Rb_tree_node_base*)0));
  v6 = (struct S17_struct_std___Rb_tree_node_base**)(&(*a0).f3);
  v7 = *v6;
  if (v5) {
    v15_t = a0;
    v16_t = v7;
    v15 = v15_t;
    v16 = v16_t;
    goto L4;
  } else {
    goto L1;
  }
L1: ;
  v8 = ((u8*)v7 == (u8*)((struct S17_struct_std___Rb_tree_node_base*)0));
  if (v8) {
    v15_t = a0;
    v16_t = v4;
    v15 = v15_t;
    v16 = v16_t;
    goto L4;
  } else {
    v9 = v7;
    goto L2;
  }
L2: ;
  v10 = (struct S17_struct_std___Rb_tree_node_base**)(&(*v9).f2);
  v11 = *v10;
  v12 = ((u8*)v11 == (u8*)((struct S17_struct_std___Rb_tree_node_base*)0));
  if (v12) {
    goto L3;
  } else {
    v9 = v11;
    goto L2;
  }
L3: ;
  v13 = (struct S17_struct_std___Rb_tree_node_base**)(&(*v9).f3);
  v14 = *v13;
  v15_t = v9;
  v16_t = v14;
  v15 = v15_t;
  v16 = v16_t;
  goto L4;
L4: ;
  v17 = ((u8*)v15 == (u8*)a0);
  if (v17) {
    goto L12;
  } else {
    goto L5;
  }
L5: ;
  v18 = (struct S17_struct_std___Rb_tree_node_base**)(&(*v4).f1);
  *v18 = v15;
  v19 = (struct S17_struct_std___Rb_tree_node_base**)(&(*v15).f2);
  *v19 = v4;
  v20 = (struct S17_struct_std___Rb_tree_node_base**)(&(*a0).f3);
  v21 = *v20;
  v22 = ((u8*)v15 == (u8*)v21);
  if (v22) {
    goto L9;
  } else {
    goto L6;
  }
L6: ;
  v23 = ((u8*)v16 == (u8*)((struct S17_struct_std___Rb_tree_node_base*)0));
  if (v23) {
    goto L8;
  } else {
    goto L7;
  }
L7: ;
  v24 = (struct S17_struct_std___Rb_tree_node_base**)(&(*v15).f1);
  v25 = *v24;
  v26 = (struct S17_struct_std___Rb_tree_node_base**)(&(*v16).f1);
  *v26 = v25;
  goto L8;
L8: ;
  v27 = (struct S17_struct_std___Rb_tree_node_base**)(&(*v15).f1);
  v28 = *v27;
  v29 = (struct S17_struct_std___Rb_tree_node_base**)(&(*v28).f2);
  *v29 = v16;
  v30 = (struct S17_struct_std___Rb_tree_node_base**)(&(*v15).f3);
  *v30 = v21;
  v31 = *v20;
  v32 = (struct S17_struct_std___Rb_tree_node_base**)(&(*v31).f1);
  *v32 = v15;
  goto L9;
L9: ;
  v33 = *v0;
  v34 = ((u8*)v33 == (u8*)a0);
  if (v34) {
    v42 = v0;
    goto L11;
  } else {
    goto L10;
  }
L10: ;
  v35 = (struct S17_struct_std___Rb_tree_node_base**)(&(*a0).f1);
  v36 = *v35;
  v37 = (struct S17_struct_std___Rb_tree_node_base**)(&(*v36).f2);
  v38 = *v37;
  v39 = ((u8*)v38 == (u8*)a0);
  v40 = (struct S17_struct_std___Rb_tree_node_base**)(&(*v36).f3);
  v41 = (v39 ? v37 : v40);
  v42 = v41;
  goto L11;
L11: ;
  *v42 = v15;
  v43 = (struct S17_struct_std___Rb_tree_node_base**)(&(*a0).f1);
  v44 = *v43;
  v45 = (struct S17_struct_std___Rb_tree_node_base**)(&(*v15).f1);
  *v45 = v44;
  v82 = a0;
  goto L26;
L12: ;
  v46 = ((u8*)v16 == (u8*)((struct S17_struct_std___Rb_tree_node_base*)0));
  if (v46) {
    goto L14;
  } else {
    goto L13;
  }
L13: ;
  v47 = (struct S17_struct_std___Rb_tree_node_base**)(&(*v15).f1);
  v48 = *v47;
  v49 = (struct S17_struct_std___Rb_tree_node_base**)(&(*v16).f1);
  *v49 = v48;
  goto L14;
L14: ;
  v50 = *v0;
  v51 = ((u8*)v50 == (u8*)a0);
  if (v51) {
    v59 = v0;
    goto L16;
  } else {
    goto L15;
  }
L15: ;
  v52 = (struct S17_struct_std___Rb_tree_node_base**)(&(*a0).f1);
  v53 = *v52;
  v54 = (struct S17_struct_std___Rb_tree_node_base**)(&(*v53).f2);
  v55 = *v54;
  v56 = ((u8*)v55 == (u8*)a0);
  v57 = (struct S17_struct_std___Rb_tree_node_base**)(&(*v53).f3);
  v58 = (v56 ? v54 : v57);
  v59 = v58;
  goto L16;
L16: ;
  *v59 = v16;
  v60 = *v1;
  v61 = ((u8*)v60 == (u8*)a0);
  if (v61) {
    goto L17;
  } else {
    goto L21;
  }
L17: ;
  v62 = (struct S17_struct_std___Rb_tree_node_base**)(&(*a0).f3);
  v63 = *v62;
  v64 = ((u8*)v63 == (u8*)((struct S17_struct_std___Rb_tree_node_base*)0));
  if (v64) {
    goto L18;
  } else {
    v67 = v16;
    goto L19;
  }
L18: ;
  v65 = (struct S17_struct_std___Rb_tree_node_base**)(&(*a0).f1);
  v66 = *v65;
  v71 = v66;
  goto L20;
L19: ;
  v68 = (struct S17_struct_std___Rb_tree_node_base**)(&(*v67).f2);
  v69 = *v68;
  v70 = ((u8*)v69 == (u8*)((struct S17_struct_std___Rb_tree_node_base*)0));
  if (v70) {
    v71 = v67;
    goto L20;
  } else {
    v67 = v69;
    goto L19;
  }
L20: ;
  *v1 = v71;
  goto L21;
L21: ;
  v72 = *v2;
  v73 = ((u8*)v72 == (u8*)a0);
  if (v73) {
    goto L22;
  } else {
    v82 = v15;
    goto L26;
  }
L22: ;
  v74 = *v3;
  v75 = ((u8*)v74 == (u8*)((struct S17_struct_std___Rb_tree_node_base*)0));
  if (v75) {
    goto L23;
  } else {
    v78 = v16;
    goto L24;
  }
L23: ;
  v76 = (struct S17_struct_std___Rb_tree_node_base**)(&(*a0).f1);
  v77 = *v76;
  *v2 = v77;
  v82 = v15;
  goto L26;
L24: ;
  v79 = (struct S17_struct_std___Rb_tree_node_base**)(&(*v78).f3);
  v80 = *v79;
  v81 = ((u8*)v80 == (u8*)((struct S17_struct_std___Rb_tree_node_base*)0));
  if (v81) {
    goto L25;
  } else {
    v78 = v80;
    goto L24;
  }
L25: ;
  *v2 = v78;
  v82 = v15;
  goto L26;
L26: ;
  return v82;
}

void _ZSt20__throw_length_errorPKc(u8* a0) {
L0: ;
  v_throw_std(((u32)1ULL));
  if (v_exc) return;
  __CPROVER_assume(0);
}

void _ZSt17__throw_bad_allocv(void) {
L0: ;
  v_throw_std(((u32)2ULL));
  if (v_exc) return;
  __CPROVER_assume(0);
}

void _ZSt19__throw_logic_errorPKc(u8* a0) {
L0: ;
  v_throw_std(((u32)5ULL));
  if (v_exc) return;
  __CPROVER_assume(0);
}

u8* _ZNSt7__cxx1112basic_stringIcSt11char_traitsIcESaIcEE9_M_createERmm(struct S14_class_std____cxx11__basic_string* a0, u64* a1, u64 a2) {
  u64 v0;
  u1 v1;
  u1 v2;
  u64 v3;
  u1 v4;
  u1 v5;
  u64 v6;
  u64 v7;
  u64 v8;
  u1 v9;
  u8* v10;
L0: ;
  v0 = *a1;
  v1 = (v0 > ((u64)4611686018427387903ULL));
  if (v1) {
    goto L1;
  } else {
    goto L2;
  }
L1: ;
  _ZSt20__throw_length_errorPKc(((u8*)0));
  if (v_exc) return (u8*)0;
  __CPROVER_assume(0);
L2: ;
  v2 = (v0 > a2);
  if (v2) {
    goto L3;
  } else {
    goto L5;
  }
L3: ;
  v3 = ((u64)(a2 << ((u64)1ULL)));
  v4 = (v0 < v3);
  if (v4) {
    goto L4;
  } else {
    goto L5;
  }
L4: ;
  v5 = (v3 < ((u64)4611686018427387903ULL));
  v6 = (v5 ? v3 : ((u64)4611686018427387903ULL));
  *a1 = v6;
  goto L5;
L5: ;
  v7 = *a1;
  v8 = ((u64)(v7 + ((u64)1ULL)));
  v9 = (((s64)v8) < ((s64)((u64)0ULL)));
  if (v9) {
    goto L6;
  } else {
    goto L7;
  }
L6: ;
  _ZSt17__throw_bad_allocv();
  if (v_exc) return (u8*)0;
  __CPROVER_assume(0);
L7: ;
  v10 = _Znwm(v8);
  if (v_exc) return (u8*)0;
  return v10;
}

void _ZNSt8bad_castD1Ev(struct S27_class_std__bad_cast* a0) { }
void _ZNSt13runtime_errorC1EPKc(struct S29_class_std__runtime_error* a0, u8* a1) { }
void _ZNSt13runtime_errorD1Ev(struct S29_class_std__runtime_error* a0) { }
struct S23_class_std__basic_ostream* _ZNSo9_M_insertIbEERSoT_(struct S23_class_std__basic_ostream* a0, u1 a1) { return a0; }
struct S23_class_std__basic_ostream* _ZNSo3putEc(struct S23_class_std__basic_ostream* a0, u8 a1) { return a0; }
struct S23_class_std__basic_ostream* _ZNSo5flushEv(struct S23_class_std__basic_ostream* a0) { return a0; }
void _ZNSt13runtime_errorD2Ev(struct S29_class_std__runtime_error* a0) { }
void _ZNSt13runtime_errorC2EPKc(struct S29_class_std__runtime_error* a0, u8* a1) { }
u8* _ZNKSt13runtime_error4whatEv(struct S29_class_std__runtime_error* a0) { static u8 empty[1]; return (u8*)empty; }
void v_run_static_init(void) {
  static int done; if (done) return; done = 1;
  _GLOBAL__sub_I_C07_propcodecs_cpp();
  _GLOBAL__sub_I_Decoder_cc();
  _GLOBAL__sub_I_Encoder_cc();
  _GLOBAL__sub_I_WriteBuffer_cc();
  _GLOBAL__sub_I_ResourceManager_cc();
  _GLOBAL__sub_I_PropertyStorageBase_cc();
}
u1 v_exc_match(u8* want) {
  if (v_exc_ti == (u8*)&_ZTISt11_Mutex_baseILN9__gnu_cxx12_Lock_policyE2EE) return 0 || want == (u8*)&_ZTISt11_Mutex_baseILN9__gnu_cxx12_Lock_policyE2EE;
  if (v_exc_ti == (u8*)&_ZTISt16_Sp_counted_baseILN9__gnu_cxx12_Lock_policyE2EE) return 0 || want == (u8*)&_ZTISt11_Mutex_baseILN9__gnu_cxx12_Lock_policyE2EE || want == (u8*)&_ZTISt16_Sp_counted_baseILN9__gnu_cxx12_Lock_policyE2EE;
  if (v_exc_ti == (u8*)&_ZTISt23_Sp_counted_ptr_inplaceIN14OpenVolumeMesh2IO16PropertyEncoderTIbNS1_6Codecs13BoolPropCodecEEESaIvELN9__gnu_cxx12_Lock_policyE2EE) return 0 || want == (u8*)&_ZTISt11_Mutex_baseILN9__gnu_cxx12_Lock_policyE2EE || want == (u8*)&_ZTISt16_Sp_counted_baseILN9__gnu_cxx12_Lock_policyE2EE || want == (u8*)&_ZTISt23_Sp_counted_ptr_inplaceIN14OpenVolumeMesh2IO16PropertyEncoderTIbNS1_6Codecs13BoolPropCodecEEESaIvELN9__gnu_cxx12_Lock_policyE2EE;
  if (v_exc_ti == (u8*)&_ZTIN14OpenVolumeMesh2IO19PropertyEncoderBaseE) return 0 || want == (u8*)&_ZTIN14OpenVolumeMesh2IO19PropertyEncoderBaseE;
  if (v_exc_ti == (u8*)&_ZTIN14OpenVolumeMesh2IO16PropertyEncoderTIbNS0_6Codecs13BoolPropCodecEEE) return 0 || want == (u8*)&_ZTIN14OpenVolumeMesh2IO16PropertyEncoderTIbNS0_6Codecs13BoolPropCodecEEE || want == (u8*)&_ZTIN14OpenVolumeMesh2IO19PropertyEncoderBaseE;
  if (v_exc_ti == (u8*)&_ZTISt8bad_cast) return 0 || want == (u8*)&_ZTISt8bad_cast;
  if (v_exc_ti == (u8*)&_ZTIb) return 0 || want == (u8*)&_ZTIb;
  if (v_exc_ti == (u8*)&_ZTISt23_Sp_counted_ptr_inplaceIN14OpenVolumeMesh2IO16PropertyDecoderTIbNS1_6Codecs13BoolPropCodecEEESaIvELN9__gnu_cxx12_Lock_policyE2EE) return 0 || want == (u8*)&_ZTISt11_Mutex_baseILN9__gnu_cxx12_Lock_policyE2EE || want == (u8*)&_ZTISt16_Sp_counted_baseILN9__gnu_cxx12_Lock_policyE2EE || want == (u8*)&_ZTISt23_Sp_counted_ptr_inplaceIN14OpenVolumeMesh2IO16PropertyDecoderTIbNS1_6Codecs13BoolPropCodecEEESaIvELN9__gnu_cxx12_Lock_policyE2EE;
  if (v_exc_ti == (u8*)&_ZTIN14OpenVolumeMesh2IO19PropertyDecoderBaseE) return 0 || want == (u8*)&_ZTIN14OpenVolumeMesh2IO19PropertyDecoderBaseE;
  if (v_exc_ti == (u8*)&_ZTIN14OpenVolumeMesh2IO16PropertyDecoderTIbNS0_6Codecs13BoolPropCodecEEE) return 0 || want == (u8*)&_ZTIN14OpenVolumeMesh2IO16PropertyDecoderTIbNS0_6Codecs13BoolPropCodecEEE || want == (u8*)&_ZTIN14OpenVolumeMesh2IO19PropertyDecoderBaseE;
  if (v_exc_ti == (u8*)&_ZTIN14OpenVolumeMesh18PropertyStoragePtrIbEE) return 0 || want == (u8*)&_ZTIN14OpenVolumeMesh18PropertyStoragePtrIbEE;
  if (v_exc_ti == (u8*)&_ZTIN14OpenVolumeMesh14HandleIndexingINS_6Entity6VertexENS_18PropertyStoragePtrIbEEEE) return 0 || want == (u8*)&_ZTIN14OpenVolumeMesh14HandleIndexingINS_6Entity6VertexENS_18PropertyStoragePtrIbEEEE || want == (u8*)&_ZTIN14OpenVolumeMesh18PropertyStoragePtrIbEE;
  if (v_exc_ti == (u8*)&_ZTIN14OpenVolumeMesh15BasePropertyPtrE) return 0 || want == (u8*)&_ZTIN14OpenVolumeMesh15BasePropertyPtrE;
  if (v_exc_ti == (u8*)&_ZTIN14OpenVolumeMesh11PropertyPtrIbNS_6Entity6VertexEEE) return 0 || want == (u8*)&_ZTIN14OpenVolumeMesh11PropertyPtrIbNS_6Entity6VertexEEE || want == (u8*)&_ZTIN14OpenVolumeMesh14HandleIndexingINS_6Entity6VertexENS_18PropertyStoragePtrIbEEEE || want == (u8*)&_ZTIN14OpenVolumeMesh15BasePropertyPtrE || want == (u8*)&_ZTIN14OpenVolumeMesh18PropertyStoragePtrIbEE;
  if (v_exc_ti == (u8*)&_ZTISt23_Sp_counted_ptr_inplaceIN14OpenVolumeMesh16PropertyStorageTIbEESaIvELN9__gnu_cxx12_Lock_policyE2EE) return 0 || want == (u8*)&_ZTISt11_Mutex_baseILN9__gnu_cxx12_Lock_policyE2EE || want == (u8*)&_ZTISt16_Sp_counted_baseILN9__gnu_cxx12_Lock_policyE2EE || want == (u8*)&_ZTISt23_Sp_counted_ptr_inplaceIN14OpenVolumeMesh16PropertyStorageTIbEESaIvELN9__gnu_cxx12_Lock_policyE2EE;
  if (v_exc_ti == (u8*)&_ZTISt23enable_shared_from_thisIN14OpenVolumeMesh19PropertyStorageBaseEE) return 0 || want == (u8*)&_ZTISt23enable_shared_from_thisIN14OpenVolumeMesh19PropertyStorageBaseEE;
  if (v_exc_ti == (u8*)&_ZTIN14OpenVolumeMesh6detail7TrackedINS_19PropertyStorageBaseEEE) return 0 || want == (u8*)&_ZTIN14OpenVolumeMesh6detail7TrackedINS_19PropertyStorageBaseEEE;
  if (v_exc_ti == (u8*)&_ZTIN14OpenVolumeMesh19PropertyStorageBaseE) return 0 || want == (u8*)&_ZTIN14OpenVolumeMesh19PropertyStorageBaseE || want == (u8*)&_ZTIN14OpenVolumeMesh6detail7TrackedINS_19PropertyStorageBaseEEE || want == (u8*)&_ZTISt23enable_shared_from_thisIN14OpenVolumeMesh19PropertyStorageBaseEE;
  if (v_exc_ti == (u8*)&_ZTIN14OpenVolumeMesh16PropertyStorageTIbEE) return 0 || want == (u8*)&_ZTIN14OpenVolumeMesh16PropertyStorageTIbEE || want == (u8*)&_ZTIN14OpenVolumeMesh19PropertyStorageBaseE || want == (u8*)&_ZTIN14OpenVolumeMesh6detail7TrackedINS_19PropertyStorageBaseEEE || want == (u8*)&_ZTISt23enable_shared_from_thisIN14OpenVolumeMesh19PropertyStorageBaseEE;
  if (v_exc_ti == (u8*)&_ZTIN14OpenVolumeMesh14HandleIndexingINS_6Entity4EdgeENS_18PropertyStoragePtrIbEEEE) return 0 || want == (u8*)&_ZTIN14OpenVolumeMesh14HandleIndexingINS_6Entity4EdgeENS_18PropertyStoragePtrIbEEEE || want == (u8*)&_ZTIN14OpenVolumeMesh18PropertyStoragePtrIbEE;
  if (v_exc_ti == (u8*)&_ZTIN14OpenVolumeMesh11PropertyPtrIbNS_6Entity4EdgeEEE) return 0 || want == (u8*)&_ZTIN14OpenVolumeMesh11PropertyPtrIbNS_6Entity4EdgeEEE || want == (u8*)&_ZTIN14OpenVolumeMesh14HandleIndexingINS_6Entity4EdgeENS_18PropertyStoragePtrIbEEEE || want == (u8*)&_ZTIN14OpenVolumeMesh15BasePropertyPtrE || want == (u8*)&_ZTIN14OpenVolumeMesh18PropertyStoragePtrIbEE;
  if (v_exc_ti == (u8*)&_ZTIN14OpenVolumeMesh14HandleIndexingINS_6Entity8HalfEdgeENS_18PropertyStoragePtrIbEEEE) return 0 || want == (u8*)&_ZTIN14OpenVolumeMesh14HandleIndexingINS_6Entity8HalfEdgeENS_18PropertyStoragePtrIbEEEE || want == (u8*)&_ZTIN14OpenVolumeMesh18PropertyStoragePtrIbEE;
  if (v_exc_ti == (u8*)&_ZTIN14OpenVolumeMesh11PropertyPtrIbNS_6Entity8HalfEdgeEEE) return 0 || want == (u8*)&_ZTIN14OpenVolumeMesh11PropertyPtrIbNS_6Entity8HalfEdgeEEE || want == (u8*)&_ZTIN14OpenVolumeMesh14HandleIndexingINS_6Entity8HalfEdgeENS_18PropertyStoragePtrIbEEEE || want == (u8*)&_ZTIN14OpenVolumeMesh15BasePropertyPtrE || want == (u8*)&_ZTIN14OpenVolumeMesh18PropertyStoragePtrIbEE;
  if (v_exc_ti == (u8*)&_ZTIN14OpenVolumeMesh14HandleIndexingINS_6Entity4FaceENS_18PropertyStoragePtrIbEEEE) return 0 || want == (u8*)&_ZTIN14OpenVolumeMesh14HandleIndexingINS_6Entity4FaceENS_18PropertyStoragePtrIbEEEE || want == (u8*)&_ZTIN14OpenVolumeMesh18PropertyStoragePtrIbEE;
  if (v_exc_ti == (u8*)&_ZTIN14OpenVolumeMesh11PropertyPtrIbNS_6Entity4FaceEEE) return 0 || want == (u8*)&_ZTIN14OpenVolumeMesh11PropertyPtrIbNS_6Entity4FaceEEE || want == (u8*)&_ZTIN14OpenVolumeMesh14HandleIndexingINS_6Entity4FaceENS_18PropertyStoragePtrIbEEEE || want == (u8*)&_ZTIN14OpenVolumeMesh15BasePropertyPtrE || want == (u8*)&_ZTIN14OpenVolumeMesh18PropertyStoragePtrIbEE;
  if (v_exc_ti == (u8*)&_ZTIN14OpenVolumeMesh14HandleIndexingINS_6Entity8HalfFaceENS_18PropertyStoragePtrIbEEEE) return 0 || want == (u8*)&_ZTIN14OpenVolumeMesh14HandleIndexingINS_6Entity8HalfFaceENS_18PropertyStoragePtrIbEEEE || want == (u8*)&_ZTIN14OpenVolumeMesh18PropertyStoragePtrIbEE;
  if (v_exc_ti == (u8*)&_ZTIN14OpenVolumeMesh11PropertyPtrIbNS_6Entity8HalfFaceEEE) return 0 || want == (u8*)&_ZTIN14OpenVolumeMesh11PropertyPtrIbNS_6Entity8HalfFaceEEE || want == (u8*)&_ZTIN14OpenVolumeMesh14HandleIndexingINS_6Entity8HalfFaceENS_18PropertyStoragePtrIbEEEE || want == (u8*)&_ZTIN14OpenVolumeMesh15BasePropertyPtrE || want == (u8*)&_ZTIN14OpenVolumeMesh18PropertyStoragePtrIbEE;
  if (v_exc_ti == (u8*)&_ZTIN14OpenVolumeMesh14HandleIndexingINS_6Entity4CellENS_18PropertyStoragePtrIbEEEE) return 0 || want == (u8*)&_ZTIN14OpenVolumeMesh14HandleIndexingINS_6Entity4CellENS_18PropertyStoragePtrIbEEEE || want == (u8*)&_ZTIN14OpenVolumeMesh18PropertyStoragePtrIbEE;
  if (v_exc_ti == (u8*)&_ZTIN14OpenVolumeMesh11PropertyPtrIbNS_6Entity4CellEEE) return 0 || want == (u8*)&_ZTIN14OpenVolumeMesh11PropertyPtrIbNS_6Entity4CellEEE || want == (u8*)&_ZTIN14OpenVolumeMesh14HandleIndexingINS_6Entity4CellENS_18PropertyStoragePtrIbEEEE || want == (u8*)&_ZTIN14OpenVolumeMesh15BasePropertyPtrE || want == (u8*)&_ZTIN14OpenVolumeMesh18PropertyStoragePtrIbEE;
  if (v_exc_ti == (u8*)&_ZTIN14OpenVolumeMesh14HandleIndexingINS_6Entity4MeshENS_18PropertyStoragePtrIbEEEE) return 0 || want == (u8*)&_ZTIN14OpenVolumeMesh14HandleIndexingINS_6Entity4MeshENS_18PropertyStoragePtrIbEEEE || want == (u8*)&_ZTIN14OpenVolumeMesh18PropertyStoragePtrIbEE;
  if (v_exc_ti == (u8*)&_ZTIN14OpenVolumeMesh11PropertyPtrIbNS_6Entity4MeshEEE) return 0 || want == (u8*)&_ZTIN14OpenVolumeMesh11PropertyPtrIbNS_6Entity4MeshEEE || want == (u8*)&_ZTIN14OpenVolumeMesh14HandleIndexingINS_6Entity4MeshENS_18PropertyStoragePtrIbEEEE || want == (u8*)&_ZTIN14OpenVolumeMesh15BasePropertyPtrE || want == (u8*)&_ZTIN14OpenVolumeMesh18PropertyStoragePtrIbEE;
  if (v_exc_ti == (u8*)&_ZTIN14OpenVolumeMesh2IO6detail11parse_errorE) return 0 || want == (u8*)&_ZTIN14OpenVolumeMesh2IO6detail11parse_errorE || want == (u8*)&_ZTIN14OpenVolumeMesh2IO6detail8io_errorE || want == (u8*)&_ZTISt13runtime_error;
  if (v_exc_ti == (u8*)&_ZTISt13runtime_error) return 0 || want == (u8*)&_ZTISt13runtime_error;
  if (v_exc_ti == (u8*)&_ZTIN14OpenVolumeMesh2IO6detail8io_errorE) return 0 || want == (u8*)&_ZTIN14OpenVolumeMesh2IO6detail8io_errorE || want == (u8*)&_ZTISt13runtime_error;
  if (v_exc_ti == (u8*)&_ZTISt12bad_weak_ptr) return 0 || want == (u8*)&_ZTISt12bad_weak_ptr;
  return 0;
}
